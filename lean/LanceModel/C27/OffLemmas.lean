import LanceModel.C27.SerLemmas
/-!
C27 helper lemmas, part 2: one list layer — `record_offsets` followed by the unraveler's offsets loop.
-/
namespace LanceModel.C27

/-- the unraveler's levels of one entry: rep level after `R` unravelled lists, def level with `D` levels below -/
def VP (R D : Nat) (e : Entry) (p : Nat × Nat) : Prop := VR R e p.1 ∧ VD D e p.2

theorem Rel2_append {α β : Type} {R : α → β → Prop} :
    ∀ (a b : List α) (S : List β), Rel2 R (a ++ b) S → ∃ S1 S2, S = S1 ++ S2 ∧ Rel2 R a S1 ∧ Rel2 R b S2
  | [], b, S, h => ⟨[], S, rfl, trivial, h⟩
  | x :: a, b, [], h => by simp [Rel2] at h
  | x :: a, b, y :: S, h => by
    obtain ⟨S1, S2, hS, h1, h2⟩ := Rel2_append a b S h.2
    exact ⟨y :: S1, S2, by simp [hS], ⟨h.1, h1⟩, h2⟩

theorem offLoop_skip (nl el ml up : Nat) :
    ∀ (zs S : List (Nat × Nat)) (cur : Nat), (∀ p ∈ zs, p.1 = 0) →
      offLoop nl el ml up (zs ++ S) cur = offLoop nl el ml up S (cur + zs.length)
  | [], S, cur, _ => by simp
  | (r, d) :: zs, S, cur, h => by
    have hr : r = 0 := h (r, d) (by simp)
    subst hr
    simp only [List.cons_append, offLoop, ne_eq, not_true_eq_false, if_false, List.length_cons]
    rw [offLoop_skip nl el ml up zs S (cur + 1) (fun p hp => h p (by simp [hp]))]
    congr 1; omega

/-- the entries line up with the list lengths: one length per non-special entry, a masked or null entry has
    length 0, and an empty live list only occurs when the layer has an empty level -/
def AlignedOff (hasEmpty : Bool) : List Entry → List Nat → Prop
  | [], lens => lens = []
  | e :: es, lens =>
    if e.dl > T then AlignedOff hasEmpty es lens
    else match lens with
      | [] => False
      | len :: ls => (e.dl ≠ 0 → len = 0) ∧ (e.dl = 0 → len = 0 → hasEmpty = true) ∧ AlignedOff hasEmpty es ls

/-- entry invariant in front of the offsets loop of a list layer (its own validity already recorded) -/
def EInvL (D R K nl : Nat) (hasNull : Bool) (e : Entry) : Prop :=
  (T < e.dl ∧ D + K < e.dl - T ∧ R < e.rep) ∨
  (e.dl ≤ T ∧ (e.rep = 0 ∨ R < e.rep) ∧
    (e.dl = 0 ∨ (hasNull = true ∧ e.dl = nl) ∨ (D < e.dl ∧ e.dl ≤ D + K)))

theorem views_replicate (R D : Nat) :
    ∀ (n : Nat) (S : List (Nat × Nat)), Rel2 (VP R D) (List.replicate n ⟨0, 0⟩) S →
      S.length = n ∧ ∀ p ∈ S, p.1 = 0
  | 0, [], _ => ⟨rfl, by simp⟩
  | 0, _ :: _, h => by simp [Rel2] at h
  | n + 1, [], h => by simp [List.replicate, Rel2] at h
  | n + 1, p :: S, h => by
    rw [List.replicate_succ] at h
    obtain ⟨h1, h2⟩ := views_replicate R D n S h.2
    have hp : p.1 = 0 := by
      have := h.1.1; unfold VR at this; simpa using this
    refine ⟨by simp [h1], ?_⟩
    intro q hq
    rcases List.mem_cons.mp hq with rfl | hq
    · exact hp
    · exact h2 q hq

/-- One list layer.  `D' `/`R'`: def levels / lists of the layers below; the layer uses `used` levels (`nl` for a null
    list, `el` for an empty list, 0 when it has none); `K` nullable struct layers sit directly above it.
    If the unraveler's levels view the entries written by `record_offsets`, then its offsets loop returns the
    offsets of the lengths, reads a list valid iff its entry was live, and keeps levels that view the entries the
    layer started from. -/
theorem offsets_view (D' R' used K nl el : Nat) (hasNull hasEmpty : Bool)
    (hT : D' + used + K ≤ T)
    (hnl1 : hasNull = true → nl = D' + 1 ∧ 1 ≤ used) (hnl0 : hasNull = false → nl = 0)
    (hel1 : hasEmpty = true → el = D' + used ∧ 1 ≤ used ∧ (hasNull = true → 2 ≤ used)) (hel0 : hasEmpty = false → el = 0) :
    ∀ (E : List Entry) (lens : List Nat) (S : List (Nat × Nat)) (cur : Nat),
      (∀ e ∈ E, EInvL (D' + used) (R' + 1) K nl hasNull e) → AlignedOff hasEmpty E lens →
      Rel2 (VP R' D') (recOffsets (R' + 1) el E lens) S →
      (offLoop nl el (D' + used + K) (D' + used) S cur).offs ++
          [(offLoop nl el (D' + used + K) (D' + used) S cur).cur] = offsetsFrom cur lens ∧
        (offLoop nl el (D' + used + K) (D' + used) S cur).bits = maskOf E ∧
        Rel2 (VP (R' + 1) (D' + used)) E (offLoop nl el (D' + used + K) (D' + used) S cur).kept
  | [], lens, S, cur, _, hal, hv => by
    have hl : lens = [] := hal
    subst hl
    cases S with
    | nil => exact ⟨rfl, rfl, trivial⟩
    | cons p S => simp [recOffsets, Rel2] at hv
  | e :: es, lens, S, cur, hinv, hal, hv => by
    have hinv' : ∀ x ∈ es, EInvL (D' + used) (R' + 1) K nl hasNull x := fun x hx => hinv x (by simp [hx])
    have he := hinv e (by simp)
    unfold recOffsets at hv
    unfold AlignedOff at hal
    by_cases hs : e.dl > T
    · -- a special entry of an outer list: not visible here, kept
      rw [if_pos hs] at hv hal
      cases S with
      | nil => simp [Rel2] at hv
      | cons p S =>
        obtain ⟨r, d⟩ := p
        obtain ⟨ih1, ih2, ih3⟩ := offsets_view D' R' used K nl el hasNull hasEmpty hT hnl1 hnl0 hel1 hel0
          es lens S cur hinv' hal hv.2
        have hr : r = e.rep - R' := hv.1.1
        have hd : d = e.dl - T := by
          have := hv.1.2; unfold VD at this
          rw [if_neg (by omega), normLevel_of_gt hs] at this; exact this
        rcases he with ⟨_, hbig, hrep⟩ | ⟨hle, _⟩
        · have hr0 : r ≠ 0 := by omega
          have hd0 : d ≠ 0 := by omega
          have hdm : d > D' + used + K := by omega
          simp only [offLoop, ne_eq, hr0, not_false_eq_true, if_true, hd0, if_false, hdm, OffAcc.push,
            Option.toList, List.nil_append, List.singleton_append]
          refine ⟨ih1, ?_, ?_, ih3⟩
          · simp only [maskOf, if_pos hs]; exact ih2
          · constructor
            · show r - 1 = e.rep - (R' + 1); omega
            · unfold VD; rw [if_neg (by omega), normLevel_of_gt hs]; exact hd
        · omega
    · rw [if_neg hs] at hv hal
      cases lens with
      | nil => exact absurd hal (by simp)
      | cons len lens =>
        obtain ⟨hmask, hemp, hal'⟩ := hal
        rcases he with ⟨hbad, _⟩ | ⟨hle, hrep, hcase⟩
        · omega
        · simp only at hv
          have hll : (if e.rep = 0 then R' + 1 else e.rep) - R' ≠ 0 := by
            split <;> omega
          have hll2 : (if e.rep = 0 then R' + 1 else e.rep) - R' - 1 = e.rep - (R' + 1) := by
            split <;> omega
          by_cases h0 : e.dl = 0
          · by_cases hlen : 0 < len
            · -- a live non-empty list: `len` items, the first one starts the list
              rw [if_pos ⟨h0, hlen⟩] at hv
              cases S with
              | nil => simp [Rel2] at hv
              | cons p S =>
                obtain ⟨r, d⟩ := p
                obtain ⟨S1, S2, hS, hz, hrest⟩ := Rel2_append _ _ S hv.2
                obtain ⟨hzl, hz0⟩ := views_replicate R' D' _ S1 hz
                obtain ⟨ih1, ih2, ih3⟩ := offsets_view D' R' used K nl el hasNull hasEmpty hT hnl1 hnl0 hel1 hel0
                  es lens S2 (cur + 1 + S1.length) hinv' hal' hrest
                have hr : r = (if e.rep = 0 then R' + 1 else e.rep) - R' := hv.1.1
                have hd : d ≤ D' := by
                  have := hv.1.2; unfold VD at this; simpa using this
                have hr0 : r ≠ 0 := by omega
                have hcur : cur + 1 + S1.length = cur + len := by omega
                have hkept : VP (R' + 1) (D' + used) e (r - 1, d) := by
                  constructor
                  · show r - 1 = e.rep - (R' + 1); omega
                  · unfold VD; rw [if_pos h0]; show d ≤ D' + used; omega
                subst hS
                by_cases hd0 : d = 0
                · simp only [offLoop, ne_eq, hr0, not_false_eq_true, if_true, hd0, OffAcc.push,
                    Option.toList, List.singleton_append]
                  rw [offLoop_skip _ _ _ _ S1 S2 (cur + 1) hz0]
                  refine ⟨?_, ?_, ?_⟩
                  · rw [List.cons_append, ih1, hcur]; rfl
                  · simp only [maskOf, if_neg hs, h0, ih2]; rfl
                  · exact ⟨by simpa [hd0] using hkept, ih3⟩
                · have h1 : ¬ d > D' + used + K := by omega
                  have h2 : ¬ (d = nl ∨ d > D' + used) := by
                    intro h
                    rcases h with h | h
                    · cases hasNull with
                      | true => have := (hnl1 rfl).1; omega
                      | false => have := hnl0 rfl; omega
                    · omega
                  have h3 : ¬ d = el := by
                    cases hasEmpty with
                    | true => have := (hel1 rfl).1; have := (hel1 rfl).2.1; omega
                    | false => have := hel0 rfl; omega
                  simp only [offLoop, ne_eq, hr0, not_false_eq_true, if_true, hd0, if_false, h1, h2, h3,
                    OffAcc.push, Option.toList, List.singleton_append]
                  rw [offLoop_skip _ _ _ _ S1 S2 (cur + 1) hz0]
                  refine ⟨?_, ?_, ?_⟩
                  · rw [List.cons_append, ih1, hcur]; rfl
                  · simp only [maskOf, if_neg hs, h0, ih2]; rfl
                  · exact ⟨hkept, ih3⟩
            · -- a live empty list: one special entry with the empty level
              have hlen0 : len = 0 := by omega
              have hE : hasEmpty = true := hemp h0 hlen0
              obtain ⟨hel, hu1, hu2⟩ := hel1 hE
              rw [if_neg (by omega), if_pos h0] at hv
              cases S with
              | nil => simp [Rel2] at hv
              | cons p S =>
                obtain ⟨r, d⟩ := p
                obtain ⟨ih1, ih2, ih3⟩ := offsets_view D' R' used K nl el hasNull hasEmpty hT hnl1 hnl0 hel1 hel0
                  es lens S cur hinv' hal' hv.2
                have hr : r = (if e.rep = 0 then R' + 1 else e.rep) - R' := hv.1.1
                have hd : d = el := by
                  have := hv.1.2; unfold VD at this; simp only at this
                  rw [if_neg (by omega), normLevel_of_gt (by omega)] at this; omega
                subst hd
                have hr0 : r ≠ 0 := by omega
                have hd0 : d ≠ 0 := by omega
                have h1 : ¬ d > D' + used + K := by omega
                have h2 : ¬ (d = nl ∨ d > D' + used) := by
                  intro h
                  rcases h with h | h
                  · cases hasNull with
                    | true => have := (hnl1 rfl).1; have := hu2 rfl; omega
                    | false => have := hnl0 rfl; omega
                  · omega
                simp only [offLoop, ne_eq, hr0, not_false_eq_true, if_true, hd0, if_false, h1, h2,
                  OffAcc.push, Option.toList, List.singleton_append]
                refine ⟨?_, ?_, ?_⟩
                · subst hlen0; rw [List.cons_append, ih1]; rfl
                · simp only [maskOf, if_neg hs, h0, ih2]; rfl
                · refine ⟨⟨?_, ?_⟩, ih3⟩
                  · show r - 1 = e.rep - (R' + 1); omega
                  · unfold VD; rw [if_pos h0]; show d ≤ D' + used; omega
          · -- a null list, or a list masked by a null struct: one special entry with its level
            have hlen0 : len = 0 := hmask h0
            rw [if_neg (by omega), if_neg h0] at hv
            cases S with
            | nil => simp [Rel2] at hv
            | cons p S =>
              obtain ⟨r, d⟩ := p
              obtain ⟨ih1, ih2, ih3⟩ := offsets_view D' R' used K nl el hasNull hasEmpty hT hnl1 hnl0 hel1 hel0
                es lens S cur hinv' hal' hv.2
              have hr : r = (if e.rep = 0 then R' + 1 else e.rep) - R' := hv.1.1
              have hd : d = e.dl := by
                have := hv.1.2; unfold VD at this; simp only at this
                rw [if_neg (by omega), normLevel_of_gt (by omega)] at this; omega
              have hr0 : r ≠ 0 := by omega
              have hd0 : d ≠ 0 := by omega
              have hrange : (hasNull = true ∧ e.dl = nl) ∨ (D' + used < e.dl ∧ e.dl ≤ D' + used + K) := by
                rcases hcase with h | h | h
                · exact absurd h h0
                · exact Or.inl h
                · exact Or.inr h
              have h1 : ¬ d > D' + used + K := by
                rcases hrange with h | h
                · have := (hnl1 h.1).1; have := (hnl1 h.1).2; omega
                · omega
              have h2 : d = nl ∨ d > D' + used := by
                rcases hrange with h | h
                · exact Or.inl (by omega)
                · exact Or.inr (by omega)
              simp only [offLoop, ne_eq, hr0, not_false_eq_true, if_true, hd0, if_false, h1, h2,
                OffAcc.push, Option.toList, List.singleton_append]
              refine ⟨?_, ?_, ?_⟩
              · subst hlen0; rw [List.cons_append, ih1]; rfl
              · simp only [maskOf, if_neg hs, ih2]; simp [h0]
              · refine ⟨⟨?_, ?_⟩, ih3⟩
                · show r - 1 = e.rep - (R' + 1); omega
                · unfold VD; rw [if_neg h0, normLevel_of_le hle]; exact hd

end LanceModel.C27
