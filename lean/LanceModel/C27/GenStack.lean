import LanceModel.C27.ListGlue
/-!
C27 helper lemmas, part 7: the induction over arbitrary stacks of validity and list layers.
-/
namespace LanceModel.C27

/-- every list layer is well formed (`lensOk`) -/
def layersOk : List Layer → Bool
  | [] => true
  | .offsets lens v he _ :: ls => lensOk he lens v && layersOk ls
  | _ :: ls => layersOk ls

theorem numLists_cons (l : Layer) (ls : List Layer) : numLists (l :: ls) = l.maxRep + numLists ls := by
  simp [numLists]

theorem nlM_reverse_map (ls : List Layer) : nlM (ls.map Layer.meaning).reverse = numLists ls := by
  induction ls with
  | nil => rfl
  | cons l ls ih =>
    simp only [List.map_cons, List.reverse_cons, nlM_append, ih, numLists_cons]
    rw [maxRep_eq]; simp [nlM]; omega

theorem drop_split (a : List Meaning) (m : Meaning) (B : List Meaning) (n : Nat) (hn : n = a.length) :
    (a ++ m :: B).drop (n + 1) = B := by
  subst hn
  induction a with
  | nil => simp
  | cons x xs ih => simpa using ih

theorem structLevelsAbove_list (hn he : Bool) (B : List Meaning) : structLevelsAbove (listMeaning hn he :: B) = 0 := by
  cases hn <;> cases he <;> rfl

/-- **Arbitrary stacks, induction.**  Serialise the layers `rem` on top of a context `c`, then unravel them (innermost
    first) from the final levels: the unraveler returns the logical normal form of `rem` under the mask of `c` and is
    left with levels that view the entries of `c`. -/
theorem stack_main (Mt : Nat) :
    ∀ (rem : List Layer) (c c' : Ctx) (ks : List Kind) (u : Unr),
      noFsl rem = true → layersOk rem = true → c.hasDef = true →
      c.curDef = numDefs rem → c.curRep = numLists rem →
      c.recordLayers rem = some c' →
      (∀ e ∈ c.es, EInv (numDefs rem) (numLists rem) (structLevelsAbove c.meaningRev) Mt e) →
      alignedB (maskOf c.es) rem = true →
      numDefs rem + structLevelsAbove c.meaningRev ≤ Mt → Mt ≤ T →
      Mt = ndM c'.meaningRev →
      u.meaning = c'.meaningRev → u.l2r = 0 :: levelsToRep c'.meaningRev 0 →
      u.layer = 0 → u.defCmp = 0 → u.repCmp = 0 →
      (∃ rs0 ds0, u.rep = some rs0 ∧ u.dl = some ds0 ∧ Rel2 (VR 0) c'.es rs0 ∧ Rel2 (VD 0) c'.es ds0) →
      ∃ u1 rs ds, unravelAll [u] (kindsOf rem ++ ks) =
          (unravelAll [u1] ks).map ((nfLayers (maskOf c.es) rem).reverse ++ ·) ∧
        u1.meaning = u.meaning ∧ u1.l2r = u.l2r ∧ u1.layer = rem.length ∧ u1.defCmp = numDefs rem ∧
        u1.repCmp = numLists rem ∧ u1.rep = some rs ∧ u1.dl = some ds ∧
        Rel2 (VR (numLists rem)) c.es rs ∧ Rel2 (VD (numDefs rem)) c.es ds
  | [], c, c', ks, u, _, _, _, _, _, hrec, _, _, _, _, _, _, _, hl, hdc, hrc, hds => by
    simp only [Ctx.recordLayers, Option.some.injEq] at hrec; subst hrec
    obtain ⟨rs0, ds0, h1, h2, h3, h4⟩ := hds
    refine ⟨u, rs0, ds0, ?_, rfl, rfl, by simpa using hl, by simpa [numDefs] using hdc,
      by simpa [numLists] using hrc, h1, h2, by simpa [numLists] using h3, by simpa [numDefs] using h4⟩
    simp only [kindsOf, List.map_nil, List.reverse_nil, List.nil_append, nfLayers]
    cases unravelAll [u] ks <;> simp
  | l :: rem', c, c', ks, u, hnf, hok, hd, hcd, hcr, hrec, hinv, hal, hDK, hMT, hMt, hum, hul, hl, hdc, hrc, hds => by
    obtain ⟨c1, h1, h2⟩ := recordLayers_cons_some c c' l rem' hrec
    have hnf1 : noFsl [l] = true := by cases l <;> simp [noFsl] at hnf ⊢
    have hnf' : noFsl rem' = true := by cases l <;> simp [noFsl] at hnf ⊢ <;> exact hnf
    obtain ⟨hes, hcd1, hcr1, hd1, _, hm1⟩ := recordLayer_spec c c1 l hd hnf1 h1
    obtain ⟨hmf, _, _⟩ := recordLayers_fields rem' c1 c' hnf' hd1 h2
    have hidx : c'.meaningRev[rem'.length]? = some l.meaning := by
      rw [hmf, hm1]
      have : rem'.length = (List.map Layer.meaning rem').reverse.length := by simp
      rw [this, List.getElem?_append_right (Nat.le_refl _)]
      simp
    have hsplit : c'.meaningRev = (rem'.map Layer.meaning).reverse ++ l.meaning :: c.meaningRev := by
      rw [hmf, hm1]
    have hnda : ndM (rem'.map Layer.meaning).reverse = numDefs rem' := ndM_reverse_map rem'
    have hnla : nlM (rem'.map Layer.meaning).reverse = numLists rem' := nlM_reverse_map rem'
    cases l with
    | fsl _ _ _ => simp [noFsl] at hnf
    | validity v n =>
      have hok' : layersOk rem' = true := by simpa [layersOk] using hok
      have hkinds : kindsOf (Layer.validity v n :: rem') ++ ks = kindsOf rem' ++ (Kind.v :: ks) := by
        simp [kindsOf]
      have hnl : numLists (Layer.validity v n :: rem') = numLists rem' := by
        rw [numLists_cons]; simp [Layer.maxRep]
      rw [hnl] at hinv hcr ⊢
      have hcr1' : c1.curRep = numLists rem' := by rw [hcr1, hcr]; simp [Layer.maxRep]
      cases v with
      | none =>
        have hnd : numDefs (Layer.validity none n :: rem') = numDefs rem' := by
          rw [numDefs_cons]; simp [Layer.meaning, Meaning.numDefLevels]
        have hes' : c1.es = c.es := hes
        have hm1' : c1.meaningRev = Meaning.allValidItem :: c.meaningRev := hm1
        have hK : structLevelsAbove c1.meaningRev = structLevelsAbove c.meaningRev := by rw [hm1']; rfl
        have hal' : alignedB (maskOf c1.es) rem' = true := by
          rw [hes']; simp only [alignedB, Bool.and_eq_true] at hal; exact hal.2
        obtain ⟨u1, rs, ds, hrun, hm, hl2r, hlay, hdcmp, hrcmp, hrp, hdl, hvr, hvd⟩ :=
          stack_main Mt rem' c1 c' (Kind.v :: ks) u hnf' hok' hd1
            (by rw [hcd1, hcd, hnd]; simp [Layer.meaning, Meaning.numDefLevels]) hcr1'
            h2 (by rw [hes', hK, ← hnd]; exact hinv) hal' (by rw [hK, ← hnd]; exact hDK) hMT hMt hum hul hl hdc hrc hds
        have hav : u1.isAllValid = some true := by
          unfold Unr.isAllValid
          rw [hm, hum, hlay, hidx]; rfl
        refine ⟨u1.skipValidity, rs, ds, ?_, hm, hl2r, by simp [Unr.skipValidity, hlay], by
          simpa [Unr.skipValidity, hnd] using hdcmp, hrcmp, hrp, hdl, by rw [← hes']; exact hvr,
          by rw [hnd, ← hes']; exact hvd⟩
        rw [hkinds, hrun, unravelAll_v_cons]
        simp only [stepV, hav]
        rw [hes']
        simp only [nfLayers, List.reverse_cons]
        exact map_cons_fun _ _ _
      | some bits =>
        have hnd : numDefs (Layer.validity (some bits) n :: rem') = numDefs rem' + 1 := by
          rw [numDefs_cons]; simp [Layer.meaning, Meaning.numDefLevels]; omega
        have hes' : c1.es = recValidity (numDefs rem' + 1) c.es bits := by
          rw [hes, hcd, hnd]; rfl
        have hm1' : c1.meaningRev = Meaning.nullableItem :: c.meaningRev := hm1
        have hK : structLevelsAbove c1.meaningRev = 1 + structLevelsAbove c.meaningRev := by rw [hm1']; rfl
        rw [hnd] at hinv hDK
        have hlen : (maskOf c.es).length = bits.length := by
          simp only [alignedB, Bool.and_eq_true, beq_iff_eq] at hal; omega
        have hmask : maskOf c1.es = maskAnd (maskOf c.es) bits := by
          rw [hes']; exact maskOf_recValidity _ (by omega) (by omega) c.es bits hlen
        have hal' : alignedB (maskOf c1.es) rem' = true := by
          rw [hmask]; simp only [alignedB, Bool.and_eq_true] at hal; exact hal.2
        have hinv1 : ∀ e ∈ c1.es, EInv (numDefs rem') (numLists rem') (structLevelsAbove c1.meaningRev) Mt e := by
          rw [hes', hK]
          have := einv_recValidity (numDefs rem' + 1) (numLists rem') (structLevelsAbove c.meaningRev) Mt
            (by omega) (by omega) c.es bits hinv
          simpa using this
        obtain ⟨u1, rs, ds, hrun, hm, hl2r, hlay, hdcmp, hrcmp, hrp, hdl, hvr, hvd⟩ :=
          stack_main Mt rem' c1 c' (Kind.v :: ks) u hnf' hok' hd1
            (by rw [hcd1, hcd, hnd]; simp [Layer.meaning, Meaning.numDefLevels]) hcr1'
            h2 hinv1 hal' (by rw [hK]; omega) hMT hMt hum hul hl hdc hrc hds
        have hsplit' : c'.meaningRev = (rem'.map Layer.meaning).reverse ++ Meaning.nullableItem :: c.meaningRev :=
          hsplit
        have htab := validity_table (rem'.map Layer.meaning).reverse c.meaningRev
        rw [hnda, hnla, ← hsplit'] at htab
        rw [hes'] at hvd hvr
        obtain ⟨vis, hvis, hbits, hview'⟩ :=
          validity_view (0 :: levelsToRep c'.meaningRev 0) (numDefs rem') (numLists rem')
            (structLevelsAbove c.meaningRev) Mt (by omega) htab.1 (by rw [hMt]; exact htab.2) c.es bits ds hinv hlen hvd
        have hmean : u1.meaning[u1.layer]? = some Meaning.nullableItem := by
          rw [hm, hum, hlay, hidx]; rfl
        have hav : u1.isAllValid = some false := by
          unfold Unr.isAllValid; rw [hmean]; rfl
        have huv : u1.unravelValidity =
            some ({ u1 with layer := u1.layer + 1, defCmp := u1.defCmp + 1 },
              vis.map (fun d => decide (d ≤ u1.defCmp))) := by
          unfold Unr.unravelValidity
          rw [hmean]
          simp only [hdl, hl2r, hul, hrcmp, hvis, Option.map_some]
        refine ⟨{ u1 with layer := u1.layer + 1, defCmp := u1.defCmp + 1 }, rs, ds, ?_, hm, hl2r, by simp [hlay],
          by simp [hdcmp, hnd], hrcmp, hrp, hdl, VR_recValidity _ _ c.es bits rs hvr, by rw [hnd]; exact hview'⟩
        rw [hkinds, hrun, unravelAll_v_cons]
        simp only [stepV, hav, huv, Option.map_some]
        rw [hdcmp, hbits, hmask]
        simp only [nfLayers, List.reverse_cons]
        exact map_cons_fun _ _ _
    | offsets lens v he ns =>
      simp only [layersOk, Bool.and_eq_true] at hok
      obtain ⟨hlok, hok'⟩ := hok
      have hkinds : kindsOf (Layer.offsets lens v he ns :: rem') ++ ks = kindsOf rem' ++ (Kind.l :: ks) := by
        simp [kindsOf]
      have hmeanL : (Layer.offsets lens v he ns).meaning = listMeaning v.isSome he := rfl
      have hnd : numDefs (Layer.offsets lens v he ns :: rem') =
          numDefs rem' + (listMeaning v.isSome he).numDefLevels := by
        rw [numDefs_cons, hmeanL]; omega
      have hnl : numLists (Layer.offsets lens v he ns :: rem') = numLists rem' + 1 := by
        rw [numLists_cons]; simp [Layer.maxRep]; omega
      rw [hnd] at hinv hcd hDK ⊢
      rw [hnl] at hinv hcr ⊢
      rw [hmeanL] at hm1 hidx hsplit hcd1
      have hK1 : structLevelsAbove c1.meaningRev = 0 := by rw [hm1]; exact structLevelsAbove_list _ _ _
      have hcd1' : c1.curDef = numDefs rem' := by rw [hcd1, hcd]; omega
      have hcr1' : c1.curRep = numLists rem' := by rw [hcr1, hcr]; simp [Layer.maxRep]
      -- the entries after the list's own validity pass, their invariant and alignment
      simp only [alignedB, Bool.and_eq_true, beq_iff_eq] at hal
      obtain ⟨⟨⟨hml, hvl⟩, hzl⟩, halr⟩ := hal
      have hbnd : numDefs rem' + (listMeaning v.isSome he).numDefLevels ≤ T := by omega
      have hlvl : ∀ hn, (hn = true → (listLevels (numDefs rem' + (listMeaning hn he).numDefLevels) hn he).1 =
            numDefs rem' + 1 ∧ 1 ≤ (listMeaning hn he).numDefLevels) ∧
          (he = true → (listLevels (numDefs rem' + (listMeaning hn he).numDefLevels) hn he).2 =
            numDefs rem' + (listMeaning hn he).numDefLevels ∧ 1 ≤ (listMeaning hn he).numDefLevels) := by
        intro hn
        cases hn <;> cases he <;> simp [listMeaning, listLevels, Meaning.numDefLevels]
      obtain ⟨E1, hE1, hinvL, halO, hmaskv, hback⟩ :
          ∃ E1, c1.es = recOffsets (numLists rem' + 1)
              (listLevels (numDefs rem' + (listMeaning v.isSome he).numDefLevels) v.isSome he).2 E1 lens ∧
            (∀ e ∈ E1, EInvL (numDefs rem' + (listMeaning v.isSome he).numDefLevels) (numLists rem' + 1)
              (structLevelsAbove c.meaningRev)
              (listLevels (numDefs rem' + (listMeaning v.isSome he).numDefLevels) v.isSome he).1 v.isSome e ∧ SpB Mt e) ∧
            AlignedOff he E1 lens ∧
            (if v.isSome then some (maskOf E1) else none) = v.map (maskAnd (maskOf c.es)) ∧
            (∀ rs ds, Rel2 (VR (numLists rem' + 1)) E1 rs →
              Rel2 (VD (numDefs rem' + (listMeaning v.isSome he).numDefLevels)) E1 ds →
              Rel2 (VR (numLists rem' + 1)) c.es rs ∧
              Rel2 (VD (numDefs rem' + (listMeaning v.isSome he).numDefLevels)) c.es ds) := by
        cases v with
        | none =>
          refine ⟨c.es, by rw [hes, hcd, hcr]; rfl, ?_, ?_, rfl, fun rs ds a b => ⟨a, b⟩⟩
          · intro e he'
            have := einvL_of_einv _ _ _ Mt e (hinv e he')
            have h0 : (listLevels (numDefs rem' + (listMeaning false he).numDefLevels) false he).1 = 0 := by
              cases he <;> rfl
            simp only [Option.isSome_none] at this ⊢
            rw [h0]; exact this
          · exact alignedOff_none he c.es lens hml hzl hlok
        | some bits =>
          have hl1 := (hlvl true).1 rfl
          have hbl : bits.length = lens.length := by simpa using hvl
          have hnlT : (listLevels (numDefs rem' + (listMeaning true he).numDefLevels) true he).1 ≤ T := by
            have := hl1.1; simp only [Option.isSome_some] at hbnd; omega
          refine ⟨recValidity (listLevels (numDefs rem' + (listMeaning true he).numDefLevels) true he).1 c.es bits,
            by rw [hes, hcd, hcr]; rfl, ?_, ?_, ?_, ?_⟩
          · exact einvL_recValidity _ _ _ Mt _ hnlT c.es bits hinv
          · exact alignedOff_some he _ (by omega) hnlT c.es lens bits hml hzl hlok
          · simp only [Option.isSome_some, if_true, Option.map_some]
            rw [maskOf_recValidity _ (by omega) hnlT c.es bits (by omega)]
          · intro rs ds a b
            exact ⟨VR_recValidity _ _ c.es bits rs a,
              VD_recValidity _ _ (by simp only [Option.isSome_some] at *; omega) hnlT c.es bits ds b⟩
      have hinvL1 : ∀ e ∈ E1, EInvL (numDefs rem' + (listMeaning v.isSome he).numDefLevels) (numLists rem' + 1)
          (structLevelsAbove c.meaningRev)
          (listLevels (numDefs rem' + (listMeaning v.isSome he).numDefLevels) v.isSome he).1 v.isSome e :=
        fun e h => (hinvL e h).1
      have hinv1 : ∀ e ∈ c1.es, EInv (numDefs rem') (numLists rem') (structLevelsAbove c1.meaningRev) Mt e := by
        rw [hE1, hK1]
        exact einv_recOffsets (numDefs rem') (numLists rem') _ (structLevelsAbove c.meaningRev) _ _ Mt v.isSome he
          hDK hMT (hlvl v.isSome).1 (hlvl v.isSome).2 E1 lens hinvL halO
      have hmask1 : maskOf c1.es = List.replicate lens.sum true := by
        rw [hE1]
        exact maskOf_recOffsets _ _ he (fun h => by have := (hlvl v.isSome).2 h; omega) E1 lens halO
      obtain ⟨u1, rs, ds, hrun, hm, hl2r, hlay, hdcmp, hrcmp, hrp, hdl, hvr, hvd⟩ :=
        stack_main Mt rem' c1 c' (Kind.l :: ks) u hnf' hok' hd1 hcd1' hcr1' h2 hinv1
          (by rw [hmask1]; exact halr) (by rw [hK1]; omega) hMT hMt hum hul hl hdc hrc hds
      rw [hE1] at hvr hvd
      obtain ⟨u2, rs2, ds2, hstep, hm2, hl2, hlay2, hdc2, hrc2, hrp2, hdl2, hvr2, hvd2⟩ :=
        list_step u1 c.meaningRev (numDefs rem') (numLists rem') v.isSome he E1 lens rs ds
          (by rw [hm, hum, hlay, hidx])
          (by rw [hm, hum, hsplit, hlay]; exact drop_split _ _ _ _ (by simp))
          hdcmp hrcmp hrp hdl (by omega) hvr hvd hinvL1 halO
      obtain ⟨hb1, hb2⟩ := hback rs2 ds2 hvr2 hvd2
      refine ⟨u2, rs2, ds2, ?_, by rw [hm2, hm], by rw [hl2, hl2r], by simp [hlay2, hlay], hdc2, hrc2, hrp2, hdl2,
        hb1, hb2⟩
      rw [hkinds, hrun, unravelAll_l_cons]
      simp only [hstep]
      rw [hmaskv, hmask1]
      simp only [nfLayers, List.reverse_cons]
      exact map_cons_fun _ _ _


theorem rel2_rep : ∀ (E : List Entry), Rel2 (VR 0) E (E.map (·.rep))
  | [] => trivial
  | e :: es => ⟨by unfold VR; simp, rel2_rep es⟩

/-- **Stacks with list layers, any depth, any number of rows**: if `RepDefBuilder::serialize` returns definition
    levels for a contract-abiding stack of validity and list layers (at least one list, at least one def level),
    unravelling every layer, innermost first, returns the logical normal form. -/
theorem list_stack_roundtrip (ls : List Layer) (k : Nat) (hnf : noFsl ls = true) (hok : layersOk ls = true)
    (hal : aligned ls = true) (hdef : 0 < numDefs ls) (hlists : 0 < numLists ls) (hT : numDefs ls ≤ T)
    (s : Ser) (hs : serializeLayers ls = some s) (hlev : s.dl ≠ none) :
    unravelAll [Unr.new s.rep s.dl s.meaning k] (kindsOf ls) = some (nf ls).reverse := by
  unfold serializeLayers at hs
  cases hrec : (Ctx.init ls).recordLayers ls with
  | none => rw [hrec] at hs; simp at hs
  | some c' =>
    rw [hrec] at hs
    simp only [Option.map_some, Option.some.injEq] at hs
    have hdef' : 0 < (ls.map Layer.maxDef).sum := by rw [sum_maxDef_eq]; exact hdef
    have hd0 : (Ctx.init ls).hasDef = true := by simp [Ctx.init, hdef']
    have hr0 : (Ctx.init ls).hasRep = true := by
      have : 0 < (ls.map Layer.maxRep).sum := hlists
      simp [Ctx.init, this]
    have hes0 : (Ctx.init ls).es = List.replicate (stackRows ls) ⟨0, 0⟩ := rfl
    have hmask0 : maskOf (Ctx.init ls).es = List.replicate (stackRows ls) true := by rw [hes0, maskOf_replicate]
    have hal0 : alignedB (maskOf (Ctx.init ls).es) ls = true := by rw [hmask0]; exact hal
    obtain ⟨hmf, hd', hr'⟩ := recordLayers_fields ls (Ctx.init ls) c' hnf hd0 hrec
    have hm0 : (Ctx.init ls).meaningRev = [] := rfl
    rw [hm0, List.append_nil] at hmf
    have hcurlen : c'.curLen ≠ 0 := by
      intro h0
      apply hlev
      rw [← hs]; unfold Ctx.build; rw [if_pos h0]; rfl
    have hsb : s = Ser.new (some (c'.es.map (·.rep))) (some (c'.es.map (fun e => normLevel e.dl))) c'.meaningRev := by
      rw [← hs]; unfold Ctx.build
      rw [if_neg hcurlen, hr', hr0, hd']; rfl
    have hMtv : ndM c'.meaningRev = numDefs ls := by rw [hmf]; exact ndM_reverse_map ls
    have hinv0 : ∀ e ∈ (Ctx.init ls).es, EInv (numDefs ls) (numLists ls)
        (structLevelsAbove (Ctx.init ls).meaningRev) (ndM c'.meaningRev) e := by
      intro e he
      rw [hes0] at he
      have := List.eq_of_mem_replicate he
      subst this
      exact Or.inr ⟨Or.inl rfl, by decide, Or.inl rfl⟩
    obtain ⟨u1, rs, ds, hrun, _⟩ :=
      stack_main (ndM c'.meaningRev) ls (Ctx.init ls) c' []
        (Unr.new s.rep s.dl s.meaning k) hnf hok hd0 (by simp [Ctx.init, sum_maxDef_eq]) rfl hrec hinv0 hal0
        (by rw [hm0, hMtv]; simp [structLevelsAbove]) (by rw [hMtv]; exact hT) rfl
        (by rw [hsb]; rfl) (by rw [hsb]; rfl) rfl rfl rfl
        ⟨c'.es.map (·.rep), c'.es.map (fun e => normLevel e.dl), by rw [hsb]; rfl, by rw [hsb]; rfl,
          rel2_rep c'.es, rel2_normLevel c'.es⟩
    rw [List.append_nil] at hrun
    rw [hrun, hmask0]
    simp [unravelAll, nf]


/-- the list layer `RepDefBuilder::add_offsets` records is well formed: null lists have length 0 and
    `has_empty_lists` is set whenever a valid list is empty -/
theorem addOffsets_lensOk : ∀ (lens : List Nat) (v : Option (List Bool)),
    (∀ b, v = some b → b.length = lens.length) →
    lensOk (hasEmptyLists lens v) (normLens lens v) v = true
  | lens, none, _ => by
    simp only [lensOk, normLens, hasEmptyLists, List.all_eq_true, Bool.or_eq_true, bne_iff_ne, ne_eq,
      List.any_eq_true, beq_iff_eq]
    intro l hl
    by_cases h0 : l = 0
    · exact Or.inr ⟨l, hl, h0⟩
    · exact Or.inl h0
  | lens, some v, h => by
    have hlen := h v rfl
    simp only [lensOk, normLens, hasEmptyLists, Bool.and_eq_true, beq_iff_eq]
    refine ⟨by simp [hlen], ?_⟩
    clear h
    induction lens generalizing v with
    | nil => simp
    | cons l ls ih =>
      cases v with
      | nil => simp at hlen
      | cons b bs =>
        have ih' := ih bs (by simpa using hlen)
        simp only [List.zip_cons_cons, List.map_cons, List.all_cons, List.any_cons, Bool.and_eq_true,
          Bool.or_eq_true, beq_iff_eq, Bool.not_eq_true'] at ih' ⊢
        refine ⟨⟨?_, ?_⟩, ?_⟩
        · cases b <;> simp
        · cases b
          · simp
          · by_cases h0 : l = 0
            · simp [h0]
            · simp [h0]
        · rw [List.all_eq_true] at ih' ⊢
          intro p hp
          have := ih' p hp
          simp only [Bool.and_eq_true, Bool.or_eq_true, beq_iff_eq, Bool.not_eq_true'] at this ⊢
          refine ⟨this.1, ?_⟩
          rcases this.2 with h | h
          · exact Or.inl h
          · exact Or.inr (Or.inr h)

end LanceModel.C27
