import LanceModel.C27.SerLemmas
/-!
C27 helper lemmas, part 3: the `levels_to_rep` table of `RepDefUnraveler::new`.
-/
namespace LanceModel.C27

/-- def levels of a meaning list -/
def ndM (ms : List Meaning) : Nat := (ms.map Meaning.numDefLevels).sum
/-- list layers of a meaning list -/
def nlM (ms : List Meaning) : Nat := (ms.map (fun m => if m.isList then 1 else 0)).sum

theorem ndM_cons (m : Meaning) (ms : List Meaning) : ndM (m :: ms) = m.numDefLevels + ndM ms := by
  simp [ndM]
theorem nlM_cons (m : Meaning) (ms : List Meaning) : nlM (m :: ms) = (if m.isList then 1 else 0) + nlM ms := by
  simp [nlM]
theorem ndM_append (a b : List Meaning) : ndM (a ++ b) = ndM a + ndM b := by simp [ndM]
theorem nlM_append (a b : List Meaning) : nlM (a ++ b) = nlM a + nlM b := by simp [nlM]

theorem l2r_append : ∀ (a b : List Meaning) (c : Nat),
    levelsToRep (a ++ b) c = levelsToRep a c ++ levelsToRep b (c + nlM a)
  | [], b, c => by simp [levelsToRep, nlM]
  | m :: a, b, c => by
    cases m <;>
      simp [levelsToRep, nlM_cons, Meaning.isList, l2r_append a b, Nat.add_assoc, Nat.add_comm 1]

theorem l2r_length : ∀ (a : List Meaning) (c : Nat), (levelsToRep a c).length = ndM a
  | [], c => by simp [levelsToRep, ndM]
  | m :: a, c => by
    cases m <;> simp [levelsToRep, ndM_cons, Meaning.numDefLevels, l2r_length a] <;> omega

theorem l2r_bounds : ∀ (a : List Meaning) (c : Nat), ∀ x ∈ levelsToRep a c, c ≤ x ∧ x ≤ c + nlM a
  | [], c, x, h => by simp [levelsToRep] at h
  | m :: a, c, x, h => by
    cases m <;> simp only [levelsToRep, List.mem_cons] at h <;> simp only [nlM_cons, Meaning.isList]
    · have := l2r_bounds a c x h; omega
    · have := l2r_bounds a (c + 1) x h; simp; omega
    · rcases h with h | h
      · subst h; simp
      · have := l2r_bounds a c x h; omega
    · rcases h with h | h
      · subst h; simp
      · have := l2r_bounds a (c + 1) x h; simp; omega
    · rcases h with h | h
      · subst h; simp
      · have := l2r_bounds a (c + 1) x h; simp; omega
    · rcases h with h | h | h
      · subst h; simp
      · subst h; simp
      · have := l2r_bounds a (c + 1) x h; simp; omega

/-- the levels of the nullable structs directly above map to `c`, everything beyond to more than `c` -/
theorem l2r_structs : ∀ (b : List Meaning) (c i x : Nat), (levelsToRep b c)[i]? = some x →
    (i < structLevelsAbove b → x = c) ∧ (structLevelsAbove b ≤ i → c < x)
  | [], c, i, x, h => by simp [levelsToRep] at h
  | m :: b, c, i, x, h => by
    cases m
    · -- allValidItem
      simp only [levelsToRep, structLevelsAbove] at h ⊢
      exact l2r_structs b c i x h
    · -- allValidList
      simp only [levelsToRep, structLevelsAbove] at h ⊢
      have hx := (l2r_bounds b (c + 1) x (List.mem_of_getElem? h)).1
      exact ⟨fun hi => by omega, fun _ => by omega⟩
    · -- nullableItem
      simp only [levelsToRep, structLevelsAbove] at h ⊢
      cases i with
      | zero => simp at h; subst h; exact ⟨fun _ => rfl, fun hi => by omega⟩
      | succ i =>
        simp only [List.getElem?_cons_succ] at h
        have := l2r_structs b c i x h
        exact ⟨fun hi => this.1 (by omega), fun hi => this.2 (by omega)⟩
    · -- nullableList
      simp only [levelsToRep, structLevelsAbove] at h ⊢
      have hx : c + 1 ≤ x := by
        cases i with
        | zero => simp at h; omega
        | succ i =>
          simp only [List.getElem?_cons_succ] at h
          exact (l2r_bounds b (c + 1) x (List.mem_of_getElem? h)).1
      exact ⟨fun hi => by omega, fun _ => by omega⟩
    · -- emptyableList
      simp only [levelsToRep, structLevelsAbove] at h ⊢
      have hx : c + 1 ≤ x := by
        cases i with
        | zero => simp at h; omega
        | succ i =>
          simp only [List.getElem?_cons_succ] at h
          exact (l2r_bounds b (c + 1) x (List.mem_of_getElem? h)).1
      exact ⟨fun hi => by omega, fun _ => by omega⟩
    · -- nullableAndEmptyableList
      simp only [levelsToRep, structLevelsAbove] at h ⊢
      have hx : c + 1 ≤ x := by
        cases i with
        | zero => simp at h; omega
        | succ i =>
          cases i with
          | zero => simp at h; omega
          | succ i =>
            simp only [List.getElem?_cons_succ] at h
            exact (l2r_bounds b (c + 1) x (List.mem_of_getElem? h)).1
      exact ⟨fun hi => by omega, fun _ => by omega⟩

/-- The table of a meaning list split at a layer: `a` = the layers below, `b` = the layers from this one outwards.
    Levels of the layers below are visible within `nlM a` lists. -/
theorem tab_inner (a b : List Meaning) (ℓ : Nat) (h : ℓ ≤ ndM a) :
    ∃ r, (0 :: levelsToRep (a ++ b) 0)[ℓ]? = some r ∧ r ≤ nlM a := by
  rw [l2r_append]
  cases ℓ with
  | zero => exact ⟨0, rfl, by omega⟩
  | succ k =>
    simp only [List.getElem?_cons_succ]
    have hk : k < (levelsToRep a 0).length := by rw [l2r_length]; omega
    rw [List.getElem?_append_left hk]
    refine ⟨(levelsToRep a 0)[k], List.getElem?_eq_getElem hk, ?_⟩
    have := (l2r_bounds a 0 _ (List.getElem_mem hk)).2
    omega

/-- levels beyond the layers below: index `ndM a + 1 + i` is entry `i` of the table of `b` started at `nlM a` -/
theorem tab_outer (a b : List Meaning) (i : Nat) :
    (0 :: levelsToRep (a ++ b) 0)[ndM a + 1 + i]? = (levelsToRep b (nlM a))[i]? := by
  rw [l2r_append, show ndM a + 1 + i = (ndM a + i) + 1 by omega, List.getElem?_cons_succ]
  rw [List.getElem?_append_right (by rw [l2r_length]; omega), l2r_length]
  simp

theorem structLevelsAbove_le : ∀ (b : List Meaning), structLevelsAbove b ≤ ndM b
  | [] => by simp [structLevelsAbove]
  | m :: b => by
    have := structLevelsAbove_le b
    cases m <;> simp only [structLevelsAbove, ndM_cons, Meaning.numDefLevels] <;> omega

/-- The two table hypotheses of the validity-layer theorem hold for the real `levels_to_rep` table at every
    position of every meaning list: `a` = layers below the validity layer, `b` = layers above it. -/
theorem validity_table (a b : List Meaning) :
    (∀ ℓ, ℓ ≤ ndM a + 1 + structLevelsAbove b →
      ∃ r, (0 :: levelsToRep (a ++ .nullableItem :: b) 0)[ℓ]? = some r ∧ r ≤ nlM a) ∧
    (∀ ℓ, ndM a + 1 + structLevelsAbove b < ℓ → ℓ ≤ ndM (a ++ .nullableItem :: b) →
      ∃ r, (0 :: levelsToRep (a ++ .nullableItem :: b) 0)[ℓ]? = some r ∧ nlM a < r) := by
  have hlen : (levelsToRep b (nlM a)).length = ndM b := l2r_length b _
  constructor
  · intro ℓ hℓ
    by_cases h : ℓ ≤ ndM a
    · exact tab_inner a _ ℓ h
    · obtain ⟨i, rfl⟩ : ∃ i, ℓ = ndM a + 1 + i := ⟨ℓ - ndM a - 1, by omega⟩
      rw [tab_outer]
      cases i with
      | zero => exact ⟨nlM a, by simp [levelsToRep], Nat.le_refl _⟩
      | succ i =>
        have hi : i < structLevelsAbove b := by omega
        have hi2 : i < (levelsToRep b (nlM a)).length := by
          have := structLevelsAbove_le b; omega
        refine ⟨(levelsToRep b (nlM a))[i], by simp [levelsToRep, List.getElem?_eq_getElem hi2], ?_⟩
        have := (l2r_structs b (nlM a) i _ (List.getElem?_eq_getElem hi2)).1 hi
        omega
  · intro ℓ h1 h2
    obtain ⟨i, rfl⟩ : ∃ i, ℓ = ndM a + 1 + (i + 1) := ⟨ℓ - ndM a - 2, by omega⟩
    rw [tab_outer]
    have hi2 : i < (levelsToRep b (nlM a)).length := by
      rw [ndM_append, ndM_cons] at h2
      simp only [Meaning.numDefLevels] at h2
      omega
    refine ⟨(levelsToRep b (nlM a))[i], by simp [levelsToRep, List.getElem?_eq_getElem hi2], ?_⟩
    exact (l2r_structs b (nlM a) i _ (List.getElem?_eq_getElem hi2)).2 (by omega)

/-- `max_visible_level` of `SerializedRepDefs::new` by its meaning: without a list layer there is none; otherwise it
    is the number of def levels of the layers below the first list (the levels whose entries carry a value slot) -/
theorem maxVisibleLevel_eq : ∀ (ms : List Meaning),
    maxVisibleLevel ms =
      if ms.any Meaning.isList then some (ndM (ms.takeWhile (fun m => !m.isList))) else none
  | [] => rfl
  | m :: ms => by
    unfold maxVisibleLevel
    by_cases h : m.isList = true
    · simp [h, ndM]
    · have h' : m.isList = false := by simpa using h
      rw [if_neg h, maxVisibleLevel_eq ms]
      simp only [List.any_cons, h', Bool.false_or, List.takeWhile_cons, Bool.not_false, if_true]
      by_cases ha : ms.any Meaning.isList = true
      · simp only [ha, if_true, Option.map_some, ndM_cons]
        congr 1; omega
      · simp [ha]

end LanceModel.C27
