import LanceModel.C27.Model
/-!
C27 helper lemma: the scan of `RepDefSlicer::slice_next`.
-/
namespace LanceModel.C27

/-- if the scan of `slice_next` returns `n` levels for `k` requested values, these `n` levels exist and exactly `k`
    of them are visible (`<= max_visible_level`, i.e. carry a value) -/
theorem sliceScan_exact (mvl : Nat) : ∀ (ds : List Nat) (k n : Nat), sliceScan mvl ds k = some n →
    n ≤ ds.length ∧ (ds.take n).countP (fun d => decide (d ≤ mvl)) = k
  | ds, 0, n, h => by
    cases ds <;> simp only [sliceScan, Option.some.injEq] at h <;> subst h <;> simp
  | [], k + 1, n, h => by simp [sliceScan] at h
  | d :: ds, k + 1, n, h => by
    simp only [sliceScan] at h
    cases hr : sliceScan mvl ds (if d ≤ mvl then k else k + 1) with
    | none => rw [hr] at h; simp at h
    | some m =>
      rw [hr] at h
      simp only [Option.map_some, Option.some.injEq] at h
      subst h
      obtain ⟨i1, i2⟩ := sliceScan_exact mvl ds _ m hr
      refine ⟨by simp; omega, ?_⟩
      simp only [List.take_succ_cons, List.countP_cons, i2]
      by_cases hd : d ≤ mvl
      · simp [hd]
      · simp [hd]

end LanceModel.C27
