import LanceModel.C27.CwLemmas
import LanceModel.C27.OffLemmas
import LanceModel.C27.TabLemmas
import LanceModel.C27.StackLemmas
import LanceModel.C27.GenStack
import LanceModel.C27.CountLemmas
import LanceModel.C27.NoDef
import LanceModel.C27.SliceLemmas
/-!
# C27 — repetition / definition levels encode nesting losslessly

"For any nesting of lists, fixed-size lists and structs with validity at every level (including empty lists, null
lists, null structs and offsets with garbage behind nulls), converting validity/offsets to repetition and definition
levels and back reproduces the same logical structure, and row-to-item translation used for random access selects
exactly the items of the requested rows."

Everything below is about the model in `Model.lean` (line-by-line counterparts of `RepDefBuilder`,
`SerializerContext`, `RepDefUnraveler`, `CompositeRepDefUnraveler`, `build_control_word_iterator`,
`ControlWordParser`, `RepDefSlicer` in rust/lance-encoding/src/repdef.rs); the tie to the code is the correspondence
run of `./check C27`.  `Option`-valued model functions are `none` where the Rust code panics.

The logical structure of a layer stack is `nf` (`Model.lean`): per layer, outermost first, the offsets of the
normalised lengths and the validity with every slot under a null ancestor reported null; `aligned` is the caller
contract of `RepDefBuilder` (lengths line up, a list under a null struct is null or empty).
-/
namespace LanceModel.C27

/-! ## Part 1: the round trip for whole stacks -/

/-- **`unravel_serialize`**: for EVERY stack of validity layers (structs, the leaf) and list layers — any depth, any
    order, at least one row, every layer with or without a validity buffer, null lists, empty lists, lists under null
    structs, structs between lists, with or without any def level at all — that satisfies the caller contract
    (`aligned`: the lengths line up and a list under a null struct is null or empty; `layersOk` / `specialsOk`: list
    layers as `add_offsets` records them, see `add_offsets_well_formed` / `add_offsets_num_specials`):
    `RepDefBuilder::serialize` followed by unravelling every layer (innermost first, as the decoders do) returns
    exactly the logical normal form `nf` — the offsets of the normalised lengths, and every validity buffer with the
    slots under a null ancestor reported null.  No residual hypothesis: that `serialize` returns levels is
    `serialize_returns_levels`, the stacks without def levels go through the fast paths (`nodef_stack_roundtrip`).
    (`0 < numDefs ls + numLists ls`: a stack of plain all-valid layers only is answered by `serialize`'s shortcut
    before any level is built.)  Proved by induction over the layer stack (`stack_main`, `nodef_main`). -/
theorem unravel_serialize (ls : List Layer) (k : Nat) (hnf : noFsl ls = true) (hok : layersOk ls = true)
    (hsp : specialsOk ls = true) (hal : aligned ls = true) (hrows : 0 < stackRows ls)
    (hsome : 0 < numDefs ls + numLists ls) (hT : numDefs ls ≤ T)
    (s : Ser) (hs : serializeLayers ls = some s) :
    unravelAll [Unr.new s.rep s.dl s.meaning k] (kindsOf ls) = some (nf ls).reverse := by
  by_cases hdef : 0 < numDefs ls
  · have hlev := serialize_returns_levels ls hnf hok hsp hal hrows hdef hT s hs
    by_cases hl : 0 < numLists ls
    · exact list_stack_roundtrip ls k hnf hok hal hdef hl hT s hs hlev
    · exact validity_stack_roundtrip_lev ls k (onlyValidity_of_noLists ls hnf (by omega)) hal hdef hT s hs hlev
  · exact nodef_stack_roundtrip ls k hnf hal hrows (by omega) (by omega) s hs

/-- **`serialize` returns levels** for every contract-abiding stack with at least one row and one def level: the
    counting invariant `current_num_specials = number of special entries` makes `current_len` the number of entries,
    so `SerializerContext::build` never takes its "nothing recorded" early return -/
theorem serialize_returns_levels_thm (ls : List Layer) (hnf : noFsl ls = true) (hok : layersOk ls = true)
    (hsp : specialsOk ls = true) (hal : aligned ls = true) (hrows : 0 < stackRows ls) (hdef : 0 < numDefs ls)
    (hT : numDefs ls ≤ T) (s : Ser) (hs : serializeLayers ls = some s) : s.dl ≠ none :=
  serialize_returns_levels ls hnf hok hsp hal hrows hdef hT s hs

/-- the fast path of `record_offsets` (no def levels) is the general path: on live entries with one length each it
    succeeds only for non-empty lists and then writes exactly what the general loop writes -/
theorem record_offsets_fast_path (R el : Nat) (E : List Entry) (lens : List Nat) (es' : List Entry)
    (hz : ∀ e ∈ E, e.dl = 0) (hl : E.length = lens.length) (h : recOffsetsNoDef R E lens = some es') :
    es' = recOffsets R el E lens ∧ ∀ l ∈ lens, 0 < l :=
  recOffsetsNoDef_eq R el E lens es' hz hl h

/-- the no-def loop of `unravel_offsets` is the general loop run on all-zero def levels -/
theorem unravel_offsets_fast_path (nl el ml up : Nat) (rs : List Nat) (cur : Nat) :
    offLoopNoDef rs cur =
      ((offLoop nl el ml up (rs.zip (List.replicate rs.length 0)) cur).offs,
       (offLoop nl el ml up (rs.zip (List.replicate rs.length 0)) cur).kept.map (·.1),
       (offLoop nl el ml up (rs.zip (List.replicate rs.length 0)) cur).cur) :=
  offLoopNoDef_eq nl el ml up rs cur

/-- `add_offsets` records `num_specials` = the number of zero-length (null or empty) normalised lists (`specialsOk`) -/
theorem add_offsets_num_specials (lens : List Nat) (v : Option (List Bool))
    (h : ∀ b, v = some b → b.length = lens.length) :
    countSpecials lens v = (normLens lens v).countP (· == 0) :=
  countSpecials_eq lens v h

set_option maxRecDepth 100000 in
/-- a stack without any def level (`List<List<Int>>`, no nulls, no empty lists): the hypotheses hold -/
example :
    let b1 := (Builder.addOffsets {} [2, 1] none).get!.1
    let b2 := (b1.addOffsets [1, 2, 3] none).get!.1
    let ls := (b2.addNoNull 6).get!.layers
    noFsl ls = true ∧ layersOk ls = true ∧ specialsOk ls = true ∧ aligned ls = true ∧ 0 < stackRows ls ∧
      numDefs ls = 0 ∧ numLists ls = 2 ∧
      (serializeLayers ls).map (fun s => (s.rep, s.dl)) = some (some [2, 1, 0, 2, 0, 0], none) ∧
      nf ls = [.o [0, 2, 3] none, .o [0, 1, 3, 6] none, .v none] := by decide

/-- for stacks without lists (nested structs around a leaf) the side condition "serialisation returned def levels"
    is proved as well: it holds as soon as there is at least one row -/
theorem unravel_serialize_structs (ls : List Layer) (k : Nat) (honly : onlyValidity ls = true)
    (hal : aligned ls = true) (hrows : 0 < stackRows ls) (hdef : 0 < numDefs ls) (hT : numDefs ls ≤ T)
    (s : Ser) (hs : serializeLayers ls = some s) :
    unravelAll [Unr.new s.rep s.dl s.meaning k] (kindsOf ls) = some (nf ls).reverse :=
  validity_stack_roundtrip ls k honly hal hrows hdef hT s hs

/-- the list layer `RepDefBuilder::add_offsets` records satisfies `layersOk`: null lists have length 0 (garbage
    dropped) and `has_empty_lists` is set whenever a valid list is empty -/
theorem add_offsets_well_formed (lens : List Nat) (v : Option (List Bool))
    (h : ∀ b, v = some b → b.length = lens.length) :
    lensOk (hasEmptyLists lens v) (normLens lens v) v = true :=
  addOffsets_lensOk lens v h

set_option maxRecDepth 100000 in
/-- struct (null at row 1) > struct (no buffer) > item (null at rows 0 and 3): the hypotheses hold and the normal
    form reports the item under the null struct as null -/
example :
    let ls := [Layer.validity (some [true, false, true, true]) 4, .validity none 4,
      .validity (some [false, true, true, false]) 4]
    onlyValidity ls = true ∧ aligned ls = true ∧ 0 < stackRows ls ∧ 0 < numDefs ls ∧ numDefs ls ≤ T ∧
      (serializeLayers ls).map (fun s => (s.dl, s.meaning)) =
        some (some [1, 2, 0, 1], [.nullableItem, .allValidItem, .nullableItem]) ∧
      nf ls = [.v (some [true, false, true, true]), .v none, .v (some [false, false, true, false])] := by decide

set_option maxRecDepth 100000 in
/-- `List<Struct<List<Int>>>` with a null struct over a pushed-down (null) list, an empty outer list, garbage behind a
    null list: the hypotheses of `unravel_serialize` hold -/
example :
    let b1 := (Builder.addOffsets {} [2, 0, 1] none).get!.1
    let b2 := (b1.addValidityBitmap [true, false, true]).get!
    let b3 := (b2.addOffsets [1, 3, 2] (some [true, false, true])).get!.1
    let ls := (b3.addValidityBitmap [true, false, true]).get!.layers
    noFsl ls = true ∧ layersOk ls = true ∧ specialsOk ls = true ∧ aligned ls = true ∧ 0 < stackRows ls ∧
      0 < numDefs ls + numLists ls ∧ numDefs ls ≤ T ∧
      ((serializeLayers ls).map (fun s => decide (s.dl ≠ none))) = some true ∧
      nf ls = [.o [0, 2, 2, 3] none, .v (some [true, false, true]), .o [0, 1, 1, 3] (some [true, false, true]),
        .v (some [true, false, true])] := by decide

/-- zero rows are outside the contract (open finding `zero_rows`): the early return of `build` hands out `def_meaning`
    un-reversed and no levels, and unravelling panics -/
theorem unravel_serialize_zero_rows_counterexample :
    ∃ ls : List Layer, onlyValidity ls = true ∧ aligned ls = true ∧ stackRows ls = 0 ∧
      ∃ s, serializeLayers ls = some s ∧
        unravelAll [Unr.new s.rep s.dl s.meaning 0] (kindsOf ls) ≠ some (nf ls).reverse :=
  ⟨[.validity (some []) 0, .validity none 0], by decide, by decide, by decide,
    ⟨_, rfl, by decide⟩⟩

/-! ## Part 2: one layer in an arbitrary context (the induction steps of `unravel_serialize`)

A stack is serialised outermost layer first and unravelled innermost layer first.  The two theorems below are the
induction steps of `unravel_serialize` for one layer, stated for ANY entry list the layers above may have produced (`EInv` / `EInvL`: special entries
of outer lists, live entries, entries masked by the `K` nullable structs directly above) and ANY levels the layers
below may have written on top of the layer's own output (`VD` / `VR`: a live entry may show any level of the `D`
levels below; rep levels have been decremented once per list below).  -/

/-- **Validity layer** (`do_record_validity` with level `D + 1`, then `unravel_validity`): every non-special entry is
    visible, reads valid iff it was live and its bit is set (the logical normal form `maskAnd mask v`), special
    entries of outer lists are skipped, and the levels are left as a view of the entries the layer started from. -/
theorem validity_layer_roundtrip (l2r : List Nat) (D R K Mt : Nat) (hD : D + 1 ≤ T)
    (htab : ∀ ℓ, ℓ ≤ D + 1 + K → ∃ r, l2r[ℓ]? = some r ∧ r ≤ R)
    (hout : ∀ ℓ, D + 1 + K < ℓ → ℓ ≤ Mt → ∃ r, l2r[ℓ]? = some r ∧ R < r)
    (E : List Entry) (v : List Bool) (ds : List Nat)
    (hinv : ∀ e ∈ E, EInv (D + 1) R K Mt e) (hlen : (maskOf E).length = v.length)
    (hview : Rel2 (VD D) (recValidity (D + 1) E v) ds) :
    ∃ vis, visibleLevels l2r R ds = some vis ∧
      vis.map (fun d => decide (d ≤ D)) = maskAnd (maskOf E) v ∧ Rel2 (VD (D + 1)) E ds :=
  validity_view l2r D R K Mt hD htab hout E v ds hinv hlen hview

/-- **List layer** (`record_offsets`, then the loop of `unravel_offsets`), for every combination of null / empty
    levels: the offsets returned are the offsets of the (normalised) lengths, a list reads valid iff its entry was
    live (not null, not under a null struct), entries of outer lists are kept untouched, and the kept levels are a
    view of the entries the layer started from, one per list. -/
theorem list_layer_roundtrip (D' R' used K nl el : Nat) (hasNull hasEmpty : Bool)
    (hT : D' + used + K ≤ T)
    (hnl1 : hasNull = true → nl = D' + 1 ∧ 1 ≤ used) (hnl0 : hasNull = false → nl = 0)
    (hel1 : hasEmpty = true → el = D' + used ∧ 1 ≤ used ∧ (hasNull = true → 2 ≤ used)) (hel0 : hasEmpty = false → el = 0)
    (E : List Entry) (lens : List Nat) (S : List (Nat × Nat)) (cur : Nat)
    (hinv : ∀ e ∈ E, EInvL (D' + used) (R' + 1) K nl hasNull e) (hal : AlignedOff hasEmpty E lens)
    (hview : Rel2 (VP R' D') (recOffsets (R' + 1) el E lens) S) :
    (offLoop nl el (D' + used + K) (D' + used) S cur).offs ++
        [(offLoop nl el (D' + used + K) (D' + used) S cur).cur] = offsetsFrom cur lens ∧
      (offLoop nl el (D' + used + K) (D' + used) S cur).bits = maskOf E ∧
      Rel2 (VP (R' + 1) (D' + used)) E (offLoop nl el (D' + used + K) (D' + used) S cur).kept :=
  offsets_view D' R' used K nl el hasNull hasEmpty hT hnl1 hnl0 hel1 hel0 E lens S cur hinv hal hview

/-- **`def_meaning` / `levels_to_rep`**: in the table `RepDefUnraveler::new` builds from any `def_meaning`, split at any
    nullable struct / item layer (`a` = the layers below it, `b` = the layers above it): the levels of the layers
    below, the layer's own level and the levels of the nullable structs directly above it are visible once the
    `nlM a` lists below have been unravelled, and every level beyond (an outer list's null / empty level or a struct
    above such a list) only later.  These are exactly the two table hypotheses of `validity_layer_roundtrip`. -/
theorem def_meaning_table (a b : List Meaning) :
    (∀ ℓ, ℓ ≤ ndM a + 1 + structLevelsAbove b →
      ∃ r, (0 :: levelsToRep (a ++ .nullableItem :: b) 0)[ℓ]? = some r ∧ r ≤ nlM a) ∧
    (∀ ℓ, ndM a + 1 + structLevelsAbove b < ℓ → ℓ ≤ ndM (a ++ .nullableItem :: b) →
      ∃ r, (0 :: levelsToRep (a ++ .nullableItem :: b) 0)[ℓ]? = some r ∧ nlM a < r) :=
  validity_table a b

/-- the validity-layer round trip with the real table of any `def_meaning` (no table hypotheses left) -/
theorem validity_layer_roundtrip_real (a b : List Meaning) (hD : ndM a + 1 ≤ T)
    (E : List Entry) (v : List Bool) (ds : List Nat)
    (hinv : ∀ e ∈ E, EInv (ndM a + 1) (nlM a) (structLevelsAbove b) (ndM (a ++ .nullableItem :: b)) e)
    (hlen : (maskOf E).length = v.length)
    (hview : Rel2 (VD (ndM a)) (recValidity (ndM a + 1) E v) ds) :
    ∃ vis, visibleLevels (0 :: levelsToRep (a ++ .nullableItem :: b) 0) (nlM a) ds = some vis ∧
      vis.map (fun d => decide (d ≤ ndM a)) = maskAnd (maskOf E) v ∧ Rel2 (VD (ndM a + 1)) E ds :=
  validity_view _ _ _ _ _ hD (validity_table a b).1 (validity_table a b).2 E v ds hinv hlen hview

/-- `[NullableItem, NullableAndEmptyableList, NullableItem]` (item, list, struct): levels 0,1 at rep 0; 2,3 (null / empty
    list) and 4 (null struct above the list) at rep 1 -/
example : (0 :: levelsToRep [.nullableItem, .nullableAndEmptyableList, .nullableItem] 0) = [0, 0, 1, 1, 1] := by decide

/-- **`max_visible_level`**: `SerializedRepDefs::new` sets it to the number of def levels of the layers below the
    first list layer — the levels whose entries still carry a value slot, which is what `RepDefSlicer::slice_next`
    counts to hand out "as many levels as the chunk has values" — and to `None` when there is no list.  (That the
    def levels `<=` this bound are exactly the leaf items is checked by the slicer oracle of the run, not proved.) -/
theorem max_visible_level_meaning (ms : List Meaning) :
    maxVisibleLevel ms =
      if ms.any Meaning.isList then some (ndM (ms.takeWhile (fun m => !m.isList))) else none :=
  maxVisibleLevel_eq ms

example : maxVisibleLevel [.nullableItem, .nullableItem, .nullableAndEmptyableList, .nullableItem] = some 2 := by decide

/-- **`RepDefSlicer::slice_next`**: when the scan hands out `n` levels for `k` requested values, these levels exist
    and exactly `k` of them are visible (`<= max_visible_level`, which by `max_visible_level_meaning` is the number of
    def levels below the first list, i.e. the entries that carry a value) — the "levels per chunk = values per chunk"
    invariant, relative to `max_visible_level`.  (That a level is `<= max_visible_level` exactly when its entry is a
    leaf item of the serialised stack is checked by the slicer oracle of the run, not proved.) -/
theorem slice_next_exact (mvl : Nat) (ds : List Nat) (k n : Nat) (h : sliceScan mvl ds k = some n) :
    n ≤ ds.length ∧ (ds.take n).countP (fun d => decide (d ≤ mvl)) = k :=
  sliceScan_exact mvl ds k n h

example : sliceScan 1 [0, 1, 2, 0, 3, 0] 3 = some 4 := by decide

/-! ## Part 3: control words -/

/-- `ControlWordParser::new(bits_rep, bits_def)` parses the words of `build_control_word_iterator` back to the
    levels, for every pair of widths (1-, 2- and 4-byte words; both levels, only rep, only def, none) and all level
    values that fit (`<= max`).  A level buffer whose maximum is 0 gets width 0 and is not written (its levels are
    all 0). -/
theorem control_word_roundtrip (rep dl : Option (List Nat)) (maxRep maxDef mvd len : Nat)
    (hr : ∀ r, rep = some r → (∀ x ∈ r, x ≤ maxRep) ∧ 0 < maxRep)
    (hd : ∀ d, dl = some d → (∀ x ∈ d, x ≤ maxDef) ∧ 0 < maxDef)
    (hr0 : rep = none → maxRep = 0) (hd0 : dl = none → maxDef = 0)
    (hlen : ∀ r d, rep = some r → dl = some d → r.length = d.length)
    (hmr : maxRep < 2 ^ 15) (hmd : maxDef < 2 ^ 15) :
    (CwParser.new (buildCw rep maxRep dl maxDef mvd len).bitsRep (buildCw rep maxRep dl maxDef mvd len).bitsDef).parseAll
      (buildCw rep maxRep dl maxDef mvd len).run.1 = (rep.getD [], dl.getD []) := by
  have hmr' : maxRep < 2 ^ 16 := by omega
  have hmd' : maxDef < 2 ^ 16 := by omega
  cases rep with
  | none =>
    cases dl with
    | none => rfl
    | some d =>
      obtain ⟨h1, h2⟩ := hd d rfl
      exact cw_def_roundtrip d maxRep maxDef mvd len h1 hmd' h2 (hr0 rfl)
  | some r =>
    cases dl with
    | none =>
      obtain ⟨h1, h2⟩ := hr r rfl
      exact cw_rep_roundtrip r maxRep maxDef mvd len h1 hmr' h2 (hd0 rfl)
    | some d =>
      obtain ⟨h1, h2⟩ := hr r rfl
      obtain ⟨h3, h4⟩ := hd d rfl
      exact cw_binary_roundtrip r d maxRep maxDef mvd len h1 h3 (hlen r d rfl rfl) hmr' hmd' h2 h4

example :
    (CwParser.new (buildCw (some [2, 1, 0]) 2 (some [0, 3, 1]) 3 1 3).bitsRep
        (buildCw (some [2, 1, 0]) 2 (some [0, 3, 1]) 3 1 3).bitsDef).parseAll
      (buildCw (some [2, 1, 0]) 2 (some [0, 3, 1]) 3 1 3).run.1 = ([2, 1, 0], [0, 3, 1]) :=
  control_word_roundtrip (some [2, 1, 0]) (some [0, 3, 1]) 2 3 1 3
    (by intro r h; cases h; decide) (by intro d h; cases h; decide) (by simp) (by simp)
    (by intro r d h1 h2; cases h1; cases h2; rfl) (by decide) (by decide)

/-! ## Part 4: normalisation of the input -/

/-- `add_offsets` drops the garbage behind a null list: its normalised length is 0 -/
theorem garbage_dropped (lens : List Nat) (v : List Bool) (i : Nat) (h : v[i]? = some false) (hl : i < lens.length) :
    (normLens lens (some v))[i]? = some 0 := by
  induction lens generalizing v i with
  | nil => simp at hl
  | cons l ls ih =>
    cases v with
    | nil => simp at h
    | cons b bs =>
      cases i with
      | zero => simp at h; simp [normLens, h]
      | succ i =>
        have := ih bs i (by simpa using h) (by simpa using hl)
        simpa [normLens] using this

example : normLens [2, 3, 1] (some [true, false, true]) = [2, 0, 1] := by decide

/-! ## Part 5: instances of the full statement (non-vacuity of the hypotheses and of the per-layer theorems) -/

set_option maxRecDepth 100000 in
/-- `[[I, NULL], NULL(garbage), [], [I]]`: list validity + empty list + garbage behind the null + item validity -/
example :
    let b := (Builder.addOffsets {} [2, 3, 0, 1] (some [true, false, true, true])).get!.1
    let ls := (b.addValidityBitmap [true, false, true]).get!.layers
    noFsl ls = true ∧ aligned ls = true ∧ 0 < stackRows ls ∧
      (serialize [ls]).map (fun s => (s.rep, s.dl, s.meaning)) =
        some (some [1, 0, 1, 1, 1], some [0, 1, 2, 3, 0], [.nullableItem, .nullableAndEmptyableList]) ∧
      (serialize [ls]).bind (fun s => unravelAll [Unr.new s.rep s.dl s.meaning (leafItems ls)] (kindsOf ls)) =
        some (nf ls).reverse ∧
      nf ls = [.o [0, 2, 2, 2, 3] (some [true, false, true, true]), .v (some [true, false, true])] := by decide

set_option maxRecDepth 100000 in
/-- `List<Struct<List<Int>>>`: null struct over a pushed-down list, struct between two lists -/
example :
    let b1 := (Builder.addOffsets {} [2, 0, 1] none).get!.1
    let b2 := (b1.addValidityBitmap [true, false, true]).get!
    let b3 := (b2.addOffsets [1, 0, 2] (some [true, false, true])).get!.1
    let ls := (b3.addNoNull 3).get!.layers
    aligned ls = true ∧
      (serialize [ls]).bind (fun s => unravelAll [Unr.new s.rep s.dl s.meaning (leafItems ls)] (kindsOf ls)) =
        some (nf ls).reverse := by decide

end LanceModel.C27
