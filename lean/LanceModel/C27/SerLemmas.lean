import LanceModel.C27.Model
/-!
C27 helper lemmas, part 1: the serialiser as pure functions on entry lists, the entry invariant and the
"view" relation between the serialiser's entries and the unraveler's level lists.
-/
namespace LanceModel.C27

/-! ### generic list relation -/

/-- pointwise relation between two lists of the same length -/
def Rel2 {α β : Type} (R : α → β → Prop) : List α → List β → Prop
  | [], [] => True
  | a :: as, b :: bs => R a b ∧ Rel2 R as bs
  | _, _ => False

theorem Rel2.length_eq {α β : Type} {R : α → β → Prop} : ∀ {l₁ : List α} {l₂ : List β}, Rel2 R l₁ l₂ → l₁.length = l₂.length
  | [], [], _ => rfl
  | _ :: as, _ :: bs, h => by simp [Rel2.length_eq h.2]
  | [], _ :: _, h => by simp [Rel2] at h
  | _ :: _, [], h => by simp [Rel2] at h

/-! ### the meaning of a layer -/

/-- the `DefinitionInterpretation` the serialiser checks out for a layer -/
def Layer.meaning : Layer → Meaning
  | .validity (some _) _ => .nullableItem
  | .validity none _ => .allValidItem
  | .fsl (some _) _ _ => .nullableItem
  | .fsl none _ _ => .allValidItem
  | .offsets _ v e _ => listMeaning v.isSome e

def numDefs (ls : List Layer) : Nat := (ls.map (fun l => l.meaning.numDefLevels)).sum
def numLists (ls : List Layer) : Nat := (ls.map Layer.maxRep).sum

theorem maxDef_eq (l : Layer) : l.maxDef = l.meaning.numDefLevels := by
  cases l with
  | validity v n => cases v <;> rfl
  | fsl v d n => cases v <;> rfl
  | offsets lens v e s => cases v <;> cases e <;> rfl

theorem maxRep_eq (l : Layer) : l.maxRep = if l.meaning.isList then 1 else 0 := by
  cases l with
  | validity v n => cases v <;> rfl
  | fsl v d n => cases v <;> rfl
  | offsets lens v e s => cases v <;> cases e <;> rfl

/-- no fixed-size-list layer -/
def noFsl : List Layer → Bool
  | [] => true
  | .fsl .. :: _ => false
  | _ :: ls => noFsl ls

/-! ### entries -/

/-- special (null / empty list) entry -/
def Entry.sp (e : Entry) : Bool := decide (e.dl > T)

/-- the live flags of the non-special entries: the mask the next layer sees -/
def maskOf : List Entry → List Bool
  | [] => []
  | e :: es => if e.dl > T then maskOf es else (e.dl == 0) :: maskOf es

/-- the entries after one layer, as a pure function of the entries before it, the current def level `d` and the
    current rep level `r` (general path: def levels present) -/
def layerEntries (d r : Nat) (E : List Entry) : Layer → List Entry
  | .validity none _ => E
  | .validity (some v) _ => recValidity d E v
  | .fsl _ _ _ => E
  | .offsets lens v hasEmpty _ =>
    recOffsets r (listLevels d v.isSome hasEmpty).2
      (match v with | some bits => recValidity (listLevels d v.isSome hasEmpty).1 E bits | none => E) lens

/-- what `record_layer` does to the context when def levels are present (and it does not panic) -/
theorem recordLayer_spec (c c' : Ctx) (l : Layer) (hd : c.hasDef = true) (hf : noFsl [l] = true)
    (h : c.recordLayer l = some c') :
    c'.es = layerEntries c.curDef c.curRep c.es l ∧ c'.curDef = c.curDef - l.meaning.numDefLevels ∧
    c'.curRep = c.curRep - l.maxRep ∧ c'.hasDef = true ∧ c'.hasRep = c.hasRep ∧
    c'.meaningRev = l.meaning :: c.meaningRev := by
  cases l with
  | fsl v d n => simp [noFsl] at hf
  | validity v n =>
    cases v with
    | none =>
      simp only [Ctx.recordLayer, Ctx.recordValidityBuf, Ctx.checkoutDef, Option.some.injEq] at h
      subst h
      exact ⟨rfl, rfl, rfl, hd, rfl, rfl⟩
    | some v =>
      simp only [Ctx.recordLayer, Ctx.recordValidityBuf, Ctx.checkoutDef, Ctx.doRecordValidity] at h
      by_cases hb : c.bufLen < v.length + c.numSpecials
      · simp only [hb, ↓reduceIte] at h; cases h
      · simp only [hb, ↓reduceIte, Option.some.injEq] at h
        subst h
        exact ⟨rfl, rfl, rfl, hd, rfl, rfl⟩
  | offsets lens v e s =>
    simp only [Ctx.recordLayer, Ctx.recordOffsets, Ctx.checkoutDef] at h
    cases v with
    | none =>
      simp only [Option.bind_some] at h
      by_cases h0 : lens.length + c.numSpecials = 0
      · simp only [h0, ↓reduceIte] at h; cases h
      · by_cases h1 : c.bufLen < lens.length + c.numSpecials - 1
        · simp only [h0, h1, ↓reduceIte] at h; cases h
        · simp only [h0, h1, hd, ↓reduceIte, Option.map_some, Option.some.injEq] at h
          subst h
          exact ⟨rfl, rfl, rfl, rfl, rfl, rfl⟩
    | some v =>
      simp only [Ctx.doRecordValidity] at h
      by_cases hb : c.bufLen < v.length + c.numSpecials
      · simp only [hb, ↓reduceIte, Option.bind_none] at h; cases h
      · simp only [hb, ↓reduceIte, Option.bind_some] at h
        by_cases h0 : lens.length + c.numSpecials = 0
        · simp only [h0, ↓reduceIte] at h; cases h
        · by_cases h1 : c.bufLen < lens.length + c.numSpecials - 1
          · simp only [h0, h1, ↓reduceIte] at h; cases h
          · simp only [h0, h1, hd, ↓reduceIte, Option.map_some, Option.some.injEq] at h
            subst h
            exact ⟨rfl, rfl, rfl, rfl, rfl, rfl⟩

/-! ### the view relation and the entry invariant -/

/-- how a def level `d` of the unraveler relates to a serialiser entry when `D` levels belong to the layers below:
    a live entry (`dl = 0`) shows some level of the layers below, any other entry shows its own (normalised) level -/
def VD (D : Nat) (e : Entry) (d : Nat) : Prop := if e.dl = 0 then d ≤ D else d = normLevel e.dl

/-- the rep level of the unraveler after `R` lists have been unravelled -/
def VR (R : Nat) (e : Entry) (r : Nat) : Prop := r = e.rep - R

/-- entry invariant in front of a layer.  `D`: def levels not yet handed out (`current_def`), `R`: `current_rep`,
    `K`: nullable struct layers directly above (no list in between), `Mt`: number of def levels of the whole stack.
    An entry is special (its level lies beyond everything visible here), live, or masked by one of those structs. -/
def EInv (D R K Mt : Nat) (e : Entry) : Prop :=
  (T < e.dl ∧ D + K < e.dl - T ∧ e.dl - T ≤ Mt ∧ R < e.rep) ∨
  ((e.dl = 0 ∨ (D < e.dl ∧ e.dl ≤ D + K)) ∧ e.dl ≤ T ∧ (e.rep = 0 ∨ R < e.rep))

theorem normLevel_of_le {d : Nat} (h : d ≤ T) : normLevel d = d := by
  unfold normLevel; rw [if_neg (by omega)]

theorem normLevel_of_gt {d : Nat} (h : T < d) : normLevel d = d - T := by
  unfold normLevel; rw [if_pos h]

/-- a validity layer only turns live entries into entries of its own level `nl <= D`, which the layers above see as live -/
theorem VD_recValidity (D nl : Nat) (hnl : nl ≤ D) (hT : nl ≤ T) :
    ∀ (E : List Entry) (v : List Bool) (ds : List Nat), Rel2 (VD D) (recValidity nl E v) ds → Rel2 (VD D) E ds
  | [], _, ds, h => by simpa [recValidity] using h
  | e :: es, v, ds, h => by
    unfold recValidity at h
    by_cases hs : e.dl > T
    · rw [if_pos hs] at h
      cases ds with
      | nil => simp [Rel2] at h
      | cons d ds => exact ⟨h.1, VD_recValidity D nl hnl hT es v ds h.2⟩
    · rw [if_neg hs] at h
      cases v with
      | nil => exact h
      | cons b bs =>
        cases ds with
        | nil => simp [Rel2] at h
        | cons d ds =>
          refine ⟨?_, VD_recValidity D nl hnl hT es bs ds h.2⟩
          have h1 := h.1
          by_cases hc : e.dl = 0 ∧ b = false
          · rw [if_pos hc] at h1
            unfold VD at h1 ⊢
            simp only at h1
            rw [if_pos hc.1]
            by_cases hn : nl = 0
            · rw [if_pos hn] at h1; omega
            · rw [if_neg hn, normLevel_of_le hT] at h1; omega
          · rw [if_neg hc] at h1; exact h1

theorem VR_recValidity (R nl : Nat) :
    ∀ (E : List Entry) (v : List Bool) (rs : List Nat), Rel2 (VR R) (recValidity nl E v) rs → Rel2 (VR R) E rs
  | [], _, rs, h => by simpa [recValidity] using h
  | e :: es, v, rs, h => by
    unfold recValidity at h
    by_cases hs : e.dl > T
    · rw [if_pos hs] at h
      cases rs with
      | nil => simp [Rel2] at h
      | cons d ds => exact ⟨h.1, VR_recValidity R nl es v ds h.2⟩
    · rw [if_neg hs] at h
      cases v with
      | nil => exact h
      | cons b bs =>
        cases rs with
        | nil => simp [Rel2] at h
        | cons d ds =>
          refine ⟨?_, VR_recValidity R nl es bs ds h.2⟩
          have h1 := h.1
          by_cases hc : e.dl = 0 ∧ b = false
          · rw [if_pos hc] at h1; exact h1
          · rw [if_neg hc] at h1; exact h1

/-- the mask after a validity layer -/
theorem maskOf_recValidity (nl : Nat) (hnl0 : nl ≠ 0) (hT : nl ≤ T) :
    ∀ (E : List Entry) (v : List Bool), (maskOf E).length = v.length →
      maskOf (recValidity nl E v) = maskAnd (maskOf E) v
  | [], v, h => by
    cases v with
    | nil => rfl
    | cons b bs => simp [maskOf] at h
  | e :: es, v, h => by
    unfold recValidity
    by_cases hs : e.dl > T
    · rw [if_pos hs]
      simp only [maskOf, if_pos hs] at h ⊢
      exact maskOf_recValidity nl hnl0 hT es v h
    · rw [if_neg hs]
      simp only [maskOf, if_neg hs] at h
      cases v with
      | nil => simp at h
      | cons b bs =>
        simp only [List.length_cons, Nat.add_right_cancel_iff] at h
        have ih := maskOf_recValidity nl hnl0 hT es bs h
        show maskOf ((if e.dl = 0 ∧ b = false then { e with dl := nl } else e) :: recValidity nl es bs) = _
        by_cases hc : e.dl = 0 ∧ b = false
        · rw [if_pos hc]
          simp only [maskOf, if_neg hs, maskAnd]
          rw [if_neg (by omega), ih]
          simp [hc.1, hc.2, hnl0]
        · rw [if_neg hc]
          simp only [maskOf, if_neg hs, maskAnd, ih]
          congr 1
          by_cases h0 : e.dl = 0
          · have : b = true := by
              cases b with
              | true => rfl
              | false => exact absurd ⟨h0, rfl⟩ hc
            simp [h0, this]
          · simp [h0]

/-- the unraveler's validity pass over the levels that view the entries behind a validity layer with level `D + 1`:
    every non-special entry is visible and reads valid iff it was live and its bit is set -/
theorem validity_view (l2r : List Nat) (D R K Mt : Nat) (hD : D + 1 ≤ T)
    (htab : ∀ ℓ, ℓ ≤ D + 1 + K → ∃ r, l2r[ℓ]? = some r ∧ r ≤ R)
    (hout : ∀ ℓ, D + 1 + K < ℓ → ℓ ≤ Mt → ∃ r, l2r[ℓ]? = some r ∧ R < r) :
    ∀ (E : List Entry) (v : List Bool) (ds : List Nat),
      (∀ e ∈ E, EInv (D + 1) R K Mt e) → (maskOf E).length = v.length →
      Rel2 (VD D) (recValidity (D + 1) E v) ds →
      ∃ vis, visibleLevels l2r R ds = some vis ∧
        vis.map (fun d => decide (d ≤ D)) = maskAnd (maskOf E) v ∧ Rel2 (VD (D + 1)) E ds
  | [], v, ds, _, hlen, hv => by
    cases ds with
    | nil =>
      refine ⟨[], rfl, ?_, trivial⟩
      cases v <;> rfl
    | cons d ds => simp [recValidity, Rel2] at hv
  | e :: es, v, ds, hinv, hlen, hv => by
    have hinv' : ∀ x ∈ es, EInv (D + 1) R K Mt x := fun x hx => hinv x (by simp [hx])
    have he := hinv e (by simp)
    unfold recValidity at hv
    by_cases hs : e.dl > T
    · rw [if_pos hs] at hv
      cases ds with
      | nil => simp [Rel2] at hv
      | cons d ds =>
        simp only [maskOf, if_pos hs] at hlen ⊢
        obtain ⟨vis, h1, h2, h3⟩ := validity_view l2r D R K Mt hD htab hout es v ds hinv' hlen hv.2
        have hd : d = e.dl - T := by
          have := hv.1; unfold VD at this
          rw [if_neg (by omega), normLevel_of_gt hs] at this; exact this
        rcases he with ⟨_, hbig, hle, _⟩ | ⟨_, hle, _⟩
        · obtain ⟨r, hr, hRr⟩ := hout (e.dl - T) hbig hle
          refine ⟨vis, ?_, h2, ?_, h3⟩
          · simp only [visibleLevels, hd, hr, h1]
            rw [if_neg (by omega)]
          · unfold VD; rw [if_neg (by omega), normLevel_of_gt hs]; exact hd
        · omega
    · rw [if_neg hs] at hv
      simp only [maskOf, if_neg hs] at hlen
      cases v with
      | nil => simp at hlen
      | cons b bs =>
        simp only [List.length_cons, Nat.add_right_cancel_iff] at hlen
        cases ds with
        | nil => simp [Rel2] at hv
        | cons d ds =>
          obtain ⟨vis, h1, h2, h3⟩ := validity_view l2r D R K Mt hD htab hout es bs ds hinv' hlen hv.2
          have hv1 := hv.1
          rcases he with ⟨hbad, _⟩ | ⟨hcase, hle, _⟩
          · omega
          · by_cases h0 : e.dl = 0
            · cases b with
              | false =>
                rw [if_pos ⟨h0, rfl⟩] at hv1
                have hd : d = D + 1 := by
                  unfold VD at hv1; simp only at hv1
                  rw [if_neg (by omega), normLevel_of_le hD] at hv1; exact hv1
                obtain ⟨r, hr, hrR⟩ := htab (D + 1) (by omega)
                refine ⟨d :: vis, ?_, ?_, ?_, h3⟩
                · simp only [visibleLevels, hd, hr, h1]; rw [if_pos hrR]
                · simp only [List.map_cons, maskOf, if_neg hs, maskAnd, h2, hd]
                  simp [h0]
                · unfold VD; rw [if_pos h0]; omega
              | true =>
                rw [if_neg (by simp)] at hv1
                have hd : d ≤ D := by
                  unfold VD at hv1; rw [if_pos h0] at hv1; exact hv1
                obtain ⟨r, hr, hrR⟩ := htab d (by omega)
                refine ⟨d :: vis, ?_, ?_, ?_, h3⟩
                · simp only [visibleLevels, hr, h1]; rw [if_pos hrR]
                · simp only [List.map_cons, maskOf, if_neg hs, maskAnd, h2]
                  simp [h0, hd]
                · unfold VD; rw [if_pos h0]; omega
            · rw [if_neg (by simp [h0])] at hv1
              have hrange : D + 1 < e.dl ∧ e.dl ≤ D + 1 + K := by
                rcases hcase with h | h
                · exact absurd h h0
                · exact h
              have hd : d = e.dl := by
                unfold VD at hv1; rw [if_neg h0, normLevel_of_le hle] at hv1; exact hv1
              obtain ⟨r, hr, hrR⟩ := htab e.dl hrange.2
              refine ⟨d :: vis, ?_, ?_, ?_, h3⟩
              · simp only [visibleLevels, hd, hr, h1]; rw [if_pos hrR]
              · simp only [List.map_cons, maskOf, if_neg hs, maskAnd, h2, hd]
                have : ¬ e.dl ≤ D := by omega
                simp [h0, this]
              · unfold VD; rw [if_neg h0, normLevel_of_le hle]; exact hd

end LanceModel.C27
