import LanceModel.C27.Driver
def main : IO Unit := LanceModel.Util.runDriver LanceModel.C27.Driver.step {}
