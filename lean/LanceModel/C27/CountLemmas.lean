import LanceModel.C27.GenStack
/-!
C27 helper lemmas, part 8: the counting invariant `current_num_specials = number of special entries`, from which
`current_len` is the number of entries and `build` returns levels for every stack with at least one row.
-/
namespace LanceModel.C27

/-- number of special entries -/
def spCount : List Entry → Nat
  | [] => 0
  | e :: es => (if e.dl > T then 1 else 0) + spCount es

theorem length_eq_sp_mask : ∀ (E : List Entry), E.length = spCount E + (maskOf E).length
  | [] => rfl
  | e :: es => by
    have := length_eq_sp_mask es
    simp only [List.length_cons, spCount, maskOf]
    split
    · omega
    · simp only [List.length_cons]; omega

theorem recValidity_length (nl : Nat) : ∀ (E : List Entry) (v : List Bool), (recValidity nl E v).length = E.length
  | [], _ => rfl
  | e :: es, v => by
    unfold recValidity
    split
    · simp [recValidity_length nl es v]
    · cases v with
      | nil => rfl
      | cons b bs => simp [recValidity_length nl es bs]

theorem spCount_recValidity (nl : Nat) (hnl : nl ≤ T) :
    ∀ (E : List Entry) (v : List Bool), spCount (recValidity nl E v) = spCount E
  | [], _ => rfl
  | e :: es, v => by
    unfold recValidity
    by_cases hs : e.dl > T
    · rw [if_pos hs]; simp only [spCount, spCount_recValidity nl hnl es v]
    · rw [if_neg hs]
      cases v with
      | nil => rfl
      | cons b bs =>
        simp only [spCount, spCount_recValidity nl hnl es bs]
        by_cases hc : e.dl = 0 ∧ b = false
        · rw [if_pos hc]; simp only; rw [if_neg (by omega), if_neg hs]
        · rw [if_neg hc]

theorem spCount_append : ∀ (a b : List Entry), spCount (a ++ b) = spCount a + spCount b
  | [], b => by simp [spCount]
  | e :: a, b => by simp [spCount, spCount_append a b]; omega

theorem spCount_replicate0 (n : Nat) : spCount (List.replicate n ⟨0, 0⟩) = 0 := by
  induction n with
  | zero => rfl
  | succ n ih => rw [List.replicate_succ]; simp only [spCount, ih]; decide

theorem spCount_recOffsets (R el : Nat) (he : Bool) (hel : he = true → 1 ≤ el) :
    ∀ (E : List Entry) (lens : List Nat), AlignedOff he E lens →
      spCount (recOffsets R el E lens) = spCount E + lens.countP (· == 0)
  | [], lens, hal => by
    have : lens = [] := hal
    subst this; rfl
  | e :: es, lens, hal => by
    unfold recOffsets
    unfold AlignedOff at hal
    by_cases hs : e.dl > T
    · rw [if_pos hs] at hal ⊢
      simp only [spCount, if_pos hs, spCount_recOffsets R el he hel es lens hal]; omega
    · rw [if_neg hs] at hal ⊢
      cases lens with
      | nil => exact absurd hal (by simp)
      | cons len lens =>
        obtain ⟨hmask, hemp, hal'⟩ := hal
        have ih := spCount_recOffsets R el he hel es lens hal'
        simp only
        by_cases h0 : e.dl = 0
        · by_cases hlen : 0 < len
          · rw [if_pos ⟨h0, hlen⟩]
            simp only [spCount, spCount_append, spCount_replicate0, ih, if_neg hs, List.countP_cons]
            rw [if_neg (by decide)]
            have : (len == 0) = false := by simp; omega
            simp [this]
          · have hE : he = true := hemp h0 (by omega)
            have := hel hE
            rw [if_neg (by omega), if_pos h0]
            simp only [spCount, ih, if_neg hs, List.countP_cons]
            rw [if_pos (by omega)]
            have : (len == 0) = true := by simp; omega
            simp [this]; omega
        · rw [if_neg (by omega), if_neg h0]
          have hl0 : len = 0 := hmask h0
          simp only [spCount, ih, if_neg hs, List.countP_cons]
          rw [if_pos (by omega)]
          subst hl0; simp; omega

theorem recOffsets_ne_nil (R el : Nat) (he : Bool) (E : List Entry) (lens : List Nat)
    (hE : E ≠ []) (hal : AlignedOff he E lens) : recOffsets R el E lens ≠ [] := by
  cases E with
  | nil => exact absurd rfl hE
  | cons e es =>
    unfold recOffsets
    unfold AlignedOff at hal
    by_cases hs : e.dl > T
    · rw [if_pos hs]; simp
    · rw [if_neg hs] at hal ⊢
      cases lens with
      | nil => exact absurd hal (by simp)
      | cons len lens =>
        simp only
        split
        · simp
        · split <;> simp

/-- the `num_specials` field of every list layer is the number of its zero-length lists -/
def specialsOk : List Layer → Bool
  | [] => true
  | .offsets lens _ _ ns :: ls => (ns == lens.countP (· == 0)) && specialsOk ls
  | _ :: ls => specialsOk ls

/-- `add_offsets` records `num_specials` = the number of zero-length (null or empty) normalised lists -/
theorem countSpecials_eq : ∀ (lens : List Nat) (v : Option (List Bool)),
    (∀ b, v = some b → b.length = lens.length) →
    countSpecials lens v = (normLens lens v).countP (· == 0)
  | lens, none, _ => rfl
  | lens, some v, h => by
    have hlen := h v rfl
    simp only [countSpecials, normLens]
    clear h
    induction lens generalizing v with
    | nil => simp
    | cons l ls ih =>
      cases v with
      | nil => simp at hlen
      | cons b bs =>
        have := ih bs (by simpa using hlen)
        simp only [List.zip_cons_cons, List.countP_cons, List.map_cons, this]
        cases b <;> simp

theorem recordLayer_offsets_counts (c c1 : Ctx) (lens : List Nat) (v : Option (List Bool)) (he : Bool) (ns : Nat)
    (h : c.recordLayer (.offsets lens v he ns) = some c1) :
    c1.numSpecials = c.numSpecials + ns ∧ c1.curLen = c1.es.length := by
  simp only [Ctx.recordLayer, Ctx.recordOffsets, Ctx.checkoutDef] at h
  cases v with
  | none =>
    simp only [Option.bind_some] at h
    by_cases h0 : lens.length + c.numSpecials = 0
    · simp only [h0, ↓reduceIte] at h; cases h
    · by_cases h1 : c.bufLen < lens.length + c.numSpecials - 1
      · simp only [h0, h1, ↓reduceIte] at h; cases h
      · simp only [h0, h1, ↓reduceIte] at h
        cases hes : (if c.hasDef = true then some (recOffsets c.curRep (listLevels c.curDef none.isSome he).2 c.es lens)
            else recOffsetsNoDef c.curRep c.es lens) with
        | none => rw [hes] at h; simp at h
        | some es => rw [hes] at h; simp only [Option.map_some, Option.some.injEq] at h; subst h; exact ⟨rfl, rfl⟩
  | some b =>
    simp only [Ctx.doRecordValidity] at h
    by_cases hb : c.bufLen < b.length + c.numSpecials
    · simp only [hb, ↓reduceIte, Option.bind_none] at h; cases h
    · simp only [hb, ↓reduceIte, Option.bind_some] at h
      by_cases h0 : lens.length + c.numSpecials = 0
      · simp only [h0, ↓reduceIte] at h; cases h
      · by_cases h1 : c.bufLen < lens.length + c.numSpecials - 1
        · simp only [h0, h1, ↓reduceIte] at h; cases h
        · simp only [h0, h1, ↓reduceIte] at h
          cases hes : (if c.hasDef = true then
              some (recOffsets c.curRep (listLevels c.curDef (some b).isSome he).2
                (recValidity (listLevels c.curDef (some b).isSome he).1 c.es b) lens)
              else recOffsetsNoDef c.curRep (recValidity (listLevels c.curDef (some b).isSome he).1 c.es b) lens) with
          | none => rw [hes] at h; simp at h
          | some es => rw [hes] at h; simp only [Option.map_some, Option.some.injEq] at h; subst h; exact ⟨rfl, rfl⟩

theorem recValidity_ne_nil (nl : Nat) (E : List Entry) (v : List Bool) (h : E ≠ []) : recValidity nl E v ≠ [] := by
  intro h0
  have := recValidity_length nl E v
  rw [h0] at this
  cases E with
  | nil => exact h rfl
  | cons e es => simp at this

/-- **Counting invariant.**  Along a run of layers `current_num_specials` is the number of special entries, the
    entries never become empty, and `current_len` is the number of entries as soon as a layer with a validity buffer
    or a list layer has been recorded. -/
theorem counts_main :
    ∀ (rem : List Layer) (c c' : Ctx),
      noFsl rem = true → layersOk rem = true → specialsOk rem = true → c.hasDef = true →
      c.curDef = numDefs rem → c.curRep = numLists rem → numDefs rem ≤ T →
      c.recordLayers rem = some c' → alignedB (maskOf c.es) rem = true →
      c.numSpecials = spCount c.es → c.es ≠ [] →
      c'.es ≠ [] ∧ (c'.curLen = c'.es.length ∨ (c'.curLen = c.curLen ∧ c'.es = c.es ∧ numDefs rem = 0))
  | [], c, c', _, _, _, _, _, _, _, hrec, _, _, hne => by
    simp only [Ctx.recordLayers, Option.some.injEq] at hrec; subst hrec
    exact ⟨hne, Or.inr ⟨rfl, rfl, rfl⟩⟩
  | l :: rem', c, c', hnf, hok, hsp, hd, hcd, hcr, hT, hrec, hal, hns, hne => by
    obtain ⟨c1, h1, h2⟩ := recordLayers_cons_some c c' l rem' hrec
    have hnf1 : noFsl [l] = true := by cases l <;> simp [noFsl] at hnf ⊢
    have hnf' : noFsl rem' = true := by cases l <;> simp [noFsl] at hnf ⊢ <;> exact hnf
    obtain ⟨hes, hcd1, hcr1, hd1, _, _⟩ := recordLayer_spec c c1 l hd hnf1 h1
    cases l with
    | fsl _ _ _ => simp [noFsl] at hnf
    | validity v n =>
      have hok' : layersOk rem' = true := by simpa [layersOk] using hok
      have hsp' : specialsOk rem' = true := by simpa [specialsOk] using hsp
      obtain ⟨hnsp, hcl⟩ := recordLayer_validity_len c c1 v n h1
      have hcr1' : c1.curRep = numLists rem' := by
        rw [hcr1, hcr, numLists_cons]; simp [Layer.maxRep]
      cases v with
      | none =>
        have hnd : numDefs (Layer.validity none n :: rem') = numDefs rem' := by
          rw [numDefs_cons]; simp [Layer.meaning, Meaning.numDefLevels]
        have hes' : c1.es = c.es := hes
        have hal' : alignedB (maskOf c1.es) rem' = true := by
          rw [hes']; simp only [alignedB, Bool.and_eq_true] at hal; exact hal.2
        obtain ⟨i1, i2⟩ := counts_main rem' c1 c' hnf' hok' hsp' hd1
          (by rw [hcd1, hcd, hnd]; simp [Layer.meaning, Meaning.numDefLevels]) hcr1' (by omega) h2 hal'
          (by rw [hnsp, hes']; exact hns) (by rw [hes']; exact hne)
        refine ⟨i1, ?_⟩
        rcases i2 with i2 | ⟨j1, j2, j3⟩
        · exact Or.inl i2
        · exact Or.inr ⟨by rw [j1]; exact hcl, by rw [j2, hes'], by rw [hnd]; exact j3⟩
      | some bits =>
        have hnd : numDefs (Layer.validity (some bits) n :: rem') = numDefs rem' + 1 := by
          rw [numDefs_cons]; simp [Layer.meaning, Meaning.numDefLevels]; omega
        have hes' : c1.es = recValidity (numDefs rem' + 1) c.es bits := by rw [hes, hcd, hnd]; rfl
        have hlen : (maskOf c.es).length = bits.length := by
          simp only [alignedB, Bool.and_eq_true, beq_iff_eq] at hal; omega
        have hmask : maskOf c1.es = maskAnd (maskOf c.es) bits := by
          rw [hes']; exact maskOf_recValidity _ (by omega) (by omega) c.es bits hlen
        have hal' : alignedB (maskOf c1.es) rem' = true := by
          rw [hmask]; simp only [alignedB, Bool.and_eq_true] at hal; exact hal.2
        have hc1len : c1.curLen = c1.es.length := by
          simp only at hcl
          rw [hcl, hes', recValidity_length, length_eq_sp_mask c.es, hns, hlen]; omega
        obtain ⟨i1, i2⟩ := counts_main rem' c1 c' hnf' hok' hsp' hd1
          (by rw [hcd1, hcd, hnd]; simp [Layer.meaning, Meaning.numDefLevels]) hcr1' (by omega) h2 hal'
          (by rw [hnsp, hes', spCount_recValidity _ (by omega)]; exact hns)
          (by rw [hes']; exact recValidity_ne_nil _ _ _ hne)
        refine ⟨i1, Or.inl ?_⟩
        rcases i2 with i2 | ⟨j1, j2, _⟩
        · exact i2
        · rw [j1, j2]; exact hc1len
    | offsets lens v he ns =>
      simp only [layersOk, Bool.and_eq_true] at hok
      obtain ⟨hlok, hok'⟩ := hok
      simp only [specialsOk, Bool.and_eq_true, beq_iff_eq] at hsp
      obtain ⟨hnseq, hsp'⟩ := hsp
      obtain ⟨hnsp, hc1len⟩ := recordLayer_offsets_counts c c1 lens v he ns h1
      have hmeanL : (Layer.offsets lens v he ns).meaning = listMeaning v.isSome he := rfl
      have hnd : numDefs (Layer.offsets lens v he ns :: rem') =
          numDefs rem' + (listMeaning v.isSome he).numDefLevels := by
        rw [numDefs_cons, hmeanL]; omega
      have hnl : numLists (Layer.offsets lens v he ns :: rem') = numLists rem' + 1 := by
        rw [numLists_cons]; simp [Layer.maxRep]; omega
      rw [hnd] at hcd hT
      rw [hnl] at hcr
      rw [hmeanL] at hcd1
      have hcd1' : c1.curDef = numDefs rem' := by rw [hcd1, hcd]; omega
      have hcr1' : c1.curRep = numLists rem' := by rw [hcr1, hcr]; simp [Layer.maxRep]
      simp only [alignedB, Bool.and_eq_true, beq_iff_eq] at hal
      obtain ⟨⟨⟨hml, hvl⟩, hzl⟩, halr⟩ := hal
      have hlvl : ∀ hn, (hn = true → (listLevels (numDefs rem' + (listMeaning hn he).numDefLevels) hn he).1 =
            numDefs rem' + 1 ∧ 1 ≤ (listMeaning hn he).numDefLevels) ∧
          (he = true → 1 ≤ (listLevels (numDefs rem' + (listMeaning hn he).numDefLevels) hn he).2) := by
        intro hn
        cases hn <;> cases he <;> simp [listMeaning, listLevels, Meaning.numDefLevels]
      obtain ⟨E1, hE1, halO, hspE, hneE⟩ :
          ∃ E1, c1.es = recOffsets (numLists rem' + 1)
              (listLevels (numDefs rem' + (listMeaning v.isSome he).numDefLevels) v.isSome he).2 E1 lens ∧
            AlignedOff he E1 lens ∧ spCount E1 = spCount c.es ∧ E1 ≠ [] := by
        cases v with
        | none =>
          exact ⟨c.es, by rw [hes, hcd, hcr]; rfl, alignedOff_none he c.es lens hml hzl hlok, rfl, hne⟩
        | some bits =>
          have hl1 := (hlvl true).1 rfl
          have hnlT : (listLevels (numDefs rem' + (listMeaning true he).numDefLevels) true he).1 ≤ T := by
            have := hl1.1; simp only [Option.isSome_some] at hT; omega
          exact ⟨recValidity (listLevels (numDefs rem' + (listMeaning true he).numDefLevels) true he).1 c.es bits,
            by rw [hes, hcd, hcr]; rfl,
            alignedOff_some he _ (by omega) hnlT c.es lens bits hml hzl hlok,
            spCount_recValidity _ hnlT c.es bits, recValidity_ne_nil _ _ _ hne⟩
      have hmask1 : maskOf c1.es = List.replicate lens.sum true := by
        rw [hE1]; exact maskOf_recOffsets _ _ he (hlvl v.isSome).2 E1 lens halO
      obtain ⟨i1, i2⟩ := counts_main rem' c1 c' hnf' hok' hsp' hd1 hcd1' hcr1' (by omega) h2
        (by rw [hmask1]; exact halr)
        (by rw [hnsp, hE1, spCount_recOffsets _ _ he (hlvl v.isSome).2 E1 lens halO, hspE, hns, hnseq])
        (by rw [hE1]; exact recOffsets_ne_nil _ _ he E1 lens hneE halO)
      refine ⟨i1, Or.inl ?_⟩
      rcases i2 with i2 | ⟨j1, j2, _⟩
      · exact i2
      · rw [j1, j2]; exact hc1len

/-- **`serialize` returns levels**: for a contract-abiding stack with at least one row and at least one def level,
    `SerializerContext::build` does not take its "nothing recorded" early return -/
theorem serialize_returns_levels (ls : List Layer) (hnf : noFsl ls = true) (hok : layersOk ls = true)
    (hsp : specialsOk ls = true) (hal : aligned ls = true) (hrows : 0 < stackRows ls) (hdef : 0 < numDefs ls)
    (hT : numDefs ls ≤ T) (s : Ser) (hs : serializeLayers ls = some s) : s.dl ≠ none := by
  unfold serializeLayers at hs
  cases hrec : (Ctx.init ls).recordLayers ls with
  | none => rw [hrec] at hs; simp at hs
  | some c' =>
    rw [hrec] at hs
    simp only [Option.map_some, Option.some.injEq] at hs
    have hdef' : 0 < (ls.map Layer.maxDef).sum := by rw [sum_maxDef_eq]; exact hdef
    have hd0 : (Ctx.init ls).hasDef = true := by simp [Ctx.init, hdef']
    have hes0 : (Ctx.init ls).es = List.replicate (stackRows ls) ⟨0, 0⟩ := rfl
    have hmask0 : maskOf (Ctx.init ls).es = List.replicate (stackRows ls) true := by rw [hes0, maskOf_replicate]
    obtain ⟨_, hd', _⟩ := recordLayers_fields ls (Ctx.init ls) c' hnf hd0 hrec
    obtain ⟨hne, hcl⟩ := counts_main ls (Ctx.init ls) c' hnf hok hsp hd0 (by simp [Ctx.init, sum_maxDef_eq]) rfl hT
      hrec (by rw [hmask0]; exact hal) (by rw [hes0, spCount_replicate0]; rfl)
      (by rw [hes0]; intro h; have := congrArg List.length h; simp at this; omega)
    have hcurlen : c'.curLen ≠ 0 := by
      rcases hcl with h | ⟨_, _, h⟩
      · rw [h]; intro h0; exact hne (List.length_eq_zero_iff.mp h0)
      · omega
    rw [← hs]; unfold Ctx.build
    rw [if_neg hcurlen, hd']
    simp [Ser.new]

end LanceModel.C27
