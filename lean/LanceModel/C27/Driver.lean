import LanceModel.Util
import LanceModel.C27.Model
/-
C27 driver: the line protocol of harness/src/bin/c27.rs over the model.  One output line per input line.
-/
namespace LanceModel.C27.Driver
open LanceModel.Util LanceModel.C27

structure St where
  builders : List Builder := []
  pages : List Ser := []
  /-- no builder op panicked since the last `new` / `ser` -/
  inputOk : Bool := true
  /-- the builders' layers the last page was serialised from (`none` if some op had panicked) -/
  lastInput : Option (List (List Layer)) := none
  deriving Inhabited

def bad : String := "bad-op"

def parseBits (s : String) : Option (List Bool) :=
  if s = "-" then some []
  else s.toList.mapM (fun c => if c = '0' then some false else if c = '1' then some true else none)

def parseOptBits (s : String) : Option (Option (List Bool)) :=
  if s = "none" then some none else (parseBits s).map some

def showBits (v : List Bool) : String :=
  if v.isEmpty then "-" else String.ofList (v.map (fun b => if b then '1' else '0'))

def showOptBits : Option (List Bool) → String
  | none => "none"
  | some v => showBits v

def showLevels : Option (List Nat) → String
  | none => "none"
  | some l => showNatList l

def parseOptLevels (s : String) : Option (Option (List Nat)) :=
  if s = "none" then some none
  else match parseNatList s with
    | some l => if l.all (· < 65536) then some (some l) else none
    | none => none

def meaningCode : Meaning → String
  | .allValidItem => "AI"
  | .allValidList => "AL"
  | .nullableItem => "NI"
  | .nullableList => "NL"
  | .emptyableList => "EL"
  | .nullableAndEmptyableList => "NE"

def showMeaning (m : List Meaning) : String :=
  if m.isEmpty then "-" else ",".intercalate (m.map meaningCode)

def showSer (s : Ser) : String :=
  "rep=" ++ showLevels s.rep ++ " def=" ++ showLevels s.dl ++ " m=" ++ showMeaning s.meaning ++ " mvl=" ++ showOptNat s.mvl

def showRec : Rec → String
  | .v b => "V:" ++ showOptBits b
  | .o o b => "O:" ++ showNatList o ++ ":" ++ showOptBits b

def parseKind (t : String) : Option Kind :=
  match t.toList with
  | ['v'] => some .v
  | ['l'] => some .l
  | 'f' :: rest => (String.ofList rest).toNat?.map Kind.f
  | _ => none

def parseShape (s : String) : Option (List Kind) := (s.splitOn ".").mapM parseKind

def hexDigit (n : Nat) : Char := if n < 10 then Char.ofNat (48 + n) else Char.ofNat (87 + n)

def showHex (bytes : List Nat) : String :=
  if bytes.isEmpty then "-" else String.ofList (bytes.flatMap (fun b => [hexDigit (b / 16 % 16), hexDigit (b % 16)]))

def descCode (d : Desc) : Char :=
  Char.ofNat (48 + (if d.isNewRow then 4 else 0) + (if d.isVisible then 2 else 0) + (if d.isValidItem then 1 else 0))

def showDescs (ds : List Desc) : String := if ds.isEmpty then "-" else String.ofList (ds.map descCode)

def listMax (l : List Nat) : Nat := l.foldl max 0

/-- pack, describe, parse back (what `run_cw` of the harness prints) -/
def runCw (rep : Option (List Nat)) (maxRep : Nat) (dl : Option (List Nat)) (maxDef mvd n : Nat) : String :=
  let it := buildCw rep maxRep dl maxDef mvd n
  let (bytes, descs) := it.run
  let p := CwParser.new it.bitsRep it.bitsDef
  let words := chunks it.bytesPerWord bytes.length bytes
  let parsed := words.map p.parse
  let pdescs := words.map (fun w => p.parseDesc w maxRep mvd)
  "bpw=" ++ toString it.bytesPerWord ++ " br=" ++ toString it.bitsRep ++ " bd=" ++ toString it.bitsDef ++
  " hasrep=" ++ (if it.hasRepetition then "1" else "0") ++ " pbpw=" ++ toString p.bytesPerWord ++
  " phasrep=" ++ (if p.hasRep then "1" else "0") ++ " bytes=" ++ showHex bytes ++ " desc=" ++ showDescs descs ++
  " prep=" ++ showNatList (parsed.filterMap (·.1)) ++ " pdef=" ++ showNatList (parsed.filterMap (·.2)) ++
  " pdesc=" ++ showDescs pdescs

/-- what a reader observes (outermost record first): every slot under a null ancestor reads as null -/
def canonRecs : Option (List Bool) → List Rec → List Rec
  | _, [] => []
  | mask, .v b :: rest =>
    let bits := b.getD []
    let bits' := match mask with | some m => maskAnd m bits | none => bits
    .v (some bits') :: canonRecs (some bits') rest
  | mask, .o o b :: rest =>
    let bits := b.getD []
    let bits' := match mask with | some m => maskAnd m bits | none => bits
    .o o (some bits') :: canonRecs (some (List.replicate (o.getLast?.getD 0) true)) rest

def updLast (bs : List Builder) (b : Builder) : List Builder := bs.dropLast ++ [b]

def step (s : St) (line : String) : St × String :=
  match splitTokens line with
  | ["new"] => ({ builders := [{}], pages := [], inputOk := true, lastInput := none }, "ok")
  | ["nb"] => ({ s with builders := s.builders ++ [{}] }, "ok")
  | ["val", bits] =>
    match parseBits bits, s.builders.getLast? with
    | some v, some b =>
      match b.addValidityBitmap v with
      | some b' => ({ s with builders := updLast s.builders b' }, "ok")
      | none => ({ s with inputOk := false }, "panic")
    | _, _ => (s, bad)
  | ["nonull", n] =>
    match n.toNat?, s.builders.getLast? with
    | some n, some b =>
      match b.addNoNull n with
      | some b' => ({ s with builders := updLast s.builders b' }, "ok")
      | none => ({ s with inputOk := false }, "panic")
    | _, _ => (s, bad)
  | ["off", base, lens, bits] =>
    match base.toNat?, parseNatList lens, parseOptBits bits, s.builders.getLast? with
    | some _, some lens, some v, some b =>
      match b.addOffsets lens v with
      | some (b', g) => ({ s with builders := updLast s.builders b' }, "garbage=" ++ (if g then "1" else "0"))
      | none => ({ s with inputOk := false }, "panic")
    | _, _, _, _ => (s, bad)
  | ["fsl", bits, dim, n] =>
    match parseOptBits bits, dim.toNat?, n.toNat?, s.builders.getLast? with
    | some v, some dim, some n, some b =>
      match b.addFsl v dim n with
      | some b' => ({ s with builders := updLast s.builders b' }, "ok")
      | none => ({ s with inputOk := false }, "panic")
    | _, _, _, _ => (s, bad)
  | ["ser"] =>
    if s.builders.isEmpty then (s, bad)
    else
      match serialize (s.builders.map (·.layers)) with
      | none => ({ s with builders := [] }, "panic")
      | some p =>
        ({ builders := [{}], pages := s.pages ++ [p], inputOk := true,
           lastInput := if s.inputOk then some (s.builders.map (·.layers)) else none }, showSer p)
  | ["unr", shape, nums] =>
    match parseShape shape, parseNatList nums with
    | some shape, some nums =>
      if nums.length ≠ s.pages.length ∨ s.pages.isEmpty then (s, bad)
      else
        let us := (s.pages.zip nums).map (fun pn => Unr.new pn.1.rep pn.1.dl pn.1.meaning pn.2)
        match unravelAll us shape with
        | some recs => (s, " ".intercalate (recs.map showRec))
        | none => (s, "panic")
    | _, _ => (s, bad)
  | ["cw"] =>
    match s.pages.getLast? with
    | none => (s, bad)
    | some p =>
      let maxRep := (p.rep.map listMax).getD 0
      let maxDef := (p.dl.map listMax).getD 0
      let mvd := p.mvl.getD 65535
      let n := match p.rep, p.dl with
        | some r, _ => r.length
        | none, some d => d.length
        | none, none => 3
      (s, runCw p.rep maxRep p.dl maxDef mvd n)
  | "cwraw" :: maxRep :: maxDef :: mvd :: rep :: dl :: rest =>
    match maxRep.toNat?, maxDef.toNat?, mvd.toNat?, parseOptLevels rep, parseOptLevels dl with
    | some maxRep, some maxDef, some mvd, some rep, some dl =>
      if maxRep < 65536 ∧ maxDef < 65536 ∧ mvd < 65536 then
        let n := (rest.head?.bind String.toNat?).getD 0
        -- a 16-bit level makes `get_mask(16)` overflow its u16 (`1 << 16`): levels never exceed SPECIAL_THRESHOLD
        if maxRep ≥ 32768 ∨ maxDef ≥ 32768 then (s, "panic") else (s, runCw rep maxRep dl maxDef mvd n)
      else (s, bad)
    | _, _, _, _, _ => (s, bad)
  | ["file", mode] =>
    match s.pages.getLast?, s.lastInput with
    | none, _ => (s, bad)
    | some _, none => (s, "skip")
    | some _, some inp =>
      match combineBuilders inp with
      | none => (s, "skip")
      | some layers =>
        let rows := (inp.map stackRows).sum
        let hasFsl := inp.any (fun b => b.any (fun l => match l with | .fsl .. => true | _ => false))
        let leafOk := inp.all (fun b => match b.getLast? with | some (.validity ..) => true | _ => false)
        if !aligned layers || rows = 0 || hasFsl || !leafOk then (s, "skip")
        else
          let fullzip := mode.startsWith "z"
          let perBatch := mode.endsWith "p"
          let groups : List (List (List Layer)) := if perBatch then inp.map (fun b => [b]) else [inp]
          let known := groups.findSome? fun g =>
            match serialize g with
            | none => none
            | some ser =>
              let leaf := (g.map leafItems).sum
              let grows := (g.map stackRows).sum
              let nLevels := match ser.rep, ser.dl with
                | some r, _ => r.length
                | none, some d => d.length
                | none, none => 0
              if fullzip && (match ser.dl with | some d => d.all (· == 0) | none => false) then
                some "fullzip_all_zero_def"
              else if leaf = 0 ∧ nLevels > grows then some "complex_all_null_levels_per_row"
              else none
          match known with
          | some k => (s, "known:" ++ k)
          | none =>
          match serialize [layers] with
          | none => (s, "panic")
          | some p =>
            match unravelAll [Unr.new p.rep p.dl p.meaning (leafItems layers)] (kindsOf layers) with
            | none => (s, "panic")
            | some recs =>
              let ns := (layers.map Layer.numValues).reverse
              -- materialise absent validity buffers, then report every slot under a null ancestor as null
              let mat := ((recs.zip ns).map fun rn => match rn.1 with
                | .v b => Rec.v (some (b.getD (List.replicate rn.2 true)))
                | .o o b => Rec.o o (some (b.getD (List.replicate (o.length - 1) true)))).reverse
              let canon := (canonRecs none mat).reverse
              let leaf := match canon.head? with
                | some (.v (some b)) => b
                | _ => []
              let leafStr := if leaf.isEmpty then "-" else
                ",".intercalate ((leaf.zip (List.range leaf.length)).map fun bi => if bi.1 then toString bi.2 else "n")
              (s, " ".intercalate (canon.map showRec) ++ " L:" ++ leafStr)
  | ["slice", which, ks] =>
    match s.pages.getLast?, parseNatList ks with
    | some p, some ks =>
      let p' := Ser.new p.rep p.dl p.meaning
      match (if which = "r" then p.rep else p.dl) with
      | none => (s, "none")
      | some levels =>
        match sliceAll p' levels.length 0 ks with
        | some lens => (s, "lens=" ++ showNatList lens)
        | none => (s, "panic")
    | _, _ => (s, bad)
  | _ => (s, bad)

end LanceModel.C27.Driver
