import LanceModel.C27.StackLemmas
/-!
C27 helper lemmas, part 5: the entry invariant across a list layer, the mask after it, the contract → `AlignedOff`.
-/
namespace LanceModel.C27

/-- special levels stay within the levels of the stack -/
def SpB (Mt : Nat) (e : Entry) : Prop := T < e.dl → e.dl - T ≤ Mt

theorem einvL_of_einv (D R K Mt : Nat) (e : Entry) (h : EInv D R K Mt e) :
    EInvL D R K 0 false e ∧ SpB Mt e := by
  rcases h with ⟨h1, h2, h3, h4⟩ | ⟨h1, h2, h3⟩
  · exact ⟨Or.inl ⟨h1, h2, h4⟩, fun _ => h3⟩
  · refine ⟨Or.inr ⟨h2, h3, ?_⟩, fun h => by omega⟩
    rcases h1 with h1 | h1
    · exact Or.inl h1
    · exact Or.inr (Or.inr h1)

theorem einvL_weaken (D R K Mt nl : Nat) (e : Entry) (h : EInv D R K Mt e) :
    EInvL D R K nl true e ∧ SpB Mt e := by
  rcases h with ⟨h1, h2, h3, h4⟩ | ⟨h1, h2, h3⟩
  · exact ⟨Or.inl ⟨h1, h2, h4⟩, fun _ => h3⟩
  · refine ⟨Or.inr ⟨h2, h3, ?_⟩, fun h => by omega⟩
    rcases h1 with h1 | h1
    · exact Or.inl h1
    · exact Or.inr (Or.inr h1)

/-- the list's own validity pass: live entries with an unset bit get the list's null level -/
theorem einvL_recValidity (D R K Mt nl : Nat) (hnl : nl ≤ T) :
    ∀ (E : List Entry) (v : List Bool), (∀ e ∈ E, EInv D R K Mt e) →
      ∀ e' ∈ recValidity nl E v, EInvL D R K nl true e' ∧ SpB Mt e'
  | [], v, _, e', h => by simp [recValidity] at h
  | e :: es, v, hinv, e', h => by
    have he := hinv e (by simp)
    have hinv' : ∀ x ∈ es, EInv D R K Mt x := fun x hx => hinv x (by simp [hx])
    unfold recValidity at h
    by_cases hs : e.dl > T
    · rw [if_pos hs] at h
      rcases List.mem_cons.mp h with rfl | h
      · exact einvL_weaken D R K Mt nl _ he
      · exact einvL_recValidity D R K Mt nl hnl es v hinv' e' h
    · rw [if_neg hs] at h
      cases v with
      | nil =>
        rcases List.mem_cons.mp h with rfl | h
        · exact einvL_weaken D R K Mt nl _ he
        · exact einvL_weaken D R K Mt nl _ (hinv' e' h)
      | cons b bs =>
        rcases List.mem_cons.mp h with rfl | h
        · by_cases hc : e.dl = 0 ∧ b = false
          · rw [if_pos hc]
            rcases he with ⟨h1, _⟩ | ⟨_, _, h3⟩
            · omega
            · exact ⟨Or.inr ⟨hnl, h3, Or.inr (Or.inl ⟨rfl, rfl⟩)⟩, fun h => by simp only at h; omega⟩
          · rw [if_neg hc]; exact einvL_weaken D R K Mt nl _ he
        · exact einvL_recValidity D R K Mt nl hnl es bs hinv' e' h

/-- after `record_offsets` the entries satisfy the invariant of the layers below the list -/
theorem einv_recOffsets (D' R' used K nl el Mt : Nat) (hasNull hasEmpty : Bool)
    (hb : D' + used + K ≤ Mt) (hMT : Mt ≤ T)
    (hnl1 : hasNull = true → nl = D' + 1 ∧ 1 ≤ used)
    (hel1 : hasEmpty = true → el = D' + used ∧ 1 ≤ used) :
    ∀ (E : List Entry) (lens : List Nat),
      (∀ e ∈ E, EInvL (D' + used) (R' + 1) K nl hasNull e ∧ SpB Mt e) → AlignedOff hasEmpty E lens →
      ∀ e' ∈ recOffsets (R' + 1) el E lens, EInv D' R' 0 Mt e'
  | [], lens, _, _, e', h => by simp [recOffsets] at h
  | e :: es, lens, hinv, hal, e', h => by
    have he := hinv e (by simp)
    have hinv' : ∀ x ∈ es, EInvL (D' + used) (R' + 1) K nl hasNull x ∧ SpB Mt x :=
      fun x hx => hinv x (by simp [hx])
    unfold recOffsets at h
    unfold AlignedOff at hal
    by_cases hs : e.dl > T
    · rw [if_pos hs] at h hal
      rcases List.mem_cons.mp h with rfl | h
      · rcases he.1 with ⟨h1, h2, h3⟩ | ⟨h1, _⟩
        · exact Or.inl ⟨h1, by omega, he.2 h1, by omega⟩
        · omega
      · exact einv_recOffsets D' R' used K nl el Mt hasNull hasEmpty hb hMT hnl1 hel1 es lens hinv' hal e' h
    · rw [if_neg hs] at h hal
      cases lens with
      | nil => simp at h
      | cons len lens =>
        obtain ⟨hmask, hemp, hal'⟩ := hal
        have ih := einv_recOffsets D' R' used K nl el Mt hasNull hasEmpty hb hMT hnl1 hel1 es lens hinv' hal'
        rcases he.1 with ⟨hbad, _⟩ | ⟨hle, hrep, hcase⟩
        · omega
        · have hll : R' < (if e.rep = 0 then R' + 1 else e.rep) := by split <;> omega
          simp only at h
          by_cases h0 : e.dl = 0
          · by_cases hlen : 0 < len
            · rw [if_pos ⟨h0, hlen⟩] at h
              rcases List.mem_cons.mp h with rfl | h
              · exact Or.inr ⟨Or.inl rfl, by simp, Or.inr hll⟩
              · rcases List.mem_append.mp h with h | h
                · have := List.eq_of_mem_replicate h
                  subst this
                  exact Or.inr ⟨Or.inl rfl, by simp, Or.inl rfl⟩
                · exact ih e' h
            · have hE : hasEmpty = true := hemp h0 (by omega)
              obtain ⟨hel, hu1⟩ := hel1 hE
              rw [if_neg (by omega), if_pos h0] at h
              rcases List.mem_cons.mp h with rfl | h
              · exact Or.inl ⟨by simp only; omega, by simp only; omega, by simp only; omega, hll⟩
              · exact ih e' h
          · rw [if_neg (by omega), if_neg h0] at h
            rcases List.mem_cons.mp h with rfl | h
            · have hrange : D' < e.dl ∧ e.dl ≤ D' + used + K := by
                rcases hcase with h | h | h
                · exact absurd h h0
                · have := hnl1 h.1; omega
                · omega
              exact Or.inl ⟨by simp only; omega, by simp only; omega, by simp only; omega, hll⟩
            · exact ih e' h

theorem maskOf_append : ∀ (a b : List Entry), maskOf (a ++ b) = maskOf a ++ maskOf b
  | [], b => rfl
  | e :: a, b => by
    simp only [List.cons_append, maskOf]
    split <;> simp [maskOf_append a b]

/-- the mask below a list layer: every item of a live non-empty list is live -/
theorem maskOf_recOffsets (R el : Nat) (hasEmpty : Bool) (hel : hasEmpty = true → 1 ≤ el) :
    ∀ (E : List Entry) (lens : List Nat), AlignedOff hasEmpty E lens →
      maskOf (recOffsets R el E lens) = List.replicate lens.sum true
  | [], lens, hal => by
    have : lens = [] := hal
    subst this; rfl
  | e :: es, lens, hal => by
    unfold recOffsets
    unfold AlignedOff at hal
    by_cases hs : e.dl > T
    · rw [if_pos hs] at hal ⊢
      simp only [maskOf, if_pos hs]
      exact maskOf_recOffsets R el hasEmpty hel es lens hal
    · rw [if_neg hs] at hal ⊢
      cases lens with
      | nil => exact absurd hal (by simp)
      | cons len lens =>
        obtain ⟨hmask, hemp, hal'⟩ := hal
        have ih := maskOf_recOffsets R el hasEmpty hel es lens hal'
        simp only
        by_cases h0 : e.dl = 0
        · by_cases hlen : 0 < len
          · rw [if_pos ⟨h0, hlen⟩]
            simp only [maskOf, maskOf_append, maskOf_replicate, ih, List.sum_cons]
            rw [if_neg (by decide)]
            obtain ⟨k, rfl⟩ : ∃ k, len = k + 1 := ⟨len - 1, by omega⟩
            show true :: (List.replicate (k + 1 - 1) true ++ List.replicate lens.sum true) = _
            rw [Nat.add_sub_cancel, List.replicate_append_replicate,
              show k + 1 + lens.sum = (k + lens.sum) + 1 by omega, List.replicate_succ]
          · have hE : hasEmpty = true := hemp h0 (by omega)
            have := hel hE
            rw [if_neg (by omega), if_pos h0]
            simp only [maskOf]
            rw [if_pos (by omega), ih]
            have : len = 0 := by omega
            subst this; simp
        · rw [if_neg (by omega), if_neg h0]
          simp only [maskOf]
          rw [if_pos (by omega), ih]
          have : len = 0 := hmask h0
          subst this; simp


/-- well-formedness of a list layer as `do_add_offsets` produces it: a null list has (normalised) length 0 and
    `has_empty_lists` is set whenever a valid list is empty -/
def lensOk (hasEmpty : Bool) : List Nat → Option (List Bool) → Bool
  | lens, none => lens.all (fun l => l != 0 || hasEmpty)
  | lens, some v =>
    v.length == lens.length && (lens.zip v).all (fun p => (p.2 || p.1 == 0) && (!(p.2 && p.1 == 0) || hasEmpty))

/-- the contract (a list under a null struct has length 0) and the layer's well-formedness give the alignment the
    offsets lemma needs — list layer without a validity buffer -/
theorem alignedOff_none (hasEmpty : Bool) :
    ∀ (E : List Entry) (lens : List Nat), (maskOf E).length = lens.length →
      ((maskOf E).zip lens).all (fun p => p.1 || p.2 == 0) = true → lensOk hasEmpty lens none = true →
      AlignedOff hasEmpty E lens
  | [], lens, hl, _, _ => by
    cases lens with
    | nil => rfl
    | cons a b => simp [maskOf] at hl
  | e :: es, lens, hl, hm, hok => by
    unfold AlignedOff
    by_cases hs : e.dl > T
    · rw [if_pos hs]
      simp only [maskOf, if_pos hs] at hl hm
      exact alignedOff_none hasEmpty es lens hl hm hok
    · rw [if_neg hs]
      simp only [maskOf, if_neg hs] at hl hm
      cases lens with
      | nil => simp at hl
      | cons len lens =>
        simp only [List.length_cons, Nat.add_right_cancel_iff] at hl
        simp only [List.zip_cons_cons, List.all_cons, Bool.and_eq_true, Bool.or_eq_true, beq_iff_eq] at hm
        simp only [lensOk, List.all_cons, Bool.and_eq_true, Bool.or_eq_true, bne_iff_ne, ne_eq] at hok
        refine ⟨?_, ?_, alignedOff_none hasEmpty es lens hl hm.2 (by simpa [lensOk] using hok.2)⟩
        · intro h0
          rcases hm.1 with h | h
          · exact absurd h h0
          · exact h
        · intro _ hlen
          rcases hok.1 with h | h
          · exact absurd hlen h
          · exact h

/-- … and with a validity buffer (recorded first with the list's null level `nl`) -/
theorem alignedOff_some (hasEmpty : Bool) (nl : Nat) (hnl0 : nl ≠ 0) (hnlT : nl ≤ T) :
    ∀ (E : List Entry) (lens : List Nat) (v : List Bool), (maskOf E).length = lens.length →
      ((maskOf E).zip lens).all (fun p => p.1 || p.2 == 0) = true → lensOk hasEmpty lens (some v) = true →
      AlignedOff hasEmpty (recValidity nl E v) lens
  | [], lens, v, hl, _, _ => by
    cases lens with
    | nil => rfl
    | cons a b => simp [maskOf] at hl
  | e :: es, lens, v, hl, hm, hok => by
    unfold recValidity
    by_cases hs : e.dl > T
    · rw [if_pos hs]
      unfold AlignedOff
      rw [if_pos hs]
      simp only [maskOf, if_pos hs] at hl hm
      exact alignedOff_some hasEmpty nl hnl0 hnlT es lens v hl hm hok
    · rw [if_neg hs]
      simp only [maskOf, if_neg hs] at hl hm
      cases lens with
      | nil => simp at hl
      | cons len lens =>
        simp only [List.length_cons, Nat.add_right_cancel_iff] at hl
        simp only [List.zip_cons_cons, List.all_cons, Bool.and_eq_true, Bool.or_eq_true, beq_iff_eq] at hm
        cases v with
        | nil => simp [lensOk] at hok
        | cons b bs =>
          simp only [lensOk, List.length_cons, List.zip_cons_cons, List.all_cons, Bool.and_eq_true, beq_iff_eq,
            Bool.or_eq_true, Bool.not_eq_true', Nat.add_right_cancel_iff] at hok
          obtain ⟨hvl, ⟨hb1, hb2⟩, hrest⟩ := hok
          have ih := alignedOff_some hasEmpty nl hnl0 hnlT es lens bs hl hm.2
            (by simp only [lensOk, Bool.and_eq_true, beq_iff_eq]; exact ⟨hvl, hrest⟩)
          show AlignedOff hasEmpty ((if e.dl = 0 ∧ b = false then { e with dl := nl } else e) :: recValidity nl es bs) _
          by_cases hc : e.dl = 0 ∧ b = false
          · rw [if_pos hc]
            unfold AlignedOff
            simp only
            rw [if_neg (by omega)]
            refine ⟨fun _ => ?_, fun h => absurd h hnl0, ih⟩
            rcases hb1 with h | h
            · rw [hc.2] at h; exact absurd h (by decide)
            · exact h
          · rw [if_neg hc]
            unfold AlignedOff
            rw [if_neg hs]
            refine ⟨?_, ?_, ih⟩
            · intro h0
              rcases hm.1 with h | h
              · exact absurd h h0
              · exact h
            · intro h0 hlen
              have hb : b = true := by
                cases b with
                | true => rfl
                | false => exact absurd ⟨h0, rfl⟩ hc
              rcases hb2 with h | h
              · simp [hb, hlen] at h
              · exact h

/-! ### single-unraveler view of `CompositeRepDefUnraveler::unravel_offsets` -/

def stepL (u : Unr) : Option (Unr × Rec) :=
  match u.isAllValid with
  | none => none
  | some av =>
    match u.unravelOffsets [] (if av then none else some []) with
    | none => none
    | some (u', o, b) => if o.isEmpty then none else some (u', .o o b)

theorem unravelAll_l_cons (u : Unr) (ks : List Kind) :
    unravelAll [u] (.l :: ks) =
      match stepL u with
      | none => none
      | some (u', r) => (unravelAll [u'] ks).map (r :: ·) := by
  rw [unravelAll]
  unfold compUnravelOffsets stepL
  cases hav : u.isAllValid with
  | none => simp [hav]
  | some av =>
    simp only [List.mapM_cons, List.mapM_nil, hav, Option.pure_def, Option.bind_eq_bind, Option.bind_some,
      List.all_cons, List.all_nil, id, Bool.and_true]
    cases huo : u.unravelOffsets [] (if av = true then none else some []) with
    | none => simp [compUnravelOffsets.go, huo]
    | some r =>
      obtain ⟨u', o, b⟩ := r
      simp only [compUnravelOffsets.go, huo]
      by_cases he : o.isEmpty = true
      · simp [he]
      · simp [he]

end LanceModel.C27
