import LanceModel.C27.OffLemmas
import LanceModel.C27.TabLemmas
/-!
C27 helper lemmas, part 4: assembling the per-layer lemmas over a whole stack — stacks of validity layers
(nested structs around a leaf) of any depth.
-/
namespace LanceModel.C27

/-! ### a validity layer keeps the entry invariant -/

theorem einv_recValidity (D R K Mt : Nat) (hD1 : 1 ≤ D) (hDT : D + K ≤ T) :
    ∀ (E : List Entry) (v : List Bool), (∀ e ∈ E, EInv D R K Mt e) →
      ∀ e' ∈ recValidity D E v, EInv (D - 1) R (1 + K) Mt e'
  | [], v, _, e', h => by simp [recValidity] at h
  | e :: es, v, hinv, e', h => by
    have he := hinv e (by simp)
    have hinv' : ∀ x ∈ es, EInv D R K Mt x := fun x hx => hinv x (by simp [hx])
    have hkeep : EInv (D - 1) R (1 + K) Mt e := by
      rcases he with ⟨h1, h2, h3, h4⟩ | ⟨h1, h2, h3⟩
      · exact Or.inl ⟨h1, by omega, h3, h4⟩
      · refine Or.inr ⟨?_, h2, h3⟩
        rcases h1 with h1 | h1
        · exact Or.inl h1
        · exact Or.inr (by omega)
    unfold recValidity at h
    by_cases hs : e.dl > T
    · rw [if_pos hs] at h
      rcases List.mem_cons.mp h with rfl | h
      · exact hkeep
      · exact einv_recValidity D R K Mt hD1 hDT es v hinv' e' h
    · rw [if_neg hs] at h
      cases v with
      | nil =>
        rcases List.mem_cons.mp h with rfl | h
        · exact hkeep
        · have hx := hinv' e' h
          rcases hx with ⟨h1, h2, h3, h4⟩ | ⟨h1, h2, h3⟩
          · exact Or.inl ⟨h1, by omega, h3, h4⟩
          · refine Or.inr ⟨?_, h2, h3⟩
            rcases h1 with h1 | h1
            · exact Or.inl h1
            · exact Or.inr (by omega)
      | cons b bs =>
        rcases List.mem_cons.mp h with rfl | h
        · by_cases hc : e.dl = 0 ∧ b = false
          · rw [if_pos hc]
            rcases he with ⟨h1, _⟩ | ⟨_, _, h3⟩
            · omega
            · exact Or.inr ⟨Or.inr (by simp only; omega), by simp only; omega, h3⟩
          · rw [if_neg hc]; exact hkeep
        · exact einv_recValidity D R K Mt hD1 hDT es bs hinv' e' h

/-! ### single-unraveler view of the composite calls -/

/-- `CompositeRepDefUnraveler::unravel_validity` with one unraveler -/
def stepV (u : Unr) : Option (Unr × Rec) :=
  match u.isAllValid with
  | none => none
  | some true => some (u.skipValidity, .v none)
  | some false => u.unravelValidity.map fun p => (p.1, .v (some p.2))

theorem unravelAll_v_cons (u : Unr) (ks : List Kind) :
    unravelAll [u] (.v :: ks) =
      match stepV u with
      | none => none
      | some (u', r) => (unravelAll [u'] ks).map (r :: ·) := by
  rw [unravelAll]
  unfold compUnravelValidity stepV
  cases hav : u.isAllValid with
  | none => simp [hav]
  | some b =>
    cases b with
    | true => simp [hav]
    | false =>
      simp only [List.mapM_cons, List.mapM_nil, hav, Option.pure_def, Option.bind_eq_bind, Option.bind_some,
        List.all_cons, List.all_nil, id, Bool.false_and, Bool.false_eq_true, if_false]
      cases huv : u.unravelValidity with
      | none => simp [compUnravelValidity.go, huv]
      | some p => simp [compUnravelValidity.go, huv]

/-! ### stacks of validity layers -/

/-- only validity layers -/
def onlyValidity : List Layer → Bool
  | [] => true
  | .validity .. :: ls => onlyValidity ls
  | _ => false

theorem nlM_onlyValidity : ∀ (ls : List Layer), onlyValidity ls = true → nlM (ls.map Layer.meaning).reverse = 0
  | [], _ => rfl
  | l :: ls, h => by
    cases l with
    | validity v n =>
      have := nlM_onlyValidity ls (by simpa [onlyValidity] using h)
      simp only [List.map_cons, List.reverse_cons, nlM_append, this]
      cases v <;> rfl
    | offsets _ _ _ _ => simp [onlyValidity] at h
    | fsl _ _ _ => simp [onlyValidity] at h

theorem ndM_reverse_map (ls : List Layer) : ndM (ls.map Layer.meaning).reverse = numDefs ls := by
  induction ls with
  | nil => rfl
  | cons l ls ih =>
    simp only [List.map_cons, List.reverse_cons, ndM_append, ih, ndM_cons, numDefs, List.sum_cons]
    simp [ndM]; omega

theorem noFsl_of_onlyValidity : ∀ (ls : List Layer), onlyValidity ls = true → noFsl ls = true
  | [], _ => rfl
  | l :: ls, h => by
    cases l with
    | validity v n => simpa [noFsl] using noFsl_of_onlyValidity ls (by simpa [onlyValidity] using h)
    | offsets _ _ _ _ => simp [onlyValidity] at h
    | fsl _ _ _ => simp [onlyValidity] at h

theorem recordLayers_cons_some (c c' : Ctx) (l : Layer) (ls : List Layer) (h : c.recordLayers (l :: ls) = some c') :
    ∃ c1, c.recordLayer l = some c1 ∧ c1.recordLayers ls = some c' := by
  unfold Ctx.recordLayers at h
  cases h1 : c.recordLayer l with
  | none => rw [h1] at h; simp at h
  | some c1 => rw [h1] at h; exact ⟨c1, rfl, by simpa using h⟩

/-- the context fields after a run of layers (def levels present, no fixed-size lists) -/
theorem recordLayers_fields : ∀ (ls : List Layer) (c c' : Ctx), noFsl ls = true → c.hasDef = true →
    c.recordLayers ls = some c' →
    c'.meaningRev = (ls.map Layer.meaning).reverse ++ c.meaningRev ∧ c'.hasDef = true ∧ c'.hasRep = c.hasRep
  | [], c, c', _, hd, h => by
    simp only [Ctx.recordLayers, Option.some.injEq] at h; subst h; exact ⟨by simp, hd, rfl⟩
  | l :: ls, c, c', hf, hd, h => by
    obtain ⟨c1, h1, h2⟩ := recordLayers_cons_some c c' l ls h
    have hf1 : noFsl [l] = true := by cases l <;> simp [noFsl] at hf ⊢
    have hf2 : noFsl ls = true := by cases l <;> simp [noFsl] at hf ⊢ <;> exact hf
    obtain ⟨_, _, _, hd1, hr1, hm1⟩ := recordLayer_spec c c1 l hd hf1 h1
    obtain ⟨hm, hd', hr'⟩ := recordLayers_fields ls c1 c' hf2 hd1 h2
    refine ⟨?_, hd', by rw [hr', hr1]⟩
    rw [hm, hm1]; simp

theorem maskAnd_length : ∀ (m v : List Bool), m.length = v.length → (maskAnd m v).length = m.length
  | [], [], _ => rfl
  | [], _ :: _, h => by simp at h
  | _ :: _, [], h => by simp at h
  | a :: m, b :: v, h => by simp [maskAnd, maskAnd_length m v (by simpa using h)]

theorem numDefs_cons (l : Layer) (ls : List Layer) : numDefs (l :: ls) = l.meaning.numDefLevels + numDefs ls := by
  simp [numDefs]

theorem map_append_fun {α : Type} (o : Option (List α)) (a b : List α) :
    (o.map (b ++ ·)).map (a ++ ·) = o.map ((a ++ b) ++ ·) := by
  cases o <;> simp [List.append_assoc]

theorem map_cons_fun {α : Type} (o : Option (List α)) (a : List α) (x : α) :
    (o.map (x :: ·)).map (a ++ ·) = o.map ((a ++ [x]) ++ ·) := by
  cases o <;> simp [List.append_assoc]

/-- **Stacks of validity layers, induction.**  Serialise the layers `rem` on top of a context `c`, then unravel them
    (innermost first) from the final levels: the unraveler returns the logical normal form of `rem` under the mask of
    `c`, and is left with levels that view the entries of `c`. -/
theorem validity_stack_main (Mt : Nat) :
    ∀ (rem : List Layer) (c c' : Ctx) (ks : List Kind) (u : Unr),
      onlyValidity rem = true → c.hasDef = true → c.curDef = numDefs rem →
      c.recordLayers rem = some c' →
      (∀ e ∈ c.es, EInv (numDefs rem) 0 (structLevelsAbove c.meaningRev) Mt e) →
      alignedB (maskOf c.es) rem = true →
      numDefs rem + structLevelsAbove c.meaningRev ≤ T →
      Mt = ndM c'.meaningRev →
      u.meaning = c'.meaningRev → u.l2r = 0 :: levelsToRep c'.meaningRev 0 →
      u.layer = 0 → u.defCmp = 0 → u.repCmp = 0 →
      (∃ ds0, u.dl = some ds0 ∧ Rel2 (VD 0) c'.es ds0) →
      ∃ u1 ds, unravelAll [u] (kindsOf rem ++ ks) =
          (unravelAll [u1] ks).map ((nfLayers (maskOf c.es) rem).reverse ++ ·) ∧
        u1.meaning = u.meaning ∧ u1.l2r = u.l2r ∧ u1.layer = rem.length ∧ u1.defCmp = numDefs rem ∧
        u1.repCmp = 0 ∧ u1.dl = some ds ∧ Rel2 (VD (numDefs rem)) c.es ds
  | [], c, c', ks, u, _, _, _, hrec, _, _, _, _, _, _, hl, hdc, hrc, hds => by
    simp only [Ctx.recordLayers, Option.some.injEq] at hrec; subst hrec
    obtain ⟨ds0, h1, h2⟩ := hds
    refine ⟨u, ds0, ?_, rfl, rfl, by simpa using hl, by simpa [numDefs] using hdc, hrc, h1, by simpa [numDefs] using h2⟩
    simp only [kindsOf, List.map_nil, List.reverse_nil, List.nil_append, nfLayers]
    cases unravelAll [u] ks <;> simp
  | l :: rem', c, c', ks, u, honly, hd, hcd, hrec, hinv, hal, hT, hMt, hum, hul, hl, hdc, hrc, hds => by
    obtain ⟨c1, h1, h2⟩ := recordLayers_cons_some c c' l rem' hrec
    cases l with
    | offsets _ _ _ _ => simp [onlyValidity] at honly
    | fsl _ _ _ => simp [onlyValidity] at honly
    | validity v n =>
      have honly' : onlyValidity rem' = true := by simpa [onlyValidity] using honly
      obtain ⟨hes, hcd1, _, hd1, _, hm1⟩ := recordLayer_spec c c1 (.validity v n) hd rfl h1
      obtain ⟨hmf, _, _⟩ := recordLayers_fields rem' c1 c' (noFsl_of_onlyValidity rem' honly') hd1 h2
      have hkinds : kindsOf (Layer.validity v n :: rem') ++ ks = kindsOf rem' ++ (Kind.v :: ks) := by
        simp [kindsOf]
      have hidx : ∀ m B, c1.meaningRev = m :: B →
          c'.meaningRev[rem'.length]? = some m := by
        intro m B hB
        rw [hmf, hB]
        have : rem'.length = (List.map Layer.meaning rem').reverse.length := by simp
        rw [this, List.getElem?_append_right (Nat.le_refl _)]
        simp
      cases v with
      | none =>
        -- an all-valid layer: nothing is written, the unraveler skips the layer
        have hnd : numDefs (Layer.validity none n :: rem') = numDefs rem' := by
          rw [numDefs_cons]; simp [Layer.meaning, Meaning.numDefLevels]
        have hes' : c1.es = c.es := hes
        have hm1' : c1.meaningRev = Meaning.allValidItem :: c.meaningRev := hm1
        have hK : structLevelsAbove c1.meaningRev = structLevelsAbove c.meaningRev := by
          rw [hm1']; rfl
        have hal' : alignedB (maskOf c1.es) rem' = true := by
          rw [hes']; simp only [alignedB, Bool.and_eq_true] at hal; exact hal.2
        obtain ⟨u1, ds, hrun, hm, hl2r, hlay, hdcmp, hrcmp, hdl, hview⟩ :=
          validity_stack_main Mt rem' c1 c' (Kind.v :: ks) u honly' hd1
            (by rw [hcd1, hcd, hnd]; simp [Layer.meaning, Meaning.numDefLevels])
            h2 (by rw [hes', hK, ← hnd]; exact hinv) hal' (by rw [hK, ← hnd]; exact hT) hMt hum hul hl hdc hrc hds
        have hav : u1.isAllValid = some true := by
          unfold Unr.isAllValid
          rw [hm, hum, hlay, hidx _ _ hm1']; rfl
        refine ⟨u1.skipValidity, ds, ?_, hm, hl2r, by simp [Unr.skipValidity, hlay], by
          simpa [Unr.skipValidity, hnd] using hdcmp, hrcmp, hdl, by rw [hnd, ← hes']; exact hview⟩
        rw [hkinds, hrun, unravelAll_v_cons]
        simp only [stepV, hav]
        rw [hes']
        simp only [nfLayers, List.reverse_cons]
        exact map_cons_fun _ _ _
      | some bits =>
        have hnd : numDefs (Layer.validity (some bits) n :: rem') = numDefs rem' + 1 := by
          rw [numDefs_cons]; simp [Layer.meaning, Meaning.numDefLevels]; omega
        have hes' : c1.es = recValidity (numDefs rem' + 1) c.es bits := by
          rw [hes, hcd, hnd]; rfl
        have hm1' : c1.meaningRev = Meaning.nullableItem :: c.meaningRev := hm1
        have hK : structLevelsAbove c1.meaningRev = 1 + structLevelsAbove c.meaningRev := by
          rw [hm1']; rfl
        rw [hnd] at hinv hT
        have hlen : (maskOf c.es).length = bits.length := by
          simp only [alignedB, Bool.and_eq_true, beq_iff_eq] at hal; omega
        have hmask : maskOf c1.es = maskAnd (maskOf c.es) bits := by
          rw [hes']; exact maskOf_recValidity _ (by omega) (by omega) c.es bits hlen
        have hal' : alignedB (maskOf c1.es) rem' = true := by
          rw [hmask]; simp only [alignedB, Bool.and_eq_true] at hal; exact hal.2
        have hinv1 : ∀ e ∈ c1.es, EInv (numDefs rem') 0 (structLevelsAbove c1.meaningRev) Mt e := by
          rw [hes', hK]
          have := einv_recValidity (numDefs rem' + 1) 0 (structLevelsAbove c.meaningRev) Mt (by omega) hT c.es bits hinv
          simpa using this
        obtain ⟨u1, ds, hrun, hm, hl2r, hlay, hdcmp, hrcmp, hdl, hview⟩ :=
          validity_stack_main Mt rem' c1 c' (Kind.v :: ks) u honly' hd1
            (by rw [hcd1, hcd, hnd]; simp [Layer.meaning, Meaning.numDefLevels])
            h2 hinv1 hal' (by rw [hK]; omega) hMt hum hul hl hdc hrc hds
        -- the table of the real def_meaning, split at this layer
        have hsplit : c'.meaningRev = (rem'.map Layer.meaning).reverse ++ Meaning.nullableItem :: c.meaningRev := by
          rw [hmf, hm1']
        have hnda : ndM (rem'.map Layer.meaning).reverse = numDefs rem' := ndM_reverse_map rem'
        have hnla : nlM (rem'.map Layer.meaning).reverse = 0 := nlM_onlyValidity rem' honly'
        have htab := validity_table (rem'.map Layer.meaning).reverse c.meaningRev
        rw [hnda, hnla, ← hsplit] at htab
        rw [hes'] at hview
        obtain ⟨vis, hvis, hbits, hview'⟩ :=
          validity_view (0 :: levelsToRep c'.meaningRev 0) (numDefs rem') 0 (structLevelsAbove c.meaningRev) Mt
            (by omega) htab.1 (by rw [hMt]; exact htab.2) c.es bits ds hinv hlen hview
        have hmean : u1.meaning[u1.layer]? = some Meaning.nullableItem := by
          rw [hm, hum, hlay, hidx _ _ hm1']
        have hav : u1.isAllValid = some false := by
          unfold Unr.isAllValid; rw [hmean]; rfl
        have huv : u1.unravelValidity =
            some ({ u1 with layer := u1.layer + 1, defCmp := u1.defCmp + 1 },
              vis.map (fun d => decide (d ≤ u1.defCmp))) := by
          unfold Unr.unravelValidity
          rw [hmean]
          simp only [hdl, hl2r, hul, hrcmp, hvis, Option.map_some]
        refine ⟨{ u1 with layer := u1.layer + 1, defCmp := u1.defCmp + 1 }, ds, ?_, hm, hl2r, by simp [hlay],
          by simp [hdcmp, hnd], hrcmp, hdl, by rw [hnd]; exact hview'⟩
        rw [hkinds, hrun, unravelAll_v_cons]
        simp only [stepV, hav, huv, Option.map_some]
        rw [hdcmp, hbits, hmask]
        simp only [nfLayers, List.reverse_cons]
        exact map_cons_fun _ _ _

/-! ### the whole pipeline for stacks of validity layers -/

theorem recordLayer_validity_len (c c1 : Ctx) (v : Option (List Bool)) (n : Nat)
    (h : c.recordLayer (.validity v n) = some c1) :
    c1.numSpecials = c.numSpecials ∧
      c1.curLen = (match v with | some b => b.length + c.numSpecials | none => c.curLen) := by
  cases v with
  | none =>
    simp only [Ctx.recordLayer, Ctx.recordValidityBuf, Ctx.checkoutDef, Option.some.injEq] at h
    subst h; exact ⟨rfl, rfl⟩
  | some b =>
    simp only [Ctx.recordLayer, Ctx.recordValidityBuf, Ctx.checkoutDef, Ctx.doRecordValidity] at h
    by_cases hb : c.bufLen < b.length + c.numSpecials
    · simp only [hb, ↓reduceIte] at h; cases h
    · simp only [hb, ↓reduceIte, Option.some.injEq] at h
      subst h; exact ⟨rfl, rfl⟩

theorem recordLayers_curLen : ∀ (rem : List Layer) (c c' : Ctx) (mask : List Bool),
    onlyValidity rem = true → c.numSpecials = 0 → c.recordLayers rem = some c' → alignedB mask rem = true →
    c'.numSpecials = 0 ∧ (0 < numDefs rem → c'.curLen = mask.length) ∧ (numDefs rem = 0 → c'.curLen = c.curLen)
  | [], c, c', mask, _, hs, h, _ => by
    simp only [Ctx.recordLayers, Option.some.injEq] at h; subst h
    exact ⟨hs, by simp [numDefs], fun _ => rfl⟩
  | l :: rem', c, c', mask, honly, hs, h, hal => by
    obtain ⟨c1, h1, h2⟩ := recordLayers_cons_some c c' l rem' h
    cases l with
    | offsets _ _ _ _ => simp [onlyValidity] at honly
    | fsl _ _ _ => simp [onlyValidity] at honly
    | validity v n =>
      have honly' : onlyValidity rem' = true := by simpa [onlyValidity] using honly
      obtain ⟨hsp, hcl⟩ := recordLayer_validity_len c c1 v n h1
      cases v with
      | none =>
        simp only [alignedB, Bool.and_eq_true, beq_iff_eq] at hal
        obtain ⟨i1, i2, i3⟩ := recordLayers_curLen rem' c1 c' mask honly' (by rw [hsp, hs]) h2 hal.2
        have hnd : numDefs (Layer.validity none n :: rem') = numDefs rem' := by
          rw [numDefs_cons]; simp [Layer.meaning, Meaning.numDefLevels]
        rw [hnd]
        exact ⟨i1, i2, fun h0 => by rw [i3 h0]; exact hcl⟩
      | some b =>
        simp only [alignedB, Bool.and_eq_true, beq_iff_eq] at hal
        obtain ⟨⟨hm, hb⟩, hal'⟩ := hal
        have hlen : (maskAnd mask b).length = mask.length := maskAnd_length mask b (by omega)
        obtain ⟨i1, i2, i3⟩ := recordLayers_curLen rem' c1 c' (maskAnd mask b) honly' (by rw [hsp, hs]) h2 hal'
        have hnd : numDefs (Layer.validity (some b) n :: rem') = numDefs rem' + 1 := by
          rw [numDefs_cons]; simp [Layer.meaning, Meaning.numDefLevels]; omega
        rw [hnd]
        refine ⟨i1, fun _ => ?_, fun h0 => by omega⟩
        by_cases hr : 0 < numDefs rem'
        · rw [i2 hr, hlen]
        · rw [i3 (by omega)]
          simp only at hcl
          rw [hcl, hs]; omega

theorem maskOf_replicate (n : Nat) : maskOf (List.replicate n ⟨0, 0⟩) = List.replicate n true := by
  induction n with
  | zero => rfl
  | succ n ih =>
    rw [List.replicate_succ, List.replicate_succ]
    simp only [maskOf]
    rw [if_neg (by decide), ih]; rfl

theorem rel2_normLevel : ∀ (E : List Entry), Rel2 (VD 0) E (E.map (fun e => normLevel e.dl))
  | [] => trivial
  | e :: es => by
    refine ⟨?_, rel2_normLevel es⟩
    unfold VD
    by_cases h : e.dl = 0
    · rw [if_pos h]; show normLevel e.dl ≤ 0; rw [h]; decide
    · rw [if_neg h]

theorem sum_maxRep_onlyValidity : ∀ (ls : List Layer), onlyValidity ls = true → (ls.map Layer.maxRep).sum = 0
  | [], _ => rfl
  | l :: ls, h => by
    cases l with
    | validity v n =>
      simp only [List.map_cons, List.sum_cons, Layer.maxRep]
      rw [sum_maxRep_onlyValidity ls (by simpa [onlyValidity] using h)]
    | offsets _ _ _ _ => simp [onlyValidity] at h
    | fsl _ _ _ => simp [onlyValidity] at h

theorem sum_maxDef_eq (ls : List Layer) : (ls.map Layer.maxDef).sum = numDefs ls := by
  induction ls with
  | nil => rfl
  | cons l ls ih => simp [numDefs, maxDef_eq] at ih ⊢; omega

/-- **Nested structs around a leaf, any depth, any number of rows**: for every stack of validity layers (each with
    or without a validity buffer) that satisfies the caller contract, unravelling the serialised definition levels
    layer by layer returns the logical normal form — every slot under a null ancestor reads null, a layer without a
    buffer has none. -/
theorem validity_stack_roundtrip (ls : List Layer) (k : Nat) (honly : onlyValidity ls = true)
    (hal : aligned ls = true) (hrows : 0 < stackRows ls) (hdef : 0 < numDefs ls) (hT : numDefs ls ≤ T)
    (s : Ser) (hs : serializeLayers ls = some s) :
    unravelAll [Unr.new s.rep s.dl s.meaning k] (kindsOf ls) = some (nf ls).reverse := by
  unfold serializeLayers at hs
  cases hrec : (Ctx.init ls).recordLayers ls with
  | none => rw [hrec] at hs; simp at hs
  | some c' =>
    rw [hrec] at hs
    simp only [Option.map_some, Option.some.injEq] at hs
    have hdef' : 0 < (ls.map Layer.maxDef).sum := by rw [sum_maxDef_eq]; exact hdef
    have hd0 : (Ctx.init ls).hasDef = true := by simp [Ctx.init, hdef']
    have hr0 : (Ctx.init ls).hasRep = false := by simp [Ctx.init, sum_maxRep_onlyValidity ls honly]
    have hes0 : (Ctx.init ls).es = List.replicate (stackRows ls) ⟨0, 0⟩ := rfl
    have hmask0 : maskOf (Ctx.init ls).es = List.replicate (stackRows ls) true := by rw [hes0, maskOf_replicate]
    have hal0 : alignedB (maskOf (Ctx.init ls).es) ls = true := by rw [hmask0]; exact hal
    obtain ⟨hmf, hd', hr'⟩ := recordLayers_fields ls (Ctx.init ls) c' (noFsl_of_onlyValidity ls honly) hd0 hrec
    have hm0 : (Ctx.init ls).meaningRev = [] := rfl
    rw [hm0, List.append_nil] at hmf
    obtain ⟨_, hcl, _⟩ := recordLayers_curLen ls (Ctx.init ls) c' _ honly rfl hrec hal0
    have hcurlen : c'.curLen ≠ 0 := by
      rw [hcl hdef, hmask0, List.length_replicate]; omega
    have hsb : s = Ser.new none (some (c'.es.map (fun e => normLevel e.dl))) c'.meaningRev := by
      rw [← hs]; unfold Ctx.build
      rw [if_neg hcurlen, hr', hr0, hd']; rfl
    have hinv0 : ∀ e ∈ (Ctx.init ls).es, EInv (numDefs ls) 0 (structLevelsAbove (Ctx.init ls).meaningRev)
        (ndM c'.meaningRev) e := by
      intro e he
      rw [hes0] at he
      have := List.eq_of_mem_replicate he
      subst this
      exact Or.inr ⟨Or.inl rfl, by decide, Or.inl rfl⟩
    obtain ⟨u1, ds, hrun, _⟩ :=
      validity_stack_main (ndM c'.meaningRev) ls (Ctx.init ls) c' []
        (Unr.new s.rep s.dl s.meaning k) honly hd0 (by simp [Ctx.init, sum_maxDef_eq]) hrec hinv0 hal0
        (by rw [hm0]; simp [structLevelsAbove]; exact hT) rfl
        (by rw [hsb]; rfl) (by rw [hsb]; rfl) rfl rfl rfl
        ⟨c'.es.map (fun e => normLevel e.dl), by rw [hsb]; rfl, rel2_normLevel c'.es⟩
    rw [List.append_nil] at hrun
    rw [hrun, hmask0]
    simp [unravelAll, nf]

/-- the same with "serialisation returned def levels" in place of "at least one row" -/
theorem validity_stack_roundtrip_lev (ls : List Layer) (k : Nat) (honly : onlyValidity ls = true)
    (hal : aligned ls = true) (hdef : 0 < numDefs ls) (hT : numDefs ls ≤ T)
    (s : Ser) (hs : serializeLayers ls = some s) (hlev : s.dl ≠ none) :
    unravelAll [Unr.new s.rep s.dl s.meaning k] (kindsOf ls) = some (nf ls).reverse := by
  unfold serializeLayers at hs
  cases hrec : (Ctx.init ls).recordLayers ls with
  | none => rw [hrec] at hs; simp at hs
  | some c' =>
    rw [hrec] at hs
    simp only [Option.map_some, Option.some.injEq] at hs
    have hdef' : 0 < (ls.map Layer.maxDef).sum := by rw [sum_maxDef_eq]; exact hdef
    have hd0 : (Ctx.init ls).hasDef = true := by simp [Ctx.init, hdef']
    have hr0 : (Ctx.init ls).hasRep = false := by simp [Ctx.init, sum_maxRep_onlyValidity ls honly]
    have hes0 : (Ctx.init ls).es = List.replicate (stackRows ls) ⟨0, 0⟩ := rfl
    have hmask0 : maskOf (Ctx.init ls).es = List.replicate (stackRows ls) true := by rw [hes0, maskOf_replicate]
    have hal0 : alignedB (maskOf (Ctx.init ls).es) ls = true := by rw [hmask0]; exact hal
    obtain ⟨hmf, hd', hr'⟩ := recordLayers_fields ls (Ctx.init ls) c' (noFsl_of_onlyValidity ls honly) hd0 hrec
    have hm0 : (Ctx.init ls).meaningRev = [] := rfl
    rw [hm0, List.append_nil] at hmf
    have hcurlen : c'.curLen ≠ 0 := by
      intro h0
      apply hlev
      rw [← hs]; unfold Ctx.build; rw [if_pos h0]; rfl
    have hsb : s = Ser.new none (some (c'.es.map (fun e => normLevel e.dl))) c'.meaningRev := by
      rw [← hs]; unfold Ctx.build
      rw [if_neg hcurlen, hr', hr0, hd']; rfl
    have hinv0 : ∀ e ∈ (Ctx.init ls).es, EInv (numDefs ls) 0 (structLevelsAbove (Ctx.init ls).meaningRev)
        (ndM c'.meaningRev) e := by
      intro e he
      rw [hes0] at he
      have := List.eq_of_mem_replicate he
      subst this
      exact Or.inr ⟨Or.inl rfl, by decide, Or.inl rfl⟩
    obtain ⟨u1, ds, hrun, _⟩ :=
      validity_stack_main (ndM c'.meaningRev) ls (Ctx.init ls) c' []
        (Unr.new s.rep s.dl s.meaning k) honly hd0 (by simp [Ctx.init, sum_maxDef_eq]) hrec hinv0 hal0
        (by rw [hm0]; simp [structLevelsAbove]; exact hT) rfl
        (by rw [hsb]; rfl) (by rw [hsb]; rfl) rfl rfl rfl
        ⟨c'.es.map (fun e => normLevel e.dl), by rw [hsb]; rfl, rel2_normLevel c'.es⟩
    rw [List.append_nil] at hrun
    rw [hrun, hmask0]
    simp [unravelAll, nf]


theorem onlyValidity_of_noLists : ∀ (ls : List Layer), noFsl ls = true → numLists ls = 0 → onlyValidity ls = true
  | [], _, _ => rfl
  | l :: ls, hf, hn => by
    cases l with
    | validity v n =>
      simp only [onlyValidity]
      exact onlyValidity_of_noLists ls (by simpa [noFsl] using hf) (by simpa [numLists, Layer.maxRep] using hn)
    | offsets _ _ _ _ => simp [numLists, Layer.maxRep] at hn
    | fsl _ _ _ => simp [noFsl] at hf

end LanceModel.C27
