/-
C27 model: repetition / definition levels (rust/lance-encoding/src/repdef.rs, with the `fix:` commits
efa890e, 23228cc, ad195d7, 1a3d34d, 2503e12).

Import-free.  `Option`-valued functions return `none` where the Rust code panics.

Representation choices
* the pair of level buffers `rep_levels` / `def_levels` of `SerializerContext` is ONE list of `Entry` (the live
  prefix of both buffers, zipped); a buffer that the code does not allocate (`max_rep = 0` / `max_def = 0`) is the
  constant-0 component and is dropped again in `build`.  The "no def levels" fast path of `record_offsets` is
  modelled separately (`recOffsetsNoDef`) and proved equal to the general path in `SerLemmas.lean`.
* a list layer stores the normalised *lengths* (`offsets.windows(2)`); offsets are their prefix sums.
* the unraveler's in-place compaction (`read_idx` / `write_idx` + `truncate`) is a function returning the kept entries.
-/
namespace LanceModel.C27

/-- `SPECIAL_THRESHOLD = u16::MAX / 2` -/
def T : Nat := 32767

/-- `DefinitionInterpretation` -/
inductive Meaning where
  | allValidItem
  | allValidList
  | nullableItem
  | nullableList
  | emptyableList
  | nullableAndEmptyableList
  deriving DecidableEq, Repr, Inhabited

namespace Meaning
/-- `DefinitionInterpretation::num_def_levels` -/
def numDefLevels : Meaning → Nat
  | allValidItem => 0
  | allValidList => 0
  | nullableItem => 1
  | nullableList => 1
  | emptyableList => 1
  | nullableAndEmptyableList => 2
/-- `DefinitionInterpretation::is_all_valid` -/
def isAllValid : Meaning → Bool
  | allValidItem => true
  | allValidList => true
  | emptyableList => true
  | _ => false
/-- `DefinitionInterpretation::is_list` -/
def isList : Meaning → Bool
  | allValidList => true
  | nullableList => true
  | emptyableList => true
  | nullableAndEmptyableList => true
  | _ => false
end Meaning

/-- one slot of the zipped (`rep_levels`, `def_levels`) buffers; `dl > T` marks a special (null / empty list) entry -/
structure Entry where
  rep : Nat
  dl : Nat
  deriving DecidableEq, Repr, Inhabited

/-- `RawRepDef` (`ValidityDesc` / `OffsetDesc` / `FslDesc`); `lens` = `offsets.windows(2)` of the normalised offsets,
    `num_values` of an offsets layer is `lens.length` -/
inductive Layer where
  | validity (v : Option (List Bool)) (n : Nat)
  | offsets (lens : List Nat) (v : Option (List Bool)) (hasEmpty : Bool) (numSpecials : Nat)
  | fsl (v : Option (List Bool)) (dim : Nat) (n : Nat)
  deriving DecidableEq, Repr, Inhabited

namespace Layer
/-- `RawRepDef::has_nulls` -/
def hasNulls : Layer → Bool
  | validity v _ => v.isSome
  | offsets _ v _ _ => v.isSome
  | fsl v _ _ => v.isSome
/-- `RawRepDef::num_values` -/
def numValues : Layer → Nat
  | validity _ n => n
  | offsets lens _ _ _ => lens.length
  | fsl _ _ n => n
/-- `RawRepDef::num_specials` -/
def numSpecials : Layer → Nat
  | offsets _ _ _ s => s
  | _ => 0
/-- `RawRepDef::max_def` -/
def maxDef : Layer → Nat
  | offsets _ v hasEmpty _ => (if hasEmpty then 1 else 0) + (if v.isSome then 1 else 0)
  | validity v _ => if v.isSome then 1 else 0
  | fsl v _ _ => if v.isSome then 1 else 0
/-- `RawRepDef::max_rep` -/
def maxRep : Layer → Nat
  | offsets .. => 1
  | _ => 0
/-- `matches!(r, RawRepDef::Validity(ValidityDesc { validity: None, .. }))` -/
def isPlain : Layer → Bool
  | validity none _ => true
  | _ => false
end Layer

/-! ## `RepDefBuilder` -/

/-- `RepDefBuilder`: `repdefs` in push order (outermost first) and `len` -/
structure Builder where
  layers : List Layer := []
  len : Option Nat := none
  deriving Repr, Inhabited

/-- `RepDefBuilder::add_validity_bitmap` (`check_validity_len` asserts) -/
def Builder.addValidityBitmap (b : Builder) (v : List Bool) : Option Builder :=
  match b.len with
  | some l => if v.length = l then some { b with layers := b.layers ++ [.validity (some v) v.length] } else none
  | none => some { layers := b.layers ++ [.validity (some v) v.length], len := some v.length }

/-- `RepDefBuilder::add_no_null` -/
def Builder.addNoNull (b : Builder) (n : Nat) : Option Builder :=
  match b.len with
  | some l => if n = l then some { b with layers := b.layers ++ [.validity none n] } else none
  | none => some { layers := b.layers ++ [.validity none n], len := some n }

/-- `RepDefBuilder::add_fsl` (the `debug_assert` on the validity length is compiled out) -/
def Builder.addFsl (b : Builder) (v : Option (List Bool)) (dim n : Nat) : Option Builder :=
  match b.len with
  | some l => if n = l then some { layers := b.layers ++ [.fsl v dim n], len := some (n * dim) } else none
  | none => some { layers := b.layers ++ [.fsl v dim n], len := some (n * dim) }

/-- `do_add_offsets`, the normalised lengths: a null list has length 0 (`lengths.zip(validity.iter())` truncates) -/
def normLens (lens : List Nat) : Option (List Bool) → List Nat
  | none => lens
  | some v => (lens.zip v).map (fun p => if p.2 then p.1 else 0)
/-- `do_add_offsets`, `num_specials`: null lists and empty lists -/
def countSpecials (lens : List Nat) : Option (List Bool) → Nat
  | none => lens.countP (· == 0)
  | some v => (lens.zip v).countP (fun p => !p.2 || p.1 == 0)
/-- `do_add_offsets`, `has_empty_lists`: some *valid* list is empty -/
def hasEmptyLists (lens : List Nat) : Option (List Bool) → Bool
  | none => lens.any (· == 0)
  | some v => (lens.zip v).any (fun p => p.2 && p.1 == 0)
/-- `do_add_offsets`, `has_garbage_values`: some null list has a non-zero length -/
def hasGarbage (lens : List Nat) : Option (List Bool) → Bool
  | none => false
  | some v => (lens.zip v).any (fun p => !p.2 && p.1 != 0)

/-- `RepDefBuilder::add_offsets` on the raw lengths `off[i+1] - off[i]` (`check_offset_len` asserts);
    returns the builder and `has_garbage_values` -/
def Builder.addOffsets (b : Builder) (lens : List Nat) (v : Option (List Bool)) : Option (Builder × Bool) :=
  let nl := normLens lens v
  let layer := Layer.offsets nl v (hasEmptyLists lens v) (countSpecials lens v)
  match b.len with
  | some l =>
    if nl.length = l then some ({ layers := b.layers ++ [layer], len := some nl.sum }, hasGarbage lens v) else none
  | none => some ({ layers := b.layers ++ [layer], len := some nl.sum }, hasGarbage lens v)

/-! ## `RepDefBuilder::concat_layers` -/

/-- validity of one layer as bits (`append_buffer` / `append_n(num_values, true)`) -/
def Layer.bitsOrTrue : Layer → List Bool
  | .validity (some v) _ => v
  | .validity none n => List.replicate n true
  | .fsl (some v) _ _ => v
  | .fsl none _ n => List.replicate n true
  | .offsets _ (some v) _ _ => v
  | .offsets lens none _ _ => List.replicate lens.length true

/-- `RepDefBuilder::concat_layers` for layers of one kind (the kind of the last layer decides, as in the code; a layer
    of another kind among offsets layers makes the code index an empty offsets vector: `none`) -/
def concatLayers (ls : List Layer) : Option Layer :=
  let hasNulls := ls.any Layer.hasNulls
  let total := (ls.map Layer.numValues).sum
  let v := if hasNulls then some (ls.flatMap Layer.bitsOrTrue) else none
  match ls.getLast? with
  | none => some (.validity none 0)
  | some (.validity ..) =>
    if ls.all (fun l => match l with | .offsets .. => false | _ => true) then some (.validity v total) else none
  | some (.fsl _ dim _) =>
    if ls.all (fun l => match l with | .offsets .. => false | _ => true) then some (.fsl v dim total) else none
  | some (.offsets ..) =>
    if ls.all (fun l => match l with | .offsets .. => true | _ => false) then
      some (.offsets (ls.flatMap (fun l => match l with | .offsets lens .. => lens | _ => []))
        v (ls.any (fun l => match l with | .offsets _ _ e _ => e | _ => false)) (ls.map Layer.numSpecials).sum)
    else none

/-- layer `k` of every builder (`b.repdefs[layer_index]` panics when a builder is shorter) -/
def layerColumn (bs : List (List Layer)) (k : Nat) : Option (List Layer) := bs.mapM (fun b => b[k]?)

/-- the combined layers of `RepDefBuilder::serialize` -/
def combineBuilders (bs : List (List Layer)) : Option (List Layer) :=
  match bs with
  | [] => none
  | b0 :: _ => (List.range b0.length).mapM (fun k => (layerColumn bs k).bind concatLayers)

/-! ## `SerializerContext` -/

/-- `SerializerContext`.  `es`: live prefix of the zipped level buffers; `meaningRev`: `def_meaning` with the most
    recently pushed (innermost) layer first; `bufLen`: allocated length of the buffers (`total_len`) -/
structure Ctx where
  es : List Entry
  meaningRev : List Meaning := []
  curRep : Nat
  curDef : Nat
  curLen : Nat := 0
  numSpecials : Nat := 0
  bufLen : Nat
  hasRep : Bool
  hasDef : Bool
  deriving Repr, Inhabited

/-- `SerializerContext::checkout_def` -/
def Ctx.checkoutDef (c : Ctx) (m : Meaning) : Nat × Ctx :=
  (c.curDef, { c with curDef := c.curDef - m.numDefLevels, meaningRev := m :: c.meaningRev })

/-- the level loop of `SerializerContext::do_record_validity`: special entries are copied, every other entry takes
    the next validity bit and becomes `nullLevel` if it was 0 and the bit is unset.  (The code's loop is driven by
    the bits and copies the trailing specials afterwards; for a stack whose lengths line up that is this function.) -/
def recValidity (nullLevel : Nat) : List Entry → List Bool → List Entry
  | [], _ => []
  | e :: es, bits =>
    if e.dl > T then e :: recValidity nullLevel es bits
    else match bits with
      | [] => e :: es
      | b :: bits' =>
        (if e.dl = 0 ∧ b = false then { e with dl := nullLevel } else e) :: recValidity nullLevel es bits'

/-- `SerializerContext::do_record_validity` (asserts the buffer is large enough) -/
def Ctx.doRecordValidity (c : Ctx) (v : List Bool) (nullLevel : Nat) : Option Ctx :=
  if c.bufLen < v.length + c.numSpecials then none
  else some { c with es := recValidity nullLevel c.es v, curLen := v.length + c.numSpecials }

/-- `SerializerContext::record_validity_buf` -/
def Ctx.recordValidityBuf (c : Ctx) : Option (List Bool) → Option Ctx
  | some v => let (lvl, c') := c.checkoutDef .nullableItem; c'.doRecordValidity v lvl
  | none => some (c.checkoutDef .allValidItem).2

/-- the general loop of `SerializerContext::record_offsets` (def levels present): per list window, copy the special
    entries in front of it, then turn the entry into the list's first item (valid non-empty list: `len` items, the
    first one carries the repetition level), an empty-list special or a null special -/
def recOffsets (repLevel emptyLevel : Nat) : List Entry → List Nat → List Entry
  | [], _ => []
  | e :: es, lens =>
    if e.dl > T then e :: recOffsets repLevel emptyLevel es lens
    else match lens with
      | [] => []
      | len :: lens' =>
        let listLevel := if e.rep = 0 then repLevel else e.rep
        if e.dl = 0 ∧ 0 < len then
          ⟨listLevel, 0⟩ :: (List.replicate (len - 1) ⟨0, 0⟩ ++ recOffsets repLevel emptyLevel es lens')
        else if e.dl = 0 then
          ⟨listLevel, emptyLevel + T⟩ :: recOffsets repLevel emptyLevel es lens'
        else
          ⟨listLevel, e.dl + T⟩ :: recOffsets repLevel emptyLevel es lens'

/-- the fast path of `SerializerContext::record_offsets` when there are no def levels at all (`assert!(len > 0)`) -/
def recOffsetsNoDef (repLevel : Nat) : List Entry → List Nat → Option (List Entry)
  | _, [] => some []
  | [], _ :: _ => none
  | e :: es, len :: lens' =>
    if len = 0 then none
    else
      (recOffsetsNoDef repLevel es lens').map
        (fun r => ⟨if e.rep = 0 then repLevel else e.rep, 0⟩ :: (List.replicate (len - 1) ⟨0, 0⟩ ++ r))

/-- the `DefinitionInterpretation` `record_offsets` checks out: by (has a validity buffer, has empty lists) -/
def listMeaning : Bool → Bool → Meaning
  | true, true => .nullableAndEmptyableList
  | true, false => .nullableList
  | false, true => .emptyableList
  | false, false => .allValidList

/-- (null_list_level, empty_list_level) of `record_offsets` when `checkout_def` returned `level` -/
def listLevels (level : Nat) : Bool → Bool → Nat × Nat
  | true, true => (level - 1, level)
  | true, false => (level, 0)
  | false, true => (0, level)
  | false, false => (0, 0)

/-- `SerializerContext::record_offsets` -/
def Ctx.recordOffsets (c : Ctx) (lens : List Nat) (v : Option (List Bool)) (hasEmpty : Bool) (nSpecials : Nat) :
    Option Ctx :=
  let repLevel := c.curRep
  let lv := listLevels c.curDef v.isSome hasEmpty
  let c1 := (c.checkoutDef (listMeaning v.isSome hasEmpty)).2
  let c2 := { c1 with curRep := c1.curRep - 1 }
  let c3? := match v with
    | some v => c2.doRecordValidity v lv.1
    | none => some c2
  c3?.bind fun c3 =>
    -- `assert!(self.rep_levels.len() >= (num_values + current_num_specials) - 1)` (usize underflow at 0)
    if lens.length + c3.numSpecials = 0 then none
    else if c3.bufLen < lens.length + c3.numSpecials - 1 then none
    else
      let es? := if c3.hasDef then some (recOffsets repLevel lv.2 c3.es lens)
                 else recOffsetsNoDef repLevel c3.es lens
      es?.map fun es => { c3 with es := es, curLen := es.length, numSpecials := c3.numSpecials + nSpecials }

/-- `SerializerContext::multiply_levels`: every non-special entry is repeated `multiplier` times.  (Faithful for
    contexts without special entries, i.e. fixed-size lists that are not below a list; `add_fsl` is not used by the
    encoders and the unraveler's `decimate` is `todo!()` when repetition levels exist.) -/
def multiplyLevels (m : Nat) : List Entry → List Entry
  | [] => []
  | e :: es => if e.dl > T then e :: multiplyLevels m es else List.replicate m e ++ multiplyLevels m es

/-- `SerializerContext::record_fsl` -/
def Ctx.recordFsl (c : Ctx) (v : Option (List Bool)) (dim : Nat) : Option Ctx :=
  (c.recordValidityBuf v).map fun c1 =>
    { c1 with es := multiplyLevels dim c1.es, curLen := (c1.curLen - c1.numSpecials) * dim + c1.numSpecials }

/-- one iteration of the layer loop of `RepDefBuilder::serialize` -/
def Ctx.recordLayer (c : Ctx) : Layer → Option Ctx
  | .validity v _ => c.recordValidityBuf v
  | .offsets lens v hasEmpty ns => c.recordOffsets lens v hasEmpty ns
  | .fsl v dim _ => c.recordFsl v dim

def Ctx.recordLayers (c : Ctx) : List Layer → Option Ctx
  | [] => some c
  | l :: ls => (c.recordLayer l).bind (·.recordLayers ls)

/-- `SerializedRepDefs` -/
structure Ser where
  rep : Option (List Nat)
  dl : Option (List Nat)
  meaning : List Meaning
  mvl : Option Nat
  deriving DecidableEq, Repr, Inhabited

/-- `max_visible_level` of `SerializedRepDefs::new`: the def levels of the layers below the first list -/
def maxVisibleLevel : List Meaning → Option Nat
  | [] => none
  | m :: ms => if m.isList then some 0 else (maxVisibleLevel ms).map (· + m.numDefLevels)

/-- `SerializedRepDefs::new` -/
def Ser.new (rep dl : Option (List Nat)) (meaning : List Meaning) : Ser :=
  { rep := rep, dl := dl, meaning := meaning, mvl := maxVisibleLevel meaning }

/-- `SerializerContext::normalize_specials` on one level -/
def normLevel (d : Nat) : Nat := if d > T then d - T else d

/-- `SerializerContext::build` (the early return hands out `def_meaning` un-reversed) -/
def Ctx.build (c : Ctx) : Ser :=
  if c.curLen = 0 then Ser.new none none c.meaningRev.reverse
  else
    Ser.new (if c.hasRep then some (c.es.map (·.rep)) else none)
      (if c.hasDef then some (c.es.map (fun e => normLevel e.dl)) else none) c.meaningRev

/-- the context `RepDefBuilder::serialize` starts from: zero-filled buffers of `total_len` entries, of which the first
    layer reads its `num_values` -/
def Ctx.init (layers : List Layer) : Ctx :=
  let maxRep := (layers.map Layer.maxRep).sum
  let maxDef := (layers.map Layer.maxDef).sum
  { es := List.replicate (layers.head?.map Layer.numValues |>.getD 0) ⟨0, 0⟩
    curRep := maxRep, curDef := maxDef
    bufLen := (layers.getLast?.map Layer.numValues |>.getD 0) + (layers.map Layer.numSpecials).sum
    hasRep := 0 < maxRep, hasDef := 0 < maxDef }

/-- `RepDefBuilder::serialize` on the combined layers -/
def serializeLayers (layers : List Layer) : Option Ser :=
  ((Ctx.init layers).recordLayers layers).map Ctx.build

/-- `RepDefBuilder::serialize(builders)` -/
def serialize (bs : List (List Layer)) : Option Ser :=
  match bs with
  | [] => none
  | b0 :: _ =>
    if bs.all (fun b => b.all Layer.isPlain) then
      some { rep := none, dl := none, meaning := b0.map (fun _ => .allValidItem), mvl := none }
    else (combineBuilders bs).bind serializeLayers

/-! ## `RepDefUnraveler` -/

/-- the `levels_to_rep` table of `RepDefUnraveler::new` after the leading 0 -/
def levelsToRep : List Meaning → Nat → List Nat
  | [], _ => []
  | .allValidItem :: ms, c => levelsToRep ms c
  | .allValidList :: ms, c => levelsToRep ms (c + 1)
  | .nullableItem :: ms, c => c :: levelsToRep ms c
  | .nullableList :: ms, c => (c + 1) :: levelsToRep ms (c + 1)
  | .emptyableList :: ms, c => (c + 1) :: levelsToRep ms (c + 1)
  | .nullableAndEmptyableList :: ms, c => (c + 1) :: (c + 1) :: levelsToRep ms (c + 1)

/-- `RepDefUnraveler` -/
structure Unr where
  rep : Option (List Nat)
  dl : Option (List Nat)
  l2r : List Nat
  meaning : List Meaning
  defCmp : Nat := 0
  repCmp : Nat := 0
  layer : Nat := 0
  numItems : Nat
  deriving DecidableEq, Repr, Inhabited

/-- `RepDefUnraveler::new` -/
def Unr.new (rep dl : Option (List Nat)) (meaning : List Meaning) (numItems : Nat) : Unr :=
  { rep := rep, dl := dl, l2r := 0 :: levelsToRep meaning 0, meaning := meaning, numItems := numItems }

/-- `RepDefUnraveler::is_all_valid` (indexing panics past the last layer) -/
def Unr.isAllValid (u : Unr) : Option Bool := u.meaning[u.layer]?.map Meaning.isAllValid

/-- result of the offsets loop: offsets pushed, validity bits pushed, entries kept, final `curlen` -/
structure OffAcc where
  offs : List Nat
  bits : List Bool
  kept : List (Nat × Nat)
  cur : Nat
  deriving DecidableEq, Repr, Inhabited

def OffAcc.push (o : Option Nat) (b : Option Bool) (k : Option (Nat × Nat)) (a : OffAcc) : OffAcc :=
  { offs := o.toList ++ a.offs, bits := b.toList ++ a.bits, kept := k.toList ++ a.kept, cur := a.cur }

/-- the loop of `RepDefUnraveler::unravel_offsets` when def levels are present, over the zipped levels -/
def offLoop (nullLevel emptyLevel maxLevel upperNull : Nat) : List (Nat × Nat) → Nat → OffAcc
  | [], cur => ⟨[], [], [], cur⟩
  | (r, d) :: rest, cur =>
    if r ≠ 0 then
      if d = 0 then
        (offLoop nullLevel emptyLevel maxLevel upperNull rest (cur + 1)).push (some cur) (some true) (some (r - 1, d))
      else if d > maxLevel then
        (offLoop nullLevel emptyLevel maxLevel upperNull rest cur).push none none (some (r - 1, d))
      else if d = nullLevel ∨ d > upperNull then
        (offLoop nullLevel emptyLevel maxLevel upperNull rest cur).push (some cur) (some false) (some (r - 1, d))
      else if d = emptyLevel then
        (offLoop nullLevel emptyLevel maxLevel upperNull rest cur).push (some cur) (some true) (some (r - 1, d))
      else
        (offLoop nullLevel emptyLevel maxLevel upperNull rest (cur + 1)).push (some cur) (some true) (some (r - 1, d))
    else offLoop nullLevel emptyLevel maxLevel upperNull rest (cur + 1)

/-- the loop of `RepDefUnraveler::unravel_offsets` without def levels: offsets pushed, rep levels kept, final `curlen` -/
def offLoopNoDef : List Nat → Nat → List Nat × List Nat × Nat
  | [], cur => ([], [], cur)
  | r :: rest, cur =>
    let (o, k, c) := offLoopNoDef rest (cur + 1)
    if r ≠ 0 then (cur :: o, (r - 1) :: k, c) else (o, k, c)

/-- how far `max_level` is raised by the nullable struct layers directly above the list -/
def structLevelsAbove : List Meaning → Nat
  | .nullableItem :: ms => 1 + structLevelsAbove ms
  | .allValidItem :: ms => structLevelsAbove ms
  | _ => 0

/-- (null_level, empty_level, number of def levels used) of `unravel_offsets` for a list layer when
    `current_def_cmp = validLevel`; `none` for a non-list layer (`unreachable!()`) -/
def unravelLevels (validLevel : Nat) : Meaning → Option (Nat × Nat × Nat)
  | .nullableList => some (validLevel + 1, 0, 1)
  | .emptyableList => some (0, validLevel + 1, 1)
  | .nullableAndEmptyableList => some (validLevel + 1, validLevel + 2, 2)
  | .allValidList => some (0, 0, 0)
  | _ => none

/-- `RepDefUnraveler::unravel_offsets`: appends to `offsets` (after popping its last element) and to `validity` -/
def Unr.unravelOffsets (u : Unr) (offsets : List Nat) (validity : Option (List Bool)) :
    Option (Unr × List Nat × Option (List Bool)) :=
  match u.rep, u.meaning[u.layer]? with
  | some rep, some m =>
    match unravelLevels u.defCmp m with
    | none => none
    | some (nullLevel, emptyLevel, used) =>
      let upperNull := max (max nullLevel emptyLevel) u.defCmp
      let maxLevel := upperNull + structLevelsAbove (u.meaning.drop (u.layer + 1))
      let curlen := offsets.getLast?.getD 0
      let offs0 := offsets.dropLast
      let u1 := { u with defCmp := u.defCmp + used, layer := u.layer + 1, repCmp := u.repCmp + 1 }
      match u.dl with
      | some dl =>
        if rep.length ≠ dl.length then none
        else
          let a := offLoop nullLevel emptyLevel maxLevel upperNull (rep.zip dl) curlen
          some ({ u1 with rep := some (a.kept.map (·.1)), dl := some (a.kept.map (·.2)) },
            offs0 ++ a.offs ++ [a.cur], validity.map (· ++ a.bits))
      | none =>
        let (o, k, c) := offLoopNoDef rep curlen
        some ({ u1 with rep := some k }, offs0 ++ o ++ [c], validity.map (· ++ List.replicate o.length true))
  | _, _ => none

/-- `RepDefUnraveler::skip_validity` -/
def Unr.skipValidity (u : Unr) : Unr := { u with layer := u.layer + 1 }

/-- the levels visible at the current repetition level (`levels_to_rep[level] <= current_rep_cmp`; indexing panics) -/
def visibleLevels (l2r : List Nat) (repCmp : Nat) : List Nat → Option (List Nat)
  | [] => some []
  | d :: ds =>
    match l2r[d]?, visibleLevels l2r repCmp ds with
    | some r, some rest => some (if r ≤ repCmp then d :: rest else rest)
    | _, _ => none

/-- `RepDefUnraveler::unravel_validity`: the bits appended to `validity` -/
def Unr.unravelValidity (u : Unr) : Option (Unr × List Bool) :=
  match u.meaning[u.layer]? with
  | none => none
  | some .allValidItem =>
    let u1 := { u with layer := u.layer + 1 }
    match u.dl with
    | some dl => (visibleLevels u.l2r u.repCmp dl).map fun vis => (u1, List.replicate vis.length true)
    | none =>
      if 0 < u.repCmp then some (u1, List.replicate ((u.rep.map List.length).getD u.numItems) true)
      else some (u1, List.replicate u.numItems true)
  | some _ =>
    match u.dl with
    | none => none
    | some dl =>
      (visibleLevels u.l2r u.repCmp dl).map fun vis =>
        ({ u with layer := u.layer + 1, defCmp := u.defCmp + 1 }, vis.map (fun d => decide (d ≤ u.defCmp)))

/-- every `dimension`-th level, starting with the first -/
def everyNth (d : Nat) : List Nat → List Nat
  | [] => []
  | x :: xs => x :: everyNth d (xs.drop (d - 1))
termination_by l => l.length
decreasing_by simp only [List.length_drop, List.length_cons]; omega

/-- `RepDefUnraveler::decimate` (`todo!()` when repetition levels exist) -/
def Unr.decimate (u : Unr) (dim : Nat) : Option Unr :=
  match u.rep with
  | some _ => none
  | none => some { u with dl := u.dl.map (everyNth dim) }

/-! ## `CompositeRepDefUnraveler` -/

/-- what one call of the composite unraveler returns -/
inductive Rec where
  | v (bits : Option (List Bool))
  | o (offsets : List Nat) (bits : Option (List Bool))
  deriving DecidableEq, Repr, Inhabited

/-- `CompositeRepDefUnraveler::unravel_validity` -/
def compUnravelValidity (us : List Unr) : Option (List Unr × Option (List Bool)) :=
  match us.mapM Unr.isAllValid with
  | none => none
  | some flags =>
    if flags.all id then some (us.map Unr.skipValidity, none)
    else
      let rec go : List Unr → Option (List Unr × List Bool)
        | [] => some ([], [])
        | u :: rest =>
          match u.unravelValidity, go rest with
          | some (u', b), some (us', bs) => some (u' :: us', b ++ bs)
          | _, _ => none
      (go us).map fun (us', bits) => (us', some bits)

/-- `CompositeRepDefUnraveler::unravel_fsl_validity` -/
def compUnravelFslValidity (us : List Unr) (dim : Nat) : Option (List Unr × Option (List Bool)) :=
  (us.mapM (fun u => Unr.decimate u dim)).bind compUnravelValidity

/-- `CompositeRepDefUnraveler::unravel_offsets` (`OffsetBuffer::new` panics on an empty offsets vector) -/
def compUnravelOffsets (us : List Unr) : Option (List Unr × List Nat × Option (List Bool)) :=
  match us.mapM Unr.isAllValid with
  | none => none
  | some flags =>
    let rec go : List Unr → List Nat → Option (List Bool) → Option (List Unr × List Nat × Option (List Bool))
      | [], offs, val => some ([], offs, val)
      | u :: rest, offs, val =>
        match u.unravelOffsets offs val with
        | none => none
        | some (u', offs', val') =>
          match go rest offs' val' with
          | none => none
          | some (us', offs'', val'') => some (u' :: us', offs'', val'')
    match go us [] (if flags.all id then none else some []) with
    | none => none
    | some (us', offs, val) => if offs.isEmpty then none else some (us', offs, val)

/-- the layer kinds as the decoder knows them from the schema, innermost first -/
inductive Kind where
  | v
  | l
  | f (dim : Nat)
  deriving DecidableEq, Repr, Inhabited

/-- unravel every layer, innermost first (what the struct / list / primitive decoders do on the way up) -/
def unravelAll : List Unr → List Kind → Option (List Rec)
  | _, [] => some []
  | us, .v :: ks =>
    match compUnravelValidity us with
    | none => none
    | some (us', b) => (unravelAll us' ks).map (Rec.v b :: ·)
  | us, .f dim :: ks =>
    match compUnravelFslValidity us dim with
    | none => none
    | some (us', b) => (unravelAll us' ks).map (Rec.v b :: ·)
  | us, .l :: ks =>
    match compUnravelOffsets us with
    | none => none
    | some (us', o, b) => (unravelAll us' ks).map (Rec.o o b :: ·)


/-! ## the logical structure (specification side) -/

/-- offsets of a list of lengths: `[0, l0, l0 + l1, ..]` -/
def offsetsFrom : Nat → List Nat → List Nat
  | start, [] => [start]
  | start, l :: ls => start :: offsetsFrom (start + l) ls

/-- pointwise `mask && v` -/
def maskAnd : List Bool → List Bool → List Bool
  | m :: ms, b :: bs => (m && b) :: maskAnd ms bs
  | _, _ => []

/-- The logical normal form of a layer stack, outermost layer first: what an Arrow reader can observe.  `mask` says
    which slots of the current layer are live (no null ancestor).  A validity buffer reports a slot under a null
    ancestor as null; a null list has length 0 (garbage behind nulls is dropped by `add_offsets`); a layer without a
    validity buffer has none afterwards. -/
def nfLayers : List Bool → List Layer → List Rec
  | _, [] => []
  | mask, .validity none _ :: ls => .v none :: nfLayers mask ls
  | mask, .validity (some v) _ :: ls => .v (some (maskAnd mask v)) :: nfLayers (maskAnd mask v) ls
  | mask, .offsets lens v _ _ :: ls =>
    .o (offsetsFrom 0 lens) (v.map (maskAnd mask)) :: nfLayers (List.replicate lens.sum true) ls
  | mask, .fsl none dim _ :: ls => .v none :: nfLayers (mask.flatMap (List.replicate dim)) ls
  | mask, .fsl (some v) dim _ :: ls =>
    .v (some (maskAnd mask v)) :: nfLayers ((maskAnd mask v).flatMap (List.replicate dim)) ls

/-- the caller contract of `RepDefBuilder` (what the structural encoders guarantee): every layer has one entry per
    slot of the layer above, validity buffers have the layer's length, and a list under a null struct is null or
    empty (`StructArray::pushdown_nulls` in the struct encoder) -/
def alignedB : List Bool → List Layer → Bool
  | _, [] => true
  | mask, .validity none n :: ls => mask.length == n && alignedB mask ls
  | mask, .validity (some v) n :: ls => mask.length == n && v.length == n && alignedB (maskAnd mask v) ls
  | mask, .offsets lens v _ _ :: ls =>
    mask.length == lens.length && (match v with | some v => v.length == lens.length | none => true) &&
    (mask.zip lens).all (fun p => p.1 || p.2 == 0) && alignedB (List.replicate lens.sum true) ls
  | mask, .fsl none dim n :: ls => mask.length == n && alignedB (mask.flatMap (List.replicate dim)) ls
  | mask, .fsl (some v) dim n :: ls =>
    mask.length == n && v.length == n && alignedB ((maskAnd mask v).flatMap (List.replicate dim)) ls

/-- number of top-level rows of a stack -/
def stackRows (ls : List Layer) : Nat := (ls.head?.map Layer.numValues).getD 0

/-- the logical normal form of a whole stack -/
def nf (ls : List Layer) : List Rec := nfLayers (List.replicate (stackRows ls) true) ls

/-- the caller contract for a whole stack -/
def aligned (ls : List Layer) : Bool := alignedB (List.replicate (stackRows ls) true) ls

/-- the layer kinds of a stack, innermost first (what the decoder knows from the schema) -/
def kindsOf (ls : List Layer) : List Kind :=
  (ls.map fun l => match l with | .validity .. => Kind.v | .offsets .. => Kind.l | .fsl _ dim _ => Kind.f dim).reverse

/-- number of items of the innermost layer (`num_items` handed to `RepDefUnraveler::new`) -/
def leafItems (ls : List Layer) : Nat :=
  match ls.getLast? with
  | some (.validity _ n) => n
  | some (.offsets lens ..) => lens.length
  | some (.fsl _ dim n) => n * dim
  | none => 0

/-! ## control words -/

/-- `lance_core::utils::bit::log_2_ceil`: the number of bits of `v` (the table is the bit length of a byte) -/
def bitLen : Nat → Nat
  | 0 => 0
  | n + 1 => bitLen ((n + 1) / 2) + 1
decreasing_by omega

/-- `get_mask` -/
def getMask (w : Nat) : Nat := 2 ^ w - 1

/-- little-endian bytes of a word -/
def toLE : Nat → Nat → List Nat
  | 0, _ => []
  | n + 1, w => w % 256 :: toLE n (w / 256)

def fromLE : List Nat → Nat
  | [] => 0
  | b :: bs => b + 256 * fromLE bs

/-- bytes per control word for a total width (`<= 8`, `<= 16`, else 4) -/
def wordBytes (totalWidth : Nat) : Nat := if totalWidth ≤ 8 then 1 else if totalWidth ≤ 16 then 2 else 4

/-- `ControlWordDesc` -/
structure Desc where
  isNewRow : Bool
  isVisible : Bool
  isValidItem : Bool
  deriving DecidableEq, Repr, Inhabited

/-- `ControlWordIterator` as built by `build_control_word_iterator` -/
inductive CwIter where
  | binary (bytes : Nat) (levels : List (Nat × Nat)) (repMask defMask defWidth maxRep maxVisibleDef bitsRep bitsDef : Nat)
  | unary (bytes : Nat) (levels : List Nat) (levelMask bitsRep bitsDef maxRep : Nat)
  | nilary (len : Nat)
  deriving Repr, Inhabited

/-- `build_control_word_iterator` -/
def buildCw (rep : Option (List Nat)) (maxRep : Nat) (dl : Option (List Nat)) (maxDef maxVisibleDef len : Nat) : CwIter :=
  let repWidth := if maxRep = 0 then 0 else bitLen maxRep
  let repMask := if maxRep = 0 then 0 else getMask repWidth
  let defWidth := if maxDef = 0 then 0 else bitLen maxDef
  let defMask := if maxDef = 0 then 0 else getMask defWidth
  let total := repWidth + defWidth
  match rep, dl with
  | some r, some d => .binary (wordBytes total) (r.zip d) repMask defMask defWidth maxRep maxVisibleDef repWidth defWidth
  | some r, none => .unary (wordBytes total) r repMask total 0 maxRep
  | none, some d => .unary (wordBytes total) d defMask 0 total 0
  | none, none => .nilary len

def CwIter.bytesPerWord : CwIter → Nat
  | .binary b .. => b
  | .unary b .. => b
  | .nilary _ => 0
def CwIter.bitsRep : CwIter → Nat
  | .binary _ _ _ _ _ _ _ br _ => br
  | .unary _ _ _ br _ _ => br
  | .nilary _ => 0
def CwIter.bitsDef : CwIter → Nat
  | .binary _ _ _ _ _ _ _ _ bd => bd
  | .unary _ _ _ _ bd _ => bd
  | .nilary _ => 0
def CwIter.hasRepetition : CwIter → Bool
  | .binary .. => true
  | .unary _ _ _ br _ _ => 0 < br
  | .nilary _ => false

/-- the control word of one (rep, def) pair: `((rep & rep_mask) << def_width) + (def & def_mask)` -/
def packBinary (repMask defMask defWidth : Nat) (p : Nat × Nat) : Nat :=
  ((p.1 &&& repMask) <<< defWidth) + (p.2 &&& defMask)

/-- all `append_next` calls: the bytes and the descriptions.  (The 1-byte unary iterator tests the unmasked level,
    the wider ones the masked level.) -/
def CwIter.run : CwIter → List Nat × List Desc
  | .binary b levels repMask defMask defWidth maxRep mvd _ _ =>
    (levels.flatMap (fun p => toLE b (packBinary repMask defMask defWidth p)),
     levels.map (fun p => ⟨p.1 == maxRep, decide (p.2 ≤ mvd), p.2 == 0⟩))
  | .unary b levels mask _ bitsDef maxRep =>
    (levels.flatMap (fun l => toLE b (l &&& mask)),
     levels.map (fun l =>
       let t := if b = 1 then l else l &&& mask
       ⟨maxRep == 0 || t == maxRep, true, t == 0 || bitsDef == 0⟩))
  | .nilary len => ([], List.replicate len ⟨true, true, true⟩)

/-- `ControlWordParser` -/
inductive CwParser where
  | both (bytes : Nat) (bitsToShift mask : Nat)
  | rep (bytes : Nat)
  | def_ (bytes : Nat)
  | nil
  deriving DecidableEq, Repr, Inhabited

/-- `ControlWordParser::new` -/
def CwParser.new (bitsRep bitsDef : Nat) : CwParser :=
  let b := wordBytes (bitsRep + bitsDef)
  match decide (0 < bitsRep), decide (0 < bitsDef) with
  | false, false => .nil
  | false, true => .def_ b
  | true, false => .rep b
  | true, true => .both b bitsDef (getMask bitsDef)

def CwParser.bytesPerWord : CwParser → Nat
  | .both b .. => b
  | .rep b => b
  | .def_ b => b
  | .nil => 0
def CwParser.hasRep : CwParser → Bool
  | .both .. => true
  | .rep _ => true
  | _ => false

/-- `ControlWordParser::parse` on one word: the level appended to `dst_rep` / `dst_def` -/
def CwParser.parse (p : CwParser) (src : List Nat) : Option Nat × Option Nat :=
  let w := fromLE src
  match p with
  | .both _ sh mask => (some (w >>> sh), some (w &&& mask))
  | .rep _ => (some w, none)
  | .def_ _ => (none, some w)
  | .nil => (none, none)

/-- `ControlWordParser::parse_desc` -/
def CwParser.parseDesc (p : CwParser) (src : List Nat) (maxRep maxVisibleDef : Nat) : Desc :=
  let w := fromLE src
  match p with
  | .both _ sh mask => ⟨(w >>> sh) == maxRep, decide ((w &&& mask) ≤ maxVisibleDef), (w &&& mask) == 0⟩
  | .rep _ => ⟨w == maxRep, true, true⟩
  | .def_ _ => ⟨true, true, w == 0⟩
  | .nil => ⟨true, true, true⟩

/-- `chunks_exact(n)` -/
def chunks (n : Nat) : Nat → List Nat → List (List Nat)
  | 0, _ => []
  | fuel + 1, l => if n = 0 ∨ l.length < n then [] else l.take n :: chunks n fuel (l.drop n)

/-- parse a whole buffer of control words: the rep levels and def levels appended -/
def CwParser.parseAll (p : CwParser) (buf : List Nat) : List Nat × List Nat :=
  let ws := (chunks p.bytesPerWord buf.length buf).map p.parse
  (ws.filterMap (·.1), ws.filterMap (·.2))

/-! ## `RepDefSlicer` -/

/-- the scan of `RepDefSlicer::slice_next` over the def levels from `start`: how many levels are passed to take
    `num` visible ones (`unwrap` panics when the levels run out) -/
def sliceScan (mvl : Nat) : List Nat → Nat → Option Nat
  | _, 0 => some 0
  | [], _ + 1 => none
  | d :: ds, n + 1 => (sliceScan mvl ds (if d ≤ mvl then n else n + 1)).map (· + 1)

/-- `RepDefSlicer::slice_next`: the number of levels returned (`slice_with_length` panics past the end) -/
def sliceNext (s : Ser) (numLevels cur num : Nat) : Option Nat :=
  match s.mvl, s.dl with
  | some mvl, some dl => sliceScan mvl (dl.drop cur) num
  | _, _ => if cur + num ≤ numLevels then some num else none

/-- `slice_next` for every requested count, then `slice_rest`: the lengths of the slices -/
def sliceAll (s : Ser) (numLevels : Nat) : Nat → List Nat → Option (List Nat)
  | cur, [] => some [numLevels - cur]
  | cur, k :: ks =>
    match sliceNext s numLevels cur k with
    | none => none
    | some n => (sliceAll s numLevels (cur + n) ks).map (n :: ·)

end LanceModel.C27
