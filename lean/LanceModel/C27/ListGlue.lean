import LanceModel.C27.ListStep
/-!
C27 helper lemmas, part 6: `unravel_offsets` of one unraveler on levels that view the output of `record_offsets`.
-/
namespace LanceModel.C27

theorem rel2_zip (R D : Nat) : ∀ (E : List Entry) (rs ds : List Nat),
    Rel2 (VR R) E rs → Rel2 (VD D) E ds → Rel2 (VP R D) E (rs.zip ds)
  | [], [], [], _, _ => trivial
  | [], [], _ :: _, _, h => by simp [Rel2] at h
  | [], _ :: _, _, h, _ => by simp [Rel2] at h
  | _ :: _, [], _, h, _ => by simp [Rel2] at h
  | _ :: _, _ :: _, [], _, h => by simp [Rel2] at h
  | e :: es, r :: rs, d :: ds, h1, h2 => ⟨⟨h1.1, h2.1⟩, rel2_zip R D es rs ds h1.2 h2.2⟩

theorem rel2_unzip (R D : Nat) : ∀ (E : List Entry) (S : List (Nat × Nat)),
    Rel2 (VP R D) E S → Rel2 (VR R) E (S.map (·.1)) ∧ Rel2 (VD D) E (S.map (·.2))
  | [], [], _ => ⟨trivial, trivial⟩
  | [], _ :: _, h => by simp [Rel2] at h
  | _ :: _, [], h => by simp [Rel2] at h
  | e :: es, p :: S, h => by
    obtain ⟨i1, i2⟩ := rel2_unzip R D es S h.2
    exact ⟨⟨h.1.1, i1⟩, ⟨h.1.2, i2⟩⟩

theorem offsetsFrom_ne_nil : ∀ (s : Nat) (lens : List Nat), offsetsFrom s lens ≠ []
  | s, [] => by simp [offsetsFrom]
  | s, l :: ls => by simp [offsetsFrom]

/-- the unraveler after `unravel_offsets` kept the entries `a.kept` -/
def afterOffsets (u : Unr) (used : Nat) (a : OffAcc) : Unr :=
  { u with defCmp := u.defCmp + used, layer := u.layer + 1, repCmp := u.repCmp + 1,
           rep := some (a.kept.map (·.1)), dl := some (a.kept.map (·.2)) }

theorem listMeaning_numDef (hn he : Bool) :
    (listMeaning hn he).numDefLevels = (if hn then 1 else 0) + (if he then 1 else 0) := by
  cases hn <;> cases he <;> rfl

theorem unravelLevels_list (D' : Nat) (hn he : Bool) :
    unravelLevels D' (listMeaning hn he) =
      some ((listLevels (D' + (listMeaning hn he).numDefLevels) hn he).1,
        (listLevels (D' + (listMeaning hn he).numDefLevels) hn he).2, (listMeaning hn he).numDefLevels) := by
  cases hn <;> cases he <;> simp [unravelLevels, listMeaning, listLevels, Meaning.numDefLevels]

theorem upperNull_list (D' : Nat) (hn he : Bool) :
    max (max (listLevels (D' + (listMeaning hn he).numDefLevels) hn he).1
      (listLevels (D' + (listMeaning hn he).numDefLevels) hn he).2) D' = D' + (listMeaning hn he).numDefLevels := by
  cases hn <;> cases he <;> simp [listMeaning, listLevels, Meaning.numDefLevels] <;> omega

/-- `unravel_offsets` with def levels present, computed -/
theorem unravelOffsets_eq (u : Unr) (m : Meaning) (nl el used : Nat) (rs ds : List Nat) (val : Option (List Bool))
    (hmean : u.meaning[u.layer]? = some m) (hrep : u.rep = some rs) (hdl : u.dl = some ds)
    (hlen : rs.length = ds.length) (hlv : unravelLevels u.defCmp m = some (nl, el, used)) :
    u.unravelOffsets [] val =
      some (afterOffsets u used (offLoop nl el
          (max (max nl el) u.defCmp + structLevelsAbove (u.meaning.drop (u.layer + 1))) (max (max nl el) u.defCmp)
          (rs.zip ds) 0),
        (offLoop nl el (max (max nl el) u.defCmp + structLevelsAbove (u.meaning.drop (u.layer + 1)))
          (max (max nl el) u.defCmp) (rs.zip ds) 0).offs ++
        [(offLoop nl el (max (max nl el) u.defCmp + structLevelsAbove (u.meaning.drop (u.layer + 1)))
          (max (max nl el) u.defCmp) (rs.zip ds) 0).cur],
        val.map (· ++ (offLoop nl el (max (max nl el) u.defCmp + structLevelsAbove (u.meaning.drop (u.layer + 1)))
          (max (max nl el) u.defCmp) (rs.zip ds) 0).bits)) := by
  unfold Unr.unravelOffsets
  simp only [hmean, hrep, hdl, hlv, hlen, ne_eq, not_true_eq_false, if_false, List.getLast?_nil, Option.getD_none,
    List.dropLast_nil, List.nil_append]
  rfl

/-- **`unravel_offsets` on one list layer.**  The unraveler has unravelled the layers below (`defCmp = D'`,
    `repCmp = R'`), its current layer is the list layer `listMeaning hn he` with the `K` nullable structs of `B`
    directly above, and its levels view the entries `record_offsets` wrote for the lengths `lens` from `E1`.  Then the
    call returns the offsets of `lens`, the list validity (`none` if the layer has no validity buffer), and is left
    with levels that view `E1`. -/
theorem list_step (u : Unr) (B : List Meaning) (D' R' : Nat) (hn he : Bool) (E1 : List Entry) (lens rs ds : List Nat)
    (hmean : u.meaning[u.layer]? = some (listMeaning hn he)) (hdrop : u.meaning.drop (u.layer + 1) = B)
    (hdc : u.defCmp = D') (hrc : u.repCmp = R') (hrep : u.rep = some rs) (hdl : u.dl = some ds)
    (hT : D' + (listMeaning hn he).numDefLevels + structLevelsAbove B ≤ T)
    (hvr : Rel2 (VR R') (recOffsets (R' + 1)
      (listLevels (D' + (listMeaning hn he).numDefLevels) hn he).2 E1 lens) rs)
    (hvd : Rel2 (VD D') (recOffsets (R' + 1)
      (listLevels (D' + (listMeaning hn he).numDefLevels) hn he).2 E1 lens) ds)
    (hinv : ∀ e ∈ E1, EInvL (D' + (listMeaning hn he).numDefLevels) (R' + 1) (structLevelsAbove B)
      (listLevels (D' + (listMeaning hn he).numDefLevels) hn he).1 hn e)
    (hal : AlignedOff he E1 lens) :
    ∃ u2 rs2 ds2, stepL u = some (u2, .o (offsetsFrom 0 lens) (if hn then some (maskOf E1) else none)) ∧
      u2.meaning = u.meaning ∧ u2.l2r = u.l2r ∧ u2.layer = u.layer + 1 ∧
      u2.defCmp = D' + (listMeaning hn he).numDefLevels ∧ u2.repCmp = R' + 1 ∧
      u2.rep = some rs2 ∧ u2.dl = some ds2 ∧
      Rel2 (VR (R' + 1)) E1 rs2 ∧ Rel2 (VD (D' + (listMeaning hn he).numDefLevels)) E1 ds2 := by
  have hlen : rs.length = ds.length := by rw [← Rel2.length_eq hvr, ← Rel2.length_eq hvd]
  have hview := rel2_zip R' D' _ rs ds hvr hvd
  have hlv := unravelLevels_list D' hn he
  have hup := upperNull_list D' hn he
  generalize hnl : (listLevels (D' + (listMeaning hn he).numDefLevels) hn he).1 = nl at *
  generalize hel : (listLevels (D' + (listMeaning hn he).numDefLevels) hn he).2 = el at *
  generalize hused : (listMeaning hn he).numDefLevels = used at *
  have hfacts : (hn = true → nl = D' + 1 ∧ 1 ≤ used) ∧ (hn = false → nl = 0) ∧
      (he = true → el = D' + used ∧ 1 ≤ used ∧ (hn = true → 2 ≤ used)) ∧ (he = false → el = 0) := by
    subst hnl hel hused
    cases hn <;> cases he <;> simp [listMeaning, listLevels, Meaning.numDefLevels]
  obtain ⟨f1, f2, f3, f4⟩ := hfacts
  obtain ⟨o1, o2, o3⟩ := offsets_view D' R' used (structLevelsAbove B) nl el hn he hT f1 f2 f3 f4 E1 lens
    (rs.zip ds) 0 hinv hal hview
  obtain ⟨k1, k2⟩ := rel2_unzip _ _ _ _ o3
  have huo := unravelOffsets_eq u (listMeaning hn he) nl el used rs ds (if hn then some [] else none)
    hmean hrep hdl hlen (by rw [hdc]; exact hlv)
  rw [hdc, hup, hdrop, o1, o2] at huo
  have hav : u.isAllValid = some (!hn) := by
    unfold Unr.isAllValid; rw [hmean]
    cases hn <;> cases he <;> rfl
  refine ⟨afterOffsets u used (offLoop nl el (D' + used + structLevelsAbove B) (D' + used) (rs.zip ds) 0),
    (offLoop nl el (D' + used + structLevelsAbove B) (D' + used) (rs.zip ds) 0).kept.map (·.1),
    (offLoop nl el (D' + used + structLevelsAbove B) (D' + used) (rs.zip ds) 0).kept.map (·.2),
    ?_, rfl, rfl, rfl, by simp [afterOffsets, hdc], by simp [afterOffsets, hrc], rfl, rfl, k1, k2⟩
  unfold stepL
  rw [hav]
  cases hn
  · simp only [Bool.not_false, if_true, Bool.false_eq_true, if_false] at huo ⊢
    rw [huo]
    simp [offsetsFrom_ne_nil]
  · simp only [Bool.not_true, Bool.false_eq_true, if_false, if_true] at huo ⊢
    rw [huo]
    simp [offsetsFrom_ne_nil]

end LanceModel.C27
