import LanceModel.C27.CountLemmas
/-!
C27 helper lemmas, part 9: stacks without any def level (`max_def = 0`: no validity buffer, no empty list).  The fast
paths `record_offsets` (no def levels) and `unravel_offsets` (no def levels) equal the general paths.
-/
namespace LanceModel.C27

/-- the no-def fast path of `record_offsets` is the general path (on entries that are all live, one length each);
    it succeeds only if every list is non-empty -/
theorem recOffsetsNoDef_eq (R el : Nat) : ∀ (E : List Entry) (lens : List Nat) (es' : List Entry),
    (∀ e ∈ E, e.dl = 0) → E.length = lens.length → recOffsetsNoDef R E lens = some es' →
    es' = recOffsets R el E lens ∧ ∀ l ∈ lens, 0 < l
  | [], [], es', _, _, h => by
    simp only [recOffsetsNoDef, Option.some.injEq] at h; subst h
    exact ⟨rfl, by simp⟩
  | [], _ :: _, _, _, hl, _ => by simp at hl
  | _ :: _, [], _, _, hl, _ => by simp at hl
  | e :: es, len :: lens, es', hz, hl, h => by
    have he0 : e.dl = 0 := hz e (by simp)
    unfold recOffsetsNoDef at h
    by_cases h0 : len = 0
    · rw [if_pos h0] at h; cases h
    · rw [if_neg h0] at h
      cases hr : recOffsetsNoDef R es lens with
      | none => rw [hr] at h; simp at h
      | some r =>
        rw [hr] at h
        simp only [Option.map_some, Option.some.injEq] at h
        obtain ⟨i1, i2⟩ := recOffsetsNoDef_eq R el es lens r (fun x hx => hz x (by simp [hx])) (by simpa using hl) hr
        refine ⟨?_, ?_⟩
        · unfold recOffsets
          have hs : ¬ e.dl > T := by rw [he0]; decide
          rw [if_neg hs]
          simp only
          rw [if_pos ⟨he0, by omega⟩, ← i1, ← h]
        · intro l hlm
          rcases List.mem_cons.mp hlm with rfl | hlm
          · omega
          · exact i2 l hlm

theorem alignedOff_nodef : ∀ (E : List Entry) (lens : List Nat), (∀ e ∈ E, e.dl = 0) → E.length = lens.length →
    (∀ l ∈ lens, 0 < l) → AlignedOff false E lens
  | [], [], _, _, _ => rfl
  | [], _ :: _, _, hl, _ => by simp at hl
  | _ :: _, [], _, hl, _ => by simp at hl
  | e :: es, len :: lens, hz, hl, hp => by
    have he0 : e.dl = 0 := hz e (by simp)
    unfold AlignedOff
    rw [if_neg (by rw [he0]; decide)]
    refine ⟨fun h => absurd he0 h, fun _ h => ?_, alignedOff_nodef es lens (fun x hx => hz x (by simp [hx]))
      (by simpa using hl) (fun l hlm => hp l (by simp [hlm]))⟩
    have := hp len (by simp); omega

/-- the no-def loop of `unravel_offsets` is the general loop run on all-zero def levels -/
theorem offLoopNoDef_eq (nl el ml up : Nat) : ∀ (rs : List Nat) (cur : Nat),
    offLoopNoDef rs cur =
      ((offLoop nl el ml up (rs.zip (List.replicate rs.length 0)) cur).offs,
       (offLoop nl el ml up (rs.zip (List.replicate rs.length 0)) cur).kept.map (·.1),
       (offLoop nl el ml up (rs.zip (List.replicate rs.length 0)) cur).cur)
  | [], cur => rfl
  | r :: rs, cur => by
    simp only [offLoopNoDef, List.length_cons, List.replicate_succ, List.zip_cons_cons, offLoop]
    rw [offLoopNoDef_eq nl el ml up rs (cur + 1)]
    by_cases hr : r = 0
    · simp [hr]
    · simp [hr, OffAcc.push]

theorem rel2_vd_zeros : ∀ (E : List Entry), (∀ e ∈ E, e.dl = 0) → Rel2 (VD 0) E (List.replicate E.length 0)
  | [], _ => trivial
  | e :: es, h => by
    rw [List.length_cons, List.replicate_succ]
    refine ⟨?_, rel2_vd_zeros es (fun x hx => h x (by simp [hx]))⟩
    unfold VD; rw [if_pos (h e (by simp))]; omega

/-- every entry written by `record_offsets` from live entries and non-empty lists is live -/
theorem recOffsets_dl0 (R el : Nat) : ∀ (E : List Entry) (lens : List Nat), (∀ e ∈ E, e.dl = 0) →
    (∀ l ∈ lens, 0 < l) → ∀ e' ∈ recOffsets R el E lens, e'.dl = 0 ∧ (e'.rep = 0 ∨ e'.rep = R ∨ ∃ e ∈ E, e'.rep = e.rep ∧ e.rep ≠ 0)
  | [], _, _, _, e', h => by simp [recOffsets] at h
  | e :: es, lens, hz, hp, e', h => by
    have he0 : e.dl = 0 := hz e (by simp)
    unfold recOffsets at h
    rw [if_neg (by rw [he0]; decide)] at h
    cases lens with
    | nil => simp at h
    | cons len lens =>
      have hlen : 0 < len := hp len (by simp)
      simp only at h
      rw [if_pos ⟨he0, hlen⟩] at h
      rcases List.mem_cons.mp h with rfl | h
      · refine ⟨rfl, ?_⟩
        by_cases hr : e.rep = 0
        · simp [hr]
        · simp only [hr, if_false]; exact Or.inr (Or.inr ⟨e, by simp, rfl, hr⟩)
      · rcases List.mem_append.mp h with h | h
        · have := List.eq_of_mem_replicate h
          subst this; exact ⟨rfl, Or.inl rfl⟩
        · obtain ⟨i1, i2⟩ := recOffsets_dl0 R el es lens (fun x hx => hz x (by simp [hx]))
            (fun l hl => hp l (by simp [hl])) e' h
          refine ⟨i1, ?_⟩
          rcases i2 with i2 | i2 | ⟨x, hx, i3, i4⟩
          · exact Or.inl i2
          · exact Or.inr (Or.inl i2)
          · exact Or.inr (Or.inr ⟨x, by simp [hx], i3, i4⟩)

/-- a layer of a stack without def levels: no validity buffer, no empty list -/
def noDefLayer : Layer → Bool
  | .validity none _ => true
  | .offsets _ none false _ => true
  | _ => false

theorem recordLayer_nodef_validity (c c1 : Ctx) (n : Nat) (h : c.recordLayer (.validity none n) = some c1) :
    c1.es = c.es ∧ c1.curRep = c.curRep ∧ c1.hasDef = c.hasDef ∧ c1.hasRep = c.hasRep ∧
      c1.meaningRev = .allValidItem :: c.meaningRev ∧ c1.curLen = c.curLen := by
  simp only [Ctx.recordLayer, Ctx.recordValidityBuf, Ctx.checkoutDef, Option.some.injEq] at h
  subst h; exact ⟨rfl, rfl, rfl, rfl, rfl, rfl⟩

theorem recordLayer_nodef_offsets (c c1 : Ctx) (lens : List Nat) (ns : Nat) (hd : c.hasDef = false)
    (h : c.recordLayer (.offsets lens none false ns) = some c1) :
    recOffsetsNoDef c.curRep c.es lens = some c1.es ∧ c1.curRep = c.curRep - 1 ∧ c1.hasDef = false ∧
      c1.hasRep = c.hasRep ∧ c1.meaningRev = .allValidList :: c.meaningRev ∧ c1.curLen = c1.es.length := by
  simp only [Ctx.recordLayer, Ctx.recordOffsets, Ctx.checkoutDef, Option.bind_some] at h
  by_cases h0 : lens.length + c.numSpecials = 0
  · simp only [h0, ↓reduceIte] at h; cases h
  · by_cases h1 : c.bufLen < lens.length + c.numSpecials - 1
    · simp only [h0, h1, ↓reduceIte] at h; cases h
    · simp only [h0, h1, hd, ↓reduceIte, Bool.false_eq_true] at h
      cases hr : recOffsetsNoDef c.curRep c.es lens with
      | none => rw [hr] at h; simp at h
      | some es =>
        rw [hr] at h
        simp only [Option.map_some, Option.some.injEq] at h
        subst h; exact ⟨rfl, rfl, rfl, rfl, rfl, rfl⟩

theorem maskOf_dl0 : ∀ (E : List Entry), (∀ e ∈ E, e.dl = 0) → maskOf E = List.replicate E.length true
  | [], _ => rfl
  | e :: es, h => by
    have he0 := h e (by simp)
    simp only [maskOf, List.length_cons, List.replicate_succ]
    rw [if_neg (by rw [he0]; decide), maskOf_dl0 es (fun x hx => h x (by simp [hx])), he0]; rfl

theorem rel2_vr_of_zip (R : Nat) (E : List Entry) (rs : List Nat) (h : Rel2 (VR R) E rs) (hz : ∀ e ∈ E, e.dl = 0) :
    Rel2 (VP R 0) E (rs.zip (List.replicate rs.length 0)) := by
  have hl := Rel2.length_eq h
  rw [← hl]
  exact rel2_zip R 0 E rs _ h (rel2_vd_zeros E hz)

/-- **Stacks without def levels, induction** (the counterpart of `stack_main` on the fast paths) -/
theorem nodef_main :
    ∀ (rem : List Layer) (c c' : Ctx) (ks : List Kind) (u : Unr),
      rem.all noDefLayer = true → c.hasDef = false → c.curRep = numLists rem →
      c.recordLayers rem = some c' →
      (∀ e ∈ c.es, e.dl = 0 ∧ (e.rep = 0 ∨ numLists rem < e.rep)) → c.es ≠ [] →
      alignedB (maskOf c.es) rem = true →
      u.meaning = c'.meaningRev → u.layer = 0 → u.repCmp = 0 → u.dl = none →
      (∃ rs0, u.rep = some rs0 ∧ Rel2 (VR 0) c'.es rs0) →
      (c'.es ≠ [] ∧ (c'.curLen = c'.es.length ∨ (c'.curLen = c.curLen ∧ c'.es = c.es ∧ numLists rem = 0)) ∧
        c'.hasDef = false ∧ c'.hasRep = c.hasRep ∧
        c'.meaningRev = (rem.map Layer.meaning).reverse ++ c.meaningRev) ∧
      ∃ u1 rs, unravelAll [u] (kindsOf rem ++ ks) =
          (unravelAll [u1] ks).map ((nfLayers (maskOf c.es) rem).reverse ++ ·) ∧
        u1.meaning = u.meaning ∧ u1.layer = rem.length ∧ u1.repCmp = numLists rem ∧ u1.dl = none ∧
        u1.rep = some rs ∧ Rel2 (VR (numLists rem)) c.es rs
  | [], c, c', ks, u, _, hd, _, hrec, _, hne, _, _, hl, hrc, hdl, hds => by
    simp only [Ctx.recordLayers, Option.some.injEq] at hrec; subst hrec
    obtain ⟨rs0, h1, h2⟩ := hds
    refine ⟨⟨hne, Or.inr ⟨rfl, rfl, rfl⟩, hd, rfl, by simp⟩, u, rs0, ?_, rfl, by simpa using hl,
      by simpa [numLists] using hrc, hdl, h1, by simpa [numLists] using h2⟩
    simp only [kindsOf, List.map_nil, List.reverse_nil, List.nil_append, nfLayers]
    cases unravelAll [u] ks <;> simp
  | l :: rem', c, c', ks, u, hall, hd, hcr, hrec, hinv, hne, hal, hum, hl, hrc, hdl, hds => by
    obtain ⟨c1, h1, h2⟩ := recordLayers_cons_some c c' l rem' hrec
    simp only [List.all_cons, Bool.and_eq_true] at hall
    obtain ⟨hl0, hall'⟩ := hall
    cases l with
    | fsl _ _ _ => simp [noDefLayer] at hl0
    | validity v n =>
      cases v with
      | some b => simp [noDefLayer] at hl0
      | none =>
        obtain ⟨hes, hcr1, hd1, hr1, hm1, hcl1⟩ := recordLayer_nodef_validity c c1 n h1
        have hnl : numLists (Layer.validity none n :: rem') = numLists rem' := by
          rw [numLists_cons]; simp [Layer.maxRep]
        rw [hnl] at hcr hinv ⊢
        have hkinds : kindsOf (Layer.validity none n :: rem') ++ ks = kindsOf rem' ++ (Kind.v :: ks) := by
          simp [kindsOf]
        have hal' : alignedB (maskOf c1.es) rem' = true := by
          rw [hes]; simp only [alignedB, Bool.and_eq_true] at hal; exact hal.2
        obtain ⟨⟨f1, f2, f3, f4, f5⟩, u1, rs, hrun, hm, hlay, hrcmp, hdl1, hrp, hvr⟩ :=
          nodef_main rem' c1 c' (Kind.v :: ks) u hall' (by rw [hd1, hd]) (by rw [hcr1, hcr])
            h2 (by rw [hes]; exact hinv) (by rw [hes]; exact hne) hal' hum hl hrc hdl hds
        have hidx : c'.meaningRev[rem'.length]? = some Meaning.allValidItem := by
          rw [f5, hm1]
          have : rem'.length = (List.map Layer.meaning rem').reverse.length := by simp
          rw [this, List.getElem?_append_right (Nat.le_refl _)]
          simp
        have hav : u1.isAllValid = some true := by
          unfold Unr.isAllValid; rw [hm, hum, hlay, hidx]; rfl
        refine ⟨⟨f1, ?_, f3, by rw [f4, hr1], by rw [f5, hm1]; simp [Layer.meaning]⟩,
          u1.skipValidity, rs, ?_, hm, by simp [Unr.skipValidity, hlay], hrcmp, hdl1, hrp, by rw [← hes]; exact hvr⟩
        · rcases f2 with f2 | ⟨g1, g2, g3⟩
          · exact Or.inl f2
          · exact Or.inr ⟨by rw [g1, hcl1], by rw [g2, hes], g3⟩
        · rw [hkinds, hrun, unravelAll_v_cons]
          simp only [stepV, hav]
          rw [hes]
          simp only [nfLayers, List.reverse_cons]
          exact map_cons_fun _ _ _
    | offsets lens v he ns =>
      cases v with
      | some b => simp [noDefLayer] at hl0
      | none =>
        cases he with
        | true => simp [noDefLayer] at hl0
        | false =>
          obtain ⟨hes, hcr1, hd1, hr1, hm1, hcl1⟩ := recordLayer_nodef_offsets c c1 lens ns hd h1
          have hnl : numLists (Layer.offsets lens none false ns :: rem') = numLists rem' + 1 := by
            rw [numLists_cons]; simp [Layer.maxRep]; omega
          rw [hnl] at hcr hinv ⊢
          rw [hcr] at hes
          have hkinds : kindsOf (Layer.offsets lens none false ns :: rem') ++ ks = kindsOf rem' ++ (Kind.l :: ks) := by
            simp [kindsOf]
          have hz : ∀ e ∈ c.es, e.dl = 0 := fun e h => (hinv e h).1
          have hmask : maskOf c.es = List.replicate c.es.length true := maskOf_dl0 c.es hz
          simp only [alignedB, Bool.and_eq_true, beq_iff_eq] at hal
          obtain ⟨⟨⟨hml, _⟩, _⟩, halr⟩ := hal
          have hlen : c.es.length = lens.length := by rw [hmask] at hml; simpa using hml
          obtain ⟨hgen, hpos⟩ := recOffsetsNoDef_eq (numLists rem' + 1) 0 c.es lens c1.es hz hlen hes
          have halO : AlignedOff false c.es lens := alignedOff_nodef c.es lens hz hlen hpos
          have hmask1 : maskOf c1.es = List.replicate lens.sum true := by
            rw [hgen]; exact maskOf_recOffsets _ _ false (by simp) c.es lens halO
          have hinv1 : ∀ e ∈ c1.es, e.dl = 0 ∧ (e.rep = 0 ∨ numLists rem' < e.rep) := by
            intro e he'
            rw [hgen] at he'
            obtain ⟨i1, i2⟩ := recOffsets_dl0 _ _ c.es lens hz hpos e he'
            refine ⟨i1, ?_⟩
            rcases i2 with i2 | i2 | ⟨x, hx, i3, i4⟩
            · exact Or.inl i2
            · exact Or.inr (by omega)
            · have := (hinv x hx).2
              exact Or.inr (by omega)
          have hne1 : c1.es ≠ [] := by rw [hgen]; exact recOffsets_ne_nil _ _ false c.es lens hne halO
          obtain ⟨⟨f1, f2, f3, f4, f5⟩, u1, rs, hrun, hm, hlay, hrcmp, hdl1, hrp, hvr⟩ :=
            nodef_main rem' c1 c' (Kind.l :: ks) u hall' hd1 (by rw [hcr1, hcr]; simp)
              h2 hinv1 hne1 (by rw [hmask1]; exact halr) hum hl hrc hdl hds
          have hidx : c'.meaningRev[rem'.length]? = some Meaning.allValidList := by
            rw [f5, hm1]
            have : rem'.length = (List.map Layer.meaning rem').reverse.length := by simp
            rw [this, List.getElem?_append_right (Nat.le_refl _)]
            simp
          -- the unraveler's no-def loop, through the general loop on all-zero def levels
          have hz1 : ∀ e ∈ recOffsets (numLists rem' + 1) 0 c.es lens, e.dl = 0 := by
            intro e h; exact (recOffsets_dl0 _ _ c.es lens hz hpos e h).1
          rw [hgen] at hvr
          have hview := rel2_vr_of_zip (numLists rem') _ rs hvr hz1
          have hinvL : ∀ e ∈ c.es, EInvL (0 + 0) (numLists rem' + 1) 0 0 false e := by
            intro e h
            obtain ⟨i1, i2⟩ := hinv e h
            exact Or.inr ⟨by rw [i1]; decide, i2, Or.inl i1⟩
          obtain ⟨o1, _, o3⟩ := offsets_view 0 (numLists rem') 0 0 0 0 false false (by decide)
            (by simp) (by simp) (by simp) (by simp) c.es lens _ 0 hinvL halO hview
          obtain ⟨k1, _⟩ := rel2_unzip _ _ _ _ o3
          have hloop := offLoopNoDef_eq 0 0 (0 + 0 + 0) (0 + 0) rs 0
          have hmean : u1.meaning[u1.layer]? = some Meaning.allValidList := by rw [hm, hum, hlay, hidx]
          have hav : u1.isAllValid = some true := by unfold Unr.isAllValid; rw [hmean]; rfl
          have huo : u1.unravelOffsets [] none =
              some ({ u1 with defCmp := u1.defCmp + 0, layer := u1.layer + 1, repCmp := u1.repCmp + 1,
                              rep := some ((offLoop 0 0 (0 + 0 + 0) (0 + 0) (rs.zip (List.replicate rs.length 0)) 0).kept.map (·.1)) },
                offsetsFrom 0 lens, none) := by
            unfold Unr.unravelOffsets
            simp only [hmean, hrp, hdl1, unravelLevels, List.getLast?_nil, Option.getD_none, List.dropLast_nil,
              List.nil_append, hloop, Option.map_none, o1]
          refine ⟨⟨f1, Or.inl ?_, f3, by rw [f4, hr1], by rw [f5, hm1]; simp [Layer.meaning, listMeaning]⟩,
            { u1 with defCmp := u1.defCmp + 0, layer := u1.layer + 1, repCmp := u1.repCmp + 1,
                      rep := some ((offLoop 0 0 (0 + 0 + 0) (0 + 0) (rs.zip (List.replicate rs.length 0)) 0).kept.map (·.1)) },
            (offLoop 0 0 (0 + 0 + 0) (0 + 0) (rs.zip (List.replicate rs.length 0)) 0).kept.map (·.1),
            ?_, hm, by simp [hlay], by simp [hrcmp], hdl1, rfl, k1⟩
          · rcases f2 with f2 | ⟨g1, g2, _⟩
            · exact f2
            · rw [g1, g2, hcl1]
          · rw [hkinds, hrun, unravelAll_l_cons]
            unfold stepL
            simp only [hav, if_true, huo]
            simp only [offsetsFrom_ne_nil, List.isEmpty_iff, if_false]
            rw [hmask1]
            simp only [nfLayers, List.reverse_cons, Option.map_none]
            exact map_cons_fun _ _ _

theorem allNoDef_of : ∀ (ls : List Layer), noFsl ls = true → numDefs ls = 0 → ls.all noDefLayer = true
  | [], _, _ => rfl
  | l :: ls, hf, hn => by
    rw [numDefs_cons] at hn
    have hf' : noFsl ls = true := by cases l <;> simp [noFsl] at hf ⊢ <;> exact hf
    have ih := allNoDef_of ls hf' (by omega)
    simp only [List.all_cons, ih, Bool.and_true]
    cases l with
    | fsl _ _ _ => simp [noFsl] at hf
    | validity v n =>
      cases v with
      | none => rfl
      | some b => simp [Layer.meaning, Meaning.numDefLevels] at hn
    | offsets lens v he ns =>
      cases v <;> cases he <;> simp [Layer.meaning, listMeaning, Meaning.numDefLevels] at hn ⊢ <;> rfl

/-- **Stacks without def levels** (no validity buffer and no empty list anywhere, at least one list): the fast
    paths of `record_offsets` / `unravel_offsets` round-trip to the logical normal form -/
theorem nodef_stack_roundtrip (ls : List Layer) (k : Nat) (hnf : noFsl ls = true) (hal : aligned ls = true)
    (hrows : 0 < stackRows ls) (hdef : numDefs ls = 0) (hlists : 0 < numLists ls)
    (s : Ser) (hs : serializeLayers ls = some s) :
    unravelAll [Unr.new s.rep s.dl s.meaning k] (kindsOf ls) = some (nf ls).reverse := by
  unfold serializeLayers at hs
  cases hrec : (Ctx.init ls).recordLayers ls with
  | none => rw [hrec] at hs; simp at hs
  | some c' =>
    rw [hrec] at hs
    simp only [Option.map_some, Option.some.injEq] at hs
    have hd0 : (Ctx.init ls).hasDef = false := by simp [Ctx.init, sum_maxDef_eq, hdef]
    have hr0 : (Ctx.init ls).hasRep = true := by
      have : 0 < (ls.map Layer.maxRep).sum := hlists
      simp [Ctx.init, this]
    have hes0 : (Ctx.init ls).es = List.replicate (stackRows ls) ⟨0, 0⟩ := rfl
    have hmask0 : maskOf (Ctx.init ls).es = List.replicate (stackRows ls) true := by rw [hes0, maskOf_replicate]
    have hinv0 : ∀ e ∈ (Ctx.init ls).es, e.dl = 0 ∧ (e.rep = 0 ∨ numLists ls < e.rep) := by
      intro e he
      rw [hes0] at he
      have := List.eq_of_mem_replicate he
      subst this; exact ⟨rfl, Or.inl rfl⟩
    have hne0 : (Ctx.init ls).es ≠ [] := by
      rw [hes0]; intro h; have := congrArg List.length h; simp at this; omega
    -- the unraveler state depends on `c'` only through `s`; first get the context facts
    have hmain := fun u h1 h2 h3 h4 h5 =>
      nodef_main ls (Ctx.init ls) c' [] u (allNoDef_of ls hnf hdef) hd0 rfl hrec hinv0 hne0
        (by rw [hmask0]; exact hal) h1 h2 h3 h4 h5
    have hsb : s = Ser.new (some (c'.es.map (·.rep))) none c'.meaningRev := by
      -- context facts do not depend on the unraveler: instantiate with the unraveler of the normal branch
      obtain ⟨⟨f1, f2, f3, f4, _⟩, _⟩ :=
        hmain (Unr.new (some (c'.es.map (·.rep))) none c'.meaningRev k) rfl rfl rfl rfl
          ⟨c'.es.map (·.rep), rfl, rel2_rep c'.es⟩
      have hcurlen : c'.curLen ≠ 0 := by
        rcases f2 with h | ⟨_, _, h⟩
        · rw [h]; intro h0; exact f1 (List.length_eq_zero_iff.mp h0)
        · omega
      rw [← hs]; unfold Ctx.build
      rw [if_neg hcurlen, f4, hr0, f3]; rfl
    obtain ⟨_, u1, rs, hrun, _⟩ :=
      hmain (Unr.new s.rep s.dl s.meaning k) (by rw [hsb]; rfl) rfl rfl (by rw [hsb]; rfl)
        ⟨c'.es.map (·.rep), by rw [hsb]; rfl, rel2_rep c'.es⟩
    rw [List.append_nil] at hrun
    rw [hrun, hmask0]
    simp [unravelAll, nf]

end LanceModel.C27
