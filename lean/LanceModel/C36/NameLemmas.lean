import LanceModel.C36.Model
/-
C36 — facts about object ids: joining with `$` is injective on delimiter-free names, `split` inverts it,
the `starts_with` / `substring` filters of the manifest recognise exactly descendants / direct children.
-/
namespace LanceModel.C36

/-- a name the manifest can store faithfully: no delimiter, no quote, ASCII only -/
def CleanName (n : Name) : Prop := dollar ∉ n ∧ quote ∉ n ∧ ∀ c ∈ n, c < 128

instance (n : Name) : Decidable (CleanName n) := by unfold CleanName; exact inferInstance

/-- a full id (namespace path + name): non-empty, every component clean -/
def CleanKey (k : List Name) : Prop := k ≠ [] ∧ ∀ n ∈ k, CleanName n

instance (k : List Name) : Decidable (CleanKey k) := by unfold CleanKey; exact inferInstance

theorem append_dollar_inj {a b x y : Name} (ha : dollar ∉ a) (hb : dollar ∉ b)
    (h : a ++ dollar :: x = b ++ dollar :: y) : a = b ∧ x = y := by
  induction a generalizing b with
  | nil =>
    cases b with
    | nil => simpa using h
    | cons c b =>
      simp only [List.nil_append, List.cons_append, List.cons.injEq] at h
      exact absurd (h.1 ▸ List.mem_cons_self) hb
  | cons c a ih =>
    cases b with
    | nil =>
      simp only [List.nil_append, List.cons_append, List.cons.injEq] at h
      exact absurd (h.1 ▸ List.mem_cons_self) ha
    | cons d b =>
      simp only [List.cons_append, List.cons.injEq] at h
      have ha' : dollar ∉ a := fun hm => ha (List.mem_cons_of_mem _ hm)
      have hb' : dollar ∉ b := fun hm => hb (List.mem_cons_of_mem _ hm)
      obtain ⟨h1, h2⟩ := ih ha' hb' h.2
      exact ⟨by rw [h.1, h1], h2⟩

theorem joinD_cons {a : Name} {k : List Name} (hk : k ≠ []) : joinD (a :: k) = a ++ dollar :: joinD k := by
  cases k with
  | nil => exact absurd rfl hk
  | cons b t => rfl

theorem joinD_append {k t : List Name} (hk : k ≠ []) (ht : t ≠ []) :
    joinD (k ++ t) = joinD k ++ dollar :: joinD t := by
  induction k with
  | nil => exact absurd rfl hk
  | cons a k ih =>
    cases k with
    | nil =>
      simp only [List.cons_append, List.nil_append]
      rw [joinD_cons ht]; rfl
    | cons b k =>
      have h0 : (a :: b :: k) ++ t = a :: ((b :: k) ++ t) := rfl
      have h1 : joinD (a :: ((b :: k) ++ t)) = a ++ dollar :: joinD ((b :: k) ++ t) := joinD_cons (by simp)
      have h2 : joinD (a :: b :: k) = a ++ dollar :: joinD (b :: k) := rfl
      rw [h0, h1, ih (by simp), h2]
      simp

theorem tableOid_eq {id : List Name} (h : id ≠ []) : tableOid id = joinD id := by
  unfold tableOid buildObjectId
  obtain ⟨l, n, rfl⟩ : ∃ l n, id = l ++ [n] := ⟨id.dropLast, id.getLast h, (List.dropLast_concat_getLast h).symm⟩
  simp only [List.dropLast_concat, List.getLast?_append, List.getLast?_singleton, Option.some_or, Option.getD_some]
  split
  · next hl => subst hl; rfl
  · next hl => rw [joinD_append hl (by simp)]; rfl

theorem dollar_mem_joinD {k : List Name} (hc : ∀ n ∈ k, dollar ∉ n) (hk : k ≠ []) :
    dollar ∈ joinD k ↔ 2 ≤ k.length := by
  cases k with
  | nil => exact absurd rfl hk
  | cons a t =>
    cases t with
    | nil => simp [joinD, hc a (by simp)]
    | cons b t => simp [joinD]

/-- `object_id_injective` core: the join is injective on non-empty lists of delimiter-free names -/
theorem joinD_inj {k k' : List Name} (hk : k ≠ []) (hk' : k' ≠ []) (hc : ∀ n ∈ k, dollar ∉ n)
    (hc' : ∀ n ∈ k', dollar ∉ n) (h : joinD k = joinD k') : k = k' := by
  induction k generalizing k' with
  | nil => exact absurd rfl hk
  | cons a t ih =>
    cases k' with
    | nil => exact absurd rfl hk'
    | cons b t' =>
      have ha := hc a (by simp)
      have hb := hc' b (by simp)
      cases t with
      | nil =>
        cases t' with
        | nil => simpa [joinD] using h
        | cons c t' =>
          simp only [joinD] at h
          exact absurd (h ▸ (by simp : dollar ∈ b ++ dollar :: joinD (c :: t'))) ha
      | cons a2 t =>
        cases t' with
        | nil =>
          simp only [joinD] at h
          exact absurd (h ▸ (by simp : dollar ∈ a ++ dollar :: joinD (a2 :: t))) hb
        | cons c t' =>
          simp only [joinD] at h
          obtain ⟨h1, h2⟩ := append_dollar_inj ha hb h
          have := ih (k' := c :: t') (by simp) (by simp) (fun n hn => hc n (by simp [hn]))
            (fun n hn => hc' n (List.mem_cons_of_mem _ hn)) h2
          rw [h1, this]

/-- `starts_with(object_id, '{id}$')` recognises exactly the strict descendants -/
theorem prefix_joinD {k k' : List Name} (hk : k ≠ []) (hk' : k' ≠ []) (hc : ∀ n ∈ k, dollar ∉ n)
    (hc' : ∀ n ∈ k', dollar ∉ n) :
    (∃ r, joinD k' = joinD k ++ dollar :: r) ↔ ∃ t, t ≠ [] ∧ k' = k ++ t := by
  constructor
  · intro ⟨r, h⟩
    induction k generalizing k' r with
    | nil => exact absurd rfl hk
    | cons a t ih =>
      cases k' with
      | nil => exact absurd rfl hk'
      | cons b t' =>
        have ha := hc a (by simp)
        have hb := hc' b (by simp)
        cases t' with
        | nil =>
          cases t with
          | nil =>
            simp only [joinD] at h
            exact absurd (h ▸ (by simp : dollar ∈ a ++ dollar :: r)) hb
          | cons a2 t =>
            simp only [joinD, List.append_assoc, List.cons_append] at h
            exact absurd (h ▸ (by simp : dollar ∈ a ++ dollar :: (joinD (a2 :: t) ++ dollar :: r))) hb
        | cons c t' =>
          cases t with
          | nil =>
            simp only [joinD] at h
            obtain ⟨h1, _⟩ := append_dollar_inj hb ha h
            exact ⟨c :: t', by simp, by rw [h1]; rfl⟩
          | cons a2 t =>
            simp only [joinD, List.append_assoc, List.cons_append] at h
            obtain ⟨h1, h2⟩ := append_dollar_inj hb ha h
            obtain ⟨u, hu, hu'⟩ := ih (k' := c :: t') (r := r) (by simp) (by simp)
              (fun n hn => hc n (List.mem_cons_of_mem _ hn)) (fun n hn => hc' n (List.mem_cons_of_mem _ hn)) h2
            exact ⟨u, hu, by rw [h1, hu']; rfl⟩
  · intro ⟨t, ht, h⟩
    exact ⟨joinD t, by rw [h, joinD_append hk ht]⟩

theorem splitD_clean {a : Name} (ha : dollar ∉ a) : splitD a = [a] := by
  induction a with
  | nil => rfl
  | cons c t ih =>
    have hc : c ≠ dollar := fun h => ha (h ▸ List.mem_cons_self)
    have ht : dollar ∉ t := fun h => ha (List.mem_cons_of_mem _ h)
    simp [splitD, hc, ih ht]

theorem splitD_append {a x : Name} (ha : dollar ∉ a) : splitD (a ++ dollar :: x) = a :: splitD x := by
  induction a with
  | nil => simp [splitD]
  | cons c t ih =>
    have hc : c ≠ dollar := fun h => ha (h ▸ List.mem_cons_self)
    have ht : dollar ∉ t := fun h => ha (List.mem_cons_of_mem _ h)
    simp [splitD, hc, ih ht]

/-- `parse_object_id` inverts `build_object_id` on delimiter-free names -/
theorem splitD_joinD {k : List Name} (hk : k ≠ []) (hc : ∀ n ∈ k, dollar ∉ n) : splitD (joinD k) = k := by
  induction k with
  | nil => exact absurd rfl hk
  | cons a t ih =>
    cases t with
    | nil => simpa [joinD] using splitD_clean (hc a (by simp))
    | cons b t =>
      simp only [joinD]
      rw [splitD_append (hc a (by simp)), ih (by simp) (fun n hn => hc n (List.mem_cons_of_mem _ hn))]

theorem lastPart_append {x n : Name} (hn : dollar ∉ n) : lastPart (x ++ dollar :: n) = n := by
  unfold lastPart
  have : (x ++ dollar :: n).reverse = n.reverse ++ dollar :: x.reverse := by simp
  rw [this, List.takeWhile_append_of_pos]
  · simp
  · intro c hc
    have : c ∈ n := by simpa using hc
    simp only [ne_eq, decide_not, Bool.not_eq_eq_eq_not, Bool.not_true, decide_eq_false_iff_not]
    intro h; exact hn (h ▸ this)

theorem lastPart_clean {n : Name} (hn : dollar ∉ n) : lastPart n = n := by
  unfold lastPart
  have h0 : n.reverse = n.reverse ++ [] := by simp
  rw [h0, List.takeWhile_append_of_pos]
  · simp
  · intro c hc
    have : c ∈ n := by simpa using hc
    simp only [ne_eq, decide_not, Bool.not_eq_eq_eq_not, Bool.not_true, decide_eq_false_iff_not]
    intro h; exact hn (h ▸ this)

theorem byteLen_ascii {s : Name} (h : ∀ c ∈ s, c < 128) : byteLen s = s.length := by
  unfold byteLen
  induction s with
  | nil => rfl
  | cons c t ih =>
    have hc := h c (by simp)
    simp only [List.map_cons, List.sum_cons, List.length_cons]
    rw [ih (fun c hc => h c (List.mem_cons_of_mem _ hc))]
    simp [utf8Len, hc]; omega

/-- components of a clean key keep the joined id quote-free and ASCII -/
theorem joinD_props {k : List Name} (P : Nat → Prop) (hd : P dollar) (hc : ∀ n ∈ k, ∀ c ∈ n, P c) :
    ∀ c ∈ joinD k, P c := by
  induction k with
  | nil => intro c hc'; simp [joinD] at hc'
  | cons a t ih =>
    cases t with
    | nil => intro c hm; exact hc a (by simp) c (by simpa [joinD] using hm)
    | cons b t =>
      intro c hm
      simp only [joinD, List.mem_append, List.mem_cons] at hm
      rcases hm with hm | hm | hm
      · exact hc a (by simp) c hm
      · exact hm ▸ hd
      · exact ih (fun n hn => hc n (List.mem_cons_of_mem _ hn)) c hm

theorem CleanKey.dollarFree {k : List Name} (h : CleanKey k) : ∀ n ∈ k, dollar ∉ n := fun n hn => (h.2 n hn).1

theorem CleanKey.quoteFree {k : List Name} (h : CleanKey k) : quote ∉ joinD k := by
  intro hm
  have := joinD_props (k := k) (fun c => c ≠ quote) (by decide)
    (fun n hn c hc he => (h.2 n hn).2.1 (he ▸ hc)) quote hm
  exact this rfl

theorem CleanKey.ascii {k : List Name} (h : CleanKey k) : ∀ c ∈ joinD k, c < 128 :=
  joinD_props (k := k) (fun c => c < 128) (by decide) (fun n hn c hc => (h.2 n hn).2.2 c hc)

end LanceModel.C36
