import LanceModel.C36.Driver
def main : IO Unit := LanceModel.Util.runDriver LanceModel.C36.Driver.step none
