import LanceModel.C36.NameLemmas
import LanceModel.C36.Spec
/-
C36 — the refinement relation between the `__manifest` rows and the map, and how the manifest's string
filters read through it.
-/
namespace LanceModel.C36

/-- row i stores entry i: object id = joined key, same kind -/
inductive Rel : List Row → Spec → Prop
  | nil : Rel [] []
  | cons {r : Row} {e : Key × Ty} {rows : List Row} {sp : Spec} :
      r.oid = joinD e.1 → r.ty = e.2 → Rel rows sp → Rel (r :: rows) (e :: sp)

theorem Rel.append {a c : List Row} {b d : Spec} (h1 : Rel a b) (h2 : Rel c d) : Rel (a ++ c) (b ++ d) := by
  induction h1 with
  | nil => exact h2
  | cons ho ht _ ih => exact Rel.cons ho ht ih

theorem Rel.filter {rows : List Row} {sp : Spec} (p : Row → Bool) (q : Key × Ty → Bool) (h : Rel rows sp)
    (hpq : ∀ r e, e ∈ sp → r.oid = joinD e.1 → r.ty = e.2 → p r = q e) :
    Rel (rows.filter p) (sp.filter q) := by
  induction h with
  | nil => exact Rel.nil
  | @cons r e rows sp ho ht _ ih =>
    have ih' := ih (fun r e he => hpq r e (List.mem_cons_of_mem _ he))
    have := hpq r e (by simp) ho ht
    simp only [List.filter_cons, this]
    split
    · exact Rel.cons ho ht ih'
    · exact ih'

theorem Rel.any {rows : List Row} {sp : Spec} (p : Row → Bool) (q : Key × Ty → Bool) (h : Rel rows sp)
    (hpq : ∀ r e, e ∈ sp → r.oid = joinD e.1 → r.ty = e.2 → p r = q e) :
    rows.any p = sp.any q := by
  induction h with
  | nil => rfl
  | @cons r e rows sp ho ht _ ih =>
    have ih' := ih (fun r e he => hpq r e (List.mem_cons_of_mem _ he))
    simp only [List.any_cons, hpq r e (by simp) ho ht, ih']

theorem Rel.filterMap {β : Type} {rows : List Row} {sp : Spec} (f : Row → Option β) (g : Key × Ty → Option β)
    (h : Rel rows sp) (hfg : ∀ r e, e ∈ sp → r.oid = joinD e.1 → r.ty = e.2 → f r = g e) :
    rows.filterMap f = sp.filterMap g := by
  induction h with
  | nil => rfl
  | @cons r e rows sp ho ht _ ih =>
    have ih' := ih (fun r e he => hfg r e (List.mem_cons_of_mem _ he))
    simp only [List.filterMap_cons, hfg r e (by simp) ho ht, ih']

/-- the refinement invariant -/
structure R (st : St) (sp : Spec) : Prop where
  rel : Rel st.rows sp
  clean : ∀ e ∈ sp, CleanKey e.1
  nodup : (sp.map (·.1)).Nodup

theorem Spec.get_isSome (sp : Spec) (k : Key) : (sp.get k).isSome = sp.any (fun e => e.1 = k) := by
  unfold Spec.get
  rw [Option.isSome_map]
  induction sp with
  | nil => rfl
  | cons e sp ih =>
    simp only [List.find?_cons, List.any_cons]
    by_cases h : e.1 = k <;> simp [h, ih]

theorem Spec.get_eq_some {sp : Spec} (hn : (sp.map (·.1)).Nodup) (k : Key) (t : Ty) :
    sp.get k = some t ↔ (k, t) ∈ sp := by
  unfold Spec.get
  induction sp with
  | nil => simp
  | cons e sp ih =>
    simp only [List.map_cons, List.nodup_cons] at hn
    simp only [List.find?_cons]
    by_cases h : e.1 = k
    · simp only [h, decide_true, Option.map_some, Option.some.injEq, List.mem_cons]
      constructor
      · intro h2; left; rw [← h, ← h2]
      · intro h2
        rcases h2 with h2 | h2
        · rw [← h2]
        · exact absurd (h ▸ List.mem_map_of_mem (f := (·.1)) h2) hn.1
    · simp only [h, decide_false, List.mem_cons]
      rw [ih hn.2]
      constructor
      · intro h2; right; exact h2
      · intro h2
        rcases h2 with h2 | h2
        · exact absurd (by rw [← h2]) h
        · exact h2

theorem Spec.get_none_of_not_mem {sp : Spec} {k : Key} (h : sp.get k = none) : ∀ e ∈ sp, e.1 ≠ k := by
  intro e he hk
  have := Spec.get_isSome sp k
  rw [h] at this
  have h2 : sp.any (fun e => e.1 = k) = true := List.any_eq_true.mpr ⟨e, he, by simp [hk]⟩
  rw [h2] at this
  exact absurd this (by simp)

section
variable {st : St} {sp : Spec} (h : R st sp)
include h

theorem R.oid_eq_iff {k : Key} (hk : CleanKey k) (r : Row) (e : Key × Ty) (he : e ∈ sp) (ho : r.oid = joinD e.1) :
    r.oid = joinD k ↔ e.1 = k := by
  rw [ho]
  constructor
  · exact joinD_inj (h.clean e he).1 hk.1 (h.clean e he).dollarFree hk.dollarFree
  · intro h2; rw [h2]

/-- `manifest_contains_object` on a clean id is the map's `contains` -/
theorem R.contains_eq {k : Key} (hk : CleanKey k) : containsObject st (joinD k) = .ok (sp.get k).isSome := by
  unfold containsObject
  rw [if_neg hk.quoteFree, Spec.get_isSome]
  congr 1
  exact h.rel.any _ _ (fun r e he ho _ => by
    have := h.oid_eq_iff hk r e he ho
    by_cases h1 : e.1 = k <;> simp [h1, this])

/-- the typed lookups find a row exactly when the map holds that kind at the key -/
theorem R.query_eq {k : Key} (hk : CleanKey k) (t : Ty) :
    ∃ o, queryTyped st (joinD k) t = .ok o ∧ (o.isSome = true ↔ sp.get k = some t) := by
  unfold queryTyped
  rw [if_neg hk.quoteFree]
  refine ⟨_, rfl, ?_⟩
  rw [List.find?_isSome, Spec.get_eq_some h.nodup]
  have hany := h.rel.any (fun r => decide (r.oid = joinD k ∧ r.ty = t)) (fun e => decide (e.1 = k ∧ e.2 = t))
    (fun r e he ho ht => by
      have := h.oid_eq_iff hk r e he ho
      rw [ht]
      by_cases h1 : e.1 = k <;> simp [h1, this])
  have h1 : (∃ x, x ∈ st.rows ∧ decide (x.oid = joinD k ∧ x.ty = t) = true) ↔
      st.rows.any (fun r => decide (r.oid = joinD k ∧ r.ty = t)) = true := List.any_eq_true.symm
  rw [h1, hany, List.any_eq_true]
  constructor
  · intro ⟨e, he, hd⟩
    have := of_decide_eq_true hd
    have h2 : e = (k, t) := by rw [← this.1, ← this.2]
    exact h2 ▸ he
  · intro he
    exact ⟨(k, t), he, by simp⟩

/-- deleting by object id = deleting the key -/
theorem R.delete {k : Key} (hk : CleanKey k) : R (deleteRows st (joinD k)) (sp.del k) := by
  refine ⟨?_, ?_, ?_⟩
  · exact h.rel.filter _ _ (fun r e he ho _ => by
      have := h.oid_eq_iff hk r e he ho
      by_cases h1 : e.1 = k <;> simp [h1, this])
  · intro e he; exact h.clean e (List.mem_filter.mp he).1
  · unfold Spec.del
    exact List.Nodup.sublist (List.Sublist.map _ List.filter_sublist) h.nodup

/-- appending a row for a fresh clean key = inserting into the map -/
theorem R.insert {k : Key} (hk : CleanKey k) (hfresh : sp.get k = none) (t : Ty) (d : Dir) (dirs : List Dir) :
    insertRow ⟨st.rows, dirs⟩ ⟨joinD k, t, d⟩ = some ⟨st.rows ++ [⟨joinD k, t, d⟩], dirs⟩ ∧
    R ⟨st.rows ++ [⟨joinD k, t, d⟩], dirs⟩ (sp.put k t) := by
  have hc := h.contains_eq hk
  unfold containsObject at hc
  rw [if_neg hk.quoteFree, hfresh] at hc
  have hany : st.rows.any (fun r => r.oid = joinD k) = false := by
    simpa using hc
  refine ⟨?_, ?_, ?_, ?_⟩
  · unfold insertRow; simp only [hany]; rfl
  · exact h.rel.append (Rel.cons rfl rfl Rel.nil)
  · intro e he
    rcases List.mem_append.mp he with he | he
    · exact h.clean e he
    · simp only [List.mem_singleton] at he; rw [he]; exact hk
  · unfold Spec.put
    rw [List.map_append, List.nodup_append]
    refine ⟨h.nodup, by simp, ?_⟩
    intro a ha b hb
    simp only [List.map_cons, List.map_nil, List.mem_singleton] at hb
    obtain ⟨e, he, rfl⟩ := List.mem_map.mp ha
    rw [hb]
    exact Spec.get_none_of_not_mem hfresh e he

end

end LanceModel.C36
