import LanceModel.C36.Model
/-
C36 — the SPECIFICATION: the catalog as a finite map from the full id (namespace path ++ [name]) to the kind of
entry stored there.  Nothing here knows about object ids, SQL or directories.
-/
namespace LanceModel.C36

abbrev Key := List Name

/-- the map, as an association list in insertion order (keys are kept distinct by the operations) -/
abbrev Spec := List (Key × Ty)

def Spec.get (sp : Spec) (k : Key) : Option Ty := (sp.find? (fun e => e.1 = k)).map (·.2)

/-- every non-empty prefix `pre ++ path[..i]` of the parent path is a namespace -/
def Spec.levels (sp : Spec) (pre : Key) : List Name → Bool
  | [] => true
  | n :: rest => sp.get (pre ++ [n]) = some .ns && Spec.levels sp (pre ++ [n]) rest

/-- `k = parent ++ [n]` -/
def childName (parent k : Key) : Option Name :=
  match k.getLast? with
  | some n => if k.dropLast = parent then some n else none
  | none => none

/-- names of the entries of kind `ty` directly under `parent`, in insertion order -/
def Spec.children (sp : Spec) (parent : Key) (ty : Ty) : List Name :=
  sp.filterMap (fun e => if e.2 = ty then childName parent e.1 else none)

def Spec.put (sp : Spec) (k : Key) (ty : Ty) : Spec := sp ++ [(k, ty)]
def Spec.del (sp : Spec) (k : Key) : Spec := sp.filter (fun e => e.1 ≠ k)

/-- a strict descendant of `k` exists -/
def Spec.hasBelow (sp : Spec) (k : Key) : Bool := sp.any (fun e => k.isPrefixOf e.1 && e.1 ≠ k)

/-- one API call answered by the map (manifest-backed catalog, unpaged listings) -/
def Spec.step (sp : Spec) : Op → Spec × Out
  | .cns id =>
    if id = [] then (sp, .res .root)
    else if !sp.levels [] id.dropLast then (sp, .res .noparent)
    else if (sp.get id).isSome then (sp, .res .exists_)
    else (sp.put id .ns, .res .ok)
  | .dns id =>
    if id = [] then (sp, .res .root)
    else if sp.get id ≠ some .ns then (sp, .res .notfound)
    else if sp.hasBelow id then (sp, .res .notempty)
    else (sp.del id, .res .ok)
  | .ens id => (sp, .bool (id = [] ∨ sp.get id = some .ns))
  | .desns id => (sp, .res (if id = [] ∨ sp.get id = some .ns then .ok else .notfound))
  | .lns id _ _ => (sp, .names ((sp.children id .ns).map (⟨false, ·⟩)))
  | .ct id =>
    if id = [] then (sp, .res .invalid)
    else if (sp.get id).isSome then (sp, .res .exists_)
    else (sp.put id .tbl, .res .ok)
  | .reg id loc =>
    if id = [] then (sp, .res .invalid)
    else if !locOk loc then (sp, .res .invalid)
    else if !sp.levels [] id.dropLast then (sp, .res .noparent)
    else if (sp.get id).isSome then (sp, .res .exists_)
    else (sp.put id .tbl, .res .ok)
  | .dereg id | .dt id =>
    if id = [] then (sp, .res .invalid)
    else if sp.get id ≠ some .tbl then (sp, .res .notfound)
    else (sp.del id, .res .ok)
  | .et id => if id = [] then (sp, .res .invalid) else (sp, .bool (sp.get id = some .tbl))
  | .dest id =>
    if id = [] then (sp, .res .invalid) else (sp, .res (if sp.get id = some .tbl then .ok else .notfound))
  | .lt id _ _ => (sp, .names ((sp.children id .tbl).map (⟨false, ·⟩)))
  | .page _ _ _ => (sp, .res .invalid)

def Spec.run (sp : Spec) : List Op → Spec × List Out
  | [] => (sp, [])
  | op :: rest =>
    let r := sp.step op
    let r' := Spec.run r.1 rest
    (r'.1, r.2 :: r'.2)

/-- the id an operation addresses -/
def Op.id : Op → Key
  | .cns id | .dns id | .ens id | .desns id | .lns id _ _ | .ct id | .reg id _ | .dereg id | .dt id
  | .et id | .dest id | .lt id _ _ | .page _ id _ => id

/-- `drop_table` answers `rmdir` when the catalog entry was removed but the directory at its location was missing
    (a registered location need not exist): outputs are compared up to that -/
def Out.norm : Out → Out
  | .res .rmdir => .res .ok
  | o => o

end LanceModel.C36
