import LanceModel.C36.Model
/-
C36 — `apply_pagination`: the string order is a strict total order, `names.sort()` is a sorted permutation,
and iterating pages (start after the last name of the previous page) walks the sorted list exactly once.
-/
namespace LanceModel.C36

theorem ltName_irrefl (a : Name) : ltName a a = false := by
  induction a with
  | nil => rfl
  | cons c t ih => simp [ltName, ih]

theorem ltName_trans {a b c : Name} (h1 : ltName a b = true) (h2 : ltName b c = true) : ltName a c = true := by
  induction a generalizing b c with
  | nil =>
    cases c with
    | nil => cases b <;> simp [ltName] at h2
    | cons z c => rfl
  | cons x a ih =>
    cases b with
    | nil => simp [ltName] at h1
    | cons y b =>
      cases c with
      | nil => simp [ltName] at h2
      | cons z c =>
        simp only [ltName, Bool.or_eq_true, decide_eq_true_eq, Bool.and_eq_true] at h1 h2 ⊢
        rcases h1 with h1 | ⟨h1, h1'⟩
        · rcases h2 with h2 | ⟨h2, _⟩
          · left; omega
          · left; omega
        · rcases h2 with h2 | ⟨h2, h2'⟩
          · left; omega
          · right; exact ⟨by omega, ih h1' h2'⟩

theorem ltName_asymm {a b : Name} (h : ltName a b = true) : ltName b a = false := by
  cases hb : ltName b a with
  | false => rfl
  | true =>
    have := ltName_trans h hb
    rw [ltName_irrefl] at this
    exact absurd this (by simp)

theorem ltName_total {a b : Name} (h1 : ltName a b = false) (h2 : ltName b a = false) : a = b := by
  induction a generalizing b with
  | nil =>
    cases b with
    | nil => rfl
    | cons y b => simp [ltName] at h1
  | cons x a ih =>
    cases b with
    | nil => simp [ltName] at h2
    | cons y b =>
      simp only [ltName, Bool.or_eq_false_iff, decide_eq_false_iff_not, Bool.and_eq_false_iff,
        decide_eq_false_iff_not] at h1 h2
      have hxy : x = y := by omega
      subst hxy
      have := ih (b := b) (by simpa using h1.2) (by simpa using h2.2)
      rw [this]

/-- `z < x` and `x ≤ y` give `z < y` -/
theorem ltName_of_lt_of_le {z x y : Name} (h1 : ltName z x = true) (h2 : ltName y x = false) : ltName z y = true := by
  cases hzy : ltName z y with
  | true => rfl
  | false =>
    cases hyz : ltName y z with
    | true => rw [ltName_trans hyz h1] at h2; exact absurd h2 (by simp)
    | false =>
      have := ltName_total hzy hyz
      subst this
      rw [h1] at h2; exact absurd h2 (by simp)

/-- sorted (non-strictly): no later element is smaller -/
def SortedLe (l : List Name) : Prop := l.Pairwise (fun a b => ltName b a = false)
/-- strictly sorted -/
def SortedLt (l : List Name) : Prop := l.Pairwise (fun a b => ltName a b = true)

theorem insertName_perm (x : Name) (l : List Name) : (insertName x l).Perm (x :: l) := by
  induction l with
  | nil => exact List.Perm.refl _
  | cons y t ih =>
    unfold insertName
    split
    · exact (List.Perm.cons y ih).trans (List.Perm.swap x y t)
    · exact List.Perm.refl _

theorem sortNames_perm (l : List Name) : (sortNames l).Perm l := by
  induction l with
  | nil => exact List.Perm.refl _
  | cons x t ih => exact (insertName_perm x _).trans (List.Perm.cons x ih)

theorem insertName_sorted (x : Name) {l : List Name} (h : SortedLe l) : SortedLe (insertName x l) := by
  induction l with
  | nil => simp [insertName, SortedLe]
  | cons y t ih =>
    unfold SortedLe at h ⊢
    rw [List.pairwise_cons] at h
    unfold insertName
    split
    · next hyx =>
      rw [List.pairwise_cons]
      refine ⟨?_, ih h.2⟩
      intro z hz
      rcases (List.mem_cons.mp ((insertName_perm x t).mem_iff.mp hz)) with hz | hz
      · rw [hz]; exact ltName_asymm hyx
      · exact h.1 z hz
    · next hyx =>
      have hyx : ltName y x = false := by simpa using hyx
      rw [List.pairwise_cons]
      refine ⟨?_, List.pairwise_cons.mpr h⟩
      intro z hz
      rcases List.mem_cons.mp hz with hz | hz
      · rw [hz]; exact hyx
      · cases hzx : ltName z x with
        | false => rfl
        | true =>
          have := ltName_of_lt_of_le hzx hyx
          rw [h.1 z hz] at this
          exact absurd this (by simp)

theorem sortNames_sorted (l : List Name) : SortedLe (sortNames l) := by
  induction l with
  | nil => simp [sortNames, SortedLe]
  | cons x t ih => exact insertName_sorted x ih

theorem sortedLt_of_nodup {l : List Name} (h : SortedLe l) (hn : l.Nodup) : SortedLt l := by
  induction l with
  | nil => simp [SortedLt]
  | cons x t ih =>
    unfold SortedLe at h
    unfold SortedLt
    rw [List.pairwise_cons] at h ⊢
    rw [List.nodup_cons] at hn
    refine ⟨?_, ih h.2 hn.2⟩
    intro z hz
    cases hxz : ltName x z with
    | true => rfl
    | false =>
      have := ltName_total hxz (h.1 z hz)
      exact absurd (this ▸ hz) hn.1

/-- in a strictly sorted list, "everything after `x`" is what `position(|n| n > x)` + `drain` leaves -/
theorem dropWhile_after {p q : List Name} {x : Name} (h : SortedLt (p ++ x :: q)) :
    (p ++ x :: q).dropWhile (fun n => !ltName x n) = q := by
  induction p with
  | nil =>
    simp only [List.nil_append]
    unfold SortedLt at h
    rw [List.nil_append, List.pairwise_cons] at h
    rw [List.dropWhile_cons]
    simp only [ltName_irrefl, Bool.not_false, if_true]
    cases q with
    | nil => rfl
    | cons y q' =>
      rw [List.dropWhile_cons]
      simp [h.1 y (by simp)]
  | cons z p ih =>
    unfold SortedLt at h
    rw [List.cons_append, List.pairwise_cons] at h
    have hzx : ltName z x = true := h.1 x (by simp)
    rw [List.cons_append, List.dropWhile_cons]
    simp only [ltName_asymm hzx, Bool.not_false, if_true]
    exact ih h.2

/-- what is left of the sorted list after the token -/
def remaining (s : List Name) : Option Name → List Name
  | some t => s.dropWhile (fun n => !ltName t n)
  | none => s

theorem applyPagination_eq (names : List Name) (tok : Option Name) (lim : Nat) :
    applyPagination names tok (some (Int.ofNat lim)) = (remaining (sortNames names) tok).take lim := by
  unfold applyPagination remaining
  cases tok <;> simp

theorem pagesOf_flatten {names : List Name} {lim : Nat} (hl : 1 ≤ lim) (hs : SortedLt (sortNames names)) :
    ∀ (fuel : Nat) (pre r : List Name) (tok : Option Name), sortNames names = pre ++ r →
      remaining (sortNames names) tok = r → r.length < fuel →
      (pagesOf names lim fuel tok).flatten = r ∧ ∀ p ∈ pagesOf names lim fuel tok, p.length ≤ lim := by
  intro fuel
  induction fuel with
  | zero => intro pre r tok _ _ hlt; omega
  | succ fuel ih =>
    intro pre r tok hS hrem hlt
    unfold pagesOf
    simp only [applyPagination_eq, hrem]
    by_cases hshort : ((r.take lim).isEmpty || decide ((r.take lim).length < lim)) = true
    · simp only [hshort, if_true]
      have hrl : r.length < lim := by
        simp only [Bool.or_eq_true, List.isEmpty_iff, List.take_eq_nil_iff, decide_eq_true_eq,
          List.length_take] at hshort
        rcases hshort with (h0 | h0) | h0
        · omega
        · simp [h0]; omega
        · omega
      refine ⟨by simp [List.take_of_length_le (Nat.le_of_lt hrl)], ?_⟩
      intro p hp
      simp only [List.mem_singleton] at hp
      rw [hp, List.length_take]; omega
    · simp only [hshort, Bool.false_eq_true, if_false]
      have hrl : lim ≤ r.length := by
        simp only [Bool.or_eq_true, List.isEmpty_iff, List.take_eq_nil_iff, decide_eq_true_eq,
          List.length_take, not_or] at hshort
        omega
      have hne : r.take lim ≠ [] := by
        intro h0
        have := congrArg List.length h0
        simp only [List.length_take, List.length_nil] at this
        omega
      obtain ⟨p', x, hpx⟩ : ∃ p' x, r.take lim = p' ++ [x] :=
        ⟨_, _, (List.dropLast_concat_getLast hne).symm⟩
      have hlast : (r.take lim).getLast? = some x := by rw [hpx]; simp
      have hr : r = p' ++ x :: r.drop lim := by
        have := (List.take_append_drop lim r).symm
        rw [hpx] at this
        simpa using this
      have hS' : sortNames names = (pre ++ p') ++ x :: r.drop lim := by
        rw [hS]; rw [List.append_assoc]; congr 1
      have hrem' : remaining (sortNames names) (some x) = r.drop lim := by
        unfold remaining
        have hs' := hs
        rw [hS'] at hs' ⊢
        exact dropWhile_after hs'
      have := ih (pre ++ p' ++ [x]) (r.drop lim) (some x) (by rw [hS']; simp) hrem'
        (by rw [List.length_drop]; omega)
      rw [hlast]
      refine ⟨?_, ?_⟩
      · rw [List.flatten_cons, this.1, List.take_append_drop]
      · intro p hp
        rcases List.mem_cons.mp hp with hp | hp
        · rw [hp, List.length_take]; omega
        · exact this.2 p hp

end LanceModel.C36
