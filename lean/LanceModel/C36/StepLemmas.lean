import LanceModel.C36.RefineLemmas
/-
C36 — one API call of the manifest-mode catalog refines one step of the map.
-/
namespace LanceModel.C36

/-- the operations covered by the refinement: ids made of clean names, unpaged listings, no client paging loop -/
def CleanOp : Op → Prop
  | .page _ _ _ => False
  | .lns id tok lim | .lt id tok lim => (id = [] ∨ CleanKey id) ∧ tok = none ∧ lim = none
  | .cns id | .dns id | .ens id | .desns id | .ct id | .reg id _ | .dereg id | .dt id | .et id | .dest id =>
    id = [] ∨ CleanKey id

instance : DecidablePred CleanOp := fun op => by
  cases op <;> unfold CleanOp <;> exact inferInstance

/-- the map holds no entry of the *other* kind where the code's untyped existence tests look -/
def KindOK (sp : Spec) : Op → Bool
  | .cns id | .reg id _ => noTableLevels sp [] id.dropLast
  | .dns id | .ens id => sp.get id ≠ some .tbl
  | .et id | .ct id => sp.get id ≠ some .ns
  | _ => true

theorem R.of_rows {st st' : St} {sp : Spec} (h : R st sp) (hr : st'.rows = st.rows) : R st' sp :=
  ⟨hr ▸ h.rel, h.clean, h.nodup⟩

theorem addDir_rows (st : St) (d : Dir) : (addDir st d).rows = st.rows := by
  unfold addDir; split <;> rfl

theorem isSome_eq_tbl {o : Option Ty} (h : o ≠ some .ns) : o.isSome = decide (o = some .tbl) := by
  cases o with
  | none => rfl
  | some t => cases t <;> simp_all

theorem CleanKey.dropLast_clean {id : Key} (h : CleanKey id) : ∀ m ∈ id.dropLast, CleanName m :=
  fun m hm => h.2 m (List.dropLast_subset _ hm)

theorem Spec.step_norm (sp : Spec) (op : Op) : (sp.step op).2.norm = (sp.step op).2 := by
  cases op <;> simp only [Spec.step] <;> (repeat' split) <;> rfl

theorem norm_of_eq {o : Out} {sp : Spec} {op : Op} (h : o = (sp.step op).2) : o.norm = (sp.step op).2 := by
  rw [h, Spec.step_norm]

section
variable {st : St} {sp : Spec} (h : R st sp)
include h

theorem R.any_oid {k : Key} (hk : CleanKey k) : st.rows.any (fun r => r.oid = joinD k) = (sp.get k).isSome := by
  have := h.contains_eq hk
  unfold containsObject at this
  rw [if_neg hk.quoteFree] at this
  exact Except.ok.inj this

theorem R.insertRow_some {k : Key} (hk : CleanKey k) (hs : (sp.get k).isSome = true) (t : Ty) (d : Dir) :
    insertRow st ⟨joinD k, t, d⟩ = none := by
  unfold insertRow
  simp only [h.any_oid hk, hs, if_true]

theorem R.insertRow_none {k : Key} (hk : CleanKey k) (hs : sp.get k = none) (t : Ty) (d : Dir) :
    ∃ st', insertRow st ⟨joinD k, t, d⟩ = some st' ∧ R st' (sp.put k t) := by
  obtain ⟨h1, h2⟩ := h.insert hk hs t d st.dirs
  exact ⟨_, h1, h2⟩

theorem R.cns (id : Key) (hid : id = [] ∨ CleanKey id) (hk : noTableLevels sp [] id.dropLast = true) :
    Out.res (mCreateNs st id).2 = (sp.step (.cns id)).2 ∧ R (mCreateNs st id).1 (sp.step (.cns id)).1 := by
  unfold mCreateNs
  simp only [Spec.step]
  rcases hid with hid | hid
  · subst hid; simp only [↓reduceIte]; exact ⟨by first | rfl | trivial, h⟩
  · rw [if_neg hid.1, if_neg hid.1, h.levels_eq [] id.dropLast (by simp) hid.dropLast_clean hk]
    by_cases hl : sp.levels [] id.dropLast = true
    · simp only [hl, if_true, Bool.not_true, Bool.false_eq_true, if_false]
      rw [h.contains_eq hid]
      cases hg : sp.get id with
      | some t => simp only [Option.isSome_some, if_true]; exact ⟨by first | rfl | trivial, h⟩
      | none =>
        obtain ⟨st', h1, h2⟩ := h.insertRow_none hid hg .ns noDir
        simp only [Option.isSome_none, Bool.false_eq_true, if_false, h1]
        exact ⟨by first | rfl | trivial, h2⟩
    · simp only [hl, Bool.false_eq_true, if_false, Bool.not_false, if_true]
      exact ⟨by first | rfl | trivial, h⟩

theorem R.reg (id : Key) (loc : Name) (hid : id = [] ∨ CleanKey id) (hk : noTableLevels sp [] id.dropLast = true) :
    Out.res (mRegister st id loc).2 = (sp.step (.reg id loc)).2 ∧
      R (mRegister st id loc).1 (sp.step (.reg id loc)).1 := by
  unfold mRegister
  simp only [Spec.step]
  rcases hid with hid | hid
  · subst hid; simp only [↓reduceIte]; exact ⟨by first | rfl | trivial, h⟩
  · rw [if_neg hid.1, if_neg hid.1]
    by_cases hloc : locOk loc = true
    · simp only [hloc, Bool.not_true, Bool.false_eq_true, if_false]
      rw [h.levels_eq [] id.dropLast (by simp) hid.dropLast_clean hk]
      by_cases hl : sp.levels [] id.dropLast = true
      · simp only [hl, if_true, Bool.not_true, Bool.false_eq_true, if_false]
        rw [tableOid_eq hid.1, h.contains_eq hid]
        cases hg : sp.get id with
        | some t => simp only [Option.isSome_some, if_true]; exact ⟨by first | rfl | trivial, h⟩
        | none =>
          obtain ⟨st', h1, h2⟩ := h.insertRow_none hid hg .tbl ⟨false, loc⟩
          simp only [Option.isSome_none, Bool.false_eq_true, if_false, h1]
          exact ⟨by first | rfl | trivial, h2⟩
      · simp only [hl, Bool.false_eq_true, if_false, Bool.not_false, if_true]
        exact ⟨by first | rfl | trivial, h⟩
    · simp only [hloc, Bool.not_false, if_true]
      exact ⟨by first | rfl | trivial, h⟩

theorem R.ct (id : Key) (hid : id = [] ∨ CleanKey id) (hk : sp.get id ≠ some .ns) :
    Out.res (mCreateTable false st id).2 = (sp.step (.ct id)).2 ∧
      R (mCreateTable false st id).1 (sp.step (.ct id)).1 := by
  unfold mCreateTable
  simp only [Spec.step]
  rcases hid with hid | hid
  · subst hid; simp only [↓reduceIte]; exact ⟨by first | rfl | trivial, h⟩
  · rw [if_neg hid.1, if_neg hid.1, tableOid_eq hid.1]
    obtain ⟨o, ho, hiff⟩ := h.query_eq hid .tbl
    rw [ho]
    cases o with
    | some r =>
      have : sp.get id = some .tbl := hiff.mp rfl
      simp only [this, Option.isSome_some, if_true]
      exact ⟨by first | rfl | trivial, h⟩
    | none =>
      have h1 : R (addDir st (encDir (tableDir false id))) sp := h.of_rows (addDir_rows _ _)
      cases hg : sp.get id with
      | some t =>
        cases t with
        | ns => exact absurd hg hk
        | tbl => exact absurd (hiff.mpr hg) (by simp)
      | none =>
        obtain ⟨st', h2, h3⟩ := h1.insertRow_none hid hg .tbl (tableDir false id)
        simp only [Option.isSome_none, Bool.false_eq_true, if_false, h2]
        exact ⟨by first | rfl | trivial, h3⟩

theorem R.dereg (id : Key) (hid : id = [] ∨ CleanKey id) :
    Out.res (mDeregister st id).2 = (sp.step (.dereg id)).2 ∧ R (mDeregister st id).1 (sp.step (.dereg id)).1 := by
  unfold mDeregister
  simp only [Spec.step]
  rcases hid with hid | hid
  · subst hid; simp only [↓reduceIte]; exact ⟨by first | rfl | trivial, h⟩
  · rw [if_neg hid.1, if_neg hid.1, tableOid_eq hid.1]
    obtain ⟨o, ho, hiff⟩ := h.query_eq hid .tbl
    rw [ho]
    cases o with
    | some r =>
      have : sp.get id = some .tbl := hiff.mp rfl
      simp only [this, ne_eq, not_true_eq_false, if_false]
      exact ⟨by first | rfl | trivial, h.delete hid⟩
    | none =>
      have : sp.get id ≠ some .tbl := fun hh => by simpa using hiff.mpr hh
      simp only [ne_eq, this, not_false_eq_true, if_true]
      exact ⟨by first | rfl | trivial, h⟩

theorem R.dt (id : Key) (hid : id = [] ∨ CleanKey id) :
    (Out.res (mDropTable st id).2).norm = (sp.step (.dt id)).2 ∧ R (mDropTable st id).1 (sp.step (.dt id)).1 := by
  unfold mDropTable
  simp only [Spec.step]
  rcases hid with hid | hid
  · subst hid; simp only [↓reduceIte]; exact ⟨by first | rfl | trivial, h⟩
  · rw [if_neg hid.1, if_neg hid.1, tableOid_eq hid.1]
    obtain ⟨o, ho, hiff⟩ := h.query_eq hid .tbl
    rw [ho]
    cases o with
    | some r =>
      have : sp.get id = some .tbl := hiff.mp rfl
      simp only [this, ne_eq, not_true_eq_false, if_false]
      split
      · exact ⟨by first | rfl | trivial, (h.delete hid).of_rows rfl⟩
      · exact ⟨by first | rfl | trivial, h.delete hid⟩
    | none =>
      have : sp.get id ≠ some .tbl := fun hh => by simpa using hiff.mpr hh
      simp only [ne_eq, this, not_false_eq_true, if_true]
      exact ⟨by first | rfl | trivial, h⟩

theorem R.dns (id : Key) (hid : id = [] ∨ CleanKey id) (hk : sp.get id ≠ some .tbl) :
    Out.res (mDropNs st id).2 = (sp.step (.dns id)).2 ∧ R (mDropNs st id).1 (sp.step (.dns id)).1 := by
  unfold mDropNs
  simp only [Spec.step]
  rcases hid with hid | hid
  · subst hid; simp only [↓reduceIte]; exact ⟨by first | rfl | trivial, h⟩
  · rw [if_neg hid.1, if_neg hid.1, h.contains_eq hid, isSome_eq_ns hk, h.below_eq hid]
    by_cases hg : sp.get id = some .ns
    · simp only [hg, decide_true, ne_eq, not_true_eq_false, if_false]
      by_cases hb : sp.hasBelow id = true
      · simp only [hb, if_true]; exact ⟨by first | rfl | trivial, h⟩
      · simp only [hb, Bool.false_eq_true, if_false]; exact ⟨by first | rfl | trivial, h.delete hid⟩
    · simp only [hg, decide_false, ne_eq, not_false_eq_true, if_true]
      exact ⟨by first | rfl | trivial, h⟩

theorem R.ens (id : Key) (hid : id = [] ∨ CleanKey id) (hk : sp.get id ≠ some .tbl) :
    outOfExists (mNsExists st id) = (sp.step (.ens id)).2 := by
  unfold mNsExists
  simp only [Spec.step]
  rcases hid with hid | hid
  · subst hid; simp [outOfExists]
  · rw [if_neg hid.1, h.contains_eq hid, isSome_eq_ns hk]
    simp [outOfExists, hid.1]

theorem R.desns (id : Key) (hid : id = [] ∨ CleanKey id) :
    Out.res (mDescribeNs st id) = (sp.step (.desns id)).2 := by
  unfold mDescribeNs
  simp only [Spec.step]
  rcases hid with hid | hid
  · subst hid; simp
  · rw [if_neg hid.1]
    obtain ⟨o, ho, hiff⟩ := h.query_eq hid .ns
    rw [ho]
    cases o with
    | some r =>
      have : sp.get id = some .ns := hiff.mp rfl
      simp [this]
    | none =>
      have : sp.get id ≠ some .ns := fun hh => by simpa using hiff.mpr hh
      simp [this, hid.1]

theorem R.et (id : Key) (hid : id = [] ∨ CleanKey id) (hk : sp.get id ≠ some .ns) :
    outOfExists (mTableExists st id) = (sp.step (.et id)).2 := by
  unfold mTableExists
  simp only [Spec.step]
  rcases hid with hid | hid
  · subst hid; simp [outOfExists]
  · rw [if_neg hid.1, if_neg hid.1, tableOid_eq hid.1, h.contains_eq hid, isSome_eq_tbl hk]
    simp [outOfExists]

theorem R.dest (id : Key) (hid : id = [] ∨ CleanKey id) :
    Out.res (mDescribeTable st id) = (sp.step (.dest id)).2 := by
  unfold mDescribeTable
  simp only [Spec.step]
  rcases hid with hid | hid
  · subst hid; simp
  · rw [if_neg hid.1, if_neg hid.1]
    obtain ⟨o, ho, hiff⟩ := h.query_eq hid .tbl
    rw [ho]
    cases o with
    | some r =>
      have : sp.get id = some .tbl := hiff.mp rfl
      simp [this]
    | none =>
      have : sp.get id ≠ some .tbl := fun hh => by simpa using hiff.mpr hh
      simp [this]

/-- one call of the manifest-mode catalog = one step of the map (outputs up to `Out.norm`) -/
theorem R.step (op : Op) (hc : CleanOp op) (hk : KindOK sp op = true) :
    (step .man st op).2.norm = (sp.step op).2 ∧ R (step .man st op).1 (sp.step op).1 := by
  cases op with
  | cns id => have := h.cns id hc hk; exact ⟨norm_of_eq this.1, this.2⟩
  | dns id => have := h.dns id hc (by simpa [KindOK] using hk); exact ⟨norm_of_eq this.1, this.2⟩
  | ens id => exact ⟨norm_of_eq (h.ens id hc (by simpa [KindOK] using hk)), h⟩
  | desns id => exact ⟨norm_of_eq (h.desns id hc), h⟩
  | ct id => have := h.ct id hc (by simpa [KindOK] using hk); exact ⟨norm_of_eq this.1, this.2⟩
  | reg id loc => have := h.reg id loc hc hk; exact ⟨norm_of_eq this.1, this.2⟩
  | dereg id => have := h.dereg id hc; exact ⟨norm_of_eq this.1, this.2⟩
  | dt id => exact h.dt id hc
  | et id =>
    have h1 : (sp.step (.et id)).1 = sp := by simp only [Spec.step]; split <;> rfl
    exact ⟨norm_of_eq (h.et id hc (by simpa [KindOK] using hk)), by rw [h1]; exact h⟩
  | dest id =>
    have h1 : (sp.step (.dest id)).1 = sp := by simp only [Spec.step]; split <;> rfl
    exact ⟨norm_of_eq (h.dest id hc), by rw [h1]; exact h⟩
  | lns id tok lim =>
    refine ⟨norm_of_eq ?_, h⟩
    show outOfList ((listChildren st id .ns).map _) = _
    rw [h.children_eq id hc.1 .ns]; rfl
  | lt id tok lim =>
    refine ⟨norm_of_eq ?_, h⟩
    have hl : listTables .man st id tok lim = (listChildren st id .tbl).map (·.map (⟨false, ·⟩)) := by
      unfold listTables
      by_cases hid : id = []
      · subst hid; rfl
      · rw [if_pos hid]; rfl
    show outOfList (listTables .man st id tok lim) = _
    rw [hl, h.children_eq id hc.1 .tbl]; rfl
  | page t id lim => exact absurd hc (by simp [CleanOp])

end

end LanceModel.C36
