import LanceModel.C36.StepLemmas
import LanceModel.C36.PageLemmas
/-
C36 — property theorems.

Property (properties.jsonl): "For any sequence of namespace and table create, drop, register, deregister, describe,
exists and list calls with arbitrary accepted names, the catalog answers exactly as a map from (namespace path, name)
to table would, operations on one name never affect another name, names that cannot be stored faithfully are
rejected, and paging through a listing returns every entry exactly once."

The code does not meet it at full strength (`C36_full`, refuted below by five witnesses): names containing the
delimiter `$`, a quote, or (for the byte/character offset of the listing filter) non-ASCII characters are accepted and
stored unfaithfully, and the existence tests ignore the object type.  `refines_map_partial` proves the statement for
every operation sequence outside exactly those regions.
-/
namespace LanceModel.C36

/-! ### object ids -/

/-- `object_id_injective`: on ids made of delimiter-free names, `build_object_id` / `join("$")` is injective -/
theorem object_id_injective {k k' : Key} (hk : k ≠ []) (hk' : k' ≠ []) (hc : ∀ n ∈ k, dollar ∉ n)
    (hc' : ∀ n ∈ k', dollar ∉ n) (h : joinD k = joinD k') : k = k' :=
  joinD_inj hk hk' hc hc' h

/-- it is not injective once a name may contain the delimiter: `["a$b"]` and `["a","b"]` share an object id -/
theorem object_id_collision : joinD [[97, 36, 98]] = joinD [[97], [98]] ∧ ([[97, 36, 98]] : Key) ≠ [[97], [98]] := by
  decide

example : ([[97], [98]] : Key) ≠ [] ∧ ∀ n ∈ ([[97], [98]] : Key), dollar ∉ n := by decide

/-- `parse_object_id` (split on `$`) recovers the id from the object id when no name contains the delimiter -/
theorem parse_build_roundtrip {k : Key} (hk : k ≠ []) (hc : ∀ n ∈ k, dollar ∉ n) : splitD (joinD k) = k :=
  splitD_joinD hk hc

example : splitD (joinD [[97], [], [98, 99]]) = [[97], [], [98, 99]] := by decide
/-- with a delimiter inside a name the parse returns a different id -/
example : splitD (joinD [[97, 36, 98]]) = [[97], [98]] := by decide

/-- table ids go through `split_object_id` + `build_object_id`: the same string as the plain join -/
theorem table_object_id {id : Key} (h : id ≠ []) : tableOid id = joinD id := tableOid_eq h

/-! ### refinement of the map -/

/-- along the run, the map never holds an entry of the other kind where the code's untyped tests look -/
def KindRun (sp : Spec) : List Op → Bool
  | [] => true
  | op :: rest => KindOK sp op && KindRun (sp.step op).1 rest

theorem run_refines {st : St} {sp : Spec} (h : R st sp) (ops : List Op) (hc : ∀ op ∈ ops, CleanOp op)
    (hk : KindRun sp ops = true) :
    (run .man st ops).2.map Out.norm = (Spec.run sp ops).2 ∧ R (run .man st ops).1 (Spec.run sp ops).1 := by
  induction ops generalizing st sp with
  | nil => exact ⟨rfl, h⟩
  | cons op rest ih =>
    simp only [KindRun, Bool.and_eq_true] at hk
    obtain ⟨h1, h2⟩ := h.step op (hc op (by simp)) hk.1
    obtain ⟨h3, h4⟩ := ih h2 (fun o ho => hc o (List.mem_cons_of_mem _ ho)) hk.2
    exact ⟨by simp only [run, Spec.run, List.map_cons, h1, h3], h4⟩

theorem R_init : R init [] := ⟨Rel.nil, by simp, by simp⟩

/-- the statement for a class `P` of operation sequences: the manifest-mode catalog answers every call exactly as the
    map does (`drop_table`'s answer up to the outcome of removing the directory, `Out.norm`) -/
def RefinesMap (P : List Op → Prop) : Prop :=
  ∀ ops, P ops → (run .man init ops).2.map Out.norm = (Spec.run [] ops).2

/-- the property at full strength: every operation sequence, arbitrary names -/
def C36_full : Prop := RefinesMap (fun _ => True)

/-- `refines_map` (partial): all op sequences whose names avoid `$`, `'` and non-ASCII characters (`CleanOp`), that
    list without paging, and that never aim an untyped existence test at an entry of the other kind (`KindRun`,
    decidable on the op list alone) -/
theorem refines_map_partial : RefinesMap (fun ops => (∀ op ∈ ops, CleanOp op) ∧ KindRun [] ops = true) :=
  fun ops hp => (run_refines R_init ops hp.1 hp.2).1

def nA : Name := [97]
def nB : Name := [98]
def nT : Name := [116]

/-- non-vacuity: a nested create / list / drop sequence satisfies the hypotheses and has non-trivial answers -/
def sampleOps : List Op :=
  [.cns [nA], .cns [nA, nB], .ct [nA, nB, nT], .reg [nA, nT] [101, 120, 116, 49], .lt [nA, nB] none none,
   .lns [nA] none none, .dns [nA, nB], .dt [nA, nB, nT], .dns [nA, nB], .et [nA, nB, nT], .dereg [nA, nT]]

example : (∀ op ∈ sampleOps, CleanOp op) ∧ KindRun [] sampleOps = true := by decide

example : (Spec.run [] sampleOps).2 =
    [.res .ok, .res .ok, .res .ok, .res .ok, .names [⟨false, nT⟩], .names [⟨false, nB⟩], .res .notempty, .res .ok,
     .res .ok, .bool false, .res .ok] := by decide

/-! ### the hypotheses are needed: witnesses on the model (each confirmed on the real code by the harness) -/

def ctrDelimiter : List Op := [.cns [nA], .cns [nA, nB], .cns [[97, 36, 98]], .ens [[97, 36, 98]]]
/-- `$` in a name: after `["a"]`, `["a","b"]`, creating `["a$b"]` answers "already exists" -/
theorem delimiter_counterexample : (run .man init ctrDelimiter).2.map Out.norm ≠ (Spec.run [] ctrDelimiter).2 := by
  decide

def ctrDelimiter2 : List Op := [.cns [nA], .cns [nA, nB], .cns [nA, [98, 36, 99]], .lns [nA, nB] none none]
/-- `$` in a name: creating `["a","b$c"]` makes `c` appear under `["a","b"]` -/
theorem delimiter_counterexample2 :
    (run .man init ctrDelimiter2).2.map Out.norm ≠ (Spec.run [] ctrDelimiter2).2 := by decide

def ctrQuote : List Op := [.cns [[120, 39, 121]]]
/-- a quote in a name breaks the interpolated SQL filter -/
theorem quote_counterexample : (run .man init ctrQuote).2.map Out.norm ≠ (Spec.run [] ctrQuote).2 := by decide

def ctrNonAscii : List Op := [.cns [[233]], .cns [[233], []], .cns [[233], [], nB], .lns [[233]] none none]
/-- a non-ASCII namespace name: `prefix.len()` (bytes) is used as a character offset, a grandchild is listed -/
theorem non_ascii_counterexample : (run .man init ctrNonAscii).2.map Out.norm ≠ (Spec.run [] ctrNonAscii).2 := by
  decide

def ctrKind : List Op := [.cns [nA], .et [nA]]
/-- clean names, but `table_exists` does not look at the object type -/
theorem kind_counterexample : (run .man init ctrKind).2.map Out.norm ≠ (Spec.run [] ctrKind).2 := by decide

example : (∀ op ∈ ctrKind, CleanOp op) ∧ KindRun [] ctrKind = false := by decide
example : KindRun [] ctrDelimiter = true ∧ KindRun [] ctrQuote = true ∧ KindRun [] ctrNonAscii = true := by decide

theorem C36_full_counterexample : ¬ C36_full := fun h => delimiter_counterexample (h ctrDelimiter trivial)

/-! ### operations on one name never affect another name (the map side; carried to the code by the refinement) -/

theorem Spec.get_put_ne (sp : Spec) {k k' : Key} (t : Ty) (h : k' ≠ k) : (sp.put k t).get k' = sp.get k' := by
  unfold Spec.get Spec.put
  rw [List.find?_append]
  cases sp.find? (fun e => decide (e.1 = k')) with
  | some e => rfl
  | none => simp [List.find?, Ne.symm h]

theorem Spec.get_del_ne (sp : Spec) {k k' : Key} (h : k' ≠ k) : (sp.del k).get k' = sp.get k' := by
  unfold Spec.get Spec.del
  congr 1
  induction sp with
  | nil => rfl
  | cons e sp ih =>
    by_cases he : e.1 = k
    · have hq : ¬ (decide (e.1 = k') = true) := by
        simp only [decide_eq_true_eq]; exact fun h2 => h (h2 ▸ he)
      rw [List.filter_cons_of_neg (by simp [he]), List.find?_cons_of_neg (p := fun e : Key × Ty => decide (e.1 = k')) hq]
      exact ih
    · rw [List.filter_cons_of_pos (by simp [he])]
      by_cases h2 : e.1 = k'
      · rw [List.find?_cons_of_pos (p := fun e : Key × Ty => decide (e.1 = k')) (by simp [h2]),
          List.find?_cons_of_pos (p := fun e : Key × Ty => decide (e.1 = k')) (by simp [h2])]
      · rw [List.find?_cons_of_neg (p := fun e : Key × Ty => decide (e.1 = k')) (by simp [h2]),
          List.find?_cons_of_neg (p := fun e : Key × Ty => decide (e.1 = k')) (by simp [h2])]
        exact ih

/-- `ops_isolated`: a call addressed to `op.id` leaves the entry at every other key untouched -/
theorem spec_ops_isolated (sp : Spec) (op : Op) (k' : Key) (h : k' ≠ op.id) : (sp.step op).1.get k' = sp.get k' := by
  cases op <;> simp only [Spec.step, Op.id] at h ⊢ <;> (repeat' split) <;>
    first | rfl | exact Spec.get_put_ne _ _ h | exact Spec.get_del_ne _ h

example : ((Spec.step [([nA], Ty.ns)] (.ct [nA, nT])).1.get [nA] = some .ns) := by decide

/-! ### paging -/

/-- `paging_exact`: for a listing without duplicate names and any page size ≥ 1, iterating `apply_pagination`
    pages (each request starts after the last name of the previous page) returns the sorted listing — a
    permutation of the names, strictly increasing — cut into pages of at most `lim` names: every entry exactly
    once, in order -/
theorem paging_exact (names : List Name) (lim fuel : Nat) (hn : names.Nodup) (hl : 1 ≤ lim)
    (hf : names.length < fuel) :
    (pagesOf names lim fuel none).flatten = sortNames names ∧
    (∀ p ∈ pagesOf names lim fuel none, p.length ≤ lim) ∧
    (sortNames names).Perm names ∧ SortedLt (sortNames names) := by
  have hperm := sortNames_perm names
  have hs : SortedLt (sortNames names) := sortedLt_of_nodup (sortNames_sorted names) (hperm.nodup_iff.mpr hn)
  have := pagesOf_flatten hl hs fuel [] (sortNames names) none rfl rfl (by rw [hperm.length_eq]; exact hf)
  exact ⟨this.1, this.2, hperm, hs⟩

example : pagesOf [nB, nT, nA] 2 4 none = [[nA, nB], [nT]] := by decide

/-- a listing that repeats a name is not paged exactly (start-after skips the repetition) -/
theorem paging_duplicate_counterexample : (pagesOf [nA, nA] 1 3 none).flatten ≠ sortNames [nA, nA] := by decide

/-- directory mode: `list_tables` on the root is `apply_pagination` over the directory entries ending in `.lance` -/
theorem dir_list_tables (st : St) (tok : Option Name) (lim : Option Int) :
    listTables .dir st [] tok lim =
      .ok ((applyPagination ((listDirectoryTables st).map (·.s)) tok lim).map (⟨false, ·⟩)) := rfl

/-! ### names the directory store cannot hold faithfully (dual / directory mode; witnesses only) -/

/-- directory mode lists the table `é` under its percent-encoded directory name -/
theorem dir_non_ascii_listed_encoded :
    (run .dir init [.ct [[233]], .lt [] none none]).2 =
      [.res .ok, .names [⟨false, [37, 67, 51, 37, 65, 57]⟩]] := by decide

/-- dual mode: a child-namespace table whose name ends in `.lance` shows up as a root table named after its
    hash-prefixed directory -/
theorem dual_lance_suffix_ghost :
    (run .dual init [.ct [nA, dotLance], .lt [] none none]).2 =
      [.res .ok, .names [⟨true, [97, 36]⟩]] := by decide

end LanceModel.C36
