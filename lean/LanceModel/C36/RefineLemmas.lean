import LanceModel.C36.RelLemmas
/-
C36 — manifest-mode API calls against the map: parent validation, emptiness test, listing filters.
-/
namespace LanceModel.C36

/-- no prefix `pre ++ path[..i]` (i ≥ 1) holds a table (the code's parent test does not look at the kind) -/
def noTableLevels (sp : Spec) (pre : Key) : List Name → Bool
  | [] => true
  | n :: rest => sp.get (pre ++ [n]) ≠ some .tbl && noTableLevels sp (pre ++ [n]) rest

theorem CleanKey.snoc {pre : Key} {n : Name} (hp : ∀ m ∈ pre, CleanName m) (hn : CleanName n) : CleanKey (pre ++ [n]) :=
  ⟨by simp, fun m hm => by
    rcases List.mem_append.mp hm with hm | hm
    · exact hp m hm
    · simp only [List.mem_singleton] at hm; exact hm ▸ hn⟩

theorem isSome_eq_ns {o : Option Ty} (h : o ≠ some .tbl) : o.isSome = decide (o = some .ns) := by
  cases o with
  | none => rfl
  | some t => cases t <;> simp_all

section
variable {st : St} {sp : Spec} (h : R st sp)
include h

/-- `validate_namespace_levels_exist` = "every level is a namespace", provided no level is a table -/
theorem R.levels_eq (pre : Key) (path : List Name) (hp : ∀ m ∈ pre, CleanName m) (hc : ∀ m ∈ path, CleanName m)
    (hk : noTableLevels sp pre path = true) :
    validateLevels st pre path = if sp.levels pre path then .ok () else .error .noparent := by
  induction path generalizing pre with
  | nil => rfl
  | cons n rest ih =>
    have hkey : CleanKey (pre ++ [n]) := CleanKey.snoc hp (hc n (by simp))
    simp only [noTableLevels, Bool.and_eq_true, decide_eq_true_eq] at hk
    unfold validateLevels Spec.levels
    rw [h.contains_eq hkey, isSome_eq_ns hk.1]
    by_cases hg : sp.get (pre ++ [n]) = some .ns
    · simp only [hg, decide_true, Bool.true_and]
      exact ih (pre ++ [n]) hkey.2 (fun m hm => hc m (List.mem_cons_of_mem _ hm)) hk.2
    · simp [hg]

/-- `starts_with(object_id, '{id}$')` over the rows = "the map has a strict descendant" -/
theorem R.below_eq {k : Key} (hk : CleanKey k) :
    st.rows.any (fun r => (joinD k ++ [dollar]).isPrefixOf r.oid) = sp.hasBelow k := by
  unfold Spec.hasBelow
  refine h.rel.any _ _ (fun r e he ho _ => ?_)
  have hce := h.clean e he
  have hpre := prefix_joinD (k := k) (k' := e.1) hk.1 hce.1 hk.dollarFree hce.dollarFree
  rw [ho]
  have h1 : ((joinD k ++ [dollar]).isPrefixOf (joinD e.1) = true) ↔ ∃ r, joinD e.1 = joinD k ++ dollar :: r := by
    rw [List.isPrefixOf_iff_prefix]
    constructor
    · intro ⟨t, ht⟩; exact ⟨t, by rw [← ht]; simp⟩
    · intro ⟨t, ht⟩; exact ⟨t, by rw [ht]; simp⟩
  have h2 : (k.isPrefixOf e.1 && decide (e.1 ≠ k)) = true ↔ ∃ t, t ≠ [] ∧ e.1 = k ++ t := by
    rw [Bool.and_eq_true, List.isPrefixOf_iff_prefix, decide_eq_true_eq]
    constructor
    · intro ⟨⟨t, ht⟩, hne⟩
      exact ⟨t, fun h0 => hne (by rw [← ht, h0]; simp), ht.symm⟩
    · intro ⟨t, ht, he⟩
      exact ⟨⟨t, he.symm⟩, fun h0 => ht (by
        have : k ++ t = k ++ [] := by rw [← he, h0]; simp
        exact List.append_cancel_left this)⟩
  by_cases hx : ∃ t, t ≠ [] ∧ e.1 = k ++ t
  · rw [h2.mpr hx, h1.mpr (hpre.mpr hx)]
  · have a1 : ¬ ((joinD k ++ [dollar]).isPrefixOf (joinD e.1) = true) := fun hh => hx (hpre.mp (h1.mp hh))
    have a2 : ¬ ((k.isPrefixOf e.1 && decide (e.1 ≠ k)) = true) := fun hh => hx (h2.mp hh)
    rw [Bool.not_eq_true] at a1 a2
    rw [a1, a2]

end

theorem childName_snoc (k : Key) (n : Name) : childName k (k ++ [n]) = some n := by
  unfold childName; simp

theorem childName_some {parent k : Key} {n : Name} (h : childName parent k = some n) : k = parent ++ [n] := by
  unfold childName at h
  cases hk : k.getLast? with
  | none => simp [hk] at h
  | some m =>
    simp only [hk] at h
    split at h
    · next hd =>
      simp only [Option.some.injEq] at h
      have hne : k ≠ [] := by intro h0; simp [h0] at hk
      have := List.dropLast_concat_getLast hne
      rw [← this, hd]
      have hm : k.getLast hne = m := by
        have := List.getLast?_eq_some_getLast hne
        rw [hk] at this; exact (Option.some.inj this).symm
      rw [hm, h]
    · exact absurd h (by simp)

theorem not_dollar_mem_joinD_iff {t : List Name} (hc : ∀ n ∈ t, dollar ∉ n) (ht : t ≠ []) :
    dollar ∉ joinD t ↔ ∃ n, t = [n] := by
  rw [dollar_mem_joinD hc ht]
  constructor
  · intro hl
    match t, ht with
    | [n], _ => exact ⟨n, rfl⟩
    | a :: b :: r, _ => simp at hl
  · intro ⟨n, hn⟩; simp [hn]

section
variable {st : St} {sp : Spec} (h : R st sp)
include h

/-- the listing filters + `parse_object_id` return the names of the direct children of that kind -/
theorem R.children_eq (id : Key) (hid : id = [] ∨ CleanKey id) (ty : Ty) :
    listChildren st id ty = .ok (sp.children id ty) := by
  unfold listChildren Spec.children
  rcases hid with hid | hid
  · subst hid
    simp only [if_true]
    congr 1
    rw [← List.filterMap_eq_map, List.filterMap_filter]
    refine h.rel.filterMap _ _ (fun r e he ho ht => ?_)
    have hce := h.clean e he
    simp only [Function.comp_apply]
    rw [ht, ho]
    by_cases hty : e.2 = ty
    · simp only [hty, decide_true, Bool.true_and, if_true]
      by_cases hone : ∃ n, e.1 = [n]
      · obtain ⟨n, hn⟩ := hone
        have hnd : dollar ∉ n := hce.dollarFree n (by rw [hn]; simp)
        rw [hn]
        simp only [joinD]
        have : (n.contains dollar) = false := by simpa using hnd
        simp [hnd, lastPart_clean hnd, childName]
      · have hd : dollar ∈ joinD e.1 := by
          by_cases hm : dollar ∈ joinD e.1
          · exact hm
          · exact absurd ((not_dollar_mem_joinD_iff hce.dollarFree hce.1).mp hm) hone
        have : ((joinD e.1).contains dollar) = true := by simpa using hd
        simp only [this, Bool.not_true, Bool.false_eq_true, if_false]
        cases hc : childName [] e.1 with
        | none => rfl
        | some n => exact absurd ⟨n, by simpa using childName_some hc⟩ hone
    · simp [hty]
  · rw [if_neg hid.1, if_neg hid.quoteFree]
    congr 1
    rw [← List.filterMap_eq_map, List.filterMap_filter]
    refine h.rel.filterMap _ _ (fun r e he ho ht => ?_)
    have hce := h.clean e he
    unfold childFilter
    simp only [Function.comp_apply]
    rw [ht, ho, byteLen_ascii hid.ascii]
    by_cases hty : e.2 = ty
    · simp only [hty, decide_true, Bool.true_and, if_true]
      have hpre := prefix_joinD (k := id) (k' := e.1) hid.1 hce.1 hid.dollarFree hce.dollarFree
      by_cases hx : ∃ t, t ≠ [] ∧ e.1 = id ++ t
      · obtain ⟨t, ht0, het⟩ := hx
        have hj : joinD e.1 = joinD id ++ dollar :: joinD t := by rw [het, joinD_append hid.1 ht0]
        have hp : (joinD id ++ [dollar]).isPrefixOf (joinD e.1) = true := by
          rw [List.isPrefixOf_iff_prefix, hj]; exact ⟨joinD t, by simp⟩
        have hdrop : (joinD e.1).drop ((joinD id).length + 1) = joinD t := by
          rw [hj]
          have : joinD id ++ dollar :: joinD t = (joinD id ++ [dollar]) ++ joinD t := by simp
          rw [this, List.drop_left' (by simp)]
        have htc : ∀ n ∈ t, dollar ∉ n := fun n hn => hce.dollarFree n (by rw [het]; simp [hn])
        rw [hp, hdrop]
        by_cases hone : ∃ n, t = [n]
        · obtain ⟨n, hn⟩ := hone
          subst hn
          have hnd : dollar ∉ n := htc n (by simp)
          have : (n.contains dollar) = false := by simpa using hnd
          simp only [joinD, this, Bool.not_false, Bool.and_self, if_true]
          rw [hj]
          simp only [joinD]
          rw [lastPart_append hnd, het, childName_snoc]
        · have hd : dollar ∈ joinD t := by
            by_cases hm : dollar ∈ joinD t
            · exact hm
            · exact absurd ((not_dollar_mem_joinD_iff htc ht0).mp hm) hone
          have : ((joinD t).contains dollar) = true := by simpa using hd
          simp only [this, Bool.not_true, Bool.and_false, Bool.false_eq_true, if_false]
          cases hc : childName id e.1 with
          | none => rfl
          | some n =>
            have := childName_some hc
            rw [het] at this
            exact absurd ⟨n, List.append_cancel_left this⟩ hone
      · have hp : (joinD id ++ [dollar]).isPrefixOf (joinD e.1) = false := by
          rw [← Bool.not_eq_true, List.isPrefixOf_iff_prefix]
          intro ⟨r, hr⟩
          exact hx (hpre.mp ⟨r, by rw [← hr]; simp⟩)
        simp only [hp, Bool.false_and, Bool.false_eq_true, if_false]
        cases hc : childName id e.1 with
        | none => rfl
        | some n => exact absurd ⟨[n], by simp, childName_some hc⟩ hx
    · simp [hty]

end

end LanceModel.C36
