/-
C36 — the namespace catalog (rust/lance-namespace-impls/src/dir.rs `DirectoryNamespace`,
rust/lance-namespace-impls/src/dir/manifest.rs `ManifestNamespace`) as executable Lean definitions.

Strings are lists of Unicode code points (`Name = List Nat`): Rust's `String` order (UTF-8 byte order) is the
lexicographic order of code points, `$` is 36, `'` is 39.  The state is the content of the `__manifest` table
(rows in insertion order) plus the entries of the root directory that matter (table directories, by their
on-disk — percent-encoded — name).  The model mirrors the code that exists, including what it gets wrong.
Import-free (core only) so the driver links natively.
-/
namespace LanceModel.C36

abbrev Name := List Nat

def dollar : Nat := 36
def quote : Nat := 39
/-- ".lance" -/
def dotLance : Name := [46, 108, 97, 110, 99, 101]

/-! ### object ids -/

/-- `[String]::join(DELIMITER)` (manifest.rs `str_object_id`, `namespace_id.join(DELIMITER)`) -/
def joinD : List Name → Name
  | [] => []
  | [a] => a
  | a :: b :: t => a ++ dollar :: joinD (b :: t)

/-- manifest.rs `ManifestNamespace::build_object_id` -/
def buildObjectId (ns : List Name) (name : Name) : Name :=
  if ns = [] then name else joinD ns ++ dollar :: name

/-- `object_id.split(DELIMITER)` : one more part than there are delimiters -/
def splitD : Name → List Name
  | [] => [[]]
  | c :: t =>
    if c = dollar then [] :: splitD t
    else match splitD t with
      | [] => [[c]]
      | h :: r => (c :: h) :: r

/-- the `name` component returned by manifest.rs `parse_object_id`: everything after the last delimiter -/
def lastPart (s : Name) : Name := (s.reverse.takeWhile (· ≠ dollar)).reverse

/-- manifest.rs `split_object_id` followed by `build_object_id` (used by every table operation) -/
def tableOid (id : List Name) : Name := buildObjectId id.dropLast (id.getLast?.getD [])

/-! ### strings: UTF-8 length, infix test, order -/

def utf8Len (c : Nat) : Nat := if c < 128 then 1 else if c < 2048 then 2 else if c < 65536 then 3 else 4
/-- `str::len()` (bytes) -/
def byteLen (s : Name) : Nat := (s.map utf8Len).sum

def hasInfix (p : Name) : Name → Bool
  | [] => p.isEmpty
  | c :: t => p.isPrefixOf (c :: t) || hasInfix p t

/-- `a < b` for Rust strings (lexicographic on code points) -/
def ltName : Name → Name → Bool
  | _, [] => false
  | [], _ :: _ => true
  | a :: s, b :: t => a < b || (a = b && ltName s t)

def insertName (x : Name) : List Name → List Name
  | [] => [x]
  | y :: t => if ltName y x then y :: insertName x t else x :: y :: t

/-- `names.sort()` -/
def sortNames (l : List Name) : List Name := l.foldr insertName []

/-! ### object_store path parts (`Path::child` percent-encodes; the local store uses the encoded text as file name) -/

def hexDigit (n : Nat) : Nat := if n < 10 then 48 + n else 55 + n
def pct (b : Nat) : Name := [37, hexDigit (b / 16), hexDigit (b % 16)]
def utf8 (c : Nat) : List Nat :=
  if c < 128 then [c]
  else if c < 2048 then [192 + c / 64, 128 + c % 64]
  else if c < 65536 then [224 + c / 4096, 128 + c / 64 % 64, 128 + c % 64]
  else [240 + c / 262144, 128 + c / 4096 % 64, 128 + c / 64 % 64, 128 + c % 64]
/-- object_store `path/parts.rs` INVALID (besides controls and non-ASCII): `/ \ { ^ } % backtick ] " > [ ~ < # | * ?` -/
def invalidAscii : List Nat := [47, 92, 123, 94, 125, 37, 96, 93, 34, 62, 91, 126, 60, 35, 124, 42, 63]
def encChar (c : Nat) : Name :=
  if c < 128 then (if c < 32 ∨ c = 127 ∨ c ∈ invalidAscii then pct c else [c])
  else (utf8 c).flatMap pct
/-- object_store `PathPart::from` -/
def encPart (s : Name) : Name :=
  if s = [46] then [37, 50, 69] else if s = [46, 46] then [37, 50, 69, 37, 50, 69] else s.flatMap encChar

/-! ### state -/

inductive Ty where
  | ns | tbl
  deriving DecidableEq, Repr

/-- a directory / location name; `hashed` = prefixed by the random `{:08x}_` of `generate_dir_name` -/
structure Dir where
  hashed : Bool
  s : Name
  deriving DecidableEq, Repr

/-- one row of the `__manifest` table -/
structure Row where
  oid : Name
  ty : Ty
  loc : Dir
  deriving DecidableEq, Repr

structure St where
  rows : List Row
  /-- entries of the root directory, by on-disk name (a multiset: two hash-named directories of one object id look alike) -/
  dirs : List Dir
  deriving Repr

inductive Mode where
  | dir | man | dual
  deriving DecidableEq, Repr

/-- result classes (the harness maps error messages to the same enum) -/
inductive Res where
  | ok | root | noparent | exists_ | notempty | unsupported | notfound | invalid | sqlerr | rmdir | mergefail
  deriving DecidableEq, Repr

def noDir : Dir := ⟨false, []⟩

/-! ### the manifest table (manifest.rs) -/

/-- `manifest_contains_object`: filter `object_id = '{}'` by interpolation — a quote breaks the SQL text.
    (Modelled: any quote = error.  The real parser fails on an ODD number of quotes; with an even number >= 2 the
    filter text is silently cut after the first literal — recorded finding, not modelled, not generated.) -/
def containsObject (st : St) (oid : Name) : Except Res Bool :=
  if quote ∈ oid then .error .sqlerr else .ok (st.rows.any (fun r => r.oid = oid))

/-- `query_manifest_for_table` / `query_manifest_for_namespace`: `object_id = '{}' AND object_type = '..'` -/
def queryTyped (st : St) (oid : Name) (ty : Ty) : Except Res (Option Row) :=
  if quote ∈ oid then .error .sqlerr else .ok (st.rows.find? (fun r => r.oid = oid ∧ r.ty = ty))

/-- `insert_into_manifest`: merge-insert on `object_id` with `WhenMatched::Fail` -/
def insertRow (st : St) (r : Row) : Option St :=
  if st.rows.any (fun x => x.oid = r.oid) then none else some { st with rows := st.rows ++ [r] }

/-- `delete_from_manifest` (`object_id = '{}'`, only reached with a quote-free id) -/
def deleteRows (st : St) (oid : Name) : St := { st with rows := st.rows.filter (fun r => r.oid ≠ oid) }

/-- `validate_namespace_levels_exist`: every prefix `path[..i]`, i = 1..len, must be *some* object -/
def validateLevels (st : St) (pre : List Name) : List Name → Except Res Unit
  | [] => .ok ()
  | n :: rest =>
    match containsObject st (joinD (pre ++ [n])) with
    | .error e => .error e
    | .ok false => .error .noparent
    | .ok true => validateLevels st (pre ++ [n]) rest

/-- the filter of `list_tables` / `list_namespaces` for a non-root parent:
    `starts_with(object_id, '{prefix}$') AND NOT contains(substring(object_id, {prefix.len() + 2}), '$')`;
    `prefix.len()` counts BYTES, SQL `substring` counts characters from 1 -/
def childFilter (pfx : Name) (ty : Ty) (r : Row) : Bool :=
  r.ty = ty && (pfx ++ [dollar]).isPrefixOf r.oid && !(r.oid.drop (byteLen pfx + 1)).contains dollar

/-- manifest.rs `list_tables` / `list_namespaces` (no sorting, no pagination there) -/
def listChildren (st : St) (id : List Name) (ty : Ty) : Except Res (List Name) :=
  if id = [] then .ok ((st.rows.filter (fun r => r.ty = ty && !r.oid.contains dollar)).map (fun r => lastPart r.oid))
  else if quote ∈ joinD id then .error .sqlerr
  else .ok ((st.rows.filter (childFilter (joinD id) ty)).map (fun r => lastPart r.oid))

/-- manifest.rs `create_namespace` -/
def mCreateNs (st : St) (id : List Name) : St × Res :=
  if id = [] then (st, .root) else
  match validateLevels st [] id.dropLast with
  | .error e => (st, e)
  | .ok () =>
    match containsObject st (joinD id) with
    | .error e => (st, e)
    | .ok true => (st, .exists_)
    | .ok false =>
      match insertRow st ⟨joinD id, .ns, noDir⟩ with
      | some st' => (st', .ok)
      | none => (st, .exists_)

/-- manifest.rs `drop_namespace` (existence test is untyped; child test `starts_with(object_id, '{id}$')`) -/
def mDropNs (st : St) (id : List Name) : St × Res :=
  if id = [] then (st, .root) else
  match containsObject st (joinD id) with
  | .error e => (st, e)
  | .ok false => (st, .notfound)
  | .ok true =>
    if st.rows.any (fun r => (joinD id ++ [dollar]).isPrefixOf r.oid) then (st, .notempty)
    else (deleteRows st (joinD id), .ok)

/-- manifest.rs `namespace_exists` -/
def mNsExists (st : St) (id : List Name) : Except Res Bool :=
  if id = [] then .ok true else containsObject st (joinD id)

/-- manifest.rs `describe_namespace` -/
def mDescribeNs (st : St) (id : List Name) : Res :=
  if id = [] then .ok else
  match queryTyped st (joinD id) .ns with
  | .error e => e
  | .ok (some _) => .ok
  | .ok none => .notfound

/-- the directory name chosen by `create_empty_table` -/
def tableDir (dual : Bool) (id : List Name) : Dir :=
  if id.length = 1 ∧ dual then ⟨false, id.getLast?.getD [] ++ dotLance⟩ else ⟨true, tableOid id⟩

/-- on-disk entry created by `object_store.create(base_path.child(dir_name).child(".lance-reserved"))` -/
def encDir (d : Dir) : Dir := ⟨d.hashed, encPart d.s⟩

def addDir (st : St) (d : Dir) : St :=
  if d.hashed = false ∧ d ∈ st.dirs then st else { st with dirs := st.dirs ++ [d] }

/-- manifest.rs `create_empty_table`: typed lookup, then the reserved file, then the merge-insert
    (which can still fail on a namespace row with the same object id, leaving the directory behind; the
    error text of that failure is not one `insert_into_manifest` recognises, so it surfaces as an IO error) -/
def mCreateTable (dual : Bool) (st : St) (id : List Name) : St × Res :=
  if id = [] then (st, .invalid) else
  match queryTyped st (tableOid id) .tbl with
  | .error e => (st, e)
  | .ok (some _) => (st, .exists_)
  | .ok none =>
    let st1 := addDir st (encDir (tableDir dual id))
    match insertRow st1 ⟨tableOid id, .tbl, tableDir dual id⟩ with
    | some st' => (st', .ok)
    | none => (st1, .mergefail)

/-- the location checks of manifest.rs `register_table` -/
def locOk (loc : Name) : Bool :=
  !(hasInfix [58, 47, 47] loc) && !(loc.head? = some 47) && !(hasInfix [46, 46] loc)

/-- manifest.rs `register_table` (LanceNamespace impl) -/
def mRegister (st : St) (id : List Name) (loc : Name) : St × Res :=
  if id = [] then (st, .invalid) else
  if !locOk loc then (st, .invalid) else
  match validateLevels st [] id.dropLast with
  | .error e => (st, e)
  | .ok () =>
    match containsObject st (tableOid id) with
    | .error e => (st, e)
    | .ok true => (st, .exists_)
    | .ok false =>
      match insertRow st ⟨tableOid id, .tbl, ⟨false, loc⟩⟩ with
      | some st' => (st', .ok)
      | none => (st, .exists_)

/-- manifest.rs `deregister_table` -/
def mDeregister (st : St) (id : List Name) : St × Res :=
  if id = [] then (st, .invalid) else
  match queryTyped st (tableOid id) .tbl with
  | .error e => (st, e)
  | .ok none => (st, .notfound)
  | .ok (some _) => (deleteRows st (tableOid id), .ok)

/-- manifest.rs `drop_table`: the manifest row goes first, then `remove_dir_all(base_path.child(location))` -/
def mDropTable (st : St) (id : List Name) : St × Res :=
  if id = [] then (st, .invalid) else
  match queryTyped st (tableOid id) .tbl with
  | .error e => (st, e)
  | .ok none => (st, .notfound)
  | .ok (some r) =>
    let st1 := deleteRows st (tableOid id)
    if encDir r.loc ∈ st1.dirs then ({ st1 with dirs := st1.dirs.erase (encDir r.loc) }, .ok)
    else (st1, .rmdir)

/-- manifest.rs `table_exists` (untyped) -/
def mTableExists (st : St) (id : List Name) : Except Res Bool :=
  if id = [] then .error .invalid else containsObject st (tableOid id)

/-- manifest.rs `describe_table` (an unopenable dataset still answers Ok) -/
def mDescribeTable (st : St) (id : List Name) : Res :=
  if id = [] then .invalid else
  match queryTyped st (joinD id) .tbl with
  | .error e => e
  | .ok (some _) => .ok
  | .ok none => .notfound

/-- manifest.rs `list_manifest_table_locations` -/
def manifestLocations (st : St) : List Dir :=
  (st.rows.filter (fun r => r.ty = .tbl && !r.oid.contains dollar)).map (fun r => r.loc)

/-! ### directory listing (dir.rs) -/

/-- the table name a directory entry stands for: dir.rs `list_directory_tables` keeps entries ending in `.lance` -/
def dirTableName (d : Dir) : Option Dir :=
  if dotLance.reverse.isPrefixOf d.s.reverse then some ⟨d.hashed, d.s.take (d.s.length - 6)⟩ else none

/-- dir.rs `list_directory_tables` -/
def listDirectoryTables (st : St) : List Dir := st.dirs.filterMap dirTableName

/-- dir.rs `apply_pagination`: sort, start after the token, truncate to a non-negative limit -/
def applyPagination (names : List Name) (tok : Option Name) (lim : Option Int) : List Name :=
  let s := sortNames names
  let s := match tok with
    | some t => s.dropWhile (fun n => !ltName t n)
    | none => s
  match lim with
  | some l => if l ≥ 0 then s.take l.toNat else s
  | none => s

/-- does the table directory `<name>.lance` exist (dir.rs `table_exists` / `describe_table` fallback) -/
def dirHas (st : St) (name : Name) : Bool := (⟨false, encPart (name ++ dotLance)⟩ : Dir) ∈ st.dirs

/-! ### the catalog API (dir.rs `impl LanceNamespace for DirectoryNamespace`) -/

/-- a listed name; `hashed` names print their random prefix as `#` -/
abbrev LName := Dir

/-- dir.rs `list_tables` -/
def listTables (m : Mode) (st : St) (id : List Name) (tok : Option Name) (lim : Option Int) : Except Res (List LName) :=
  if id ≠ [] then
    (if m = .dir then .error .unsupported else (listChildren st id .tbl).map (·.map (⟨false, ·⟩)))
  else match m with
    | .man => (listChildren st [] .tbl).map (·.map (⟨false, ·⟩))
    | .dir =>
      -- hash-named directories cannot occur without a manifest
      .ok ((applyPagination ((listDirectoryTables st).map (·.s)) tok lim).map (⟨false, ·⟩))
    | .dual =>
      match listChildren st [] .tbl with
      | .error e => .error e
      | .ok mt =>
        let locs := manifestLocations st
        let extra := st.dirs.filterMap (fun d => if d ∈ locs then none else dirTableName d)
        -- the random prefix sorts by its hex digits: the model keeps hash-named entries apart (they print as `#…`)
        let plain := mt ++ (extra.filter (!·.hashed)).map (·.s)
        .ok ((applyPagination plain tok lim).map (⟨false, ·⟩) ++ (extra.filter (·.hashed)))

/-- dir.rs `list_namespaces` -/
def listNamespaces (m : Mode) (st : St) (id : List Name) : Except Res (List Name) :=
  if m = .dir then (if id = [] then .ok [] else .error .unsupported) else listChildren st id .ns

def list (tables : Bool) (m : Mode) (st : St) (id : List Name) (tok : Option Name) (lim : Option Int) :
    Except Res (List LName) :=
  if tables then listTables m st id tok lim else (listNamespaces m st id).map (·.map (⟨false, ·⟩))

def createNamespace (m : Mode) (st : St) (id : List Name) : St × Res :=
  if m = .dir then (st, if id = [] then .root else .unsupported) else mCreateNs st id

def dropNamespace (m : Mode) (st : St) (id : List Name) : St × Res :=
  if m = .dir then (st, if id = [] then .root else .unsupported) else mDropNs st id

def namespaceExists (m : Mode) (st : St) (id : List Name) : Except Res Bool :=
  if m = .dir then (if id = [] then .ok true else .error .unsupported) else mNsExists st id

def describeNamespace (m : Mode) (st : St) (id : List Name) : Res :=
  if m = .dir then (if id = [] then .ok else .unsupported) else mDescribeNs st id

/-- dir.rs `create_empty_table` (directory mode: no existence check, the reserved file is simply (re)written) -/
def createEmptyTable (m : Mode) (st : St) (id : List Name) : St × Res :=
  match m with
  | .dir =>
    match id with
    | [n] => (addDir st ⟨false, encPart (n ++ dotLance)⟩, .ok)
    | _ => (st, .unsupported)
  | .man => mCreateTable false st id
  | .dual => mCreateTable true st id

def registerTable (m : Mode) (st : St) (id : List Name) (loc : Name) : St × Res :=
  if m = .dir then (st, .unsupported) else mRegister st id loc

def deregisterTable (m : Mode) (st : St) (id : List Name) : St × Res :=
  if m = .dir then (st, .unsupported) else mDeregister st id

/-- dir.rs `drop_table` -/
def dropTable (m : Mode) (st : St) (id : List Name) : St × Res :=
  match m with
  | .dir =>
    match id with
    | [n] =>
      let d : Dir := ⟨false, encPart (n ++ dotLance)⟩
      if d ∈ st.dirs then ({ st with dirs := st.dirs.erase d }, .ok) else (st, .rmdir)
    | _ => (st, .unsupported)
  | _ => mDropTable st id

/-- the directory check shared by dir.rs `table_exists` and `describe_table` -/
def dirCheck (st : St) (id : List Name) : Except Res Bool :=
  match id with
  | [n] => .ok (dirHas st n)
  | _ => .error .unsupported

/-- dir.rs `table_exists`: any manifest error falls through to the directory check in dual mode -/
def tableExists (m : Mode) (st : St) (id : List Name) : Except Res Bool :=
  match m with
  | .dir => dirCheck st id
  | .man => mTableExists st id
  | .dual =>
    match mTableExists st id with
    | .ok true => .ok true
    | _ => dirCheck st id

/-- dir.rs `describe_table`: falls through only for single-level ids -/
def describeTable (m : Mode) (st : St) (id : List Name) : Res :=
  let viaDir : Res := match dirCheck st id with
    | .ok true => .ok
    | .ok false => .notfound
    | .error e => e
  match m with
  | .dir => viaDir
  | .man => mDescribeTable st id
  | .dual =>
    match mDescribeTable st id with
    | .ok => .ok
    | e => if id.length = 1 then viaDir else e

/-! ### client-side paging and the recursive listing (what the harness does through the public API) -/

/-- iterate pages: the next request starts after the last name of the previous page; stop on an empty or short page -/
def pagesLoop (fetch : Option Name → Except Res (List LName)) (lim : Nat) :
    Nat → Option Name → List (List LName) → Except Res (List (List LName) × Bool)
  | 0, _, acc => .ok (acc, true)
  | fuel + 1, tok, acc =>
    match fetch tok with
    | .error e => .error e
    | .ok page =>
      if page.isEmpty || page.length < lim then .ok (acc ++ [page], false)
      else pagesLoop fetch lim fuel (page.getLast?.map (·.s)) (acc ++ [page])

def maxPages : Nat := 6

def pages (tables : Bool) (m : Mode) (st : St) (id : List Name) (lim : Nat) : Except Res (List (List LName) × Bool) :=
  pagesLoop (fun tok => list tables m st id tok (some (Int.ofNat lim))) lim maxPages none []

/-- pages of a plain list under `apply_pagination` (the object of `paging_exact`) -/
def pagesOf (names : List Name) (lim : Nat) : Nat → Option Name → List (List Name)
  | 0, _ => []
  | fuel + 1, tok =>
    let page := applyPagination names tok (some (Int.ofNat lim))
    if page.isEmpty || page.length < lim then [page]
    else page :: pagesOf names lim fuel page.getLast?

/-- operations of the line protocol -/
inductive Op where
  | cns (id : List Name) | dns (id : List Name) | ens (id : List Name) | desns (id : List Name)
  | lns (id : List Name) (tok : Option Name) (lim : Option Int)
  | ct (id : List Name) | reg (id : List Name) (loc : Name) | dereg (id : List Name) | dt (id : List Name)
  | et (id : List Name) | dest (id : List Name)
  | lt (id : List Name) (tok : Option Name) (lim : Option Int)
  | page (tables : Bool) (id : List Name) (lim : Nat)
  deriving Repr

inductive Out where
  | res (r : Res)
  | bool (b : Bool)
  | names (l : List LName)
  | pages (l : List (List LName)) (more : Bool)
  deriving Repr, DecidableEq

def outOfExists : Except Res Bool → Out
  | .ok b => .bool b
  | .error e => .res e

def outOfList : Except Res (List LName) → Out
  | .ok l => .names l
  | .error e => .res e

/-- one API call -/
def step (m : Mode) (st : St) : Op → St × Out
  | .cns id => let r := createNamespace m st id; (r.1, .res r.2)
  | .dns id => let r := dropNamespace m st id; (r.1, .res r.2)
  | .ens id => (st, outOfExists (namespaceExists m st id))
  | .desns id => (st, .res (describeNamespace m st id))
  | .lns id _ _ => (st, outOfList ((listNamespaces m st id).map (·.map (⟨false, ·⟩))))
  | .ct id => let r := createEmptyTable m st id; (r.1, .res r.2)
  | .reg id loc => let r := registerTable m st id loc; (r.1, .res r.2)
  | .dereg id => let r := deregisterTable m st id; (r.1, .res r.2)
  | .dt id => let r := dropTable m st id; (r.1, .res r.2)
  | .et id => (st, outOfExists (tableExists m st id))
  | .dest id => (st, .res (describeTable m st id))
  | .lt id tok lim => (st, outOfList (listTables m st id tok lim))
  | .page t id lim =>
    (st, match pages t m st id lim with
      | .ok (l, more) => .pages l more
      | .error e => .res e)

def run (m : Mode) (st : St) : List Op → St × List Out
  | [] => (st, [])
  | op :: rest =>
    let r := step m st op
    let r' := run m r.1 rest
    (r'.1, r.2 :: r'.2)

/-- a fresh root directory (the harness puts two registrable directories `ext1`, `ext2` there) -/
def init : St := ⟨[], [⟨false, [101, 120, 116, 49]⟩, ⟨false, [101, 120, 116, 50]⟩]⟩

end LanceModel.C36
