import LanceModel.Util
import LanceModel.C36.Model
/-
C36 driver: one catalog per case (`mode D|M|B o0|o1` opens it), one output line per op line.
Ids: `-` = empty id, components joined by `,`, `~` = the empty name.
-/
namespace LanceModel.C36.Driver
open LanceModel.Util LanceModel.C36

abbrev DSt := Option (Mode × St)

def decName (t : String) : Name := if t = "~" then [] else t.toList.map Char.toNat

def decId (t : String) : List Name := if t = "-" then [] else (t.splitOn ",").map decName

def strOf (n : Name) : String := String.ofList (n.map Char.ofNat)

def showName (n : Name) : String := if n.isEmpty then "~" else strOf n

/-- a listed name as text; the random prefix of a hash-named directory prints as `#` -/
def lname (d : LName) : Name := if d.hashed then 35 :: 95 :: d.s else d.s

def showList (l : List Name) : String := "[" ++ ",".intercalate (l.map showName) ++ "]"

def showRes : Res → String
  | .ok => "ok" | .root => "root" | .noparent => "noparent" | .exists_ => "exists" | .notempty => "notempty"
  | .unsupported => "unsupported" | .notfound => "notfound" | .invalid => "invalid" | .sqlerr => "sqlerr"
  | .rmdir => "rmdir" | .mergefail => "mergefail"

def showOut : Out → String
  | .res r => showRes r
  | .bool b => showBool b
  | .names l => showList (l.map lname) ++ " tok=-"
  | .pages l more => String.join (l.map (fun p => showList (p.map lname))) ++ (if more then "+" else "")

/-- the recursive listing through `list_namespaces` / `list_tables` (sorted; depth-capped like the harness) -/
def dump (m : Mode) (st : St) : Nat → List Name → String
  | 0, _ => "^"
  | fuel + 1, path =>
    let nss := match listNamespaces m st path with
      | .ok v =>
        "[" ++ ",".intercalate ((sortNames v).map (fun c => showName c ++ "{" ++ dump m st fuel (path ++ [c]) ++ "}")) ++ "]"
      | .error e => "!" ++ showRes e
    let ts := match listTables m st path none none with
      | .ok v => showList (sortNames (v.map lname))
      | .error e => "!" ++ showRes e
    "n" ++ nss ++ "t" ++ ts

def parseTok (t : String) : Option Name := if t = "-" then none else some (decName t)

def parseLim (t : String) : Option Int := if t = "-" then none else t.toInt?

def bad : String := "bad-op"

def parseOp : List String → Option Op
  | ["cns", i] => some (.cns (decId i))
  | ["dns", i] => some (.dns (decId i))
  | ["ens", i] => some (.ens (decId i))
  | ["desns", i] => some (.desns (decId i))
  | ["lns", i, t, l] => some (.lns (decId i) (parseTok t) (parseLim l))
  | ["ct", i] => some (.ct (decId i))
  | ["reg", i, loc] => some (.reg (decId i) (decName loc))
  | ["dereg", i] => some (.dereg (decId i))
  | ["dt", i] => some (.dt (decId i))
  | ["et", i] => some (.et (decId i))
  | ["dest", i] => some (.dest (decId i))
  | ["lt", i, t, l] => some (.lt (decId i) (parseTok t) (parseLim l))
  | ["page", k, i, l] =>
    some (.page (k == "t") (decId i) (match parseLim l with
      | some (.ofNat n) => max n 1
      | _ => 1))
  | _ => none

def isMutating : Op → Bool
  | .cns _ | .dns _ | .ct _ | .reg _ _ | .dereg _ | .dt _ => true
  | _ => false

def step (s : DSt) (line : String) : DSt × String :=
  match s, splitTokens line with
  | none, ["mode", m, _] =>
    let mode := if m.startsWith "D" then Mode.dir else if m.startsWith "B" then Mode.dual else Mode.man
    (some (mode, init), "ok")
  | none, _ => (s, bad)
  | some (m, st), toks =>
    match parseOp toks with
    | none => (s, bad)
    | some op =>
      let r := LanceModel.C36.step m st op
      let o := showOut r.2
      (some (m, r.1), if isMutating op then o ++ " | " ++ dump m r.1 6 [] else o)

end LanceModel.C36.Driver
