import LanceModel.C11.Flat
/-
Histories that use one schema and write no NULL are stored faithfully by every storage version, legacy included.
-/
namespace LanceModel.C11
open LanceModel.Table

theorem indexOf?_getElem (l : List Char) (hd : distinct l = true) (j : Nat) (hj : j < l.length) :
    indexOf? l[j] l = some j := by
  induction l generalizing j with
  | nil => simp at hj
  | cons d ds ih =>
    simp only [distinct, Bool.and_eq_true, Bool.not_eq_true'] at hd
    cases j with
    | zero => simp [indexOf?]
    | succ j' =>
      have hj' : j' < ds.length := by simpa using hj
      have hne : ds[j'] ≠ d := by
        intro h
        have : ds.contains d = true := by
          rw [← h]; simp [List.contains_iff_mem, List.getElem_mem]
        rw [hd.1] at this; cases this
      simp only [List.getElem_cons_succ, indexOf?, hne, if_false, ih hd.2 j' hj', Option.map_some]

theorem srcIndex_self (sp : Spec) (hd : distinct sp.extras = true) (i : Nat) (hi : i < sp.width) :
    srcIndex sp sp i = some i := by
  unfold srcIndex
  by_cases h : i < sp.ints
  · simp [h]
  · have hj : i - sp.ints < sp.extras.length := by unfold Spec.width at hi; omega
    simp only [h, if_false, List.getElem?_eq_getElem hj, indexOf?_getElem sp.extras hd _ hj, Option.map_some]
    congr 1; omega

theorem mapRow_self (sp : Spec) (hd : distinct sp.extras = true) (r : Row) (hr : r.length = sp.width) :
    mapRow sp sp r = r := by
  unfold mapRow
  apply List.ext_getElem
  · simp [hr]
  · intro i h1 h2
    have hi : i < sp.width := by simpa using h1
    simp only [List.getElem_map, List.getElem_range, srcIndex_self sp hd i hi, cellAt, List.getElem?_eq_getElem h2]

/-- what a "plain" write is: the common schema, rows of its width, no NULL -/
def PlainOp (sp : Spec) (op : WriteOp) : Prop :=
  op.spec = sp ∧ ∀ r ∈ op.batches.flatten, r.length = sp.width ∧ ∀ c ∈ r, c ≠ none

theorem storeCells_no_null (spec : Spec) (i : Nat) (r : Row) (h : ∀ c ∈ r, c ≠ none) :
    storeCells spec i r = r := by
  induction r generalizing i with
  | nil => rfl
  | cons c cs ih =>
    have hc : c ≠ none := h c (by simp)
    cases c with
    | none => exact absurd rfl hc
    | some v => simp [storeCells, ih (i + 1) (fun c hc => h c (by simp [hc]))]

theorem storeRow_no_null (ver : Ver) (spec : Spec) (r : Row) (h : ∀ c ∈ r, c ≠ none) :
    storeRow ver spec r = r := by
  unfold storeRow
  split
  · exact storeCells_no_null spec 0 r h
  · rfl

theorem flat_step_plain (sp : Spec) (hd : distinct sp.extras = true) (s : Option Flat) (op : WriteOp)
    (hs : ∀ t, s = some t → t.spec = sp) (hop : PlainOp sp op) :
    Flat.step storeRow s op = Flat.step idealStore s op ∧
    ∀ t, (Flat.step idealStore s op).1 = some t → t.spec = sp := by
  obtain ⟨hspec, hrows⟩ := hop
  have hmap : ∀ v : Ver, op.batches.flatten.map (storeRow v op.spec) = op.batches.flatten.map (idealStore v op.spec) := by
    intro v
    apply List.map_congr_left
    intro r hr
    exact storeRow_no_null v op.spec r (hrows r hr).2
  cases s with
  | none =>
    refine ⟨?_, ?_⟩
    · simp only [Flat.step, hmap]
    · intro t ht
      simp only [Flat.step] at ht
      split at ht
      · injection ht with ht; rw [← ht]; exact hspec
      · cases ht
  | some t =>
    have ht := hs t rfl
    have hmapA : op.batches.flatten.map (fun r => storeRow t.ver t.spec (mapRow t.spec op.spec r))
        = op.batches.flatten.map (fun r => idealStore t.ver t.spec (mapRow t.spec op.spec r)) := by
      apply List.map_congr_left
      intro r hr
      rw [ht, hspec, mapRow_self sp hd r (hrows r hr).1]
      exact storeRow_no_null t.ver sp r (hrows r hr).2
    cases hm : op.mode with
    | create => simp [Flat.step, hm, ht]
    | append =>
      refine ⟨?_, ?_⟩
      · simp only [Flat.step, hm, hmapA]
      · intro t' h'
        simp only [Flat.step, hm] at h'
        split at h'
        · injection h' with h'; rw [← h']; exact ht
        · split at h'
          · injection h' with h'; rw [← h']; exact ht
          · split at h'
            · injection h' with h'; rw [← h']; exact ht
            · injection h' with h'; rw [← h']; exact ht
    | overwrite =>
      refine ⟨?_, ?_⟩
      · simp only [Flat.step, hm, hmap]
      · intro t' h'
        simp only [Flat.step, hm] at h'
        split at h'
        · injection h' with h'; rw [← h']; exact ht
        · split at h'
          · injection h' with h'; rw [← h']; exact ht
          · injection h' with h'; rw [← h']; exact hspec

theorem flat_run_plain (sp : Spec) (hd : distinct sp.extras = true) (s : Option Flat) (ops : List WriteOp)
    (hs : ∀ t, s = some t → t.spec = sp) (hops : ∀ op ∈ ops, PlainOp sp op) :
    Flat.run storeRow s ops = Flat.run idealStore s ops := by
  induction ops generalizing s with
  | nil => rfl
  | cons op ops ih =>
    obtain ⟨h1, h2⟩ := flat_step_plain sp hd s op hs (hops op (by simp))
    simp only [Flat.run]
    rw [h1]
    exact ih _ h2 (fun o ho => hops o (by simp [ho]))

end LanceModel.C11
