import LanceModel.C11.RefineLemmas
import LanceModel.C11.IdLemmas
import LanceModel.C11.NoNullLemmas
/-
C11 — write / append / overwrite / read returns exactly the rows written.

properties.jsonl: "After any sequence of create, append and overwrite calls with any file size, group size, storage
version and schema accepted by the writer, a full scan returns exactly the model table (the concatenation of appended
batches since the last overwrite) with equal values, nulls and types, and an ordered scan returns them in insertion
order."

Only property theorems and non-vacuity examples live here.  The model is `Model.lean` (fragment level: stream
splitting, fragment ids, scan = concatenation of fragments) and `Flat.lean` (the logical table).
-/
namespace LanceModel.C11
open LanceModel.Table

/-! ## 1. stream splitting (`do_write_fragments`) -/

/-- `split_concat`: for all batch lists and limits the writer accepts, concatenating the produced files in order
    yields the input rows; no file is empty; a 2.x file holds at most `max_rows_per_file` rows (for limits that fit
    the writer's `u32` row counter); a legacy file overshoots the limit by less than one row group. -/
theorem split_concat {α : Type} (ver : Ver) (p : Params) (batches files : List (List α))
    (h : splitFiles ver p batches = some files) :
    files.flatten = batches.flatten ∧
    (∀ f ∈ files, f ≠ []) ∧
    (ver ≠ .legacy → p.maxRowsPerFile < 4294967296 → ∀ f ∈ files, f.length ≤ p.maxRowsPerFile) ∧
    (ver = .legacy → ∀ f ∈ files, f.length < p.maxRowsPerFile + p.group) := by
  refine ⟨splitFiles_flatten ver p batches files h, splitFiles_ne_nil ver p batches files h, ?_, ?_⟩
  · intro hv h32; exact splitFiles_le ver p batches files hv h32 h
  · intro hv; subst hv; exact splitFiles_legacy_lt p batches files h

/-- the writer rejects exactly the zero limits (fix f5cf784; before it, 2.x panicked and legacy wrote nothing) -/
theorem split_rejects_iff {α : Type} (ver : Ver) (p : Params) (batches : List (List α)) :
    splitFiles ver p batches = none ↔ (p.maxRowsPerFile = 0 ∨ (ver = .legacy ∧ p.group = 0)) := by
  rw [splitFiles_eq_none_iff]; unfold limitsOk
  constructor
  · intro h
    by_cases h1 : p.maxRowsPerFile = 0
    · exact Or.inl h1
    · right
      by_cases h2 : ver = .legacy ∧ p.group = 0
      · exact h2
      · exact absurd ⟨h1, h2⟩ h
  · rintro (h | h) ⟨h1, h2⟩
    · exact h1 h
    · exact h2 h

example : splitFiles .v20 ⟨5, 3, false⟩ [[1, 2, 3], [4, 5, 6, 7], [8, 9, 10, 11, 12, 13]]
    = some [[1, 2, 3, 4, 5], [6, 7, 8, 9, 10], [11, 12, 13]] := by
  simp [splitFiles, breakStream, breakOne, fileLoop, curRows, Params.lim32]

/-- DESIGN.md's `split_concat` at full strength also asks "every file has ≤ limit rows" for every storage version. -/
def split_limit_full : Prop :=
  ∀ (ver : Ver) (p : Params) (batches files : List (List Nat)),
    p.maxRowsPerFile < 4294967296 → splitFiles ver p batches = some files →
    ∀ f ∈ files, f.length ≤ p.maxRowsPerFile

/-- legacy files are closed only at row-group boundaries: `max_rows_per_file = 5`, `max_rows_per_group = 3` gives a
    file of 6 rows (observed on the real writer: fragments 6, 6, 1 for 13 rows) -/
theorem split_limit_counterexample : ¬ split_limit_full := by
  intro h
  have h1 : splitFiles .legacy ⟨5, 3, false⟩ [[1, 2, 3, 4, 5, 6]] = some [[1, 2, 3, 4, 5, 6]] := by
    simp [splitFiles, chunksOf, fileLoop, curRows, Params.lim32, Params.group]
  have := h .legacy ⟨5, 3, false⟩ [[1, 2, 3, 4, 5, 6]] _ (by decide) h1 [1, 2, 3, 4, 5, 6] (by simp)
  simp at this

/-- `split_limit_partial`: the full claim under the hypothesis that excludes exactly the defective region — the
    (effective) group size divides the file limit, or the files are not legacy -/
theorem split_limit_partial {α : Type} (ver : Ver) (p : Params) (batches files : List (List α))
    (h32 : p.maxRowsPerFile < 4294967296) (hok : ver ≠ .legacy ∨ p.group ∣ p.maxRowsPerFile)
    (h : splitFiles ver p batches = some files) : ∀ f ∈ files, f.length ≤ p.maxRowsPerFile := by
  by_cases hv : ver = .legacy
  · subst hv
    rcases hok with hne | hdvd
    · exact absurd rfl hne
    · exact splitFiles_legacy_le p batches files h32 hdvd h
  · exact splitFiles_le ver p batches files hv h32 h

example : (⟨6, 3, false⟩ : Params).group ∣ (⟨6, 3, false⟩ : Params).maxRowsPerFile := by decide

/-! ## 2. tables: scan after a write -/

/-- a failed write leaves the table as it was -/
theorem write_err_unchanged (s s' : Option Table) (op : WriteOp) (k : String)
    (h : applyWrite s op = (s', .err k)) : s' = s := by
  cases s with
  | none =>
    simp only [applyWrite] at h
    split at h <;> simp_all
  | some t =>
    simp only [applyWrite] at h
    split at h
    · simp_all
    · split at h
      · simp_all
      · split at h
        · simp_all
        · split at h <;> simp_all
    · split at h
      · simp_all
      · split at h <;> simp_all

/-- `count_rows` is the length of the scan -/
theorem count_eq_length (t : Table) : t.count = t.rows.length := count_eq_length' t

theorem flat_of_applyWrite (s : Option Table) (op : WriteOp) (s' : Option Table) (r : Res)
    (h : applyWrite s op = (s', r)) : Flat.step storeRow (absOpt s) op = (absOpt s', r) := by
  have hr := refines_step s op
  rw [h] at hr
  exact Prod.ext hr.1.symm hr.2.symm

theorem flat_append_ok (store : Ver → Spec → Row → Row) (t : Flat) (op : WriteOp) (s' : Option Flat)
    (hm : op.mode = .append) (h : Flat.step store (some t) op = (s', .ok)) :
    s' = some { t with rows := t.rows ++ op.batches.flatten.map (fun r => store t.ver t.spec (mapRow t.spec op.spec r)),
                       version := t.version + 1 } := by
  simp only [Flat.step, hm] at h
  by_cases c1 : subSchema t.spec op.spec = false
  · rw [if_pos c1] at h; cases (Prod.mk.inj h).2
  · by_cases c2 : limitsOk t.ver op.p
    · by_cases c3 : appendRejected t.ver t.spec op op.batches.flatten.isEmpty = true
      · rw [if_neg c1, if_neg (not_not_intro c2), if_pos c3] at h; cases (Prod.mk.inj h).2
      · rw [if_neg c1, if_neg (not_not_intro c2), if_neg c3] at h; exact (Prod.mk.inj h).1.symm
    · rw [if_neg c1, if_pos c2] at h; cases (Prod.mk.inj h).2

theorem flat_overwrite_ok (store : Ver → Spec → Row → Row) (t : Flat) (op : WriteOp) (s' : Option Flat)
    (hm : op.mode = .overwrite) (h : Flat.step store (some t) op = (s', .ok)) :
    s' = some { ver := op.ver.getD t.ver, spec := op.spec,
                rows := op.batches.flatten.map (store (op.ver.getD t.ver) op.spec), version := t.version + 1 } := by
  simp only [Flat.step, hm] at h
  by_cases c2 : limitsOk (op.ver.getD t.ver) op.p
  · by_cases c3 : overwriteRejected t.ver op op.batches.flatten.isEmpty = true
    · rw [if_neg (not_not_intro c2), if_pos c3] at h; cases (Prod.mk.inj h).2
    · rw [if_neg (not_not_intro c2), if_neg c3] at h; exact (Prod.mk.inj h).1.symm
  · rw [if_pos c2] at h; cases (Prod.mk.inj h).2

theorem flat_create_ok (store : Ver → Spec → Row → Row) (op : WriteOp) (s' : Option Flat)
    (h : Flat.step store none op = (s', .ok)) :
    s' = some { ver := op.ver.getD .v20, spec := op.spec,
                rows := op.batches.flatten.map (store (op.ver.getD .v20) op.spec), version := 1 } := by
  simp only [Flat.step] at h
  by_cases c2 : limitsOk (op.ver.getD .v20) op.p
  · rw [if_pos c2] at h; exact (Prod.mk.inj h).1.symm
  · rw [if_neg c2] at h; cases (Prod.mk.inj h).2

/-- `rows (append s b) = rows s ++ b` (each row laid out in the table's columns and stored with the table's version) -/
theorem append_scan (t t' : Table) (op : WriteOp) (hm : op.mode = .append)
    (h : applyWrite (some t) op = (some t', .ok)) :
    t'.rows = t.rows ++ op.batches.flatten.map (fun r => storeRow t.ver t.spec (mapRow t.spec op.spec r)) ∧
    t'.ver = t.ver ∧ t'.spec = t.spec ∧ t'.version = t.version + 1 := by
  have h1 := flat_append_ok storeRow t.abs op _ hm (flat_of_applyWrite _ _ _ _ h)
  simp only [absOpt, Table.abs, Option.some.injEq, Flat.mk.injEq] at h1
  exact ⟨h1.2.2.1, h1.1, h1.2.1, h1.2.2.2⟩

/-- `rows (overwrite s b) = b` -/
theorem overwrite_scan (t t' : Table) (op : WriteOp) (hm : op.mode = .overwrite)
    (h : applyWrite (some t) op = (some t', .ok)) :
    t'.rows = op.batches.flatten.map (storeRow t'.ver op.spec) ∧
    t'.ver = op.ver.getD t.ver ∧ t'.spec = op.spec ∧ t'.version = t.version + 1 := by
  have h1 := flat_overwrite_ok storeRow t.abs op _ hm (flat_of_applyWrite _ _ _ _ h)
  simp only [absOpt, Table.abs, Option.some.injEq, Flat.mk.injEq] at h1
  rw [h1.1]
  exact ⟨h1.2.2.1, rfl, h1.2.1, h1.2.2.2⟩

/-- any write on a missing dataset creates it: `rows (create b) = b` -/
theorem create_scan (t' : Table) (op : WriteOp) (h : applyWrite none op = (some t', .ok)) :
    t'.rows = op.batches.flatten.map (storeRow t'.ver op.spec) ∧
    t'.ver = op.ver.getD .v20 ∧ t'.spec = op.spec ∧ t'.version = 1 := by
  have h1 := flat_create_ok storeRow op _ (flat_of_applyWrite _ _ _ _ h)
  simp only [absOpt, Table.abs, Option.some.injEq, Flat.mk.injEq] at h1
  rw [h1.1]
  exact ⟨h1.2.2.1, rfl, h1.2.1, h1.2.2.2⟩

/-- rows are stored exactly as written unless the storage version is legacy -/
theorem store_faithful (ver : Ver) (spec : Spec) (r : Row) (h : ver ≠ .legacy) : storeRow ver spec r = r := by
  simp [storeRow, h]

/-- … and in every version, legacy included, when the row holds no NULL -/
theorem store_faithful_of_no_null (ver : Ver) (spec : Spec) (r : Row) (h : ∀ c ∈ r, c ≠ none) :
    storeRow ver spec r = r := by
  exact storeRow_no_null ver spec r h

/-! ## 3. histories -/

/-- through every history the fragment ids of the table are strictly increasing in manifest order (hence unique)
    and bounded by `max_fragment_id` — an overwrite restarts at 0 but keeps the high-water mark for later appends -/
theorem frag_ids_increasing (ops : List WriteOp) (t : Table) (h : run none ops = some t) :
    (t.frags.map (·.id)).Pairwise (· < ·) ∧ ∀ i ∈ t.frags.map (·.id), ∃ hw, t.hw = some hw ∧ i ≤ hw :=
  idsOk_run none ops (by simp) t h


/-- for every history of create / append / overwrite, the fragment-level model (files, fragment ids, scan in fragment
    order) holds exactly the flat table obtained by replaying the history on row lists -/
theorem history_scan (ops : List WriteOp) :
    absOpt (run none ops) = Flat.run storeRow none ops := refines_run none ops

/-- every step answers like the flat model (ok / error kind) -/
theorem history_verdicts (s : Option Table) (op : WriteOp) :
    (applyWrite s op).2 = (Flat.step storeRow (absOpt s) op).2 := (refines_step s op).2

/-- The property at full strength: after any history the table is the replay of the history with every row stored
    exactly as written (`idealStore`): the concatenation of the appended batches since the last overwrite, equal
    values and NULLs, in insertion order. -/
def C11_full : Prop :=
  ∀ ops : List WriteOp, absOpt (run none ops) = Flat.run idealStore none ops

theorem storeRow_eq_ideal (ver : Ver) (spec : Spec) (h : ver ≠ .legacy) : storeRow ver spec = idealStore ver spec := by
  funext r; simp [storeRow, idealStore, h]

theorem flat_step_ideal (s : Option Flat) (op : WriteOp)
    (hs : ∀ t, s = some t → t.ver ≠ .legacy) (hop : op.ver ≠ some .legacy) :
    Flat.step storeRow s op = Flat.step idealStore s op ∧
    ∀ t, (Flat.step idealStore s op).1 = some t → t.ver ≠ .legacy := by
  have hget : ∀ d : Ver, d ≠ .legacy → op.ver.getD d ≠ .legacy := by
    intro d hd
    cases hv : op.ver with
    | none => simpa using hd
    | some v => intro h; apply hop; rw [hv]; simp at h; rw [h]
  cases s with
  | none =>
    have hv := hget .v20 (by decide)
    refine ⟨?_, ?_⟩
    · simp only [Flat.step]
      rw [storeRow_eq_ideal _ _ hv]
    · intro t ht
      simp only [Flat.step] at ht
      split at ht
      · injection ht with ht; rw [← ht]; exact hv
      · cases ht
  | some t =>
    have ht := hs t rfl
    have hv := hget t.ver ht
    cases hm : op.mode with
    | create => simp [Flat.step, hm, ht]
    | append =>
      refine ⟨?_, ?_⟩
      · simp only [Flat.step, hm, storeRow, ht, if_false, idealStore]
      · intro t' h'
        simp only [Flat.step, hm] at h'
        split at h'
        · injection h' with h'; rw [← h']; exact ht
        · split at h'
          · injection h' with h'; rw [← h']; exact ht
          · split at h'
            · injection h' with h'; rw [← h']; exact ht
            · injection h' with h'; rw [← h']; exact ht
    | overwrite =>
      refine ⟨?_, ?_⟩
      · simp only [Flat.step, hm]
        rw [storeRow_eq_ideal _ _ hv]
      · intro t' h'
        simp only [Flat.step, hm] at h'
        split at h'
        · injection h' with h'; rw [← h']; exact ht
        · split at h'
          · injection h' with h'; rw [← h']; exact ht
          · injection h' with h'; rw [← h']; exact hv

theorem flat_run_ideal (s : Option Flat) (ops : List WriteOp)
    (hs : ∀ t, s = some t → t.ver ≠ .legacy) (hops : ∀ op ∈ ops, op.ver ≠ some .legacy) :
    Flat.run storeRow s ops = Flat.run idealStore s ops := by
  induction ops generalizing s with
  | nil => rfl
  | cons op ops ih =>
    obtain ⟨h1, h2⟩ := flat_step_ideal s op hs (hops op (by simp))
    simp only [Flat.run]
    rw [h1]
    exact ih _ h2 (fun o ho => hops o (by simp [ho]))

/-- `C11_partial`: the full conclusion for every history that never asks for the legacy (0.1) storage version
    (2.0 / 2.1 / 2.2 / default, any limits, any schemas, sub-schema appends, rejected writes included) -/
theorem C11_partial (ops : List WriteOp) (h : ∀ op ∈ ops, op.ver ≠ some .legacy) :
    absOpt (run none ops) = Flat.run idealStore none ops := by
  rw [history_scan]
  exact flat_run_ideal none ops (by simp) h

/-- `C11_partial_plain`: legacy included — the full conclusion for every history, with any storage versions, whose
    writes all use one schema `sp` (distinct extra columns) and carry rows of its width without NULL.  Together with
    `C11_partial` this leaves exactly the histories that store a NULL (written, or filled in for a missing column)
    while a legacy table is — or may be — in place. -/
theorem C11_partial_plain (sp : Spec) (hd : distinct sp.extras = true) (ops : List WriteOp)
    (h : ∀ op ∈ ops, PlainOp sp op) :
    absOpt (run none ops) = Flat.run idealStore none ops := by
  rw [history_scan]
  exact flat_run_plain sp hd none ops (by simp) h

example : PlainOp ⟨1, ['u']⟩
    { mode := .create, p := ⟨5, 3, false⟩, ver := some .legacy, spec := ⟨1, ['u']⟩, batches := [[[some 1, some 2]]] } := by
  refine ⟨rfl, ?_⟩
  decide

/-- the legacy format reads a NULL of a fixed-width column back as 0 (known finding `legacy_nulls_lost`; reproduced
    on the real writer: `create v=legacy k=1 n` scans `0`) -/
theorem C11_counterexample : ¬ C11_full := by
  intro h
  have := h [{ mode := .create, p := ⟨5, 3, false⟩, ver := some .legacy, spec := ⟨1, []⟩, batches := [[[none]]] }]
  rw [history_scan] at this
  revert this
  decide

def exampleOp : WriteOp :=
  { mode := .create, p := ⟨5, 3, false⟩, ver := some .v21, spec := ⟨1, []⟩, batches := [[[none], [some 3]]] }

example : ∀ op ∈ [exampleOp], op.ver ≠ some .legacy := by decide

example : Flat.run idealStore none
    [{ mode := .create, p := ⟨2, 3, false⟩, ver := none, spec := ⟨1, []⟩, batches := [[[some 1], [none]], [[some 3]]] },
     { mode := .append, p := ⟨2, 3, false⟩, ver := none, spec := ⟨1, []⟩, batches := [[[some 4]]] },
     { mode := .create, p := ⟨2, 3, false⟩, ver := none, spec := ⟨1, []⟩, batches := [] },
     { mode := .overwrite, p := ⟨0, 3, false⟩, ver := none, spec := ⟨1, []⟩, batches := [] }]
    = some { ver := .v20, spec := ⟨1, []⟩, rows := [[some 1], [none], [some 3], [some 4]], version := 2 } := by
  decide

end LanceModel.C11
