import LanceModel.C11.TableLemmas
/-
The fragment-level model (`applyWrite`, files and fragment ids) refines the flat table model (`Flat.step storeRow`).
-/
namespace LanceModel.C11
open LanceModel.Table

theorem limitsOk_of_some {α : Type} (ver : Ver) (p : Params) (bs files : List (List α))
    (h : splitFiles ver p bs = some files) : limitsOk ver p := by
  by_cases hl : limitsOk ver p
  · exact hl
  · rw [(splitFiles_eq_none_iff ver p bs).mpr hl] at h; cases h

theorem rows_of_files (start : Nat) (files : List (List Row)) (pre : List Frag) :
    ((pre ++ assignIds start files).map (·.rows)).flatten = (pre.map (·.rows)).flatten ++ files.flatten := by
  rw [List.map_append, List.flatten_append, assignIds_rows]

theorem isEmpty_files {α : Type} (ver : Ver) (p : Params) (bs files : List (List α))
    (h : splitFiles ver p bs = some files) : files.isEmpty = bs.flatten.isEmpty := by
  have hn := splitFiles_nil_iff ver p bs files h
  cases files with
  | nil => simp [hn.mp rfl]
  | cons f fs =>
    have : bs.flatten ≠ [] := fun hb => by cases hn.mpr hb
    cases hb : bs.flatten with
    | nil => exact absurd hb this
    | cons _ _ => rfl

theorem isEmpty_map {α β : Type} (f : α → β) (l : List α) : (l.map f).isEmpty = l.isEmpty := by
  cases l <;> rfl

theorem refines_none (op : WriteOp) :
    absOpt (applyWrite none op).1 = (Flat.step storeRow none op).1 ∧
    (applyWrite none op).2 = (Flat.step storeRow none op).2 := by
  simp only [applyWrite, Flat.step]
  cases hsp : splitFiles (op.ver.getD .v20) op.p
      (op.batches.map (List.map (storeRow (op.ver.getD .v20) op.spec))) with
  | none =>
    have := (splitFiles_eq_none_iff _ _ _).mp hsp
    simp [this, absOpt]
  | some files =>
    have hl := limitsOk_of_some _ _ _ _ hsp
    have hf := splitFiles_flatten _ _ _ _ hsp
    rw [flatten_map_map] at hf
    simp only [hl, if_true, absOpt, Table.abs, Table.rows, assignIds_rows, hf, and_self]

theorem refines_some (t : Table) (op : WriteOp) :
    absOpt (applyWrite (some t) op).1 = (Flat.step storeRow (some t.abs) op).1 ∧
    (applyWrite (some t) op).2 = (Flat.step storeRow (some t.abs) op).2 := by
  cases hm : op.mode with
  | create => simp [applyWrite, Flat.step, hm, absOpt]
  | append =>
    simp only [applyWrite, Flat.step, hm, Table.abs]
    by_cases hsub : subSchema t.spec op.spec = false
    · simp [hsub, absOpt, Table.abs]
    · simp only [hsub, if_false]
      cases hsp : splitFiles t.ver op.p
          (op.batches.map (List.map fun r => storeRow t.ver t.spec (mapRow t.spec op.spec r))) with
      | none =>
        have := (splitFiles_eq_none_iff _ _ _).mp hsp
        simp [this, absOpt, Table.abs]
      | some files =>
        have hl := limitsOk_of_some _ _ _ _ hsp
        have hf := splitFiles_flatten _ _ _ _ hsp
        have he := isEmpty_files _ _ _ _ hsp
        rw [flatten_map_map] at hf
        rw [flatten_map_map, isEmpty_map] at he
        simp only [hl, not_true_eq_false, if_false, he]
        by_cases hrej : appendRejected t.ver t.spec op op.batches.flatten.isEmpty = true
        · simp [hrej, absOpt, Table.abs]
        · simp [hrej, absOpt, Table.abs, Table.rows]
          rw [assignIds_rows, hf, flatten_map_map]
  | overwrite =>
    simp only [applyWrite, Flat.step, hm, Table.abs]
    cases hsp : splitFiles (op.ver.getD t.ver) op.p
        (op.batches.map (List.map (storeRow (op.ver.getD t.ver) op.spec))) with
    | none =>
      have := (splitFiles_eq_none_iff _ _ _).mp hsp
      simp [this, absOpt, Table.abs]
    | some files =>
      have hl := limitsOk_of_some _ _ _ _ hsp
      have hf := splitFiles_flatten _ _ _ _ hsp
      have he := isEmpty_files _ _ _ _ hsp
      rw [flatten_map_map] at hf
      rw [flatten_map_map, isEmpty_map] at he
      simp only [hl, not_true_eq_false, if_false, he]
      by_cases hrej : overwriteRejected t.ver op op.batches.flatten.isEmpty = true
      · simp [hrej, absOpt, Table.abs]
      · simp [hrej, absOpt, Table.abs, Table.rows, assignIds_rows, hf]

/-- one step of the fragment-level model is one step of the flat model -/
theorem refines_step (s : Option Table) (op : WriteOp) :
    absOpt (applyWrite s op).1 = (Flat.step storeRow (absOpt s) op).1 ∧
    (applyWrite s op).2 = (Flat.step storeRow (absOpt s) op).2 := by
  cases s with
  | none => exact refines_none op
  | some t => exact refines_some t op

theorem refines_run (s : Option Table) (ops : List WriteOp) :
    absOpt (run s ops) = Flat.run storeRow (absOpt s) ops := by
  induction ops generalizing s with
  | nil => rfl
  | cons op ops ih =>
    simp only [run, Flat.run]
    rw [ih, (refines_step s op).1]

end LanceModel.C11
