import LanceModel.C11.SplitLemmas
import LanceModel.C11.Flat
/-
Table-level lemmas: what `splitFiles` guarantees, and that the fragment-level model refines the flat model.
-/
namespace LanceModel.C11
open LanceModel.Table

variable {α : Type}

theorem splitFiles_eq_none_iff (ver : Ver) (p : Params) (bs : List (List α)) :
    splitFiles ver p bs = none ↔ ¬ limitsOk ver p := by
  unfold splitFiles limitsOk
  by_cases h1 : p.maxRowsPerFile = 0
  · simp [h1]
  · by_cases h2 : ver = .legacy ∧ p.group = 0
    · simp [h1, h2]
    · by_cases h3 : ver = .legacy <;> simp_all

/-- the shape of an accepted split -/
theorem splitFiles_some (ver : Ver) (p : Params) (bs files : List (List α))
    (h : splitFiles ver p bs = some files) :
    0 < p.maxRowsPerFile ∧
    ((ver = .legacy ∧ 0 < p.group ∧ files = fileLoop p.lim32 p.bytesZero none (chunksOf p.group bs.flatten)) ∨
     (ver ≠ .legacy ∧ files = fileLoop p.lim32 p.bytesZero none (breakStream p.maxRowsPerFile 0 bs))) := by
  unfold splitFiles at h
  split at h
  · cases h
  · rename_i h1
    split at h
    · cases h
    · rename_i h2
      split at h
      · rename_i h3
        cases h
        refine ⟨by omega, Or.inl ⟨h3, ?_, rfl⟩⟩
        have : ¬ p.group = 0 := fun h0 => h2 ⟨h3, h0⟩
        omega
      · rename_i h3
        cases h
        exact ⟨by omega, Or.inr ⟨h3, rfl⟩⟩

theorem splitFiles_flatten (ver : Ver) (p : Params) (bs files : List (List α))
    (h : splitFiles ver p bs = some files) : files.flatten = bs.flatten := by
  obtain ⟨hm, ⟨_, hg, rfl⟩ | ⟨_, rfl⟩⟩ := splitFiles_some ver p bs files h
  · rw [fileLoop_flatten, chunksOf_flatten _ hg]; simp [curRows]
  · rw [fileLoop_flatten, breakStream_flatten _ hm 0 hm]; simp [curRows]

theorem splitFiles_ne_nil (ver : Ver) (p : Params) (bs files : List (List α))
    (h : splitFiles ver p bs = some files) : ∀ f ∈ files, f ≠ [] := by
  obtain ⟨hm, ⟨_, hg, rfl⟩ | ⟨_, rfl⟩⟩ := splitFiles_some ver p bs files h
  · exact fileLoop_ne_nil _ _ _ _ (chunksOf_ne_nil _ _) (by simp)
  · exact fileLoop_ne_nil _ _ _ _ (walk_ne_nil _ 0 _ (walk_breakStream _ hm 0 hm bs)) (by simp)

theorem splitFiles_le (ver : Ver) (p : Params) (bs files : List (List α))
    (hver : ver ≠ .legacy) (h32 : p.maxRowsPerFile < 4294967296)
    (h : splitFiles ver p bs = some files) : ∀ f ∈ files, f.length ≤ p.maxRowsPerFile := by
  obtain ⟨hm, ⟨hl, _, _⟩ | ⟨_, rfl⟩⟩ := splitFiles_some ver p bs files h
  · exact absurd hl hver
  · have hl : p.lim32 = p.maxRowsPerFile := by unfold Params.lim32; exact Nat.mod_eq_of_lt h32
    rw [hl]
    exact fileLoop_le_of_walk _ _ hm 0 none _ (walk_breakStream _ hm 0 hm bs)
      (by omega) (fun _ => rfl) (fun _ => by simp [curRows])

theorem splitFiles_legacy_lt (p : Params) (bs files : List (List α))
    (h : splitFiles .legacy p bs = some files) :
    ∀ f ∈ files, f.length < p.maxRowsPerFile + p.group := by
  obtain ⟨hm, ⟨_, hg, rfl⟩ | ⟨hl, _⟩⟩ := splitFiles_some .legacy p bs files h
  · intro f hf
    have := fileLoop_lt_of_chunks p.lim32 p.group p.bytesZero none _ (chunksOf_length_le _ _) (by simp) f hf
    have hl : p.lim32 ≤ p.maxRowsPerFile := by unfold Params.lim32; exact Nat.mod_le _ _
    omega
  · exact absurd rfl hl

theorem splitFiles_legacy_le (p : Params) (bs files : List (List α))
    (h32 : p.maxRowsPerFile < 4294967296) (hdvd : p.group ∣ p.maxRowsPerFile)
    (h : splitFiles .legacy p bs = some files) :
    ∀ f ∈ files, f.length ≤ p.maxRowsPerFile := by
  obtain ⟨hm, ⟨_, hg, rfl⟩ | ⟨hl, _⟩⟩ := splitFiles_some .legacy p bs files h
  · have hl : p.lim32 = p.maxRowsPerFile := by unfold Params.lim32; exact Nat.mod_eq_of_lt h32
    rw [hl]
    exact fileLoop_le_of_full _ p.group hdvd _ none _ (chunksOf_fullButLast _ _)
      (by simp [curRows]) (by simpa [curRows] using hm)
  · exact absurd rfl hl

theorem splitFiles_nil_iff (ver : Ver) (p : Params) (bs files : List (List α))
    (h : splitFiles ver p bs = some files) : files = [] ↔ bs.flatten = [] := by
  have h1 := splitFiles_flatten ver p bs files h
  have h2 := splitFiles_ne_nil ver p bs files h
  constructor
  · intro hf; rw [← h1, hf]; rfl
  · intro hb
    cases files with
    | nil => rfl
    | cons f fs =>
      exfalso
      apply h2 f (by simp)
      rw [hb] at h1
      simp only [List.flatten_cons, List.append_eq_nil_iff] at h1
      exact h1.1

/-! ### fragments -/

theorem assignIds_rows (start : Nat) (files : List (List Row)) :
    (assignIds start files).map (·.rows) = files := by
  induction files generalizing start with
  | nil => rfl
  | cons f fs ih => simp [assignIds, ih]

theorem count_eq_length' (t : Table) : t.count = t.rows.length := by
  unfold Table.count Table.rows
  rw [length_flatten_natSum, List.map_map]
  rfl

theorem flatten_map_map {β : Type} (f : α → β) (bs : List (List α)) :
    (bs.map (List.map f)).flatten = bs.flatten.map f := by
  induction bs with
  | nil => rfl
  | cons b bs ih =>
    rw [List.map_cons, List.flatten_cons, List.flatten_cons, List.map_append, ih]

end LanceModel.C11
