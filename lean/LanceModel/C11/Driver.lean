import LanceModel.Util
import LanceModel.Table.Basic
import LanceModel.C11.Model
/-
C11 driver.  One op line (grammar: top of harness/src/tablekit.rs)

  <create|append|overwrite> f=<nat|d> g=<nat|d> b=<0|d> v=<legacy|2.0|2.1|2.2|d> s=<0|1> k=<K> x=<letters|-> <batches>

→ one output line `ok v=<version> sv=<storage version> n=<count_rows> frags=<id:rows:dels,…> rows=<ordered scan>`,
`err <kind>`, or `err parse` for a line outside the grammar.  The state is the model table of the case.
-/
namespace LanceModel.C11.Driver
open LanceModel.Util LanceModel.Table LanceModel.C11

abbrev St := Option Table

def parseOptUsize (s : String) : Option (Option Nat) :=
  if s = "d" then some none else (parseUsize s).map some

def parseVer (s : String) : Option (Option Ver) :=
  match s with
  | "d" => some none
  | "legacy" => some (some .legacy)
  | "2.0" => some (some .v20)
  | "2.1" => some (some .v21)
  | "2.2" => some (some .v22)
  | _ => none

def showVer : Ver → String
  | .legacy => "legacy"
  | .v20 => "2.0"
  | .v21 => "2.1"
  | .v22 => "2.2"

def parseMode (s : String) : Option Mode :=
  match s with
  | "create" => some .create
  | "append" => some .append
  | "overwrite" => some .overwrite
  | _ => none

/-- the value of a `key=value` token -/
def tokVal (key tok : String) : Option String :=
  if tok.startsWith (key ++ "=") then some (String.ofList (tok.toList.drop (key.length + 1))) else none

def parseOp (line : String) : Option WriteOp :=
  match splitTokens line with
  | [m, f, g, b, v, s, k, x, bs] => do
    let mode ← parseMode m
    let f ← (tokVal "f" f) >>= parseOptUsize
    let g ← (tokVal "g" g) >>= parseOptUsize
    let b ← tokVal "b" b
    let bz ← (if b = "d" then some false else if b = "0" then some true else none)
    let ver ← (tokVal "v" v) >>= parseVer
    let st ← tokVal "s" s
    if st ≠ "0" ∧ st ≠ "1" then none
    let kv ← tokVal "k" k
    let xv ← tokVal "x" x
    let spec ← Spec.parse kv xv
    let batches ← parseBatches bs
    if !(batches.all spec.rowsOk) then none
    some { mode := mode,
           p := { maxRowsPerFile := f.getD defaultMaxRowsPerFile, maxRowsPerGroup := g.getD defaultMaxRowsPerGroup,
                  bytesZero := bz },
           ver := ver, spec := spec, batches := batches }
  | _ => none

def showTable (t : Table) : String :=
  "ok v=" ++ toString t.version ++ " sv=" ++ showVer t.ver ++ " n=" ++ toString t.count
    ++ " frags=" ++ showFrags t.fragInfo ++ " rows=" ++ showRows t.rows

def step (s : St) (line : String) : St × String :=
  match parseOp line with
  | none => (s, "err parse")
  | some op =>
    match applyWrite s op with
    | (s', .ok) =>
      match s' with
      | some t => (s', showTable t)
      | none => (s', "err model")
    | (s', .err k) => (s', "err " ++ k)

end LanceModel.C11.Driver
