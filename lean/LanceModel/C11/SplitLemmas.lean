import LanceModel.C11.Model
/-
Lemmas about the stream splitting (`breakOne`, `breakStream`, `chunksOf`, `fileLoop`).
-/
namespace LanceModel.C11
open LanceModel.Table

variable {α : Type}

/-! ### concatenation is preserved -/

theorem breakOne_flatten (max seen : Nat) (b : List α) (h : seen < max) :
    (breakOne max seen b).flatten = b := by
  fun_induction breakOne max seen b with
  | case1 seen b h0 => have : b = [] := List.length_eq_zero_iff.mp h0; simp [this]
  | case2 seen b _ _ => simp
  | case3 seen b _ _ hs ih =>
    have : 0 < max := by omega
    simp [ih this]
  | case4 seen b _ _ hs => exact absurd h hs

theorem breakStream_flatten (max : Nat) (hm : 0 < max) (seen : Nat) (hs : seen < max) (bs : List (List α)) :
    (breakStream max seen bs).flatten = bs.flatten := by
  induction bs generalizing seen with
  | nil => simp [breakStream]
  | cons b rest ih =>
    simp only [breakStream, List.flatten_append, List.flatten_cons]
    rw [breakOne_flatten max seen b hs, ih _ (Nat.mod_lt _ hm)]

theorem chunksOf_flatten (g : Nat) (hg : 0 < g) (xs : List α) : (chunksOf g xs).flatten = xs := by
  fun_induction chunksOf g xs with
  | case1 xs h0 => have : xs = [] := List.length_eq_zero_iff.mp h0; simp [this]
  | case2 xs _ h => omega
  | case3 xs _ _ ih => simp [ih]

theorem fileLoop_flatten (lim : Nat) (ca : Bool) (cur : Option (List α)) (ps : List (List α)) :
    (fileLoop lim ca cur ps).flatten = curRows cur ++ ps.flatten := by
  fun_induction fileLoop lim ca cur ps with
  | case1 => simp [curRows]
  | case2 f => simp [curRows]
  | case3 cur c rest _ ih => simp [ih, curRows]
  | case4 cur c rest _ ih => rw [ih]; simp [curRows]

/-! ### no file is empty -/

theorem chunksOf_ne_nil (g : Nat) (xs : List α) : ∀ c ∈ chunksOf g xs, c ≠ [] := by
  fun_induction chunksOf g xs with
  | case1 => simp
  | case2 => simp
  | case3 xs h0 hg ih =>
    intro c hc
    simp only [List.mem_cons] at hc
    rcases hc with rfl | hc
    · intro h
      have := congrArg List.length h
      simp only [List.length_take, List.length_nil] at this
      omega
    · exact ih c hc

theorem fileLoop_ne_nil (lim : Nat) (ca : Bool) (cur : Option (List α)) (ps : List (List α))
    (hps : ∀ c ∈ ps, c ≠ []) (hcur : ∀ f, cur = some f → f ≠ []) :
    ∀ f ∈ fileLoop lim ca cur ps, f ≠ [] := by
  fun_induction fileLoop lim ca cur ps with
  | case1 => simp
  | case2 f => intro g hg; simp at hg; subst hg; exact hcur _ rfl
  | case3 cur c rest _ ih =>
    have hc : c ≠ [] := hps c (by simp)
    intro g hg
    simp only [List.mem_cons] at hg
    rcases hg with rfl | hg
    · simp [hc]
    · exact ih (fun c hc => hps c (by simp [hc])) (by simp) g hg
  | case4 cur c rest _ ih =>
    have hc : c ≠ [] := hps c (by simp)
    exact ih (fun c hc => hps c (by simp [hc])) (by intro f hf; cases hf; simp [hc])

/-! ### the break points: `Walk max seen ps` says the pieces `ps`, started `seen` rows after a break point, never
    straddle a multiple of `max` -/

def Walk (max : Nat) : Nat → List (List α) → Prop
  | _, [] => True
  | seen, p :: ps => p ≠ [] ∧ seen + p.length ≤ max ∧ Walk max ((seen + p.length) % max) ps

theorem walk_breakOne (max seen : Nat) (b : List α) (rest : List (List α)) (h : seen < max)
    (hr : Walk max ((seen + b.length) % max) rest) : Walk max seen (breakOne max seen b ++ rest) := by
  fun_induction breakOne max seen b with
  | case1 seen b h0 =>
    simp only [List.nil_append]
    rw [h0, Nat.add_zero, Nat.mod_eq_of_lt h] at hr
    exact hr
  | case2 seen b h0 hfit =>
    refine ⟨?_, by omega, hr⟩
    intro hb; apply h0; simp [hb]
  | case3 seen b h0 hfit hs ih =>
    have hmax : 0 < max := by omega
    have hlen : (List.take (max - seen) b).length = max - seen := by
      simp only [List.length_take]; omega
    refine ⟨?_, by omega, ?_⟩
    · intro hb
      have := congrArg List.length hb
      rw [hlen] at this; simp at this; omega
    · rw [hlen]
      have h1 : seen + (max - seen) = max := by omega
      rw [h1, Nat.mod_self]
      apply ih hmax
      simp only [List.length_drop, Nat.zero_add]
      have h2 : seen + b.length = (b.length - (max - seen)) + max := by omega
      rw [h2, Nat.add_mod_right] at hr
      exact hr
  | case4 seen b _ _ hs => exact absurd h hs

theorem walk_breakStream (max : Nat) (hm : 0 < max) (seen : Nat) (hs : seen < max) (bs : List (List α)) :
    Walk max seen (breakStream max seen bs) := by
  induction bs generalizing seen with
  | nil => simp [breakStream, Walk]
  | cons b rest ih =>
    simp only [breakStream]
    exact walk_breakOne max seen b _ hs (ih _ (Nat.mod_lt _ hm))

theorem walk_ne_nil (max seen : Nat) (ps : List (List α)) (h : Walk max seen ps) : ∀ p ∈ ps, p ≠ [] := by
  induction ps generalizing seen with
  | nil => simp
  | cons p ps ih =>
    obtain ⟨h1, _, h3⟩ := h
    intro q hq
    simp only [List.mem_cons] at hq
    rcases hq with rfl | hq
    · exact h1
    · exact ih _ h3 q hq

/-- files made of pieces that respect the break points of `max` hold at most `max` rows when the row limit of the
    file loop is `max` itself: either every chunk closes its file (`ca`), or the open file holds exactly the rows seen
    since the last break point -/
theorem fileLoop_le_of_walk (max : Nat) (ca : Bool) (hm : 0 < max) (seen : Nat) (cur : Option (List α))
    (ps : List (List α)) (hw : Walk max seen ps) (hseen : seen ≤ max)
    (hca : ca = true → cur = none) (hopen : ca = false → (curRows cur).length = seen) :
    ∀ f ∈ fileLoop max ca cur ps, f.length ≤ max := by
  fun_induction fileLoop max ca cur ps generalizing seen with
  | case1 => simp
  | case2 f =>
    intro g hg; simp at hg; subst hg
    cases ca with
    | true => simp at hca
    | false => have := hopen rfl; simp [curRows] at this; omega
  | case3 cur c rest hclose ih =>
    obtain ⟨_, h2, h3⟩ := hw
    have hlen : (curRows cur).length ≤ seen := by
      cases ca with
      | true => simp [hca rfl, curRows]
      | false => exact Nat.le_of_eq (hopen rfl)
    intro g hg
    simp only [List.mem_cons] at hg
    rcases hg with rfl | hg
    · simp only [List.length_append]; omega
    · refine ih ((seen + c.length) % max) h3 (Nat.le_of_lt (Nat.mod_lt _ hm)) (fun _ => rfl) ?_ g hg
      intro hf
      subst hf
      simp only [Bool.or_false, decide_eq_true_eq, List.length_append] at hclose
      have := hopen rfl
      have : seen + c.length = max := by omega
      rw [this, Nat.mod_self]; simp [curRows]
  | case4 cur c rest hnot ih =>
    obtain ⟨_, h2, h3⟩ := hw
    have hca' : ca = false := by
      cases ca with
      | true => simp at hnot
      | false => rfl
    subst hca'
    simp only [Bool.or_false, decide_eq_true_eq, List.length_append, Nat.not_le] at hnot
    have hc := hopen rfl
    have hlt : seen + c.length < max := by omega
    refine ih ((seen + c.length) % max) h3 (Nat.le_of_lt (Nat.mod_lt _ hm)) (by simp) ?_
    intro _
    rw [Nat.mod_eq_of_lt hlt]
    show (curRows cur ++ c).length = seen + c.length
    simp only [List.length_append]; omega

/-! ### legacy: chunks of at most `g` rows -/

theorem chunksOf_length_le (g : Nat) (xs : List α) : ∀ c ∈ chunksOf g xs, c.length ≤ g := by
  fun_induction chunksOf g xs with
  | case1 => simp
  | case2 => simp
  | case3 xs h0 hg ih =>
    intro c hc
    simp only [List.mem_cons] at hc
    rcases hc with rfl | hc
    · simp only [List.length_take]; omega
    · exact ih c hc

/-- with chunks of at most `k` rows a file overshoots its row limit by less than one chunk -/
theorem fileLoop_lt_of_chunks (lim k : Nat) (ca : Bool) (cur : Option (List α)) (ps : List (List α))
    (hps : ∀ c ∈ ps, c.length ≤ k) (hcur : ∀ f, cur = some f → f.length < lim) :
    ∀ f ∈ fileLoop lim ca cur ps, f.length ≤ lim - 1 + k := by
  fun_induction fileLoop lim ca cur ps with
  | case1 => simp
  | case2 f => intro g hg; simp at hg; subst hg; have := hcur _ rfl; omega
  | case3 cur c rest _ ih =>
    have hc : c.length ≤ k := hps c (by simp)
    intro g hg
    simp only [List.mem_cons] at hg
    rcases hg with rfl | hg
    · simp only [List.length_append]
      cases cur with
      | none => simp [curRows]; omega
      | some f => have := hcur f rfl; simp [curRows]; omega
    · exact ih (fun c hc => hps c (by simp [hc])) (by simp) g hg
  | case4 cur c rest hnot ih =>
    refine ih (fun c hc => hps c (by simp [hc])) ?_
    intro f hf
    cases hf
    cases ca with
    | true => simp at hnot
    | false => simpa using hnot

/-! ### legacy: when the group size divides the file limit, files are closed exactly at the limit -/

/-- every chunk but the last holds exactly `g` rows, the last at most `g` -/
def FullButLast (g : Nat) : List (List α) → Prop
  | [] => True
  | [c] => c.length ≤ g
  | c :: c' :: rest => c.length = g ∧ FullButLast g (c' :: rest)

theorem chunksOf_nil (g : Nat) (xs : List α) (h : xs.length = 0) : chunksOf g xs = [] := by
  unfold chunksOf; simp [h]

theorem chunksOf_fullButLast (g : Nat) (xs : List α) : FullButLast g (chunksOf g xs) := by
  fun_induction chunksOf g xs with
  | case1 => trivial
  | case2 => trivial
  | case3 xs h0 hg ih =>
    cases hrest : chunksOf g (xs.drop g) with
    | nil => simp only [FullButLast, List.length_take]; omega
    | cons c' rest =>
      rw [hrest] at ih
      refine ⟨?_, ih⟩
      simp only [List.length_take]
      have : (xs.drop g).length ≠ 0 := by
        intro h; rw [chunksOf_nil g _ h] at hrest; cases hrest
      simp only [List.length_drop] at this
      omega

theorem fullButLast_head_le (g : Nat) (c : List α) (rest : List (List α)) (h : FullButLast g (c :: rest)) :
    c.length ≤ g := by
  cases rest with
  | nil => exact h
  | cons c' r => exact Nat.le_of_eq h.1

theorem fullButLast_tail (g : Nat) (c : List α) (rest : List (List α)) (h : FullButLast g (c :: rest)) :
    FullButLast g rest := by
  cases rest with
  | nil => trivial
  | cons c' r => exact h.2

theorem dvd_step (g a b : Nat) (ha : g ∣ a) (hb : g ∣ b) (hlt : a < b) : a + g ≤ b := by
  obtain ⟨x, rfl⟩ := ha
  obtain ⟨y, rfl⟩ := hb
  have hxy : x < y := Nat.lt_of_mul_lt_mul_left hlt
  have : g * (x + 1) ≤ g * y := Nat.mul_le_mul_left g hxy
  rw [Nat.mul_add, Nat.mul_one] at this
  exact this

theorem fileLoop_le_of_full (lim g : Nat) (hdvd : g ∣ lim) (ca : Bool) (cur : Option (List α))
    (ps : List (List α)) (hps : FullButLast g ps)
    (hcur : g ∣ (curRows cur).length) (hlt : (curRows cur).length < lim) :
    ∀ f ∈ fileLoop lim ca cur ps, f.length ≤ lim := by
  fun_induction fileLoop lim ca cur ps with
  | case1 => simp
  | case2 f => intro g' hg'; simp at hg'; subst hg'; simp [curRows] at hlt; omega
  | case3 cur c rest _ ih =>
    have hc := fullButLast_head_le g c rest hps
    have hstep := dvd_step g _ lim hcur hdvd hlt
    intro f hf
    simp only [List.mem_cons] at hf
    rcases hf with rfl | hf
    · simp only [List.length_append]; omega
    · exact ih (fullButLast_tail g c rest hps) (by simp [curRows]) (by simp [curRows]; omega) f hf
  | case4 cur c rest hnot ih =>
    have hopen : (curRows cur ++ c).length < lim := by
      cases ca with
      | true => simp at hnot
      | false => simpa using hnot
    cases rest with
    | nil =>
      intro f hf
      simp [fileLoop] at hf
      subst hf
      omega
    | cons c' r =>
      refine ih hps.2 ?_ hopen
      show g ∣ (curRows cur ++ c).length
      rw [List.length_append, hps.1]
      exact Nat.dvd_add hcur (Nat.dvd_refl g)

end LanceModel.C11
