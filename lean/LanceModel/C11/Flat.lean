import LanceModel.C11.Model
/-
The flat table model: what `Dataset::write` does to the *logical* table (storage version, schema, row list), with
no fragments or files.  `store` is the value-level effect of writing a row with a storage version: `storeRow` for the
code as it is, `idealStore` for the property ("exactly the rows written").
-/
namespace LanceModel.C11
open LanceModel.Table

structure Flat where
  ver : Ver
  spec : Spec
  rows : List Row
  version : Nat
  deriving DecidableEq, Repr

/-- the limits `do_write_fragments` accepts (fix f5cf784) -/
def limitsOk (ver : Ver) (p : Params) : Prop :=
  p.maxRowsPerFile ≠ 0 ∧ ¬ (ver = .legacy ∧ p.group = 0)

instance (ver : Ver) (p : Params) : Decidable (limitsOk ver p) := by unfold limitsOk; infer_instance

def idealStore (_ : Ver) (_ : Spec) (r : Row) : Row := r

def Flat.step (store : Ver → Spec → Row → Row) (s : Option Flat) (op : WriteOp) : Option Flat × Res :=
  match s with
  | none =>
    if limitsOk (op.ver.getD .v20) op.p then
      (some { ver := op.ver.getD .v20, spec := op.spec,
              rows := op.batches.flatten.map (store (op.ver.getD .v20) op.spec), version := 1 }, .ok)
    else (none, .err "invalid_input")
  | some t =>
    match op.mode with
    | .create => (some t, .err "already_exists")
    | .append =>
      if subSchema t.spec op.spec = false then (some t, .err "invalid_input")
      else if ¬ limitsOk t.ver op.p then (some t, .err "invalid_input")
      else if appendRejected t.ver t.spec op op.batches.flatten.isEmpty = true then (some t, .err "invalid_input")
      else
        (some { t with rows := t.rows ++ op.batches.flatten.map (fun r => store t.ver t.spec (mapRow t.spec op.spec r)),
                       version := t.version + 1 }, .ok)
    | .overwrite =>
      if ¬ limitsOk (op.ver.getD t.ver) op.p then (some t, .err "invalid_input")
      else if overwriteRejected t.ver op op.batches.flatten.isEmpty = true then (some t, .err "invalid_input")
      else
        (some { ver := op.ver.getD t.ver, spec := op.spec,
                rows := op.batches.flatten.map (store (op.ver.getD t.ver) op.spec), version := t.version + 1 }, .ok)

def Flat.run (store : Ver → Spec → Row → Row) (s : Option Flat) : List WriteOp → Option Flat
  | [] => s
  | op :: ops => Flat.run store (Flat.step store s op).1 ops

/-- the abstraction function from the fragment-level table -/
def Table.abs (t : Table) : Flat := { ver := t.ver, spec := t.spec, rows := t.rows, version := t.version }

def absOpt : Option Table → Option Flat
  | none => none
  | some t => some t.abs

end LanceModel.C11
