import LanceModel.Table.Basic
/-
C11 model: create / append / overwrite / scan.

Mirrors (at the pinned commit + fix f5cf784):
  rust/lance-datafusion/src/chunker.rs        BreakStreamState::next, break_stream, chunk_stream (BatchReaderChunker)
  rust/lance/src/dataset/write.rs             write_fragments_internal, do_write_fragments
  rust/lance/src/dataset/write/insert.rs      InsertBuilder::{validate_write, resolve_context, build_transaction}
  rust/lance/src/dataset/transaction.rs       Transaction::build_manifest (Append / Overwrite arms: fragment ids,
                                              max_fragment_id high-water mark), validate_operation / schema_fragments_valid
  scan = concatenation of the fragments in manifest order (Scanner with scan_in_order), count_rows = Σ fragment rows.

Everything below `splitFiles` is generic in the row type: the splitting is arithmetic on batch lengths.
Not modelled: page encoding/decoding (C25–C27) — a data file is the list of rows written to it, except for the one
observable lossy step of the legacy (0.1) format, `storeRow` below; `max_bytes_per_file` other than 0 / default.
-/
namespace LanceModel.C11
open LanceModel.Table

inductive Ver where
  | legacy | v20 | v21 | v22
  deriving DecidableEq, Repr

/-! ## stream splitting -/

/-- chunker.rs `BreakStreamState::next`, unfolded over one input batch `b` with `rows_seen = seen`:
    nothing for an empty batch; the whole batch if it fits below the break point; otherwise the `max - seen` rows up
    to the break point, then continue with `rows_seen = 0`.  The last branch is unreachable from `breakStream`
    (`rows_seen` is a remainder modulo `max`; Rust would underflow in `max_rows - rows_seen`). -/
def breakOne {α : Type} (max seen : Nat) (b : List α) : List (List α) :=
  if b.length = 0 then []
  else if b.length + seen ≤ max then [b]
  else if seen < max then b.take (max - seen) :: breakOne max 0 (b.drop (max - seen))
  else []
termination_by b.length
decreasing_by simp only [List.length_drop]; omega

/-- chunker.rs `break_stream`: every batch is broken with the running `rows_already_seen`, which advances by the
    batch length modulo `max` (`max = 0` panics in Rust: division by zero — excluded by `splitFiles`). -/
def breakStream {α : Type} (max : Nat) : Nat → List (List α) → List (List α)
  | _, [] => []
  | seen, b :: rest => breakOne max seen b ++ breakStream max ((seen + b.length) % max) rest

/-- chunker.rs `chunk_stream` / `BatchReaderChunker::next` as seen by the file writer: the rows of the stream (empty
    batches skipped) in chunks of exactly `g` rows, the last one shorter; `g = 0` yields nothing at all.
    (Inside a chunk the code keeps the pieces of the input batches as separate `RecordBatch`es; the legacy writer
    writes a chunk as one group, so only the chunk's rows matter.) -/
def chunksOf {α : Type} (g : Nat) (xs : List α) : List (List α) :=
  if xs.length = 0 then []
  else if g = 0 then []
  else xs.take g :: chunksOf g (xs.drop g)
termination_by xs.length
decreasing_by simp only [List.length_drop]; omega

def curRows {α : Type} : Option (List α) → List α
  | none => []
  | some f => f

/-- write.rs `do_write_fragments`, the `while let Some(batch_chunk)` loop and the "complete the final writer" tail.
    `cur` = rows of the open writer (`none` = `writer.is_none()`); `lim32` = `params.max_rows_per_file as u32`;
    `closeAlways` = `writer.tell() >= max_bytes_per_file` for `max_bytes_per_file = 0`. -/
def fileLoop {α : Type} (lim32 : Nat) (closeAlways : Bool) : Option (List α) → List (List α) → List (List α)
  | none, [] => []
  | some f, [] => [f]
  | cur, c :: rest =>
    if lim32 ≤ (curRows cur ++ c).length || closeAlways then
      (curRows cur ++ c) :: fileLoop lim32 closeAlways none rest
    else fileLoop lim32 closeAlways (some (curRows cur ++ c)) rest

structure Params where
  maxRowsPerFile : Nat
  maxRowsPerGroup : Nat
  /-- `max_bytes_per_file = 0` (every chunk closes its file); `false` = the 90 GB default -/
  bytesZero : Bool
  deriving DecidableEq, Repr

def defaultMaxRowsPerFile : Nat := 1048576
def defaultMaxRowsPerGroup : Nat := 1024

/-- write.rs `write_fragments_internal` line "max_rows_per_group = min(max_rows_per_group, max_rows_per_file)" -/
def Params.group (p : Params) : Nat := min p.maxRowsPerGroup p.maxRowsPerFile

/-- `max_rows_per_file as u32` -/
def Params.lim32 (p : Params) : Nat := p.maxRowsPerFile % 4294967296

/-- write.rs `do_write_fragments`: `none` = rejected with `invalid_input` (fix f5cf784: a zero limit used to panic in
    `break_stream` for 2.x files and to write no rows at all for legacy files);
    otherwise the data files in order, each as the list of rows it holds. -/
def splitFiles {α : Type} (ver : Ver) (p : Params) (batches : List (List α)) : Option (List (List α)) :=
  if p.maxRowsPerFile = 0 then none
  else if ver = .legacy ∧ p.group = 0 then none
  else if ver = .legacy then
    some (fileLoop p.lim32 p.bytesZero none (chunksOf p.group batches.flatten))
  else
    some (fileLoop p.lim32 p.bytesZero none (breakStream p.maxRowsPerFile 0 batches))

/-! ## tables -/

structure Frag where
  id : Nat
  rows : List Row
  deriving Repr

structure Table where
  ver : Ver
  spec : Spec
  frags : List Frag
  /-- `Manifest::max_fragment_id` (high-water mark; `none` = never set) -/
  hw : Option Nat
  version : Nat
  deriving Repr

/-- the abstraction function: a scan in fragment order -/
def Table.rows (t : Table) : List Row := (t.frags.map (·.rows)).flatten

/-- `Dataset::count_rows(None)`: Σ over fragments of physical rows (no deletions in C11 histories) -/
def Table.count (t : Table) : Nat := natSum (t.frags.map (·.rows.length))

def Table.fragInfo (t : Table) : List (Nat × Nat × Nat) := t.frags.map fun f => (f.id, f.rows.length, 0)

inductive Mode where
  | create | append | overwrite
  deriving DecidableEq, Repr

structure WriteOp where
  mode : Mode
  p : Params
  /-- `WriteParams::data_storage_version` -/
  ver : Option Ver
  spec : Spec
  batches : List (List Row)
  deriving Repr

inductive Res where
  | ok
  | err (kind : String)
  deriving DecidableEq, Repr

/-- transaction.rs `fragments_with_ids`: consecutive ids from `start` -/
def assignIds (start : Nat) : List (List Row) → List Frag
  | [] => []
  | f :: fs => { id := start, rows := f } :: assignIds (start + 1) fs

/-- manifest.rs `update_max_fragment_id` after the new fragments got ids `start ..`: only ever raised -/
def raiseHw (hw : Option Nat) (start n : Nat) : Option Nat :=
  if n = 0 then hw
  else match hw with
    | none => some (start + n - 1)
    | some h => some (max h (start + n - 1))

/-- is the column fixed width (Int64 / Float32)?  The legacy format stores no validity for those. -/
def fixedWidth (spec : Spec) (i : Nat) : Bool :=
  if i < spec.ints then true
  else match spec.extras[i - spec.ints]? with
    | some c => c == 'f'
    | none => false

def storeCells (spec : Spec) : Nat → Row → Row
  | _, [] => []
  | i, c :: cs => (if fixedWidth spec i && c.isNone then some 0 else c) :: storeCells spec (i + 1) cs

/-- what a row reads back as after being written with storage version `ver`: the legacy (0.1) format reads NULLs of
    fixed-width columns back as 0 (a limitation of that format, recorded as known finding `legacy_nulls_lost`);
    every other version stores rows faithfully.  (NULL lists / struct children under legacy are not representable
    here; the harness never generates them.) -/
def storeRow (ver : Ver) (spec : Spec) (r : Row) : Row :=
  if ver = .legacy then storeCells spec 0 r else r

/-- the position in a written row (schema `new`) of table column `i` (schema `tbl`), by column name -/
def srcIndex (tbl new : Spec) (i : Nat) : Option Nat :=
  if i < tbl.ints then (if i < new.ints then some i else none)
  else match tbl.extras[i - tbl.ints]? with
    | some c => (indexOf? c new.extras).map (· + new.ints)
    | none => none

/-- a written row laid out in the table's columns; columns the write does not carry are NULL -/
def mapRow (tbl new : Spec) (r : Row) : Row :=
  (List.range tbl.width).map fun i =>
    match srcIndex tbl new i with
    | some j => cellAt r j
    | none => none

/-- schema.rs `check_compatible` with `allow_missing_if_nullable`, `ignore_field_order`: every written column exists -/
def subSchema (tbl new : Spec) : Bool :=
  decide (new.ints ≤ tbl.ints) && new.extras.all tbl.extras.contains

def sameColumns (tbl new : Spec) : Bool :=
  subSchema tbl new && decide (new.ints = tbl.ints) && decide (new.extras.length = tbl.extras.length)

def hasNested (s : Spec) : Bool := s.extras.contains 's' || s.extras.contains 'l'

def isV21Plus : Ver → Bool
  | .v21 => true
  | .v22 => true
  | _ => false

def startId (hw : Option Nat) : Nat :=
  match hw with
  | none => 0
  | some h => h + 1

/-- transaction.rs `validate_operation` → `schema_fragments_legacy_valid` for `Append`: on a legacy table every new
    fragment must carry every field of the table; a sub-schema append never does (vacuous when nothing was written) -/
def appendRejected (tver : Ver) (tspec : Spec) (op : WriteOp) (nothingWritten : Bool) : Bool :=
  decide (tver = .legacy) && !(sameColumns tspec op.spec) && !nothingWritten

/-- the same check for `Overwrite` is made with the *old* manifest's storage format: 2.1+/2.2 files with struct /
    list columns do not list the parent field ids and are rejected when they replace a legacy table -/
def overwriteRejected (tver : Ver) (op : WriteOp) (nothingWritten : Bool) : Bool :=
  decide (tver = .legacy) && isV21Plus (op.ver.getD tver) && hasNested op.spec && !nothingWritten

/-- one `Dataset::write` call.  Mirrors InsertBuilder: `Create` on an existing dataset is `DatasetAlreadyExists`; any
    mode on a missing dataset creates it; `Append` uses the dataset's storage version and needs a compatible schema;
    `Overwrite` takes the schema of the data and the requested (else the existing) storage version, restarts fragment
    ids at 0 and keeps the high-water mark. -/
def applyWrite (s : Option Table) (op : WriteOp) : Option Table × Res :=
  match s with
  | none =>
    match splitFiles (op.ver.getD .v20) op.p (op.batches.map (List.map (storeRow (op.ver.getD .v20) op.spec))) with
    | none => (none, .err "invalid_input")
    | some files =>
      (some { ver := op.ver.getD .v20, spec := op.spec, frags := assignIds 0 files,
              hw := raiseHw none 0 files.length, version := 1 }, .ok)
  | some t =>
    match op.mode with
    | .create => (some t, .err "already_exists")
    | .append =>
      if subSchema t.spec op.spec = false then (some t, .err "invalid_input")
      else
        match splitFiles t.ver op.p (op.batches.map (List.map fun r => storeRow t.ver t.spec (mapRow t.spec op.spec r))) with
        | none => (some t, .err "invalid_input")
        | some files =>
          if appendRejected t.ver t.spec op files.isEmpty = true then (some t, .err "invalid_input")
          else
            (some { t with frags := t.frags ++ assignIds (startId t.hw) files,
                           hw := raiseHw t.hw (startId t.hw) files.length,
                           version := t.version + 1 }, .ok)
    | .overwrite =>
      match splitFiles (op.ver.getD t.ver) op.p (op.batches.map (List.map (storeRow (op.ver.getD t.ver) op.spec))) with
      | none => (some t, .err "invalid_input")
      | some files =>
        if overwriteRejected t.ver op files.isEmpty = true then (some t, .err "invalid_input")
        else
          (some { ver := op.ver.getD t.ver, spec := op.spec, frags := assignIds 0 files,
                  hw := raiseHw t.hw 0 files.length, version := t.version + 1 }, .ok)

/-- a history -/
def run (s : Option Table) : List WriteOp → Option Table
  | [] => s
  | op :: ops => run (applyWrite s op).1 ops

end LanceModel.C11
