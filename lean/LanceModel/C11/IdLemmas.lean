import LanceModel.C11.Model
/-
Fragment ids: `fragments_with_ids` + the `max_fragment_id` high-water mark keep the ids of a table strictly increasing
in manifest order and bounded by the mark, through every history.
-/
namespace LanceModel.C11
open LanceModel.Table

def fragIds (frags : List Frag) : List Nat := frags.map (·.id)

/-- ids strictly increasing in manifest order, all at most the high-water mark -/
def IdsOk (frags : List Frag) (hw : Option Nat) : Prop :=
  (fragIds frags).Pairwise (· < ·) ∧ ∀ i ∈ fragIds frags, ∃ h, hw = some h ∧ i ≤ h

theorem fragIds_assignIds (start : Nat) (files : List (List Row)) :
    fragIds (assignIds start files) = List.range' start files.length := by
  induction files generalizing start with
  | nil => rfl
  | cons f fs ih =>
    simp only [assignIds, fragIds, List.map_cons, List.length_cons, List.range'_succ] at *
    rw [ih]

theorem raiseHw_ge (hw : Option Nat) (start n : Nat) (hn : 0 < n) :
    ∃ h, raiseHw hw start n = some h ∧ start + n - 1 ≤ h ∧ ∀ h0, hw = some h0 → h0 ≤ h := by
  unfold raiseHw
  have : ¬ n = 0 := by omega
  simp only [this, if_false]
  cases hw with
  | none => exact ⟨_, rfl, Nat.le_refl _, by simp⟩
  | some h0 => exact ⟨_, rfl, Nat.le_max_right _ _, by intro h1 h; cases h; exact Nat.le_max_left _ _⟩

theorem idsOk_fresh (hw : Option Nat) (files : List (List Row)) :
    IdsOk (assignIds 0 files) (raiseHw hw 0 files.length) := by
  unfold IdsOk
  rw [fragIds_assignIds]
  refine ⟨List.pairwise_lt_range' 1, ?_⟩
  intro i hi
  rw [List.mem_range'_1] at hi
  obtain ⟨h, h1, h2, _⟩ := raiseHw_ge hw 0 files.length (by omega)
  exact ⟨h, h1, by omega⟩

theorem idsOk_append (frags : List Frag) (hw : Option Nat) (files : List (List Row)) (h : IdsOk frags hw) :
    IdsOk (frags ++ assignIds (startId hw) files) (raiseHw hw (startId hw) files.length) := by
  obtain ⟨hp, hb⟩ := h
  unfold IdsOk fragIds at *
  rw [List.map_append]
  have hnew := fragIds_assignIds (startId hw) files
  unfold fragIds at hnew
  rw [hnew]
  by_cases hn : files.length = 0
  · have : files = [] := List.length_eq_zero_iff.mp hn
    subst this
    simp only [List.length_nil, List.range'_zero, List.append_nil, raiseHw, if_true]
    exact ⟨hp, hb⟩
  · obtain ⟨h, h1, h2, h3⟩ := raiseHw_ge hw (startId hw) files.length (by omega)
    refine ⟨?_, ?_⟩
    · rw [List.pairwise_append]
      refine ⟨hp, List.pairwise_lt_range' 1, ?_⟩
      intro a ha b hb'
      rw [List.mem_range'_1] at hb'
      obtain ⟨h0, hh0, hle⟩ := hb a ha
      rw [hh0] at hb'
      simp only [startId] at hb'
      omega
    · intro i hi
      rw [List.mem_append] at hi
      rcases hi with hi | hi
      · obtain ⟨h0, hh0, hle⟩ := hb i hi
        exact ⟨h, h1, Nat.le_trans hle (h3 h0 hh0)⟩
      · rw [List.mem_range'_1] at hi
        exact ⟨h, h1, by omega⟩

theorem idsOk_step (s : Option Table) (op : WriteOp)
    (h : ∀ t, s = some t → IdsOk t.frags t.hw) :
    ∀ t', (applyWrite s op).1 = some t' → IdsOk t'.frags t'.hw := by
  intro t' ht'
  cases s with
  | none =>
    simp only [applyWrite] at ht'
    split at ht'
    · cases ht'
    · injection ht' with ht'; subst ht'; exact idsOk_fresh none _
  | some t =>
    have ht := h t rfl
    simp only [applyWrite] at ht'
    split at ht'
    · injection ht' with ht'; subst ht'; exact ht
    · split at ht'
      · injection ht' with ht'; subst ht'; exact ht
      · split at ht'
        · injection ht' with ht'; subst ht'; exact ht
        · split at ht'
          · injection ht' with ht'; subst ht'; exact ht
          · injection ht' with ht'; subst ht'; exact idsOk_append _ _ _ ht
    · split at ht'
      · injection ht' with ht'; subst ht'; exact ht
      · split at ht'
        · injection ht' with ht'; subst ht'; exact ht
        · injection ht' with ht'; subst ht'; exact idsOk_fresh _ _

theorem idsOk_run (s : Option Table) (ops : List WriteOp)
    (h : ∀ t, s = some t → IdsOk t.frags t.hw) :
    ∀ t', run s ops = some t' → IdsOk t'.frags t'.hw := by
  induction ops generalizing s with
  | nil => exact h
  | cons op ops ih => exact ih _ (idsOk_step s op h)

end LanceModel.C11
