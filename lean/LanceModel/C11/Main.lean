import LanceModel.C11.Driver
def main : IO Unit := LanceModel.Util.runDriver LanceModel.C11.Driver.step none
