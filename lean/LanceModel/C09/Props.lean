import LanceModel.C09.CleanupLemmas
import LanceModel.C09.HistLemmas
import LanceModel.C09.PathLemmas
/-
C09 — Branches, tags and shallow clones are isolated references.

"A tag always resolves to the exact (branch, version) it was created or updated with, and tag and branch names are
accepted exactly by the documented grammar.  Writes, deletes and maintenance on one branch or shallow clone never
change what the main table, another branch, a tag or the clone source reads, and deleting a branch removes only
that branch's own storage."

Only property theorems and their non-vacuity examples live here; helper lemmas are in `NameLemmas`, `CleanupLemmas`.
-/
namespace LanceModel.C09
open LanceModel.Table

/-! ## 1. Name grammar (docs/src/format/table/branch_tag.md) -/

/-- the documented branch-name rules 1–7, stated with the standard list notions -/
def BranchGrammar (an : Char → Bool) (n : Str) : Prop :=
  n ≠ []                                                     -- 1 cannot be empty
  ∧ n.head? ≠ some '/' ∧ n.getLast? ≠ some '/'               -- 2 cannot start or end with `/`
  ∧ ¬ ['/', '/'] <:+: n                                      -- 3 cannot contain `//`
  ∧ ¬ ['.', '.'] <:+: n ∧ '\\' ∉ n                           -- 4 cannot contain `..` or `\`
  ∧ (∀ s ∈ splitSlash n, ∀ c ∈ s, segChar an c = true)       -- 5 segments: alphanumeric, `.`, `-`, `_`
  ∧ ¬ dotLock <:+ n                                          -- 6 cannot end with `.lock`
  ∧ n ≠ mainName                                             -- 7 cannot be `main`

/-- the documented tag-name rules 1–5 -/
def TagGrammar (an : Char → Bool) (s : Str) : Prop :=
  s ≠ []
  ∧ (∀ c ∈ s, segChar an c = true)
  ∧ s.head? ≠ some '.' ∧ s.getLast? ≠ some '.'
  ∧ ¬ dotLock <:+ s
  ∧ ¬ ['.', '.'] <:+: s

theorem noEmptySeg_of (n : Str) (h1 : n ≠ []) (h2 : n.head? ≠ some '/') (h3 : n.getLast? ≠ some '/')
    (h4 : ¬ ['/', '/'] <:+: n) : (splitSlash n).any List.isEmpty = false := by
  rw [any_isEmpty_splitSlash]
  have e1 : n.isEmpty = false := by simpa [List.isEmpty_iff] using h1
  have e2 : startsWithChar '/' n = false := by simpa [startsWithChar] using h2
  have e3 : endsWithChar '/' n = false := by simpa [endsWithChar] using h3
  have e4 : containsSub ['/', '/'] n = false := by
    cases h : containsSub ['/', '/'] n
    · rfl
    · exact absurd ((containsSub_iff _ _).mp h) h4
  simp [e1, e2, e3, e4]

/-- `check_valid_branch` accepts exactly the documented grammar -/
theorem name_grammar_branch (an : Char → Bool) (n : Str) :
    checkValidBranch an n = none ↔ BranchGrammar an n := by
  unfold checkValidBranch BranchGrammar
  by_cases h1 : n = []
  · simp [h1]
  have e1 : n.isEmpty = false := by simpa [List.isEmpty_iff] using h1
  simp only [e1, Bool.false_eq_true, if_false]
  by_cases h2 : n.head? = some '/'
  · simp [startsWithChar, h2]
  by_cases h3 : n.getLast? = some '/'
  · simp [endsWithChar, h3]
  have e2 : (startsWithChar '/' n || endsWithChar '/' n) = false := by
    simp [startsWithChar, endsWithChar, h2, h3]
  simp only [e2, Bool.false_eq_true, if_false]
  by_cases h4 : ['/', '/'] <:+: n
  · simp [(containsSub_iff _ _).mpr h4, h4]
  have e4 : containsSub ['/', '/'] n = false := by
    cases h : containsSub ['/', '/'] n
    · rfl
    · exact absurd ((containsSub_iff _ _).mp h) h4
  simp only [e4, Bool.false_eq_true, if_false]
  by_cases h5 : ['.', '.'] <:+: n
  · simp [(containsSub_iff _ _).mpr h5, h5]
  have e5 : containsSub ['.', '.'] n = false := by
    cases h : containsSub ['.', '.'] n
    · rfl
    · exact absurd ((containsSub_iff _ _).mp h) h5
  by_cases h6 : '\\' ∈ n
  · simp [h6]
  have e6 : n.contains '\\' = false := by simpa using h6
  simp only [e5, e6, Bool.or_self, Bool.false_eq_true, if_false]
  have hne := noEmptySeg_of n h1 h2 h3 h4
  cases hb : firstBadSeg an (splitSlash n) with
  | some e =>
    simp only [reduceCtorEq, false_iff]
    rintro ⟨_, _, _, _, _, _, hseg, _⟩
    have : firstBadSeg an (splitSlash n) = none := by
      rw [firstBadSeg_none_iff]
      intro s hs
      refine ⟨?_, hseg s hs⟩
      intro hs0
      have : (splitSlash n).any List.isEmpty = true := by
        rw [List.any_eq_true]; exact ⟨s, hs, by simp [hs0]⟩
      rw [hne] at this; exact absurd this (by simp)
    rw [this] at hb; exact absurd hb (by simp)
  | none =>
    have hseg := (firstBadSeg_none_iff an _).mp hb
    by_cases h7 : dotLock <:+ n
    · simp [List.isSuffixOf_iff_suffix.mpr h7, h7]
    have e7 : dotLock.isSuffixOf n = false := by
      cases h : dotLock.isSuffixOf n
      · rfl
      · exact absurd (List.isSuffixOf_iff_suffix.mp h) h7
    simp only [e7, Bool.false_eq_true, if_false]
    by_cases h8 : n = mainName
    · simp [h8]
    have e8 : (n == mainName) = false := by simpa using h8
    simp only [e8, Bool.false_eq_true, if_false, true_iff]
    exact ⟨h1, h2, h3, h4, h5, h6, fun s hs => (hseg s hs).2, h7, h8⟩

/-- the "empty segments between '/'" branch of `check_valid_branch` is dead code: rules 1–3 already exclude it -/
theorem branch_emptySegment_unreachable (an : Char → Bool) (n : Str) :
    checkValidBranch an n ≠ some .emptySegment := by
  unfold checkValidBranch
  split; · simp
  split; · simp
  split; · simp
  split; · simp
  rename_i h1 h2 h3 h4
  have hne : (splitSlash n).any List.isEmpty = false := by
    rw [any_isEmpty_splitSlash]
    simp only [Bool.or_eq_true, not_or, Bool.not_eq_true] at h2
    simp only [Bool.not_eq_true] at h1 h3
    simp [h1, h2.1, h2.2, h3]
  have := firstBadSeg_ne_emptySegment_of an _ hne
  split
  · rename_i e he; intro h; injection h with h; subst h; exact this he
  · split; · simp
    split <;> simp

/-- `check_valid_tag` accepts exactly the documented grammar -/
theorem name_grammar_tag (an : Char → Bool) (s : Str) :
    checkValidTag an s = none ↔ TagGrammar an s := by
  unfold checkValidTag TagGrammar
  by_cases h1 : s = []
  · simp [h1]
  have e1 : s.isEmpty = false := by simpa [List.isEmpty_iff] using h1
  simp only [e1, Bool.false_eq_true, if_false]
  by_cases h2 : s.all (segChar an) = true
  · simp only [h2, Bool.not_true, Bool.false_eq_true, if_false]
    have h2' : ∀ c ∈ s, segChar an c = true := by simpa [List.all_eq_true] using h2
    by_cases h3 : s.head? = some '.'
    · simp [startsWithChar, h3]
    by_cases h4 : s.getLast? = some '.'
    · simp [startsWithChar, endsWithChar, h3, h4]
    have e3 : startsWithChar '.' s = false := by simp [startsWithChar, h3]
    have e4 : endsWithChar '.' s = false := by simp [endsWithChar, h4]
    simp only [e3, e4, Bool.false_eq_true, if_false]
    by_cases h5 : dotLock <:+ s
    · simp [List.isSuffixOf_iff_suffix.mpr h5, h5]
    have e5 : dotLock.isSuffixOf s = false := by
      cases h : dotLock.isSuffixOf s
      · rfl
      · exact absurd (List.isSuffixOf_iff_suffix.mp h) h5
    simp only [e5, Bool.false_eq_true, if_false]
    by_cases h6 : ['.', '.'] <:+: s
    · simp [(containsSub_iff _ _).mpr h6, h6]
    have e6 : containsSub ['.', '.'] s = false := by
      cases h : containsSub ['.', '.'] s
      · rfl
      · exact absurd ((containsSub_iff _ _).mp h) h6
    simp only [e6, Bool.false_eq_true, if_false, true_iff]
    exact ⟨h1, h2', h3, h4, h5, h6⟩
  · have h2f : s.all (segChar an) = false := by simpa using h2
    simp only [h2f, Bool.not_false, if_true, reduceCtorEq, false_iff]
    rintro ⟨_, h, _⟩
    exact h2 (by simpa [List.all_eq_true] using h)

/-- a valid branch name is a non-empty `/`-separated list of non-empty slash-free segments of allowed characters,
and is determined by its segments (`split`/`join` round trip): this is what makes `tree/<name>` a directory path -/
theorem valid_branch_segments (an : Char → Bool) (n : Str) (h : checkValidBranch an n = none) :
    splitSlash n ≠ [] ∧ joinSlash (splitSlash n) = n
    ∧ ∀ s ∈ splitSlash n, s ≠ [] ∧ '/' ∉ s ∧ ∀ c ∈ s, segChar an c = true := by
  obtain ⟨h1, h2, h3, h4, _, _, hseg, _, _⟩ := (name_grammar_branch an n).mp h
  refine ⟨splitSlash_ne_nil n, joinSlash_splitSlash n, fun s hs => ⟨?_, slash_not_mem_of_mem_splitSlash n s hs, hseg s hs⟩⟩
  intro hs0
  have hne := noEmptySeg_of n h1 h2 h3 h4
  have : (splitSlash n).any List.isEmpty = true := by
    rw [List.any_eq_true]; exact ⟨s, hs, by simp [hs0]⟩
  rw [hne] at this; exact absurd this (by simp)

/-- a tag is a single path segment -/
theorem valid_tag_no_slash (an : Char → Bool) (han : an '/' = false) (s : Str) (h : checkValidTag an s = none) :
    '/' ∉ s := by
  obtain ⟨_, hc, _⟩ := (name_grammar_tag an s).mp h
  intro hm
  have := hc '/' hm
  simp [segChar, han] at this

-- non-vacuity: concrete names on both sides of each grammar
example : checkValidBranch Char.isAlphanum "feature/a-1_b.c".toList = none := by decide
example : BranchGrammar Char.isAlphanum "feature/a-1_b.c".toList :=
  (name_grammar_branch _ _).mp (by decide)
example : checkValidBranch Char.isAlphanum "a//b".toList = some .doubleSlash := by decide
example : checkValidBranch Char.isAlphanum "a/x.lock".toList = some .lock := by decide
example : checkValidBranch Char.isAlphanum "main".toList = some .main := by decide
example : checkValidBranch Char.isAlphanum "a@b".toList = some .badChar := by decide
example : checkValidTag Char.isAlphanum "v1.2.3-rc4".toList = none := by decide
example : checkValidTag Char.isAlphanum "a/b".toList = some .badChar := by decide
example : checkValidTag Char.isAlphanum "a..b".toList = some .dotdot := by decide

/-! ## 2. Deleting a branch removes only that branch's own storage (Branches::get_cleanup_path)

Directories are segment lists below `tree/`; the directory of branch `y` is `splitSlash y`. -/

/-- `get_cleanup_path`, for ALL strings: a returned directory is a non-empty directory prefix of `tree/x` (so it
contains everything stored below `tree/x`) and is a directory prefix of no remaining branch's directory; `None` is
returned only when a remaining branch lives at or below `tree/x`. -/
theorem delete_own_storage (x : Str) (rem : List Str) :
    match cleanupSegs x rem with
    | some p => p ≠ [] ∧ p <+: splitSlash x ∧ ∀ y ∈ rem, ¬ p <+: splitSlash y
    | none => ∃ y ∈ rem, splitSlash x <+: splitSlash y := by
  by_cases h : longestUsed (splitSlash x) rem = (splitSlash x).length
  · simp only [cleanupSegs, if_pos h]
    rcases longestUsed_attained (splitSlash x) rem with h0 | ⟨y, hy, e⟩
    · have := splitSlash_length_pos x; omega
    · exact ⟨y, hy, prefix_of_commonLen_eq _ _ (by rw [e, h])⟩
  · simp only [cleanupSegs, if_neg h]
    have hle := longestUsed_le (splitSlash x) rem
    have hlt : longestUsed (splitSlash x) rem + 1 ≤ (splitSlash x).length := by omega
    refine ⟨?_, List.take_prefix _ _, ?_⟩
    · intro h0
      have := congrArg List.length h0
      simp only [List.length_take, List.length_nil] at this
      omega
    · intro y hy hp
      have h1 := le_commonLen_of_take_prefix _ _ _ hlt hp
      have h2 := commonLen_le_longestUsed (splitSlash x) rem y hy
      omega

/-- names of the directories a dataset keeps below its root -/
def reservedDirs : List Str :=
  ["_versions".toList, "data".toList, "_transactions".toList, "_deletions".toList, "_indices".toList]

/-- `o` (segments below `tree/`) is an object of branch `y`'s storage: `tree/<y>/<reserved dir>/…` -/
def IsStorageOf (y : Str) (o : List Str) : Prop :=
  ∃ r ∈ reservedDirs, ∃ rest, o = splitSlash y ++ r :: rest

/-- FULL statement at the level of stored objects: the removed directory contains all of `x`'s storage and no object of a
remaining branch's storage. -/
def delete_own_storage_objects_full : Prop :=
  ∀ (an : Char → Bool) (x : Str) (rem : List Str), checkValidBranch an x = none →
    (∀ y ∈ rem, checkValidBranch an y = none) → ∀ p, cleanupSegs x rem = some p →
    (∀ o, IsStorageOf x o → p <+: o) ∧ (∀ y ∈ rem, ∀ o, IsStorageOf y o → ¬ p <+: o)

theorem prefix_append_cases {α} : ∀ (p a b : List α), p <+: a ++ b → p <+: a ∨ ∃ q, p = a ++ q ∧ q <+: b
  | [], _, _, _ => Or.inl List.nil_prefix
  | x :: p, [], b, h => Or.inr ⟨x :: p, by simp, by simpa using h⟩
  | x :: p, y :: a, b, h => by
    simp only [List.cons_append, List.cons_prefix_cons] at h
    obtain ⟨rfl, h⟩ := h
    rcases prefix_append_cases p a b h with h | ⟨q, rfl, hq⟩
    · exact Or.inl ((List.cons_prefix_cons).mpr ⟨rfl, h⟩)
    · exact Or.inr ⟨q, by simp, hq⟩

/-- it holds whenever no segment of the deleted branch's name is a reserved directory name (this excludes exactly
names like `a/data`, `a/_versions/x`, whose directory lies inside the storage of branch `a`) -/
theorem delete_own_storage_objects_partial (x : Str) (rem : List Str)
    (hres : ∀ s ∈ splitSlash x, s ∉ reservedDirs) (p : List Str) (hp : cleanupSegs x rem = some p) :
    (∀ o, IsStorageOf x o → p <+: o) ∧ (∀ y ∈ rem, ∀ o, IsStorageOf y o → ¬ p <+: o) := by
  have h := delete_own_storage x rem
  rw [hp] at h
  obtain ⟨hne, hpx, hrem⟩ := h
  constructor
  · rintro o ⟨r, _, rest, rfl⟩
    exact List.IsPrefix.trans hpx (List.prefix_append _ _)
  · rintro y hy o ⟨r, hr, rest, rfl⟩ hpo
    rcases prefix_append_cases p _ _ hpo with h | ⟨q, rfl, hq⟩
    · exact hrem y hy h
    · cases q with
      | nil => exact hrem y hy (by simp)
      | cons c q =>
        simp only [List.cons_prefix_cons] at hq
        obtain ⟨rfl, _⟩ := hq
        have : c ∈ splitSlash x := hpx.subset (by simp)
        exact hres c this hr

/-- … and fails without that hypothesis: deleting branch `a/data` while branch `a` remains removes `tree/a/data`,
the data directory of branch `a` -/
theorem delete_own_storage_objects_counterexample : ¬ delete_own_storage_objects_full := by
  intro h
  have := (h Char.isAlphanum "a/data".toList ["a".toList] (by decide) (by decide)
    ["a".toList, "data".toList] (by decide)).2 "a".toList (by simp)
    ["a".toList, "data".toList, "0.lance".toList]
    ⟨"data".toList, by decide, ["0.lance".toList], by decide⟩
  exact this (by decide)

-- non-vacuity
example : cleanupSegs "ab".toList ["ac".toList, "a/b".toList] = some ["ab".toList] := by decide
example : cleanupSegs "a/b/c".toList ["a/b/d".toList, "a/e".toList] = some ["a".toList, "b".toList, "c".toList] := by decide
example : cleanupSegs "f/auth/m".toList ["f/other".toList] = some ["f".toList, "auth".toList] := by decide
example : cleanupSegs "a/b".toList ["a/b/c".toList] = none := by decide
example : ∀ s ∈ splitSlash "a/b/c".toList, s ∉ reservedDirs := by decide

/-! ### the function at the pinned commit (before the `fix:`): shared CHARACTER prefix, byte slicing -/

/-- with branches `ab`, `ac`, `a/b`, deleting `ab` removed `tree/a/b` (the storage of branch `a/b`) and kept `tree/ab` -/
theorem legacy_cleanup_counterexample :
    legacyCleanupRel "ab".toList ["ac".toList, "a/b".toList] = some (some "a/b".toList) := by decide

/-- a shared prefix that is a whole name but not a directory left the deleted branch's storage behind -/
theorem legacy_cleanup_leak : legacyCleanupRel "ab".toList ["abc".toList] = some none := by decide

/-- the character count was used as a byte index: panic inside a multi-byte character -/
theorem legacy_cleanup_panic : legacyCleanupRel "éa".toList ["éb".toList] = none := by decide

/-- `find_branch` (join_str + object_store `Path::parse`) sends a valid name without a `.` segment to the directory
`tree/<segments>`: the segment lists of section 2 are the real paths.  (A valid name WITH a `.` segment, e.g. `a/.`,
is accepted by `check_valid_branch` but is not a path: `find_branch` fails and the branch cannot be created.) -/
theorem valid_branch_dir (an : Char → Bool) (han : ∀ c, an c = true → isAsciiControl c = false)
    (n : Str) (hv : checkValidBranch an n = none) (hdot : ['.'] ∉ splitSlash n) :
    dirOfName n = some (branchDir (some n)) := by
  obtain ⟨h1, _, _, _, h5, _, hseg, _, _⟩ := (name_grammar_branch an n).mp hv
  obtain ⟨_, _, hs⟩ := valid_branch_segments an n hv
  refine dirOfName_segments n h1 ?_
  intro g hg
  refine ⟨(hs g hg).1, ?_⟩
  have e1 : g.isEmpty = false := by simpa [List.isEmpty_iff] using (hs g hg).1
  have e2 : (g == ['.']) = false := by
    apply beq_false_of_ne; intro e; subst e; exact hdot hg
  have e3 : (g == ['.', '.']) = false := by
    apply beq_false_of_ne; intro e; subst e; exact h5 (mem_splitSlash_infix n _ hg)
  have e4 : g.any isAsciiControl = false := by
    rw [Bool.eq_false_iff]
    intro h
    rw [List.any_eq_true] at h
    obtain ⟨c, hc, hctl⟩ := h
    have hsc := hseg g hg c hc
    simp only [segChar, Bool.or_eq_true, beq_iff_eq] at hsc
    rcases hsc with ((hsc | rfl) | rfl) | rfl
    · rw [han c hsc] at hctl; exact absurd hctl (by simp)
    · revert hctl; decide
    · revert hctl; decide
    · revert hctl; decide
  simp [badPart, e1, e2, e3, e4]

example : dirOfName "feature/a-1".toList = some ["tree".toList, "feature".toList, "a-1".toList] := by decide
example : dirOfName "a/.".toList = none := by decide

/-! ## 3. Tags resolve to what they were given -/

/-- `tags().get` after `create`/`update` with `(branch, version)` returns exactly that pair -/
theorem tag_resolves (s : St) (t : Str) (tgt : RefTarget) :
    tagGet { s with tags := set s.tags t tgt } t = some tgt := by
  simp [tagGet, get_set_self]

/-- creating, updating or deleting ANOTHER tag does not change what a tag resolves to -/
theorem tag_frame (s : St) (t t' : Str) (tgt : RefTarget) (h : t ≠ t') :
    tagGet { s with tags := set s.tags t' tgt } t = tagGet s t
    ∧ tagGet { s with tags := del s.tags t' } t = tagGet s t := by
  simp [tagGet, get_set_other _ _ _ _ h, get_del_other _ _ _ h]

/-- writes, branch creation, shallow clones, branch deletion and cleanup never touch a tag -/
theorem tag_untouched (s : St) (t : Str) :
    (∀ d o rows s' v, writeOp s d o rows = some (s', v) → tagGet s' t = tagGet s t)
    ∧ (∀ a b v s', cloneOp s a b v = some s' → tagGet s' t = tagGet s t)
    ∧ (∀ x, tagGet (deleteBranchStore s x) t = tagGet s t)
    ∧ (∀ d, tagGet (cleanupStore s d) t = tagGet s t) := by
  refine ⟨?_, ?_, ?_, ?_⟩
  · intro d o rows s' v h; simp [tagGet, (writeOp_ext h).2.1]
  · intro a b v s' h; simp [tagGet, (cloneOp_ext h).2.1]
  · intro x; unfold deleteBranchStore; split <;> simp [tagGet, removeUnder]
  · intro d; simp [tagGet, cleanupStore]

example : tagGet { St.empty with tags := set [] "v1".toList (some "dev".toList, 3) } "v1".toList
    = some (some "dev".toList, 3) := by decide

/-! ## 4. Isolation: an operation on one dataset does not change what any other reference reads -/

/-- appends and overwrites (on any branch, the main table or the clone), branch creation and shallow clones only ADD
objects: every version of every dataset that could be read before reads the same rows afterwards — other branches,
the main table, tagged versions, the clone source, and older versions of the written branch itself -/
theorem write_isolated (s : St) (d' : Dir) (v : Nat) (r : List Row) (hr : readVersion s d' v = .ok r) :
    (∀ d o rows s' v', writeOp s d o rows = some (s', v') → readVersion s' d' v = .ok r)
    ∧ (∀ a b w s', cloneOp s a b w = some s' → readVersion s' d' v = .ok r) :=
  ⟨fun _ _ _ _ _ h => readVersion_ext (writeOp_ext h).1 hr, fun _ _ _ _ h => readVersion_ext (cloneOp_ext h).1 hr⟩

/-- a new branch / clone reads, at its first version, exactly what the source version read -/
theorem clone_reads_source (s s' : St) (a b : Dir) (v : Nat) (r : List Row)
    (h : cloneOp s a b v = some s') (hr : readVersion s a v = .ok r) : readVersion s' b v = .ok r := by
  obtain ⟨fs, h1, h2⟩ := cloneOp_manifest h
  obtain ⟨fs', h1', hf⟩ := (readVersion_ok_iff s a v r).mp hr
  rw [h1] at h1'; cases h1'
  exact (readVersion_ok_iff s' b v r).mpr
    ⟨fs, h2, readFiles_mono fs r (fun f _ r hf => (cloneOp_ext h).1.2 f r hf) hf⟩

/-- the operations that only add objects or move tags (a failed one changes nothing) -/
inductive AddOp where
  | write (d : Dir) (overwrite : Bool) (rows : List Row)
  | clone (a b : Dir) (v : Nat)
  | tagSet (t : Str) (tgt : RefTarget)
  | tagDel (t : Str)

def applyAdd (s : St) : AddOp → St
  | .write d o rows => match writeOp s d o rows with
    | some (s', _) => s'
    | none => s
  | .clone a b v => match cloneOp s a b v with
    | some s' => s'
    | none => s
  | .tagSet t tgt => { s with tags := set s.tags t tgt }
  | .tagDel t => { s with tags := del s.tags t }

theorem applyAdd_ext (s : St) (op : AddOp) : Ext s (applyAdd s op) := by
  cases op with
  | write d o rows =>
    simp only [applyAdd]
    cases h : writeOp s d o rows with
    | none => exact Ext.refl s
    | some p => obtain ⟨s', v⟩ := p; exact (writeOp_ext h).1
  | clone a b v =>
    simp only [applyAdd]
    cases h : cloneOp s a b v with
    | none => exact Ext.refl s
    | some s' => exact (cloneOp_ext h).1
  | tagSet t tgt => exact ⟨fun _ _ h => h, fun _ _ h => h⟩
  | tagDel t => exact ⟨fun _ _ h => h, fun _ _ h => h⟩

/-- over ANY history of writes (to any branch, main or the clone), branch creations, shallow clones and tag
operations, every version that was readable keeps reading the same rows -/
theorem history_isolated (ops : List AddOp) (s : St) (d : Dir) (v : Nat) (r : List Row)
    (h : readVersion s d v = .ok r) : readVersion (ops.foldl applyAdd s) d v = .ok r := by
  induction ops generalizing s with
  | nil => exact h
  | cons op ops ih => exact ih (applyAdd s op) (readVersion_ext (applyAdd_ext s op) h)

/-- removing a directory leaves a version readable, with the same rows, when neither its manifest nor any file it
lists lies below that directory -/
theorem remove_isolated (s : St) (p : List Str) (d : Dir) (v : Nat) (r : List Row) (fs : List FileRef)
    (hm : get s.mans (d, v) = some fs) (hr : readFiles s.files fs = some r)
    (h1 : ¬ p <+: manifestPath d v) (h2 : ∀ f ∈ fs, ¬ p <+: filePath f) :
    readVersion (removeUnder s p) d v = .ok r := by
  refine (readVersion_ok_iff _ d v r).mpr ⟨fs, ?_, ?_⟩
  · rw [removeUnder_mans]
    have : p.isPrefixOf (manifestPath d v) = false := by
      cases h : p.isPrefixOf (manifestPath d v)
      · rfl
      · exact absurd (List.isPrefixOf_iff_prefix.mp h) h1
    simp [this, hm]
  · refine readFiles_mono fs r ?_ hr
    intro f hf r' hg
    rw [removeUnder_files]
    have : p.isPrefixOf (filePath f) = false := by
      cases h : p.isPrefixOf (filePath f)
      · rfl
      · exact absurd (List.isPrefixOf_iff_prefix.mp h) (h2 f hf)
    simp [this, hg]

/-- a file written by the main table or by a branch whose `BranchContents` remains -/
def OwnedByRemaining (s : St) (x : Str) (f : FileRef) : Prop :=
  f.dir = [] ∨ ∃ y, y ∈ (del s.contents x).map (·.1) ∧ f.dir = branchDir (some y)

/-- FULL: deleting branch `x` changes no version of the main table or of a remaining branch -/
def delete_branch_isolated_full : Prop :=
  ∀ (an : Char → Bool) (s : St) (x : Str), checkValidBranch an x = none →
    (∀ y ∈ s.contents.map (·.1), checkValidBranch an y = none) →
    ∀ (d : Dir), (d = [] ∨ ∃ y, y ∈ (del s.contents x).map (·.1) ∧ d = branchDir (some y)) →
    ∀ v r, readVersion s d v = .ok r → readVersion (deleteBranchStore s x) d v = .ok r

theorem tree_not_prefix_main (p : List Str) (a b : Str) (ha : a ≠ treeDir) : ¬ (treeDir :: p) <+: [] ++ [a, b] := by
  intro h
  simp only [List.nil_append, List.cons_prefix_cons] at h
  exact ha h.1.symm

/-- it holds when (a) no segment of `x` is a reserved directory name and (b) the version being read only lists files
written by the main table or by remaining branches (it does not depend on files in the deleted branch's directory) -/
theorem delete_branch_isolated_partial (s : St) (x : Str)
    (hres : ∀ g ∈ splitSlash x, g ∉ reservedDirs)
    (d : Dir) (hd : d = [] ∨ ∃ y, y ∈ (del s.contents x).map (·.1) ∧ d = branchDir (some y))
    (v : Nat) (r : List Row) (fs : List FileRef)
    (hm : get s.mans (d, v) = some fs) (hr : readFiles s.files fs = some r)
    (hown : ∀ f ∈ fs, OwnedByRemaining s x f) :
    readVersion (deleteBranchStore s x) d v = .ok r := by
  unfold deleteBranchStore
  cases hc : cleanupSegs x ((del s.contents x).map (·.1)) with
  | none => exact (readVersion_ok_iff _ d v r).mpr ⟨fs, hm, hr⟩
  | some p =>
    have key := (delete_own_storage_objects_partial x _ hres p hc).2
    have hdir : ∀ (e : Dir) (a b : Str), a ∈ reservedDirs →
        (e = [] ∨ ∃ y, y ∈ (del s.contents x).map (·.1) ∧ e = branchDir (some y)) →
        ¬ (treeDir :: p) <+: e ++ [a, b] := by
      intro e a b ha he
      rcases he with rfl | ⟨y, hy, rfl⟩
      · refine tree_not_prefix_main p a b ?_
        intro h; subst h; revert ha; decide
      · intro h
        simp only [branchDir, List.cons_append, List.cons_prefix_cons, true_and] at h
        exact key y hy (splitSlash y ++ [a, b]) ⟨a, ha, [b], rfl⟩ h
    refine remove_isolated { s with contents := del s.contents x } (treeDir :: p) d v r fs hm hr ?_ ?_
    · exact hdir d versionsDir (natStr v) (by decide) hd
    · intro f hf
      exact hdir f.dir dataDir (natStr f.fid) (by decide) (hown f hf)

/-- (b) is needed: a branch created from another branch keeps reading the files in its parent's directory;
deleting the parent removes them (create b1 from main, append on b1, create b2 from b1, delete b1: b2 is unreadable) -/
def childState : St :=
  { mans := [(([], 1), [⟨[], 0⟩]),
             ((branchDir (some "b1".toList), 1), [⟨[], 0⟩]),
             ((branchDir (some "b1".toList), 2), [⟨[], 0⟩, ⟨branchDir (some "b1".toList), 1⟩]),
             ((branchDir (some "b2".toList), 2), [⟨[], 0⟩, ⟨branchDir (some "b1".toList), 1⟩])],
    files := [(⟨[], 0⟩, [[some 1]]), (⟨branchDir (some "b1".toList), 1⟩, [[some 2]])],
    contents := [("b1".toList, (none, 1)), ("b2".toList, (some "b1".toList, 2))],
    tags := [], nextFid := 2 }

theorem delete_branch_isolated_counterexample : ¬ delete_branch_isolated_full := by
  intro h
  have := h Char.isAlphanum childState "b1".toList (by decide) (by decide)
    (branchDir (some "b2".toList)) (Or.inr ⟨"b2".toList, by decide, rfl⟩) 2 [[some 1], [some 2]] (by decide)
  revert this
  decide

-- non-vacuity of the partial theorem: in the same state, deleting b2 leaves b1 (and main) readable
example : readVersion (deleteBranchStore childState "b2".toList) (branchDir (some "b1".toList)) 2
    = .ok [[some 1], [some 2]] := by decide
example : ∀ f ∈ [(⟨[], 0⟩ : FileRef), ⟨branchDir (some "b1".toList), 1⟩], OwnedByRemaining childState "b2".toList f := by
  intro f hf
  simp only [List.mem_cons, List.mem_nil_iff, or_false] at hf
  rcases hf with rfl | rfl
  · exact Or.inl rfl
  · exact Or.inr ⟨"b1".toList, by decide, rfl⟩

/-- FULL: cleanup on one dataset changes no version of any OTHER dataset -/
def cleanup_isolated_full : Prop :=
  ∀ (s : St) (d d' : Dir), d' ≠ d → ∀ v r, readVersion s d' v = .ok r → readVersion (cleanupStore s d) d' v = .ok r

/-- it holds for versions that list no file of the cleaned dataset other than those its kept manifests list -/
theorem cleanup_isolated_partial (s : St) (d d' : Dir) (hne : d' ≠ d) (v : Nat) (r : List Row) (fs : List FileRef)
    (hm : get s.mans (d', v) = some fs) (hr : readFiles s.files fs = some r)
    (hkept : ∀ f ∈ fs, f.dir ≠ d ∨ f ∈ keptFiles s d) :
    readVersion (cleanupStore s d) d' v = .ok r := by
  refine (readVersion_ok_iff _ d' v r).mpr ⟨fs, ?_, ?_⟩
  · rw [cleanupStore_mans s d d' v hne]; exact hm
  · refine readFiles_mono fs r ?_ hr
    intro f hf r' hg
    rw [cleanupStore_files s d f (hkept f hf)]; exact hg

/-- the kept versions of the cleaned dataset itself stay readable -/
theorem cleanup_keeps_retained (s : St) (d : Dir) (v : Nat) (r : List Row)
    (hret : retained s d v = true) (hr : readVersion s d v = .ok r) :
    readVersion (cleanupStore s d) d v = .ok r := by
  obtain ⟨fs, hm, hf⟩ := (readVersion_ok_iff s d v r).mp hr
  refine (readVersion_ok_iff _ d v r).mpr ⟨fs, ?_, ?_⟩
  · rw [cleanupStore_mans_retained s d v hret]; exact hm
  · refine readFiles_mono fs r ?_ hf
    intro f hfm r' hg
    rw [cleanupStore_files s d f]
    · exact hg
    · refine Or.inr ?_
      simp only [keptFiles, List.mem_flatMap, List.mem_filter, decide_eq_true_eq]
      refine ⟨((d, v), fs), ⟨?_, rfl, hret⟩, hfm⟩
      clear hf hr
      generalize s.mans = m at hm
      induction m with
      | nil => simp [get] at hm
      | cons e m ih =>
        obtain ⟨k', v'⟩ := e
        simp only [get] at hm
        split at hm
        · rename_i hk; simp only [Option.some.injEq] at hm; subst hm; subst hk; simp
        · exact List.mem_cons_of_mem _ (ih hm)

/-- the cross-branch defect: create the table, create branch `dev` at version 1, overwrite main, clean up main —
`dev` still lists main's first data file, which cleanup removed because no manifest OF MAIN lists it any more -/
def cleanupState : St :=
  { mans := [(([], 1), [⟨[], 0⟩]),
             ((branchDir (some "dev".toList), 1), [⟨[], 0⟩]),
             (([], 2), [⟨[], 1⟩])],
    files := [(⟨[], 0⟩, [[some 1], [some 2]]), (⟨[], 1⟩, [[some 9]])],
    contents := [("dev".toList, (none, 1))], tags := [], nextFid := 2 }

theorem cleanup_isolated_counterexample : ¬ cleanup_isolated_full := by
  intro h
  have := h cleanupState [] (branchDir (some "dev".toList)) (by decide) 1 [[some 1], [some 2]] (by decide)
  revert this
  decide

-- non-vacuity: cleanup of `dev` in that state leaves main readable (main lists no file of `dev`)
example : readVersion (cleanupStore cleanupState (branchDir (some "dev".toList))) [] 2 = .ok [[some 9]] := by decide

-- non-vacuity of history_isolated: overwrite main, branch from the new version, write on the branch — main@1 unchanged
example : readVersion ([AddOp.write [] true [[some 9]], .clone [] (branchDir (some "b".toList)) 2,
      .write (branchDir (some "b".toList)) false [[some 3]]].foldl applyAdd cleanupState) [] 1
    = .ok [[some 1], [some 2]] := by decide

end LanceModel.C09
