/-
C09 model, part 1 (pure core): branch / tag name validators, branch locations, the branch-contents file name and the
cleanup path of a branch deletion.  Strings are `List Char` (the Rust code works on `&str`; byte lengths are
`utf8Len`).  Import-free.

`an : Char → Bool` is `char::is_alphanumeric` (Unicode).  It is a parameter: every theorem holds for every such
predicate; the driver instantiates it with a predicate that agrees with Rust on the harness alphabet.
-/
namespace LanceModel.C09

abbrev Str := List Char

/-! ## string helpers (counterparts of `str` methods) -/

/-- prepend a character to the first segment -/
def consHead (c : Char) : List Str → List Str
  | [] => [[c]]
  | s :: ss => (c :: s) :: ss

/-- `str::split('/')` -/
def splitSlash : Str → List Str
  | [] => [[]]
  | c :: cs => if c = '/' then [] :: splitSlash cs else consHead c (splitSlash cs)

/-- `segments.join("/")` -/
def joinSlash : List Str → Str
  | [] => []
  | [s] => s
  | s :: t :: ss => s ++ '/' :: joinSlash (t :: ss)

/-- `str::contains(pat)` for a non-empty pattern -/
def containsSub (p : Str) : Str → Bool
  | [] => p.isEmpty
  | c :: cs => p.isPrefixOf (c :: cs) || containsSub p cs

def startsWithChar (c : Char) (s : Str) : Bool := s.head? == some c
def endsWithChar (c : Char) (s : Str) : Bool := s.getLast? == some c

def dotLock : Str := ['.', 'l', 'o', 'c', 'k']
def mainName : Str := ['m', 'a', 'i', 'n']

/-- characters allowed in a branch segment / a tag: alphanumeric, `.`, `-`, `_` -/
def segChar (an : Char → Bool) (c : Char) : Bool := an c || c == '.' || c == '-' || c == '_'

/-! ## refs.rs: check_valid_branch / check_valid_tag -/

inductive BErr where
  | empty | edgeSlash | doubleSlash | dotdotBackslash | emptySegment | badChar | lock | main
  deriving DecidableEq, Repr

/-- the `for segment in branch_name.split('/')` loop of `check_valid_branch` -/
def firstBadSeg (an : Char → Bool) : List Str → Option BErr
  | [] => none
  | s :: ss =>
    if s.isEmpty then some .emptySegment
    else if !s.all (segChar an) then some .badChar
    else firstBadSeg an ss

/-- rust/lance/src/dataset/refs.rs: `check_valid_branch`; `none` = `Ok(())`, the checks in source order -/
def checkValidBranch (an : Char → Bool) (n : Str) : Option BErr :=
  if n.isEmpty then some .empty
  else if startsWithChar '/' n || endsWithChar '/' n then some .edgeSlash
  else if containsSub ['/', '/'] n then some .doubleSlash
  else if containsSub ['.', '.'] n || n.contains '\\' then some .dotdotBackslash
  else match firstBadSeg an (splitSlash n) with
    | some e => some e
    | none =>
      if dotLock.isSuffixOf n then some .lock
      else if n == mainName then some .main
      else none

inductive TErr where
  | empty | badChar | leadDot | trailDot | lock | dotdot
  deriving DecidableEq, Repr

/-- rust/lance/src/dataset/refs.rs: `check_valid_tag` -/
def checkValidTag (an : Char → Bool) (s : Str) : Option TErr :=
  if s.isEmpty then some .empty
  else if !s.all (segChar an) then some .badChar
  else if startsWithChar '.' s then some .leadDot
  else if endsWithChar '.' s then some .trailDot
  else if dotLock.isSuffixOf s then some .lock
  else if containsSub ['.', '.'] s then some .dotdot
  else none

/-! ## refs.rs: branch_contents_path — `Path::child` percent-encodes the name (only `/` matters for valid names) -/

/-- `%`-encoding of the characters of the harness alphabet that object_store's `PathPart::from` encodes.
Valid branch names only ever contain `/` among them. -/
def encodeChar (c : Char) : Str :=
  if c = '/' then ['%', '2', 'F']
  else if c = '\\' then ['%', '5', 'C']
  else if c = '%' then ['%', '2', '5']
  else [c]

/-- file name of the `BranchContents` of a branch below `_refs/branches/` -/
def contentsFile (n : Str) : Str := (n.flatMap encodeChar) ++ ['.', 'j', 's', 'o', 'n']

/-! ## object_store `Path::parse` and branch_location.rs -/

def isAsciiControl (c : Char) : Bool := c.val < 32 || c.val == 127

def badPart (g : Str) : Bool := g.isEmpty || g == ['.'] || g == ['.', '.'] || g.any isAsciiControl

/-- object_store-0.12 `Path::parse`: the raw string of the parsed path, `none` = error -/
def pathParse (s : Str) : Option Str :=
  let s1 := if startsWithChar '/' s then s.tail else s
  if s1.isEmpty then some []
  else
    let s2 := if endsWithChar '/' s1 then s1.dropLast else s1
    if (splitSlash s2).any badPart then none else some s2

/-- `BranchLocation::join_str` -/
def joinStr (base seg : Str) : Str :=
  if endsWithChar '/' base then base ++ seg.dropWhile (· == '/')
  else base ++ '/' :: seg.dropWhile (· == '/')

structure Loc where
  path : Str
  uri : Str
  branch : Option Str
  deriving DecidableEq, Repr

def treeDir : Str := ['t', 'r', 'e', 'e']

/-- `str::strip_suffix` -/
def stripSuffix (suf s : Str) : Option Str :=
  if suf.isSuffixOf s then some (s.take (s.length - suf.length)) else none

/-- `str::trim_end_matches('/')` -/
def trimEndSlash (s : Str) : Str := (s.reverse.dropWhile (· == '/')).reverse

/-- `BranchLocation::get_root_path` (non-windows) -/
def getRootPath (pathStr branch : Str) : Option Str :=
  match stripSuffix (treeDir ++ '/' :: branch) pathStr with
  | none => none
  | some r => if endsWithChar '/' r then some (trimEndSlash r) else none

/-- `BranchLocation::find_main` -/
def findMain (l : Loc) : Option Loc :=
  match l.branch with
  | none => some l
  | some b =>
    match getRootPath l.path b, getRootPath l.uri b with
    | some p, some u =>
      match pathParse p with
      | some p' => some { path := p', uri := u, branch := none }
      | none => none
    | _, _ => none

/-- `BranchLocation::find_branch` -/
def findBranch (l : Loc) (target : Option Str) : Option Loc :=
  if target = l.branch then some l
  else match findMain l with
    | none => none
    | some root =>
      match target with
      | none => some root
      | some t =>
        if t.isEmpty then some { path := l.path, uri := l.uri, branch := some t }
        else
          let p := (splitSlash t).foldl joinStr (joinStr root.path treeDir)
          let u := (splitSlash t).foldl joinStr (joinStr root.uri treeDir)
          match pathParse p with
          | some p' => some { path := p', uri := u, branch := some t }
          | none => none

/-! ## refs.rs: Branches::get_cleanup_path -/

/-- number of leading segments two segment lists share -/
def commonLen : List Str → List Str → Nat
  | a :: as, b :: bs => if a = b then commonLen as bs + 1 else 0
  | _, _ => 0

/-- the loop over `remaining_branches`: the longest run of leading segments shared with a remaining branch -/
def longestUsed (segs : List Str) : List Str → Nat
  | [] => 0
  | c :: cs => max (commonLen segs (splitSlash c)) (longestUsed segs cs)

/-- the directory (segments below `tree/`) that `get_cleanup_path` asks to remove; `none` = `Ok(None)`:
the first `longest + 1` segments of the branch, unless every segment is shared with a remaining branch. -/
def cleanupSegs (branch : Str) (remaining : List Str) : Option (List Str) :=
  if longestUsed (splitSlash branch) remaining = (splitSlash branch).length then none
  else some ((splitSlash branch).take (longestUsed (splitSlash branch) remaining + 1))

inductive CleanupOut where
  | none
  | some (path : Str)
  | err
  deriving DecidableEq, Repr

/-- `Branches::get_cleanup_path(branch, remaining, base_location)` -/
def getCleanupPath (branch : Str) (remaining : List Str) (base : Loc) : CleanupOut :=
  match cleanupSegs branch remaining with
  | none => .none
  | some segs =>
    match findBranch base (some (joinSlash segs)) with
    | some l => .some l.path
    | none => .err

/-! ### the function as it was at the pinned commit (character prefix, byte slicing) — kept for the counterexamples -/

def commonChars : Str → Str → Nat
  | a :: as, b :: bs => if a = b then commonChars as bs + 1 else 0
  | _, _ => 0

def longestChars (b : Str) : List Str → Nat
  | [] => 0
  | c :: cs => max (commonChars b c) (longestChars b cs)

def utf8Len (s : Str) : Nat := (s.map (fun c => c.utf8Size)).sum

/-- `&s[..n]` with `n` a BYTE index: `none` = panic (not a char boundary / out of range) -/
def byteTake : Str → Nat → Option Str
  | _, 0 => some []
  | [], _ + 1 => none
  | c :: cs, n + 1 =>
    if c.utf8Size ≤ n + 1 then (byteTake cs (n + 1 - c.utf8Size)).map (c :: ·) else none

/-- `str::rfind('/')` as a char index (the legacy code only reaches it on ASCII-sliceable prefixes) -/
def cutAtLastSlash (s : Str) : Str :=
  match (splitSlash s).dropLast with
  | [] => s
  | init => joinSlash init

/-- legacy `get_cleanup_path`, result relative to `tree/`: `none` = panic, `some none` = `Ok(None)` -/
def legacyCleanupRel (branch : Str) (remaining : List Str) : Option (Option Str) :=
  let n := longestChars branch remaining
  if n = utf8Len branch then some none
  else match byteTake branch n with
    | none => none
    | some used0 =>
      let used := cutAtLastSlash used0
      let unused := (branch.drop used.length).dropWhile (· == '/')
      match splitSlash unused with
      | sub :: _ => some (some (used ++ '/' :: sub))
      | [] => some none

end LanceModel.C09
