import LanceModel.C09.Hist
/-
C09 model, part 3: the public operations (`Dataset::{create_branch, delete_branch, checkout_version, shallow_clone,
cleanup_old_versions}`, `Tags::{create_on_branch, update_on_branch, delete, get}`) as sequences of the storage
steps of `Hist.lean`, with the error each step reports.  Import-free.
-/
namespace LanceModel.C09
open LanceModel.Table

inductive Err where
  | invalidRef | refConflict | refNotFound | versionNotFound | notFound | targetExists | other
  deriving DecidableEq, Repr

def transactionsDir : Str := "_transactions".toList

def rootLoc : Loc := { path := ['r'], uri := ['r'], branch := none }

/-- `Dataset::find_branch_location` from the main table: the directory (segments below the table root) -/
def dirOfName (name : Str) : Option Dir :=
  match findBranch rootLoc (some name) with
  | some l => some ((splitSlash l.path).drop 1)
  | none => none

def dirOfRef : Option Str → Option Dir
  | none => some []
  | some n => dirOfName n

/-- opening a handle on the latest version of a dataset directory -/
def hasDataset (s : St) (d : Dir) : Bool := (latest s d).isSome

/-- `Branches::create` (after the clone commit) -/
def branchesCreate (an : Char → Bool) (s : St) (name : Str) (src : Option Str) (ver : Nat) : Except Err St :=
  if (checkValidBranch an name).isSome then .error .invalidRef
  else if (get s.contents name).isSome then .error .refConflict
  else match dirOfRef src with
    | none => .error .other
    | some sd =>
      if (get s.mans (sd, ver)).isNone then .error .versionNotFound
      else .ok { s with contents := s.contents ++ [(name, (src, ver))] }

/-- `Dataset::create_branch(name, (src, ver))` called on a handle whose dataset directory is `hd`.
The clone reads the manifest of THE HANDLE's dataset at `ver` (`ref_path = self.uri()`); the state after a failure
of the second phase keeps the cloned dataset (the documented "zombie"). -/
def createBranch (an : Char → Bool) (s : St) (hd : Dir) (name : Str) (src : Option Str) (ver : Nat) :
    St × Except Err Nat :=
  match dirOfName name with
  | none => (s, .error .other)
  | some nd =>
    -- a dataset that already lives at the target (a live branch or a zombie) makes the Clone commit fail
    -- (the harness reports every failure in that situation as `target_exists`)
    if hasDataset s nd then (s, .error .targetExists)
    else match cloneOp s hd nd ver with
      -- `do_commit_new_dataset` writes the transaction file before it looks for the source manifest
      | none => ({ s with junk := (nd ++ [transactionsDir, ['x']]) :: s.junk }, .error .notFound)
      | some s1 =>
        match branchesCreate an s1 name src ver with
        | .ok s2 => (s2, .ok ver)
        | .error e => (s1, .error e)

/-- `Tags::create_on_branch` / `Tags::update_on_branch` -/
def tagPut (an : Char → Bool) (s : St) (update : Bool) (t : Str) (br : Option Str) (ver : Nat) : Except Err St :=
  if (checkValidTag an t).isSome then .error .invalidRef
  else if !update && (get s.tags t).isSome then .error .refConflict
  else if update && (get s.tags t).isNone then .error .refNotFound
  else match dirOfRef br with
    | none => .error .other
    | some d =>
      if (get s.mans (d, ver)).isNone then .error .versionNotFound
      else .ok { s with tags := set s.tags t (br, ver) }

/-- `Tags::delete` -/
def tagDelete (an : Char → Bool) (s : St) (t : Str) : Except Err St :=
  if (checkValidTag an t).isSome then .error .invalidRef
  else if (get s.tags t).isNone then .error .refNotFound
  else .ok { s with tags := del s.tags t }

/-- `Tags::get` -/
def tagGetChecked (an : Char → Bool) (s : St) (t : Str) : Except Err RefTarget :=
  if (checkValidTag an t).isSome then .error .invalidRef
  else match get s.tags t with
    | none => .error .refNotFound
    | some x => .ok x

/-- is there any object below the directory `p` (local file system: does the directory exist) -/
def existsUnder (s : St) (p : List Str) : Bool :=
  s.mans.any (fun e => p.isPrefixOf (manifestPath e.1.1 e.1.2)) || s.files.any (fun e => p.isPrefixOf (filePath e.1))
    || s.junk.any (fun q => p.isPrefixOf q)

/-- `Branches::delete(branch, force)`: the contents file is deleted first, then the cleanup directory is removed
(`remove_dir_all` of a directory that does not exist reports `NotFound`, which `cleanup_branch_directories` only
ignores when it comes wrapped as an `Error::IO`) -/
def deleteBranch (an : Char → Bool) (s : St) (x : Str) (force : Bool) : St × Option Err :=
  if (checkValidBranch an x).isSome then (s, some .invalidRef)
  else if (get s.contents x).isNone && !force then (s, some .refNotFound)
  else
    match cleanupSegs x ((del s.contents x).map (·.1)) with
    | none => (deleteBranchStore s x, none)
    | some p =>
      -- the cleanup path goes through `find_branch` (a segment `.` is not a path)
      match dirOfName (joinSlash p) with
      | none => ({ s with contents := del s.contents x }, some .other)
      | some dir =>
        if existsUnder s dir then (deleteBranchStore s x, none)
        else ({ s with contents := del s.contents x }, some .notFound)

/-- dataset directories below `tree/` that hold at least one manifest, as `/`-joined names, sorted by the driver -/
def datasetDirs (s : St) : List Str :=
  (s.mans.filterMap (fun e => match e.1.1 with
    | t :: rest => if t = treeDir ∧ rest ≠ [] then some (joinSlash rest) else none
    | [] => none)).eraseDups

end LanceModel.C09
