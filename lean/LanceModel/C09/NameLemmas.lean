import LanceModel.C09.Model
/-
Lemmas about `splitSlash` / `joinSlash` / `containsSub` and the segment structure of valid names.
-/
namespace LanceModel.C09

theorem consHead_ne_nil (c : Char) (L : List Str) : consHead c L ≠ [] := by
  cases L <;> simp [consHead]

theorem splitSlash_ne_nil (l : Str) : splitSlash l ≠ [] := by
  cases l with
  | nil => simp [splitSlash]
  | cons c cs =>
    simp only [splitSlash]
    split
    · simp
    · exact consHead_ne_nil _ _

theorem splitSlash_length_pos (l : Str) : 0 < (splitSlash l).length :=
  List.length_pos_iff.mpr (splitSlash_ne_nil l)

theorem joinSlash_consHead (c : Char) (L : List Str) (h : L ≠ []) :
    joinSlash (consHead c L) = c :: joinSlash L := by
  match L, h with
  | [s], _ => simp [consHead, joinSlash]
  | s :: t :: ss, _ => simp [consHead, joinSlash]

theorem joinSlash_nil_cons (L : List Str) (h : L ≠ []) : joinSlash ([] :: L) = '/' :: joinSlash L := by
  match L, h with
  | t :: ss, _ => simp [joinSlash]

/-- `split('/')` followed by `join("/")` is the identity -/
theorem joinSlash_splitSlash (l : Str) : joinSlash (splitSlash l) = l := by
  induction l with
  | nil => simp [splitSlash, joinSlash]
  | cons c cs ih =>
    simp only [splitSlash]
    split
    · rename_i h
      rw [joinSlash_nil_cons _ (splitSlash_ne_nil cs), ih, h]
    · rw [joinSlash_consHead _ _ (splitSlash_ne_nil cs), ih]

/-- so `split('/')` is injective: two names with the same segments are the same name -/
theorem splitSlash_injective {a b : Str} (h : splitSlash a = splitSlash b) : a = b := by
  have := congrArg joinSlash h
  simpa [joinSlash_splitSlash] using this

theorem mem_consHead {c : Char} {L : List Str} {s : Str} (h : s ∈ consHead c L) :
    (∃ t, s = c :: t ∧ (L = [] ∧ t = [] ∨ t ∈ L)) ∨ s ∈ L := by
  cases L with
  | nil => simp [consHead] at h; exact Or.inl ⟨[], by simp [h]⟩
  | cons x xs =>
    simp only [consHead, List.mem_cons] at h
    rcases h with h | h
    · exact Or.inl ⟨x, h, Or.inr (by simp)⟩
    · exact Or.inr (by simp [h])

/-- a segment never contains `/` -/
theorem slash_not_mem_of_mem_splitSlash : ∀ (l : Str) (s : Str), s ∈ splitSlash l → '/' ∉ s := by
  intro l
  induction l with
  | nil => intro s h; simp [splitSlash] at h; simp [h]
  | cons c cs ih =>
    intro s h
    simp only [splitSlash] at h
    split at h
    · simp only [List.mem_cons] at h
      rcases h with h | h
      · simp [h]
      · exact ih s h
    · rename_i hc
      rcases mem_consHead h with ⟨t, rfl, ht⟩ | h
      · rcases ht with ⟨_, rfl⟩ | ht
        · simp; exact fun h => hc h.symm
        · have := ih t ht
          simp only [List.mem_cons, not_or]
          exact ⟨fun h => hc h.symm, this⟩
      · exact ih s h

theorem splitSlash_of_no_slash (s : Str) (h : '/' ∉ s) : splitSlash s = [s] := by
  induction s with
  | nil => simp [splitSlash]
  | cons c cs ih =>
    simp only [List.mem_cons, not_or] at h
    simp only [splitSlash]
    rw [if_neg (fun hc => h.1 hc.symm), ih h.2]
    simp [consHead]

theorem splitSlash_append_slash (s t : Str) (h : '/' ∉ s) :
    splitSlash (s ++ '/' :: t) = s :: splitSlash t := by
  induction s with
  | nil => simp [splitSlash]
  | cons c cs ih =>
    simp only [List.mem_cons, not_or] at h
    simp only [List.cons_append, splitSlash]
    rw [if_neg (fun hc => h.1 hc.symm), ih h.2]
    simp [consHead]

/-- `join("/")` followed by `split('/')` is the identity on non-empty lists of slash-free segments -/
theorem splitSlash_joinSlash : ∀ (segs : List Str), segs ≠ [] → (∀ s ∈ segs, '/' ∉ s) →
    splitSlash (joinSlash segs) = segs
  | [s], _, h => by simpa [joinSlash] using splitSlash_of_no_slash s (h s (by simp))
  | s :: t :: ss, _, h => by
    simp only [joinSlash]
    rw [splitSlash_append_slash s _ (h s (by simp))]
    rw [splitSlash_joinSlash (t :: ss) (by simp) (fun x hx => h x (by simp [hx]))]

/-! ### `containsSub` is `str::contains` -/

theorem containsSub_iff (p l : Str) : containsSub p l = true ↔ p <:+: l := by
  induction l with
  | nil =>
    simp [containsSub, List.isEmpty_iff]
  | cons c cs ih =>
    simp only [containsSub, Bool.or_eq_true, List.isPrefixOf_iff_prefix, ih]
    exact (List.infix_cons_iff).symm

/-! ### empty segments -/

theorem any_isEmpty_consHead (c : Char) (L : List Str) (h : L ≠ []) :
    (consHead c L).any List.isEmpty = L.tail.any List.isEmpty := by
  match L, h with
  | x :: xs, _ => simp [consHead]

theorem beq_slash_false {c : Char} (h : ¬ c = '/') : (c == '/') = false ∧ ('/' == c) = false := by
  constructor
  · exact beq_false_of_ne h
  · exact beq_false_of_ne (fun e => h e.symm)

theorem emptySeg_aux (l : Str) :
    ((splitSlash l).any List.isEmpty = (l.isEmpty || startsWithChar '/' l || endsWithChar '/' l || containsSub ['/', '/'] l))
    ∧ ((splitSlash l).tail.any List.isEmpty = (endsWithChar '/' l || containsSub ['/', '/'] l)) := by
  induction l with
  | nil => simp [splitSlash, startsWithChar, endsWithChar, containsSub]
  | cons c cs ih =>
    obtain ⟨ih1, ih2⟩ := ih
    by_cases hc : c = '/'
    · subst hc
      constructor
      · simp [splitSlash, startsWithChar]
      · simp only [splitSlash, if_true, List.tail_cons, ih1]
        cases cs with
        | nil => simp [endsWithChar, containsSub, startsWithChar]
        | cons d ds =>
          by_cases hd : d = '/'
          · subst hd; simp [endsWithChar, startsWithChar, containsSub, List.isPrefixOf]
          · obtain ⟨e1, e2⟩ := beq_slash_false hd
            cases ds with
            | nil => simp [endsWithChar, startsWithChar, containsSub, List.isPrefixOf, e1, e2]
            | cons e es =>
              simp [endsWithChar, startsWithChar, containsSub, List.isPrefixOf, e1, e2,
                List.getLast?_cons_cons]
    · have hne := splitSlash_ne_nil cs
      obtain ⟨e1, e2⟩ := beq_slash_false hc
      have htl : (consHead c (splitSlash cs)).tail = (splitSlash cs).tail := by
        match h : splitSlash cs, hne with
        | x :: xs, _ => simp [consHead]
      constructor
      · simp only [splitSlash, if_neg hc, any_isEmpty_consHead _ _ hne, ih2]
        cases cs with
        | nil => simp [endsWithChar, containsSub, startsWithChar, e1, List.isPrefixOf]
        | cons d ds =>
          simp [endsWithChar, startsWithChar, containsSub, List.isPrefixOf, e1, e2,
            List.getLast?_cons_cons]
      · simp only [splitSlash, if_neg hc]
        rw [htl, ih2]
        cases cs with
        | nil => simp [endsWithChar, containsSub, e1, List.isPrefixOf]
        | cons d ds =>
          simp [endsWithChar, containsSub, List.isPrefixOf, e2, List.getLast?_cons_cons]

/-- a name has an empty segment exactly when it is empty, starts or ends with `/`, or contains `//` -/
theorem any_isEmpty_splitSlash (l : Str) :
    (splitSlash l).any List.isEmpty
      = (l.isEmpty || startsWithChar '/' l || endsWithChar '/' l || containsSub ['/', '/'] l) :=
  (emptySeg_aux l).1

theorem firstBadSeg_none_iff (an : Char → Bool) (L : List Str) :
    firstBadSeg an L = none ↔ ∀ s ∈ L, s ≠ [] ∧ ∀ c ∈ s, segChar an c = true := by
  induction L with
  | nil => simp [firstBadSeg]
  | cons s ss ih =>
    simp only [firstBadSeg, List.mem_cons, forall_eq_or_imp]
    by_cases h1 : s = []
    · simp [h1]
    · by_cases h2 : s.all (segChar an) = true
      · simp only [List.isEmpty_iff, h1, if_false, h2, Bool.not_true, Bool.false_eq_true, ih]
        simp only [List.all_eq_true] at h2
        exact ⟨fun h => ⟨⟨h1, h2⟩, h⟩, fun h => h.2⟩
      · simp only [List.isEmpty_iff, h1, if_false]
        have h2' : s.all (segChar an) = false := by simpa using h2
        simp only [h2', Bool.not_false, if_true]
        simp only [List.all_eq_true] at h2
        simp only [reduceCtorEq, false_iff, not_and]
        intro h; exact absurd h.2 h2

theorem firstBadSeg_ne_emptySegment_of (an : Char → Bool) (L : List Str) (h : L.any List.isEmpty = false) :
    firstBadSeg an L ≠ some .emptySegment := by
  induction L with
  | nil => simp [firstBadSeg]
  | cons s ss ih =>
    simp only [List.any_cons, Bool.or_eq_false_iff] at h
    simp only [firstBadSeg, h.1, Bool.false_eq_true, if_false]
    split
    · simp
    · exact ih h.2

end LanceModel.C09
