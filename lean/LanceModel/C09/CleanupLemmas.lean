import LanceModel.C09.NameLemmas
/-
Lemmas about `commonLen` / `longestUsed` / `cleanupSegs` (Branches::get_cleanup_path).
-/
namespace LanceModel.C09

theorem commonLen_le_left : ∀ (a b : List Str), commonLen a b ≤ a.length
  | [], _ => by simp [commonLen]
  | _ :: _, [] => by simp [commonLen]
  | x :: xs, y :: ys => by
    simp only [commonLen]
    split
    · simp only [List.length_cons]; have := commonLen_le_left xs ys; omega
    · simp

theorem prefix_of_commonLen_eq : ∀ (a b : List Str), commonLen a b = a.length → a <+: b
  | [], b, _ => List.nil_prefix
  | x :: xs, [], h => by simp [commonLen] at h
  | x :: xs, y :: ys, h => by
    simp only [commonLen] at h
    split at h
    · rename_i hxy
      subst hxy
      simp only [List.length_cons, Nat.add_right_cancel_iff] at h
      exact (List.cons_prefix_cons).mpr ⟨rfl, prefix_of_commonLen_eq xs ys h⟩
    · simp at h

/-- if the first `k` segments of `a` (all of them existing) are a prefix of `b`, the two share at least `k` segments -/
theorem le_commonLen_of_take_prefix : ∀ (k : Nat) (a b : List Str), k ≤ a.length → a.take k <+: b → k ≤ commonLen a b
  | 0, _, _, _, _ => Nat.zero_le _
  | k + 1, [], _, h, _ => by simp at h
  | k + 1, x :: xs, [], _, h => by simp at h
  | k + 1, x :: xs, y :: ys, hk, h => by
    simp only [List.take_succ_cons, List.cons_prefix_cons] at h
    obtain ⟨rfl, h⟩ := h
    simp only [commonLen, if_true]
    have := le_commonLen_of_take_prefix k xs ys (by simpa using hk) h
    omega

theorem commonLen_le_longestUsed (segs : List Str) : ∀ (rem : List Str) (y : Str), y ∈ rem →
    commonLen segs (splitSlash y) ≤ longestUsed segs rem
  | [], _, h => by simp at h
  | c :: cs, y, h => by
    simp only [List.mem_cons] at h
    simp only [longestUsed]
    rcases h with rfl | h
    · exact Nat.le_max_left _ _
    · exact Nat.le_trans (commonLen_le_longestUsed segs cs y h) (Nat.le_max_right _ _)

theorem longestUsed_attained (segs : List Str) : ∀ (rem : List Str),
    longestUsed segs rem = 0 ∨ ∃ y ∈ rem, commonLen segs (splitSlash y) = longestUsed segs rem
  | [] => by simp [longestUsed]
  | c :: cs => by
    simp only [longestUsed]
    rcases Nat.le_total (commonLen segs (splitSlash c)) (longestUsed segs cs) with h | h
    · rw [Nat.max_eq_right h]
      rcases longestUsed_attained segs cs with h0 | ⟨y, hy, e⟩
      · exact Or.inl h0
      · exact Or.inr ⟨y, by simp [hy], e⟩
    · rw [Nat.max_eq_left h]
      exact Or.inr ⟨c, by simp, rfl⟩

theorem longestUsed_le (segs : List Str) (rem : List Str) : longestUsed segs rem ≤ segs.length := by
  rcases longestUsed_attained segs rem with h | ⟨y, _, e⟩
  · omega
  · rw [← e]; exact commonLen_le_left _ _

end LanceModel.C09
