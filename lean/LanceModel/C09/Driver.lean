import LanceModel.Util
import LanceModel.C09.Ops
/-
C09 driver: one output line per op line (grammar: harness/src/bin/c09.rs).
-/
namespace LanceModel.C09.Driver
open LanceModel.Util LanceModel.C09 LanceModel.Table

/-- `char::is_alphanumeric` on the harness alphabet {a,b,1,/,.,-,_,é,\,@} and ASCII -/
def drvAlnum (c : Char) : Bool := c.isAlphanum || c == 'é'

structure DSt where
  st : Option St := none
  cloned : Bool := false

def untok (t : String) : Str := if t = "~" then [] else t.toList
def brUntok (t : String) : Option Str := if t = "-" then none else some t.toList
def str (s : Str) : String := String.ofList s
def brTok : Option Str → String
  | none => "-"
  | some b => str b

def showBErr : BErr → String
  | .empty => "empty" | .edgeSlash => "edge_slash" | .doubleSlash => "double_slash"
  | .dotdotBackslash => "dotdot_backslash" | .emptySegment => "empty_segment" | .badChar => "bad_char"
  | .lock => "lock" | .main => "main"

def showTErr : TErr → String
  | .empty => "empty" | .badChar => "bad_char" | .leadDot => "lead_dot" | .trailDot => "trail_dot"
  | .lock => "lock" | .dotdot => "dotdot"

def showErr : Err → String
  | .invalidRef => "invalid_ref" | .refConflict => "ref_conflict" | .refNotFound => "ref_not_found"
  | .versionNotFound => "version_not_found" | .notFound => "not_found" | .targetExists => "target_exists"
  | .other => "other"

def insertStr (x : String) : List String → List String
  | [] => [x]
  | y :: t => if x ≤ y then x :: y :: t else y :: insertStr x t

def sortStr (l : List String) : List String := l.foldr insertStr []

def joinOrDash (l : List String) : String := if l.isEmpty then "-" else ",".intercalate l

def hexDigit (n : Nat) : Char := if n < 10 then Char.ofNat (48 + n) else Char.ofNat (55 + n)

/-- object_store `PathPart::from`: percent-encoding of one character (harness alphabet + any non-ASCII) -/
def encodeCharFull (c : Char) : Str :=
  if c.val ≥ 128 then
    (String.singleton c).toUTF8.toList.flatMap (fun b => ['%', hexDigit (b.toNat / 16), hexDigit (b.toNat % 16)])
  else encodeChar c

def contentsFileFull (n : Str) : String := str (n.flatMap encodeCharFull) ++ ".json"

def parseVer (s : String) : Option Nat := parseNatChars s.toList

def showRead (v : Nat) : ReadOut → String
  | .ok rows => "ok v=" ++ toString v ++ " rows=" ++ showRows rows
  | .noVersion => "err not_found"
  | .missingFile => "err scan_other"

def oneRowList (rows : String) : Option (List Row) :=
  match parseRows rows with
  | some rs => if rs.all (fun r => r.length == 1) then some rs else none
  | none => none

def lsOut (s : St) : String := joinOrDash (sortStr ((datasetDirs s).map str))

def bad : String := "err parse"

def stepPure (toks : List String) : Option String :=
  match toks with
  | ["vb", n] =>
    some (match checkValidBranch drvAlnum (untok n) with
      | none => "ok"
      | some e => "err " ++ showBErr e)
  | ["vt", n] =>
    some (match checkValidTag drvAlnum (untok n) with
      | none => "ok"
      | some e => "err " ++ showTErr e)
  | ["cp", n, rem] =>
    let rem := if rem = "-" then [] else (rem.splitOn ",").map untok
    some (match getCleanupPath (untok n) rem rootLoc with
      | .none => "none"
      | .some p => "some " ++ str (if ("r/".toList).isPrefixOf p then p.drop 2 else p)
      | .err => "err")
  | ["fb", cur, target] =>
    let cur := brUntok cur
    let target := (brUntok target).map (fun t => untok (str t))
    let loc : Loc := match cur with
      | none => rootLoc
      | some c => { path := "r/tree/".toList ++ c, uri := "r/tree/".toList ++ c, branch := some c }
    -- the harness builds the location with `Path::parse`
    some (match pathParse loc.path with
      | none => "err"
      | some p =>
        match findBranch { loc with path := p } target with
        | some l => "ok " ++ str l.path ++ " " ++ str l.uri
        | none => "err")
  | ["bc", n] => some (contentsFileFull (untok n))
  | _ => none

def stepHist (d : DSt) (toks : List String) : DSt × String :=
  match d.st, toks with
  | none, ["create", rows] =>
    match oneRowList rows with
    | none => (d, bad)
    | some rs =>
      let (s1, f) := putFile St.empty [] rs
      match putManifest s1 [] 1 [f] with
      | some s2 => ({ d with st := some s2 }, "ok v=1")
      | none => (d, bad)
  | none, _ => (d, bad)
  | some _, "create" :: _ => (d, bad)
  | some s, [op, name, src, ver] =>
    if op = "branch" ∨ op = "branchm" then
      match parseVer ver with
      | none => (d, bad)
      | some ver =>
        let src := brUntok src
        let hd := if op = "branchm" then some [] else dirOfRef src
        match hd with
        | none => (d, "err other")
        | some hd =>
          if !hasDataset s hd then (d, "err not_found")
          else
            let (s', r) := createBranch drvAlnum s hd (untok name) src ver
            ({ d with st := some s' }, match r with
              | .ok v => "ok v=" ++ toString v
              | .error e => "err " ++ showErr e)
    else if op = "tag" ∨ op = "retag" then
      match parseVer ver with
      | none => (d, bad)
      | some ver =>
        match tagPut drvAlnum s (op = "retag") (untok name) (brUntok src) ver with
        | .ok s' => ({ d with st := some s' }, "ok")
        | .error e => (d, "err " ++ showErr e)
    else (d, bad)
  | some s, [op, br, rows] =>
    if op = "append" ∨ op = "overwrite" then
      match oneRowList rows, dirOfRef (brUntok br) with
      | some rs, some dir =>
        if !hasDataset s dir then (d, "err not_found")
        else match writeOp s dir (op = "overwrite") rs with
          | some (s', v) => ({ d with st := some s' }, "ok v=" ++ toString v)
          | none => (d, "err other")
      | none, _ => (d, bad)
      | some _, none => (d, "err other")
    else if op = "read" then
      match dirOfRef (brUntok br) with
      | none => (d, "err other")
      | some dir =>
        if rows = "l" then
          match latest s dir with
          | some v => (d, showRead v (readVersion s dir v))
          | none => (d, "err not_found")
        else match parseVer rows with
          | some v => (d, showRead v (readVersion s dir v))
          | none => (d, bad)
    else if op = "clone" then
      match parseVer rows, dirOfRef (brUntok br) with
      | some v, some dir =>
        if d.cloned then (d, bad)
        else if !hasDataset s dir then (d, "err not_found")
        else match cloneOp s dir cloneDir v with
          | some s' => ({ st := some s', cloned := true }, "ok v=" ++ toString v)
          | none => (d, "err not_found")
      | none, _ => (d, bad)
      | some _, none => (d, "err other")
    else (d, bad)
  | some s, [op, x] =>
    if op = "untag" then
      match tagDelete drvAlnum s (untok x) with
      | .ok s' => ({ d with st := some s' }, "ok")
      | .error e => (d, "err " ++ showErr e)
    else if op = "gettag" then
      match tagGetChecked drvAlnum s (untok x) with
      | .ok (b, v) => (d, "ok " ++ brTok b ++ " " ++ toString v)
      | .error e => (d, "err " ++ showErr e)
    else if op = "readtag" then
      match tagGetChecked drvAlnum s (untok x) with
      | .ok (b, v) =>
        match dirOfRef b with
        | some dir => (d, showRead v (readVersion s dir v))
        | none => (d, "err other")
      | .error e => (d, "err " ++ showErr e)
    else if op = "delbranch" ∨ op = "fdelbranch" then
      match deleteBranch drvAlnum s (untok x) (op = "fdelbranch") with
      | (s', none) => ({ d with st := some s' }, "ok ls=" ++ lsOut s')
      | (s', some e) => ({ d with st := some s' }, "err " ++ showErr e)
    else if op = "cleanup" then
      match dirOfRef (brUntok x) with
      | none => (d, "err other")
      | some dir =>
        if !hasDataset s dir then (d, "err not_found")
        else ({ d with st := some (cleanupStore s dir) }, "ok old=" ++ toString (removedVersions s dir))
    else if op = "cappend" then
      if !d.cloned then (d, bad)
      else match oneRowList x with
        | none => (d, bad)
        | some rs =>
          match writeOp s cloneDir false rs with
          | some (s', v) => ({ d with st := some s' }, "ok v=" ++ toString v)
          | none => (d, "err other")
    else (d, bad)
  | some s, ["tags"] =>
    (d, joinOrDash (sortStr (s.tags.map (fun t => str t.1 ++ ":" ++ brTok t.2.1 ++ ":" ++ toString t.2.2))))
  | some s, ["branches"] =>
    (d, joinOrDash (sortStr (s.contents.map (fun t => str t.1 ++ ":" ++ brTok t.2.1 ++ ":" ++ toString t.2.2))))
  | some s, ["ls"] => (d, lsOut s)
  | some s, ["cread"] =>
    if !d.cloned then (d, bad)
    else match latest s cloneDir with
      | some v => (d, showRead v (readVersion s cloneDir v))
      | none => (d, "err not_found")
  | some _, _ => (d, bad)

def step (d : DSt) (line : String) : DSt × String :=
  let toks := splitTokens line
  match stepPure toks with
  | some o => (d, o)
  | none => stepHist d toks

end LanceModel.C09.Driver
