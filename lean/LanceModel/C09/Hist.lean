import LanceModel.C09.Model
import LanceModel.Table.Basic
/-
C09 model, part 2: one table root with branches, tags and a shallow clone.

Storage is modelled at the level the property talks about: manifests and data files are objects with a PATH
(segments below the table root); a dataset (main, a branch, the clone) is a directory; a manifest lists the data files
it reads as (directory that wrote the file, file id) — this is what `Manifest::shallow_clone` produces: the cloned
manifest keeps every file of the source version and points at the source directory through a base path
(files that already had a base keep it).  Deleting a branch removes every object below the cleanup path;
`cleanup_old_versions` on a dataset looks only at that dataset's own manifests.  Import-free (core + Table.Basic).
-/
namespace LanceModel.C09
open LanceModel.Table

abbrev Dir := List Str

/-- a data file: the dataset directory whose `data/` holds it, and its id (a uuid in the real code) -/
structure FileRef where
  dir : Dir
  fid : Nat
  deriving DecidableEq, Repr

def versionsDir : Str := "_versions".toList
def dataDir : Str := "data".toList
def natStr (n : Nat) : Str := (toString n).toList

/-- `<dir>/_versions/<v>.manifest` -/
def manifestPath (d : Dir) (v : Nat) : List Str := d ++ [versionsDir, natStr v]
/-- `<dir>/data/<id>.lance` -/
def filePath (f : FileRef) : List Str := f.dir ++ [dataDir, natStr f.fid]

/-- BranchLocation::find_branch on valid names: `tree/<segments>`; main is the root -/
def branchDir : Option Str → Dir
  | none => []
  | some n => treeDir :: splitSlash n

/-- the clone lives in another table root; `@` cannot occur in a branch directory -/
def cloneDir : Dir := [['@', 'c', 'l', 'o', 'n', 'e']]

/-- first-match association list lookup -/
def get {κ ν : Type} [DecidableEq κ] : List (κ × ν) → κ → Option ν
  | [], _ => none
  | (k, v) :: t, q => if k = q then some v else get t q

def set {κ ν : Type} [DecidableEq κ] (s : List (κ × ν)) (k : κ) (v : ν) : List (κ × ν) :=
  (k, v) :: s.filter (fun e => e.1 ≠ k)

def del {κ ν : Type} [DecidableEq κ] (s : List (κ × ν)) (k : κ) : List (κ × ν) :=
  s.filter (fun e => e.1 ≠ k)

abbrev RefTarget := Option Str × Nat

structure St where
  /-- manifests: (dataset directory, version) ↦ the data files that version reads -/
  mans : List ((Dir × Nat) × List FileRef)
  /-- data files -/
  files : List (FileRef × List Row)
  /-- `_refs/branches/*.json` -/
  contents : List (Str × RefTarget)
  /-- `_refs/tags/*.json` -/
  tags : List (Str × RefTarget)
  nextFid : Nat
  /-- other files (transaction files of branch creations that failed after writing them): they only matter for
  whether a directory exists -/
  junk : List (List Str) := []
  deriving Repr

def St.empty : St := { mans := [], files := [], contents := [], tags := [], nextFid := 0 }

/-! ### reading -/

/-- concatenate the rows of the listed files; `none` when a file is missing -/
def readFiles (files : List (FileRef × List Row)) : List FileRef → Option (List Row)
  | [] => some []
  | f :: fs =>
    match get files f, readFiles files fs with
    | some rows, some rest => some (rows ++ rest)
    | _, _ => none

inductive ReadOut where
  | ok (rows : List Row)
  | noVersion
  | missingFile
  deriving Repr, DecidableEq

/-- checkout_version((branch, v)) + scan -/
def readVersion (s : St) (d : Dir) (v : Nat) : ReadOut :=
  match get s.mans (d, v) with
  | none => .noVersion
  | some fs =>
    match readFiles s.files fs with
    | some rows => .ok rows
    | none => .missingFile

/-- versions of a dataset directory (direct children of `<dir>/_versions` only) -/
def versionsOf (s : St) (d : Dir) : List Nat :=
  s.mans.filterMap (fun e => if e.1.1 = d then some e.1.2 else none)

/-- resolve_latest_location -/
def latest (s : St) (d : Dir) : Option Nat :=
  match versionsOf s d with
  | [] => none
  | v :: vs => some (vs.foldl max v)

/-! ### additive operations: they only add objects -/

/-- commit of a new manifest (put-if-not-exists) -/
def putManifest (s : St) (d : Dir) (v : Nat) (fs : List FileRef) : Option St :=
  match get s.mans (d, v) with
  | some _ => none
  | none => some { s with mans := s.mans ++ [((d, v), fs)] }

/-- write one new data file into `<d>/data` -/
def putFile (s : St) (d : Dir) (rows : List Row) : St × FileRef :=
  ({ s with files := s.files ++ [(⟨d, s.nextFid⟩, rows)], nextFid := s.nextFid + 1 }, ⟨d, s.nextFid⟩)

/-- `Dataset::write` Append / Overwrite through a handle on the latest version of `d` -/
def writeOp (s : St) (d : Dir) (overwrite : Bool) (rows : List Row) : Option (St × Nat) :=
  match latest s d with
  | none => none
  | some v =>
    match get s.mans (d, v) with
    | none => none
    | some old =>
      match putManifest (putFile s d rows).1 d (v + 1)
          ((if overwrite then [] else old) ++ [(putFile s d rows).2]) with
      | some s' => some (s', v + 1)
      | none => none

/-- the Clone commit of `create_branch` / `shallow_clone`: the manifest `(from, v)` is copied to `(to, v)` -/
def cloneOp (s : St) (frm to : Dir) (v : Nat) : Option St :=
  match get s.mans (frm, v) with
  | none => none
  | some fs => putManifest s to v fs

/-! ### branch deletion -/

/-- `remove_dir_all(p)`: every object whose path lies below `p` -/
def removeUnder (s : St) (p : List Str) : St :=
  { s with
    mans := s.mans.filter (fun e => !(p.isPrefixOf (manifestPath e.1.1 e.1.2))),
    files := s.files.filter (fun e => !(p.isPrefixOf (filePath e.1))),
    junk := s.junk.filter (fun q => !(p.isPrefixOf q)) }

/-- `Branches::delete` after the name check: drop the contents file, then remove the cleanup directory -/
def deleteBranchStore (s : St) (x : Str) : St :=
  match cleanupSegs x ((del s.contents x).map (·.1)) with
  | none => { s with contents := del s.contents x }
  | some p => removeUnder { s with contents := del s.contents x } (treeDir :: p)

/-! ### cleanup_old_versions(older_than = 0, delete_unverified = true, error_if_tagged_old_versions = false) -/

/-- versions kept: the latest one and every version NUMBER some tag (of any branch) carries -/
def retained (s : St) (d : Dir) (v : Nat) : Bool :=
  latest s d == some v || s.tags.any (fun t => t.2.2 == v)

/-- files referenced by a kept manifest of `d` -/
def keptFiles (s : St) (d : Dir) : List FileRef :=
  (s.mans.filter (fun e => e.1.1 = d ∧ retained s d e.1.2)).flatMap (·.2)

/-- only `d`'s own manifests are inspected; every file in `<d>/data` no kept manifest OF `d` lists is removed -/
def cleanupStore (s : St) (d : Dir) : St :=
  { s with
    mans := s.mans.filter (fun e => !(e.1.1 = d ∧ !retained s d e.1.2)),
    files := s.files.filter (fun e => !(e.1.dir = d ∧ !(keptFiles s d).contains e.1)) }

def removedVersions (s : St) (d : Dir) : Nat :=
  (s.mans.filter (fun e => e.1.1 = d ∧ !retained s d e.1.2)).length

/-! ### tags -/

def tagGet (s : St) (t : Str) : Option RefTarget := get s.tags t

end LanceModel.C09
