import LanceModel.C09.Driver
def main : IO Unit := LanceModel.Util.runDriver LanceModel.C09.Driver.step {}
