import LanceModel.C09.Hist
/-
Frame lemmas for the storage model: additive operations extend the store, removals are filters.
-/
namespace LanceModel.C09
open LanceModel.Table

section assoc
variable {κ ν : Type} [DecidableEq κ]

theorem get_append_some {s t : List (κ × ν)} {k : κ} {v : ν} (h : get s k = some v) :
    get (s ++ t) k = some v := by
  induction s with
  | nil => simp [get] at h
  | cons e s ih =>
    obtain ⟨k', v'⟩ := e
    simp only [List.cons_append, get] at h ⊢
    split
    · rename_i hk; simpa [hk] using h
    · rename_i hk; simp only [hk, if_false] at h; exact ih h

theorem get_filter (s : List (κ × ν)) (f : κ → Bool) (k : κ) :
    get (s.filter (fun e => f e.1)) k = if f k = true then get s k else none := by
  induction s with
  | nil => simp [get]
  | cons e s ih =>
    obtain ⟨k', v'⟩ := e
    by_cases hf : f k' = true
    · simp only [List.filter_cons, hf, if_true, get]
      by_cases hk : k' = k
      · subst hk; simp [hf]
      · simp only [hk, if_false]; exact ih
    · simp only [List.filter_cons, hf, Bool.false_eq_true, if_false, get]
      by_cases hk : k' = k
      · subst hk; simp only [if_true]; rw [ih]; simp [hf]
      · simp only [hk, if_false]; exact ih

theorem get_set_self (s : List (κ × ν)) (k : κ) (v : ν) : get (set s k v) k = some v := by
  simp [set, get]

theorem get_set_other (s : List (κ × ν)) (k k' : κ) (v : ν) (h : k' ≠ k) :
    get (set s k v) k' = get s k' := by
  simp only [set, get, if_neg (Ne.symm h)]
  have := get_filter s (fun x => decide (x ≠ k)) k'
  simp only [decide_eq_true_eq] at this
  rw [this]; simp [h]

theorem get_del_self (s : List (κ × ν)) (k : κ) : get (del s k) k = none := by
  have := get_filter s (fun x => decide (x ≠ k)) k
  simp only [decide_eq_true_eq] at this
  simp only [del]; rw [this]; simp

theorem get_del_other (s : List (κ × ν)) (k k' : κ) (h : k' ≠ k) : get (del s k) k' = get s k' := by
  have := get_filter s (fun x => decide (x ≠ k)) k'
  simp only [decide_eq_true_eq] at this
  simp only [del]; rw [this]; simp [h]

end assoc

/-- `s'` holds every manifest and every data file of `s`, unchanged -/
def Ext (s s' : St) : Prop :=
  (∀ k fs, get s.mans k = some fs → get s'.mans k = some fs)
  ∧ (∀ f r, get s.files f = some r → get s'.files f = some r)

theorem Ext.refl (s : St) : Ext s s := ⟨fun _ _ h => h, fun _ _ h => h⟩

theorem Ext.trans {a b c : St} (h1 : Ext a b) (h2 : Ext b c) : Ext a c :=
  ⟨fun k fs h => h2.1 k fs (h1.1 k fs h), fun f r h => h2.2 f r (h1.2 f r h)⟩

theorem readFiles_mono {fa fb : List (FileRef × List Row)} :
    ∀ (fs : List FileRef) (r : List Row), (∀ f ∈ fs, ∀ r, get fa f = some r → get fb f = some r) →
      readFiles fa fs = some r → readFiles fb fs = some r
  | [], r, _, h => by simpa [readFiles] using h
  | f :: fs, r, hm, h => by
    simp only [readFiles] at h ⊢
    cases h1 : get fa f with
    | none => simp [h1] at h
    | some rows =>
      cases h2 : readFiles fa fs with
      | none => simp [h1, h2] at h
      | some rest =>
        simp only [h1, h2, Option.some.injEq] at h
        rw [hm f (by simp) rows h1, readFiles_mono fs rest (fun g hg => hm g (by simp [hg])) h2]
        simp [h]

theorem readVersion_ok_iff (s : St) (d : Dir) (v : Nat) (r : List Row) :
    readVersion s d v = .ok r ↔ ∃ fs, get s.mans (d, v) = some fs ∧ readFiles s.files fs = some r := by
  unfold readVersion
  cases h1 : get s.mans (d, v) with
  | none => simp
  | some fs =>
    cases h2 : readFiles s.files fs with
    | none => simp [h2]
    | some rows => simp [h2]

theorem readVersion_ext {s s' : St} (h : Ext s s') {d : Dir} {v : Nat} {r : List Row}
    (hr : readVersion s d v = .ok r) : readVersion s' d v = .ok r := by
  obtain ⟨fs, h1, h2⟩ := (readVersion_ok_iff s d v r).mp hr
  exact (readVersion_ok_iff s' d v r).mpr
    ⟨fs, h.1 _ _ h1, readFiles_mono fs r (fun f _ r hf => h.2 f r hf) h2⟩

theorem putManifest_ext {s s' : St} {d : Dir} {v : Nat} {fs : List FileRef}
    (h : putManifest s d v fs = some s') : Ext s s' ∧ s'.tags = s.tags ∧ s'.contents = s.contents := by
  unfold putManifest at h
  split at h
  · simp at h
  · simp only [Option.some.injEq] at h
    subst h
    exact ⟨⟨fun k fs hk => get_append_some hk, fun f r hf => hf⟩, rfl, rfl⟩

theorem putFile_ext (s : St) (d : Dir) (rows : List Row) :
    Ext s (putFile s d rows).1 ∧ (putFile s d rows).1.tags = s.tags
      ∧ (putFile s d rows).1.contents = s.contents :=
  ⟨⟨fun _ _ hk => hk, fun _ _ hf => get_append_some hf⟩, rfl, rfl⟩

theorem writeOp_ext {s s' : St} {d : Dir} {o : Bool} {rows : List Row} {v' : Nat}
    (h : writeOp s d o rows = some (s', v')) : Ext s s' ∧ s'.tags = s.tags ∧ s'.contents = s.contents := by
  unfold writeOp at h
  split at h
  · simp at h
  · split at h
    · simp at h
    · split at h
      · rename_i s'' hp
        simp only [Option.some.injEq, Prod.mk.injEq] at h
        obtain ⟨rfl, _⟩ := h
        obtain ⟨e, t, c⟩ := putManifest_ext hp
        obtain ⟨e0, t0, c0⟩ := putFile_ext s d rows
        exact ⟨Ext.trans e0 e, t.trans t0, c.trans c0⟩
      · simp at h

theorem cloneOp_ext {s s' : St} {a b : Dir} {v : Nat} (h : cloneOp s a b v = some s') :
    Ext s s' ∧ s'.tags = s.tags ∧ s'.contents = s.contents := by
  unfold cloneOp at h
  split at h
  · simp at h
  · exact putManifest_ext h

/-- the new dataset's first version lists exactly the files of the source version -/
theorem cloneOp_manifest {s s' : St} {a b : Dir} {v : Nat} (h : cloneOp s a b v = some s') :
    ∃ fs, get s.mans (a, v) = some fs ∧ get s'.mans (b, v) = some fs := by
  unfold cloneOp at h
  split at h
  · simp at h
  · rename_i fs hfs
    refine ⟨fs, hfs, ?_⟩
    unfold putManifest at h
    split at h
    · simp at h
    · rename_i hnone
      simp only [Option.some.injEq] at h
      subst h
      show get (s.mans ++ [((b, v), fs)]) (b, v) = some fs
      clear hfs
      generalize s.mans = m at hnone
      induction m with
      | nil => simp [get]
      | cons e m ih =>
        obtain ⟨k', v'⟩ := e
        simp only [get] at hnone
        simp only [List.cons_append, get]
        split
        · rename_i hk; simp [hk] at hnone
        · rename_i hk; simp only [hk, if_false] at hnone; exact ih hnone

/-! ### removals -/

theorem removeUnder_mans (s : St) (p : List Str) (d : Dir) (v : Nat) :
    get (removeUnder s p).mans (d, v) = if p.isPrefixOf (manifestPath d v) = true then none else get s.mans (d, v) := by
  have := get_filter s.mans (fun k => !(p.isPrefixOf (manifestPath k.1 k.2))) (d, v)
  simp only [removeUnder]
  rw [this]
  cases p.isPrefixOf (manifestPath d v) <;> simp

theorem removeUnder_files (s : St) (p : List Str) (f : FileRef) :
    get (removeUnder s p).files f = if p.isPrefixOf (filePath f) = true then none else get s.files f := by
  have := get_filter s.files (fun k => !(p.isPrefixOf (filePath k))) f
  simp only [removeUnder]
  rw [this]
  cases p.isPrefixOf (filePath f) <;> simp

theorem cleanupStore_mans (s : St) (d d' : Dir) (v : Nat) (h : d' ≠ d) :
    get (cleanupStore s d).mans (d', v) = get s.mans (d', v) := by
  have := get_filter s.mans (fun k => !(decide (k.1 = d ∧ (!retained s d k.2) = true))) (d', v)
  simp only [cleanupStore]
  rw [this]
  simp [h]

theorem cleanupStore_mans_retained (s : St) (d : Dir) (v : Nat) (h : retained s d v = true) :
    get (cleanupStore s d).mans (d, v) = get s.mans (d, v) := by
  have := get_filter s.mans (fun k => !(decide (k.1 = d ∧ (!retained s d k.2) = true))) (d, v)
  simp only [cleanupStore]
  rw [this]
  simp [h]

theorem cleanupStore_files (s : St) (d : Dir) (f : FileRef) (h : f.dir ≠ d ∨ f ∈ keptFiles s d) :
    get (cleanupStore s d).files f = get s.files f := by
  have := get_filter s.files (fun k => !(decide (k.dir = d ∧ (!(keptFiles s d).contains k) = true))) f
  simp only [cleanupStore]
  rw [this]
  rcases h with h | h
  · simp [h]
  · simp [h]

end LanceModel.C09
