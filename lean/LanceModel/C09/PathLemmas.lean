import LanceModel.C09.NameLemmas
import LanceModel.C09.Ops
/-
`BranchLocation::find_branch` from the table root, on a name made of non-empty slash-free segments, is
`<root>/tree/<segments>` (string surgery of `join_str` + object_store `Path::parse`).
-/
namespace LanceModel.C09

theorem dropWhile_slash_of_not_mem (g : Str) (h : '/' ∉ g) : g.dropWhile (· == '/') = g := by
  cases g with
  | nil => rfl
  | cons c cs =>
    simp only [List.mem_cons, not_or] at h
    have : (c == '/') = false := beq_false_of_ne (fun e => h.1 e.symm)
    simp [List.dropWhile, this]

theorem getLast?_append_cons_ne_slash (base g : Str) (hg : g ≠ []) (hs : '/' ∉ g) :
    (base ++ '/' :: g).getLast? ≠ some '/' := by
  have hne : g.getLast? ≠ some '/' := by
    intro h
    exact hs (List.mem_of_getLast? h)
  have hcons : ('/' :: g).getLast? = g.getLast? := by
    cases g with
    | nil => exact absurd rfl hg
    | cons x xs => simp [List.getLast?_cons_cons]
  rw [List.getLast?_append, hcons]
  cases hgl : g.getLast? with
  | none => exact absurd (List.getLast?_eq_none_iff.mp hgl) hg
  | some c =>
    rw [hgl] at hne
    simpa using hne

theorem foldl_joinStr : ∀ (segs : List Str) (base : Str), base.getLast? ≠ some '/' →
    (∀ g ∈ segs, g ≠ [] ∧ '/' ∉ g) → segs.foldl joinStr base = base ++ segs.flatMap ('/' :: ·)
  | [], base, _, _ => by simp
  | g :: segs, base, hb, hs => by
    have hg := hs g (by simp)
    have e : endsWithChar '/' base = false := by simpa [endsWithChar] using hb
    have hj : joinStr base g = base ++ '/' :: g := by
      simp [joinStr, e, dropWhile_slash_of_not_mem g hg.2]
    simp only [List.foldl_cons, hj]
    rw [foldl_joinStr segs (base ++ '/' :: g) (getLast?_append_cons_ne_slash base g hg.1 hg.2)
      (fun x hx => hs x (by simp [hx]))]
    simp

theorem joinSlash_cons_flatMap : ∀ (a : Str) (segs : List Str), joinSlash (a :: segs) = a ++ segs.flatMap ('/' :: ·)
  | a, [] => by simp [joinSlash]
  | a, b :: segs => by
    simp only [joinSlash, List.flatMap_cons]
    rw [joinSlash_cons_flatMap b segs]
    simp

theorem dirOfName_segments (n : Str) (hne : n ≠ [])
    (hseg : ∀ g ∈ splitSlash n, g ≠ [] ∧ badPart g = false) :
    dirOfName n = some (treeDir :: splitSlash n) := by
  have hslash : ∀ g ∈ splitSlash n, g ≠ [] ∧ '/' ∉ g :=
    fun g hg => ⟨(hseg g hg).1, slash_not_mem_of_mem_splitSlash n g hg⟩
  have hbase : joinStr ['r'] treeDir = "r/tree".toList := by decide
  have hp : (splitSlash n).foldl joinStr (joinStr ['r'] treeDir)
      = joinSlash (['r'] :: treeDir :: splitSlash n) := by
    rw [hbase, foldl_joinStr _ _ (by decide) hslash]
    simp only [joinSlash]
    rw [joinSlash_cons_flatMap]
    simp [treeDir]
  have hall : ∀ g ∈ ['r'] :: treeDir :: splitSlash n, '/' ∉ g := by
    intro g hg
    simp only [List.mem_cons] at hg
    rcases hg with rfl | rfl | hg
    · decide
    · decide
    · exact (hslash g hg).2
  have hsplit := splitSlash_joinSlash (['r'] :: treeDir :: splitSlash n) (by simp) hall
  have hnoempty : (splitSlash (joinSlash (['r'] :: treeDir :: splitSlash n))).any List.isEmpty = false := by
    rw [hsplit]
    simp only [List.any_cons, List.isEmpty_cons, Bool.false_or]
    have : treeDir.isEmpty = false := by decide
    simp only [this, Bool.false_or]
    rw [Bool.eq_false_iff]
    intro h
    rw [List.any_eq_true] at h
    obtain ⟨g, hg, he⟩ := h
    exact (hslash g hg).1 (by simpa [List.isEmpty_iff] using he)
  rw [any_isEmpty_splitSlash] at hnoempty
  simp only [Bool.or_eq_false_iff] at hnoempty
  obtain ⟨⟨⟨h1, h2⟩, h3⟩, _⟩ := hnoempty
  have hbad : (splitSlash (joinSlash (['r'] :: treeDir :: splitSlash n))).any badPart = false := by
    rw [hsplit]
    simp only [List.any_cons]
    have e1 : badPart ['r'] = false := by decide
    have e2 : badPart treeDir = false := by decide
    simp only [e1, e2, Bool.false_or]
    rw [Bool.eq_false_iff]
    intro h
    rw [List.any_eq_true] at h
    obtain ⟨g, hg, he⟩ := h
    rw [(hseg g hg).2] at he
    exact absurd he (by simp)
  have hparse : pathParse (joinSlash (['r'] :: treeDir :: splitSlash n))
      = some (joinSlash (['r'] :: treeDir :: splitSlash n)) := by
    simp only [pathParse, h2, h3, Bool.false_eq_true, if_false, h1, hbad]
  have hn : n.isEmpty = false := by simpa [List.isEmpty_iff] using hne
  simp only [dirOfName, findBranch, rootLoc, findMain]
  have : (some n = (none : Option Str)) = False := by simp
  simp only [this, if_false, hn, Bool.false_eq_true, hp, hparse, hsplit]
  simp

theorem splitSlash_head_prefix : ∀ (l : Str), ∃ h rest, splitSlash l = h :: rest ∧ h <+: l
  | [] => ⟨[], [], by simp [splitSlash], List.nil_prefix⟩
  | c :: cs => by
    obtain ⟨h, rest, e, hp⟩ := splitSlash_head_prefix cs
    by_cases hc : c = '/'
    · exact ⟨[], splitSlash cs, by simp [splitSlash, hc], List.nil_prefix⟩
    · exact ⟨c :: h, rest, by simp [splitSlash, hc, e, consHead], (List.cons_prefix_cons).mpr ⟨rfl, hp⟩⟩

/-- every segment is a contiguous piece of the name -/
theorem mem_splitSlash_infix : ∀ (l : Str) (s : Str), s ∈ splitSlash l → s <:+: l
  | [], s, h => by simp [splitSlash] at h; subst h; exact List.infix_refl _
  | c :: cs, s, h => by
    by_cases hc : c = '/'
    · simp only [splitSlash, hc, if_true, List.mem_cons] at h
      rcases h with rfl | h
      · exact List.nil_infix
      · exact List.IsInfix.trans (mem_splitSlash_infix cs s h) (List.infix_cons (List.infix_refl _))
    · obtain ⟨hd, rest, e, hp⟩ := splitSlash_head_prefix cs
      simp only [splitSlash, hc, if_false, e, consHead, List.mem_cons] at h
      rcases h with rfl | h
      · exact ((List.cons_prefix_cons).mpr ⟨rfl, hp⟩).isInfix
      · have : s ∈ splitSlash cs := by rw [e]; exact List.mem_cons_of_mem _ h
        exact List.IsInfix.trans (mem_splitSlash_infix cs s this) (List.infix_cons (List.infix_refl _))

end LanceModel.C09
