import LanceModel.C18.RebaseLemmas
/-
C18 lemmas, layer 9: one call — what a commit through a handle on ANY version does, and the preservation of the history
invariant by every call.
-/
namespace LanceModel.C18
open LanceModel.Table LanceModel.C17Base List

/-- what a commit through a handle that has read version `v` does: an error leaves the history alone; otherwise one
    manifest is pushed, built on the LATEST manifest from the rebased transaction, which is either the planned append or a
    Delete / Update transaction with `CommitFacts` -/
theorem commitStale_spec (h : Hist) (v : Nat) (op : Op) (hi : HInv h) :
    ((commitStale h v op).1 = h ∧ (commitStale h v op).2 ≠ .ok) ∨
    ∃ L ms T', h.ms = L :: ms ∧
      commitStale h v op = ({ ms := buildOn L T' :: h.ms, feet := T'.foot :: h.feet }, .ok) ∧
      ((∃ f rows, op = .append f rows ∧ f ≠ 0 ∧ T' = planAppend f rows) ∨
       (CommitFacts L T' ∧ ∃ mv T, mv ∈ h.ms ∧ planOf op mv = some T ∧ T.kind ≠ .append ∧ T'.kind = T.kind ∧
          T'.fresh = T.fresh)) := by
  unfold commitStale
  cases hms : h.ms with
  | nil => exact Or.inl ⟨rfl, fun hh => by cases hh⟩
  | cons L ms =>
    simp only
    cases hfind : (L :: ms).find? (fun m => m.version == v) with
    | none => exact Or.inl ⟨rfl, fun hh => by cases hh⟩
    | some mv =>
      simp only
      cases hp : planOf op mv with
      | none => exact Or.inl ⟨rfl, fun hh => by cases hh⟩
      | some T =>
        simp only
        cases hr : rejectOf op mv with
        | some k => exact Or.inl ⟨rfl, fun hh => by cases hh⟩
        | none =>
          simp only
          cases hreb : rebase T (othersSince h v) L with
          | error c => cases c <;> exact Or.inl ⟨rfl, fun hh => by cases hh⟩
          | ok T' =>
            simp only
            right
            refine ⟨L, ms, T', rfl, rfl, ?_⟩
            by_cases hk : T.kind = .append
            · obtain ⟨f, rows, hop, hT⟩ := planOf_append hp hk
              have hT' := rebase_append hk hreb
              subst hT'
              subst hT
              have hf : f ≠ 0 := by
                subst hop
                simp only [rejectOf] at hr
                split at hr
                · cases hr
                · split at hr
                  · cases hr
                  · assumption
              exact Or.inl ⟨f, rows, hop, hf, rfl⟩
            · have hfind' : h.ms.find? (fun m => m.version == v) = some mv := by rw [hms]; exact hfind
              obtain ⟨hmvmem, _⟩ := versions_find hi.ver hfind'
              have hpf := plan_facts (hi.frag mv hmvmem) op T hp hr hk
              obtain ⟨hfacts, hk', hfr'⟩ := facts_rebased hms hi hfind' hpf hk hreb
              exact Or.inr ⟨hfacts, mv, T, hms ▸ hmvmem, hp, hk, hk', hfr'⟩

theorem hinv_commitStale (h : Hist) (v : Nat) (op : Op) (hi : HInv h) : HInv (commitStale h v op).1 := by
  rcases commitStale_spec h v op hi with ⟨he, _⟩ | ⟨L, ms, T', hms, heq, hcase⟩
  · rw [he]; exact hi
  · rw [heq]
    rcases hcase with ⟨f, rows, _, hf, rfl⟩ | ⟨hfacts, _⟩
    · exact hinv_append hms hi f hf rows
    · exact hinv_commit hms hi hfacts

/-- EVERY CALL preserves the history invariant -/
theorem hinv_step (h : Hist) (c : Call) (hi : HInv h) : HInv (stepCall h c).1 := by
  unfold stepCall
  cases hrv : c.rv with
  | none =>
    cases hop : c.op with
    | base op =>
      simp only
      split
      · exact hinv_commitStale h _ op hi
      · rename_i hnv
        exact hinv_seq h op hi (by simpa using hnv)
    | restore v =>
      simp only
      cases hms : h.ms with
      | nil => exact hi
      | cons L ms =>
        simp only
        cases hfind : (L :: ms).find? (fun m => m.version == v) with
        | none => exact hi
        | some old =>
          simp only
          rw [← hms]
          exact hinv_restore hms hi (hms ▸ List.mem_of_find?_eq_some hfind) _ rfl
  | some v =>
    cases hop : c.op with
    | base op => exact hinv_commitStale h v op hi
    | restore v2 => exact hi

theorem hinv_runFrom (h : Hist) (cs : List Call) (hi : HInv h) : HInv (runFrom h cs) := by
  induction cs generalizing h with
  | nil => exact hi
  | cons c cs ih => exact ih _ (hinv_step h c hi)

theorem hinv_run (cs : List Call) : HInv (run cs) := hinv_runFrom Hist.empty cs hinv_empty

end LanceModel.C18
