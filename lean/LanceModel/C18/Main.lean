import LanceModel.C18.Driver
def main : IO Unit := LanceModel.Util.runDriver LanceModel.C18.Driver.step LanceModel.C18.Hist.empty
