import LanceModel.Util
import LanceModel.Table.Basic
import LanceModel.C18.Model
/-
C18 driver.  Op lines (grammar: top of harness/src/bin/c18.rs)

  [@<ver>] create f=<nat> k=<K> <rows> | append f=<nat> <rows> | overwrite f=<nat> <rows> | delete <pred> | update <pred> <int>
         | upsert <rows> | compact t=<nat> m=<0|1>             pred ::= lt <int> | ge <int> | in <int,…> | all
  restore <ver>                                                  ver ::= <nat> | ~<nat> (latest minus <nat>)
  assign n=<nat> <phys>:<-|e|ids>;…

→ `ok v=<version> nrid=<next_row_id> mfid=<max_fragment_id|none> meta=<id[rid[x],…]…> scan=<cells…,_rowid,_rowaddr;…>`,
  `ok nrid=<next_row_id> ids=<ids>|<ids>…` for `assign`, `err <kind>`.
The state is the model history of the case.
-/
namespace LanceModel.C18.Driver
open LanceModel.Util LanceModel.Table LanceModel.C17Base LanceModel.C18

abbrev St := Hist

/-- `parse_nat` of the harness: 1–9 ASCII digits -/
def parseNat (s : String) : Option Nat :=
  if s.length > 9 then none else parseNatChars s.toList

def tokVal (key tok : String) : Option String :=
  if tok.startsWith (key ++ "=") then some (String.ofList (tok.toList.drop (key.length + 1))) else none

/-- rows of one common width (that of the first row) -/
def rowsSameWidth (s : String) : Option (List Row) :=
  match parseRows s with
  | none => none
  | some rows =>
    match rows with
    | [] => some []
    | r :: _ => if rows.all (fun x => x.length == r.length) then some rows else none

def parseInt (s : String) : Option Int :=
  match parseCell s with
  | some (some v) => some v
  | _ => none

def parsePred (t : List String) : Option Pred :=
  match t with
  | ["all"] => some .all
  | ["lt", x] => (parseInt x).map .lt
  | ["ge", x] => (parseInt x).map .ge
  | ["in", xs] => ((xs.splitOn ",").mapM parseInt).map .isIn
  | _ => none

def parseBase (toks : List String) : Option Op :=
  match toks with
  | ["create", f, k, rows] => do
    let f ← (tokVal "f" f) >>= parseNat
    let k ← (tokVal "k" k) >>= parseNat
    let rows ← rowsSameWidth rows
    if (k == 2 || k == 3) && rows.all (fun r => r.length == k) then some (.create f k rows) else none
  | ["append", f, rows] => do
    let f ← (tokVal "f" f) >>= parseNat
    let rows ← rowsSameWidth rows
    some (.append f rows)
  | ["overwrite", f, rows] => do
    let f ← (tokVal "f" f) >>= parseNat
    let rows ← rowsSameWidth rows
    some (.overwrite f rows)
  | "delete" :: rest => (parsePred rest).map fun p => .delete p
  | "update" :: rest =>
    match rest.reverse with
    | y :: pr =>
      if pr.isEmpty then none
      else
        match parsePred pr.reverse, parseInt y with
        | some p, some v => some (.update p v)
        | _, _ => none
    | [] => none
  | ["upsert", rows] => do
    let rows ← rowsSameWidth rows
    if rows.isEmpty then none else some (.upsert rows)
  | ["compact", t, m] => do
    let t ← (tokVal "t" t) >>= parseNat
    let mv ← tokVal "m" m
    let mat ← (if mv = "0" then some false else if mv = "1" then some true else none)
    some (.compact t mat)
  | _ => none

def parseRaw (s : String) : Option RawFrag :=
  match s.splitOn ":" with
  | [p, ids] => do
    let p ← parseNat p
    if p = 0 then none
    else if ids = "-" then some { phys := p, ids := none }
    else if ids = "e" then some { phys := p, ids := some [] }
    else
      let l ← (ids.splitOn ",").mapM parseNat
      some { phys := p, ids := some l }
  | _ => none

inductive Cmd where
  | call (c : Call)
  | assign (n : Nat) (frags : List RawFrag)

/-- `<nat>` or `~<nat>` (relative to the latest version; 0 = no such version) -/
def parseVer (latest : Nat) (s : String) : Option Nat :=
  if s.startsWith "~" then (parseNat (String.ofList (s.toList.drop 1))).map fun k => latest - k
  else parseNat s

def parseCmd (latest : Nat) (line : String) : Option Cmd :=
  match splitTokens line with
  | ["restore", v] => (parseVer latest v).map fun v => .call { rv := none, op := .restore v }
  | ["assign", n, frags] => do
    let n ← (tokVal "n" n) >>= parseNat
    let fs ← (frags.splitOn ";").mapM parseRaw
    some (.assign n fs)
  | t :: rest =>
    if t.startsWith "@" then do
      let v ← parseVer latest (String.ofList (t.toList.drop 1))
      let op ← parseBase rest
      some (.call { rv := some v, op := .base op })
    else (parseBase (t :: rest)).map fun op => .call { rv := none, op := .base op }
  | [] => none

def showPRow (r : PRow) : String := toString r.rid ++ (if r.deleted then "x" else "")

def showMeta (frags : List Frag) : String :=
  if frags.isEmpty then "-"
  else String.join (frags.map fun f => toString f.id ++ "[" ++ ",".intercalate (f.rows.map showPRow) ++ "]")

def scanRow (x : (Nat × Nat) × PRow) : Row :=
  x.2.cells ++ [some (Int.ofNat x.2.rid), some (Int.ofNat (x.1.1 * 4294967296 + x.1.2))]

def showManifest (m : Manifest) : String :=
  "ok v=" ++ toString m.version ++ " nrid=" ++ toString m.nextRowId
    ++ " mfid=" ++ (match m.maxFragId with | none => "none" | some x => toString x)
    ++ " meta=" ++ showMeta m.frags
    ++ " scan=" ++ showRows (((tagged m.frags).filter fun x => !x.2.deleted).map scanRow)

def distinctNat : List Nat → Bool
  | [] => true
  | x :: xs => !xs.contains x && distinctNat xs

/-- interpreter-level: a merge_insert whose handle shows no visible row is not run (lance then writes the new rows in
    hash-join order); decided after `no_table` / `no_version` / `stale_unsupported`, before everything else -/
def emptyTarget (s : St) (c : Call) : Bool :=
  match c.op, s.ms with
  | .base (.upsert rows), L :: _ =>
    match s.ms.find? fun m => m.version == (match c.rv with | some v => v | none => L.version) with
    | none => false
    | some mv =>
      if c.rv.isSome && !((rows.head?.map List.length) == some mv.k) then false
      else (live mv).isEmpty
  | _, _ => false

def step (s : St) (line : String) : St × String :=
  match parseCmd (match s.ms with | m :: _ => m.version | [] => 0) line with
  | none => (s, "err parse")
  | some (.assign n fs) =>
    -- ids a fragment carries were assigned earlier: below next_row_id, no id twice
    if !((fs.flatMap fun f => f.have).all (fun i => decide (i < n)) && distinctNat (fs.flatMap fun f => f.have)) then
      (s, "err ids")
    else
      match assignRowIds n fs with
      | none => (s, "err internal")
      | some (n', ids) => (s, "ok nrid=" ++ toString n' ++ " ids=" ++ "|".intercalate (ids.map showNatList))
  | some (.call c) =>
    if emptyTarget s c then (s, "err empty_target")
    else
      match stepCall s c with
      | (s', .ok) =>
        match s'.ms with
        | m :: _ => (s', showManifest m)
        | [] => (s', "err model")
      | (s', .err k) => (s', "err " ++ k)

end LanceModel.C18.Driver
