import LanceModel.C17Base.InvLemmas
import LanceModel.C18.Model
/-
C18 lemmas, layer 2: rows with their addresses; extending deletion vectors at a set of addresses.
-/
namespace LanceModel.C18
open LanceModel.Table LanceModel.C17Base List

abbrev TRow := (Nat × Nat) × PRow

def liveT (x : TRow) : Bool := !x.2.deleted

/-- the visible rows of a version with their addresses -/
def liveTagged (frags : List Frag) : List TRow := (tagged frags).filter liveT

/-- the effect of `markAt` on one tagged row -/
def markT (A : List (Nat × Nat)) (x : TRow) : TRow :=
  (x.1, if A.contains x.1 then { x.2 with deleted := true } else x.2)

/-! ### tagRows -/

theorem tagRows_fst {fid j : Nat} {rows : List PRow} {x : TRow} (h : x ∈ tagRows fid j rows) :
    x.1.1 = fid ∧ j ≤ x.1.2 ∧ x.1.2 < j + rows.length := by
  induction rows generalizing j with
  | nil => simp [tagRows] at h
  | cons r rs ih =>
    simp only [tagRows, List.mem_cons] at h
    rcases h with rfl | h
    · simp
    · have := ih h
      simp only [List.length_cons]
      omega

theorem tagRows_getElem {fid j : Nat} {rows : List PRow} {x : TRow} (h : x ∈ tagRows fid j rows) :
    rows[x.1.2 - j]? = some x.2 ∧ j ≤ x.1.2 := by
  induction rows generalizing j with
  | nil => simp [tagRows] at h
  | cons a t ih =>
    simp only [tagRows, List.mem_cons] at h
    rcases h with rfl | h
    · simp
    · obtain ⟨h1, h2⟩ := ih h
      refine ⟨?_, by omega⟩
      have : x.1.2 - j = (x.1.2 - (j + 1)) + 1 := by omega
      rw [this, List.getElem?_cons_succ]
      exact h1

theorem tagRows_map_snd (fid j : Nat) (rows : List PRow) : (tagRows fid j rows).map (·.2) = rows := by
  induction rows generalizing j with
  | nil => rfl
  | cons r rs ih => simp [tagRows, ih]

theorem tagRows_nodup (fid j : Nat) (rows : List PRow) : ((tagRows fid j rows).map (·.1)).Nodup := by
  induction rows generalizing j with
  | nil => simp [tagRows]
  | cons r rs ih =>
    simp only [tagRows, List.map_cons, List.nodup_cons]
    refine ⟨?_, ih (j + 1)⟩
    intro hm
    obtain ⟨x, hx, he⟩ := List.mem_map.mp hm
    have := (tagRows_fst hx).2.1
    rw [he] at this
    simp only at this
    omega

theorem tagRows_markAt (A : List (Nat × Nat)) (fid j : Nat) (rows : List PRow) :
    tagRows fid j (markAt A fid j rows) = (tagRows fid j rows).map (markT A) := by
  induction rows generalizing j with
  | nil => rfl
  | cons r rs ih => simp [tagRows, markAt, markT, ih]

theorem markAt_length (A : List (Nat × Nat)) (fid j : Nat) (rows : List PRow) :
    (markAt A fid j rows).length = rows.length := by
  induction rows generalizing j with
  | nil => rfl
  | cons r rs ih => simp [markAt, ih]

/-- no address of `A` in this fragment: nothing changes -/
theorem markAt_none {A : List (Nat × Nat)} {fid : Nat} (h : hasAddr A fid = false) (j : Nat) (rows : List PRow) :
    markAt A fid j rows = rows := by
  induction rows generalizing j with
  | nil => rfl
  | cons r rs ih =>
    have hn : (fid, j) ∉ A := by
      intro hm
      have : hasAddr A fid = true := by
        unfold hasAddr
        exact List.any_eq_true.mpr ⟨(fid, j), hm, by simp⟩
      rw [h] at this
      cases this
    simp [markAt, hn, ih]

theorem markAt_append (A B : List (Nat × Nat)) (fid j : Nat) (rows : List PRow) :
    markAt B fid j (markAt A fid j rows) = markAt (A ++ B) fid j rows := by
  induction rows generalizing j with
  | nil => rfl
  | cons r rs ih =>
    by_cases ha : (fid, j) ∈ A <;> by_cases hb : (fid, j) ∈ B <;> simp [markAt, ih, ha, hb]

theorem markAt_nil (fid j : Nat) (rows : List PRow) : markAt [] fid j rows = rows := by
  induction rows generalizing j with
  | nil => rfl
  | cons r rs ih => simp [markAt, ih]

theorem markT_live {A : List (Nat × Nat)} {x : TRow} : liveT (markT A x) = (liveT x && !A.contains x.1) := by
  unfold liveT markT
  by_cases h : x.1 ∈ A <;> simp [h]

theorem markT_of_live {A : List (Nat × Nat)} {x : TRow} (h : liveT (markT A x) = true) : markT A x = x := by
  rw [markT_live] at h
  simp only [Bool.and_eq_true, Bool.not_eq_eq_eq_not, Bool.not_true] at h
  have hn : x.1 ∉ A := by
    intro hm
    have : A.contains x.1 = true := by simpa using hm
    rw [h.2] at this
    cases this
  unfold markT
  simp [hn]

/-- visible rows after extending the deletion vector: the visible rows outside `A`, unchanged -/
theorem filter_live_markT (A : List (Nat × Nat)) (l : List TRow) :
    (l.map (markT A)).filter liveT = l.filter fun x => liveT x && !A.contains x.1 := by
  induction l with
  | nil => rfl
  | cons x xs ih =>
    simp only [List.map_cons, List.filter_cons, ih]
    by_cases h : liveT (markT A x) = true
    · have h' := h
      rw [markT_live] at h'
      rw [if_pos h, if_pos h', markT_of_live h]
    · have h' := h
      rw [markT_live] at h'
      rw [if_neg h, if_neg h']

/-! ### tagged -/

theorem tagged_nil : tagged [] = [] := rfl

theorem tagged_cons (f : Frag) (fs : List Frag) : tagged (f :: fs) = tagRows f.id 0 f.rows ++ tagged fs := by
  simp [tagged]

theorem mem_tagged {frags : List Frag} {x : TRow} :
    x ∈ tagged frags ↔ ∃ f ∈ frags, x ∈ tagRows f.id 0 f.rows := by
  simp [tagged]

theorem liveOf_eq (frags : List Frag) : liveOf frags = (liveTagged frags).map (·.2) := by
  induction frags with
  | nil => rfl
  | cons f fs ih =>
    rw [liveOf_cons, ih]
    unfold liveTagged
    rw [tagged_cons, List.filter_append, List.map_append]
    congr 1
    have : ∀ (j : Nat) (rows : List PRow),
        ((tagRows f.id j rows).filter liveT).map (·.2) = rows.filter fun r => !r.deleted := by
      intro j rows
      induction rows generalizing j with
      | nil => rfl
      | cons r rs ih2 =>
        simp only [tagRows, List.filter_cons, liveT]
        by_cases h : r.deleted <;> simp [h, ih2, liveT]
    exact (this 0 f.rows).symm

/-- addresses are unique when fragment ids are -/
theorem tagged_nodup {frags : List Frag} (h : (fragIds frags).Nodup) : ((tagged frags).map (·.1)).Nodup := by
  induction frags with
  | nil => simp [tagged]
  | cons f fs ih =>
    simp only [fragIds, List.map_cons, List.nodup_cons] at h
    rw [tagged_cons, List.map_append]
    apply List.nodup_append.mpr
    refine ⟨tagRows_nodup _ _ _, ih h.2, ?_⟩
    intro a ha b hb hab
    obtain ⟨x, hx, rfl⟩ := List.mem_map.mp ha
    obtain ⟨y, hy, rfl⟩ := List.mem_map.mp hb
    obtain ⟨g, hg, hyg⟩ := mem_tagged.mp hy
    have h1 := (tagRows_fst hx).1
    have h2 := (tagRows_fst hyg).1
    apply h.1
    rw [← h1, hab, h2]
    exact List.mem_map.mpr ⟨g, hg, rfl⟩

theorem nodup_of_map {α β : Type} (f : α → β) {l : List α} (h : (l.map f).Nodup) : l.Nodup :=
  List.Pairwise.of_map f (fun _ _ hne he => hne (congrArg f he)) h

theorem inj_of_nodup_map {α β : Type} (f : α → β) {l : List α} (h : (l.map f).Nodup) {x y : α} (hx : x ∈ l) (hy : y ∈ l)
    (he : f x = f y) : x = y := by
  induction l with
  | nil => cases hx
  | cons a t ih =>
    simp only [List.map_cons, List.nodup_cons] at h
    rcases List.mem_cons.mp hx with hxa | hx <;> rcases List.mem_cons.mp hy with hya | hy
    · rw [hxa, hya]
    · exfalso; apply h.1; rw [← hxa, he]; exact List.mem_map.mpr ⟨y, hy, rfl⟩
    · exfalso; apply h.1; rw [← hya, ← he]; exact List.mem_map.mpr ⟨x, hx, rfl⟩
    · exact ih h.2 hx hy

theorem filterMap_congr' {α β : Type} {f g : α → Option β} {l : List α} (h : ∀ x ∈ l, f x = g x) :
    l.filterMap f = l.filterMap g := by
  induction l with
  | nil => rfl
  | cons a t ih =>
    rw [List.filterMap_cons, List.filterMap_cons, h a (List.mem_cons_self ..),
      ih (fun x hx => h x (List.mem_cons_of_mem _ hx))]

theorem tagged_pairs_nodup {frags : List Frag} (h : (fragIds frags).Nodup) : (tagged frags).Nodup :=
  nodup_of_map _ (tagged_nodup h)

/-- two tagged rows with the same address are the same row -/
theorem tagged_inj {frags : List Frag} (h : (fragIds frags).Nodup) {x y : TRow} (hx : x ∈ tagged frags)
    (hy : y ∈ tagged frags) (he : x.1 = y.1) : x = y :=
  inj_of_nodup_map _ (tagged_nodup h) hx hy he

/-! ### the Delete / Update arm on fragments whose deletion vectors grow by `A` -/

/-- `apply_deletions` + the arm's replacement, for one fragment -/
def markFrag (A : List (Nat × Nat)) (f : Frag) : Option Frag :=
  if hasAddr A f.id then (if allDeleted (extendDel A f) then none else some (extendDel A f)) else some f

def moveFrags (A : List (Nat × Nat)) (frags : List Frag) : List Frag := frags.filterMap (markFrag A)

theorem markFrag_id {A : List (Nat × Nat)} {f g : Frag} (h : markFrag A f = some g) : g.id = f.id := by
  unfold markFrag at h
  split at h
  · split at h
    · cases h
    · cases h; rfl
  · cases h; rfl

theorem moveFrags_cons (A : List (Nat × Nat)) (f : Frag) (fs : List Frag) :
    moveFrags A (f :: fs) = (match markFrag A f with | some g => [g] | none => []) ++ moveFrags A fs := by
  unfold moveFrags
  rw [List.filterMap_cons]
  cases markFrag A f <;> rfl


theorem filter_live_tagRows_extendDel (A : List (Nat × Nat)) (f : Frag) :
    (tagRows f.id 0 (extendDel A f).rows).filter liveT =
      (tagRows f.id 0 f.rows).filter fun x => liveT x && !A.contains x.1 := by
  unfold extendDel
  simp only
  rw [tagRows_markAt, filter_live_markT]

theorem filter_live_allDeleted {fid j : Nat} {rows : List PRow} (h : rows.all (·.deleted) = true) :
    (tagRows fid j rows).filter liveT = [] := by
  induction rows generalizing j with
  | nil => rfl
  | cons r rs ih =>
    simp only [List.all_cons, Bool.and_eq_true] at h
    simp [tagRows, List.filter_cons, liveT, h.1, ih h.2]

/-- the visible rows after the arm: the visible rows outside `A`, with their addresses, in order -/
theorem liveTagged_moveFrags (A : List (Nat × Nat)) (frags : List Frag) :
    liveTagged (moveFrags A frags) = (liveTagged frags).filter fun x => !A.contains x.1 := by
  unfold liveTagged
  rw [List.filter_filter]
  induction frags with
  | nil => rfl
  | cons f fs ih =>
    rw [tagged_cons, List.filter_append]
    have hkeep : (tagRows f.id 0 (extendDel A f).rows).filter liveT =
        (tagRows f.id 0 f.rows).filter fun x => (!A.contains x.1) && liveT x := by
      rw [filter_live_tagRows_extendDel]
      apply List.filter_congr
      intro x _
      rw [Bool.and_comm]
    rw [moveFrags_cons]
    unfold markFrag
    by_cases ha : hasAddr A f.id = true
    · rw [if_pos ha]
      by_cases hd : allDeleted (extendDel A f) = true
      · rw [if_pos hd]
        simp only [List.nil_append]
        rw [ih, ← hkeep, filter_live_allDeleted (by simpa [allDeleted] using hd)]
        rfl
      · rw [if_neg hd]
        simp only [List.singleton_append]
        rw [tagged_cons, List.filter_append, ih, ← hkeep]
        rfl
    · rw [if_neg ha]
      simp only [List.singleton_append]
      rw [tagged_cons, List.filter_append, ih]
      congr 1
      apply List.filter_congr
      intro x hx
      have hfid := (tagRows_fst hx).1
      have hn : x.1 ∉ A := by
        intro hm
        apply ha
        unfold hasAddr
        exact List.any_eq_true.mpr ⟨x.1, hm, by simp [hfid]⟩
      simp [hn]

theorem fragIds_moveFrags_sublist (A : List (Nat × Nat)) (frags : List Frag) :
    (fragIds (moveFrags A frags)).Sublist (fragIds frags) := by
  induction frags with
  | nil => exact List.Sublist.refl _
  | cons f fs ih =>
    rw [moveFrags_cons]
    cases hm : markFrag A f with
    | none =>
      simp only [List.nil_append, fragIds, List.map_cons]
      exact List.Sublist.cons _ ih
    | some g =>
      simp only [List.singleton_append, fragIds, List.map_cons]
      rw [markFrag_id hm]
      exact List.Sublist.cons_cons _ ih

/-- the Delete / Update arm of `build_manifest` for one existing fragment -/
def applyOne (T : Txn) (f : Frag) : Option Frag :=
  if T.removed.contains f.id then none
  else
    match T.updated.find? fun u => u.id == f.id with
    | some u => some u
    | none => some f

theorem applyFrags_def (T : Txn) (frags : List Frag) : applyFrags T frags = frags.filterMap (applyOne T) := rfl

/-- the literal arm treats a fragment like `markFrag` when the transaction's lists describe it correctly -/
theorem applyOne_eq_markFrag (T : Txn) (A : List (Nat × Nat)) (f : Frag)
    (h1 : T.removed.contains f.id = (hasAddr A f.id && allDeleted (extendDel A f)))
    (h2 : T.removed.contains f.id = false →
      T.updated.find? (fun u => u.id == f.id) = if hasAddr A f.id then some (extendDel A f) else none) :
    applyOne T f = markFrag A f := by
  unfold applyOne markFrag
  by_cases hr : T.removed.contains f.id = true
  · rw [if_pos hr]
    have := h1
    rw [hr] at this
    have := this.symm
    simp only [Bool.and_eq_true] at this
    rw [if_pos this.1, if_pos this.2]
  · rw [if_neg hr]
    have hr' : T.removed.contains f.id = false := by simpa using hr
    rw [h2 hr']
    have := h1
    rw [hr'] at this
    by_cases ha : hasAddr A f.id = true
    · rw [if_pos ha, if_pos ha]
      have hd : allDeleted (extendDel A f) = false := by
        rw [ha] at this
        simpa using this.symm
      simp [hd]
    · rw [if_neg ha, if_neg ha]

theorem applyFrags_eq_moveFrags (T : Txn) (A : List (Nat × Nat)) (frags : List Frag)
    (h : ∀ f ∈ frags, applyOne T f = markFrag A f) : applyFrags T frags = moveFrags A frags := by
  rw [applyFrags_def]
  unfold moveFrags
  exact filterMap_congr' h

theorem markFrag_some {A : List (Nat × Nat)} {f g : Frag} (h : markFrag A f = some g) :
    g = f ∨ g = extendDel A f := by
  unfold markFrag at h
  split at h
  · split at h
    · cases h
    · cases h; exact Or.inr rfl
  · cases h; exact Or.inl rfl

end LanceModel.C18
