import LanceModel.C18.Model
/-
C18 lemmas, layer 1: `Transaction::assign_row_ids` (`assignOne`, `assignRowIds`).
-/
namespace LanceModel.C18
open LanceModel.Table LanceModel.C17Base List

/-- more ids than physical rows -/
def RawFrag.excess (f : RawFrag) : Bool := decide (f.phys < f.have.length)

/-- number of ids the fragment still needs -/
def RawFrag.missing (f : RawFrag) : Nat := f.phys - f.have.length

theorem assignOne_none (next : Nat) (f : RawFrag) : assignOne next f = none ↔ f.excess = true := by
  unfold assignOne RawFrag.excess RawFrag.have
  cases h : f.ids with
  | none => simp
  | some l =>
    simp only
    split
    · simp; omega
    · split
      · simp; omega
      · simp; omega

theorem assignOne_some (next : Nat) (f : RawFrag) (h : f.excess = false) :
    assignOne next f = some (next + f.missing, f.have ++ List.range' next f.missing) := by
  unfold assignOne RawFrag.missing
  unfold RawFrag.excess at h
  unfold RawFrag.have at *
  cases hi : f.ids with
  | none => simp
  | some l =>
    simp only [hi, decide_eq_false_iff_not, Nat.not_lt] at h ⊢
    by_cases he : l.length = f.phys
    · rw [if_pos he]
      have : f.phys - l.length = 0 := by omega
      simp [this]
    · rw [if_neg he, if_pos (by omega)]

/-- the fresh ids handed out, fragment after fragment -/
def freshOf (next : Nat) : List RawFrag → List (List Nat)
  | [] => []
  | f :: fs => List.range' next f.missing :: freshOf (next + f.missing) fs

def totalMissing : List RawFrag → Nat
  | [] => 0
  | f :: fs => f.missing + totalMissing fs

theorem assignRowIds_none (next : Nat) (frags : List RawFrag) :
    assignRowIds next frags = none ↔ ∃ f ∈ frags, f.excess = true := by
  induction frags generalizing next with
  | nil => simp [assignRowIds]
  | cons f fs ih =>
    unfold assignRowIds
    by_cases he : f.excess = true
    · rw [(assignOne_none next f).mpr he]
      simp [he]
    · have he' : f.excess = false := by simpa using he
      rw [assignOne_some next f he']
      simp only
      cases hr : assignRowIds (next + f.missing) fs with
      | none =>
        simp only [true_iff]
        obtain ⟨g, hg, hge⟩ := (ih _).mp hr
        exact ⟨g, List.mem_cons_of_mem _ hg, hge⟩
      | some p =>
        simp only [reduceCtorEq, false_iff]
        rintro ⟨g, hg, hge⟩
        rcases List.mem_cons.mp hg with rfl | hg
        · exact he hge
        · have := (ih (next + f.missing)).mpr ⟨g, hg, hge⟩
          rw [hr] at this
          cases this

theorem assignRowIds_some (next : Nat) (frags : List RawFrag) (h : ∀ f ∈ frags, f.excess = false) :
    assignRowIds next frags =
      some (next + totalMissing frags, List.zipWith (fun (f : RawFrag) fr => f.have ++ fr) frags (freshOf next frags)) := by
  induction frags generalizing next with
  | nil => simp [assignRowIds, totalMissing, freshOf]
  | cons f fs ih =>
    unfold assignRowIds
    rw [assignOne_some next f (h f (List.mem_cons_self ..))]
    simp only
    rw [ih (next + f.missing) (fun g hg => h g (List.mem_cons_of_mem _ hg))]
    simp [totalMissing, freshOf, Nat.add_assoc]

/-- all fresh ids of one call, in order: the consecutive range from `next_row_id` -/
theorem freshOf_flatten (next : Nat) (frags : List RawFrag) :
    (freshOf next frags).flatten = List.range' next (totalMissing frags) := by
  induction frags generalizing next with
  | nil => simp [freshOf, totalMissing]
  | cons f fs ih =>
    simp only [freshOf, totalMissing, List.flatten_cons, ih]
    rw [← List.range'_append_1]

theorem freshOf_length (next : Nat) (frags : List RawFrag) : (freshOf next frags).length = frags.length := by
  induction frags generalizing next with
  | nil => rfl
  | cons f fs ih => simp [freshOf, ih]

/-! ### the rows the model's Update arm numbers -/

theorem rids_inserted_range (frags : List Frag) (v next k : Nat) (rows : List Row) :
    (insertedRowsOf frags v next k rows).map (·.rid) = List.range' next rows.length := by
  induction rows generalizing next with
  | nil => rfl
  | cons s ss ih =>
    simp only [insertedRowsOf, List.map_cons, List.length_cons, movedRow, ih (next + 1)]
    simp [List.range'_succ]

theorem rids_newRows (L : Manifest) (T : Txn) :
    (newRows L T).map (·.rid) = T.moved.map (·.1) ++ List.range' L.nextRowId T.fresh.length := by
  unfold newRows
  rw [List.map_append, rids_inserted_range, List.map_map]
  congr 1

theorem newRows_length (L : Manifest) (T : Txn) : (newRows L T).length = T.moved.length + T.fresh.length := by
  have := congrArg List.length (rids_newRows L T)
  simpa using this

end LanceModel.C18
