import LanceModel.C34.Props
import LanceModel.C18.HistLemmas
/-
C18 lemmas, layer 7: the fragment layout of a version as input of `RowIdIndex::new` (C34), and the row behind an address.
-/
namespace LanceModel.C18
open LanceModel.Table LanceModel.C17Base List

/-- the offsets a fragment's deletion vector covers -/
def delOffs : Nat → List PRow → List Nat
  | _, [] => []
  | j, r :: rs => if r.deleted then j :: delOffs (j + 1) rs else delOffs (j + 1) rs

/-- `fragment_id << 32 | offset` -/
def addrOf (a : Nat × Nat) : Nat := a.1 * 4294967296 + a.2

/-- what `get_row_id_index` hands to `RowIdIndex::new`: per fragment its id, its row id sequence (in whatever segment
    encoding `enc` the writer chose) and its deletion vector -/
def layout (enc : List Nat → C34.Seq) (m : Manifest) : List (Nat × C34.Seq × List Nat) :=
  m.frags.map fun f => (f.id, enc (f.rows.map (·.rid)), delOffs 0 f.rows)

theorem mem_delOffs {rows : List PRow} {j i : Nat} :
    i ∈ delOffs j rows ↔ j ≤ i ∧ ∃ r, rows[i - j]? = some r ∧ r.deleted = true := by
  induction rows generalizing j with
  | nil => simp [delOffs]
  | cons a t ih =>
    unfold delOffs
    by_cases hd : a.deleted = true
    · rw [if_pos hd, List.mem_cons, ih]
      constructor
      · rintro (rfl | ⟨hle, r, hr, hdr⟩)
        · exact ⟨Nat.le_refl _, a, by simp, hd⟩
        · refine ⟨by omega, r, ?_, hdr⟩
          have : i - j = (i - (j + 1)) + 1 := by omega
          rw [this, List.getElem?_cons_succ]
          exact hr
      · rintro ⟨hle, r, hr, hdr⟩
        by_cases he : i = j
        · exact Or.inl he
        · right
          refine ⟨by omega, r, ?_, hdr⟩
          have : i - j = (i - (j + 1)) + 1 := by omega
          rw [this, List.getElem?_cons_succ] at hr
          exact hr
    · rw [if_neg hd, ih]
      constructor
      · rintro ⟨hle, r, hr, hdr⟩
        refine ⟨by omega, r, ?_, hdr⟩
        have : i - j = (i - (j + 1)) + 1 := by omega
        rw [this, List.getElem?_cons_succ]
        exact hr
      · rintro ⟨hle, r, hr, hdr⟩
        by_cases he : i = j
        · subst he
          simp only [Nat.sub_self, List.getElem?_cons_zero, Option.some.injEq] at hr
          subst hr
          exact absurd hdr hd
        · refine ⟨by omega, r, ?_, hdr⟩
          have : i - j = (i - (j + 1)) + 1 := by omega
          rw [this, List.getElem?_cons_succ] at hr
          exact hr

/-- the pairs `RowIdIndex::new` keeps for one fragment are its visible rows with their addresses -/
theorem activePairs_tag (fid base : Nat) (dv : List Nat) (rows : List PRow) (j : Nat)
    (hdv : ∀ i r, rows[i]? = some r → dv.contains (j + i) = r.deleted) :
    ((rows.map (·.rid)).zipIdx j).filterMap
        (fun p => if dv.contains (0 + p.2) then none else some (p.1, base + p.2)) =
      ((tagRows fid j rows).filter liveT).map fun x => (x.2.rid, base + x.1.2) := by
  induction rows generalizing j with
  | nil => rfl
  | cons a t ih =>
    have h0 : dv.contains j = a.deleted := by simpa using hdv 0 a (by simp)
    have hih := ih (j + 1) (by
      intro i r hr
      have := hdv (i + 1) r (by simpa using hr)
      rw [← this]
      congr 1
      omega)
    rw [List.map_cons, List.zipIdx_cons, List.filterMap_cons]
    simp only [Nat.zero_add] at hih ⊢
    rw [h0, hih]
    rw [show tagRows fid j (a :: t) = ((fid, j), a) :: tagRows fid (j + 1) t from rfl, List.filter_cons]
    cases hd : a.deleted <;> simp [liveT, hd]

theorem livePairs_layout (enc : List Nat → C34.Seq) (m : Manifest)
    (henc : ∀ f ∈ m.frags, C34.Seq.toList (enc (f.rows.map (·.rid))) = f.rows.map (·.rid)) :
    C34.livePairs (layout enc m) = (liveTagged m.frags).map fun x => (x.2.rid, addrOf x.1) := by
  unfold C34.livePairs layout liveTagged tagged
  rw [List.flatMap_map]
  have : ∀ (frags : List Frag), (∀ f ∈ frags, C34.Seq.toList (enc (f.rows.map (·.rid))) = f.rows.map (·.rid)) →
      (frags.flatMap fun f =>
        C34.activePairs (delOffs 0 f.rows) 0 (f.id * 4294967296) (C34.Seq.toList (enc (f.rows.map (·.rid))))) =
      ((frags.flatMap fun f => tagRows f.id 0 f.rows).filter liveT).map fun x => (x.2.rid, addrOf x.1) := by
    intro frags
    induction frags with
    | nil => intro _; rfl
    | cons f fs ih =>
      intro he
      rw [List.flatMap_cons, List.flatMap_cons, List.filter_append, List.map_append,
        ih (fun g hg => he g (List.mem_cons_of_mem _ hg)), he f (List.mem_cons_self ..)]
      congr 1
      unfold C34.activePairs
      rw [activePairs_tag f.id (f.id * 4294967296) (delOffs 0 f.rows) f.rows 0 (by
        intro i r hr
        cases hd : r.deleted with
        | true =>
          have : (0 + i) ∈ delOffs 0 f.rows := mem_delOffs.mpr ⟨Nat.zero_le _, r, by simpa using hr, hd⟩
          simpa using this
        | false =>
          apply Bool.eq_false_iff.mpr
          intro hc
          have hm : (0 + i) ∈ delOffs 0 f.rows := by simpa using hc
          obtain ⟨_, r2, hr2, hd2⟩ := mem_delOffs.mp hm
          simp only [Nat.zero_add, Nat.sub_zero] at hr2
          rw [hr] at hr2
          cases hr2
          rw [hd] at hd2
          cases hd2)]
      apply List.map_congr_left
      intro x hx
      have := (tagRows_fst (List.mem_filter.mp hx).1).1
      simp [addrOf, this]
  exact this m.frags henc

/-- the sizes `u32` fragment ids, `u32` offsets and `u64` row ids allow -/
def Sized (m : Manifest) : Prop :=
  m.nextRowId ≤ C34.U64MAX ∧ ∀ f ∈ m.frags, f.id < 4294967296 ∧ f.rows.length ≤ 4294967296

theorem addrOf_inj {frags : List Frag} (hs : ∀ f ∈ frags, f.id < 4294967296 ∧ f.rows.length ≤ 4294967296)
    {x y : TRow} (hx : x ∈ tagged frags) (hy : y ∈ tagged frags) (h : addrOf x.1 = addrOf y.1) : x.1 = y.1 := by
  obtain ⟨f, hf, hxf⟩ := mem_tagged.mp hx
  obtain ⟨g, hg, hyg⟩ := mem_tagged.mp hy
  have a1 := tagRows_fst hxf
  have a2 := tagRows_fst hyg
  have b1 := (hs f hf).2
  have b2 := (hs g hg).2
  unfold addrOf at h
  have : x.1.1 = y.1.1 ∧ x.1.2 = y.1.2 := by omega
  exact Prod.ext this.1 this.2

/-- the row at an address the scan reports -/
theorem rowAt_tagged {m : Manifest} (hok : FragOk m) (hs : ∀ f ∈ m.frags, f.id < 4294967296 ∧ f.rows.length ≤ 4294967296)
    {x : TRow} (hx : x ∈ tagged m.frags) : rowAt m (addrOf x.1) = some x.2 := by
  obtain ⟨f, hf, hxf⟩ := mem_tagged.mp hx
  have a1 := tagRows_fst hxf
  have b1 := (hs f hf).2
  have hdiv : addrOf x.1 / 4294967296 = f.id := by
    unfold addrOf
    rw [a1.1]
    omega
  have hmod : addrOf x.1 % 4294967296 = x.1.2 := by
    unfold addrOf
    omega
  unfold rowAt
  rw [hdiv, find_by_id hok.1 hf, hmod]
  have := (tagRows_getElem hxf).1
  simpa using this

end LanceModel.C18
