import LanceModel.C18.CallLemmas
/-
C18 lemmas, layer 8: the (key, row id) association across one call that updates, upserts or compacts.
-/
namespace LanceModel.C18
open LanceModel.Table LanceModel.C17Base List

theorem pairs_eq (m : Manifest) : pairs m = krs (live m) := rfl

theorem krs_perm {a b : List PRow} (h : a.Perm b) : (krs a).Perm (krs b) := h.map kr

/-- fresh rows: ids from `next` on -/
theorem krs_inserted_fresh (frags : List Frag) (v next k : Nat) (rows : List Row) :
    ∀ p ∈ krs (insertedRowsOf frags v next k rows), next ≤ p.2 := by
  intro p hp
  obtain ⟨r, hr, rfl⟩ := List.mem_map.mp hp
  exact (mem_insertedRowsOf hr).1

/-- an Update transaction: the association of the latest version plus the inserted rows -/
theorem commit_pairs {L : Manifest} {T' : Txn} (hf : CommitFacts L T') (hku : T'.kind = .update) :
    (pairs (buildOn L T')).Perm
      (pairs L ++ krs (insertedRowsOf L.frags (L.version + 1) L.nextRowId L.k T'.fresh)) := by
  rw [pairs_eq, pairs_eq]
  have hperm := live_buildOn_du L T' hf.kind hf.rows
  rcases hf.eff with ⟨hd, _⟩ | ⟨A, harm, hm⟩
  · rw [hku] at hd; cases hd
  · rcases hm with ⟨hd, _⟩ | ⟨_, hp⟩
    · rw [hku] at hd; cases hd
    · rw [applyFrags_eq_moveFrags T' A L.frags harm] at hperm
      exact (krs_perm hperm).trans (move_pairs L T' A hp)

theorem keyOf_set_one (cells : Row) (x : Cell) : keyOf (cells.set 1 x) = keyOf cells := by
  unfold keyOf cellAt
  cases cells with
  | nil => rfl
  | cons c cs => cases cs <;> rfl

theorem kr_patchRow (v : Nat) (src : List Row) (r : PRow) : kr (patchRow v src r) = kr r := by
  unfold patchRow kr
  split
  · rfl
  · split
    · simp [keyOf_set_one]
    · rfl

/-- the sequential C17 step for a compaction or a partial-schema merge_insert -/
theorem seq_pairs (m : Manifest) (ms : List Manifest) (op : Op) (hok : FragOk m)
    (hop : (∃ t mat, op = .compact t mat) ∨ ∃ rows, op = .upsert rows ∧ (rows.head?.map List.length) ≠ some m.k) :
    ∃ L' ms' F, (step (m :: ms) op).1 = L' :: ms' ∧ (pairs L').Perm (pairs m ++ F) ∧ ∀ p ∈ F, m.nextRowId ≤ p.2 := by
  rcases step_cons m ms op hok with h0 | ⟨m', hm', _, _, _, hperm⟩
  · exact ⟨m, ms, [], h0, by simp, by intro p hp; cases hp⟩
  · refine ⟨m', _, ?_, hm', ?_, ?_⟩
    · exact match op with
        | .upsert rows => krs (insertedRowsOf m.frags (m.version + 1) m.nextRowId m.k (upsertNew m.frags rows))
        | _ => []
    · rw [pairs_eq, pairs_eq]
      refine (krs_perm hperm).trans ?_
      rcases hop with ⟨t, mat, rfl⟩ | ⟨rows, rfl, hw⟩
      · simp [liveAfter]
      · simp only [liveAfter]
        split
        · simp [krs]
          -- `err keys`: nothing is published, but then the step does not grow; the description is vacuous here
          rename_i hk
          exfalso
          have : (step (m :: ms) (.upsert rows)).1 = m :: ms := by
            simp only [step]
            cases rows with
            | nil => rfl
            | cons r0 rest =>
              simp only
              split
              · rfl
              · first | rfl | rw [if_pos hk]
          rw [this] at hm'
          have := congrArg List.length hm'
          simp at this
          omega
        · try rw [if_neg hw]
          simp only [krs, List.map_append, List.map_map]
          apply List.Perm.append_right
          apply List.Perm.of_eq
          apply List.map_congr_left
          intro r _
          exact kr_patchRow _ _ r
    · rcases hop with ⟨t, mat, rfl⟩ | ⟨rows, rfl, _⟩
      · intro p hp; cases hp
      · exact krs_inserted_fresh _ _ _ _ _

end LanceModel.C18
