import LanceModel.C18.HistLemmas
/-
C18 lemmas, layer 6: one call preserves the history invariant.  `CommitFacts` is what the invariant needs to know about a
Delete / Update commit (the arm is `moveFrags` at the affected addresses on the LATEST fragments, the captured ids are the
ids of the visible rows there); it is established here for a handle on the latest version (nothing to rebase over).
-/
namespace LanceModel.C18
open LanceModel.Table LanceModel.C17 List

theorem versions_le {ms : List Manifest} (hv : Versions ms) : ∀ m ∈ ms, m.version ≤ ms.length := by
  induction ms with
  | nil => intro m hm; cases hm
  | cons a t ih =>
    intro m hm
    rcases List.mem_cons.mp hm with rfl | hm
    · rw [hv.1]; simp
    · have := ih hv.2 m hm
      simp only [List.length_cons]; omega

/-- nothing was committed after the latest version -/
theorem othersSince_latest {h : Hist} {L : Manifest} {ms : List Manifest} (hms : h.ms = L :: ms) (hi : HInv h) :
    othersSince h L.version = [] := by
  unfold othersSince
  have hle := versions_le hi.ver
  have hL := hi.ver
  rw [hms] at hle hL
  have : ((h.ms.zip h.feet).filter fun x => decide (L.version < x.1.version)) = [] := by
    apply List.filter_eq_nil_iff.mpr
    intro x hx
    have hm : x.1 ∈ h.ms := (List.of_mem_zip hx).1
    rw [hms] at hm
    have := hle x.1 hm
    have := hL.1
    simp only [List.length_cons] at *
    simp
    omega
  rw [this]
  rfl

theorem find_latest {h : Hist} {L : Manifest} {ms : List Manifest} (hms : h.ms = L :: ms) :
    h.ms.find? (fun m => m.version == L.version) = some L := by
  rw [hms, List.find?_cons]
  simp

theorem rebase_nil_du (T : Txn) (L : Manifest) (hk : T.kind ≠ .append) : rebase T [] L = .ok T := by
  have hf : finishDU T (rebNew T) L = .ok T := by
    unfold finishDU rebNew
    split <;> simp
  unfold rebase
  cases hkk : T.kind <;> first | exact absurd hkk hk | (simp only [checkAllDU]; exact hf)

theorem rebase_append {T T' : Txn} {others : List Foot} {L : Manifest} (hk : T.kind = .append)
    (h : rebase T others L = .ok T') : T' = T := by
  unfold rebase at h
  rw [hk] at h
  simp only at h
  split at h
  · cases h
  · cases h; rfl

/-- what the invariant needs from a Delete / Update commit on the latest manifest `L` -/
structure CommitFacts (L : Manifest) (T' : Txn) : Prop where
  kind : T'.kind ≠ .append
  rows : T'.fileRows ≠ 0
  eff : (T'.kind = .delete ∧ T'.updated = [] ∧ T'.moved = [] ∧ T'.fresh = []) ∨
    ∃ A, applyFrags T' L.frags = moveFrags A L.frags ∧
      ((T'.kind = .delete ∧ T'.moved = [] ∧ T'.fresh = []) ∨
        (T'.kind = .update ∧
          (T'.moved.map fun x => (keyOf x.2, x.1)).Perm ((rowsAt A L.frags).map fun x => kr x.2)))

theorem hinv_commit {h : Hist} {L : Manifest} {ms : List Manifest} (hms : h.ms = L :: ms) (hi : HInv h) {T' : Txn}
    (hf : CommitFacts L T') (ft : Foot) : HInv { ms := buildOn L T' :: h.ms, feet := ft :: h.feet } := by
  rcases hf.eff with ⟨_, hu, hm, hfr⟩ | ⟨A, harm, hm⟩
  · exact hinv_drop hms hi T' hf.kind hf.rows hu hm hfr ft
  · refine hinv_du hms hi T' A hf.kind hf.rows harm ?_ ft
    rcases hm with ⟨_, h0, _⟩ | ⟨_, hp⟩
    · exact Or.inl h0
    · right
      have := hp.map (·.2)
      simpa [kr, List.map_map, Function.comp_def] using this

theorem defaultMaxRows_ne' : defaultMaxRows ≠ 0 := by decide

/-- the (key, id) pairs of the rows a merge_insert moves: the pairs of the target rows it matched -/
theorem upsert_moved_pairs (frags : List Frag) (src : List Row) :
    ((src.filterMap fun s => (matchOf frags s).map fun x => (x.2.rid, s)).map fun x => (keyOf x.2, x.1)) =
      (src.filterMap (matchOf frags)).map fun x => kr x.2 := by
  induction src with
  | nil => rfl
  | cons s ss ih =>
    rw [List.filterMap_cons, List.filterMap_cons]
    cases hm : matchOf frags s with
    | none => simpa using ih
    | some x =>
      simp only [Option.map_some, List.map_cons, ih]
      congr 1
      simp only [kr]
      rw [key_of_joins (matchOf_mem hm).2]

/-- the facts hold for the transaction a writer plans on the latest version itself -/
theorem facts_own {L : Manifest} (hok : FragOk L) (op : Op) (T : Txn) (hp : planOf op L = some T)
    (hrej : rejectOf op L = none) (hk : T.kind ≠ .append) : CommitFacts L T := by
  cases op with
  | create f k rows => simp [planOf] at hp
  | overwrite f rows => simp [planOf] at hp
  | compact t mat => simp [planOf] at hp
  | append f rows =>
    simp only [planOf, Option.some.injEq] at hp
    subst hp
    exact absurd rfl hk
  | delete p =>
    simp only [planOf, Option.some.injEq] at hp
    subst hp
    unfold planDelete
    by_cases hall : p = .all
    · rw [if_pos hall]
      exact ⟨by simp, defaultMaxRows_ne', Or.inl ⟨rfl, rfl, rfl, rfl⟩⟩
    · rw [if_neg hall]
      refine ⟨by simp, defaultMaxRows_ne', Or.inr ⟨(selected (predHit p) L.frags).map (·.1), ?_, Or.inl ⟨rfl, rfl, rfl⟩⟩⟩
      exact own_plan _ _ hok.1 _ rfl rfl
  | update p y =>
    simp only [planOf, Option.some.injEq] at hp
    subst hp
    refine ⟨by simp [planUpdate], defaultMaxRows_ne', Or.inr ⟨(selected (predHit p) L.frags).map (·.1), ?_, Or.inr ⟨rfl, ?_⟩⟩⟩
    · exact own_plan _ _ hok.1 _ rfl rfl
    · rw [rowsAt_selected _ _ hok.1]
      simp only [planUpdate, List.map_map]
      apply List.Perm.of_eq
      apply List.map_congr_left
      intro x _
      simp only [Function.comp, kr, keyOf, cellAt]
      congr 1
      cases hc : x.2.cells with
      | nil => rfl
      | cons c cs => cases cs <;> rfl
  | upsert rows =>
    simp only [planOf] at hp
    split at hp
    · simp only [Option.some.injEq] at hp
      subst hp
      have hkeys : distinctKeys rows = true := by
        simp only [rejectOf] at hrej
        split at hrej
        · cases hrej
        · split at hrej
          · cases hrej
          · rename_i hko
            have hk2 : keysOk rows = true := by
              cases hkk : keysOk rows with
              | true => rfl
              | false => simp [hkk] at hko
            simp only [keysOk, Bool.and_eq_true] at hk2
            exact hk2.2
      refine ⟨by simp [planUpsert], defaultMaxRows_ne', Or.inr ⟨(rows.filterMap (matchOf L.frags)).map (·.1), ?_, Or.inr ⟨rfl, ?_⟩⟩⟩
      · exact own_plan _ _ hok.1 _ rfl rfl
      · have hperm := rowsAt_matches L.frags rows hok.1 hkeys
        refine List.Perm.trans ?_ (hperm.map fun x => kr x.2)
        apply List.Perm.of_eq
        simp only [planUpsert]
        exact upsert_moved_pairs L.frags rows
    · cases hp

theorem planOf_append {op : Op} {mv : Manifest} {T : Txn} (hp : planOf op mv = some T) (hk : T.kind = .append) :
    ∃ f rows, op = .append f rows ∧ T = planAppend f rows := by
  cases op with
  | append f rows =>
    simp only [planOf, Option.some.injEq] at hp
    exact ⟨f, rows, rfl, hp.symm⟩
  | create f k rows => simp [planOf] at hp
  | overwrite f rows => simp [planOf] at hp
  | compact t mat => simp [planOf] at hp
  | delete p =>
    simp only [planOf, Option.some.injEq] at hp
    subst hp
    unfold planDelete at hk
    split at hk <;> cases hk
  | update p y =>
    simp only [planOf, Option.some.injEq] at hp
    subst hp
    cases hk
  | upsert rows =>
    simp only [planOf] at hp
    split at hp
    · simp only [Option.some.injEq] at hp
      subst hp
      cases hk
    · cases hp

/-- what a commit through a handle does, for the calls covered so far (the handle is on the latest version, or the call is
    an append): an error leaves the history alone; otherwise one manifest is pushed, built on the LATEST manifest from the
    rebased transaction, which is either the planned append or a Delete / Update transaction with `CommitFacts` -/
theorem commitStale_spec (h : Hist) (v : Nat) (op : Op) (hi : HInv h)
    (hc : ∀ L ms, h.ms = L :: ms → v = L.version ∨ ∃ f rows, op = .append f rows) :
    ((commitStale h v op).1 = h ∧ (commitStale h v op).2 ≠ .ok) ∨
    ∃ L ms T', h.ms = L :: ms ∧
      commitStale h v op = ({ ms := buildOn L T' :: h.ms, feet := T'.foot :: h.feet }, .ok) ∧
      ((∃ f rows, op = .append f rows ∧ f ≠ 0 ∧ T' = planAppend f rows) ∨
       (CommitFacts L T' ∧ ∃ mv T, mv ∈ h.ms ∧ planOf op mv = some T ∧ T.kind ≠ .append ∧ T'.kind = T.kind ∧
          T'.fresh = T.fresh)) := by
  unfold commitStale
  cases hms : h.ms with
  | nil => exact Or.inl ⟨rfl, fun hh => by cases hh⟩
  | cons L ms =>
    simp only
    cases hfind : (L :: ms).find? (fun m => m.version == v) with
    | none => exact Or.inl ⟨rfl, fun hh => by cases hh⟩
    | some mv =>
      simp only
      cases hp : planOf op mv with
      | none => exact Or.inl ⟨rfl, fun hh => by cases hh⟩
      | some T =>
        simp only
        cases hr : rejectOf op mv with
        | some k => exact Or.inl ⟨rfl, fun hh => by cases hh⟩
        | none =>
          simp only
          cases hreb : rebase T (othersSince h v) L with
          | error c => cases c <;> exact Or.inl ⟨rfl, fun hh => by cases hh⟩
          | ok T' =>
            simp only
            right
            refine ⟨L, ms, T', rfl, rfl, ?_⟩
            by_cases hk : T.kind = .append
            · obtain ⟨f, rows, hop, hT⟩ := planOf_append hp hk
              have hT' := rebase_append hk hreb
              subst hT'
              subst hT
              have hf : f ≠ 0 := by
                subst hop
                simp only [rejectOf] at hr
                split at hr
                · cases hr
                · split at hr
                  · cases hr
                  · assumption
              exact Or.inl ⟨f, rows, hop, hf, rfl⟩
            · rcases hc L ms hms with hv | ⟨f, rows, hop⟩
              · subst hv
                have hfl := find_latest hms
                rw [hms] at hfl
                rw [hfl] at hfind
                cases hfind
                rw [othersSince_latest hms hi, rebase_nil_du T L hk] at hreb
                cases hreb
                exact Or.inr ⟨facts_own (hi.frag L (hms ▸ List.mem_cons_self ..)) op T hp hr hk,
                  L, T, List.mem_cons_self .., hp, hk, rfl, rfl⟩
              · subst hop
                simp only [planOf, Option.some.injEq] at hp
                subst hp
                exact absurd rfl hk

theorem hinv_commitStale (h : Hist) (v : Nat) (op : Op) (hi : HInv h)
    (hc : ∀ L ms, h.ms = L :: ms → v = L.version ∨ ∃ f rows, op = .append f rows) :
    HInv (commitStale h v op).1 := by
  rcases commitStale_spec h v op hi hc with ⟨he, _⟩ | ⟨L, ms, T', hms, heq, hcase⟩
  · rw [he]; exact hi
  · rw [heq]
    rcases hcase with ⟨f, rows, _, hf, rfl⟩ | ⟨hfacts, _⟩
    · exact hinv_append hms hi f hf rows _
    · exact hinv_commit hms hi hfacts _

/-- the calls covered so far: every call except a delete / update / merge_insert through a handle that is not on the
    latest version -/
def calm (h : Hist) (c : Call) : Bool :=
  match c.rv, c.op, h.ms with
  | some _, .base (.append _ _), _ => true
  | some v, .base _, L :: _ => v == L.version
  | _, _, _ => true

theorem hinv_step (h : Hist) (c : Call) (hi : HInv h) (hc : calm h c = true) : HInv (stepCall h c).1 := by
  unfold stepCall
  cases hrv : c.rv with
  | none =>
    cases hop : c.op with
    | base op =>
      simp only
      split
      · apply hinv_commitStale h _ op hi
        intro L ms hms
        left
        rw [hms]
      · exact hinv_seq h op hi
    | restore v =>
      simp only
      cases hms : h.ms with
      | nil => exact hi
      | cons L ms =>
        simp only
        cases hfind : (L :: ms).find? (fun m => m.version == v) with
        | none => exact hi
        | some old =>
          simp only
          rw [← hms]
          exact hinv_restore hms hi (hms ▸ List.mem_of_find?_eq_some hfind) _
  | some v =>
    cases hop : c.op with
    | base op =>
      simp only
      apply hinv_commitStale h v op hi
      intro L ms hms
      unfold calm at hc
      rw [hrv, hop, hms] at hc
      cases op with
      | append f rows => exact Or.inr ⟨f, rows, rfl⟩
      | _ => left; simpa using hc
    | restore v2 => exact hi

end LanceModel.C18
