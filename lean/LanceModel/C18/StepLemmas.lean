import LanceModel.C18.HistLemmas
/-
C18 lemmas, layer 6: one call preserves the history invariant.  `CommitFacts` is what the invariant needs to know about a
Delete / Update commit (the arm is `moveFrags` at the affected addresses on the LATEST fragments, the captured ids are the
ids of the visible rows there); it is established here for a handle on the latest version (nothing to rebase over).
-/
namespace LanceModel.C18
open LanceModel.Table LanceModel.C17Base List

theorem versions_le {ms : List Manifest} (hv : Versions ms) : ∀ m ∈ ms, m.version ≤ ms.length := by
  induction ms with
  | nil => intro m hm; cases hm
  | cons a t ih =>
    intro m hm
    rcases List.mem_cons.mp hm with rfl | hm
    · rw [hv.1]; simp
    · have := ih hv.2 m hm
      simp only [List.length_cons]; omega

/-- nothing was committed after the latest version -/
theorem othersSince_latest {h : Hist} {L : Manifest} {ms : List Manifest} (hms : h.ms = L :: ms) (hi : HInv h) :
    othersSince h L.version = [] := by
  unfold othersSince
  have hle := versions_le hi.ver
  have hL := hi.ver
  rw [hms] at hle hL
  have : ((h.ms.zip h.feet).filter fun x => decide (L.version < x.1.version)) = [] := by
    apply List.filter_eq_nil_iff.mpr
    intro x hx
    have hm : x.1 ∈ h.ms := (List.of_mem_zip hx).1
    rw [hms] at hm
    have := hle x.1 hm
    have := hL.1
    simp only [List.length_cons] at *
    simp
    omega
  rw [this]
  rfl

theorem find_latest {h : Hist} {L : Manifest} {ms : List Manifest} (hms : h.ms = L :: ms) :
    h.ms.find? (fun m => m.version == L.version) = some L := by
  rw [hms, List.find?_cons]
  simp

theorem rebase_nil_du (T : Txn) (L : Manifest) (hk : T.kind ≠ .append) : rebase T [] L = .ok T := by
  have hf : finishDU T (rebNew T) L = .ok T := by
    unfold finishDU rebNew
    split <;> simp
  unfold rebase
  cases hkk : T.kind <;> first | exact absurd hkk hk | (simp only [checkAllDU]; exact hf)

theorem rebase_append {T T' : Txn} {others : List Foot} {L : Manifest} (hk : T.kind = .append)
    (h : rebase T others L = .ok T') : T' = T := by
  unfold rebase at h
  rw [hk] at h
  simp only at h
  split at h
  · cases h
  · cases h; rfl

/-- what the invariant needs from a Delete / Update commit on the latest manifest `L` -/
structure CommitFacts (L : Manifest) (T' : Txn) : Prop where
  kind : T'.kind ≠ .append
  rows : T'.fileRows ≠ 0
  eff : (T'.kind = .delete ∧ T'.updated = [] ∧ T'.moved = [] ∧ T'.fresh = []) ∨
    ∃ A, (∀ f ∈ L.frags, applyOne T' f = markFrag A f) ∧
      ((T'.kind = .delete ∧ T'.moved = [] ∧ T'.fresh = []) ∨
        (T'.kind = .update ∧
          (T'.moved.map fun x => (keyOf x.2, x.1)).Perm ((rowsAt A L.frags).map fun x => kr x.2)))

theorem CommitFacts.kinds {L : Manifest} {T' : Txn} (hf : CommitFacts L T') : T'.kind = .update ∨ T'.kind = .delete := by
  rcases hf.eff with ⟨hd, _⟩ | ⟨A, _, ⟨hd, _⟩ | ⟨hu, _⟩⟩
  · exact Or.inr hd
  · exact Or.inr hd
  · exact Or.inl hu

theorem hinv_commit {h : Hist} {L : Manifest} {ms : List Manifest} (hms : h.ms = L :: ms) (hi : HInv h) {T' : Txn}
    (hf : CommitFacts L T') : HInv { ms := buildOn L T' :: h.ms, feet := T'.foot :: h.feet } := by
  have hkinds := hf.kinds
  rcases hf.eff with ⟨_, hu, hm, hfr⟩ | ⟨A, harm, hm⟩
  · exact hinv_drop hms hi T' hf.kind hkinds hf.rows hu hm hfr
  · refine hinv_du hms hi T' A hf.kind hkinds hf.rows harm ?_
    rcases hm with ⟨_, h0, _⟩ | ⟨_, hp⟩
    · exact Or.inl h0
    · right
      have := hp.map (·.2)
      simpa [kr, List.map_map, Function.comp_def] using this

theorem defaultMaxRows_ne' : defaultMaxRows ≠ 0 := by decide

/-- the (key, id) pairs of the rows a merge_insert moves: the pairs of the target rows it matched -/
theorem upsert_moved_pairs (frags : List Frag) (src : List Row) :
    ((src.filterMap fun s => (matchOf frags s).map fun x => (x.2.rid, s)).map fun x => (keyOf x.2, x.1)) =
      (src.filterMap (matchOf frags)).map fun x => kr x.2 := by
  induction src with
  | nil => rfl
  | cons s ss ih =>
    rw [List.filterMap_cons, List.filterMap_cons]
    cases hm : matchOf frags s with
    | none => simpa using ih
    | some x =>
      simp only [Option.map_some, List.map_cons, ih]
      congr 1
      simp only [kr]
      rw [key_of_joins (matchOf_mem hm).2]

/-- what a planned Delete / Update transaction looks like, in terms of the version `mv` its writer has read -/
structure PlanFacts (mv : Manifest) (T : Txn) : Prop where
  rows : T.fileRows ≠ 0
  eff : (T.kind = .delete ∧ T.updated = [] ∧ T.moved = [] ∧ T.fresh = [] ∧ T.affected = none) ∨
    ∃ A, T.affected = some A ∧ T.removed = removedOf A mv.frags ∧ T.updated = updatedOf A mv.frags ∧
      (∀ a ∈ A, ∃ x ∈ liveTagged mv.frags, x.1 = a) ∧
      ((T.kind = .delete ∧ T.moved = [] ∧ T.fresh = []) ∨
        (T.kind = .update ∧
          (T.moved.map fun x => (keyOf x.2, x.1)).Perm ((rowsAt A mv.frags).map fun x => kr x.2)))

theorem plan_facts {mv : Manifest} (hok : FragOk mv) (op : Op) (T : Txn) (hp : planOf op mv = some T)
    (hrej : rejectOf op mv = none) (hk : T.kind ≠ .append) : PlanFacts mv T := by
  cases op with
  | create f k rows => simp [planOf] at hp
  | overwrite f rows => simp [planOf] at hp
  | compact t mat => simp [planOf] at hp
  | append f rows =>
    simp only [planOf, Option.some.injEq] at hp
    subst hp
    exact absurd rfl hk
  | delete p =>
    simp only [planOf, Option.some.injEq] at hp
    subst hp
    unfold planDelete
    by_cases hall : p = .all
    · rw [if_pos hall]
      exact ⟨defaultMaxRows_ne', Or.inl ⟨rfl, rfl, rfl, rfl, rfl⟩⟩
    · rw [if_neg hall]
      refine ⟨defaultMaxRows_ne', Or.inr ⟨(selected (predHit p) mv.frags).map (·.1), rfl, rfl, rfl, ?_, Or.inl ⟨rfl, rfl, rfl⟩⟩⟩
      intro a ha
      obtain ⟨x, hx, rfl⟩ := List.mem_map.mp ha
      exact ⟨x, selected_sub _ _ x hx, rfl⟩
  | update p y =>
    simp only [planOf, Option.some.injEq] at hp
    subst hp
    refine ⟨defaultMaxRows_ne', Or.inr ⟨(selected (predHit p) mv.frags).map (·.1), rfl, rfl, rfl, ?_, Or.inr ⟨rfl, ?_⟩⟩⟩
    · intro a ha
      obtain ⟨x, hx, rfl⟩ := List.mem_map.mp ha
      exact ⟨x, selected_sub _ _ x hx, rfl⟩
    · rw [rowsAt_selected _ _ hok.1]
      simp only [planUpdate, List.map_map]
      apply List.Perm.of_eq
      apply List.map_congr_left
      intro x _
      simp only [Function.comp, kr, keyOf, cellAt]
      congr 1
      cases hc : x.2.cells with
      | nil => rfl
      | cons c cs => cases cs <;> rfl
  | upsert rows =>
    simp only [planOf] at hp
    split at hp
    · simp only [Option.some.injEq] at hp
      subst hp
      have hkeys : distinctKeys rows = true := by
        simp only [rejectOf] at hrej
        split at hrej
        · cases hrej
        · split at hrej
          · cases hrej
          · rename_i hko
            have hk2 : keysOk rows = true := by
              cases hkk : keysOk rows with
              | true => rfl
              | false => simp [hkk] at hko
            simp only [keysOk, Bool.and_eq_true] at hk2
            exact hk2.2
      refine ⟨defaultMaxRows_ne', Or.inr ⟨(rows.filterMap (matchOf mv.frags)).map (·.1), rfl, rfl, rfl, ?_, Or.inr ⟨rfl, ?_⟩⟩⟩
      · intro a ha
        obtain ⟨x, hx, rfl⟩ := List.mem_map.mp ha
        obtain ⟨s, _, hs⟩ := List.mem_filterMap.mp hx
        exact ⟨x, (matchOf_mem hs).1, rfl⟩
      · have hperm := rowsAt_matches mv.frags rows hok.1 hkeys
        refine List.Perm.trans ?_ (hperm.map fun x => kr x.2)
        apply List.Perm.of_eq
        simp only [planUpsert]
        exact upsert_moved_pairs mv.frags rows
    · cases hp

theorem PlanFacts.kinds {mv : Manifest} {T : Txn} (hf : PlanFacts mv T) : T.kind = .update ∨ T.kind = .delete := by
  rcases hf.eff with ⟨hd, _⟩ | ⟨A, _, _, _, _, ⟨hd, _⟩ | ⟨hu, _⟩⟩
  · exact Or.inr hd
  · exact Or.inr hd
  · exact Or.inl hu

/-- the facts hold for the transaction a writer plans on the latest version itself -/
theorem facts_own {L : Manifest} (hok : FragOk L) {T : Txn} (hpf : PlanFacts L T) (hk : T.kind ≠ .append) :
    CommitFacts L T := by
  refine ⟨hk, hpf.rows, ?_⟩
  rcases hpf.eff with ⟨h1, h2, h3, h4, _⟩ | ⟨A, _, hr, hu, _, hkm⟩
  · exact Or.inl ⟨h1, h2, h3, h4⟩
  · exact Or.inr ⟨A, own_plan A L.frags hok.1 T hr hu, hkm⟩

theorem planOf_append {op : Op} {mv : Manifest} {T : Txn} (hp : planOf op mv = some T) (hk : T.kind = .append) :
    ∃ f rows, op = .append f rows ∧ T = planAppend f rows := by
  cases op with
  | append f rows =>
    simp only [planOf, Option.some.injEq] at hp
    exact ⟨f, rows, rfl, hp.symm⟩
  | create f k rows => simp [planOf] at hp
  | overwrite f rows => simp [planOf] at hp
  | compact t mat => simp [planOf] at hp
  | delete p =>
    simp only [planOf, Option.some.injEq] at hp
    subst hp
    unfold planDelete at hk
    split at hk <;> cases hk
  | update p y =>
    simp only [planOf, Option.some.injEq] at hp
    subst hp
    cases hk
  | upsert rows =>
    simp only [planOf] at hp
    split at hp
    · simp only [Option.some.injEq] at hp
      subst hp
      cases hk
    · cases hp

end LanceModel.C18
