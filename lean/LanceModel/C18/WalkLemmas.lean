import LanceModel.C18.StepLemmas
/-
C18 lemmas, layer 7: the rebase of a stale Delete / Update transaction.  From the version its writer has read to the latest
version every fragment it modifies survives with the same rows (the conflict check refuses everything else); the
deletion-vector merge of `finish_delete_update` then makes the rebased lists describe `markFrag` on the LATEST fragments, and
the rows at the affected addresses are the same visible rows in both versions.
-/
namespace LanceModel.C18
open LanceModel.Table LanceModel.C17Base List

theorem footOK_kind {T : Txn} {aff : Bool} {init : List Nat} {o : Foot} (h : footOK T aff init o = true) :
    o.kind ≠ .overwrite ∧ o.kind ≠ .restore := by
  unfold footOK at h
  constructor <;> intro hk <;> rw [hk] at h <;> cases h

theorem versions_mem_lt {b : Manifest} {ms : List Manifest} (hv : Versions (b :: ms)) : ∀ m ∈ ms, m.version < b.version := by
  intro m hm
  have := versions_le hv.2 m hm
  have := hv.1
  omega

/-- the walk from the version read to the latest version -/
theorem walk {T : Txn} {aff : Bool} {init : List Nat} (haff : aff = true → init = T.modified) (v : Nat) :
    ∀ (ms : List Manifest) (feet : List Foot), Lin ms feet → Versions ms → feet.length = ms.length →
    ∀ L rest, ms = L :: rest → ∀ mv ∈ ms, mv.version = v →
    (∀ o ∈ sinceN v ms feet, footOK T aff init o = true) →
    ∀ f ∈ mv.frags, f.id ∈ T.modified →
      ∃ g ∈ L.frags, Grown f g ∧ (f.id ∉ (sinceN v ms feet).flatMap (footNeeds T init) → g = f) := by
  intro ms
  induction ms with
  | nil => intro feet _ _ _ L rest h; cases h
  | cons b ms' ih =>
    intro feet hlin hver hlen L rest hL mv hmv hmvv hok f hf hfm
    cases hL
    cases feet with
    | nil => simp at hlen
    | cons ft fts =>
      by_cases hlt : v < b.version
      · -- the read version is older: walk the tail, then one step
        have hmv' : mv ∈ ms' := by
          rcases List.mem_cons.mp hmv with rfl | h
          · omega
          · exact h
        cases ms' with
        | nil => cases hmv'
        | cons a rest' =>
          have hs : sinceN v (b :: a :: rest') (ft :: fts) = ft :: sinceN v (a :: rest') fts := by
            simp [sinceN, hlt]
          rw [hs] at hok ⊢
          obtain ⟨hstepk, hlin'⟩ := hlin
          obtain ⟨g1, hg1, hgr1, heq1⟩ := ih fts hlin' hver.2 (by simpa using hlen) a rest' rfl mv hmv' hmvv
            (fun o ho => hok o (List.mem_cons_of_mem _ ho)) f hf hfm
          have hokft := hok ft (List.mem_cons_self ..)
          have hkinds := footOK_kind hokft
          have hstep := hstepk hkinds.1 hkinds.2
          have hid : g1.id = f.id := hgr1.1
          -- the id is not removed by this transaction
          have hnr : g1.id ∉ ft.rem := by
            intro hr
            rw [hid] at hr
            have hne : ft.rem ≠ [] := by intro h0; rw [h0] at hr; cases hr
            have hany : (ft.rem.any T.modified.contains) = true :=
              List.any_eq_true.mpr ⟨f.id, hr, by simpa using hfm⟩
            unfold footOK at hokft
            rcases hstep.remKind hne with hk | hk | hk <;> rw [hk] at hokft <;> simp only at hokft
            · have hov : overlaps T ft = true := by
                unfold overlaps
                rw [List.any_append, hany, Bool.or_true]
              rw [hov] at hokft
              simp only [Bool.not_true, Bool.false_or, Bool.and_eq_true, Bool.not_eq_eq_eq_not, Bool.not_true] at hokft
              have := haff hokft.1.1
              rw [this, hany] at hokft
              exact absurd hokft.2 (by simp)
            · have hov : overlaps T ft = true := by
                unfold overlaps
                rw [List.any_append, hany, Bool.or_true]
              rw [hov] at hokft
              simp only [Bool.not_true, Bool.false_or, Bool.and_eq_true, Bool.not_eq_eq_eq_not, Bool.not_true] at hokft
              have := haff hokft.1.1
              rw [this, hany] at hokft
              exact absurd hokft.2 (by simp)
            · rw [hany] at hokft
              cases hokft
          by_cases hu : g1.id ∈ ft.upd
          · -- listed as updated: same rows, more deletions; and it is flagged
            have hne : ft.upd ≠ [] := by intro h0; rw [h0] at hu; cases hu
            have hu' : f.id ∈ ft.upd := hid ▸ hu
            have hov : overlaps T ft = true := by
              unfold overlaps
              rw [List.any_append]
              have : (ft.upd.any T.modified.contains) = true :=
                List.any_eq_true.mpr ⟨f.id, hu', by simpa using hfm⟩
              rw [this, Bool.true_or]
            have hcond : aff = true ∧ (ft.cols && ft.upd.any init.contains) = false := by
              unfold footOK at hokft
              rcases hstep.updKind hne with hk | hk <;> rw [hk] at hokft <;> simp only at hokft <;> rw [hov] at hokft <;>
                simp only [Bool.not_true, Bool.false_or, Bool.and_eq_true, Bool.not_eq_eq_eq_not, Bool.not_true] at hokft <;>
                exact ⟨hokft.1.1, hokft.1.2⟩
            have hinit := haff hcond.1
            have hanyi : (ft.upd.any init.contains) = true := by
              rw [hinit]
              exact List.any_eq_true.mpr ⟨f.id, hu', by simpa using hfm⟩
            have hcols : ft.cols = false := by
              cases hc : ft.cols with
              | false => rfl
              | true => rw [hc, hanyi] at hcond; exact absurd hcond.2 (by simp)
            obtain ⟨g, hg, hgr⟩ := hstep.grow hcols g1 hg1 hu hnr
            refine ⟨g, hg, hgr1.trans hgr, ?_⟩
            intro hnn
            exfalso
            apply hnn
            rw [List.flatMap_cons]
            apply List.mem_append_left
            unfold footNeeds
            rcases hstep.updKind hne with hk | hk <;> rw [hk] <;> simp only <;> rw [if_pos hov] <;>
              exact List.mem_filter.mpr ⟨hu', by rw [hinit]; simpa using hfm⟩
          · -- untouched
            refine ⟨g1, hstep.keep g1 hg1 hu hnr, hgr1, ?_⟩
            intro hnn
            apply heq1
            intro hm
            apply hnn
            rw [List.flatMap_cons]
            exact List.mem_append_right _ hm
      · -- the read version is the latest one
        have hmvL : mv = b := by
          rcases List.mem_cons.mp hmv with h | h
          · exact h
          · have := versions_mem_lt hver mv h
            omega
        subst hmvL
        exact ⟨f, hf, Grown.refl f, fun _ => rfl⟩

/-- `othersSince` is the footprints of the versions above `v`, oldest first -/
theorem othersSince_eq (ms : List Manifest) (feet : List Foot) (hv : Versions ms) (hl : feet.length = ms.length) (v : Nat) :
    othersSince { ms := ms, feet := feet } v = (sinceN v ms feet).reverse := by
  unfold othersSince
  simp only
  congr 1
  induction ms generalizing feet with
  | nil => simp [sinceN]
  | cons m ms' ih =>
    cases feet with
    | nil => simp at hl
    | cons ft fts =>
      simp only [List.zip_cons_cons, List.filter_cons, sinceN]
      by_cases hlt : v < m.version
      · simp only [hlt, decide_true, if_true, List.map_cons]
        rw [ih fts hv.2 (by simpa using hl)]
      · simp only [hlt, decide_false, Bool.false_eq_true, if_false]
        have : ((ms'.zip fts).filter fun x => decide (v < x.1.version)) = [] := by
          apply List.filter_eq_nil_iff.mpr
          intro x hx
          have hm : x.1 ∈ ms' := (List.of_mem_zip hx).1
          have := versions_mem_lt hv x.1 hm
          simp
          omega
        rw [this]
        rfl

end LanceModel.C18
