import LanceModel.C18.PlanLemmas
/-
C18 lemmas, layer 4b: fragment lineage.  What a committed transaction with a given footprint did to the fragments
(`StepOK`), the chain of these facts along the history (`Lin`), the conflict check as a per-footprint condition (`footOK`,
`footNeeds`), and the walk from the version a stale handle has read to the latest version: a fragment the stale
transaction modifies is still there, with the same rows and possibly more deletions — and untouched if no concurrent
transaction listed it as updated.
-/
namespace LanceModel.C18
open LanceModel.Table LanceModel.C17Base List

/-- fragment `g` is fragment `f` with possibly more deletions -/
def Grown (f g : Frag) : Prop := g.id = f.id ∧ ∃ B, g.rows = markAt B f.id 0 f.rows

theorem Grown.refl (f : Frag) : Grown f f := ⟨rfl, [], (markAt_nil _ _ _).symm⟩

theorem Grown.trans {f g k : Frag} (h1 : Grown f g) (h2 : Grown g k) : Grown f k := by
  obtain ⟨e1, B1, r1⟩ := h1
  obtain ⟨e2, B2, r2⟩ := h2
  refine ⟨e2.trans e1, B1 ++ B2, ?_⟩
  rw [r2, r1, e1, markAt_append]

/-- what the transaction behind footprint `ft` did to the fragments of `a` when it published `b` -/
structure StepOK (a : Manifest) (ft : Foot) (b : Manifest) : Prop where
  keep : ∀ f ∈ a.frags, f.id ∉ ft.upd → f.id ∉ ft.rem → f ∈ b.frags
  grow : ft.cols = false → ∀ f ∈ a.frags, f.id ∈ ft.upd → f.id ∉ ft.rem → ∃ g ∈ b.frags, Grown f g
  updKind : ft.upd ≠ [] → ft.kind = .update ∨ ft.kind = .delete
  remKind : ft.rem ≠ [] → ft.kind = .update ∨ ft.kind = .delete ∨ ft.kind = .rewrite

/-- the chain of `StepOK` along the history (newest first); Overwrite and Restore start a new lineage -/
def Lin : List Manifest → List Foot → Prop
  | b :: a :: ms, ft :: fts => (ft.kind ≠ .overwrite → ft.kind ≠ .restore → StepOK a ft b) ∧ Lin (a :: ms) fts
  | _, _ => True

/-! ### the conflict check, footprint by footprint -/

def overlaps (T : Txn) (o : Foot) : Bool := (o.upd ++ o.rem).any T.modified.contains

/-- `check_delete_txn` / `check_update_txn` let this committed transaction pass -/
def footOK (T : Txn) (aff : Bool) (init : List Nat) (o : Foot) : Bool :=
  match o.kind with
  | .append | .reserve => true
  | .rewrite => !(o.rem.any T.modified.contains)
  | .update | .delete =>
    !overlaps T o || (aff && !(o.cols && o.upd.any init.contains) && !(o.rem.any init.contains))
  | .overwrite | .restore => false

/-- the fragments it flags `needs_rewrite` -/
def footNeeds (T : Txn) (init : List Nat) (o : Foot) : List Nat :=
  match o.kind with
  | .update | .delete => if overlaps T o then o.upd.filter init.contains else []
  | _ => []

theorem du_arm (ov an c r : Bool) (R R2 R' : Reb)
    (h : (if (!ov) = true then Except.ok R else if an = true then Except.error Conflict.retryable
          else if c = true then Except.error Conflict.retryable
          else if r = true then Except.error Conflict.retryable else Except.ok R2 : Except Conflict Reb) = .ok R') :
    (!ov || (!an && !c && !r)) = true ∧ R' = if ov = true then R2 else R := by
  cases ov <;> cases an <;> cases c <;> cases r <;> simp_all

theorem isSome_eq_not_isNone {α : Type} (o : Option α) : o.isSome = !o.isNone := by cases o <;> rfl

theorem checkDU_ok {T : Txn} {R R' : Reb} {o : Foot} (h : checkDU T R o = .ok R') :
    footOK T R.affected.isSome R.initial o = true ∧ R' = { R with needs := R.needs ++ footNeeds T R.initial o } := by
  unfold checkDU at h
  unfold footOK footNeeds overlaps
  cases hk : o.kind <;> simp only [hk] at h ⊢
  · cases h
  · cases h; simp
  · obtain ⟨h1, h2⟩ := du_arm _ _ _ _ _ _ _ h
    rw [isSome_eq_not_isNone]
    refine ⟨h1, ?_⟩
    rw [h2]
    split <;> simp
  · obtain ⟨h1, h2⟩ := du_arm _ _ _ _ _ _ _ h
    rw [isSome_eq_not_isNone]
    refine ⟨h1, ?_⟩
    rw [h2]
    split <;> simp
  · split at h
    · cases h
    · rename_i hno
      cases h
      simp only [Bool.not_eq_true] at hno
      simp [hno]
  · cases h; simp
  · cases h

theorem checkAllDU_ok {T : Txn} {fs : List Foot} {R R' : Reb} (h : checkAllDU T R fs = .ok R') :
    (∀ o ∈ fs, footOK T R.affected.isSome R.initial o = true) ∧ R'.affected = R.affected ∧ R'.initial = R.initial ∧
      R'.needs = R.needs ++ fs.flatMap (footNeeds T R.initial) := by
  induction fs generalizing R with
  | nil =>
    simp only [checkAllDU] at h
    cases h
    simp
  | cons o os ih =>
    simp only [checkAllDU] at h
    cases hc : checkDU T R o with
    | error c => rw [hc] at h; cases h
    | ok R1 =>
      rw [hc] at h
      simp only at h
      obtain ⟨hok, hR1⟩ := checkDU_ok hc
      obtain ⟨h1, h2, h3, h4⟩ := ih h
      subst hR1
      simp only at h1 h2 h3 h4
      refine ⟨?_, h2, h3, ?_⟩
      · intro x hx
        rcases List.mem_cons.mp hx with rfl | hx
        · exact hok
        · exact h1 x hx
      · rw [h4]
        simp [List.append_assoc]

/-! ### the footprints above a version -/

/-- footprints of the versions above `v`, newest first -/
def sinceN (v : Nat) : List Manifest → List Foot → List Foot
  | m :: ms, f :: fs => if v < m.version then f :: sinceN v ms fs else []
  | _, _ => []

end LanceModel.C18
