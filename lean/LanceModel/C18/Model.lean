import LanceModel.C17Base.Model
/-
C18 model: stable row ids through histories WITH concurrent writers and restores.

The fragment-level table model (physical rows with their row-id sequence entry and deletion bit, the writers of
create / append / overwrite / delete / update / merge_insert upsert / compaction, the planner) is the one of C17
(a frozen copy of it: `LanceModel.C17Base.Model`, imported read-only; its sequential `step` is re-used as it is).  This file adds what C18 is about:

  rust/lance/src/dataset/transaction.rs   Transaction::assign_row_ids — all four arms (no meta: fresh consecutive range from
                                          `next_row_id`; complete meta: untouched; partial meta (merge_insert / update): the
                                          missing ids appended from `next_row_id`; more ids than physical rows: Error::Internal)
                                          (`assignOne`, `assignRowIds`)
  rust/lance/src/dataset/write/{delete,update,merge_insert}.rs
                                          the TRANSACTION a writer builds from the version its handle has read: captured row
                                          ids → row addresses through the row id index of the read version, `apply_deletions`
                                          (`extend_deletions`: Modified / Removed / Unchanged per fragment), the new fragments
                                          that carry the captured ids, `affected_rows` (`planDelete`, `planUpdate`, `planUpsert`)
  rust/lance/src/io/commit/conflict_resolver.rs
                                          TransactionRebase::{try_new, check_txn (check_append_txn, check_delete_txn,
                                          check_update_txn), finish (finish_delete_update: deletion files of the fragments a
                                          concurrent writer touched are re-read from the LATEST version, a row deleted by both
                                          sides is a retryable conflict, otherwise the vectors are merged)}
                                          (`rebNew`, `appendConflicts`, `checkDU`, `finishDU`, `rebase`)
  rust/lance/src/io/commit.rs             commit_transaction: the transactions committed since the read version are checked
                                          oldest first, then `build_manifest` runs against the LATEST manifest — so
                                          `next_row_id` and `max_fragment_id` are re-read on every rebase (`commitStale`)
  rust/lance/src/dataset/transaction.rs   build_manifest Append / Delete / Update arms on the latest manifest (`buildOn`),
                                          restore_old_manifest as repaired by 0b56cc4 (`restored`)

A history is the list of published manifests (newest first) plus, for each of them, the footprint of the transaction
that published it (what the conflict resolver reads from a committed transaction file).
-/
namespace LanceModel.C18
open LanceModel.Table LanceModel.C17Base

/-! ## `Transaction::assign_row_ids` -/

/-- a fragment as `assign_row_ids` sees it: `physical_rows` and the ids of its `row_id_meta`, if it has one -/
structure RawFrag where
  phys : Nat
  ids : Option (List Nat)
  deriving DecidableEq, Repr

/-- the ids a fragment already carries -/
def RawFrag.have (f : RawFrag) : List Nat :=
  match f.ids with
  | none => []
  | some l => l

/-- one iteration of the loop of `assign_row_ids`: the new `next_row_id` and the fragment's row id sequence;
    `none` = `Error::Internal` ("Fragment has more row IDs than physical rows") -/
def assignOne (next : Nat) (f : RawFrag) : Option (Nat × List Nat) :=
  match f.ids with
  | none => some (next + f.phys, List.range' next f.phys)
  | some ids =>
    if ids.length = f.phys then some (next, ids)
    else if ids.length < f.phys then
      some (next + (f.phys - ids.length), ids ++ List.range' next (f.phys - ids.length))
    else none

/-- `assign_row_ids(next_row_id, fragments)` -/
def assignRowIds (next : Nat) : List RawFrag → Option (Nat × List (List Nat))
  | [] => some (next, [])
  | f :: fs =>
    match assignOne next f with
    | none => none
    | some (n1, ids) =>
      match assignRowIds n1 fs with
      | none => none
      | some (n2, rest) => some (n2, ids :: rest)

/-! ## histories with footprints -/

/-- the operation of a committed transaction, as far as the conflict resolver distinguishes them here
    (`create` is `Operation::Overwrite`) -/
inductive Kind where
  | overwrite
  | append
  | delete
  | update
  | rewrite
  | reserve
  | restore
  deriving DecidableEq, Repr

/-- what `check_txn` reads from a committed transaction: ids of its `updated_fragments`, its
    `removed_fragment_ids` / `deleted_fragment_ids` (for `Rewrite`: the ids of the groups' old fragments), and whether the
    updated fragments carry new data files (`RewriteColumns`: "data files, not just deletion files, are modified") -/
structure Foot where
  kind : Kind
  upd : List Nat
  rem : List Nat
  cols : Bool
  deriving DecidableEq, Repr

/-- published manifests, newest first, and the footprint of the transaction behind each -/
structure Hist where
  ms : List Manifest
  feet : List Foot
  deriving DecidableEq, Repr

def Hist.empty : Hist := { ms := [], feet := [] }

/-! ## row addresses -/

/-- the physical rows of a fragment with their addresses `(fragment id, offset)` -/
def tagRows (fid : Nat) : Nat → List PRow → List ((Nat × Nat) × PRow)
  | _, [] => []
  | j, r :: rs => ((fid, j), r) :: tagRows fid (j + 1) rs

/-- every physical row of a version with its address, in scan order -/
def tagged (frags : List Frag) : List ((Nat × Nat) × PRow) := frags.flatMap fun f => tagRows f.id 0 f.rows

/-- the rows a filtered scan with `_rowid` / `_rowaddr` captures: visible and selected -/
def selected (hit : PRow → Bool) (frags : List Frag) : List ((Nat × Nat) × PRow) :=
  (tagged frags).filter fun x => !x.2.deleted && hit x.2

/-- `extend_deletions(bitmap)`: the deletion vector grows by the offsets of `A` that lie in this fragment -/
def markAt (A : List (Nat × Nat)) (fid : Nat) : Nat → List PRow → List PRow
  | _, [] => []
  | j, r :: rs => (if A.contains (fid, j) then { r with deleted := true } else r) :: markAt A fid (j + 1) rs

def extendDel (A : List (Nat × Nat)) (f : Frag) : Frag := { f with rows := markAt A f.id 0 f.rows }

def hasAddr (A : List (Nat × Nat)) (fid : Nat) : Bool := A.any fun a => a.1 == fid

def allDeleted (f : Frag) : Bool := f.rows.all (·.deleted)

/-- `apply_deletions`: `FragmentChange::Modified` -/
def updatedOf (A : List (Nat × Nat)) (frags : List Frag) : List Frag :=
  ((frags.filter fun f => hasAddr A f.id).map (extendDel A)).filter fun f => !allDeleted f

/-- `apply_deletions`: `FragmentChange::Removed` -/
def removedOf (A : List (Nat × Nat)) (frags : List Frag) : List Nat :=
  (((frags.filter fun f => hasAddr A f.id).map (extendDel A)).filter allDeleted).map (·.id)

/-! ## the transaction a writer builds from the version it has read -/

structure Txn where
  kind : Kind
  /-- `removed_fragment_ids` / `deleted_fragment_ids` -/
  removed : List Nat
  /-- `updated_fragments`: whole fragment metadata as of the read version, deletion vector extended -/
  updated : List Frag
  /-- rows of the new fragments that carry a captured row id: (id, cells) -/
  moved : List (Nat × Row)
  /-- rows of the new fragments still without an id (behind the moved ones) -/
  fresh : List Row
  /-- `max_rows_per_file` of the writer of the new fragments -/
  fileRows : Nat
  /-- `affected_rows`: addresses of the rows this transaction deletes -/
  affected : Option (List (Nat × Nat))
  deriving DecidableEq, Repr

def planAppend (f : Nat) (rows : List Row) : Txn :=
  { kind := .append, removed := [], updated := [], moved := [], fresh := rows, fileRows := f, affected := none }

/-- delete.rs `DeleteJob::execute_impl`: the literal `true` removes every fragment and emits no affected rows -/
def planDelete (p : Pred) (mv : Manifest) : Txn :=
  if p = .all then
    { kind := .delete, removed := mv.frags.map (·.id), updated := [], moved := [], fresh := [], fileRows := defaultMaxRows
      affected := none }
  else
    { kind := .delete
      removed := removedOf ((selected (predHit p) mv.frags).map (·.1)) mv.frags
      updated := updatedOf ((selected (predHit p) mv.frags).map (·.1)) mv.frags
      moved := [], fresh := [], fileRows := defaultMaxRows
      affected := some ((selected (predHit p) mv.frags).map (·.1)) }

/-- update.rs `UpdateJob::execute_impl`: the matching rows in scan order, `c1 := y`, captured ids kept -/
def planUpdate (p : Pred) (y : Int) (mv : Manifest) : Txn :=
  { kind := .update
    removed := removedOf ((selected (predHit p) mv.frags).map (·.1)) mv.frags
    updated := updatedOf ((selected (predHit p) mv.frags).map (·.1)) mv.frags
    moved := (selected (predHit p) mv.frags).map fun x => (x.2.rid, x.2.cells.set 1 (some y))
    fresh := [], fileRows := defaultMaxRows
    affected := some ((selected (predHit p) mv.frags).map (·.1)) }

/-- the visible target row a source row joins, with its address -/
def matchOf (frags : List Frag) (s : Row) : Option ((Nat × Nat) × PRow) :=
  (tagged frags).find? fun x => !x.2.deleted && joins s x.2

/-- merge_insert, full schema: matched rows in SOURCE order with the target's id, then the new rows -/
def planUpsert (src : List Row) (mv : Manifest) : Txn :=
  { kind := .update
    removed := removedOf ((src.filterMap (matchOf mv.frags)).map (·.1)) mv.frags
    updated := updatedOf ((src.filterMap (matchOf mv.frags)).map (·.1)) mv.frags
    moved := src.filterMap fun s => (matchOf mv.frags s).map fun x => (x.2.rid, s)
    fresh := upsertNew mv.frags src, fileRows := defaultMaxRows
    affected := some ((src.filterMap (matchOf mv.frags)).map (·.1)) }

def Txn.modified (T : Txn) : List Nat := T.updated.map (·.id) ++ T.removed

def Txn.foot (T : Txn) : Foot := { kind := T.kind, upd := T.updated.map (·.id), rem := T.removed, cols := false }

/-! ## the rebase -/

inductive Conflict where
  | retryable
  | incompatible
  deriving DecidableEq, Repr

/-- `TransactionRebase` of a Delete / Update transaction -/
structure Reb where
  affected : Option (List (Nat × Nat))
  /-- keys of `initial_fragments` -/
  initial : List Nat
  /-- keys of `initial_fragments` whose flag `needs_rewrite` is set -/
  needs : List Nat
  deriving DecidableEq, Repr

/-- `TransactionRebase::try_new`: with no partially updated fragment the affected rows are dropped ("short circuit for
    full fragment update or delete") -/
def rebNew (T : Txn) : Reb :=
  if T.updated.isEmpty && T.affected.isSome then { affected := none, initial := [], needs := [] }
  else { affected := T.affected, initial := T.modified, needs := [] }

/-- `check_append_txn`: only Overwrite / Restore (and UpdateMemWalState, not modelled) are incompatible -/
def appendConflicts (o : Foot) : Bool :=
  match o.kind with
  | .overwrite | .restore => true
  | _ => false

/-- `check_delete_txn` / `check_update_txn` against one committed transaction -/
def checkDU (T : Txn) (R : Reb) (o : Foot) : Except Conflict Reb :=
  match o.kind with
  | .append | .reserve => .ok R
  | .rewrite => if o.rem.any T.modified.contains then .error .retryable else .ok R
  | .update | .delete =>
    if !((o.upd ++ o.rem).any T.modified.contains) then .ok R
    else if R.affected.isNone then .error .retryable
    else if o.cols && o.upd.any R.initial.contains then .error .retryable
    else if o.rem.any R.initial.contains then .error .retryable
    else .ok { R with needs := R.needs ++ o.upd.filter R.initial.contains }
  | .overwrite | .restore => .error .incompatible

def checkAllDU (T : Txn) : Reb → List Foot → Except Conflict Reb
  | R, [] => .ok R
  | R, o :: os =>
    match checkDU T R o with
    | .error c => .error c
    | .ok R' => checkAllDU T R' os

/-- addresses the deletion vector of a fragment covers -/
def delAddrs (f : Frag) : List (Nat × Nat) := ((tagRows f.id 0 f.rows).filter fun x => x.2.deleted).map (·.1)

/-- the deletion vector becomes exactly `D` -/
def setDel (D : List (Nat × Nat)) (fid : Nat) : Nat → List PRow → List PRow
  | _, [] => []
  | j, r :: rs => { r with deleted := D.contains (fid, j) } :: setDel D fid (j + 1) rs

/-- `finish_delete_update` -/
def finishDU (T : Txn) (R : Reb) (L : Manifest) : Except Conflict Txn :=
  if R.needs.isEmpty then .ok T
  else
    match R.affected with
    | none => .error .retryable   -- "We shouldn't hit this" (Error::Internal); unreachable: `needs` only grows with affected rows
    | some A =>
      -- the deletion files of the fragments to rewrite, read from the CURRENT dataset
      if ((L.frags.filter fun f => R.needs.contains f.id).flatMap delAddrs).any A.contains then .error .retryable
      else
        .ok { T with
          updated := T.updated.map fun u =>
            if R.needs.contains u.id then
              { u with rows := setDel (((L.frags.filter fun f => R.needs.contains f.id).flatMap delAddrs) ++ A) u.id 0 u.rows }
            else u
          removed := T.removed ++
            (R.needs.filter fun fid =>
              (T.updated.filter fun u => u.id == fid).any fun u =>
                (setDel (((L.frags.filter fun f => R.needs.contains f.id).flatMap delAddrs) ++ A) u.id 0 u.rows).all (·.deleted)) }

/-- `TransactionRebase::{try_new, check_txn*, finish}` over the transactions committed since the read version
    (oldest first) -/
def rebase (T : Txn) (others : List Foot) (L : Manifest) : Except Conflict Txn :=
  match T.kind with
  | .append =>
    if others.any appendConflicts then .error .incompatible else .ok T
  | _ =>
    match checkAllDU T (rebNew T) others with
    | .error c => .error c
    | .ok R => finishDU T R L

/-! ## `build_manifest` on the latest manifest -/

/-- Delete / Update arm: removed fragments leave, updated fragments replace the existing ones of the same id -/
def applyFrags (T : Txn) (frags : List Frag) : List Frag :=
  frags.filterMap fun f =>
    if T.removed.contains f.id then none
    else
      match T.updated.find? fun u => u.id == f.id with
      | some u => some u
      | none => some f

/-- the new fragments of the Update arm: `assign_row_ids` fills the ids behind the captured ones from the LATEST
    `next_row_id`; fragment ids from the latest `max_fragment_id + 1` -/
def newRows (L : Manifest) (T : Txn) : List PRow :=
  (T.moved.map fun x => movedRow L.frags (L.version + 1) x.1 x.2) ++
    insertedRowsOf L.frags (L.version + 1) L.nextRowId L.k T.fresh

def buildOn (L : Manifest) (T : Txn) : Manifest :=
  match T.kind with
  | .append =>
    nextManifest L (L.frags ++ writtenFrags (L.version + 1) (startId L.maxFragId) L.nextRowId T.fileRows T.fresh)
      (L.nextRowId + T.fresh.length)
  | _ =>
    nextManifest L (applyFrags T L.frags ++ assignFragIds (startId L.maxFragId) (chunks T.fileRows (newRows L T)))
      (L.nextRowId + T.fresh.length)

/-! ## restore -/

/-- `Option<u32>::max` -/
def optMax : Option Nat → Option Nat → Option Nat
  | none, b => b
  | a, none => a
  | some a, some b => some (max a b)

/-- `restore_old_manifest` (as repaired by 0b56cc4) + `manifest.version = latest + 1` -/
def restored (latest old : Manifest) : Manifest :=
  { old with
    version := latest.version + 1
    nextRowId := max old.nextRowId latest.nextRowId
    maxFragId := optMax old.maxFragId latest.maxFragId }

/-! ## one call -/

inductive Op18 where
  /-- the operations of the C17 model -/
  | base (op : Op)
  /-- `checkout_version(v)` + `Dataset::restore` -/
  | restore (v : Nat)
  deriving DecidableEq, Repr

/-- a public call through a handle that has read version `rv` (`none` = a fresh handle on the latest version) -/
structure Call where
  rv : Option Nat
  op : Op18
  deriving DecidableEq, Repr

def fragIdsOf (frags : List Frag) : List Nat := frags.map (·.id)

/-- footprints of the transaction(s) a sequential operation commits on `m`, newest first -/
def feetOf (m : Manifest) (op : Op) : List Foot :=
  match op with
  | .create _ _ _ => [{ kind := .overwrite, upd := [], rem := [], cols := false }]
  | .overwrite _ _ => [{ kind := .overwrite, upd := [], rem := [], cols := false }]
  | .append _ _ => [{ kind := .append, upd := [], rem := [], cols := false }]
  | .delete p => [(planDelete p m).foot]
  | .update p y => [(planUpdate p y m).foot]
  | .upsert rows =>
    if (rows.head?.map List.length) == some m.k then [(planUpsert rows m).foot]
    else
      -- partial schema: in-place column rewrite of every fragment with a matched row
      [{ kind := .update
         upd := fragIdsOf (m.frags.filter fun f => f.rows.any fun r => !r.deleted && upsertHit rows r)
         rem := [], cols := true }]
  | .compact t mat =>
    [{ kind := .rewrite, upd := [], rem := fragIdsOf (planCompaction t mat m.frags).flatten, cols := false },
     { kind := .reserve, upd := [], rem := [], cols := false }]

/-- a sequential operation: the C17 step on the manifests; footprints for what it published -/
def seqStep (h : Hist) (op : Op) : Hist × Res :=
  match h.ms with
  | [] =>
    ({ ms := (step [] op).1
       feet := if (step [] op).1.isEmpty then [] else [{ kind := .overwrite, upd := [], rem := [], cols := false }] },
     (step [] op).2)
  | m :: ms =>
    ({ ms := (step (m :: ms) op).1
       feet := (if (step (m :: ms) op).1.length = (m :: ms).length then [] else feetOf m op) ++ h.feet },
     (step (m :: ms) op).2)

/-- the transactions committed after version `v`, oldest first -/
def othersSince (h : Hist) (v : Nat) : List Foot :=
  (((h.ms.zip h.feet).filter fun x => decide (v < x.1.version)).map (·.2)).reverse

/-- the transaction a stale-capable operation builds from the version `mv` its handle has read;
    `none`: the operation is not offered through a stale handle here -/
def planOf (op : Op) (mv : Manifest) : Option Txn :=
  match op with
  | .append f rows => some (planAppend f rows)
  | .delete p => some (planDelete p mv)
  | .update p y => some (planUpdate p y mv)
  | .upsert rows => if (rows.head?.map List.length) == some mv.k then some (planUpsert rows mv) else none
  | _ => none

/-- interpreter-level rejections, the same as for the sequential operation (C17 `step`) -/
def rejectOf (op : Op) (mv : Manifest) : Option String :=
  match op with
  | .append f rows => if !rowsWidthOk mv.k rows then some "width" else if f = 0 then some "invalid_input" else none
  | .upsert rows =>
    if !rowsWidthOk mv.k rows then some "width"
    else if !keysOk rows then some "keys"
    else if ambiguous mv.frags rows then some "ambiguous"
    else none
  | _ => none

/-- a write through a handle that has read version `v`: plan on `mv`, rebase over what was committed since, build on the
    latest manifest -/
def commitStale (h : Hist) (v : Nat) (op : Op) : Hist × Res :=
  match h.ms with
  | [] => (h, .err "no_table")
  | L :: _ =>
    match h.ms.find? fun m => m.version == v with
    | none => (h, .err "no_version")
    | some mv =>
      match planOf op mv with
      | none => (h, .err "stale_unsupported")
      | some T =>
        match rejectOf op mv with
        | some k => (h, .err k)
        | none =>
          match rebase T (othersSince h v) L with
          | .error .retryable => (h, .err "conflict_retryable")
          | .error .incompatible => (h, .err "conflict_incompatible")
          | .ok T' => ({ ms := buildOn L T' :: h.ms, feet := T'.foot :: h.feet }, .ok)

/-- append / delete / update / full-schema merge_insert commit through the rebase path whatever the handle (a fresh handle
    reads the latest version: nothing to rebase over); the other operations are the C17 step -/
def viaCommit (h : Hist) (op : Op) : Bool :=
  match h.ms, op with
  | _ :: _, .append _ _ => true
  | _ :: _, .delete _ => true
  | _ :: _, .update _ _ => true
  | m :: _, .upsert rows => (rows.head?.map List.length) == some m.k
  | _, _ => false

def stepCall (h : Hist) (c : Call) : Hist × Res :=
  match c.rv, c.op with
  | none, .base op =>
    if viaCommit h op then commitStale h (match h.ms with | m :: _ => m.version | [] => 0) op else seqStep h op
  | none, .restore v =>
    match h.ms with
    | [] => (h, .err "no_table")
    | L :: _ =>
      match h.ms.find? fun m => m.version == v with
      | none => (h, .err "not_found")
      | some old =>
        ({ ms := restored L old :: h.ms, feet := { kind := .restore, upd := [], rem := [], cols := false } :: h.feet }, .ok)
  | some v, .base op => commitStale h v op
  | some _, .restore _ => (h, .err "stale_unsupported")

def runFrom (h : Hist) : List Call → Hist
  | [] => h
  | c :: cs => runFrom (stepCall h c).1 cs

/-- a history: any list of calls from "no table" -/
def run (cs : List Call) : Hist := runFrom Hist.empty cs

/-! ## observations -/

/-- the `(key, row id)` association of the visible rows (`c0` is the key column: no operation rewrites it) -/
def pairs (m : Manifest) : List (Cell × Nat) := (live m).map fun r => (keyOf r.cells, r.rid)

/-- the row stored at an address -/
def rowAt (m : Manifest) (addr : Nat) : Option PRow :=
  match m.frags.find? fun f => f.id == addr / 4294967296 with
  | none => none
  | some f => f.rows[addr % 4294967296]?

end LanceModel.C18
