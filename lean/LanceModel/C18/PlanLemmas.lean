import LanceModel.C18.MoveLemmas
/-
C18 lemmas, layer 4: the transaction a writer plans (`planDelete`, `planUpdate`, `planUpsert`): its fragment lists describe
`moveFrags` on the fragments it has read; the rows it moves are the visible rows at its affected addresses.
-/
namespace LanceModel.C18
open LanceModel.Table LanceModel.C17Base List

theorem find_by_id {l : List Frag} (hn : (fragIds l).Nodup) {u : Frag} (hu : u ∈ l) :
    l.find? (fun x => x.id == u.id) = some u := by
  induction l with
  | nil => cases hu
  | cons a t ih =>
    simp only [fragIds, List.map_cons, List.nodup_cons] at hn
    rw [List.find?_cons]
    rcases List.mem_cons.mp hu with rfl | hu'
    · simp
    · have : (a.id == u.id) = false := by
        apply Bool.eq_false_iff.mpr
        intro he
        have he' : a.id = u.id := by simpa using he
        exact hn.1 (he' ▸ List.mem_map.mpr ⟨u, hu', rfl⟩)
      rw [this]
      exact ih hn.2 hu'

theorem find_by_id_none {l : List Frag} {i : Nat} (h : i ∉ fragIds l) : l.find? (fun x => x.id == i) = none := by
  apply List.find?_eq_none.mpr
  intro x hx he
  exact h (List.mem_map.mpr ⟨x, hx, by simpa using he⟩)

theorem extendDel_id (A : List (Nat × Nat)) (f : Frag) : (extendDel A f).id = f.id := rfl

theorem mem_updatedOf {A : List (Nat × Nat)} {frags : List Frag} {u : Frag} :
    u ∈ updatedOf A frags ↔ ∃ f ∈ frags, hasAddr A f.id = true ∧ allDeleted (extendDel A f) = false ∧ u = extendDel A f := by
  unfold updatedOf
  simp only [List.mem_filter, List.mem_map, Bool.not_eq_eq_eq_not, Bool.not_true]
  constructor
  · rintro ⟨⟨f, ⟨hf, ha⟩, rfl⟩, hd⟩
    exact ⟨f, hf, ha, hd, rfl⟩
  · rintro ⟨f, hf, ha, hd, rfl⟩
    exact ⟨⟨f, ⟨hf, ha⟩, rfl⟩, hd⟩

theorem mem_removedOf {A : List (Nat × Nat)} {frags : List Frag} {i : Nat} :
    i ∈ removedOf A frags ↔ ∃ f ∈ frags, hasAddr A f.id = true ∧ allDeleted (extendDel A f) = true ∧ f.id = i := by
  unfold removedOf
  simp only [List.mem_map, List.mem_filter]
  constructor
  · rintro ⟨u, ⟨⟨f, ⟨hf, ha⟩, rfl⟩, hd⟩, rfl⟩
    exact ⟨f, hf, ha, hd, rfl⟩
  · rintro ⟨f, hf, ha, hd, rfl⟩
    exact ⟨extendDel A f, ⟨⟨f, ⟨hf, ha⟩, rfl⟩, hd⟩, rfl⟩

theorem frag_eq_of_id {frags : List Frag} (hn : (fragIds frags).Nodup) {f g : Frag} (hf : f ∈ frags) (hg : g ∈ frags)
    (h : f.id = g.id) : f = g :=
  inj_of_nodup_map (fun x : Frag => x.id) hn hf hg h

theorem fragIds_updatedOf_nodup {A : List (Nat × Nat)} {frags : List Frag} (hn : (fragIds frags).Nodup) :
    (fragIds (updatedOf A frags)).Nodup := by
  have : (fragIds (updatedOf A frags)).Sublist (fragIds frags) := by
    unfold updatedOf fragIds
    have h1 : (((frags.filter fun f => hasAddr A f.id).map (extendDel A)).filter fun f => !allDeleted f).Sublist
        ((frags.filter fun f => hasAddr A f.id).map (extendDel A)) := List.filter_sublist
    have h2 := h1.map (fun x : Frag => x.id)
    have h3 : ((frags.filter fun f => hasAddr A f.id).map (extendDel A)).map (fun x : Frag => x.id) =
        (frags.filter fun f => hasAddr A f.id).map (fun x : Frag => x.id) := by
      simp [List.map_map, Function.comp_def, extendDel]
    rw [h3] at h2
    exact h2.trans ((List.filter_sublist).map _)
  exact hn.sublist this

theorem own_removed (A : List (Nat × Nat)) (frags : List Frag) (hn : (fragIds frags).Nodup) {f : Frag} (hf : f ∈ frags) :
    (removedOf A frags).contains f.id = (hasAddr A f.id && allDeleted (extendDel A f)) := by
  by_cases hc : (hasAddr A f.id && allDeleted (extendDel A f)) = true
  · rw [hc]
    simp only [Bool.and_eq_true] at hc
    simpa using mem_removedOf.mpr ⟨f, hf, hc.1, hc.2, rfl⟩
  · have hc' : (hasAddr A f.id && allDeleted (extendDel A f)) = false := by simpa using hc
    rw [hc']
    apply Bool.eq_false_iff.mpr
    intro hm
    have hm' : f.id ∈ removedOf A frags := by simpa using hm
    obtain ⟨g, hg, ha, hd, he⟩ := mem_removedOf.mp hm'
    have := frag_eq_of_id hn hg hf he
    subst this
    rw [ha, hd] at hc'
    cases hc'

theorem own_updated (A : List (Nat × Nat)) (frags : List Frag) (hn : (fragIds frags).Nodup) {f : Frag} (hf : f ∈ frags)
    (hnr : (removedOf A frags).contains f.id = false) :
    (updatedOf A frags).find? (fun u => u.id == f.id) = if hasAddr A f.id then some (extendDel A f) else none := by
  by_cases ha : hasAddr A f.id = true
  · rw [if_pos ha]
    have hd : allDeleted (extendDel A f) = false := by
      cases hd : allDeleted (extendDel A f) with
      | false => rfl
      | true =>
        have : f.id ∈ removedOf A frags := mem_removedOf.mpr ⟨f, hf, ha, hd, rfl⟩
        have : (removedOf A frags).contains f.id = true := by simpa using this
        rw [hnr] at this
        cases this
    have hmem : extendDel A f ∈ updatedOf A frags := mem_updatedOf.mpr ⟨f, hf, ha, hd, rfl⟩
    have := find_by_id (fragIds_updatedOf_nodup (A := A) hn) hmem
    simpa [extendDel_id] using this
  · rw [if_neg ha]
    apply find_by_id_none
    intro hm
    obtain ⟨u, hu', he⟩ := List.mem_map.mp hm
    obtain ⟨g, hg, hag, _, rfl⟩ := mem_updatedOf.mp hu'
    rw [extendDel_id] at he
    have := frag_eq_of_id hn hg hf he
    subst this
    exact ha hag

/-- a writer's own lists describe every fragment it has read like `markFrag` -/
theorem own_plan (A : List (Nat × Nat)) (frags : List Frag) (hn : (fragIds frags).Nodup) (T : Txn)
    (hr : T.removed = removedOf A frags) (hu : T.updated = updatedOf A frags) :
    ∀ f ∈ frags, applyOne T f = markFrag A f := by
  intro f hf
  apply applyOne_eq_markFrag
  · rw [hr]; exact own_removed A frags hn hf
  · intro hnr
    rw [hu]
    rw [hr] at hnr
    exact own_updated A frags hn hf hnr

/-! ### the selected rows -/

theorem selected_sub (hit : PRow → Bool) (frags : List Frag) : ∀ x ∈ selected hit frags, x ∈ liveTagged frags := by
  intro x hx
  unfold selected at hx
  unfold liveTagged
  simp only [List.mem_filter, Bool.and_eq_true] at hx ⊢
  exact ⟨hx.1, by simpa [liveT] using hx.2.1⟩

/-- the visible rows at the addresses of a filtered scan are the rows the scan selected -/
theorem rowsAt_selected (hit : PRow → Bool) (frags : List Frag) (hn : (fragIds frags).Nodup) :
    rowsAt ((selected hit frags).map (·.1)) frags = selected hit frags := by
  unfold rowsAt liveTagged selected
  rw [List.filter_filter]
  apply List.filter_congr
  intro x hx
  by_cases hl : liveT x = true
  · have hl' : (!x.2.deleted) = true := by simpa [liveT] using hl
    rw [hl, hl', Bool.and_true, Bool.true_and]
    by_cases hh : hit x.2 = true
    · rw [hh]
      have : x.1 ∈ ((tagged frags).filter fun x => !x.2.deleted && hit x.2).map (·.1) :=
        List.mem_map.mpr ⟨x, List.mem_filter.mpr ⟨hx, by simp [hl', hh]⟩, rfl⟩
      simpa using this
    · have hh' : hit x.2 = false := by simpa using hh
      rw [hh']
      apply Bool.eq_false_iff.mpr
      intro hc
      have hm : x.1 ∈ ((tagged frags).filter fun x => !x.2.deleted && hit x.2).map (·.1) := by simpa using hc
      obtain ⟨y, hy, he⟩ := List.mem_map.mp hm
      have hy' := List.mem_filter.mp hy
      have := tagged_inj hn hy'.1 hx he
      subst this
      simp only [Bool.and_eq_true] at hy'
      rw [hy'.2.2] at hh'
      cases hh'
  · have hl' : liveT x = false := by simpa using hl
    have hl2 : (!x.2.deleted) = false := by simpa [liveT] using hl'
    rw [hl', hl2]
    simp

/-! ### upsert: the matched rows -/

theorem matchOf_mem {frags : List Frag} {s : Row} {x : TRow} (h : matchOf frags s = some x) :
    x ∈ liveTagged frags ∧ joins s x.2 = true := by
  unfold matchOf at h
  have hm := List.mem_of_find?_eq_some h
  have hp := List.find?_some h
  simp only [Bool.and_eq_true] at hp
  exact ⟨List.mem_filter.mpr ⟨hm, by simpa [liveT] using hp.1⟩, hp.2⟩

/-- distinct source keys join distinct target rows -/
theorem matches_nodup (frags : List Frag) (src : List Row) (hd : distinctKeys src = true) :
    (src.filterMap (matchOf frags)).Nodup := by
  induction src with
  | nil => simp
  | cons s ss ih =>
    simp only [distinctKeys, Bool.and_eq_true, Bool.not_eq_true'] at hd
    rw [List.filterMap_cons]
    cases hf : matchOf frags s with
    | none => exact ih hd.2
    | some x =>
      simp only [List.nodup_cons]
      refine ⟨?_, ih hd.2⟩
      intro hm
      obtain ⟨s2, hs2, he2⟩ := List.mem_filterMap.mp hm
      have k1 := key_of_joins (matchOf_mem hf).2
      have k2 := key_of_joins (matchOf_mem he2).2
      have : (ss.any fun y => keyOf y == keyOf s) = true :=
        List.any_eq_true.mpr ⟨s2, hs2, by rw [← k2, k1]; simp⟩
      rw [hd.1] at this
      cases this

theorem rowsAt_matches (frags : List Frag) (src : List Row) (hn : (fragIds frags).Nodup) (hd : distinctKeys src = true) :
    (src.filterMap (matchOf frags)).Perm (rowsAt ((src.filterMap (matchOf frags)).map (·.1)) frags) := by
  have hnd1 := matches_nodup frags src hd
  have hnd2 : (rowsAt ((src.filterMap (matchOf frags)).map (·.1)) frags).Nodup := by
    unfold rowsAt liveTagged
    exact ((tagged_pairs_nodup hn).sublist List.filter_sublist).sublist List.filter_sublist
  apply (List.perm_ext_iff_of_nodup hnd1 hnd2).mpr
  intro x
  constructor
  · intro hx
    obtain ⟨s, _, hs⟩ := List.mem_filterMap.mp hx
    unfold rowsAt
    apply List.mem_filter.mpr
    refine ⟨(matchOf_mem hs).1, ?_⟩
    have : x.1 ∈ (src.filterMap (matchOf frags)).map (·.1) := List.mem_map.mpr ⟨x, hx, rfl⟩
    simpa using this
  · intro hx
    unfold rowsAt at hx
    obtain ⟨hl, hc⟩ := List.mem_filter.mp hx
    have hm : x.1 ∈ (src.filterMap (matchOf frags)).map (·.1) := by simpa using hc
    obtain ⟨y, hy, he⟩ := List.mem_map.mp hm
    obtain ⟨s, _, hs⟩ := List.mem_filterMap.mp hy
    have hyl := (matchOf_mem hs).1
    have := tagged_inj hn (List.mem_filter.mp hyl).1 (List.mem_filter.mp hl).1 he
    subst this
    exact hy

end LanceModel.C18
