import LanceModel.C18.LineLemmas
/-
C18 lemmas, layer 5: the history invariant and its preservation by the sequential C17 step, by restore, by a (stale)
append and by a Delete / Update commit whose arm is `moveFrags` on the latest fragments.
-/
namespace LanceModel.C18
open LanceModel.Table LanceModel.C17Base List

/-- versions are dense: the list of manifests (newest first) carries versions `n, n-1, …, 1` -/
def Versions : List Manifest → Prop
  | [] => True
  | m :: ms => m.version = ms.length + 1 ∧ Versions ms

/-- the history invariant: the C17 invariant on the manifests (ids below the latest `next_row_id` in every version, no id
    twice in a version), every version's fragment ids distinct and below its mark, one footprint per version, dense
    version numbers -/
structure HInv (h : Hist) : Prop where
  inv : Inv h.ms
  frag : ∀ m ∈ h.ms, FragOk m
  len : h.feet.length = h.ms.length
  ver : Versions h.ms
  lin : Lin h.ms h.feet

theorem hinv_empty : HInv Hist.empty := ⟨trivial, (by intro m hm; cases hm), rfl, trivial, trivial⟩

theorem versions_find {ms : List Manifest} (hv : Versions ms) {v : Nat} {m : Manifest}
    (h : ms.find? (fun m => m.version == v) = some m) : m ∈ ms ∧ m.version = v :=
  ⟨List.mem_of_find?_eq_some h, by simpa using List.find?_some h⟩

/-! ### pushing one manifest -/

theorem hinv_push {h : Hist} {L : Manifest} {ms : List Manifest} (hms : h.ms = L :: ms) (hi : HInv h) (M' : Manifest)
    (ft : Foot) (hv : M'.version = L.version + 1) (hok : FragOk M') (hnext : L.nextRowId ≤ M'.nextRowId)
    (hb : ∀ r ∈ live M', r.rid < M'.nextRowId) (hn : (rids (live M')).Nodup)
    (hstep : ft.kind ≠ .overwrite → ft.kind ≠ .restore → StepOK L ft M') :
    HInv { ms := M' :: h.ms, feet := ft :: h.feet } := by
  obtain ⟨hinv, hfrag, hlen, hver, hlin⟩ := hi
  rw [hms] at hinv hfrag hver hlen hlin ⊢
  obtain ⟨_, hbo, hno⟩ := hinv
  refine ⟨⟨hok, ?_, ?_⟩, ?_, ?_, ?_, ⟨hstep, hlin⟩⟩
  · intro m1 hm1 r hr
    rcases List.mem_cons.mp hm1 with rfl | hm1
    · exact hb r hr
    · have := hbo m1 hm1 r hr
      omega
  · intro m1 hm1
    rcases List.mem_cons.mp hm1 with rfl | hm1
    · exact hn
    · exact hno m1 hm1
  · intro m hm
    rcases List.mem_cons.mp hm with rfl | hm
    · exact hok
    · exact hfrag m hm
  · simp [hlen]
  · refine ⟨?_, hver⟩
    rw [hv, hver.1]
    simp

/-! ### the sequential C17 step -/

theorem fragOk_reserve {m : Manifest} (hok : FragOk m) (n : Nat) : FragOk (reserveManifest m n) := by
  refine ⟨hok.1, ?_⟩
  intro f hf
  have := hok.2 f hf
  unfold reserveManifest startId at *
  cases hm : m.maxFragId <;> simp [hm] at this ⊢ <;> omega

theorem feetOf_length (m : Manifest) (op : Op) : (feetOf m op).length = 1 + (midOf m op).length := by
  cases op <;> simp [feetOf, midOf]
  split <;> rfl

theorem mem_nextManifest {m : Manifest} {X : List Frag} {n : Nat} {f : Frag} (h : f ∈ X) : f ∈ (nextManifest m X n).frags :=
  (sortFrags_perm X).mem_iff.mpr h

theorem patchRow_untouched (v : Nat) (src : List Row) (r : PRow) (h : (!r.deleted && upsertHit src r) = false) :
    patchRow v src r = r := by
  unfold patchRow
  cases hd : r.deleted with
  | true => simp
  | false =>
    simp only [hd, Bool.not_false, Bool.true_and] at h
    unfold upsertHit at h
    cases hs : sourceFor src (keyOf r.cells) with
    | none => simp
    | some s => simp [hs] at h

theorem patch_untouched (v : Nat) (src : List Row) (f : Frag)
    (h : (f.rows.any fun r => !r.deleted && upsertHit src r) = false) :
    ({ f with rows := f.rows.map (patchRow v src) } : Frag) = f := by
  have hmap : f.rows.map (patchRow v src) = f.rows.map id := by
    apply List.map_congr_left
    intro r hr
    apply patchRow_untouched
    cases hc : (!r.deleted && upsertHit src r) with
    | false => rfl
    | true =>
      have : (f.rows.any fun r => !r.deleted && upsertHit src r) = true := List.any_eq_true.mpr ⟨r, hr, hc⟩
      rw [h] at this
      cases this
  rw [List.map_id] at hmap
  cases f
  simp only at hmap
  simp [hmap]

/-- the lineage facts of the versions a sequential (non-commit-path) operation publishes -/
theorem lin_seq (m : Manifest) (ms : List Manifest) (op : Op) (fts : List Foot) (hlin : Lin (m :: ms) fts)
    (hnv : ∀ f rows, op ≠ .append f rows) (hnd : ∀ p, op ≠ .delete p) (hnu : ∀ p y, op ≠ .update p y)
    (hnf : ∀ rows, op = .upsert rows → (rows.head?.map List.length) ≠ some m.k)
    {m' : Manifest} (hm' : (step (m :: ms) op).1 = m' :: (midOf m op ++ m :: ms)) :
    Lin (m' :: (midOf m op ++ m :: ms)) (feetOf m op ++ fts) := by
  cases op with
  | create f k rows =>
    have := congrArg List.length hm'
    simp [step, midOf] at this
  | append f rows => exact absurd rfl (hnv f rows)
  | delete p => exact absurd rfl (hnd p)
  | update p y => exact absurd rfl (hnu p y)
  | overwrite f rows =>
    simp only [midOf, feetOf, List.nil_append, List.singleton_append]
    exact ⟨fun hk => absurd rfl hk, hlin⟩
  | upsert rows =>
    have hw := hnf rows rfl
    have hbeq : ((rows.head?.map List.length) == some m.k) = false := by
      apply Bool.eq_false_iff.mpr
      intro hc
      exact hw (by simpa using hc)
    simp only [midOf, feetOf, List.nil_append, hbeq, Bool.false_eq_true, if_false, List.singleton_append]
    refine ⟨fun _ _ => ?_, hlin⟩
    -- the step published: it is the partial-schema arm
    simp only [step, midOf, List.nil_append] at hm'
    cases rows with
    | nil =>
      have := congrArg List.length hm'
      simp at this
    | cons r0 rest =>
      simp only at hm'
      split at hm'
      · have := congrArg List.length hm'; simp at this
      · split at hm'
        · have := congrArg List.length hm'; simp at this
        · split at hm'
          · have := congrArg List.length hm'; simp at this
          · split at hm'
            · rename_i hfull
              exfalso
              apply hw
              simpa using hfull
            · simp only [List.cons.injEq, and_true] at hm'
              subst hm'
              refine ⟨?_, ?_, ?_, ?_⟩
              · intro f hf hnu _
                apply mem_nextManifest
                apply List.mem_append_left
                unfold patchFrags
                apply List.mem_map.mpr
                refine ⟨f, hf, ?_⟩
                apply patch_untouched
                cases hc : (f.rows.any fun r => !r.deleted && upsertHit (r0 :: rest) r) with
                | false => rfl
                | true =>
                  exfalso
                  apply hnu
                  unfold fragIdsOf
                  exact List.mem_map.mpr ⟨f, List.mem_filter.mpr ⟨hf, hc⟩, rfl⟩
              · intro hc; cases hc
              · intro _; exact Or.inl rfl
              · intro hc; exact absurd rfl hc
  | compact t mat =>
    simp only [midOf, feetOf, List.singleton_append, List.cons_append, List.nil_append]
    simp only [step, midOf, List.singleton_append] at hm'
    split at hm'
    · have := congrArg List.length hm'; simp at this
    · split at hm'
      · have := congrArg List.length hm'; simp at this
      · simp only [List.cons.injEq, and_true] at hm'
        subst hm'
        refine ⟨fun _ _ => ⟨?_, ?_, ?_, ?_⟩, fun _ _ => ⟨?_, ?_, ?_, ?_⟩, hlin⟩
        · intro f hf _ hnr
          apply mem_nextManifest
          apply List.mem_append_left
          apply List.mem_filter.mpr
          refine ⟨hf, ?_⟩
          simp only [Bool.not_eq_eq_eq_not, Bool.not_true]
          rw [inTasks_eq]
          apply Bool.eq_false_iff.mpr
          intro hc
          obtain ⟨g, hg, he⟩ := List.any_eq_true.mp hc
          apply hnr
          unfold fragIdsOf
          exact List.mem_map.mpr ⟨g, hg, by simpa using he⟩
        · intro _ f _ hc; cases hc
        · intro hc; exact absurd rfl hc
        · intro _; exact Or.inr (Or.inr rfl)
        · intro f hf _ _; exact hf
        · intro _ f _ hc; cases hc
        · intro hc; exact absurd rfl hc
        · intro hc; exact absurd rfl hc

theorem hinv_seq (h : Hist) (op : Op) (hi : HInv h) (hnv : viaCommit h op = false) : HInv (seqStep h op).1 := by
  obtain ⟨hinv, hfrag, hlen, hver, hlin⟩ := hi
  unfold seqStep
  cases hms : h.ms with
  | nil =>
    simp only
    have hinv' := inv_step [] op trivial
    rcases step_nil op with h0 | ⟨f, k, rows, _, _, m', hm', hv1, hok, _, _⟩
    · rw [h0]
      exact ⟨trivial, (by intro m hm; cases hm), rfl, trivial, trivial⟩
    · rw [hm'] at hinv' ⊢
      refine ⟨hinv', ?_, rfl, ?_, trivial⟩
      · intro m hm
        rw [List.mem_singleton.mp hm]
        exact hok
      · exact ⟨by simp [hv1], trivial⟩
  | cons m ms =>
    simp only
    rw [hms] at hinv hfrag hver hlen hlin
    have hok : FragOk m := hfrag m (List.mem_cons_self ..)
    have hinv' := inv_step (m :: ms) op hinv
    rcases step_cons m ms op hok with h0 | ⟨m', hm', hpv, hok', _, _⟩
    · rw [h0]
      simp only [if_true, List.nil_append]
      exact ⟨hinv, hfrag, hlen, hver, hlin⟩
    · have hlin' := lin_seq m ms op h.feet hlin
        (by intro f rows he; subst he; simp [viaCommit, hms] at hnv)
        (by intro p he; subst he; simp [viaCommit, hms] at hnv)
        (by intro p y he; subst he; simp [viaCommit, hms] at hnv)
        (by intro rows he; subst he; simpa [viaCommit, hms] using hnv) hm'
      rw [hm'] at hinv' ⊢
      have hlen' : (m' :: (midOf m op ++ m :: ms)).length ≠ (m :: ms).length := by
        simp only [List.length_cons, List.length_append]
        omega
      rw [if_neg hlen']
      refine ⟨hinv', ?_, ?_, ?_, hlin'⟩
      · intro x hx
        rcases List.mem_cons.mp hx with rfl | hx
        · exact hok'
        · rcases List.mem_append.mp hx with hmid | hx
          · cases op <;> simp [midOf] at hmid
            subst hmid
            exact fragOk_reserve hok _
          · exact hfrag x hx
      · simp only [List.length_append, List.length_cons, feetOf_length, hlen]
        omega
      · have hmv := hver.1
        cases op <;> simp only [midOf, pubVersion, List.nil_append] at hpv ⊢
        all_goals first
          | exact ⟨by rw [hpv, hmv]; simp, hver⟩
          | (refine ⟨by rw [hpv, hmv]; simp, ?_, hver⟩
             simp [reserveManifest, hmv])

/-! ### restore -/

theorem optMax_ge (a b : Option Nat) : startId a ≤ startId (optMax a b) := by
  cases a <;> cases b <;> simp [optMax, startId] <;> omega

theorem hinv_restore {h : Hist} {L : Manifest} {ms : List Manifest} (hms : h.ms = L :: ms) (hi : HInv h)
    {old : Manifest} (hold : old ∈ h.ms) (ft : Foot) (hft : ft.kind = .restore) :
    HInv { ms := restored L old :: h.ms, feet := ft :: h.feet } := by
  have hi' := hi
  obtain ⟨hinv, hfrag, _, _⟩ := hi'
  rw [hms] at hinv hold
  obtain ⟨_, hbo, hno⟩ := hinv
  have hokold := hfrag old (hms ▸ hold)
  apply hinv_push hms hi (restored L old) ft rfl
  · refine ⟨hokold.1, ?_⟩
    intro f hf
    have := hokold.2 f hf
    have := optMax_ge old.maxFragId L.maxFragId
    simp only [restored]
    omega
  · simp only [restored]; omega
  · intro r hr
    have : r.rid < L.nextRowId := hbo old hold r hr
    simp only [restored]
    omega
  · exact hno old hold
  · intro _ hc; exact absurd hft hc

/-! ### append through any handle -/

theorem hinv_append {h : Hist} {L : Manifest} {ms : List Manifest} (hms : h.ms = L :: ms) (hi : HInv h)
    (f : Nat) (hf : f ≠ 0) (rows : List Row) :
    HInv { ms := buildOn L (planAppend f rows) :: h.ms, feet := (planAppend f rows).foot :: h.feet } := by
  have hi' := hi
  obtain ⟨hinv, hfrag, _, _⟩ := hi'
  rw [hms] at hinv
  obtain ⟨hok, hbo, hno⟩ := hinv
  have hbL := hbo L (List.mem_cons_self ..)
  have hnL := hno L (List.mem_cons_self ..)
  have hperm : (live (buildOn L (planAppend f rows))).Perm
      (live L ++ numberRows (L.version + 1) L.nextRowId rows) := by
    unfold buildOn planAppend
    simp only
    refine (live_nextManifest _ _ _).trans ?_
    rw [liveOf_append, live_writtenFrags _ _ _ _ hf]
    exact List.Perm.refl _
  apply hinv_push hms hi _ (planAppend f rows).foot
  · simp [buildOn, planAppend, nextManifest]
  · unfold buildOn planAppend
    simp only
    apply fragOk_nextManifest
    refine nodup_old_new hok (List.Sublist.refl _) ?_ ?_
    · exact fragIds_assign_nodup _ _
    · exact assign_ge _ _
  · simp [buildOn, planAppend, nextManifest]
  · intro r hr
    have hr' := hperm.subset hr
    have hnx : (buildOn L (planAppend f rows)).nextRowId = L.nextRowId + rows.length := by
      simp [buildOn, planAppend, nextManifest]
    rw [hnx]
    rcases List.mem_append.mp hr' with h1 | h1
    · have := hbL r h1; omega
    · have := (mem_numberRows h1).2.1; omega
  · refine (rids_nodup_perm hperm).mpr ?_
    simp only [rids, List.map_append]
    refine nodup_append_fresh (n := L.nextRowId) hnL ?_ (numberRows_nodup _ _ _) ?_
    · intro x hx
      obtain ⟨r, hr, rfl⟩ := List.mem_map.mp hx
      exact hbL r hr
    · intro x hx
      obtain ⟨r, hr, rfl⟩ := List.mem_map.mp hx
      exact (mem_numberRows hr).1
  · intro _ _
    refine ⟨?_, ?_, ?_, ?_⟩
    · intro g hg _ _
      unfold buildOn planAppend
      exact mem_nextManifest (List.mem_append_left _ hg)
    · intro _ g _ hc; simp [Txn.foot, planAppend] at hc
    · intro hc; simp [Txn.foot, planAppend] at hc
    · intro hc; simp [Txn.foot, planAppend] at hc

/-! ### a Delete / Update commit -/

theorem buildOn_du_eq (L : Manifest) (T : Txn) (hk : T.kind ≠ .append) :
    buildOn L T =
      nextManifest L (applyFrags T L.frags ++ assignFragIds (startId L.maxFragId) (chunks T.fileRows (newRows L T)))
          (L.nextRowId + T.fresh.length) := by
  unfold buildOn
  cases hkk : T.kind <;> simp_all

theorem live_buildOn_du (L : Manifest) (T : Txn) (hk : T.kind ≠ .append) (hfr : T.fileRows ≠ 0) :
    (live (buildOn L T)).Perm (liveOf (applyFrags T L.frags) ++ newRows L T) := by
  rw [buildOn_du_eq L T hk]
  refine (live_nextManifest _ _ _).trans ?_
  rw [liveOf_append, live_newFrags _ _ hfr _ (newRows_live L T)]
  
theorem applyOne_keep {T : Txn} {f : Frag} (hu : f.id ∉ T.updated.map (·.id)) (hr : f.id ∉ T.removed) :
    applyOne T f = some f := by
  unfold applyOne
  have : T.removed.contains f.id = false := by
    apply Bool.eq_false_iff.mpr
    intro hc
    exact hr (by simpa using hc)
  rw [this]
  simp only [Bool.false_eq_true, if_false]
  rw [find_by_id_none (l := T.updated) (by simpa [fragIds] using hu)]

theorem applyOne_some {T : Txn} {f : Frag} (hr : f.id ∉ T.removed) : ∃ g, applyOne T f = some g := by
  unfold applyOne
  have : T.removed.contains f.id = false := by
    apply Bool.eq_false_iff.mpr
    intro hc
    exact hr (by simpa using hc)
  rw [this]
  simp only [Bool.false_eq_true, if_false]
  cases T.updated.find? fun u => u.id == f.id <;> simp

theorem markFrag_grown {A : List (Nat × Nat)} {f g : Frag} (h : markFrag A f = some g) : Grown f g := by
  rcases markFrag_some h with rfl | rfl
  · exact Grown.refl _
  · exact ⟨rfl, A, rfl⟩

theorem stepOK_foot (L : Manifest) (T : Txn) (hk : T.kind ≠ .append) (hkind : T.kind = .update ∨ T.kind = .delete)
    (hgrow : ∀ f ∈ L.frags, f.id ∈ T.updated.map (·.id) → f.id ∉ T.removed → ∀ g, applyOne T f = some g → Grown f g) :
    StepOK L T.foot (buildOn L T) := by
  rw [buildOn_du_eq L T hk]
  refine ⟨?_, ?_, fun _ => hkind, fun _ => ?_⟩
  · intro f hf hu hr
    apply mem_nextManifest
    apply List.mem_append_left
    rw [applyFrags_def]
    exact List.mem_filterMap.mpr ⟨f, hf, applyOne_keep hu hr⟩
  · intro _ f hf hu hr
    obtain ⟨g, hg⟩ := applyOne_some (T := T) hr
    refine ⟨g, ?_, hgrow f hf hu hr g hg⟩
    apply mem_nextManifest
    apply List.mem_append_left
    rw [applyFrags_def]
    exact List.mem_filterMap.mpr ⟨f, hf, hg⟩
  · rcases hkind with h | h
    · exact Or.inl h
    · exact Or.inr (Or.inl h)

/-- the commit of a Delete / Update transaction whose arm is `markFrag A` on every latest fragment and whose captured ids
    are the ids of the visible rows at `A` -/
theorem hinv_du {h : Hist} {L : Manifest} {ms : List Manifest} (hms : h.ms = L :: ms) (hi : HInv h)
    (T : Txn) (A : List (Nat × Nat)) (hk : T.kind ≠ .append) (hkind : T.kind = .update ∨ T.kind = .delete)
    (hfr : T.fileRows ≠ 0) (harmE : ∀ f ∈ L.frags, applyOne T f = markFrag A f)
    (hm : T.moved = [] ∨ (T.moved.map (·.1)).Perm ((rowsAt A L.frags).map (·.2.rid))) :
    HInv { ms := buildOn L T :: h.ms, feet := T.foot :: h.feet } := by
  have hi' := hi
  obtain ⟨hinv, hfrag, _, _⟩ := hi'
  rw [hms] at hinv
  obtain ⟨hok, hbo, hno⟩ := hinv
  have hbL := hbo L (List.mem_cons_self ..)
  have hnL := hno L (List.mem_cons_self ..)
  have harm := applyFrags_eq_moveFrags T A L.frags harmE
  have hperm := live_buildOn_du L T hk hfr
  rw [harm] at hperm
  obtain ⟨hnd, hlt⟩ := move_ids L T A hbL hnL hm
  have heq := buildOn_du_eq L T hk
  apply hinv_push hms hi _ T.foot
  · rw [heq]; rfl
  · rw [heq, harm]
    apply fragOk_nextManifest
    refine nodup_old_new hok (fragIds_moveFrags_sublist A L.frags) ?_ ?_
    · exact fragIds_assign_nodup _ _
    · exact assign_ge _ _
  · rw [heq]; simp [nextManifest]
  · intro r hr
    have : (buildOn L T).nextRowId = L.nextRowId + T.fresh.length := by rw [heq]; rfl
    rw [this]
    exact hlt r (hperm.subset hr)
  · exact (rids_nodup_perm hperm).mpr hnd
  · intro _ _
    apply stepOK_foot L T hk hkind
    intro f hf _ _ g hg
    rw [harmE f hf] at hg
    exact markFrag_grown hg

/-- a Delete transaction without updated fragments only drops whole fragments -/
theorem applyFrags_filter (T : Txn) (frags : List Frag) (hu : T.updated = []) :
    applyFrags T frags = frags.filter fun f => !T.removed.contains f.id := by
  unfold applyFrags
  rw [hu]
  simp only [List.find?_nil]
  induction frags with
  | nil => rfl
  | cons f fs ih =>
    by_cases hc : T.removed.contains f.id = true
    · rw [List.filterMap_cons, List.filter_cons, if_pos hc, ih, hc]
      rfl
    · rw [List.filterMap_cons, List.filter_cons, if_neg hc, ih]
      have hc' : T.removed.contains f.id = false := by simpa using hc
      rw [hc']
      rfl

theorem liveOf_filter_sublist (p : Frag → Bool) (frags : List Frag) : (liveOf (frags.filter p)).Sublist (liveOf frags) := by
  induction frags with
  | nil => exact List.Sublist.refl _
  | cons f fs ih =>
    rw [List.filter_cons, liveOf_cons]
    split
    · rw [liveOf_cons]
      exact List.Sublist.append (List.Sublist.refl _) ih
    · exact ih.trans (List.sublist_append_right _ _)

/-- the commit of a Delete transaction that removes whole fragments only (`delete true`) -/
theorem hinv_drop {h : Hist} {L : Manifest} {ms : List Manifest} (hms : h.ms = L :: ms) (hi : HInv h)
    (T : Txn) (hk : T.kind ≠ .append) (hkind : T.kind = .update ∨ T.kind = .delete) (hfr : T.fileRows ≠ 0)
    (hu : T.updated = []) (hmv : T.moved = []) (hfresh : T.fresh = []) :
    HInv { ms := buildOn L T :: h.ms, feet := T.foot :: h.feet } := by
  have hi' := hi
  obtain ⟨hinv, hfrag, _, _⟩ := hi'
  rw [hms] at hinv
  obtain ⟨hok, hbo, hno⟩ := hinv
  have hbL := hbo L (List.mem_cons_self ..)
  have hnL := hno L (List.mem_cons_self ..)
  have hperm := live_buildOn_du L T hk hfr
  have hnr : newRows L T = [] := by simp [newRows, hmv, hfresh, insertedRowsOf]
  rw [hnr, List.append_nil, applyFrags_filter T L.frags hu] at hperm
  have hsub := liveOf_filter_sublist (fun f => !T.removed.contains f.id) L.frags
  have heq := buildOn_du_eq L T hk
  apply hinv_push hms hi _ T.foot
  · rw [heq]; rfl
  · rw [heq, applyFrags_filter T L.frags hu]
    apply fragOk_nextManifest
    refine nodup_old_new hok ((List.filter_sublist).map _) ?_ ?_
    · exact fragIds_assign_nodup _ _
    · exact assign_ge _ _
  · rw [heq]; simp [nextManifest]
  · intro r hr
    have : (buildOn L T).nextRowId = L.nextRowId + T.fresh.length := by rw [heq]; rfl
    rw [this]
    have := hbL r (hsub.subset (hperm.subset hr))
    omega
  · refine (rids_nodup_perm hperm).mpr ?_
    exact hnL.sublist (hsub.map _)
  · intro _ _
    apply stepOK_foot L T hk hkind
    intro f _ hfu
    rw [hu] at hfu
    cases hfu

end LanceModel.C18
