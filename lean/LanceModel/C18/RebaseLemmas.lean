import LanceModel.C18.WalkLemmas
/-
C18 lemmas, layer 8: `finish_delete_update` on top of the walk — the rebased transaction's lists describe `markFrag` on the
LATEST fragments, and the visible rows at the affected addresses are the same rows in the version read and in the latest one.
-/
namespace LanceModel.C18
open LanceModel.Table LanceModel.C17Base List

/-! ### pointwise lemmas -/

theorem markAt_getElem (B : List (Nat × Nat)) (fid : Nat) : ∀ (j : Nat) (rows : List PRow) (k : Nat),
    (markAt B fid j rows)[k]? =
      (rows[k]?).map fun r => if B.contains (fid, j + k) then { r with deleted := true } else r := by
  intro j rows
  induction rows generalizing j with
  | nil => intro k; simp [markAt]
  | cons r rs ih =>
    intro k
    cases k with
    | zero => simp [markAt]
    | succ k =>
      simp only [markAt, List.getElem?_cons_succ]
      rw [ih (j + 1) k]
      have : j + 1 + k = j + (k + 1) := by omega
      rw [this]

theorem tagRows_of_getElem {fid j : Nat} {rows : List PRow} {k : Nat} {r : PRow} (h : rows[k]? = some r) :
    ((fid, j + k), r) ∈ tagRows fid j rows := by
  induction rows generalizing j k with
  | nil => simp at h
  | cons a t ih =>
    cases k with
    | zero =>
      simp only [List.getElem?_cons_zero, Option.some.injEq] at h
      subst h
      simp [tagRows]
    | succ k =>
      simp only [List.getElem?_cons_succ] at h
      have := ih (j := j + 1) h
      simp only [tagRows, List.mem_cons]
      right
      have he : j + 1 + k = j + (k + 1) := by omega
      rw [he] at this
      exact this

theorem mem_delAddrs {g : Frag} {a : Nat × Nat} :
    a ∈ delAddrs g ↔ ∃ x ∈ tagRows g.id 0 g.rows, x.2.deleted = true ∧ x.1 = a := by
  unfold delAddrs
  simp only [List.mem_map, List.mem_filter]
  constructor
  · rintro ⟨x, ⟨hx, hd⟩, rfl⟩; exact ⟨x, hx, hd, rfl⟩
  · rintro ⟨x, hx, hd, rfl⟩; exact ⟨x, ⟨hx, hd⟩, rfl⟩

/-- the merged deletion vector written over the writer's copy of the fragment is the latest fragment with `A` added -/
theorem setDel_markAt (D A B : List (Nat × Nat)) (fid : Nat) : ∀ (j : Nat) (rows : List PRow),
    (∀ k r, rows[k]? = some r → D.contains (fid, j + k) = (r.deleted || B.contains (fid, j + k))) →
    setDel (D ++ A) fid j (markAt A fid j rows) = markAt (B ++ A) fid j rows := by
  intro j rows
  induction rows generalizing j with
  | nil => intro _; rfl
  | cons r rs ih =>
    intro h
    have h0 := h 0 r (by simp)
    simp only [Nat.add_zero] at h0
    have htail := ih (j + 1) (by
      intro k r' hr'
      have := h (k + 1) r' (by simpa using hr')
      have he : j + (k + 1) = j + 1 + k := by omega
      rw [he] at this
      exact this)
    simp only [markAt, setDel]
    rw [htail]
    congr 1
    obtain ⟨c, rid, cr, up, d⟩ := r
    by_cases ha : (fid, j) ∈ A <;> by_cases hb : (fid, j) ∈ B <;> cases d <;> simp [ha, hb] at h0 ⊢ <;> simp [h0]

theorem all_deleted_markAt (B : List (Nat × Nat)) (fid : Nat) : ∀ (j : Nat) (rows : List PRow),
    rows.all (·.deleted) = true → (markAt B fid j rows).all (·.deleted) = true := by
  intro j rows
  induction rows generalizing j with
  | nil => intro _; rfl
  | cons r rs ih =>
    intro h
    simp only [List.all_cons, Bool.and_eq_true] at h
    simp only [markAt, List.all_cons, Bool.and_eq_true]
    refine ⟨?_, ih (j + 1) h.2⟩
    split
    · rfl
    · exact h.1

theorem markAt_congr {A A' : List (Nat × Nat)} (h : ∀ a, A.contains a = A'.contains a) (fid : Nat) :
    ∀ (j : Nat) (rows : List PRow), markAt A fid j rows = markAt A' fid j rows := by
  intro j rows
  induction rows generalizing j with
  | nil => rfl
  | cons r rs ih => simp only [markAt, h, ih]

theorem markAt_comm (A B : List (Nat × Nat)) (fid j : Nat) (rows : List PRow) :
    markAt (A ++ B) fid j rows = markAt (B ++ A) fid j rows := by
  apply markAt_congr
  intro a
  by_cases ha : a ∈ A <;> by_cases hb : a ∈ B <;> simp [ha, hb]

theorem find_map_id (φ : Frag → Frag) (hφ : ∀ u, (φ u).id = u.id) (i : Nat) (l : List Frag) :
    (l.map φ).find? (fun u => u.id == i) = (l.find? fun u => u.id == i).map φ := by
  induction l with
  | nil => rfl
  | cons a t ih =>
    simp only [List.map_cons, List.find?_cons, hφ]
    cases (a.id == i) <;> simp [ih]

/-! ### the merge of `finish_delete_update` -/

/-- deletion vectors of the latest fragments flagged `needs_rewrite` -/
def Dof (N : List Nat) (L : Manifest) : List (Nat × Nat) :=
  (L.frags.filter fun f => N.contains f.id).flatMap delAddrs

/-- the transaction `finish_delete_update` returns -/
def mergeTxn (T : Txn) (N : List Nat) (L : Manifest) (A : List (Nat × Nat)) : Txn :=
  { T with
    updated := T.updated.map fun u =>
      if N.contains u.id then { u with rows := setDel (Dof N L ++ A) u.id 0 u.rows } else u
    removed := T.removed ++
      (N.filter fun fid =>
        (T.updated.filter fun u => u.id == fid).any fun u => (setDel (Dof N L ++ A) u.id 0 u.rows).all (·.deleted)) }

theorem mergeTxn_nil (T : Txn) (L : Manifest) (A : List (Nat × Nat)) : mergeTxn T [] L A = T := by
  unfold mergeTxn
  cases T
  simp

theorem finishDU_eq {T T' : Txn} {R : Reb} {L : Manifest} (h : finishDU T R L = .ok T') :
    (R.needs = [] ∧ T' = T) ∨
    ∃ A, R.affected = some A ∧ T' = mergeTxn T R.needs L A ∧ (Dof R.needs L).any A.contains = false := by
  unfold finishDU at h
  split at h
  · rename_i he
    cases h
    left
    exact ⟨by simpa using he, rfl⟩
  · split at h
    · cases h
    · rename_i A hA
      split at h
      · cases h
      · rename_i hno
        cases h
        right
        exact ⟨A, hA, rfl, by simpa [Dof] using hno⟩

theorem mem_Dof {N : List Nat} {L : Manifest} (hok : FragOk L) {g : Frag} (hg : g ∈ L.frags) (hN : g.id ∈ N) {k : Nat} :
    (g.id, k) ∈ Dof N L ↔ ∃ r, g.rows[k]? = some r ∧ r.deleted = true := by
  unfold Dof
  simp only [List.mem_flatMap, List.mem_filter]
  constructor
  · rintro ⟨g2, ⟨hg2, _⟩, hm⟩
    obtain ⟨x, hx, hd, he⟩ := mem_delAddrs.mp hm
    have hid : g2.id = g.id := by
      have := (tagRows_fst hx).1
      rw [he] at this
      exact this.symm
    have := frag_eq_of_id hok.1 hg2 hg hid
    subst this
    have h1 := (tagRows_getElem hx).1
    rw [he] at h1
    simp only [Nat.sub_zero] at h1
    exact ⟨x.2, h1, hd⟩
  · rintro ⟨r, hr, hd⟩
    refine ⟨g, ⟨hg, by simpa using hN⟩, ?_⟩
    apply mem_delAddrs.mpr
    have := tagRows_of_getElem (fid := g.id) (j := 0) hr
    simp only [Nat.zero_add] at this
    exact ⟨((g.id, k), r), this, hd, rfl⟩

theorem contains_true {l : List Nat} {a : Nat} : l.contains a = true ↔ a ∈ l := by simp

theorem hasAddr_iff {A : List (Nat × Nat)} {i : Nat} : hasAddr A i = true ↔ ∃ a ∈ A, a.1 = i := by
  unfold hasAddr
  simp [List.any_eq_true]

/-- every fragment with an affected address is a fragment the writer has read, and one it modifies -/
theorem touched_modified {mv : Manifest} {T : Txn} {A : List (Nat × Nat)}
    (hr : T.removed = removedOf A mv.frags) (hu : T.updated = updatedOf A mv.frags)
    (hAin : ∀ a ∈ A, ∃ x ∈ liveTagged mv.frags, x.1 = a) {i : Nat} (ha : hasAddr A i = true) :
    ∃ f ∈ mv.frags, f.id = i ∧ f.id ∈ T.modified := by
  obtain ⟨a, haA, hai⟩ := hasAddr_iff.mp ha
  obtain ⟨x, hx, hxa⟩ := hAin a haA
  obtain ⟨f, hf, hxf⟩ := mem_tagged.mp (List.mem_filter.mp hx).1
  have hfid : f.id = i := by
    have := (tagRows_fst hxf).1
    rw [hxa, hai] at this
    exact this.symm
  refine ⟨f, hf, hfid, ?_⟩
  have haf : hasAddr A f.id = true := hfid ▸ ha
  unfold Txn.modified
  rw [hr, hu]
  cases hd : allDeleted (extendDel A f) with
  | true => exact List.mem_append_right _ (mem_removedOf.mpr ⟨f, hf, haf, hd, rfl⟩)
  | false =>
    apply List.mem_append_left
    exact List.mem_map.mpr ⟨extendDel A f, mem_updatedOf.mpr ⟨f, hf, haf, hd, rfl⟩, rfl⟩

theorem modified_hasAddr {mv : Manifest} {T : Txn} {A : List (Nat × Nat)}
    (hr : T.removed = removedOf A mv.frags) (hu : T.updated = updatedOf A mv.frags) {i : Nat} (hi : i ∈ T.modified) :
    hasAddr A i = true := by
  unfold Txn.modified at hi
  rw [hr, hu] at hi
  rcases List.mem_append.mp hi with h | h
  · obtain ⟨u, hu', rfl⟩ := List.mem_map.mp h
    obtain ⟨f, _, ha, _, rfl⟩ := mem_updatedOf.mp hu'
    exact ha
  · obtain ⟨f, _, ha, _, rfl⟩ := mem_removedOf.mp h
    exact ha

/-- THE REBASED ARM: after the merge, the transaction's lists describe `markFrag A` on every LATEST fragment -/
theorem merge_arm {mv L : Manifest} {T : Txn} {A : List (Nat × Nat)} {N : List Nat}
    (hokmv : FragOk mv) (hokL : FragOk L)
    (hr : T.removed = removedOf A mv.frags) (hu : T.updated = updatedOf A mv.frags)
    (hAin : ∀ a ∈ A, ∃ x ∈ liveTagged mv.frags, x.1 = a)
    (hN : ∀ i ∈ N, i ∈ T.modified)
    (himg : ∀ f ∈ mv.frags, f.id ∈ T.modified → ∃ g ∈ L.frags, Grown f g ∧ (f.id ∉ N → g = f))
    (hno : (Dof N L).any A.contains = false) :
    ∀ g ∈ L.frags, applyOne (mergeTxn T N L A) g = markFrag A g := by
  intro g hg
  have hφid : ∀ u : Frag, (if N.contains u.id then ({ u with rows := setDel (Dof N L ++ A) u.id 0 u.rows } : Frag) else u).id = u.id := by
    intro u; split <;> rfl
  by_cases ha : hasAddr A g.id = true
  · -- a fragment the writer modifies
    obtain ⟨f, hf, hfid, hfm⟩ := touched_modified hr hu hAin ha
    obtain ⟨g', hg', hgr, heq⟩ := himg f hf hfm
    have hgg : g' = g := frag_eq_of_id hokL.1 hg' hg (hgr.1.trans hfid)
    subst hgg
    obtain ⟨hid, B, hrows⟩ := hgr
    have haf : hasAddr A f.id = true := hfid ▸ ha
    have hrem_mv := own_removed A mv.frags hokmv.1 hf
    by_cases hiN : f.id ∈ N
    · -- flagged: a concurrent transaction extended its deletion vector
      have hgN : g'.id ∈ N := hid ▸ hiN
      -- the merged rows
      have hpt : ∀ k r, f.rows[k]? = some r →
          (Dof N L).contains (f.id, 0 + k) = (r.deleted || B.contains (f.id, 0 + k)) := by
        intro k r hkr
        simp only [Nat.zero_add]
        have hgk : g'.rows[k]? = some (if B.contains (f.id, 0 + k) then { r with deleted := true } else r) := by
          rw [hrows, markAt_getElem, hkr]; rfl
        simp only [Nat.zero_add] at hgk
        have hiff := mem_Dof (N := N) hokL hg hgN (k := k)
        rw [hid] at hiff
        by_cases hB : B.contains (f.id, k) = true
        · rw [hB, Bool.or_true]
          rw [hB] at hgk
          simpa using hiff.mpr ⟨_, hgk, rfl⟩
        · have hB' : B.contains (f.id, k) = false := by simpa using hB
          rw [hB', Bool.or_false]
          rw [hB'] at hgk
          simp only [Bool.false_eq_true, if_false] at hgk
          cases hd : r.deleted with
          | true => simpa using hiff.mpr ⟨r, hgk, hd⟩
          | false =>
            apply Bool.eq_false_iff.mpr
            intro hc
            obtain ⟨r2, hr2, hd2⟩ := hiff.mp (by simpa using hc)
            rw [hgk] at hr2
            cases hr2
            rw [hd] at hd2
            cases hd2
      have hmerged : setDel (Dof N L ++ A) f.id 0 (extendDel A f).rows = (extendDel A g').rows := by
        have := setDel_markAt (Dof N L) A B f.id 0 f.rows hpt
        simp only [extendDel]
        rw [this, hrows, hid, markAt_append]
      have hext : ({ extendDel A f with rows := setDel (Dof N L ++ A) (extendDel A f).id 0 (extendDel A f).rows } : Frag)
          = extendDel A g' := by
        have h1 : (extendDel A f).id = f.id := rfl
        rw [h1, hmerged]
        cases g'
        simp only [extendDel] at hid ⊢
        simp [hid]
      have hRmv : T.removed.contains f.id = allDeleted (extendDel A f) := by
        rw [hr, hrem_mv, haf, Bool.true_and]
      -- the flagged-and-emptied test of the merge, for this fragment
      have hany : allDeleted (extendDel A f) = false →
          ((T.updated.filter fun u => u.id == f.id).any fun u =>
            (setDel (Dof N L ++ A) u.id 0 u.rows).all (·.deleted)) = allDeleted (extendDel A g') := by
        intro hd
        have hmemu : extendDel A f ∈ T.updated := by
          rw [hu]; exact mem_updatedOf.mpr ⟨f, hf, haf, hd, rfl⟩
        rw [Bool.eq_iff_iff]
        constructor
        · intro hc
          obtain ⟨u, hu1, hu2⟩ := List.any_eq_true.mp hc
          obtain ⟨hu3, hu4⟩ := List.mem_filter.mp hu1
          rw [hu] at hu3
          obtain ⟨f2, hf2, _, _, rfl⟩ := mem_updatedOf.mp hu3
          have hf2id : f2.id = f.id := by simpa [extendDel_id] using hu4
          have := frag_eq_of_id hokmv.1 hf2 hf hf2id
          subst this
          have h1 : (extendDel A f2).id = f2.id := rfl
          rw [h1, hmerged] at hu2
          exact hu2
        · intro hc
          apply List.any_eq_true.mpr
          refine ⟨extendDel A f, List.mem_filter.mpr ⟨hmemu, by simp [extendDel_id]⟩, ?_⟩
          have h1 : (extendDel A f).id = f.id := rfl
          rw [h1, hmerged]
          exact hc
      have hallmono : allDeleted (extendDel A f) = true → allDeleted (extendDel A g') = true := by
        intro hd
        unfold allDeleted extendDel at hd ⊢
        simp only at hd ⊢
        rw [hrows, hid, markAt_append, ← markAt_comm, ← markAt_append]
        exact all_deleted_markAt B f.id 0 _ hd
      apply applyOne_eq_markFrag
      · -- removed?
        rw [ha, Bool.true_and, hid]
        unfold mergeTxn
        simp only
        cases hd : allDeleted (extendDel A f) with
        | true =>
          rw [hallmono hd]
          have : f.id ∈ T.removed := by
            have := hRmv; rw [hd] at this; simpa using this
          simpa using Or.inl this
        | false =>
          have hnotin : f.id ∉ T.removed := by
            intro hm
            have : T.removed.contains f.id = true := by simpa using hm
            rw [hRmv, hd] at this
            cases this
          rw [← hany hd, Bool.eq_iff_iff]
          constructor
          · intro hc
            have hm := contains_true.mp hc
            rcases List.mem_append.mp hm with h | h
            · exact absurd h hnotin
            · exact (List.mem_filter.mp h).2
          · intro hc
            have : f.id ∈ T.removed ++ N.filter fun fid =>
                (T.updated.filter fun u => u.id == fid).any fun u => (setDel (Dof N L ++ A) u.id 0 u.rows).all (·.deleted) :=
              List.mem_append_right _ (List.mem_filter.mpr ⟨hiN, hc⟩)
            simpa using this
      · intro hnrm
        rw [ha]
        simp only [if_true]
        have hnotin : f.id ∉ T.removed := by
          intro hm
          have : g'.id ∈ (mergeTxn T N L A).removed := by
            unfold mergeTxn
            simp only
            rw [hid]
            exact List.mem_append_left _ hm
          have : (mergeTxn T N L A).removed.contains g'.id = true := by simpa using this
          rw [hnrm] at this
          cases this
        have hd : allDeleted (extendDel A f) = false := by
          cases hd : allDeleted (extendDel A f) with
          | false => rfl
          | true =>
            exfalso
            apply hnotin
            have := hRmv; rw [hd] at this; simpa using this
        have hfind := own_updated A mv.frags hokmv.1 hf (by
          have : T.removed.contains f.id = false := by
            apply Bool.eq_false_iff.mpr
            intro hc
            exact hnotin (by simpa using hc)
          rw [hr] at this
          exact this)
        rw [if_pos haf] at hfind
        unfold mergeTxn
        simp only
        rw [find_map_id _ hφid, hid, hu, hfind]
        simp only [Option.map_some]
        have hc : N.contains (extendDel A f).id = true := by simpa [extendDel_id] using hiN
        rw [if_pos hc, hext]
    · -- not flagged: the fragment is as the writer has read it
      have hgf := heq hiN
      subst hgf
      have hRmv : T.removed.contains g'.id = allDeleted (extendDel A g') := by
        rw [hr, hrem_mv, haf, Bool.true_and]
      apply applyOne_eq_markFrag
      · rw [ha, Bool.true_and, ← hRmv]
        unfold mergeTxn
        simp only
        rw [Bool.eq_iff_iff]
        constructor
        · intro hc
          have hm := contains_true.mp hc
          rcases List.mem_append.mp hm with h | h
          · exact contains_true.mpr h
          · exact absurd (List.mem_filter.mp h).1 hiN
        · intro hc
          have : g'.id ∈ T.removed := by simpa using hc
          simpa using Or.inl this
      · intro hnrm
        rw [ha]
        simp only [if_true]
        have hnotin : g'.id ∉ T.removed := by
          intro hm
          have : g'.id ∈ (mergeTxn T N L A).removed := by
            unfold mergeTxn
            simp only
            exact List.mem_append_left _ hm
          have : (mergeTxn T N L A).removed.contains g'.id = true := by simpa using this
          rw [hnrm] at this
          cases this
        have hfind := own_updated A mv.frags hokmv.1 hf (by
          have : T.removed.contains g'.id = false := by
            apply Bool.eq_false_iff.mpr
            intro hc
            exact hnotin (by simpa using hc)
          rw [hr] at this
          exact this)
        rw [if_pos haf] at hfind
        unfold mergeTxn
        simp only
        rw [find_map_id _ hφid, hu, hfind]
        simp only [Option.map_some]
        have hc : N.contains (extendDel A g').id = false := by
          apply Bool.eq_false_iff.mpr
          intro hcc
          exact hiN (by simpa [extendDel_id] using hcc)
        rw [hc]
        rfl
  · -- a fragment the writer does not touch
    have ha' : hasAddr A g.id = false := by simpa using ha
    have hnm : g.id ∉ T.modified := fun hm => ha (modified_hasAddr hr hu hm)
    have hnN : g.id ∉ N := fun hn => hnm (hN _ hn)
    have hnr : g.id ∉ T.removed := fun h => hnm (List.mem_append_right _ h)
    have hnu : g.id ∉ T.updated.map (·.id) := fun h => hnm (List.mem_append_left _ h)
    apply applyOne_eq_markFrag
    · rw [ha', Bool.false_and]
      apply Bool.eq_false_iff.mpr
      intro hc
      have hm : g.id ∈ (mergeTxn T N L A).removed := by simpa using hc
      unfold mergeTxn at hm
      simp only at hm
      rcases List.mem_append.mp hm with h | h
      · exact hnr h
      · exact hnN (List.mem_filter.mp h).1
    · intro _
      rw [ha']
      simp only [Bool.false_eq_true, if_false]
      unfold mergeTxn
      simp only
      rw [find_map_id _ hφid, find_by_id_none (l := T.updated) (by simpa [fragIds] using hnu)]
      rfl

theorem modified_of_hasAddr {mv : Manifest} {T : Txn} {A : List (Nat × Nat)}
    (hr : T.removed = removedOf A mv.frags) (hu : T.updated = updatedOf A mv.frags) {f : Frag} (hf : f ∈ mv.frags)
    (haf : hasAddr A f.id = true) : f.id ∈ T.modified := by
  unfold Txn.modified
  rw [hr, hu]
  cases hd : allDeleted (extendDel A f) with
  | true => exact List.mem_append_right _ (mem_removedOf.mpr ⟨f, hf, haf, hd, rfl⟩)
  | false =>
    apply List.mem_append_left
    exact List.mem_map.mpr ⟨extendDel A f, mem_updatedOf.mpr ⟨f, hf, haf, hd, rfl⟩, rfl⟩

/-- THE ROWS AT THE AFFECTED ADDRESSES are the same visible rows in the version read and in the latest version -/
theorem merge_rows {mv L : Manifest} {T : Txn} {A : List (Nat × Nat)} {N : List Nat}
    (hokmv : FragOk mv) (hokL : FragOk L)
    (hr : T.removed = removedOf A mv.frags) (hu : T.updated = updatedOf A mv.frags)
    (hAin : ∀ a ∈ A, ∃ x ∈ liveTagged mv.frags, x.1 = a)
    (himg : ∀ f ∈ mv.frags, f.id ∈ T.modified → ∃ g ∈ L.frags, Grown f g ∧ (f.id ∉ N → g = f))
    (hno : (Dof N L).any A.contains = false) :
    (rowsAt A L.frags).Perm (rowsAt A mv.frags) := by
  have hnd1 : (rowsAt A L.frags).Nodup := by
    unfold rowsAt liveTagged
    exact ((tagged_pairs_nodup hokL.1).sublist List.filter_sublist).sublist List.filter_sublist
  have hnd2 : (rowsAt A mv.frags).Nodup := by
    unfold rowsAt liveTagged
    exact ((tagged_pairs_nodup hokmv.1).sublist List.filter_sublist).sublist List.filter_sublist
  apply (List.perm_ext_iff_of_nodup hnd1 hnd2).mpr
  intro x
  unfold rowsAt liveTagged
  simp only [List.mem_filter]
  constructor
  · rintro ⟨⟨hxt, hxl⟩, hxa⟩
    obtain ⟨g, hg, hxg⟩ := mem_tagged.mp hxt
    have hxid := (tagRows_fst hxg).1
    have hxA : x.1 ∈ A := by simpa using hxa
    have ha : hasAddr A g.id = true := hasAddr_iff.mpr ⟨x.1, hxA, hxid⟩
    obtain ⟨f, hf, hfid, hfm⟩ := touched_modified hr hu hAin ha
    obtain ⟨g', hg', hgr, _⟩ := himg f hf hfm
    have hgg : g' = g := frag_eq_of_id hokL.1 hg' hg (hgr.1.trans hfid)
    subst hgg
    obtain ⟨hid, B, hrows⟩ := hgr
    rw [hrows, hid, tagRows_markAt] at hxg
    obtain ⟨y, hy, hyx⟩ := List.mem_map.mp hxg
    have hlive : liveT (markT B y) = true := by rw [hyx]; exact hxl
    have := markT_of_live hlive
    rw [this] at hyx
    subst hyx
    exact ⟨⟨mem_tagged.mpr ⟨f, hf, hy⟩, hxl⟩, hxa⟩
  · rintro ⟨⟨hyt, hyl⟩, hya⟩
    obtain ⟨f, hf, hyf⟩ := mem_tagged.mp hyt
    have hyid := (tagRows_fst hyf).1
    have hyA : x.1 ∈ A := by simpa using hya
    have haf : hasAddr A f.id = true := hasAddr_iff.mpr ⟨x.1, hyA, hyid⟩
    have hfm := modified_of_hasAddr hr hu hf haf
    obtain ⟨g, hg, hgr, heq⟩ := himg f hf hfm
    by_cases hiN : f.id ∈ N
    · obtain ⟨hid, B, hrows⟩ := hgr
      have hmem : markT B x ∈ tagRows g.id 0 g.rows := by
        rw [hrows, hid, tagRows_markAt]
        exact List.mem_map.mpr ⟨x, hyf, rfl⟩
      have hlive : liveT (markT B x) = true := by
        cases hl : liveT (markT B x) with
        | true => rfl
        | false =>
          exfalso
          -- the row would be deleted in the latest fragment and affected: refused by the merge
          have hdel : (markT B x).2.deleted = true := by simpa [liveT] using hl
          have hin : x.1 ∈ Dof N L := by
            unfold Dof
            apply List.mem_flatMap.mpr
            refine ⟨g, List.mem_filter.mpr ⟨hg, by rw [hid]; simpa using hiN⟩, ?_⟩
            exact mem_delAddrs.mpr ⟨markT B x, hmem, hdel, rfl⟩
          have : (Dof N L).any A.contains = true := List.any_eq_true.mpr ⟨x.1, hin, by simpa using hyA⟩
          rw [hno] at this
          cases this
      rw [markT_of_live hlive] at hmem
      exact ⟨⟨mem_tagged.mpr ⟨g, hg, hmem⟩, hyl⟩, hya⟩
    · have := heq hiN
      subst this
      exact ⟨⟨mem_tagged.mpr ⟨g, hg, hyf⟩, hyl⟩, hya⟩

theorem rebNew_haff (T : Txn) : (rebNew T).affected.isSome = true → (rebNew T).initial = T.modified := by
  unfold rebNew
  split
  · intro h; cases h
  · intro _; rfl

theorem rebNew_needs (T : Txn) : (rebNew T).needs = [] := by
  unfold rebNew
  split <;> rfl

theorem rebNew_initial (T : Txn) : ∀ i ∈ (rebNew T).initial, i ∈ T.modified := by
  unfold rebNew
  split
  · intro i hi; cases hi
  · intro i hi; exact hi

theorem rebNew_affected (T : Txn) {A : List (Nat × Nat)} (h : (rebNew T).affected = some A) : T.affected = some A := by
  unfold rebNew at h
  split at h
  · cases h
  · exact h

theorem footNeeds_sub (T : Txn) (init : List Nat) (o : Foot) : ∀ i ∈ footNeeds T init o, i ∈ init := by
  intro i hi
  unfold footNeeds at hi
  split at hi
  · split at hi
    · simpa using (List.mem_filter.mp hi).2
    · cases hi
  · split at hi
    · simpa using (List.mem_filter.mp hi).2
    · cases hi
  · cases hi

theorem mergeTxn_kind (T : Txn) (N : List Nat) (L : Manifest) (A : List (Nat × Nat)) :
    (mergeTxn T N L A).kind = T.kind ∧ (mergeTxn T N L A).moved = T.moved ∧ (mergeTxn T N L A).fresh = T.fresh ∧
      (mergeTxn T N L A).fileRows = T.fileRows := ⟨rfl, rfl, rfl, rfl⟩

/-- THE REBASE: a Delete / Update transaction planned on ANY version `mv` of the history that survives the conflict check
    and the merge is, on the latest manifest, a transaction with `CommitFacts` -/
theorem facts_rebased {h : Hist} {L : Manifest} {ms : List Manifest} (hms : h.ms = L :: ms) (hi : HInv h) {v : Nat}
    {mv : Manifest} (hfind : h.ms.find? (fun m => m.version == v) = some mv) {T T' : Txn} (hpf : PlanFacts mv T)
    (hk : T.kind ≠ .append) (hreb : rebase T (othersSince h v) L = .ok T') :
    CommitFacts L T' ∧ T'.kind = T.kind ∧ T'.fresh = T.fresh := by
  obtain ⟨hmvmem, hmvv⟩ := versions_find hi.ver hfind
  have hokmv := hi.frag mv hmvmem
  have hokL := hi.frag L (hms ▸ List.mem_cons_self ..)
  -- the two phases of the rebase
  have hsplit : ∃ R, checkAllDU T (rebNew T) (othersSince h v) = .ok R ∧ finishDU T R L = .ok T' := by
    unfold rebase at hreb
    cases hkk : T.kind <;> first | exact absurd hkk hk | skip
    all_goals
      simp only [hkk] at hreb
      cases hc : checkAllDU T (rebNew T) (othersSince h v) with
      | error c => rw [hc] at hreb; cases hreb
      | ok R => rw [hc] at hreb; exact ⟨R, rfl, hreb⟩
  obtain ⟨R, hcheck, hfin⟩ := hsplit
  obtain ⟨hall, hRaff, hRinit, hRneeds⟩ := checkAllDU_ok hcheck
  rw [rebNew_needs, List.nil_append] at hRneeds
  rcases hpf.eff with ⟨hkd, hu0, hm0, hf0, haff0⟩ | ⟨A, haffA, hr, hu, hAin, hkm⟩
  · -- `delete true`: whole fragments only, no affected rows, nothing to merge
    have hRnone : R.affected = none := by
      rw [hRaff]
      unfold rebNew
      rw [haff0]
      simp
    rcases finishDU_eq hfin with ⟨_, rfl⟩ | ⟨A, hA, _, _⟩
    · exact ⟨⟨hk, hpf.rows, Or.inl ⟨hkd, hu0, hm0, hf0⟩⟩, rfl, rfl⟩
    · rw [hRnone] at hA; cases hA
  · -- the walk
    have heta : h = { ms := h.ms, feet := h.feet } := by cases h; rfl
    have hothers : othersSince h v = (sinceN v h.ms h.feet).reverse := by
      rw [heta]; exact othersSince_eq h.ms h.feet hi.ver hi.len v
    have hallN : ∀ o ∈ sinceN v h.ms h.feet, footOK T (rebNew T).affected.isSome (rebNew T).initial o = true := by
      intro o ho
      apply hall
      rw [hothers]
      exact List.mem_reverse.mpr ho
    have hwalk := walk (T := T) (rebNew_haff T) v h.ms h.feet hi.lin hi.ver hi.len L ms hms mv hmvmem hmvv hallN
    have hmemN : ∀ i, i ∈ R.needs ↔ i ∈ (sinceN v h.ms h.feet).flatMap (footNeeds T (rebNew T).initial) := by
      intro i
      rw [hRneeds, hothers]
      simp only [List.mem_flatMap, List.mem_reverse]
    have himg : ∀ f ∈ mv.frags, f.id ∈ T.modified → ∃ g ∈ L.frags, Grown f g ∧ (f.id ∉ R.needs → g = f) := by
      intro f hf hfm
      obtain ⟨g, hg, hgr, heq⟩ := hwalk f hf hfm
      exact ⟨g, hg, hgr, fun hn => heq (fun hm => hn ((hmemN _).mpr hm))⟩
    have hN : ∀ i ∈ R.needs, i ∈ T.modified := by
      intro i hi
      obtain ⟨o, _, hio⟩ := List.mem_flatMap.mp ((hmemN i).mp hi)
      exact rebNew_initial T i (footNeeds_sub T _ o i hio)
    -- the merge
    have hmerge : T' = mergeTxn T R.needs L A ∧ (Dof R.needs L).any A.contains = false := by
      rcases finishDU_eq hfin with ⟨hn0, rfl⟩ | ⟨A', hA', hT', hno⟩
      · rw [hn0, mergeTxn_nil]
        exact ⟨rfl, by simp [Dof]⟩
      · have : T.affected = some A' := rebNew_affected T (hRaff ▸ hA')
        rw [haffA] at this
        cases this
        exact ⟨hT', hno⟩
    obtain ⟨hT', hno⟩ := hmerge
    subst hT'
    have harm := merge_arm hokmv hokL hr hu hAin hN himg hno
    have hrows := merge_rows hokmv hokL hr hu hAin himg hno
    refine ⟨⟨hk, hpf.rows, Or.inr ⟨A, harm, ?_⟩⟩, rfl, rfl⟩
    rcases hkm with ⟨hd, hm0, hf0⟩ | ⟨hup, hperm⟩
    · exact Or.inl ⟨hd, hm0, hf0⟩
    · exact Or.inr ⟨hup, hperm.trans ((hrows.map fun x => kr x.2).symm)⟩

end LanceModel.C18
