import LanceModel.C18.AddrLemmas
/-
C18 lemmas, layer 3: what a Delete / Update commit does to the visible rows, given that the arm extends the deletion
vectors of the LATEST fragments at the addresses `A` (`moveFrags A`) and the new rows carry the ids captured at `A`.
-/
namespace LanceModel.C18
open LanceModel.Table LanceModel.C17Base List

/-- (key, row id) of a row -/
def kr (r : PRow) : Cell × Nat := (keyOf r.cells, r.rid)

def krs (l : List PRow) : List (Cell × Nat) := l.map kr

theorem krs_snd (l : List PRow) : (krs l).map (·.2) = rids l := by
  simp [krs, kr, rids, List.map_map, Function.comp_def]

/-- the visible rows at the addresses `A` -/
def rowsAt (A : List (Nat × Nat)) (frags : List Frag) : List TRow := (liveTagged frags).filter fun x => A.contains x.1

theorem liveOf_moveFrags (A : List (Nat × Nat)) (frags : List Frag) :
    liveOf (moveFrags A frags) = ((liveTagged frags).filter fun x => !A.contains x.1).map (·.2) := by
  rw [liveOf_eq, liveTagged_moveFrags]

/-- the visible rows split into the kept ones and the ones at `A` -/
theorem live_split (A : List (Nat × Nat)) (frags : List Frag) :
    (liveOf (moveFrags A frags) ++ (rowsAt A frags).map (·.2)).Perm (liveOf frags) := by
  rw [liveOf_moveFrags, liveOf_eq, ← List.map_append]
  apply List.Perm.map
  unfold rowsAt
  exact List.perm_append_comm.trans (List.filter_append_perm (fun x => A.contains x.1) (liveTagged frags))

theorem liveOf_moveFrags_sublist (A : List (Nat × Nat)) (frags : List Frag) :
    (liveOf (moveFrags A frags)).Sublist (liveOf frags) := by
  rw [liveOf_moveFrags, liveOf_eq]
  exact (List.filter_sublist).map _

/-- the rows of the Update arm's new fragments -/
theorem newRows_live (L : Manifest) (T : Txn) : ((newRows L T).filter fun r => !r.deleted) = newRows L T := by
  unfold newRows
  rw [List.filter_append, insertedRowsOf_live]
  congr 1
  apply List.filter_eq_self.mpr
  intro a ha
  obtain ⟨_, _, rfl⟩ := List.mem_map.mp ha
  rfl

theorem rids_moved (L : Manifest) (moved : List (Nat × Row)) :
    rids (moved.map fun x => movedRow L.frags (L.version + 1) x.1 x.2) = moved.map (·.1) := by
  simp [rids, movedRow, List.map_map, Function.comp_def]

theorem krs_moved (L : Manifest) (moved : List (Nat × Row)) :
    krs (moved.map fun x => movedRow L.frags (L.version + 1) x.1 x.2) = moved.map fun x => (keyOf x.2, x.1) := by
  simp [krs, kr, movedRow, List.map_map, Function.comp_def]

/-- ROW IDS after a Delete / Update commit: if the captured ids are the ids of the visible rows at `A` (or nothing is
    moved), no id occurs twice and all are below the new `next_row_id` -/
theorem move_ids (L : Manifest) (T : Txn) (A : List (Nat × Nat))
    (hb : ∀ r ∈ live L, r.rid < L.nextRowId) (hn : (rids (live L)).Nodup)
    (hm : T.moved = [] ∨ (T.moved.map (·.1)).Perm ((rowsAt A L.frags).map (·.2.rid))) :
    (rids (liveOf (moveFrags A L.frags) ++ newRows L T)).Nodup ∧
      ∀ r ∈ liveOf (moveFrags A L.frags) ++ newRows L T, r.rid < L.nextRowId + T.fresh.length := by
  have hsplit := live_split A L.frags
  have hsr : (rids (liveOf (moveFrags A L.frags)) ++ (rowsAt A L.frags).map (·.2.rid)).Perm (rids (live L)) := by
    have := hsplit.map (·.rid)
    simpa [rids, live, List.map_map, Function.comp_def] using this
  have hnd : (rids (liveOf (moveFrags A L.frags)) ++ (rowsAt A L.frags).map (·.2.rid)).Nodup := hsr.nodup_iff.mpr hn
  have hkm : (rids (liveOf (moveFrags A L.frags)) ++ T.moved.map (·.1)).Nodup := by
    rcases hm with h0 | hp
    · rw [h0]
      simpa using (List.nodup_append.mp hnd).1
    · exact (List.Perm.append_left _ hp).nodup_iff.mpr hnd
  have hlt : ∀ x ∈ rids (liveOf (moveFrags A L.frags)) ++ T.moved.map (·.1), x < L.nextRowId := by
    intro x hx
    have hx' : x ∈ rids (live L) := by
      rcases List.mem_append.mp hx with h | h
      · exact hsr.subset (List.mem_append_left _ h)
      · rcases hm with h0 | hp
        · rw [h0] at h; cases h
        · exact hsr.subset (List.mem_append_right _ (hp.subset h))
    obtain ⟨r, hr, rfl⟩ := List.mem_map.mp hx'
    exact hb r hr
  have hall : rids (liveOf (moveFrags A L.frags) ++ newRows L T) =
      (rids (liveOf (moveFrags A L.frags)) ++ T.moved.map (·.1)) ++
        rids (insertedRowsOf L.frags (L.version + 1) L.nextRowId L.k T.fresh) := by
    unfold newRows
    simp only [rids, List.map_append, List.append_assoc]
    congr 2
    simp [movedRow, List.map_map, Function.comp_def]
  constructor
  · rw [hall]
    refine nodup_append_fresh hkm hlt (rids_insertedRowsOf _ _ _ _ _) ?_
    intro x hx
    obtain ⟨r, hr, rfl⟩ := List.mem_map.mp hx
    exact (mem_insertedRowsOf hr).1
  · intro r hr
    have : r.rid ∈ rids (liveOf (moveFrags A L.frags) ++ newRows L T) := List.mem_map.mpr ⟨r, hr, rfl⟩
    rw [hall] at this
    rcases List.mem_append.mp this with h | h
    · have := hlt _ h; omega
    · obtain ⟨r2, hr2, he⟩ := List.mem_map.mp h
      have := (mem_insertedRowsOf hr2).2.1
      omega

/-- (KEY, ROW ID) after an Update commit whose moved rows are the visible rows at `A` with their keys and ids: the
    association of the previous version plus the inserted rows -/
theorem move_pairs (L : Manifest) (T : Txn) (A : List (Nat × Nat))
    (hm : (T.moved.map fun x => (keyOf x.2, x.1)).Perm ((rowsAt A L.frags).map fun x => kr x.2)) :
    (krs (liveOf (moveFrags A L.frags) ++ newRows L T)).Perm
      (krs (live L) ++ krs (insertedRowsOf L.frags (L.version + 1) L.nextRowId L.k T.fresh)) := by
  have hsplit := (live_split A L.frags).map kr
  unfold newRows
  simp only [krs, List.map_append, List.map_map] at hsplit ⊢
  rw [← List.append_assoc]
  apply List.Perm.append_right
  refine List.Perm.trans ?_ hsplit
  apply List.Perm.append_left
  have := krs_moved L T.moved
  simp only [krs, List.map_map] at this
  rw [this]
  simpa [Function.comp_def] using hm

end LanceModel.C18
