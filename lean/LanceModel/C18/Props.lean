import LanceModel.C18.AssignLemmas
import LanceModel.C18.StableLemmas
import LanceModel.C18.LookupLemmas
/-
C18 — stable row ids are stable and resolvable.

  "With stable row ids enabled, a row keeps its row id through updates, merge_insert updates and compaction, no two
   visible rows share a row id, and looking a live row id up always returns that row's current values."
   Quantifier: histories with stable row ids including concurrent writers and restores, checked after every step.

A history is any list of calls (`run`): create / append / overwrite / delete / update / merge_insert upsert (full and partial
source schema) / compaction / restore, each through a fresh handle or (append, delete, update, full-schema upsert) through a
handle that has read ANY earlier version — such a commit is rebased over everything committed since (`rebase`) and built on
the latest manifest (`buildOn`), which is how concurrent writers are serialised by `commit_transaction`.

The sequential table model, its invariant (`Inv`: ids below `next_row_id` in all versions, no id twice in a version) and the
facts about compaction are C17's (`LanceModel.C17`, imported, not re-proved); restore as a table operation is C07's
(`restore_rows`); the row id index is C34's (`index_faithful`, used as it is in `lookup_current`).
-/
namespace LanceModel.C18
open LanceModel.Table LanceModel.C17 List

/-! ## 1. `Transaction::assign_row_ids` -/

/-- **assign_row_ids_spec.**  `assign_row_ids` fails exactly when some fragment carries more ids than physical rows; otherwise
every fragment keeps the ids it has and gets the missing ones appended, the fresh ids of the whole call are — in fragment
order — the consecutive range starting at `next_row_id`, and `next_row_id` advances by their number. -/
theorem assign_row_ids_spec (next : Nat) (frags : List RawFrag) :
    (assignRowIds next frags = none ↔ ∃ f ∈ frags, f.excess = true) ∧
    ((∀ f ∈ frags, f.excess = false) →
      assignRowIds next frags =
        some (next + totalMissing frags, List.zipWith (fun (f : RawFrag) fr => f.have ++ fr) frags (freshOf next frags)) ∧
      (freshOf next frags).flatten = List.range' next (totalMissing frags) ∧
      (freshOf next frags).length = frags.length) :=
  ⟨assignRowIds_none next frags,
   fun h => ⟨assignRowIds_some next frags h, freshOf_flatten next frags, freshOf_length next frags⟩⟩

example : assignRowIds 100 [⟨3, none⟩, ⟨4, some [7, 9]⟩, ⟨2, some []⟩, ⟨2, some [1, 2]⟩] =
    some (107, [[100, 101, 102], [7, 9, 103, 104], [105, 106], [1, 2]]) := by decide
example : assignRowIds 100 [⟨3, none⟩, ⟨1, some [7, 9]⟩] = none := by decide
example : totalMissing [⟨3, none⟩, ⟨4, some [7, 9]⟩, ⟨2, some []⟩, ⟨2, some [1, 2]⟩] = 7 := by decide

/-- the new fragments of the model's Update arm are numbered by `assign_row_ids`: captured ids first, the rest from the
LATEST `next_row_id` -/
theorem assign_models_update (L : Manifest) (T : Txn) :
    assignRowIds L.nextRowId [⟨(newRows L T).length, some (T.moved.map (·.1))⟩] =
      some (L.nextRowId + T.fresh.length, [rids (newRows L T)]) := by
  have hlen := newRows_length L T
  have hex : (⟨(newRows L T).length, some (T.moved.map (·.1))⟩ : RawFrag).excess = false := by
    simp [RawFrag.excess, RawFrag.have, hlen]
  rw [assignRowIds_some _ _ (by intro f hf; rw [List.mem_singleton.mp hf]; exact hex)]
  have hmiss : (⟨(newRows L T).length, some (T.moved.map (·.1))⟩ : RawFrag).missing = T.fresh.length := by
    simp [RawFrag.missing, RawFrag.have, hlen]
  simp only [totalMissing, freshOf, hmiss, Nat.add_zero, List.zipWith_cons_cons, List.zipWith_nil_right, RawFrag.have,
    rids, rids_newRows]

/-! ## 2. no two visible rows share a row id; `next_row_id` exceeds every id ever assigned -/

/-- the full statement: in every version of every history no id occurs twice among the visible rows, and every id
    visible in any version — i.e. every id ever assigned — is below the latest `next_row_id` -/
def ids_unique_full : Prop :=
  ∀ cs : List Call,
    (∀ m ∈ (run cs).ms, (rids (live m)).Nodup) ∧
    (∀ L ms, (run cs).ms = L :: ms → ∀ m ∈ (run cs).ms, ∀ r ∈ live m, r.rid < L.nextRowId)

def calmFrom (h : Hist) : List Call → Bool
  | [] => true
  | c :: cs => calm h c && calmFrom (stepCall h c).1 cs

theorem hinv_runFrom (h : Hist) (cs : List Call) (hi : HInv h) (hc : calmFrom h cs = true) : HInv (runFrom h cs) := by
  induction cs generalizing h with
  | nil => exact hi
  | cons c cs ih =>
    simp only [calmFrom, Bool.and_eq_true] at hc
    exact ih _ (hinv_step h c hi hc.1) hc.2

/-- **ids_unique**, for the histories covered so far -/
theorem ids_unique_calm (cs : List Call) (hc : calmFrom Hist.empty cs = true) :
    (∀ m ∈ (run cs).ms, (rids (live m)).Nodup) ∧
    (∀ L ms, (run cs).ms = L :: ms → ∀ m ∈ (run cs).ms, ∀ r ∈ live m, r.rid < L.nextRowId) := by
  have hi := (hinv_runFrom Hist.empty cs hinv_empty hc).inv
  unfold run
  generalize (runFrom Hist.empty cs).ms = ms at hi
  cases ms with
  | nil => exact ⟨(by intro m hm; cases hm), (by intro L ms h; cases h)⟩
  | cons L ms =>
    obtain ⟨_, hb, hn⟩ := hi
    refine ⟨hn, ?_⟩
    intro L' ms' he
    cases he
    exact hb

end LanceModel.C18
