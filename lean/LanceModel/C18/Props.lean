import LanceModel.C18.AssignLemmas
import LanceModel.C18.StableLemmas
import LanceModel.C18.LookupLemmas
/-
C18 — stable row ids are stable and resolvable.

  "With stable row ids enabled, a row keeps its row id through updates, merge_insert updates and compaction, no two
   visible rows share a row id, and looking a live row id up always returns that row's current values."
   Quantifier: histories with stable row ids including concurrent writers and restores, checked after every step.

A history is any list of calls (`run`): create / append / overwrite / delete / update / merge_insert upsert (full and partial
source schema) / compaction / restore, each through a fresh handle or (append, delete, update, full-schema upsert) through a
handle that has read ANY earlier version — such a commit is rebased over everything committed since (`rebase`) and built on
the latest manifest (`buildOn`), which is how concurrent writers are serialised by `commit_transaction`.

The sequential table model, its invariant (`Inv`: ids below `next_row_id` in all versions, no id twice in a version) and the
facts about compaction are C17's (`LanceModel.C17`, imported, not re-proved); restore as a table operation is C07's
(`restore_rows`); the row id index is C34's (`index_faithful`, used as it is in `lookup_current`).
-/
namespace LanceModel.C18
open LanceModel.Table LanceModel.C17Base List

/-! ## 1. `Transaction::assign_row_ids` -/

/-- **assign_row_ids_spec.**  `assign_row_ids` fails exactly when some fragment carries more ids than physical rows; otherwise
every fragment keeps the ids it has and gets the missing ones appended, the fresh ids of the whole call are — in fragment
order — the consecutive range starting at `next_row_id`, and `next_row_id` advances by their number. -/
theorem assign_row_ids_spec (next : Nat) (frags : List RawFrag) :
    (assignRowIds next frags = none ↔ ∃ f ∈ frags, f.excess = true) ∧
    ((∀ f ∈ frags, f.excess = false) →
      assignRowIds next frags =
        some (next + totalMissing frags, List.zipWith (fun (f : RawFrag) fr => f.have ++ fr) frags (freshOf next frags)) ∧
      (freshOf next frags).flatten = List.range' next (totalMissing frags) ∧
      (freshOf next frags).length = frags.length) :=
  ⟨assignRowIds_none next frags,
   fun h => ⟨assignRowIds_some next frags h, freshOf_flatten next frags, freshOf_length next frags⟩⟩

example : assignRowIds 100 [⟨3, none⟩, ⟨4, some [7, 9]⟩, ⟨2, some []⟩, ⟨2, some [1, 2]⟩] =
    some (107, [[100, 101, 102], [7, 9, 103, 104], [105, 106], [1, 2]]) := by decide
example : assignRowIds 100 [⟨3, none⟩, ⟨1, some [7, 9]⟩] = none := by decide
example : totalMissing [⟨3, none⟩, ⟨4, some [7, 9]⟩, ⟨2, some []⟩, ⟨2, some [1, 2]⟩] = 7 := by decide

/-- the new fragments of the model's Update arm are numbered by `assign_row_ids`: captured ids first, the rest from the
LATEST `next_row_id` -/
theorem assign_models_update (L : Manifest) (T : Txn) :
    assignRowIds L.nextRowId [⟨(newRows L T).length, some (T.moved.map (·.1))⟩] =
      some (L.nextRowId + T.fresh.length, [rids (newRows L T)]) := by
  have hlen := newRows_length L T
  have hex : (⟨(newRows L T).length, some (T.moved.map (·.1))⟩ : RawFrag).excess = false := by
    simp [RawFrag.excess, RawFrag.have, hlen]
  rw [assignRowIds_some _ _ (by intro f hf; rw [List.mem_singleton.mp hf]; exact hex)]
  have hmiss : (⟨(newRows L T).length, some (T.moved.map (·.1))⟩ : RawFrag).missing = T.fresh.length := by
    simp [RawFrag.missing, RawFrag.have, hlen]
  simp only [totalMissing, freshOf, hmiss, Nat.add_zero, List.zipWith_cons_cons, List.zipWith_nil_right, RawFrag.have,
    rids, rids_newRows]

/-! ## 2. no two visible rows share a row id; `next_row_id` exceeds every id ever assigned -/

/-- the full statement: in every version of every history no id occurs twice among the visible rows, and every id
    visible in any version — i.e. every id ever assigned — is below the latest `next_row_id` -/
def ids_unique_full : Prop :=
  ∀ cs : List Call,
    (∀ m ∈ (run cs).ms, (rids (live m)).Nodup) ∧
    (∀ L ms, (run cs).ms = L :: ms → ∀ m ∈ (run cs).ms, ∀ r ∈ live m, r.rid < L.nextRowId)

/-- **ids_unique.**  For EVERY history — any interleaving of create / append / overwrite / delete / update / merge_insert /
compaction / restore through fresh handles and of append / delete / update / merge_insert through handles on arbitrary
earlier versions (concurrent writers, committed in any order) — no two visible rows of any version share a row id, and
`next_row_id` of the latest version exceeds every id ever assigned. -/
theorem ids_unique : ids_unique_full := by
  intro cs
  have hi := (hinv_run cs).inv
  generalize (run cs).ms = ms at hi
  cases ms with
  | nil => exact ⟨(by intro m hm; cases hm), (by intro L ms h; cases h)⟩
  | cons L ms =>
    obtain ⟨_, hb, hn⟩ := hi
    refine ⟨hn, ?_⟩
    intro L' ms' he
    cases he
    exact hb

/-- concurrent appends: two writers that have read the same version `v` of any history and append `a`, then `b` rows — both
commit (when neither is refused), the second is rebased, and the id ranges they are given are consecutive and disjoint:
`next_row_id` is re-read from the manifest the first one published -/
theorem concurrent_appends_disjoint (cs : List Call) (v fa fb : Nat) (a b : List Row) (L : Manifest) (ms : List Manifest)
    (hL : (run cs).ms = L :: ms) (h1 h2 : Hist)
    (hs1 : stepCall (run cs) ⟨some v, .base (.append fa a)⟩ = (h1, .ok))
    (hs2 : stepCall h1 ⟨some v, .base (.append fb b)⟩ = (h2, .ok)) :
    ∃ L1 L2 rest, h2.ms = L2 :: L1 :: rest ∧ L1.nextRowId = L.nextRowId + a.length ∧
      L2.nextRowId = L.nextRowId + a.length + b.length ∧
      (live L2).Perm (live L ++ numberRows (L.version + 1) L.nextRowId a ++
        numberRows (L.version + 2) (L.nextRowId + a.length) b) := by
  have hi := hinv_run cs
  have appendOnly : ∀ (h : Hist) (f : Nat) (rows : List Row) (L0 : Manifest) (T' : Txn),
      ((∃ f' rows', Op.append f rows = .append f' rows' ∧ f' ≠ 0 ∧ T' = planAppend f' rows') ∨
        (CommitFacts L0 T' ∧ ∃ mv T, mv ∈ h.ms ∧ planOf (.append f rows) mv = some T ∧ T.kind ≠ .append ∧
          T'.kind = T.kind ∧ T'.fresh = T.fresh)) → f ≠ 0 ∧ T' = planAppend f rows := by
    intro h f rows L0 T' hc
    rcases hc with ⟨f', rows', he, hf', hT⟩ | ⟨_, mv, T, _, hp, hk, _⟩
    · cases he
      exact ⟨hf', hT⟩
    · simp only [planOf, Option.some.injEq] at hp
      subst hp
      exact absurd rfl hk
  have livePush : ∀ (M : Manifest) (f : Nat) (rows : List Row), f ≠ 0 →
      (live (buildOn M (planAppend f rows))).Perm (live M ++ numberRows (M.version + 1) M.nextRowId rows) := by
    intro M f rows hf
    unfold buildOn planAppend
    simp only
    refine (live_nextManifest _ _ _).trans ?_
    rw [liveOf_append, live_writtenFrags _ _ _ _ hf]
    exact List.Perm.refl _
  simp only [stepCall] at hs1 hs2
  -- first commit
  rcases commitStale_spec (run cs) v (.append fa a) hi with ⟨_, hne⟩ | ⟨La, msa, Ta, hmsa, heqa, hca⟩
  · rw [hs1] at hne; exact absurd rfl hne
  rw [hL] at hmsa
  cases hmsa
  obtain ⟨hfa, rfl⟩ := appendOnly _ _ _ _ _ hca
  rw [heqa] at hs1
  cases hs1
  have hi1 := hinv_commitStale (run cs) v (.append fa a) hi
  rw [heqa] at hi1
  -- second commit
  rcases commitStale_spec _ v (.append fb b) hi1 with ⟨_, hne⟩ | ⟨Lb, msb, Tb, hmsb, heqb, hcb⟩
  · rw [hs2] at hne; exact absurd rfl hne
  simp only at hmsb
  cases hmsb
  obtain ⟨hfb, rfl⟩ := appendOnly _ _ _ _ _ hcb
  rw [heqb] at hs2
  cases hs2
  refine ⟨_, _, _, by rw [hL], ?_, ?_, ?_⟩
  · simp [buildOn, planAppend, nextManifest]
  · simp [buildOn, planAppend, nextManifest]
  · refine (livePush _ fb b hfb).trans ?_
    have hv : (buildOn L (planAppend fa a)).version + 1 = L.version + 2 := by simp [buildOn, planAppend, nextManifest]
    have hn : (buildOn L (planAppend fa a)).nextRowId = L.nextRowId + a.length := by
      simp [buildOn, planAppend, nextManifest]
    rw [hv, hn]
    exact List.Perm.append_right _ (livePush L fa a hfa)

/-! ## 3. a row keeps its row id through updates, merge_insert updates and compaction -/

/-- the operations that are to keep every row -/
def keeps : Op → Bool
  | .update _ _ => true
  | .upsert _ => true
  | .compact _ _ => true
  | _ => false

/-- **ids_stable.**  After any history, an update, a merge_insert (full or partial source schema) or a compaction — through a
fresh handle or, for update / merge_insert, through a handle on any earlier version, i.e. concurrently with whatever was
committed since — that succeeds publishes a version whose (key, row id) association is the previous latest one, as a
multiset, plus pairs with brand-new ids (the rows a merge_insert inserts): no row changes its id, none is lost, no id moves
to another key. -/
theorem ids_stable (cs : List Call) (c : Call) (op : Op) (hop : c.op = .base op) (hk : keeps op = true)
    (L : Manifest) (ms : List Manifest) (hL : (run cs).ms = L :: ms) (hok : (stepCall (run cs) c).2 = .ok) :
    ∃ L' ms' F, (stepCall (run cs) c).1.ms = L' :: ms' ∧ (pairs L').Perm (pairs L ++ F) ∧ ∀ p ∈ F, L.nextRowId ≤ p.2 := by
  have hi := hinv_run cs
  have viaC : ∀ v, (commitStale (run cs) v op).2 = .ok →
      ∃ L' ms' F, (commitStale (run cs) v op).1.ms = L' :: ms' ∧ (pairs L').Perm (pairs L ++ F) ∧
        ∀ p ∈ F, L.nextRowId ≤ p.2 := by
    intro v hok
    rcases commitStale_spec (run cs) v op hi with ⟨_, hne⟩ | ⟨L0, ms0, T', hms0, heq, hcase⟩
    · exact absurd hok hne
    · rw [hL] at hms0
      cases hms0
      rw [heq]
      rcases hcase with ⟨f, rows, hopa, _, _⟩ | ⟨hfacts, mv, T, _, hp, _, hkk, _⟩
      · subst hopa; cases hk
      · have hku : T'.kind = .update := by
          rw [hkk]
          cases op with
          | update p y => simp only [planOf, Option.some.injEq] at hp; subst hp; rfl
          | upsert rows =>
            simp only [planOf] at hp
            split at hp
            · simp only [Option.some.injEq] at hp; subst hp; rfl
            · cases hp
          | compact t mat => simp [planOf] at hp
          | _ => cases hk
        exact ⟨_, _, _, rfl, commit_pairs hfacts hku, krs_inserted_fresh _ _ _ _ _⟩
  unfold stepCall at hok ⊢
  rw [hop] at hok ⊢
  generalize c.rv = rv at hok ⊢
  cases rv with
  | some v => exact viaC v hok
  | none =>
    simp only at hok ⊢
    by_cases hvc : viaCommit (run cs) op = true
    · rw [if_pos hvc] at hok ⊢
      exact viaC _ hok
    · rw [if_neg hvc] at hok ⊢
      have hvc' : viaCommit (run cs) op = false := by simpa using hvc
      unfold seqStep
      rw [hL]
      simp only
      have hokL := hi.frag L (hL ▸ List.mem_cons_self ..)
      apply seq_pairs L ms op hokL
      cases op with
      | compact t mat => exact Or.inl ⟨t, mat, rfl⟩
      | upsert rows =>
        right
        refine ⟨rows, rfl, ?_⟩
        intro hw
        simp [viaCommit, hL, hw] at hvc'
      | update p y => simp [viaCommit, hL] at hvc'
      | _ => cases hk

/-- the same in the words of the property: if keys identify rows in the new version, the row with a given key has the row id
it had before -/
theorem ids_stable_key (cs : List Call) (c : Call) (op : Op) (hop : c.op = .base op) (hk : keeps op = true)
    (L : Manifest) (ms : List Manifest) (hL : (run cs).ms = L :: ms) (hok : (stepCall (run cs) c).2 = .ok) :
    ∃ L' ms', (stepCall (run cs) c).1.ms = L' :: ms' ∧
      (((pairs L').map (·.1)).Nodup → ∀ r ∈ live L, ∀ r' ∈ live L', keyOf r'.cells = keyOf r.cells → r'.rid = r.rid) := by
  obtain ⟨L', ms', F, hms', hperm, _⟩ := ids_stable cs c op hop hk L ms hL hok
  refine ⟨L', ms', hms', ?_⟩
  intro hnd r hr r' hr' hkey
  have h1 : (keyOf r.cells, r.rid) ∈ pairs L' :=
    hperm.mem_iff.mpr (List.mem_append_left _ (List.mem_map.mpr ⟨r, hr, rfl⟩))
  have h2 : (keyOf r'.cells, r'.rid) ∈ pairs L' := List.mem_map.mpr ⟨r', hr', rfl⟩
  have := inj_of_nodup_map (fun p : Cell × Nat => p.1) hnd h2 h1 hkey
  exact congrArg Prod.snd this

/-! ## 4. looking a live row id up returns that row's current values -/

/-- **lookup_current.**  In every version `m` of every history, the row id index built from the version's fragment layout
(`RowIdIndex::new` over fragment id, row id sequence — in whatever segment encodings `enc` the writers chose — and deletion
vector; C34 `index_faithful`) resolves the id of every visible row to the address at which the scan reports that row, the row
stored at that address is that row with its current values, and every other id — deleted, overwritten, never assigned —
resolves to nothing.  Size hypotheses: ids fit `u64`, fragment ids and offsets fit `u32`. -/
theorem lookup_current (cs : List Call) (L : Manifest) (ms : List Manifest) (hL : (run cs).ms = L :: ms)
    (m : Manifest) (hm : m ∈ (run cs).ms) (hnext : L.nextRowId ≤ C34.U64MAX)
    (hs : ∀ f ∈ m.frags, f.id < 4294967296 ∧ f.rows.length ≤ 4294967296)
    (enc : List Nat → C34.Seq)
    (henc : ∀ f ∈ m.frags, C34.Seq.WF (enc (f.rows.map (·.rid))) ∧
      C34.Seq.toList (enc (f.rows.map (·.rid))) = f.rows.map (·.rid)) :
    ∃ ix, C34.indexNew (layout enc m) = some ix ∧
      (∀ x ∈ liveTagged m.frags, C34.indexGet ix x.2.rid = some (addrOf x.1) ∧ rowAt m (addrOf x.1) = some x.2) ∧
      (∀ id, id ∉ rids (live m) → C34.indexGet ix id = none) := by
  have hi := hinv_run cs
  have hokm := hi.frag m hm
  have hinv := hi.inv
  rw [hL] at hinv hm
  obtain ⟨_, hb, hn⟩ := hinv
  have hlp := livePairs_layout enc m (fun f hf => (henc f hf).2)
  have hfst : (C34.livePairs (layout enc m)).map Prod.fst = rids (live m) := by
    rw [hlp, live, liveOf_eq]
    simp [rids, List.map_map, Function.comp_def]
  obtain ⟨ix, hix, hget, hnone⟩ := C34.index_faithful (layout enc m)
    (by
      intro f hf
      obtain ⟨g, hg, rfl⟩ := List.mem_map.mp hf
      exact (henc g hg).1)
    (by rw [hfst]; exact hn m hm)
    (by
      rw [hlp, List.map_map]
      have hnd : (liveTagged m.frags).Nodup := (tagged_pairs_nodup hokm.1).sublist List.filter_sublist
      have hinj : ∀ x ∈ liveTagged m.frags, ∀ y ∈ liveTagged m.frags,
          (Prod.snd ∘ fun x : TRow => (x.2.rid, addrOf x.1)) x = (Prod.snd ∘ fun x : TRow => (x.2.rid, addrOf x.1)) y → x = y := by
        intro x hx y hy he
        have hx' := (List.mem_filter.mp hx).1
        have hy' := (List.mem_filter.mp hy).1
        exact tagged_inj hokm.1 hx' hy' (addrOf_inj hs hx' hy' he)
      generalize liveTagged m.frags = l at hnd hinj
      induction l with
      | nil => simp
      | cons a t ih =>
        simp only [List.map_cons, List.nodup_cons] at hnd ⊢
        refine ⟨?_, ih hnd.2 (fun x hx y hy => hinj x (List.mem_cons_of_mem _ hx) y (List.mem_cons_of_mem _ hy))⟩
        intro hmem
        obtain ⟨y, hy, he⟩ := List.mem_map.mp hmem
        have := hinj y (List.mem_cons_of_mem _ hy) a (List.mem_cons_self ..) he
        subst this
        exact hnd.1 hy)
    (by
      intro p hp
      rw [hlp] at hp
      obtain ⟨x, hx, rfl⟩ := List.mem_map.mp hp
      have hx' := (List.mem_filter.mp hx).1
      obtain ⟨f, hf, hxf⟩ := mem_tagged.mp hx'
      have a1 := tagRows_fst hxf
      have b1 := hs f hf
      have hrid : x.2.rid < L.nextRowId := by
        apply hb m hm
        rw [live, liveOf_eq]
        exact List.mem_map.mpr ⟨x, hx, rfl⟩
      refine ⟨by simp only; omega, ?_⟩
      simp only [addrOf, C34.U64MAX]
      rw [a1.1]
      omega)
  refine ⟨ix, hix, ?_, ?_⟩
  · intro x hx
    refine ⟨hget x.2.rid (addrOf x.1) (by rw [hlp]; exact List.mem_map.mpr ⟨x, hx, rfl⟩), ?_⟩
    exact rowAt_tagged hokm hs (List.mem_filter.mp hx).1
  · intro id hid
    apply hnone
    rw [hfst]
    exact hid

/-! ## non-vacuity -/

/-- a history with concurrent writers: two updates and an append through handles on version 1 (the second update is rebased
over the first: the deletion vectors of fragment 0 are merged, which empties and removes it), a merge_insert through a
handle on version 2, a stale update that is refused, a compaction, a restore and a delete through a handle on version 8 -/
def exampleHistory : List Call :=
  [⟨none, .base (.create 2 2 [[some 1, some 10], [some 2, some 20], [some 3, some 30]])⟩,
   ⟨some 1, .base (.update (.isIn [2]) 7)⟩,
   ⟨some 1, .base (.update (.isIn [1]) 8)⟩,
   ⟨some 1, .base (.append 5 [[some 4, some 40]])⟩,
   ⟨some 2, .base (.upsert [[some 3, some 33], [some 9, some 90]])⟩,
   ⟨some 1, .base (.update (.isIn [2]) 9)⟩,
   ⟨none, .base (.compact 10 true)⟩,
   ⟨none, .restore 2⟩,
   ⟨some 8, .base (.delete (.isIn [3]))⟩]

set_option maxRecDepth 8000 in
example : ((run exampleHistory).ms.map fun m => (m.version, m.nextRowId, pairs m)) =
    [(9, 5, [(some 1, 0), (some 2, 1)]),
     (8, 5, [(some 1, 0), (some 3, 2), (some 2, 1)]),
     (7, 5, [(some 2, 1), (some 1, 0), (some 4, 3), (some 3, 2), (some 9, 4)]),
     (6, 5, [(some 2, 1), (some 1, 0), (some 4, 3), (some 3, 2), (some 9, 4)]),
     (5, 5, [(some 2, 1), (some 1, 0), (some 4, 3), (some 3, 2), (some 9, 4)]),
     (4, 4, [(some 3, 2), (some 2, 1), (some 1, 0), (some 4, 3)]),
     (3, 3, [(some 3, 2), (some 2, 1), (some 1, 0)]),
     (2, 3, [(some 1, 0), (some 3, 2), (some 2, 1)]),
     (1, 3, [(some 1, 0), (some 2, 1), (some 3, 2)])] := by decide

-- the rebased second update merged the deletion vectors of fragment 0 and removed it; the stale update of the same row is
-- refused
set_option maxRecDepth 8000 in
example : ((run (exampleHistory.take 3)).feet.head?.map fun f => (f.upd, f.rem)) = some ([0], [0]) ∧
    (stepCall (run (exampleHistory.take 5)) ⟨some 1, .base (.update (.isIn [2]) 9)⟩).2 = .err "conflict_retryable" := by
  decide

-- hypotheses of `ids_stable` / `ids_stable_key` on the example: the merge_insert through the handle on version 2 succeeds
set_option maxRecDepth 8000 in
example : (stepCall (run (exampleHistory.take 4)) ⟨some 2, .base (.upsert [[some 3, some 33], [some 9, some 90]])⟩).2 = .ok ∧
    keeps (.upsert [[some 3, some 33], [some 9, some 90]]) = true := by decide

/-- an encoding satisfying the hypothesis of `lookup_current` for every fragment: one `Array` segment -/
def encArray (l : List Nat) : C34.Seq := if l = [] then [] else [C34.Seg.array l]

theorem encArray_ok (l : List Nat) : C34.Seq.WF (encArray l) ∧ C34.Seq.toList (encArray l) = l := by
  unfold encArray
  by_cases h : l = []
  · subst h
    exact ⟨(by intro s hs; cases hs), rfl⟩
  · rw [if_neg h]
    refine ⟨?_, by simp [C34.Seq.toList, C34.Seg.toList]⟩
    intro s hs
    rw [List.mem_singleton.mp hs]
    exact h

-- the index of the example's latest version: live ids resolve, the deleted id 2 and the never-visible id 7 do not
set_option maxRecDepth 8000 in
example : ((run exampleHistory).ms.head?.bind fun m => (C34.indexNew (layout encArray m)).map fun ix =>
    [C34.indexGet ix 0, C34.indexGet ix 1, C34.indexGet ix 2, C34.indexGet ix 7]) =
    some [some 0, some 8589934592, none, none] := by decide

end LanceModel.C18
