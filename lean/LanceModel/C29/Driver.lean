import LanceModel.Util
import LanceModel.C29.Model
/-
C29 driver: one table per case (`data` line), then queries (`q` lines).  Same grammar as harness/src/bin/c29.rs.
-/
namespace LanceModel.C29.Driver
open LanceModel.Util LanceModel.C29

/-- BINARY_PREFIX_LENGTH -/
def PREFIX : Nat := 64

inductive Ty where
  | i32 | i64 | f32 | f64 | utf8 | bin
  deriving DecidableEq

def Ty.parse : String → Option Ty
  | "i32" => some .i32
  | "i64" => some .i64
  | "f32" => some .f32
  | "f64" => some .f64
  | "utf8" => some .utf8
  | "bin" => some .bin
  | _ => none

def Ty.isBytes : Ty → Bool
  | .utf8 | .bin => true
  | _ => false

def Ty.ct : Ty → CT
  | .i32 => .int (-2147483648) 2147483647
  | .i64 => .int (-9223372036854775808) 9223372036854775807
  | .f32 => .float 2139095040
  | .f64 => .float 9218868437227405312
  | .utf8 => .utf8
  | .bin => .bin

def Ty.inRange : Ty → Int → Bool
  | .i32, k | .f32, k => decide (-2147483648 ≤ k ∧ k ≤ 2147483647)
  | .i64, k | .f64, k => decide (-9223372036854775808 ≤ k ∧ k ≤ 9223372036854775807)
  | _, _ => false

def hexVal (c : Char) : Option Nat :=
  if '0' ≤ c ∧ c ≤ '9' then some (c.toNat - '0'.toNat)
  else if 'a' ≤ c ∧ c ≤ 'f' then some (c.toNat - 'a'.toNat + 10)
  else if 'A' ≤ c ∧ c ≤ 'F' then some (c.toNat - 'A'.toNat + 10)
  else none

def unhexGo : List Char → Option Bytes
  | [] => some []
  | a :: b :: t =>
    match hexVal a, hexVal b, unhexGo t with
    | some x, some y, some r => some ((16 * x + y) :: r)
    | _, _, _ => none
  | _ => none

def unhex (s : String) : Option Bytes :=
  match s.toList with
  | 'x' :: t => unhexGo t
  | _ => none

def hexDigit (n : Nat) : Char := if n < 10 then Char.ofNat (48 + n) else Char.ofNat (87 + n)

def hex (b : Bytes) : String :=
  String.ofList ('x' :: b.flatMap (fun x => [hexDigit (x / 16), hexDigit (x % 16)]))

def parseVal (ty : Ty) (s : String) : Option Val :=
  if ty.isBytes then
    match unhex s with
    | some b => if ty = .utf8 && !validUtf8 b then none else some (.bytes b)
    | none => none
  else
    if s.startsWith "+" then none else
    match s.toInt? with
    | some k => if ty.inRange k then some (.int k) else none
    | none => none

def parseCell (ty : Ty) (s : String) : Option Cell :=
  if s = "n" then some none else (parseVal ty s).map some

def showCell : Cell → String
  | none => "n"
  | some (.int k) => toString k
  | some (.bytes b) => hex b

structure Table where
  tys : List Ty
  cols : List Col
  g : Nat
  rows : List Row

abbrev St := Option Table

def parseFlag : String → Option Bool
  | "0" => some false
  | "1" => some true
  | _ => none

def tyOf (t : Table) (c : Nat) : Ty := t.tys.getD c .i32

def parseCmp : String → Option Cmp
  | "eq" => some .eq
  | "ne" => some .ne
  | "lt" => some .lt
  | "le" => some .le
  | "gt" => some .gt
  | "ge" => some .ge
  | _ => none

def parseColName : String → Option Nat
  | "v" => some 0
  | "w" => some 1
  | _ => none

def parseItems (ty : Ty) : Nat → List String → Option (List Val × List String)
  | 0, rest => some ([], rest)
  | k + 1, s :: rest =>
    match parseVal ty s, parseItems ty k rest with
    | some v, some (vs, r) => some (v :: vs, r)
    | _, _ => none
  | _ + 1, [] => none

/-- prefix-form predicate; nesting deeper than 40 is refused on both sides -/
def parsePred (t : Table) : Nat → List String → Option (Pred × List String)
  | 0, _ => none
  | fuel + 1, toks =>
    match toks with
    | "c" :: cn :: op :: l :: rest =>
      match parseColName cn, parseCmp op with
      | some c, some o => (parseVal (tyOf t c) l).map (fun v => (.cmp c o v, rest))
      | _, _ => none
    | "nul" :: cn :: rest => (parseColName cn).map (fun c => (.isNull c, rest))
    | "nn" :: cn :: rest => (parseColName cn).map (fun c => (.notNull c, rest))
    | "in" :: cn :: k :: rest =>
      match parseColName cn, k.toNat? with
      | some c, some k =>
        if k = 0 ∨ k > 16 then none else
        (parseItems (tyOf t c) k rest).map (fun (vs, r) => (.inList c false vs, r))
      | _, _ => none
    | "nin" :: cn :: k :: rest =>
      match parseColName cn, k.toNat? with
      | some c, some k =>
        if k = 0 ∨ k > 16 then none else
        (parseItems (tyOf t c) k rest).map (fun (vs, r) => (.inList c true vs, r))
      | _, _ => none
    | "and" :: rest =>
      match parsePred t fuel rest with
      | some (a, r1) =>
        match parsePred t fuel r1 with
        | some (b, r2) => some (.and a b, r2)
        | none => none
      | none => none
    | "or" :: rest =>
      match parsePred t fuel rest with
      | some (a, r1) =>
        match parsePred t fuel r1 with
        | some (b, r2) => some (.or a b, r2)
        | none => none
      | none => none
    | "not" :: rest =>
      match parsePred t fuel rest with
      | some (a, r1) => some (.not a, r1)
      | none => none
    | _ => none

def parseRow (tys : List Ty) (nullable : List Bool) (s : String) : Option Row :=
  match s.splitOn ":", tys, nullable with
  | [a, b], [t0, t1], [n0, n1] =>
    match parseCell t0 a, parseCell t1 b with
    | some x, some y =>
      if (x.isNone && !(n0 && t0.isBytes)) || (y.isNone && !(n1 && t1.isBytes)) then none
      else if x == some (.bytes []) || y == some (.bytes []) then none
      else some [x, y]
    | _, _ => none
  | _, _, _ => none

def showStats (st : Stats) : String :=
  toString st.nc ++ "," ++ showCell st.mn ++ "," ++ showCell st.mx

def showPage (t : Table) (page : List Row) : String :=
  toString page.length ++ ":" ++
    "/".intercalate ((List.range t.cols.length).map (fun c =>
      showStats (colStats validUtf8 PREFIX ((t.cols.getD c ⟨.bin, false⟩).ct) (colCells page c))))

def outChar : Out → Char
  | .F => 'F'
  | .T => 'T'
  | _ => 'O'

/-- ids of the rows the scan with statistics returns, page by page -/
def onIds (t : Table) (p : Pred) : Nat → List (List Row) → List Nat
  | _, [] => []
  | off, page :: rest =>
    (match pageDecision validUtf8 PREFIX t.cols page p with
     | .F => []
     | .T => (List.range page.length).map (· + off)
     | _ => ((List.range page.length).filter (fun i =>
         satS (pageGuars validUtf8 PREFIX t.cols page) (page.getD i []) p)).map (· + off))
    ++ onIds t p (off + page.length) rest

def bad : String := "err parse"

def step (s : St) (line : String) : St × String :=
  match splitTokens line with
  | "data" :: vt :: vn :: wt :: wn :: g :: splits :: c0 :: cells =>
    match Ty.parse vt, parseFlag vn, Ty.parse wt, parseFlag wn, g.toNat?, parseNatList splits with
    | some t0, some n0, some t1, some n1, some g, some _ =>
      if g = 0 ∨ g > 4096 then (none, bad) else
      match (c0 :: cells).mapM (parseRow [t0, t1] [n0, n1]) with
      | some rows =>
        let t : Table := { tys := [t0, t1], cols := [⟨t0.ct, n0⟩, ⟨t1.ct, n1⟩], g := g, rows := rows }
        let pages := pagesOf g rows.length rows
        if pages.any (fun pg => writePanics validUtf8 PREFIX pg 0 t.cols) then (none, "err write_panic") else
        (some t, "pages=" ++ toString pages.length ++ " " ++ "|".intercalate (pages.map (showPage t)))
      | none => (none, bad)
    | _, _, _, _, _, _ => (none, bad)
  | "data" :: _ => (none, bad)
  | "q" :: toks =>
    match s with
    | none => (s, bad)
    | some t =>
      match parsePred t 41 toks with
      | some (p, []) =>
        let pages := pagesOf t.g t.rows.length t.rows
        let dec := String.ofList (pages.map (fun pg => outChar (pageDecision validUtf8 PREFIX t.cols pg p)))
        let on := onIds t p 0 pages
        let off := (List.range t.rows.length).filter (fun i => sat (t.rows.getD i []) p)
        (s, "dec=" ++ dec ++ " on=" ++ showNatList on ++ " off=" ++ showNatList off)
      | _ => (s, bad)
  | _ => (s, bad)

end LanceModel.C29.Driver
