import LanceModel.C29.StatsLemmas
/-
C29 — from valid guarantees to a sound decision; from the collected statistics to valid guarantees.
-/
namespace LanceModel.C29

/-- `v` lies in the interval; an absent bound is unbounded -/
def inIv (lo hi : Option Val) (v : Val) : Prop :=
  (∀ a, lo = some a → a.le v = true) ∧ (∀ b, hi = some b → v.le b = true)

/-- the documented meaning of a `NullableInterval` guarantee for one cell -/
def Guar.Valid : Guar → Cell → Prop
  | .null, c => c = none
  | .maybe lo hi, c => ∀ v, c = some v → inIv lo hi v
  | .notNull lo hi, c => ∃ v, c = some v ∧ inIv lo hi v

/-- MaybeNull with `lower == upper`: the region where `single_value` wrongly forgets the NULLs -/
def Guar.maybeSingle : Guar → Bool
  | .maybe (some a) (some b) => decide (a = b)
  | _ => false

/-- what a simplification result claims about the three-valued value of the (sub)predicate on a row -/
def OutOK (o : Out) (e : Option Bool) : Prop :=
  (o = .F → e = some false) ∧ (o = .T → e = some true) ∧ (o = .N → e = none)

theorem OutOK_U (e : Option Bool) : OutOK .U e := by
  refine ⟨?_, ?_, ?_⟩ <;> intro h <;> cases h

theorem OutOK_flip (o : Out) (e : Option Bool) (h : OutOK o e) : OutOK o.flip (e.map (!·)) := by
  obtain ⟨h1, h2, h3⟩ := h
  cases o <;> simp_all [Out.flip, OutOK]

theorem OutOK_and (a b : Out) (ea eb : Option Bool) (ha : OutOK a ea) (hb : OutOK b eb) :
    OutOK (a.and b) (and3 ea eb) := by
  obtain ⟨a1, a2, a3⟩ := ha
  obtain ⟨b1, b2, b3⟩ := hb
  cases a <;> cases b <;> simp_all [Out.and, OutOK] <;>
    (first
      | (rcases ea with _ | _ | _ <;> simp [and3])
      | (rcases eb with _ | _ | _ <;> simp [and3])
      | simp [and3])

theorem OutOK_or (a b : Out) (ea eb : Option Bool) (ha : OutOK a ea) (hb : OutOK b eb) :
    OutOK (a.or b) (or3 ea eb) := by
  obtain ⟨a1, a2, a3⟩ := ha
  obtain ⟨b1, b2, b3⟩ := hb
  cases a <;> cases b <;> simp_all [Out.or, OutOK] <;>
    (first
      | (rcases ea with _ | _ | _ <;> simp [or3])
      | (rcases eb with _ | _ | _ <;> simp [or3])
      | simp [or3])

theorem OutOK_ofBool (b : Bool) : OutOK (ofBool b) (some b) := by
  cases b <;> simp [ofBool, OutOK]

/-! ### interval comparisons -/

theorem bLe_spec (lo hi : Option Val) (v l : Val) (h : bLe hi l = true) (hv : inIv lo hi v) : v.le l = true := by
  cases hi with
  | none => simp [bLe] at h
  | some x => exact Val.le_trans v x l (hv.2 x rfl) h

theorem bLt_spec (lo hi : Option Val) (v l : Val) (h : bLt hi l = true) (hv : inIv lo hi v) : v.lt l = true := by
  cases hi with
  | none => simp [bLt] at h
  | some x => exact Val.lt_of_le_of_lt v x l (hv.2 x rfl) h

theorem bGe_spec (lo hi : Option Val) (v l : Val) (h : bGe lo l = true) (hv : inIv lo hi v) : l.le v = true := by
  cases lo with
  | none => simp [bGe] at h
  | some x => exact Val.le_trans l x v h (hv.1 x rfl)

theorem bGt_spec (lo hi : Option Val) (v l : Val) (h : bGt lo l = true) (hv : inIv lo hi v) : l.lt v = true := by
  cases lo with
  | none => simp [bGt] at h
  | some x => exact Val.lt_of_lt_of_le l x v h (hv.1 x rfl)

theorem ne_of_lt (a b : Val) (h : a.lt b = true) : a ≠ b := by
  intro e; subst e; rw [Val.lt_irrefl] at h; cases h

theorem eq_of_single (lo hi : Option Val) (v l : Val) (h1 : lo = some l) (h2 : hi = some l) (hv : inIv lo hi v) :
    v = l :=
  Val.le_antisymm v l (hv.2 l h2) (hv.1 l h1)

theorem ivCmp_sound (lo hi : Option Val) (op : Cmp) (l v : Val) (hv : inIv lo hi v) :
    OutOK (ivCmp lo hi op l) (some (op.eval v l)) := by
  cases op with
  | gt =>
    simp only [ivCmp]
    split
    · rename_i h
      have := Val.not_lt_of_le v l (bLe_spec lo hi v l h hv)
      simp [OutOK, Cmp.eval, this]
    · split
      · rename_i h
        simp [OutOK, Cmp.eval, bGt_spec lo hi v l h hv]
      · exact OutOK_U _
  | ge =>
    simp only [ivCmp]
    split
    · rename_i h
      simp [OutOK, Cmp.eval, bGe_spec lo hi v l h hv]
    · split
      · rename_i h
        have := bLt_spec lo hi v l h hv
        simp [OutOK, Cmp.eval, Val.le, this]
      · exact OutOK_U _
  | lt =>
    simp only [ivCmp]
    split
    · rename_i h
      have := Val.not_lt_of_le l v (bGe_spec lo hi v l h hv)
      simp [OutOK, Cmp.eval, this]
    · split
      · rename_i h
        simp [OutOK, Cmp.eval, bLt_spec lo hi v l h hv]
      · exact OutOK_U _
  | le =>
    simp only [ivCmp]
    split
    · rename_i h
      simp [OutOK, Cmp.eval, bLe_spec lo hi v l h hv]
    · split
      · rename_i h
        have := bGt_spec lo hi v l h hv
        simp [OutOK, Cmp.eval, Val.le, this]
      · exact OutOK_U _
  | eq =>
    simp only [ivCmp]
    split
    · rename_i h
      have := eq_of_single lo hi v l h.1 h.2 hv
      simp [OutOK, Cmp.eval, this]
    · split
      · rename_i h
        have hne : v ≠ l := by
          simp only [Bool.or_eq_true] at h
          rcases h with h | h
          · exact (ne_of_lt l v (bGt_spec lo hi v l h hv)).symm
          · exact ne_of_lt v l (bLt_spec lo hi v l h hv)
        simp [OutOK, Cmp.eval, hne]
      · exact OutOK_U _
  | ne =>
    simp only [ivCmp]
    split
    · rename_i h
      have := eq_of_single lo hi v l h.1 h.2 hv
      simp [OutOK, Cmp.eval, this]
    · split
      · rename_i h
        have hne : v ≠ l := by
          simp only [Bool.or_eq_true] at h
          rcases h with h | h
          · exact (ne_of_lt l v (bGt_spec lo hi v l h hv)).symm
          · exact ne_of_lt v l (bLt_spec lo hi v l h hv)
        simp [OutOK, Cmp.eval, hne]
      · exact OutOK_U _

/-! ### leaves -/

/-- a guarantee that holds for the cell and is not in the MaybeNull-single-value region -/
def GOK (g : Option Guar) (cell : Cell) : Prop :=
  ∀ g', g = some g' → g'.Valid cell ∧ g'.maybeSingle = false

theorem single_notNull (lo hi : Option Val) (a : Val) (h : (Guar.notNull lo hi).single = some (some a)) :
    lo = some a ∧ hi = some a := by
  cases lo with
  | none => simp [Guar.single] at h
  | some x =>
    cases hi with
    | none => simp [Guar.single] at h
    | some y =>
      simp only [Guar.single] at h
      by_cases e : x = y
      · subst e
        simp only [if_true, Option.some.injEq] at h
        subst h
        exact ⟨rfl, rfl⟩
      · simp [e] at h

theorem single_maybe_none (lo hi : Option Val) (h : (Guar.maybe lo hi).maybeSingle = false) :
    (Guar.maybe lo hi).single = none := by
  cases lo with
  | none => simp [Guar.single]
  | some x =>
    cases hi with
    | none => simp [Guar.single]
    | some y =>
      simp only [Guar.maybeSingle, decide_eq_false_iff_not] at h
      simp [Guar.single, h]

theorem single_notNull_cases (lo hi : Option Val) :
    (∃ a, (Guar.notNull lo hi).single = some (some a)) ∨ (Guar.notNull lo hi).single = none := by
  cases lo with
  | none => right; simp [Guar.single]
  | some x =>
    cases hi with
    | none => right; simp [Guar.single]
    | some y =>
      by_cases e : x = y
      · left; exact ⟨x, by simp [Guar.single, e]⟩
      · right; simp [Guar.single, e]

theorem leafCmp_sound (g : Option Guar) (cell : Cell) (op : Cmp) (l : Val) (h : GOK g cell) :
    OutOK (leafCmp g op l) (cell.map (fun v => op.eval v l)) := by
  cases g with
  | none => exact OutOK_U _
  | some g =>
    obtain ⟨hv, hs⟩ := h g rfl
    cases g with
    | null =>
      simp only [Guar.Valid] at hv
      subst hv
      simp [leafCmp, Guar.single, OutOK]
    | maybe lo hi =>
      simp only [leafCmp, single_maybe_none lo hi hs]
      exact OutOK_U _
    | notNull lo hi =>
      obtain ⟨v, rfl, hiv⟩ := hv
      rcases single_notNull_cases lo hi with ⟨a, ha⟩ | hn
      · obtain ⟨e1, e2⟩ := single_notNull lo hi a ha
        have := eq_of_single lo hi v a e1 e2 hiv
        subst this
        simp only [leafCmp, ha, Option.map_some]
        exact OutOK_ofBool _
      · simp only [leafCmp, hn, Option.map_some]
        exact ivCmp_sound lo hi op l v hiv

theorem leafIsNull_sound (g : Option Guar) (cell : Cell) (h : GOK g cell) :
    OutOK (leafIsNull g) (some cell.isNone) := by
  cases g with
  | none => exact OutOK_U _
  | some g =>
    obtain ⟨hv, hs⟩ := h g rfl
    cases g with
    | null =>
      simp only [Guar.Valid] at hv
      subst hv
      simp [leafIsNull, Guar.single, OutOK]
    | maybe lo hi =>
      simp only [leafIsNull, single_maybe_none lo hi hs]
      exact OutOK_U _
    | notNull lo hi =>
      obtain ⟨v, rfl, _⟩ := hv
      rcases single_notNull_cases lo hi with ⟨a, ha⟩ | hn
      · simp [leafIsNull, ha, OutOK]
      · simp [leafIsNull, hn, OutOK]

theorem leafIn_sound (g : Option Guar) (cell : Cell) (items : List Val) (h : GOK g cell) :
    OutOK (leafIn g items) (cell.map (fun v => items.contains v)) := by
  cases g with
  | none => exact OutOK_U _
  | some g =>
    obtain ⟨hv, hs⟩ := h g rfl
    cases g with
    | null =>
      simp only [Guar.Valid] at hv
      subst hv
      simp [leafIn, Guar.single, OutOK]
    | maybe lo hi =>
      simp only [leafIn, single_maybe_none lo hi hs]
      exact OutOK_U _
    | notNull lo hi =>
      obtain ⟨v, rfl, hiv⟩ := hv
      rcases single_notNull_cases lo hi with ⟨a, ha⟩ | hn
      · obtain ⟨e1, e2⟩ := single_notNull lo hi a ha
        have := eq_of_single lo hi v a e1 e2 hiv
        subst this
        simp only [leafIn, ha, Option.map_some]
        exact OutOK_ofBool _
      · simp only [leafIn, hn, Option.map_some]
        split
        · rename_i hall
          have hnm : ¬ v ∈ items := by
            intro hmem
            have := List.all_eq_true.mp hall v hmem
            simp only [Bool.or_eq_true] at this
            rcases this with h | h
            · exact ne_of_lt v v (bGt_spec lo hi v v h hiv) rfl
            · exact ne_of_lt v v (bLt_spec lo hi v v h hiv) rfl
          have hc : items.contains v = false := by simp [hnm]
          rw [hc]
          simp [OutOK]
        · exact OutOK_U _

/-- SOUNDNESS OF THE DECISION: if every guarantee holds for the row (and none is a single-valued MaybeNull), a predicate
    simplified to `false` / `true` / `NULL` has that value on the row -/
theorem dec_sound (gs : List Guar) (r : Row) (h : ∀ c, GOK gs[c]? (cellOf r c)) (p : Pred) :
    OutOK (dec gs p) (eval3 r p) := by
  induction p with
  | cmp c op l => exact leafCmp_sound _ _ op l (h c)
  | isNull c => exact leafIsNull_sound _ _ (h c)
  | notNull c =>
    have := OutOK_flip _ _ (leafIsNull_sound _ _ (h c))
    simp only [dec, eval3]
    cases hc : cellOf r c <;> simp_all
  | inList c neg items =>
    have hl := leafIn_sound _ _ items (h c)
    cases neg with
    | false =>
      simp only [dec, eval3, Bool.false_eq_true, if_false]
      have e : (fun v => items.contains v != false) = (fun v => items.contains v) := by
        funext v; simp
      rw [e]; exact hl
    | true =>
      simp only [dec, eval3, if_true]
      have := OutOK_flip _ _ hl
      have e : (fun v => items.contains v != true) = (fun v => !(items.contains v)) := by
        funext v; cases items.contains v <;> rfl
      rw [e]
      simpa [Option.map_map, Function.comp_def] using this
  | and a b iha ihb => exact OutOK_and _ _ _ _ iha ihb
  | or a b iha ihb => exact OutOK_or _ _ _ _ iha ihb
  | not a ih => exact OutOK_flip _ _ ih

theorem pick_ok (o : Out) (e : Option Bool) (h : OutOK o e) : pick o e = e := by
  obtain ⟨h1, h2, h3⟩ := h
  cases o <;> simp_all [pick]

/-- the items the rewriter drops from an IN list are not values of the cell -/
theorem inKeep_contains (g : Option Guar) (cell : Cell) (items : List Val) (h : GOK g cell) (v : Val)
    (hc : cell = some v) : (inKeep g items).contains v = items.contains v := by
  cases g with
  | none => rfl
  | some g =>
    obtain ⟨hv, _⟩ := h g rfl
    cases g with
    | null => rfl
    | maybe lo hi => rfl
    | notNull lo hi =>
      obtain ⟨v', hv', hiv⟩ := hv
      rw [hc] at hv'
      cases hv'
      have hkeep : (!(bGt lo v || bLt hi v)) = true := by
        cases h1 : bGt lo v with
        | true => exact absurd rfl (ne_of_lt v v (bGt_spec lo hi v v h1 hiv))
        | false =>
          cases h2 : bLt hi v with
          | true => exact absurd rfl (ne_of_lt v v (bLt_spec lo hi v v h2 hiv))
          | false => rfl
      simp only [inKeep]
      cases hm : items.contains v with
      | true =>
        rw [List.contains_iff_mem] at hm ⊢
        exact List.mem_filter.mpr ⟨hm, hkeep⟩
      | false =>
        cases hm' : (items.filter (fun i => !(bGt lo i || bLt hi i))).contains v with
        | false => rfl
        | true =>
          rw [List.contains_iff_mem] at hm'
          have := (List.mem_filter.mp hm').1
          rw [← List.contains_iff_mem, hm] at this
          cases this

/-- under valid guarantees the simplified predicate evaluates like the original one -/
theorem evalS_eq (gs : List Guar) (r : Row) (h : ∀ c, GOK gs[c]? (cellOf r c)) (p : Pred) :
    evalS gs r p = eval3 r p := by
  induction p with
  | cmp c op l => exact pick_ok _ _ (dec_sound gs r h (.cmp c op l))
  | isNull c => exact pick_ok _ _ (dec_sound gs r h (.isNull c))
  | notNull c => exact pick_ok _ _ (dec_sound gs r h (.notNull c))
  | inList c neg items =>
    have e : eval3 r (.inList c neg (inKeep gs[c]? items)) = eval3 r (.inList c neg items) := by
      simp only [eval3]
      cases hc : cellOf r c with
      | none => rfl
      | some v =>
        simp only [Option.map_some]
        rw [inKeep_contains gs[c]? (cellOf r c) items (h c) v hc]
    simp only [evalS, e]
    exact pick_ok _ _ (dec_sound gs r h (.inList c neg items))
  | and a b iha ihb => simp only [evalS, eval3, iha, ihb]
  | or a b iha ihb => simp only [evalS, eval3, iha, ihb]
  | not a ih => simp only [evalS, eval3, ih]

/-! ### guarantees built from the collected statistics are valid -/

def CT.holdsB : CT → Val → Bool
  | .int _ _, .int _ => true
  | .float _, .int _ => true
  | .bin, .bytes _ => true
  | .utf8, .bytes _ => true
  | _, _ => false

theorem mem_intsOf (cells : List Cell) (k : Int) (h : some (Val.int k) ∈ cells) : k ∈ intsOf cells := by
  induction cells with
  | nil => cases h
  | cons c t ih =>
    rcases List.mem_cons.mp h with e | e
    · subst e; simp [intsOf]
    · have := ih e
      cases c with
      | none => simpa [intsOf] using this
      | some v => cases v <;> simp [intsOf, this]

theorem mem_bytesOf (cells : List Cell) (b : Bytes) (h : some (Val.bytes b) ∈ cells) : b ∈ bytesOf cells := by
  induction cells with
  | nil => cases h
  | cons c t ih =>
    rcases List.mem_cons.mp h with e | e
    · subst e; simp [bytesOf]
    · have := ih e
      cases c with
      | none => simpa [bytesOf] using this
      | some v => cases v <;> simp [bytesOf, this]

theorem nullCount_zero (cells : List Cell) (h : nullCount cells = 0) : ∀ c ∈ cells, c ≠ none := by
  induction cells with
  | nil => intro c hc; cases hc
  | cons x t ih =>
    intro c hc
    cases x with
    | none => simp [nullCount] at h
    | some v =>
      simp only [nullCount] at h
      rcases List.mem_cons.mp hc with e | e
      · subst e; simp
      · exact ih h c e

theorem nullCount_le (cells : List Cell) : nullCount cells ≤ cells.length := by
  induction cells with
  | nil => simp [nullCount]
  | cons x t ih => cases x <;> simp [nullCount] <;> omega

theorem nullCount_all (cells : List Cell) (h : nullCount cells = cells.length) : ∀ c ∈ cells, c = none := by
  induction cells with
  | nil => intro c hc; cases hc
  | cons x t ih =>
    intro c hc
    cases x with
    | none =>
      simp only [nullCount, List.length_cons, Nat.add_right_cancel_iff] at h
      rcases List.mem_cons.mp hc with e | e
      · exact e
      · exact ih h c e
    | some v =>
      simp only [nullCount, List.length_cons] at h
      have := nullCount_le t
      omega

/-- no NaN next to an ordinary value: either every non-null value of the page is NaN, or none is -/
def nanB (ct : CT) (cells : List Cell) : Bool :=
  match ct with
  | .float P => (intsOf cells).all (isNaN P) || (intsOf cells).all (fun k => !isNaN P k)
  | _ => true

/-- `ExactTrunc` as a check -/
def truncB (N : Nat) (ct : CT) (cells : List Cell) : Bool :=
  match ct with
  | .utf8 => (bytesOf cells).all (fun v => decide (v.length > N) → decide ((trunc true N v).length = N))
  | _ => true

/-- the column is well typed: cells carry the constructor of the type, a non-nullable column has no NULL, `P ≥ 1` -/
def typedB (col : Col) (cells : List Cell) : Bool :=
  cells.all (fun c => match c with | none => col.nullable | some v => col.ct.holdsB v) &&
  (match col.ct with | .float P => decide (1 ≤ P) | _ => true)

/-- BOUNDS → INTERVAL: the interval built from the collected statistics contains every non-null value of the page -/
theorem bounds_valid (valid : Bytes → Bool) (N : Nat) (col : Col) (cells : List Cell)
    (ht : typedB col cells = true) (hn : nanB col.ct cells = true) (htr : truncB N col.ct cells = true)
    (v : Val) (hv : some v ∈ cells) :
    inIv (mkLo col.ct (colStats valid N col.ct cells).mn) (mkHi col.ct (colStats valid N col.ct cells).mx) v := by
  obtain ⟨ct, nullable⟩ := col
  simp only [typedB, Bool.and_eq_true, List.all_eq_true] at ht
  obtain ⟨ht1, ht2⟩ := ht
  have hty := ht1 _ hv
  simp only at hty ht2 hn htr ⊢
  cases ct with
  | int lo hi =>
    cases v with
    | bytes b => simp [CT.holdsB] at hty
    | int k =>
      have := intStats_bounds lo hi (intsOf cells) k (mem_intsOf cells k hv)
      simp only [colStats, mkLo, mkHi, inIv, Option.some.injEq]
      constructor
      · intro a e; subst e; rw [Val.int_le]; exact this.1
      · intro a e; subst e; rw [Val.int_le]; exact this.2
  | float P =>
    cases v with
    | bytes b => simp [CT.holdsB] at hty
    | int k =>
      have hP : 1 ≤ P := by simpa using ht2
      have hk := mem_intsOf cells k hv
      simp only [nanB, Bool.or_eq_true, List.all_eq_true] at hn
      simp only [colStats, mkLo, mkHi, inIv]
      rcases hn with hall | hnone
      · rw [floatStats_allNaN P hP (intsOf cells) hall]
        have e1 : canonLo P (-P - 1) = none := by simp [canonLo]
        have e2 : canonHi P P = none := by simp [canonHi]
        simp [e1, e2]
      · have hkn : isNaN P k = false := by simpa using hnone k hk
        obtain ⟨b1, b2⟩ := floatStats_bounds P hP (intsOf cells) k hk hkn
        rw [isNaN_false_iff] at hkn
        generalize floatStats P (intsOf cells) = r at b1 b2
        obtain ⟨mn, mx⟩ := r
        simp only at b1 b2
        constructor
        · intro a e
          simp only [canonLo] at e
          split at e
          · cases e
          · split at e
            · simp only [Option.map_some, Option.some.injEq] at e; subst e; rw [Val.int_le]; omega
            · simp only [Option.map_some, Option.some.injEq] at e; subst e; rw [Val.int_le]; omega
        · intro a e
          simp only [canonHi] at e
          split at e
          · cases e
          · split at e
            · simp only [Option.map_some, Option.some.injEq] at e; subst e; rw [Val.int_le]; omega
            · simp only [Option.map_some, Option.some.injEq] at e; subst e; rw [Val.int_le]; omega
  | bin =>
    cases v with
    | int k => simp [CT.holdsB] at hty
    | bytes b =>
      have hb := mem_bytesOf cells b hv
      simp only [colStats, mkLo, mkHi, inIv]
      constructor
      · intro a e
        obtain ⟨m, hm, hle⟩ := strStats_min_le false valid N (bytesOf cells) b hb
        rw [hm] at e
        simp only [Option.map_some, Option.some.injEq] at e
        subst e
        rw [Val.bytes_le]; exact hle
      · intro a e
        cases hR : (strStats false valid N (bytesOf cells)).2 with
        | none => rw [hR] at e; cases e
        | some R =>
          rw [hR] at e
          simp only [Option.map_some, Option.some.injEq] at e
          subst e
          rw [Val.bytes_le]
          exact strStats_le_max false valid N (bytesOf cells) (exactTrunc_bin N _) b hb R hR
  | utf8 =>
    cases v with
    | int k => simp [CT.holdsB] at hty
    | bytes b =>
      have hb := mem_bytesOf cells b hv
      have hex : ExactTrunc true N (bytesOf cells) := by
        intro w hw hlong
        simp only [truncB, List.all_eq_true] at htr
        have := htr w hw
        simpa [hlong] using this
      simp only [colStats, mkLo, mkHi, inIv]
      constructor
      · intro a e
        obtain ⟨m, hm, hle⟩ := strStats_min_le true valid N (bytesOf cells) b hb
        rw [hm] at e
        simp only [Option.map_some, Option.some.injEq] at e
        subst e
        rw [Val.bytes_le]; exact hle
      · intro a e
        cases hR : (strStats true valid N (bytesOf cells)).2 with
        | none => rw [hR] at e; cases e
        | some R =>
          rw [hR] at e
          simp only [Option.map_some, Option.some.injEq] at e
          subst e
          rw [Val.bytes_le]
          exact strStats_le_max true valid N (bytesOf cells) hex b hb R hR

theorem colStats_nc (valid : Bytes → Bool) (N : Nat) (ct : CT) (cells : List Cell) :
    (colStats valid N ct cells).nc = nullCount cells := by
  cases ct <;> rfl

/-- GUARANTEE VALID: the `NullableInterval` that extract_guarantees builds for a page holds for every cell of the page -/
theorem mkGuar_valid (valid : Bytes → Bool) (N : Nat) (col : Col) (cells : List Cell)
    (ht : typedB col cells = true) (hn : nanB col.ct cells = true) (htr : truncB N col.ct cells = true)
    (cell : Cell) (hc : cell ∈ cells) :
    (mkGuar col.ct col.nullable cells.length (colStats valid N col.ct cells)).Valid cell := by
  have hb := bounds_valid valid N col cells ht hn htr
  have hnotnull : (∀ c ∈ cells, c ≠ none) →
      (Guar.notNull (mkLo col.ct (colStats valid N col.ct cells).mn) (mkHi col.ct (colStats valid N col.ct cells).mx)).Valid cell := by
    intro hall
    cases hcell : cell with
    | none => exact absurd hcell (hall cell hc)
    | some v => exact ⟨v, rfl, hb v (hcell ▸ hc)⟩
  unfold mkGuar
  rw [colStats_nc]
  cases hnl : col.nullable with
  | false =>
    simp only [Bool.false_eq_true, if_false, if_true]
    apply hnotnull
    intro c hcm e
    subst e
    simp only [typedB, Bool.and_eq_true, List.all_eq_true] at ht
    have := ht.1 none hcm
    simp [hnl] at this
  | true =>
    simp only [if_true]
    by_cases h0 : nullCount cells = 0
    · rw [if_pos h0]
      exact hnotnull (nullCount_zero cells h0)
    · rw [if_neg h0]
      by_cases h1 : nullCount cells = cells.length
      · rw [if_pos h1]
        exact nullCount_all cells h1 cell hc
      · rw [if_neg h1]
        intro v e
        subst e
        exact hb v hc

theorem guarsFrom_get (valid : Bytes → Bool) (N : Nat) (page : List Row) (cols : List Col) : ∀ (k i : Nat),
    (guarsFrom valid N page k cols)[i]? =
      cols[i]?.map (fun col => mkGuar col.ct col.nullable page.length (colStats valid N col.ct (colCells page (k + i)))) := by
  induction cols with
  | nil => intro k i; simp [guarsFrom]
  | cons c t ih =>
    intro k i
    cases i with
    | zero => simp [guarsFrom]
    | succ i =>
      simp only [guarsFrom, List.getElem?_cons_succ]
      rw [ih (k + 1) i]
      have : k + 1 + i = k + (i + 1) := by omega
      rw [this]

/-- a check of every column of the page -/
def colsAll (f : Col → List Cell → Bool) (page : List Row) : Nat → List Col → Bool
  | _, [] => true
  | c, col :: t => f col (colCells page c) && colsAll f page (c + 1) t

theorem colsAll_get (f : Col → List Cell → Bool) (page : List Row) (cols : List Col) : ∀ (k i : Nat) (col : Col),
    colsAll f page k cols = true → cols[i]? = some col → f col (colCells page (k + i)) = true := by
  induction cols with
  | nil => intro k i col _ h; simp at h
  | cons c t ih =>
    intro k i col hall hget
    simp only [colsAll, Bool.and_eq_true] at hall
    cases i with
    | zero =>
      simp only [List.getElem?_cons_zero, Option.some.injEq] at hget
      subst hget
      simpa using hall.1
    | succ i =>
      simp only [List.getElem?_cons_succ] at hget
      have := ih (k + 1) i col hall.2 hget
      have e : k + 1 + i = k + (i + 1) := by omega
      rw [e] at this
      exact this

/-- the well-typedness of a page -/
def wellTyped (cols : List Col) (page : List Row) : Bool := colsAll typedB page 0 cols

/-- hypothesis 1 of the partial theorem: no float column of the page mixes NaN with other values -/
def noMixedNaN (cols : List Col) (page : List Row) : Bool := colsAll (fun col => nanB col.ct) page 0 cols

/-- hypothesis 2: every over-long Utf8 value is cut at exactly `N` bytes (no multi-byte character straddles the cut) -/
def exactTruncB (N : Nat) (cols : List Col) (page : List Row) : Bool := colsAll (fun col => truncB N col.ct) page 0 cols

/-- hypothesis 3: no column of the page has NULLs next to a single distinct value (MaybeNull with `min = max`) -/
def noMaybeSingle (valid : Bytes → Bool) (N : Nat) (cols : List Col) (page : List Row) : Bool :=
  (pageGuars valid N cols page).all (fun g => !g.maybeSingle)

theorem pageGuars_ok (valid : Bytes → Bool) (N : Nat) (cols : List Col) (page : List Row)
    (h0 : wellTyped cols page = true) (h1 : noMixedNaN cols page = true) (h2 : exactTruncB N cols page = true)
    (h3 : noMaybeSingle valid N cols page = true) (r : Row) (hr : r ∈ page) (c : Nat) :
    GOK (pageGuars valid N cols page)[c]? (cellOf r c) := by
  intro g hg
  have hg' := hg
  unfold pageGuars at hg
  rw [guarsFrom_get] at hg
  cases hcol : cols[c]? with
  | none => rw [hcol] at hg; cases hg
  | some col =>
    rw [hcol] at hg
    simp only [Option.map_some, Option.some.injEq, Nat.zero_add] at hg
    have t0 := colsAll_get typedB page cols 0 c col h0 hcol
    have t1 := colsAll_get _ page cols 0 c col h1 hcol
    have t2 := colsAll_get _ page cols 0 c col h2 hcol
    simp only [Nat.zero_add] at t0 t1 t2
    have hmem : cellOf r c ∈ colCells page c := List.mem_map.mpr ⟨r, hr, rfl⟩
    have hv := mkGuar_valid valid N col (colCells page c) t0 t1 t2 (cellOf r c) hmem
    have hlen : (colCells page c).length = page.length := by simp [colCells]
    rw [hlen, hg] at hv
    refine ⟨hv, ?_⟩
    simp only [noMaybeSingle, List.all_eq_true] at h3
    have := h3 g (List.mem_of_getElem? hg')
    simpa using this

theorem strStats_min_le_max (utf8 : Bool) (valid : Bytes → Bool) (N : Nat) (vals : List Bytes) (m R : Bytes)
    (hm : (strStats utf8 valid N vals).1 = some m) (hR : (strStats utf8 valid N vals).2 = some R) :
    lexLe m R = true := by
  obtain ⟨_, _, i3, i4, _, _⟩ := strFold_inv utf8 N vals ⟨none, none, false⟩
  cases vals with
  | nil => simp [strStats, strRaw] at hm
  | cons v t =>
    obtain ⟨m', hm', hle1⟩ := i3 v (List.mem_cons_self ..)
    obtain ⟨M, hM, hle2⟩ := i4 v (List.mem_cons_self ..)
    simp only [strStats, strRaw] at hm hR
    rw [hm'] at hm
    cases hm
    simp only [strMax, hM] at hR
    have hmM : lexLe m M = true := lexLe_trans m _ M hle1 hle2
    cases htr : (List.foldl (strStep utf8 N) ⟨none, none, false⟩ (v :: t)).tr with
    | false =>
      simp only [htr, Bool.false_eq_true, if_false, Option.some.injEq] at hR
      subst hR; exact hmM
    | true =>
      simp only [htr, if_true] at hR
      have hMR : lexLt M R = true := by
        cases utf8 with
        | true =>
          have := ext_lt_incU valid M [] M [] R (lexLe_refl M) (Nat.le_refl _) (by simpa using hR)
          simpa using this
        | false =>
          have := ext_lt_inc M M [] R (lexLe_refl M) (Nat.le_refl _) (by simpa using hR)
          simpa using this
      exact lexLe_of_lt m R (lexLt_of_le_of_lt m M R hmM hMR)

theorem floatStats_ordered (P : Int) (hP : 1 ≤ P) (vals : List Int) :
    ∀ a b, canonLo P (floatStats P vals).1 = some a → canonHi P (floatStats P vals).2 = some b → a ≤ b := by
  intro a b ha hb
  by_cases hall : ∀ v ∈ vals, isNaN P v = true
  · rw [floatStats_allNaN P hP vals hall] at ha
    simp [canonLo] at ha
  · have : ∃ v ∈ vals, isNaN P v = false := by
      apply Classical.byContradiction
      intro hne
      apply hall
      intro v hv
      cases h : isNaN P v with
      | true => rfl
      | false => exact absurd ⟨v, hv, h⟩ hne
    obtain ⟨v, hv, hn⟩ := this
    obtain ⟨b1, b2⟩ := floatStats_bounds P hP vals v hv hn
    rw [isNaN_false_iff] at hn
    generalize floatStats P vals = r at *
    obtain ⟨mn, mx⟩ := r
    simp only at b1 b2 ha hb
    simp only [canonLo] at ha
    simp only [canonHi] at hb
    split at ha
    · cases ha
    · split at hb
      · cases hb
      · split at ha <;> split at hb <;> simp only [Option.some.injEq] at ha hb <;> omega

/-- INTERVAL WELL FORMED: `Interval::try_new(min, max).unwrap()` in extract_guarantees never panics — the lower bound
    handed to DataFusion is `≤` the upper bound whenever both are present (all value classes, NaN and short utf8 cuts
    included) -/
theorem interval_ordered_aux (valid : Bytes → Bool) (N : Nat) (ct : CT) (cells : List Cell)
    (hr : match ct with | .int lo hi => lo ≤ hi | .float P => 1 ≤ P | _ => True) (a b : Val)
    (ha : mkLo ct (colStats valid N ct cells).mn = some a) (hb : mkHi ct (colStats valid N ct cells).mx = some b) :
    a.le b = true := by
  cases ct with
  | int lo hi =>
    simp only [colStats, mkLo, mkHi, Option.some.injEq] at ha hb
    subst ha hb
    rw [Val.int_le]
    simp only at hr
    cases hv : intsOf cells with
    | nil => simp [intStats]; exact hr
    | cons x t =>
      have := intStats_bounds lo hi (x :: t) x (List.mem_cons_self ..)
      omega
  | float P =>
    simp only [colStats, mkLo, mkHi] at ha hb
    cases ha' : canonLo P (floatStats P (intsOf cells)).1 with
    | none => rw [ha'] at ha; cases ha
    | some x =>
      cases hb' : canonHi P (floatStats P (intsOf cells)).2 with
      | none => rw [hb'] at hb; cases hb
      | some y =>
        rw [ha'] at ha; rw [hb'] at hb
        simp only [Option.map_some, Option.some.injEq] at ha hb
        subst ha hb
        rw [Val.int_le]
        exact floatStats_ordered P hr (intsOf cells) x y ha' hb'
  | bin =>
    simp only [colStats, mkLo, mkHi] at ha hb
    cases h1 : (strStats false valid N (bytesOf cells)).1 with
    | none => rw [h1] at ha; cases ha
    | some m =>
      cases h2 : (strStats false valid N (bytesOf cells)).2 with
      | none => rw [h2] at hb; cases hb
      | some R =>
        rw [h1] at ha; rw [h2] at hb
        simp only [Option.map_some, Option.some.injEq] at ha hb
        subst ha hb
        rw [Val.bytes_le]
        exact strStats_min_le_max false valid N _ m R h1 h2
  | utf8 =>
    simp only [colStats, mkLo, mkHi] at ha hb
    cases h1 : (strStats true valid N (bytesOf cells)).1 with
    | none => rw [h1] at ha; cases ha
    | some m =>
      cases h2 : (strStats true valid N (bytesOf cells)).2 with
      | none => rw [h2] at hb; cases hb
      | some R =>
        rw [h1] at ha; rw [h2] at hb
        simp only [Option.map_some, Option.some.injEq] at ha hb
        subst ha hb
        rw [Val.bytes_le]
        exact strStats_min_le_max true valid N _ m R h1 h2

end LanceModel.C29
