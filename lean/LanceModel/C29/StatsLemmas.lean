import LanceModel.C29.OrderLemmas
/-
C29 — the statistics collector: recorded min / max bound the values of the page.
-/
namespace LanceModel.C29

/-! ### integers -/

theorem intFold_bounds (vals : List Int) : ∀ (acc : Int × Int),
    (vals.foldl intStep acc).1 ≤ acc.1 ∧ acc.2 ≤ (vals.foldl intStep acc).2 ∧
    ∀ v ∈ vals, (vals.foldl intStep acc).1 ≤ v ∧ v ≤ (vals.foldl intStep acc).2 := by
  induction vals with
  | nil => intro acc; simp
  | cons x t ih =>
    intro acc
    obtain ⟨h1, h2, h3⟩ := ih (intStep acc x)
    simp only [List.foldl_cons]
    have e1 : (intStep acc x).1 ≤ acc.1 ∧ (intStep acc x).1 ≤ x := by
      simp only [intStep]; split <;> omega
    have e2 : acc.2 ≤ (intStep acc x).2 ∧ x ≤ (intStep acc x).2 := by
      simp only [intStep]; split <;> omega
    refine ⟨by omega, by omega, ?_⟩
    intro v hv
    rcases List.mem_cons.mp hv with rfl | hv
    · omega
    · exact h3 v hv

theorem intStats_bounds (lo hi : Int) (vals : List Int) (v : Int) (hv : v ∈ vals) :
    (intStats lo hi vals).1 ≤ v ∧ v ≤ (intStats lo hi vals).2 := by
  unfold intStats
  have hne : vals.isEmpty = false := by cases vals <;> simp_all
  rw [hne]
  exact (intFold_bounds vals (hi, lo)).2.2 v hv

/-- the recorded bounds are attained (the statistics are not merely conservative) -/
theorem intFold_mem (vals : List Int) : ∀ (acc : Int × Int),
    ((vals.foldl intStep acc).1 = acc.1 ∨ (vals.foldl intStep acc).1 ∈ vals) ∧
    ((vals.foldl intStep acc).2 = acc.2 ∨ (vals.foldl intStep acc).2 ∈ vals) := by
  induction vals with
  | nil => intro acc; simp
  | cons x t ih =>
    intro acc
    obtain ⟨h1, h2⟩ := ih (intStep acc x)
    simp only [List.foldl_cons, List.mem_cons]
    have e1 : (intStep acc x).1 = acc.1 ∨ (intStep acc x).1 = x := by
      simp only [intStep]; split <;> simp
    have e2 : (intStep acc x).2 = acc.2 ∨ (intStep acc x).2 = x := by
      simp only [intStep]; split <;> simp
    constructor
    · rcases h1 with h | h
      · rcases e1 with e | e
        · left; rw [h, e]
        · right; left; rw [h, e]
      · right; right; exact h
    · rcases h2 with h | h
      · rcases e2 with e | e
        · left; rw [h, e]
        · right; left; rw [h, e]
      · right; right; exact h

/-! ### floats -/

theorem norm_cases (k : Int) : (k = -1 ∧ norm k = 0) ∨ (k ≠ -1 ∧ norm k = k) := by
  unfold norm; split <;> omega

theorem isNaN_false_iff (P k : Int) : isNaN P k = false ↔ (-P - 1 ≤ k ∧ k ≤ P) := by
  simp only [isNaN, Bool.or_eq_false_iff, decide_eq_false_iff_not]
  omega

theorem floatStep_props (P : Int) (acc : Int × Int) (x : Int)
    (h1 : isNaN P acc.1 = false) (h2 : isNaN P acc.2 = false) :
    isNaN P (floatStep P acc x).1 = false ∧ isNaN P (floatStep P acc x).2 = false ∧
    norm (floatStep P acc x).1 ≤ norm acc.1 ∧ norm acc.2 ≤ norm (floatStep P acc x).2 ∧
    (isNaN P x = false → norm (floatStep P acc x).1 ≤ norm x ∧ norm x ≤ norm (floatStep P acc x).2) := by
  cases hx : isNaN P x with
  | true =>
    simp [floatStep, pLt, hx, h1, h2]
  | false =>
    simp only [floatStep, pLt, hx, h1, h2, Bool.not_false, Bool.true_and]
    refine ⟨?_, ?_, ?_, ?_, ?_⟩
    · split <;> assumption
    · split <;> assumption
    · split
      · rename_i h; simp only [decide_eq_true_eq] at h; omega
      · omega
    · split
      · rename_i h; simp only [decide_eq_true_eq] at h; omega
      · omega
    · intro _
      constructor
      · split
        · omega
        · rename_i h; simp only [decide_eq_true_eq] at h; omega
      · split
        · omega
        · rename_i h; simp only [decide_eq_true_eq] at h; omega

theorem floatFold_inv (P : Int) (vals : List Int) : ∀ (acc : Int × Int),
    isNaN P acc.1 = false → isNaN P acc.2 = false →
    isNaN P (vals.foldl (floatStep P) acc).1 = false ∧ isNaN P (vals.foldl (floatStep P) acc).2 = false ∧
    norm (vals.foldl (floatStep P) acc).1 ≤ norm acc.1 ∧ norm acc.2 ≤ norm (vals.foldl (floatStep P) acc).2 ∧
    ∀ v ∈ vals, isNaN P v = false →
      norm (vals.foldl (floatStep P) acc).1 ≤ norm v ∧ norm v ≤ norm (vals.foldl (floatStep P) acc).2 := by
  induction vals with
  | nil => intro acc h1 h2; simp [h1, h2]
  | cons x t ih =>
    intro acc h1 h2
    obtain ⟨s1, s2, s3, s4, s5⟩ := floatStep_props P acc x h1 h2
    obtain ⟨i1, i2, i3, i4, i5⟩ := ih (floatStep P acc x) s1 s2
    simp only [List.foldl_cons]
    refine ⟨i1, i2, by omega, by omega, ?_⟩
    intro v hv hn
    rcases List.mem_cons.mp hv with rfl | hv
    · have := s5 hn; omega
    · exact i5 v hv hn

/-- a page whose non-null values are all NaN (or that has none) keeps the initial `(inf, -inf)` -/
theorem floatFold_allNaN (P : Int) (vals : List Int) (h : ∀ v ∈ vals, isNaN P v = true) :
    ∀ acc, vals.foldl (floatStep P) acc = acc := by
  induction vals with
  | nil => intro acc; rfl
  | cons x t ih =>
    intro acc
    have hx := h x (List.mem_cons_self ..)
    have : floatStep P acc x = acc := by simp [floatStep, pLt, hx]
    simp only [List.foldl_cons, this]
    exact ih (fun v hv => h v (List.mem_cons_of_mem _ hv)) acc

theorem floatStats_allNaN (P : Int) (hP : 1 ≤ P) (vals : List Int) (h : ∀ v ∈ vals, isNaN P v = true) :
    floatStats P vals = (-P - 1, P) := by
  unfold floatStats
  rw [floatFold_allNaN P vals h]
  simp only [floatSwap, and_self, if_true, floatZero]
  rcases norm_cases (-P - 1) with ⟨a, b⟩ | ⟨a, b⟩ <;> rcases norm_cases P with ⟨c, d⟩ | ⟨c, d⟩
  · omega
  · omega
  · omega
  · rw [b, d]
    have h1 : ¬ (-P - 1 = 0) := by omega
    have h2 : ¬ (P = 0) := by omega
    simp [h1, h2]

/-- STATS BOUNDS (floats): every non-NaN value of the page lies in the recorded `[min, max]` under the total order -/
theorem floatStats_bounds (P : Int) (hP : 1 ≤ P) (vals : List Int) (v : Int) (hv : v ∈ vals)
    (hn : isNaN P v = false) : (floatStats P vals).1 ≤ v ∧ v ≤ (floatStats P vals).2 := by
  have i0 : isNaN P (P, -P - 1).1 = false := by rw [isNaN_false_iff]; simp only; omega
  have i0' : isNaN P (P, -P - 1).2 = false := by rw [isNaN_false_iff]; simp only; omega
  obtain ⟨n1, n2, _, _, h5⟩ := floatFold_inv P vals (P, -P - 1) i0 i0'
  have hb := h5 v hv hn
  rw [isNaN_false_iff] at hn n1 n2
  unfold floatStats
  generalize vals.foldl (floatStep P) (P, -P - 1) = r at *
  obtain ⟨r1, r2⟩ := r
  simp only at hb n1 n2
  have hsw : floatSwap P (r1, r2) = (r1, r2) := by
    unfold floatSwap
    split
    · rename_i h
      simp only at h
      obtain ⟨e1, e2⟩ := h
      subst e1 e2
      rcases norm_cases r1 with ⟨a, b⟩ | ⟨a, b⟩ <;> rcases norm_cases (-r1 - 1) with ⟨c, d⟩ | ⟨c, d⟩ <;>
        rcases norm_cases v with ⟨e, f⟩ | ⟨e, f⟩ <;> omega
    · rfl
  rw [hsw]
  simp only [floatZero]
  rcases norm_cases r1 with ⟨a, b⟩ | ⟨a, b⟩ <;> rcases norm_cases r2 with ⟨c, d⟩ | ⟨c, d⟩ <;>
    rcases norm_cases v with ⟨e, f⟩ | ⟨e, f⟩ <;> (constructor <;> split <;> omega)

/-! ### strings and binaries -/

theorem bnd_le (s : Bytes) (n : Nat) : bnd s n ≤ n := by
  induction n with
  | zero => simp [bnd]
  | succ n ih =>
    unfold bnd
    split
    · split
      · omega
      · omega
    · omega

theorem trunc_length_le (utf8 : Bool) (N : Nat) (s : Bytes) : (trunc utf8 N s).length ≤ N := by
  unfold trunc
  split
  · have := bnd_le s N
    simp only [List.length_take]; omega
  · simp only [List.length_take]; omega

theorem trunc_le (utf8 : Bool) (N : Nat) (s : Bytes) : lexLe (trunc utf8 N s) s = true := by
  unfold trunc
  split <;> exact lexLe_take _ s

/-- the value the collector compares: the truncation of an over-long value, the value itself otherwise -/
def tv (utf8 : Bool) (N : Nat) (v : Bytes) : Bytes := if v.length > N then trunc utf8 N v else v

theorem tv_length_le (utf8 : Bool) (N : Nat) (v : Bytes) : (tv utf8 N v).length ≤ N := by
  unfold tv
  split
  · exact trunc_length_le utf8 N v
  · omega

theorem tv_le (utf8 : Bool) (N : Nat) (v : Bytes) : lexLe (tv utf8 N v) v = true := by
  unfold tv
  split
  · exact trunc_le utf8 N v
  · exact lexLe_refl v

theorem strStep_eq (utf8 : Bool) (N : Nat) (a : SAcc) (v : Bytes) :
    strStep utf8 N a v = strPut a (tv utf8 N v) (a.tr || decide (v.length > N)) := by
  unfold strStep tv
  split <;> simp [*]

theorem strPut_mn (a : SAcc) (val : Bytes) (tr : Bool) :
    ∃ m, (strPut a val tr).mn = some m ∧ lexLe m val = true ∧ (m = val ∨ a.mn = some m) ∧
      (∀ m0, a.mn = some m0 → lexLe m m0 = true) := by
  unfold strPut
  cases h : a.mn with
  | none => exact ⟨val, rfl, lexLe_refl val, Or.inl rfl, by simp⟩
  | some m0 =>
    simp only
    cases hl : lexLt val m0 with
    | true =>
      refine ⟨val, by simp, lexLe_refl val, Or.inl rfl, ?_⟩
      intro m1 hm1
      cases hm1
      exact lexLe_of_lt val m0 hl
    | false =>
      refine ⟨m0, by simp, by simp [lexLe, hl], Or.inr rfl, ?_⟩
      intro m1 hm1
      cases hm1
      exact lexLe_refl m0

theorem strPut_mx (a : SAcc) (val : Bytes) (tr : Bool) :
    ∃ m, (strPut a val tr).mx = some m ∧ lexLe val m = true ∧ (m = val ∨ a.mx = some m) ∧
      (∀ m0, a.mx = some m0 → lexLe m0 m = true) := by
  unfold strPut
  cases h : a.mx with
  | none => exact ⟨val, rfl, lexLe_refl val, Or.inl rfl, by simp⟩
  | some m0 =>
    simp only
    cases hl : lexLt m0 val with
    | true =>
      refine ⟨val, by simp, lexLe_refl val, Or.inl rfl, ?_⟩
      intro m1 hm1
      cases hm1
      exact lexLe_of_lt m0 val hl
    | false =>
      refine ⟨m0, by simp, by simp [lexLe, hl], Or.inr rfl, ?_⟩
      intro m1 hm1
      cases hm1
      exact lexLe_refl m0

theorem strPut_tr (a : SAcc) (val : Bytes) (tr : Bool) : (strPut a val tr).tr = tr := rfl

/-- invariant of the collector loop -/
theorem strFold_inv (utf8 : Bool) (N : Nat) (vals : List Bytes) : ∀ (acc : SAcc),
    (∀ m0, acc.mn = some m0 → ∃ m, (vals.foldl (strStep utf8 N) acc).mn = some m ∧ lexLe m m0 = true) ∧
    (∀ m0, acc.mx = some m0 → ∃ m, (vals.foldl (strStep utf8 N) acc).mx = some m ∧ lexLe m0 m = true) ∧
    (∀ v ∈ vals, ∃ m, (vals.foldl (strStep utf8 N) acc).mn = some m ∧ lexLe m (tv utf8 N v) = true) ∧
    (∀ v ∈ vals, ∃ m, (vals.foldl (strStep utf8 N) acc).mx = some m ∧ lexLe (tv utf8 N v) m = true) ∧
    (∀ m, (vals.foldl (strStep utf8 N) acc).mx = some m → acc.mx = some m ∨ ∃ v ∈ vals, m = tv utf8 N v) ∧
    ((vals.foldl (strStep utf8 N) acc).tr = (acc.tr || vals.any (fun v => decide (v.length > N)))) := by
  induction vals with
  | nil =>
    intro acc
    refine ⟨?_, ?_, ?_, ?_, ?_, ?_⟩
    · intro m0 h; exact ⟨m0, h, lexLe_refl m0⟩
    · intro m0 h; exact ⟨m0, h, lexLe_refl m0⟩
    · intro v hv; cases hv
    · intro v hv; cases hv
    · intro m h; exact Or.inl h
    · simp
  | cons x t ih =>
    intro acc
    obtain ⟨i1, i2, i3, i4, i5, i6⟩ := ih (strStep utf8 N acc x)
    simp only [List.foldl_cons]
    rw [strStep_eq] at i1 i2 i5 i6 ⊢
    obtain ⟨mn1, hmn1, hmn1le, _, hmn1acc⟩ := strPut_mn acc (tv utf8 N x) (acc.tr || decide (x.length > N))
    obtain ⟨mx1, hmx1, hmx1le, hmx1src, hmx1acc⟩ := strPut_mx acc (tv utf8 N x) (acc.tr || decide (x.length > N))
    refine ⟨?_, ?_, ?_, ?_, ?_, ?_⟩
    · intro m0 h
      obtain ⟨m, hm, hle⟩ := i1 mn1 hmn1
      exact ⟨m, hm, lexLe_trans m mn1 m0 hle (hmn1acc m0 h)⟩
    · intro m0 h
      obtain ⟨m, hm, hle⟩ := i2 mx1 hmx1
      exact ⟨m, hm, lexLe_trans m0 mx1 m (hmx1acc m0 h) hle⟩
    · intro v hv
      rcases List.mem_cons.mp hv with rfl | hv
      · obtain ⟨m, hm, hle⟩ := i1 mn1 hmn1
        exact ⟨m, hm, lexLe_trans m mn1 _ hle hmn1le⟩
      · rw [← strStep_eq]; exact i3 v hv
    · intro v hv
      rcases List.mem_cons.mp hv with rfl | hv
      · obtain ⟨m, hm, hle⟩ := i2 mx1 hmx1
        exact ⟨m, hm, lexLe_trans _ mx1 m hmx1le hle⟩
      · rw [← strStep_eq]; exact i4 v hv
    · intro m hm
      rcases i5 m hm with h | ⟨v, hv, e⟩
      · rw [hmx1] at h
        cases h
        rcases hmx1src with e | e
        · right; exact ⟨x, List.mem_cons_self .., e⟩
        · left; exact e
      · right; exact ⟨v, List.mem_cons_of_mem _ hv, e⟩
    · rw [i6, strPut_tr]
      simp [Bool.or_assoc]

/-- LOWER BOUND (strings, binaries; any prefix length): the recorded minimum is `≤` every value of the page -/
theorem strStats_min_le (utf8 : Bool) (valid : Bytes → Bool) (N : Nat) (vals : List Bytes) (v : Bytes) (hv : v ∈ vals) :
    ∃ m, (strStats utf8 valid N vals).1 = some m ∧ lexLe m v = true := by
  obtain ⟨_, _, i3, _, _, _⟩ := strFold_inv utf8 N vals ⟨none, none, false⟩
  obtain ⟨m, hm, hle⟩ := i3 v hv
  exact ⟨m, hm, lexLe_trans m _ v hle (tv_le utf8 N v)⟩

theorem tryBytes_gt (valid : Bytes → Bool) (pre rest : Bytes) : ∀ (fuel c c' : Nat),
    tryBytes valid pre rest c fuel = some c' → c ≤ c' := by
  intro fuel
  induction fuel with
  | zero => intro c c' h; simp [tryBytes] at h
  | succ n ih =>
    intro c c' h
    unfold tryBytes at h
    split at h
    · cases h; omega
    · have := ih (c + 1) c' h; omega

/-- the carry of `increment`: every string that starts with something `≤ M` of at least `M`'s length is `<` the
    incremented `M` -/
theorem ext_lt_inc : ∀ (M t' t r : Bytes), lexLe t' M = true → M.length ≤ t'.length → inc M = some r →
    lexLt (t' ++ t) r = true := by
  intro M
  induction M with
  | nil => intro t' t r _ _ h; simp [inc] at h
  | cons b M ih =>
    intro t' t r hle hlen hinc
    cases t' with
    | nil => simp at hlen
    | cons a t' =>
      simp only [lexLe, lexLt, Bool.not_eq_true', Bool.or_eq_false_iff, decide_eq_false_iff_not,
        Bool.and_eq_false_imp, decide_eq_true_eq] at hle
      obtain ⟨h1, h2⟩ := hle
      simp only [List.length_cons] at hlen
      unfold inc at hinc
      split at hinc
      · rename_i r' hr'
        cases hinc
        simp only [List.cons_append, lexLt, Bool.or_eq_true, Bool.and_eq_true, decide_eq_true_eq]
        by_cases hab : a < b
        · left; exact hab
        · right
          have e : a = b := by omega
          refine ⟨e, ih t' t r' ?_ (by omega) hr'⟩
          have := h2 e.symm
          simpa [lexLe] using this
      · split at hinc
        · cases hinc
        · cases hinc
          simp only [List.cons_append, lexLt, Bool.or_eq_true, Bool.and_eq_true, decide_eq_true_eq]
          left; omega

theorem ext_lt_incU (valid : Bytes → Bool) : ∀ (M pre t' t r : Bytes), lexLe t' M = true → M.length ≤ t'.length →
    incU valid pre M = some r → lexLt (t' ++ t) r = true := by
  intro M
  induction M with
  | nil => intro pre t' t r _ _ h; simp [incU] at h
  | cons b M ih =>
    intro pre t' t r hle hlen hinc
    cases t' with
    | nil => simp at hlen
    | cons a t' =>
      simp only [lexLe, lexLt, Bool.not_eq_true', Bool.or_eq_false_iff, decide_eq_false_iff_not,
        Bool.and_eq_false_imp, decide_eq_true_eq] at hle
      obtain ⟨h1, h2⟩ := hle
      simp only [List.length_cons] at hlen
      unfold incU at hinc
      split at hinc
      · rename_i r' hr'
        cases hinc
        simp only [List.cons_append, lexLt, Bool.or_eq_true, Bool.and_eq_true, decide_eq_true_eq]
        by_cases hab : a < b
        · left; exact hab
        · right
          have e : a = b := by omega
          refine ⟨e, ih (pre ++ [b]) t' t r' ?_ (by omega) hr'⟩
          have := h2 e.symm
          simpa [lexLe] using this
      · split at hinc
        · rename_i c hc
          cases hinc
          have := tryBytes_gt valid pre M _ _ _ hc
          simp only [List.cons_append, lexLt, Bool.or_eq_true, Bool.and_eq_true, decide_eq_true_eq]
          left; omega
        · cases hinc

/-- the values that are truncated are truncated to exactly `N` bytes — always true for binaries, true for strings whose
    64-byte cut does not fall inside a multi-byte character -/
def ExactTrunc (utf8 : Bool) (N : Nat) (vals : List Bytes) : Prop :=
  ∀ v ∈ vals, v.length > N → (trunc utf8 N v).length = N

theorem exactTrunc_bin (N : Nat) (vals : List Bytes) : ExactTrunc false N vals := by
  intro v _ h
  simp only [trunc, Bool.false_eq_true, if_false, List.length_take]
  omega

/-- UPPER BOUND (strings, binaries; any prefix length) under `ExactTrunc`: a recorded maximum is `≥` every value -/
theorem strStats_le_max (utf8 : Bool) (valid : Bytes → Bool) (N : Nat) (vals : List Bytes)
    (hex : ExactTrunc utf8 N vals) (v : Bytes) (hv : v ∈ vals) (R : Bytes)
    (hR : (strStats utf8 valid N vals).2 = some R) : lexLe v R = true := by
  obtain ⟨_, _, _, i4, i5, i6⟩ := strFold_inv utf8 N vals ⟨none, none, false⟩
  obtain ⟨M, hM, hle⟩ := i4 v hv
  simp only [strStats, strMax, strRaw] at hR
  rw [hM] at hR
  simp only at hR
  have hMlen : M.length ≤ N := by
    rcases i5 M hM with h | ⟨w, _, e⟩
    · cases h
    · rw [e]; exact tv_length_le utf8 N w
  cases htr : (vals.foldl (strStep utf8 N) ⟨none, none, false⟩).tr with
  | false =>
    simp only [htr, Bool.false_eq_true, if_false, Option.some.injEq] at hR
    subst hR
    rw [i6] at htr
    simp only [Bool.false_or, List.any_eq_false, decide_eq_true_eq] at htr
    have : tv utf8 N v = v := by
      unfold tv
      rw [if_neg (htr v hv)]
    rw [this] at hle
    exact hle
  | true =>
    simp only [htr, if_true] at hR
    have hinc : ∀ (t' t : Bytes), lexLe t' M = true → M.length ≤ t'.length → lexLt (t' ++ t) R = true := by
      intro t' t h1 h2
      cases utf8 with
      | true => exact ext_lt_incU valid M [] t' t R h1 h2 (by simpa using hR)
      | false => exact ext_lt_inc M t' t R h1 h2 (by simpa using hR)
    have hlt : lexLt v R = true := by
      by_cases hlong : v.length > N
      · have htv : tv utf8 N v = trunc utf8 N v := by unfold tv; rw [if_pos hlong]
        have hlen : (tv utf8 N v).length = N := by rw [htv]; exact hex v hv hlong
        have hpre : ∃ rest, v = tv utf8 N v ++ rest := by
          rw [htv]
          unfold trunc
          split
          · exact ⟨v.drop (bnd v N), (List.take_append_drop _ v).symm⟩
          · exact ⟨v.drop N, (List.take_append_drop _ v).symm⟩
        obtain ⟨rest, hrest⟩ := hpre
        rw [hrest]
        exact hinc _ rest hle (by omega)
      · have htv : tv utf8 N v = v := by unfold tv; rw [if_neg hlong]
        rw [htv] at hle
        have hMR : lexLt M R = true := by
          have := hinc M [] (lexLe_refl M) (Nat.le_refl _)
          simpa using this
        exact lexLt_of_le_of_lt v M R hle hMR
    exact lexLe_of_lt v R hlt

end LanceModel.C29
