import LanceModel.C29.Driver
def main : IO Unit := LanceModel.Util.runDriver LanceModel.C29.Driver.step none
