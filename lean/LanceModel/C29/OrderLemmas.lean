import LanceModel.C29.Model
/-
C29 — the orders: byte-wise lexicographic order on strings, the order on `Val`.
-/
namespace LanceModel.C29

theorem lexLt_irrefl (a : Bytes) : lexLt a a = false := by
  induction a with
  | nil => rfl
  | cons x t ih => simp [lexLt, ih]

theorem lexLt_nil_right (a : Bytes) : lexLt a [] = false := by
  cases a <;> rfl

theorem lexLt_trans : ∀ (a b c : Bytes), lexLt a b = true → lexLt b c = true → lexLt a c = true := by
  intro a
  induction a with
  | nil =>
    intro b c h1 h2
    cases c with
    | nil => simp [lexLt_nil_right] at h2
    | cons z c => rfl
  | cons x a ih =>
    intro b c h1 h2
    cases b with
    | nil => simp [lexLt] at h1
    | cons y b =>
      cases c with
      | nil => simp [lexLt] at h2
      | cons z c =>
        simp only [lexLt, Bool.or_eq_true, Bool.and_eq_true, decide_eq_true_eq] at h1 h2 ⊢
        rcases h1 with h1 | ⟨h1, h1'⟩ <;> rcases h2 with h2 | ⟨h2, h2'⟩
        · left; omega
        · left; omega
        · left; omega
        · right; exact ⟨by omega, ih b c h1' h2'⟩

theorem lexLt_tri : ∀ (a b : Bytes), lexLt a b = true ∨ a = b ∨ lexLt b a = true := by
  intro a
  induction a with
  | nil => intro b; cases b <;> simp [lexLt]
  | cons x a ih =>
    intro b
    cases b with
    | nil => simp [lexLt]
    | cons y b =>
      simp only [lexLt, Bool.or_eq_true, Bool.and_eq_true, decide_eq_true_eq, List.cons.injEq]
      rcases Nat.lt_trichotomy x y with h | h | h
      · left; left; exact h
      · rcases ih b with h' | h' | h'
        · left; right; exact ⟨h, h'⟩
        · right; left; exact ⟨h, h'⟩
        · right; right; right; exact ⟨h.symm, h'⟩
      · right; right; left; exact h

theorem lexLt_asymm (a b : Bytes) (h : lexLt a b = true) : lexLt b a = false := by
  cases hb : lexLt b a with
  | false => rfl
  | true =>
    have := lexLt_trans a b a h hb
    rw [lexLt_irrefl] at this
    cases this

theorem lexLe_refl (a : Bytes) : lexLe a a = true := by simp [lexLe, lexLt_irrefl]

theorem lexLe_of_lt (a b : Bytes) (h : lexLt a b = true) : lexLe a b = true := by
  simp [lexLe, lexLt_asymm a b h]

theorem lexLt_of_lt_of_le (a b c : Bytes) (h1 : lexLt a b = true) (h2 : lexLe b c = true) : lexLt a c = true := by
  simp only [lexLe, Bool.not_eq_true'] at h2
  rcases lexLt_tri b c with h | h | h
  · exact lexLt_trans a b c h1 h
  · subst h; exact h1
  · rw [h] at h2; cases h2

theorem lexLt_of_le_of_lt (a b c : Bytes) (h1 : lexLe a b = true) (h2 : lexLt b c = true) : lexLt a c = true := by
  simp only [lexLe, Bool.not_eq_true'] at h1
  rcases lexLt_tri a b with h | h | h
  · exact lexLt_trans a b c h h2
  · subst h; exact h2
  · rw [h] at h1; cases h1

theorem lexLe_trans (a b c : Bytes) (h1 : lexLe a b = true) (h2 : lexLe b c = true) : lexLe a c = true := by
  rcases lexLt_tri a b with h | h | h
  · exact lexLe_of_lt a c (lexLt_of_lt_of_le a b c h h2)
  · subst h; exact h2
  · simp [lexLe, h] at h1

theorem lexLe_total (a b : Bytes) : lexLe a b = true ∨ lexLe b a = true := by
  rcases lexLt_tri a b with h | h | h
  · left; exact lexLe_of_lt a b h
  · subst h; left; exact lexLe_refl a
  · right; exact lexLe_of_lt b a h

theorem lexLe_antisymm (a b : Bytes) (h1 : lexLe a b = true) (h2 : lexLe b a = true) : a = b := by
  simp only [lexLe, Bool.not_eq_true'] at h1 h2
  rcases lexLt_tri a b with h | h | h
  · rw [h] at h2; cases h2
  · exact h
  · rw [h] at h1; cases h1

/-- a prefix is `≤` the string -/
theorem lexLe_take (n : Nat) (s : Bytes) : lexLe (s.take n) s = true := by
  induction s generalizing n with
  | nil => simp [lexLe, lexLt]
  | cons x s ih =>
    cases n with
    | zero => simp [lexLe, lexLt]
    | succ n =>
      have := ih n
      simp only [lexLe, Bool.not_eq_true'] at this
      simp [lexLe, lexLt, this]

theorem lexLe_append (p t : Bytes) : lexLe p (p ++ t) = true := by
  have := lexLe_take p.length (p ++ t)
  simpa using this

theorem lexLt_append_left (p a b : Bytes) : lexLt (p ++ a) (p ++ b) = lexLt a b := by
  induction p with
  | nil => rfl
  | cons x p ih => simp [lexLt, ih]

/-! ### `Val` -/

theorem Val.lt_irrefl (a : Val) : a.lt a = false := by
  cases a <;> simp [Val.lt, lexLt_irrefl]

theorem Val.lt_trans (a b c : Val) (h1 : a.lt b = true) (h2 : b.lt c = true) : a.lt c = true := by
  cases a <;> cases b <;> cases c <;> simp [Val.lt] at h1 h2 ⊢
  · omega
  · exact lexLt_trans _ _ _ h1 h2

theorem Val.lt_tri (a b : Val) : a.lt b = true ∨ a = b ∨ b.lt a = true := by
  cases a with
  | int x =>
    cases b with
    | int y =>
      simp only [Val.lt, decide_eq_true_eq, Val.int.injEq]
      omega
    | bytes y => simp [Val.lt]
  | bytes x =>
    cases b with
    | int y => simp [Val.lt]
    | bytes y =>
      simp only [Val.lt, Val.bytes.injEq]
      exact lexLt_tri x y

theorem Val.lt_asymm (a b : Val) (h : a.lt b = true) : b.lt a = false := by
  cases hb : b.lt a with
  | false => rfl
  | true =>
    have := Val.lt_trans a b a h hb
    rw [Val.lt_irrefl] at this
    cases this

theorem Val.le_refl (a : Val) : a.le a = true := by simp [Val.le, Val.lt_irrefl]

theorem Val.le_of_lt (a b : Val) (h : a.lt b = true) : a.le b = true := by
  simp [Val.le, Val.lt_asymm a b h]

theorem Val.lt_of_lt_of_le (a b c : Val) (h1 : a.lt b = true) (h2 : b.le c = true) : a.lt c = true := by
  simp only [Val.le, Bool.not_eq_true'] at h2
  rcases Val.lt_tri b c with h | h | h
  · exact Val.lt_trans a b c h1 h
  · subst h; exact h1
  · rw [h] at h2; cases h2

theorem Val.lt_of_le_of_lt (a b c : Val) (h1 : a.le b = true) (h2 : b.lt c = true) : a.lt c = true := by
  simp only [Val.le, Bool.not_eq_true'] at h1
  rcases Val.lt_tri a b with h | h | h
  · exact Val.lt_trans a b c h h2
  · subst h; exact h2
  · rw [h] at h1; cases h1

theorem Val.le_trans (a b c : Val) (h1 : a.le b = true) (h2 : b.le c = true) : a.le c = true := by
  rcases Val.lt_tri a b with h | h | h
  · exact Val.le_of_lt a c (Val.lt_of_lt_of_le a b c h h2)
  · subst h; exact h2
  · simp [Val.le, h] at h1

theorem Val.le_antisymm (a b : Val) (h1 : a.le b = true) (h2 : b.le a = true) : a = b := by
  simp only [Val.le, Bool.not_eq_true'] at h1 h2
  rcases Val.lt_tri a b with h | h | h
  · rw [h] at h2; cases h2
  · exact h
  · rw [h] at h1; cases h1

theorem Val.not_lt_of_le (a b : Val) (h : a.le b = true) : b.lt a = false := by
  simpa [Val.le] using h

theorem Val.int_le (a b : Int) : (Val.int a).le (Val.int b) = true ↔ a ≤ b := by
  simp [Val.le, Val.lt]

theorem Val.bytes_le (a b : Bytes) : (Val.bytes a).le (Val.bytes b) = lexLe a b := by
  simp [Val.le, Val.lt, lexLe]

end LanceModel.C29
