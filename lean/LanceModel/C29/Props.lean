import LanceModel.C29.PruneLemmas
/-
C29 — Statistics-based pruning is conservative.

  "Any page, zone or file skipped because of recorded statistics (min, max, null count, NaN count) contains no row that
   satisfies the predicate, so pruning never changes a query result."

Property theorems (all inputs; no size bound) + non-vacuity examples.  The model mirrors the code as it is in /repo.
Three regions where the code does NOT meet the property were found; for each the full statement stays visible
(`C29_full`, `truncate_bounds_utf8_full`), the partial theorem excludes exactly that region by a decidable hypothesis and
a counterexample theorem exhibits a concrete witness (replayed on the real code by `corpus/C29/edge-cases.case`):

* `noMixedNaN`     — the collector ignores NaN when it records min/max, the scan compares with the total order
                     (NaN above +inf): a page `[1.0, NaN]` is skipped for `v > 5`;
* `exactTruncB`    — `get_string_statistics` cuts an over-long string at a character boundary, possibly *before* byte 64;
                     the maximum of the truncated values, incremented, can then be smaller than such a string;
* `noMaybeSingle`  — DataFusion's `NullableInterval::single_value` answers for `MaybeNull [a, a]` too, the rewriter
                     replaces the column by the literal `a` and `v IS NULL` folds to `false`: a page `['a', NULL, 'a']`
                     is skipped for `v IS NULL`.
-/
namespace LanceModel.C29

/-! ## truncate_bounds: truncated string / binary bounds -/

/-- the 0xFF carry of `increment`: the incremented prefix is strictly above EVERY string that starts with the prefix -/
theorem increment_carry (p r : Bytes) (h : inc p = some r) (t : Bytes) : lexLt (p ++ t) r = true :=
  ext_lt_inc p p t r (lexLe_refl p) (Nat.le_refl _) h

/-- `increment` gives up (the maximum is recorded as NULL = unbounded) exactly when every byte is 0xFF -/
theorem increment_none_iff (p : Bytes) : inc p = none ↔ ∀ b ∈ p, b = 255 := by
  induction p with
  | nil => simp [inc]
  | cons b rest ih =>
    unfold inc
    cases hr : inc rest with
    | some r =>
      simp only [reduceCtorEq, false_iff]
      intro hall
      have : inc rest = none := ih.mpr (fun x hx => hall x (List.mem_cons_of_mem _ hx))
      rw [this] at hr; cases hr
    | none =>
      simp only
      constructor
      · intro h
        split at h
        · rename_i hb
          intro x hx
          rcases List.mem_cons.mp hx with e | e
          · rw [e]; exact hb
          · exact ih.mp hr x e
        · cases h
      · intro hall
        rw [if_pos (hall b (List.mem_cons_self ..))]

/-- the same for `increment_utf8`, whatever the validity predicate -/
theorem increment_utf8_carry (valid : Bytes → Bool) (p r : Bytes) (h : incU valid [] p = some r) (t : Bytes) :
    lexLt (p ++ t) r = true :=
  ext_lt_incU valid p [] p t r (lexLe_refl p) (Nat.le_refl _) h

/-- TRUNCATE_BOUNDS (Binary / LargeBinary, every prefix length `N`, every page): recorded min `≤` every value `≤` recorded
    max, byte-wise; a NULL max (all-0xFF prefix) is unbounded.  Full strength. -/
theorem truncate_bounds (valid : Bytes → Bool) (N : Nat) (vals : List Bytes) (v : Bytes) (hv : v ∈ vals) :
    (∃ m, (strStats false valid N vals).1 = some m ∧ lexLe m v = true) ∧
    (∀ R, (strStats false valid N vals).2 = some R → lexLe v R = true) :=
  ⟨strStats_min_le false valid N vals v hv,
   fun R hR => strStats_le_max false valid N vals (exactTrunc_bin N vals) v hv R hR⟩

example : strStats false (fun _ => true) 2 [[1, 255, 255, 7], [1, 255], [0]] = (some [0], some [2, 0]) := by decide
example : strStats false (fun _ => true) 2 [[255, 255, 255], [3]] = (some [3], none) := by decide

/-- the full statement for Utf8 / LargeUtf8 columns — NOT met by the code -/
def truncate_bounds_utf8_full : Prop :=
  ∀ (N : Nat) (vals : List Bytes) (v : Bytes), v ∈ vals →
    (∃ m, (strStats true validUtf8 N vals).1 = some m ∧ lexLe m v = true) ∧
    (∀ R, (strStats true validUtf8 N vals).2 = some R → lexLe v R = true)

/-- TRUNCATE_BOUNDS (Utf8), partial: holds when every over-long string is cut at exactly `N` bytes (`ExactTrunc`; e.g. all
    ASCII).  The lower bound holds unconditionally. -/
theorem truncate_bounds_utf8_partial (valid : Bytes → Bool) (N : Nat) (vals : List Bytes)
    (hex : ExactTrunc true N vals) (v : Bytes) (hv : v ∈ vals) :
    (∃ m, (strStats true valid N vals).1 = some m ∧ lexLe m v = true) ∧
    (∀ R, (strStats true valid N vals).2 = some R → lexLe v R = true) :=
  ⟨strStats_min_le true valid N vals v hv, fun R hR => strStats_le_max true valid N vals hex v hv R hR⟩

theorem truncate_bounds_utf8_min (valid : Bytes → Bool) (N : Nat) (vals : List Bytes) (v : Bytes) (hv : v ∈ vals) :
    ∃ m, (strStats true valid N vals).1 = some m ∧ lexLe m v = true :=
  strStats_min_le true valid N vals v hv

/-- "aaaé…" (cut to "aaa", 3 < 4 bytes) next to "aaaa": the recorded max is "aaab" < "aaaéz" -/
theorem truncate_bounds_utf8_counterexample : ¬ truncate_bounds_utf8_full := by
  intro h
  have := (h 4 [[97, 97, 97, 195, 169, 122], [97, 97, 97, 97]] [97, 97, 97, 195, 169, 122] (by decide)).2
    [97, 97, 97, 98] (by decide)
  revert this
  decide

example : ExactTrunc true 4 [[97, 97, 97, 97, 195, 169], [98]] := by
  intro v hv hl
  simp only [List.mem_cons, List.not_mem_nil, or_false] at hv
  rcases hv with rfl | rfl
  · decide
  · simp at hl

/-! ## stats_bounds: recorded min / max / null count -/

/-- STATS_BOUNDS (integers, dates, timestamps, decimals — `compute_primitive_statistics`): min `≤` v `≤` max for every
    non-null value; a page without one reports the whole range of the type.  Full strength. -/
theorem stats_bounds_int (lo hi : Int) (vals : List Int) (v : Int) (hv : v ∈ vals) :
    (intStats lo hi vals).1 ≤ v ∧ v ≤ (intStats lo hi vals).2 :=
  intStats_bounds lo hi vals v hv

/-- and they are attained (values within the range of the type), so a mutation that widens or narrows a bound changes
    the model -/
theorem stats_tight_int (lo hi : Int) (vals : List Int) (h : vals ≠ []) (hr : ∀ v ∈ vals, lo ≤ v ∧ v ≤ hi) :
    (intStats lo hi vals).1 ∈ vals ∧ (intStats lo hi vals).2 ∈ vals := by
  unfold intStats
  have hne : vals.isEmpty = false := by cases vals <;> simp_all
  rw [hne]
  simp only [Bool.false_eq_true, if_false]
  obtain ⟨h1, h2⟩ := intFold_mem vals (hi, lo)
  obtain ⟨_, _, b3⟩ := intFold_bounds vals (hi, lo)
  cases vals with
  | nil => exact absurd rfl h
  | cons x t =>
    have hx := b3 x (List.mem_cons_self ..)
    have hxr := hr x (List.mem_cons_self ..)
    constructor
    · rcases h1 with e | e
      · simp only at e
        have : x = (List.foldl intStep (hi, lo) (x :: t)).1 := by omega
        rw [← this]; exact List.mem_cons_self ..
      · exact e
    · rcases h2 with e | e
      · simp only at e
        have : x = (List.foldl intStep (hi, lo) (x :: t)).2 := by omega
        rw [← this]; exact List.mem_cons_self ..
      · exact e

example : intStats (-128) 127 [5, -3, 9] = (-3, 9) := by decide
example : intStats (-128) 127 [] = (-128, 127) := by decide

/-- STATS_BOUNDS (floats — `compute_float_statistics` + `get_float_statistics`): for every `P ≥ 1` (key of +inf) and every
    non-null, non-NaN value (±0, ±inf, subnormals included): min `≤` v `≤` max under the TOTAL order the scan compares
    with — in particular a page holding +0.0 records min = -0.0 and one holding -0.0 records max = +0.0.  Full strength. -/
theorem stats_bounds_float (P : Int) (hP : 1 ≤ P) (vals : List Int) (v : Int) (hv : v ∈ vals) (hn : isNaN P v = false) :
    (floatStats P vals).1 ≤ v ∧ v ≤ (floatStats P vals).2 :=
  floatStats_bounds P hP vals v hv hn

/-- a page whose values are all NaN (or all NULL) reports `[-inf, +inf]` -/
theorem stats_float_all_nan (P : Int) (hP : 1 ≤ P) (vals : List Int) (h : ∀ v ∈ vals, isNaN P v = true) :
    floatStats P vals = (-P - 1, P) :=
  floatStats_allNaN P hP vals h

-- P = 10: +0.0 = 0, -0.0 = -1, +inf = 10, -inf = -11, NaN = 11.. / ..-12
example : floatStats 10 [0] = (-1, 0) := by decide
example : floatStats 10 [-1] = (-1, 0) := by decide
example : floatStats 10 [3, 11, -12, 5] = (3, 5) := by decide
example : floatStats 10 [10, -11] = (-11, 10) := by decide
example : floatStats 10 [11, 12] = (-11, 10) := by decide

/-- the recorded null count is the number of NULLs -/
theorem null_count_exact (valid : Bytes → Bool) (N : Nat) (ct : CT) (cells : List Cell) :
    (colStats valid N ct cells).nc = (cells.filter (·.isNone)).length := by
  rw [colStats_nc]
  induction cells with
  | nil => rfl
  | cons c t ih => cases c <;> simp [nullCount, ih]

/-! ## prune_sound -/

/-- GUARANTEE_VALID: the `NullableInterval` extract_guarantees derives from the page statistics holds for every cell of the
    page — all value classes (±0, ±inf, NULL, truncated bounds), with NaN and the short utf8 cut excluded by hypothesis -/
theorem guarantee_valid (valid : Bytes → Bool) (N : Nat) (col : Col) (cells : List Cell)
    (ht : typedB col cells = true) (hn : nanB col.ct cells = true) (htr : truncB N col.ct cells = true)
    (cell : Cell) (hc : cell ∈ cells) :
    (mkGuar col.ct col.nullable cells.length (colStats valid N col.ct cells)).Valid cell :=
  mkGuar_valid valid N col cells ht hn htr cell hc

/-- INTERVAL_ORDERED: `Interval::try_new(min, max).unwrap()` in extract_guarantees never panics — the lower bound handed to
    DataFusion is `≤` the upper bound whenever both are present, for every page (NaN and short utf8 cuts included) -/
theorem interval_ordered (valid : Bytes → Bool) (N : Nat) (ct : CT) (cells : List Cell)
    (hr : match ct with | .int lo hi => lo ≤ hi | .float P => 1 ≤ P | _ => True) (a b : Val)
    (ha : mkLo ct (colStats valid N ct cells).mn = some a) (hb : mkHi ct (colStats valid N ct cells).mx = some b) :
    a.le b = true :=
  interval_ordered_aux valid N ct cells hr a b ha hb

example : mkLo (.float 10) (colStats validUtf8 64 (.float 10) [some (.int 10), some (.int 11)]).mn = some (.int 9) ∧
    mkHi (.float 10) (colStats validUtf8 64 (.float 10) [some (.int 10), some (.int 11)]).mx = none := by decide

/-- DECISION_SOUND (the DataFusion side, as mirrored): under guarantees that hold for a row — none of them a single-valued
    MaybeNull — a predicate simplified to literal `false` / `true` / `NULL` evaluates to exactly that on the row -/
theorem decision_sound (gs : List Guar) (r : Row)
    (h : ∀ (c : Nat) (g : Guar), gs[c]? = some g → g.Valid (cellOf r c) ∧ g.maybeSingle = false) (p : Pred) :
    (dec gs p = .F → eval3 r p = some false) ∧ (dec gs p = .T → eval3 r p = some true) ∧
    (dec gs p = .N → eval3 r p = none) :=
  dec_sound gs r (fun c g hg => h c g hg) p

/-- the property at full strength: for every well-typed page and predicate, the scan with statistics returns what the
    scan without statistics returns.  NOT met by the code. -/
def C29_full : Prop :=
  ∀ (N : Nat) (cols : List Col) (page : List Row) (p : Pred), wellTyped cols page = true →
    scanOn validUtf8 N cols page p = scanOff page p

/-- PRUNE_SOUND: page skipped ⇒ no row of the page satisfies the predicate — every prefix length, every column list
    (ints, floats incl. ±0 / ±inf / all-NaN pages, binaries, strings), every page, every predicate — outside the three
    defective regions -/
theorem prune_sound (valid : Bytes → Bool) (N : Nat) (cols : List Col) (page : List Row) (p : Pred)
    (h0 : wellTyped cols page = true) (h1 : noMixedNaN cols page = true) (h2 : exactTruncB N cols page = true)
    (h3 : noMaybeSingle valid N cols page = true)
    (hskip : pageDecision valid N cols page p = .F) : ∀ r ∈ page, sat r p = false := by
  intro r hr
  have := (dec_sound (pageGuars valid N cols page) r (pageGuars_ok valid N cols page h0 h1 h2 h3 r hr) p).1 hskip
  simp [sat, this]

/-- … and a page read without evaluating the predicate contains only rows that satisfy it -/
theorem unfiltered_sound (valid : Bytes → Bool) (N : Nat) (cols : List Col) (page : List Row) (p : Pred)
    (h0 : wellTyped cols page = true) (h1 : noMixedNaN cols page = true) (h2 : exactTruncB N cols page = true)
    (h3 : noMaybeSingle valid N cols page = true)
    (hall : pageDecision valid N cols page p = .T) : ∀ r ∈ page, sat r p = true := by
  intro r hr
  have := (dec_sound (pageGuars valid N cols page) r (pageGuars_ok valid N cols page h0 h1 h2 h3 r hr) p).2.1 hall
  simp [sat, this]

/-- C29_partial: pruning never changes the query result, outside the three defective regions -/
theorem C29_partial (valid : Bytes → Bool) (N : Nat) (cols : List Col) (page : List Row) (p : Pred)
    (h0 : wellTyped cols page = true) (h1 : noMixedNaN cols page = true) (h2 : exactTruncB N cols page = true)
    (h3 : noMaybeSingle valid N cols page = true) :
    scanOn valid N cols page p = scanOff page p := by
  unfold scanOn scanOff
  split
  · rename_i hF
    have := prune_sound valid N cols page p h0 h1 h2 h3 hF
    exact (List.filter_eq_nil_iff.mpr (fun r hr => by simp [this r hr])).symm
  · rename_i hT
    have := unfiltered_sound valid N cols page p h0 h1 h2 h3 hT
    exact (List.filter_eq_self.mpr (fun r hr => this r hr)).symm
  · apply List.filter_congr
    intro r hr
    simp only [satS, sat, evalS_eq _ r (pageGuars_ok valid N cols page h0 h1 h2 h3 r hr) p]

-- non-vacuity: a float page with ±0 and +inf is skipped for `v < -0.0`; a string page with NULLs for `v > 'b'`
example :
    let cols : List Col := [⟨.float 10, false⟩]
    let page : List Row := [[some (.int 0)], [some (.int (-1))], [some (.int 10)]]
    wellTyped cols page = true ∧ noMixedNaN cols page = true ∧ exactTruncB 64 cols page = true ∧
      noMaybeSingle validUtf8 64 cols page = true ∧
      pageDecision validUtf8 64 cols page (.cmp 0 .lt (.int (-1))) = .F := by decide

example :
    let cols : List Col := [⟨.utf8, true⟩, ⟨.int (-128) 127, false⟩]
    let page : List Row := [[some (.bytes [97]), some (.int 1)], [none, some (.int 2)], [some (.bytes [98]), some (.int 3)]]
    wellTyped cols page = true ∧ noMixedNaN cols page = true ∧ exactTruncB 64 cols page = true ∧
      noMaybeSingle validUtf8 64 cols page = true ∧
      pageDecision validUtf8 64 cols page (.and (.cmp 0 .gt (.bytes [98])) (.cmp 1 .gt (.int 3))) = .F ∧
      pageDecision validUtf8 64 cols page (.or (.isNull 0) (.cmp 1 .le (.int 3))) = .T := by decide

/-- NaN: page `[3.0, NaN]` (P = 10: NaN = 11), `v > 5` — min = max = 3, the page is skipped, NaN > 5 under the total order -/
theorem C29_counterexample_nan : ¬ C29_full := by
  intro h
  have := h 64 [⟨.float 10, false⟩] [[some (.int 3)], [some (.int 11)]] (.cmp 0 .gt (.int 5)) (by decide)
  revert this
  decide

/-- short utf8 cut: "aaaéz" and "aaaa" with prefix length 4, `v > "aaac"` — max recorded as "aaab", the page is skipped -/
theorem C29_counterexample_utf8 : ¬ C29_full := by
  intro h
  have := h 4 [⟨.utf8, false⟩] [[some (.bytes [97, 97, 97, 195, 169, 122])], [some (.bytes [97, 97, 97, 97])]]
    (.cmp 0 .gt (.bytes [97, 97, 97, 99])) (by decide)
  revert this
  decide

/-- single-valued MaybeNull: page `['a', NULL, 'a']`, `v IS NULL` — the column is replaced by the literal, the page is skipped -/
theorem C29_counterexample_maybe_single : ¬ C29_full := by
  intro h
  have := h 64 [⟨.utf8, true⟩] [[some (.bytes [97])], [none], [some (.bytes [97])]] (.isNull 0) (by decide)
  revert this
  decide

/-- the order the theorems are about is a strict total order (so `inIv`, `Cmp.eval` mean what they should) -/
theorem val_order_strict_total (a b c : Val) :
    a.lt a = false ∧ (a.lt b = true → b.lt c = true → a.lt c = true) ∧ (a.lt b = true ∨ a = b ∨ b.lt a = true) :=
  ⟨Val.lt_irrefl a, Val.lt_trans a b c, Val.lt_tri a b⟩

end LanceModel.C29
