/-
C29 — statistics-based pruning is conservative.  MODEL (import-free).

What is modelled (all of it mirrors the code as it is in /repo, defects included):

* the legacy (v0.1) page-statistics collector `rust/lance-file/src/previous/writer/statistics.rs`
  (`compute_primitive_statistics`, `compute_float_statistics` + `get_float_statistics`, `get_binary_statistics`,
  `get_string_statistics`, `truncate_binary`, `truncate_utf8`, `increment`, `increment_utf8`);
* `FragmentScanner::extract_guarantees` of `rust/lance/src/io/exec/pushdown_scan.rs` (statistics → `NullableInterval`);
* the part of DataFusion 50 that turns a guarantee into a decision: `Interval::new` (float canonicalisation),
  `Interval::{gt,gt_eq,lt,lt_eq,equal}` against a literal, `NullableInterval::{single_value,is_certainly_true/false}`,
  `GuaranteeRewriter::f_up` (Column / IsNull / IsNotNull / BinaryExpr / InList arms) and the boolean folding of the
  simplifier (Kleene AND/OR/NOT over literal `true`/`false`/`NULL`);
* `FragmentScanner::scan` / `read_batch`: literal `false` → the page is skipped, literal `true` → the page is read without
  evaluating the predicate, anything else → the predicate is evaluated on the page.

Values.  A non-null value is an integer KEY or a byte string (`Val`).  Integers are their own key.  A float is the key of
its IEEE total order (`f32::total_cmp` / `f64::total_cmp`, what Arrow's comparison kernels and `ScalarValue`'s ordering
use): `+0.0 ↦ 0`, `-0.0 ↦ -1`, `+inf ↦ P`, `-inf ↦ -P-1`, `MAX ↦ P-1`, `-MAX ↦ -P`, NaNs are the keys outside
`[-P-1, P]` (positive NaNs above, negative NaNs below).  `P` is a parameter (`0x7F800000` for f32, `0x7FF0000000000000`
for f64).  No float is ever computed with.  Strings and binaries are lists of bytes (`Nat`, `< 256` in every run), ordered
byte-wise lexicographically (Rust's `str` / `[u8]` ordering).
-/
namespace LanceModel.C29

abbrev Bytes := List Nat

/-- a non-null value: integer key (ints, floats) or byte string (Utf8, Binary) -/
inductive Val where
  | int (k : Int)
  | bytes (b : Bytes)
  deriving DecidableEq, Repr

/-- byte-wise lexicographic order (`<[u8] as Ord>`, `<str as Ord>`): a proper prefix is smaller -/
def lexLt : Bytes → Bytes → Bool
  | [], [] => false
  | [], _ :: _ => true
  | _ :: _, [] => false
  | a :: as, b :: bs => decide (a < b) || (decide (a = b) && lexLt as bs)

def lexLe (a b : Bytes) : Bool := !lexLt b a

/-- the order the scan compares with (`ScalarValue::partial_cmp`, Arrow `cmp` kernels) -/
def Val.lt : Val → Val → Bool
  | .int a, .int b => decide (a < b)
  | .bytes a, .bytes b => lexLt a b
  | .int _, .bytes _ => true
  | .bytes _, .int _ => false

def Val.le (a b : Val) : Bool := !Val.lt b a

abbrev Cell := Option Val

/-! ## Statistics collection -/

/-- column types with statistics; `int lo hi` carries `T::Native::min_value()` / `max_value()`, `float P` the key of +inf -/
inductive CT where
  | int (lo hi : Int)
  | float (P : Int)
  | bin
  | utf8
  deriving DecidableEq, Repr

/-- non-null integer keys of a page -/
def intsOf : List Cell → List Int
  | [] => []
  | some (.int k) :: t => k :: intsOf t
  | _ :: t => intsOf t

/-- non-null byte strings of a page -/
def bytesOf : List Cell → List Bytes
  | [] => []
  | some (.bytes b) :: t => b :: bytesOf t
  | _ :: t => bytesOf t

/-- `array.null_count()` summed over the arrays of the page -/
def nullCount : List Cell → Nat
  | [] => 0
  | none :: t => nullCount t + 1
  | some _ :: t => nullCount t

/-- statistics.rs:compute_primitive_statistics — loop body: `value > max → max = value; value < min → min = value` -/
def intStep (acc : Int × Int) (v : Int) : Int × Int :=
  (if v < acc.1 then v else acc.1, if v > acc.2 then v else acc.2)

/-- statistics.rs:compute_primitive_statistics: start from (MAX, MIN); a page without a non-null value reports the whole
    range `(MIN, MAX)` -/
def intStats (lo hi : Int) (vals : List Int) : Int × Int :=
  if vals.isEmpty then (lo, hi) else vals.foldl intStep (hi, lo)

/-- NaN keys (both signs) -/
def isNaN (P k : Int) : Bool := decide (k > P) || decide (k < -P - 1)

/-- IEEE numeric comparison identifies -0.0 (key -1) and +0.0 (key 0) -/
def norm (k : Int) : Int := if k = -1 then 0 else k

/-- `a.partial_cmp(&b) == Some(Less)` on floats: false as soon as one side is NaN -/
def pLt (P a b : Int) : Bool := !isNaN P a && !isNaN P b && decide (norm a < norm b)

/-- statistics.rs:compute_float_statistics — loop body -/
def floatStep (P : Int) (acc : Int × Int) (v : Int) : Int × Int :=
  (if pLt P v acc.1 then v else acc.1, if pLt P acc.2 v then v else acc.2)

/-- statistics.rs:compute_float_statistics — "If all values are null or NaN": `(inf, -inf)` becomes `(-inf, inf)` -/
def floatSwap (P : Int) (r : Int × Int) : Int × Int :=
  if r.1 = P ∧ r.2 = -P - 1 then (-P - 1, P) else r

/-- statistics.rs:get_float_statistics: `min == 0.0 → -0.0`, `max == -0.0 → +0.0` (IEEE equality) -/
def floatZero (r : Int × Int) : Int × Int :=
  (if norm r.1 = 0 then -1 else r.1, if norm r.2 = 0 then 0 else r.2)

def floatStats (P : Int) (vals : List Int) : Int × Int :=
  floatZero (floatSwap P (vals.foldl (floatStep P) (P, -P - 1)))

/-- a UTF-8 continuation byte `10xxxxxx` -/
def isCont (b : Nat) : Bool := decide (128 ≤ b) && decide (b < 192)

/-- largest character boundary `≤ n` of a valid UTF-8 string (position 0 is one): a position is a boundary iff the byte
    there is not a continuation byte.  statistics.rs:truncate_utf8 walks the characters from the back until
    `idx + len_utf8 ≤ length`; it returns `None` (→ `unwrap` panics) when this is 0 — impossible for `length = 64`. -/
def bnd (s : Bytes) : Nat → Nat
  | 0 => 0
  | n + 1 =>
    match s[n + 1]? with
    | some b => if isCont b then bnd s n else n + 1
    | none => n + 1

/-- statistics.rs:truncate_utf8 (`utf8 = true`) / truncate_binary (`utf8 = false`), called only when `s.length > N` -/
def trunc (utf8 : Bool) (N : Nat) (s : Bytes) : Bytes :=
  if utf8 then s.take (bnd s N) else s.take N

/-- statistics.rs:increment — add one to the last byte that is not 0xFF, the 0xFF bytes behind it wrap to 0x00;
    `None` when every byte is 0xFF (also for the empty string).  Written front-to-back: `inc rest = none` says that `rest`
    is all 0xFF, which is exactly when the carry reaches `b`. -/
def inc : Bytes → Option Bytes
  | [] => none
  | b :: rest =>
    match inc rest with
    | some r => some (b :: r)
    | none => if b = 255 then none else some ((b + 1) :: rest.map (fun _ => 0))

/-- statistics.rs:increment_utf8 inner `while !overflow` loop: the smallest byte `c ∈ [c₀, c₀ + fuel)` that makes
    `pre ++ c :: rest` valid -/
def tryBytes (valid : Bytes → Bool) (pre rest : Bytes) : Nat → Nat → Option Nat
  | _, 0 => none
  | c, fuel + 1 => if valid (pre ++ c :: rest) then some c else tryBytes valid pre rest (c + 1) fuel

/-- statistics.rs:increment_utf8 — from the last byte to the first: try every larger value of that byte (the bytes
    behind keep their ORIGINAL value) until the whole string is valid UTF-8; `None` if no byte can be raised.
    Returns the new version of the suffix; `pre` are the bytes in front of it.  `valid` is `str::from_utf8(..).is_ok()`. -/
def incU (valid : Bytes → Bool) (pre : Bytes) : Bytes → Option Bytes
  | [] => none
  | b :: rest =>
    match incU valid (pre ++ [b]) rest with
    | some r => some (b :: r)
    | none =>
      match tryBytes valid pre rest (b + 1) (255 - b) with
      | some c => some (c :: rest)
      | none => none

/-- `str::from_utf8(..).is_ok()` (Unicode Table 3-7, well-formed UTF-8 byte sequences) -/
def validUtf8 : Bytes → Bool
  | [] => true
  | b0 :: rest =>
    if b0 < 128 then validUtf8 rest
    else if 194 ≤ b0 ∧ b0 ≤ 223 then
      match rest with
      | b1 :: r => isCont b1 && validUtf8 r
      | _ => false
    else if 224 ≤ b0 ∧ b0 ≤ 239 then
      match rest with
      | b1 :: b2 :: r =>
        isCont b1 && isCont b2 && (b0 != 224 || decide (160 ≤ b1)) && (b0 != 237 || decide (b1 ≤ 159)) && validUtf8 r
      | _ => false
    else if 240 ≤ b0 ∧ b0 ≤ 244 then
      match rest with
      | b1 :: b2 :: b3 :: r =>
        isCont b1 && isCont b2 && isCont b3 && (b0 != 240 || decide (144 ≤ b1)) && (b0 != 244 || decide (b1 ≤ 143))
          && validUtf8 r
      | _ => false
    else false

/-- running state of get_string_statistics / get_binary_statistics -/
structure SAcc where
  mn : Option Bytes
  mx : Option Bytes
  tr : Bool
  deriving DecidableEq, Repr

/-- `if val < min { min = val }`, `if val > max { max = val }` on the (possibly truncated) value -/
def strPut (a : SAcc) (val : Bytes) (tr : Bool) : SAcc :=
  { mn := match a.mn with
      | none => some val
      | some m => if lexLt val m then some val else some m
    mx := match a.mx with
      | none => some val
      | some m => if lexLt m val then some val else some m
    tr := tr }

/-- loop body: a value longer than the prefix length is truncated first and `bounds_truncated` is set -/
def strStep (utf8 : Bool) (N : Nat) (a : SAcc) (v : Bytes) : SAcc :=
  if v.length > N then strPut a (trunc utf8 N v) true else strPut a v a.tr

def strRaw (utf8 : Bool) (N : Nat) (vals : List Bytes) : SAcc :=
  vals.foldl (strStep utf8 N) ⟨none, none, false⟩

/-- "If the bounds were truncated, then we need to increment the max_value" — note: the flag is global, the maximum is
    the maximum of the truncated values -/
def strMax (utf8 : Bool) (valid : Bytes → Bool) (a : SAcc) : Option Bytes :=
  match a.mx with
  | none => none
  | some m => if a.tr then (if utf8 then incU valid [] m else inc m) else some m

/-- statistics.rs:get_string_statistics (`utf8 = true`) / get_binary_statistics (`utf8 = false`) with prefix length `N`
    (`BINARY_PREFIX_LENGTH = 64` in the code): `(min, max)`, `none` = NULL in the statistics page -/
def strStats (utf8 : Bool) (valid : Bytes → Bool) (N : Nat) (vals : List Bytes) : Option Bytes × Option Bytes :=
  ((strRaw utf8 N vals).mn, strMax utf8 valid (strRaw utf8 N vals))

/-- statistics of one column chunk: null count, min, max -/
structure Stats where
  nc : Nat
  mn : Option Val
  mx : Option Val
  deriving DecidableEq, Repr

/-- statistics.rs:collect_statistics, dispatch on the data type -/
def colStats (valid : Bytes → Bool) (N : Nat) (ct : CT) (cells : List Cell) : Stats :=
  match ct with
  | .int lo hi =>
    { nc := nullCount cells, mn := some (.int (intStats lo hi (intsOf cells)).1), mx := some (.int (intStats lo hi (intsOf cells)).2) }
  | .float P =>
    { nc := nullCount cells, mn := some (.int (floatStats P (intsOf cells)).1), mx := some (.int (floatStats P (intsOf cells)).2) }
  | .bin =>
    { nc := nullCount cells, mn := (strStats false valid N (bytesOf cells)).1.map .bytes,
      mx := (strStats false valid N (bytesOf cells)).2.map .bytes }
  | .utf8 =>
    { nc := nullCount cells, mn := (strStats true valid N (bytesOf cells)).1.map .bytes,
      mx := (strStats true valid N (bytesOf cells)).2.map .bytes }

/-! ## From statistics to guarantees -/

/-- DataFusion `NullableInterval` over `Interval { lower, upper }`; a bound `none` is a NULL scalar = unbounded -/
inductive Guar where
  | null
  | maybe (lo hi : Option Val)
  | notNull (lo hi : Option Val)
  deriving DecidableEq, Repr

/-- `handle_float_intervals!` lower bound: `-inf`/NaN → unbounded, `+inf` → `MAX` -/
def canonLo (P k : Int) : Option Int :=
  if k = -P - 1 ∨ isNaN P k = true then none else if k = P then some (P - 1) else some k

/-- `handle_float_intervals!` upper bound: `+inf`/NaN → unbounded, `-inf` → `MIN` -/
def canonHi (P k : Int) : Option Int :=
  if k = P ∨ isNaN P k = true then none else if k = -P - 1 then some (-P) else some k

/-- `Interval::try_new(min, max)` → `Interval::new` standardisation (only floats are touched among our types) -/
def mkLo (ct : CT) (mn : Option Val) : Option Val :=
  match ct, mn with
  | .float P, some (.int k) => (canonLo P k).map .int
  | .float _, _ => none
  | _, m => m

def mkHi (ct : CT) (mx : Option Val) : Option Val :=
  match ct, mx with
  | .float P, some (.int k) => (canonHi P k).map .int
  | .float _, _ => none
  | _, m => m

/-- pushdown_scan.rs:extract_guarantees: a non-nullable field counts as `null_count = 0`; `(0, _)` → NotNull,
    `null_count == batch_size` → Null, otherwise MaybeNull -/
def mkGuar (ct : CT) (nullable : Bool) (size : Nat) (st : Stats) : Guar :=
  if (if nullable then st.nc else 0) = 0 then .notNull (mkLo ct st.mn) (mkHi ct st.mx)
  else if st.nc = size then .null
  else .maybe (mkLo ct st.mn) (mkHi ct st.mx)

/-! ## The decision -/

inductive Cmp where
  | eq | ne | lt | le | gt | ge
  deriving DecidableEq, Repr

/-- evaluation of `a op b` on non-null values (Arrow `cmp` kernels: total order) -/
def Cmp.eval : Cmp → Val → Val → Bool
  | .eq, a, b => decide (a = b)
  | .ne, a, b => !decide (a = b)
  | .lt, a, b => a.lt b
  | .le, a, b => a.le b
  | .gt, a, b => b.lt a
  | .ge, a, b => b.le a

inductive Pred where
  | cmp (c : Nat) (op : Cmp) (l : Val)
  | isNull (c : Nat)
  | notNull (c : Nat)
  | inList (c : Nat) (neg : Bool) (items : List Val)
  | and (a b : Pred)
  | or (a b : Pred)
  | not (a : Pred)
  deriving Repr

/-- what a (sub)predicate has been simplified to: literal true / false / NULL, or not a literal -/
inductive Out where
  | T | F | N | U
  deriving DecidableEq, Repr

/-- `NullableInterval::single_value`: `Null` → the NULL literal; Maybe/NotNull with `lower == upper`, non-null → that
    value (also for MaybeNull!) -/
def Guar.single : Guar → Option (Option Val)
  | .null => some none
  | .maybe lo hi | .notNull lo hi =>
    match lo, hi with
    | some a, some b => if a = b then some (some a) else none
    | _, _ => none

/-- bound is known and `≤ l` / `< l` / `≥ l` / `> l` -/
def bLe (b : Option Val) (l : Val) : Bool := match b with | some x => x.le l | none => false
def bLt (b : Option Val) (l : Val) : Bool := match b with | some x => x.lt l | none => false
def bGe (b : Option Val) (l : Val) : Bool := match b with | some x => l.le x | none => false
def bGt (b : Option Val) (l : Val) : Bool := match b with | some x => l.lt x | none => false

def Out.flip : Out → Out
  | .T => .F
  | .F => .T
  | o => o

/-- `Interval::{equal,gt,gt_eq,lt,lt_eq}` of the column interval `[lo, hi]` against the literal interval `[l, l]`,
    `NotEq` = `equal` negated (`apply_operator`) -/
def ivCmp (lo hi : Option Val) : Cmp → Val → Out
  | .gt, l => if bLe hi l then .F else if bGt lo l then .T else .U
  | .ge, l => if bGe lo l then .T else if bLt hi l then .F else .U
  | .lt, l => if bGe lo l then .F else if bLt hi l then .T else .U
  | .le, l => if bLe hi l then .T else if bGt lo l then .F else .U
  | .eq, l => if lo = some l ∧ hi = some l then .T else if bGt lo l || bLt hi l then .F else .U
  | .ne, l => if lo = some l ∧ hi = some l then .F else if bGt lo l || bLt hi l then .T else .U

def ofBool (b : Bool) : Out := if b then .T else .F

/-- `col op lit`: GuaranteeRewriter visits the Column first (replaced by its single value if it has one, then the
    comparison of two literals is constant-folded), otherwise the BinaryExpr arm applies the interval operator; a
    MaybeNull result is never "certainly" anything -/
def leafCmp (g : Option Guar) (op : Cmp) (l : Val) : Out :=
  match g with
  | none => .U
  | some g =>
    match g.single with
    | some none => .N
    | some (some c) => ofBool (op.eval c l)
    | none =>
      match g with
      | .notNull lo hi => ivCmp lo hi op l
      | .maybe _ _ => .U
      | .null => .N

/-- `col IS NULL`: a single-valued column has already been replaced by a literal (`lit IS NULL` folds to false,
    `NULL IS NULL` to true); otherwise the IsNull arm -/
def leafIsNull (g : Option Guar) : Out :=
  match g with
  | none => .U
  | some g =>
    match g.single with
    | some none => .T
    | some (some _) => .F
    | none =>
      match g with
      | .notNull _ _ => .F
      | .maybe _ _ => .U
      | .null => .T

/-- `col IN (items)` (not negated): constant-folded for a single-valued column; otherwise the InList arm drops the items
    that certainly are not in the interval (only a NotNull interval is ever certain) and `x IN ()` folds to false -/
def leafIn (g : Option Guar) (items : List Val) : Out :=
  match g with
  | none => .U
  | some g =>
    match g.single with
    | some none => .N
    | some (some c) => ofBool (items.contains c)
    | none =>
      match g with
      | .notNull lo hi => if items.all (fun i => bGt lo i || bLt hi i) then .F else .U
      | .maybe _ _ => .U
      | .null => .N

/-- simplifier: `false AND x = false`, `true AND x = x`, `NULL AND NULL = NULL` -/
def Out.and : Out → Out → Out
  | .F, _ => .F
  | _, .F => .F
  | .T, b => b
  | a, .T => a
  | .N, .N => .N
  | _, _ => .U

def Out.or : Out → Out → Out
  | .T, _ => .T
  | _, .T => .T
  | .F, b => b
  | a, .F => a
  | .N, .N => .N
  | _, _ => .U

/-- the predicate after `ExprSimplifier::with_guarantees(..).simplify(..)` -/
def dec (gs : List Guar) : Pred → Out
  | .cmp c op l => leafCmp gs[c]? op l
  | .isNull c => leafIsNull gs[c]?
  | .notNull c => (leafIsNull gs[c]?).flip
  | .inList c neg items => if neg then (leafIn gs[c]? items).flip else leafIn gs[c]? items
  | .and a b => (dec gs a).and (dec gs b)
  | .or a b => (dec gs a).or (dec gs b)
  | .not a => (dec gs a).flip

/-! ## Rows, pages, scans -/

abbrev Row := List Cell

/-- cell of column `c` (a missing column reads as NULL) -/
def cellOf (r : Row) (c : Nat) : Cell := (r[c]?).join

def and3 : Option Bool → Option Bool → Option Bool
  | some false, _ => some false
  | _, some false => some false
  | some true, some true => some true
  | _, _ => none

def or3 : Option Bool → Option Bool → Option Bool
  | some true, _ => some true
  | _, some true => some true
  | some false, some false => some false
  | _, _ => none

/-- SQL three-valued evaluation of the predicate on one row — what the scan computes when it does evaluate -/
def eval3 (r : Row) : Pred → Option Bool
  | .cmp c op l => (cellOf r c).map (fun v => op.eval v l)
  | .isNull c => some (cellOf r c).isNone
  | .notNull c => some (cellOf r c).isSome
  | .inList c neg items => (cellOf r c).map (fun v => items.contains v != neg)
  | .and a b => and3 (eval3 r a) (eval3 r b)
  | .or a b => or3 (eval3 r a) (eval3 r b)
  | .not a => (eval3 r a).map (!·)

def sat (r : Row) (p : Pred) : Bool := eval3 r p == some true

structure Col where
  ct : CT
  nullable : Bool
  deriving DecidableEq, Repr

def colCells (page : List Row) (c : Nat) : List Cell := page.map (cellOf · c)

def guarsFrom (valid : Bytes → Bool) (N : Nat) (page : List Row) : Nat → List Col → List Guar
  | _, [] => []
  | c, col :: t =>
    mkGuar col.ct col.nullable page.length (colStats valid N col.ct (colCells page c)) :: guarsFrom valid N page (c + 1) t

/-- extract_guarantees for one page (batch) -/
def pageGuars (valid : Bytes → Bool) (N : Nat) (cols : List Col) (page : List Row) : List Guar :=
  guarsFrom valid N page 0 cols

def pageDecision (valid : Bytes → Bool) (N : Nat) (cols : List Col) (page : List Row) (p : Pred) : Out :=
  dec (pageGuars valid N cols page) p

/-- GuaranteeRewriter InList arm: the list that stays in the predicate — under a NotNull interval the items that
    certainly are outside the interval are dropped -/
def inKeep (g : Option Guar) (items : List Val) : List Val :=
  match g with
  | some (.notNull lo hi) => items.filter (fun i => !(bGt lo i || bLt hi i))
  | _ => items

/-- Dataset::write panics (StatisticsCollector::finish → StructArray::new: "Found unmasked nulls for non-nullable
    StructArray field max_value") when the statistics of a NON-nullable column hold a NULL bound — a maximum that could not
    be incremented -/
def writePanics (valid : Bytes → Bool) (N : Nat) (page : List Row) : Nat → List Col → Bool
  | _, [] => false
  | c, col :: t =>
    (!col.nullable && ((colStats valid N col.ct (colCells page c)).mn.isNone || (colStats valid N col.ct (colCells page c)).mx.isNone))
      || writePanics valid N page (c + 1) t

/-- a (sub)predicate that was folded to a literal evaluates to that literal, otherwise it is evaluated on the row -/
def pick (o : Out) (e : Option Bool) : Option Bool :=
  match o with
  | .T => some true
  | .F => some false
  | .N => none
  | .U => e

/-- evaluation of the SIMPLIFIED predicate on a row: read_batch evaluates what the simplifier returned, not the original
    predicate — leaves folded to a literal are constants (a leaf that is not folded mentions no replaced column) -/
def evalS (gs : List Guar) (r : Row) : Pred → Option Bool
  | .cmp c op l => pick (leafCmp gs[c]? op l) (eval3 r (.cmp c op l))
  | .isNull c => pick (leafIsNull gs[c]?) (eval3 r (.isNull c))
  | .notNull c => pick (leafIsNull gs[c]?).flip (eval3 r (.notNull c))
  | .inList c neg items =>
    pick (if neg then (leafIn gs[c]? items).flip else leafIn gs[c]? items) (eval3 r (.inList c neg (inKeep gs[c]? items)))
  | .and a b => and3 (evalS gs r a) (evalS gs r b)
  | .or a b => or3 (evalS gs r a) (evalS gs r b)
  | .not a => (evalS gs r a).map (!·)

def satS (gs : List Guar) (r : Row) (p : Pred) : Bool := evalS gs r p == some true

/-- FragmentScanner::scan / read_batch for one page with statistics: literal `false` → skipped, literal `true` → read
    unfiltered, otherwise the simplified predicate is evaluated -/
def scanOn (valid : Bytes → Bool) (N : Nat) (cols : List Col) (page : List Row) (p : Pred) : List Row :=
  match pageDecision valid N cols page p with
  | .F => []
  | .T => page
  | _ => page.filter (satS (pageGuars valid N cols page) · p)

/-- the scan without statistics: evaluate on every row -/
def scanOff (page : List Row) (p : Pred) : List Row := page.filter (sat · p)

/-- chunk_stream: pages of `g` rows (`g > 0`; fuel = number of rows) -/
def pagesOf (g : Nat) : Nat → List Row → List (List Row)
  | 0, _ => []
  | fuel + 1, rows => if rows.isEmpty then [] else rows.take g :: pagesOf g fuel (rows.drop g)

end LanceModel.C29
