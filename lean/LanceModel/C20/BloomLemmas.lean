import LanceModel.C20.Model
/-
C20 lemmas: the split-block bloom filter has no false negatives, for every hash function.
-/
namespace LanceModel.C20

theorem and_two_pow_ne_zero (w y : Nat) : (w &&& 2 ^ y ≠ 0) ↔ w.testBit y = true := by
  constructor
  · intro h
    cases hb : w.testBit y with
    | true => rfl
    | false =>
      exfalso
      apply h
      apply Nat.eq_of_testBit_eq
      intro i
      simp only [Nat.testBit_and, Nat.testBit_two_pow, Nat.zero_testBit]
      by_cases hi : y = i
      · subst hi; simp [hb]
      · simp [hi]
  · intro h h0
    have : (w &&& 2 ^ y).testBit y = true := by
      simp [Nat.testBit_and, Nat.testBit_two_pow, h]
    rw [h0] at this
    simp at this

theorem maskWord_eq (h s : Nat) : maskWord h s = 2 ^ (((h * s) % 2 ^ 32) >>> 27) := by
  simp [maskWord, Nat.one_shiftLeft]

theorem word_insert_self (w h s : Nat) : ((w ||| maskWord h s) &&& maskWord h s != 0) = true := by
  rw [maskWord_eq]
  simp only [bne_iff_ne]
  rw [and_two_pow_ne_zero]
  simp [Nat.testBit_or, Nat.testBit_two_pow]

theorem word_insert_mono (w h s h' : Nat) (hw : (w &&& maskWord h s != 0) = true) :
    ((w ||| maskWord h' s) &&& maskWord h s != 0) = true := by
  rw [maskWord_eq h s] at hw ⊢
  simp only [bne_iff_ne] at hw ⊢
  rw [and_two_pow_ne_zero] at hw ⊢
  simp [Nat.testBit_or, hw]

theorem zip_check_insert_self (h : Nat) : ∀ (b ss : List Nat),
    (List.zipWith (fun w s => (w &&& maskWord h s) != 0)
      (List.zipWith (fun w s => w ||| maskWord h s) b ss) ss).all id = true
  | [], _ => by simp
  | _ :: _, [] => by simp
  | w :: b, s :: ss => by
    simp only [List.zipWith_cons_cons, List.all_cons, id, Bool.and_eq_true]
    exact ⟨word_insert_self w h s, zip_check_insert_self h b ss⟩

theorem zip_check_insert_mono (h h' : Nat) : ∀ (b ss : List Nat),
    (List.zipWith (fun w s => (w &&& maskWord h s) != 0) b ss).all id = true →
    (List.zipWith (fun w s => (w &&& maskWord h s) != 0)
      (List.zipWith (fun w s => w ||| maskWord h' s) b ss) ss).all id = true
  | [], _ => by simp
  | _ :: _, [] => by simp
  | w :: b, s :: ss => by
    simp only [List.zipWith_cons_cons, List.all_cons, id, Bool.and_eq_true]
    intro ⟨h1, h2⟩
    exact ⟨word_insert_mono w h s h' h1, zip_check_insert_mono h h' b ss h2⟩

/-- `Block::check` after `Block::insert` of the same hash -/
theorem Block.check_insert_self (b : Block) (h : Nat) : (b.insert h).check h = true :=
  zip_check_insert_self h b SALT

/-- inserting another hash never clears a bit -/
theorem Block.check_insert_mono (b : Block) (h h' : Nat) (hc : b.check h = true) :
    (b.insert h').check h = true :=
  zip_check_insert_mono h h' b SALT hc

/-- the all-zero block contains nothing (so `check` is not trivially true) -/
theorem Block.check_zero (h : Nat) : Block.zero.check h = false := by
  simp [Block.check, Block.zero, SALT, List.replicate, List.zipWith]

theorem blockIndex_lt {n : Nat} (hn : 0 < n) (h : Nat) : blockIndex n h < n := by
  unfold blockIndex
  have h1 : (h % 2 ^ 64) >>> 32 < 2 ^ 32 := by
    rw [Nat.shiftRight_eq_div_pow]
    have : h % 2 ^ 64 < 2 ^ 64 := Nat.mod_lt _ (by decide)
    omega
  rw [Nat.shiftRight_eq_div_pow]
  apply Nat.div_lt_of_lt_mul
  exact Nat.mul_lt_mul_of_lt_of_le h1 (Nat.le_refl n) hn

@[simp] theorem Sbbf.length_insertHash (f : Sbbf) (h : Nat) : (f.insertHash h).length = f.length := by
  simp [Sbbf.insertHash]

/-- `check_hash` right after `insert_hash` of the same hash, on a filter with at least one block -/
theorem Sbbf.check_insert_self (f : Sbbf) (hf : 0 < f.length) (h : Nat) :
    (f.insertHash h).checkHash h = true := by
  have hlt := blockIndex_lt hf h
  simp only [Sbbf.checkHash, Sbbf.checkHash?, Sbbf.length_insertHash]
  simp only [Sbbf.insertHash, List.getElem?_modify_eq]
  rw [List.getElem?_eq_getElem hlt]
  simp [Block.check_insert_self]

/-- a later `insert_hash` keeps every earlier positive answer -/
theorem Sbbf.check_insert_mono (f : Sbbf) (h h' : Nat) (hc : f.checkHash h = true) :
    (f.insertHash h').checkHash h = true := by
  simp only [Sbbf.checkHash, Sbbf.checkHash?, Sbbf.length_insertHash] at hc ⊢
  simp only [Sbbf.insertHash, List.getElem?_modify]
  cases hb : f[blockIndex f.length h]? with
  | none => simp [hb] at hc
  | some b =>
    simp only [hb, Option.map_some, Option.getD_some] at hc
    by_cases hi : blockIndex f.length h' = blockIndex f.length h
    · simp [hi, Block.check_insert_mono b _ _ hc]
    · simp [hi, hc]

/-- `update_stats` over a list of hashes -/
def Sbbf.insertAll (f : Sbbf) (hs : List Nat) : Sbbf := hs.foldl (fun f h => f.insertHash h) f

@[simp] theorem Sbbf.length_insertAll (f : Sbbf) (hs : List Nat) : (f.insertAll hs).length = f.length := by
  induction hs generalizing f with
  | nil => rfl
  | cons a t ih => simp [Sbbf.insertAll, List.foldl_cons] at ih ⊢; rw [ih]; simp

theorem Sbbf.insertAll_mono (f : Sbbf) (hs : List Nat) (h : Nat) (hc : f.checkHash h = true) :
    (f.insertAll hs).checkHash h = true := by
  induction hs generalizing f with
  | nil => exact hc
  | cons a t ih => exact ih _ (Sbbf.check_insert_mono f h a hc)

/-- no false negative at the level of hashes: whatever was inserted is found -/
theorem Sbbf.check_insertAll (f : Sbbf) (hf : 0 < f.length) (hs : List Nat) (h : Nat) (hm : h ∈ hs) :
    (f.insertAll hs).checkHash h = true := by
  induction hs generalizing f with
  | nil => simp at hm
  | cons a t ih =>
    simp only [Sbbf.insertAll, List.foldl_cons]
    rcases List.mem_cons.mp hm with rfl | hm'
    · exact Sbbf.insertAll_mono _ t h (Sbbf.check_insert_self f hf h)
    · exact ih (f.insertHash a) (by simpa using hf) hm'

theorem foldl_insertHash_eq {β : Type} (hash : β → Nat) (f : Sbbf) (xs : List β) :
    xs.foldl (fun f x => f.insertHash (hash x)) f = f.insertAll (xs.map hash) := by
  induction xs generalizing f with
  | nil => rfl
  | cons a t ih => simp only [List.foldl_cons, List.map_cons, Sbbf.insertAll] at ih ⊢; exact ih _

end LanceModel.C20
