import LanceModel.C20.ZoneLemmas
import LanceModel.C20.BloomLemmas
import LanceModel.C20.NgramLemmas
import LanceModel.C20.TrainLemmas
/-
C20 — "Zone-map, bloom-filter and n-gram indices return a superset of the rows that truly match every predicate they
accept, so the final filtered result equals the result without the index."

Property theorems (full strength, all inputs) + non-vacuity examples.  The model mirrors the code as it is in /repo:
`ngramSearch true` is `NGramIndex::search` after the `fix:` commit, `ngramSearch false` the pinned behaviour.
-/
namespace LanceModel.C20

/-! ## Zone maps -/

/-- `sat q v`: a row whose cell is `v` satisfies the predicate `q` (=, <, ≤, >, ≥, BETWEEN as ranges, IN, IS NULL; SQL
    semantics on keys: NULL cells satisfy only IS NULL, NULL literals nothing; NaN is the largest value) -/
abbrev sat (q : Query) (v : V) : Prop := satB q v = true

/-- **zone_eval_sound**: if the statistics of a zone are valid for a cell (min ≤ v ≤ max for non-null v, null_count > 0 if
    v is NULL, nan_count > 0 if v is NaN) and the cell satisfies the predicate, `evaluate_zone_against_query` keeps the zone.
    Holds for every zone, every predicate including NULL / NaN literals and every bound kind. -/
theorem zone_eval_sound (z : Zone) (q : Query) (v : V) (hv : z.ValidFor v) (hs : sat q v) :
    evalZone z q = true :=
  evalZone_sound hv hs

example : (Zone.mk 0 0 4 (.num 1) .nan 1 2).ValidFor (.num 7) ∧ sat (.range (.excl (.num 3)) .unb) (.num 7) := by
  refine ⟨⟨by simp, by simp, fun _ => by simp [V.le]⟩, by decide⟩

/-- **zone_superset**: for EVERY zone layout — a row at address `(frag, off)` with cell `v` that satisfies `q` and lies in
    some zone of the index whose statistics are valid for `v` is in the `AtMost` answer of `ZoneMapIndex::search`. -/
theorem zone_superset (zs : List Zone) (q : Query) (frag off : Nat) (v : V) (z : Zone) (hz : z ∈ zs)
    (hf : z.frag = frag) (hlo : z.start ≤ off) (hhi : off < z.start + z.len)
    (hv : z.ValidFor v) (hs : sat q v) : (frag, off) ∈ zoneSearch zs q := by
  simp only [zoneSearch, List.mem_flatMap, List.mem_filter]
  refine ⟨z, ⟨hz, zone_eval_sound z q v hv hs⟩, ?_⟩
  simp only [zoneAddrs, List.mem_map, List.mem_range]
  exact ⟨off - z.start, by omega, by simp [hf]; omega⟩

example : (1, 5) ∈ zoneSearch [Zone.mk 0 0 4 (.num 0) (.num 3) 0 0, Zone.mk 1 4 4 (.num 2) (.num 9) 0 0]
    (.isIn [.num 100, .num 9]) := by decide

/-- **zone_stats_valid**: the statistics `new_map` computes (Min/MaxAccumulator over the non-null values in the total
    order, null count, NaN count) are valid for every value that was fed into the zone. -/
theorem zone_stats_valid (t : TZone V) (v : V) (hv : v ∈ t.vals) : (zoneOf t).ValidFor v :=
  zoneOf_valid t v hv

/-- **zone_superset_built**: zone construction + search, for every partition of a column into zones: if the builder put
    the cell of row `(t.frag, off)` into zone `t` (it is one of `t.vals`) and the zone claims the row's address, the row
    is kept for every predicate it satisfies. -/
theorem zone_superset_built (ts : List (TZone V)) (q : Query) (t : TZone V) (ht : t ∈ ts) (off : Nat) (v : V)
    (hv : v ∈ t.vals) (hlo : t.start ≤ off) (hhi : off < t.start + t.len) (hs : sat q v) :
    (t.frag, off) ∈ zoneSearch (ts.map zoneOf) q :=
  zone_superset (ts.map zoneOf) q t.frag off v (zoneOf t) (List.mem_map.mpr ⟨t, ht, rfl⟩) rfl hlo hhi
    (zone_stats_valid t v hv) hs

/-! ### the training loop: where a zone claims to be vs. what was fed into it -/

/-- row `(frag, off)` with cell `v` is covered: some zone claims its address and received its value -/
def Covered {α : Type} (ts : List (TZone α)) (frag off : Nat) (v : α) : Prop :=
  ∃ t ∈ ts, t.frag = frag ∧ t.start ≤ off ∧ off < t.start + t.len ∧ v ∈ t.vals

instance {α : Type} [DecidableEq α] (ts : List (TZone α)) (frag off : Nat) (v : α) : Decidable (Covered ts frag off v) := by
  unfold Covered; infer_instance

/-- the addresses of a training stream are strictly increasing (a scan in address order) -/
def AddrSorted {α : Type} : List (Nat × Nat × α) → Prop
  | a :: b :: t => (a.1 < b.1 ∨ (a.1 = b.1 ∧ a.2.1 < b.2.1)) ∧ AddrSorted (b :: t)
  | _ => True

instance {α : Type} : (l : List (Nat × Nat × α)) → Decidable (AddrSorted l)
  | [] => isTrue trivial
  | [_] => isTrue trivial
  | a :: b :: t =>
    have := instDecidableAddrSorted (b :: t)
    by unfold AddrSorted; infer_instance

/-- the full statement for training: every row of an address-ordered stream is covered, for every zone size -/
def train_covers_full : Prop :=
  ∀ (z : Nat) (rows : List (Nat × Nat × V)), 0 < z → AddrSorted rows →
    ∀ r ∈ rows, Covered (train z (rows.map (fun r => (r.1, r.2.2)))) r.1 r.2.1 r.2.2

/-- **train_counterexample_deleted_row**: a fragment whose scan skips a deleted row (offsets 0,2,3,4,…): zones are laid out
    by counting rows, so the row at offset 4 is claimed by the second zone but its value went into the first. -/
theorem train_counterexample_deleted_row : ¬ train_covers_full := by
  intro h
  have := h 4 [(0, 0, .num 10), (0, 2, .num 12), (0, 3, .num 13), (0, 4, .num 14), (0, 5, .num 15), (0, 6, .num 16),
    (0, 7, .num 17)] (by decide) (by decide) (0, 4, .num 14) (by decide)
  revert this
  decide

/-- **train_counterexample_dense**: even without deletions — fragments of 2, 5, 5 rows and zone size 4: the zone that
    fills up before the fragment boundary is reached leaves `cur_fragment_id` one fragment ahead, the rest of the fragment
    is merged into the next fragment's first zone. -/
theorem train_counterexample_dense : ¬ train_covers_full := by
  intro h
  have := h 4 [(0, 0, .num 0), (0, 1, .num 1), (1, 0, .num 2), (1, 1, .num 3), (1, 2, .num 4), (1, 3, .num 5),
    (1, 4, .num 6), (2, 0, .num 7), (2, 1, .num 8), (2, 2, .num 9), (2, 3, .num 10), (2, 4, .num 11)]
    (by decide) (by decide) (1, 4, .num 6) (by decide)
  revert this
  decide

/-- **train_covers_partial**: on ONE fragment with dense offsets 0,1,2,… (no deleted row, no fragment boundary — exactly the
    region in which none of the three recorded training defects can occur) the loop covers every row, for every zone
    size: row `i` lies in the zone of chunk `i / z`, which received its value. -/
theorem train_covers_partial {α : Type} (z : Nat) (hz : 0 < z) (f : Nat) (l : List α) (i : Nat) (v : α)
    (hv : l[i]? = some v) : Covered (train z (l.map (fun v => (f, v)))) f i v := by
  rw [train_single f z hz l]
  obtain ⟨t, ht, h1, h2, h3, h4⟩ := expected_covers (f := f) hz l.length 0 l i v (Nat.le_refl _) hv
  exact ⟨t, ht, h1, by simpa using h2, by simpa using h3, h4⟩

example : train 2 ([V.num 5, .null, .num 7].map (fun v => (3, v))) =
    [⟨3, 0, 2, [.num 5, .null]⟩, ⟨3, 2, 1, [.num 7]⟩] := by decide

/-- **zone_superset_trained**: training + statistics + search on one dense fragment: a row that satisfies the predicate is
    in the answer of the zone-map index built by `train`, for every column, zone size and predicate. -/
theorem zone_superset_trained (z : Nat) (hz : 0 < z) (f : Nat) (l : List V) (q : Query) (i : Nat) (v : V)
    (hv : l[i]? = some v) (hs : sat q v) :
    (f, i) ∈ zoneSearch ((train z (l.map (fun v => (f, v)))).map zoneOf) q := by
  obtain ⟨t, ht, hf, hlo, hhi, hmem⟩ := train_covers_partial z hz f l i v hv
  have := zone_superset_built _ q t ht i v hmem hlo hhi hs
  rwa [hf] at this

/-! ## Bloom filter -/

/-- **bloom_no_false_negative**: for ANY hash function, whatever was inserted into a split-block bloom filter with at
    least one block is found by `check` (later insertions never clear a bit). -/
theorem bloom_no_false_negative {β : Type} (hash : β → Nat) (nblocks : Nat) (hn : 0 < nblocks) (xs : List β) (x : β)
    (hx : x ∈ xs) :
    (xs.foldl (fun f y => f.insertHash (hash y)) (Sbbf.empty nblocks)).checkHash (hash x) = true := by
  rw [foldl_insertHash_eq]
  exact Sbbf.check_insertAll _ (by simpa [Sbbf.empty] using hn) _ _ (List.mem_map.mpr ⟨x, hx, rfl⟩)

/-- `check` is not trivially true: nothing is found in an empty filter -/
theorem bloom_check_empty (nblocks : Nat) (hn : 0 < nblocks) (h : Nat) : (Sbbf.empty nblocks).checkHash h = false := by
  have hlt := blockIndex_lt (n := (Sbbf.empty nblocks).length) (by simpa [Sbbf.empty] using hn) h
  simp only [Sbbf.checkHash, Sbbf.checkHash?]
  rw [List.getElem?_eq_getElem hlt]
  simp [Sbbf.empty, Block.check_zero]

example : ((Sbbf.empty 2).insertHash 0xDEADBEEF12345678).checkHash 0xDEADBEEF12345678 = true ∧
    ((Sbbf.empty 2).insertHash 0xDEADBEEF12345678).checkHash 42 = false := by decide

/-- reference semantics of a bloom-filter predicate (`=`, IN, IS NULL) on a cell -/
abbrev bsat {β : Type} [DecidableEq β] (q : BQuery β) (v : Option β) : Prop := bsatB q v = true

/-- **bloom_block_sound**: a zone built by `update_stats` / `new_block` from the values `t.vals` is kept by
    `evaluate_block_against_query` for every predicate one of its values satisfies — for any hash, any filter size ≥ 1 block. -/
theorem bloom_block_sound {β : Type} [DecidableEq β] (hash : β → Nat) (nblocks : Nat) (hn : 0 < nblocks)
    (t : TZone (Option β)) (q : BQuery β) (v : Option β) (hv : v ∈ t.vals) (hs : bsat q v) :
    evalBlock hash (bzoneOf hash nblocks t) q = true := by
  have hnull : v = none → (bzoneOf hash nblocks t).hasNull = true := by
    intro h; subst h
    simp only [bzoneOf, List.any_eq_true]
    exact ⟨none, hv, rfl⟩
  have hfound : ∀ x, v = some x → (bzoneOf hash nblocks t).filter.checkHash (hash x) = true := by
    intro x h; subst h
    simp only [bzoneOf]
    exact bloom_no_false_negative hash nblocks hn _ x (List.mem_filterMap.mpr ⟨some x, hv, rfl⟩)
  cases q with
  | isNull =>
    simp only [bsat, bsatB, Option.isNone_iff_eq_none] at hs
    exact hnull hs
  | eq t' =>
    simp only [bsat, bsatB, Bool.and_eq_true, decide_eq_true_eq] at hs
    obtain ⟨hsome, rfl⟩ := hs
    cases v with
    | none => simp at hsome
    | some x => exact hfound x rfl
  | isIn ts =>
    simp only [bsat, bsatB, Bool.and_eq_true, List.any_eq_true, decide_eq_true_eq] at hs
    obtain ⟨hsome, t', ht', rfl⟩ := hs
    simp only [evalBlock, List.any_eq_true]
    refine ⟨v, ht', ?_⟩
    cases v with
    | none => simp at hsome
    | some x => exact hfound x rfl

/-- **bloom_superset**: the `AtMost` answer of `BloomFilterIndex::search` contains every row whose cell satisfies the
    predicate, provided the zone that claims the row received its value. -/
theorem bloom_superset {β : Type} [DecidableEq β] (hash : β → Nat) (nblocks : Nat) (hn : 0 < nblocks)
    (ts : List (TZone (Option β))) (q : BQuery β) (t : TZone (Option β)) (ht : t ∈ ts) (off : Nat) (v : Option β)
    (hv : v ∈ t.vals) (hlo : t.start ≤ off) (hhi : off < t.start + t.len) (hs : bsat q v) :
    (t.frag, off) ∈ bloomSearch hash (ts.map (bzoneOf hash nblocks)) q := by
  simp only [bloomSearch, List.mem_flatMap, List.mem_filter, List.mem_map]
  refine ⟨bzoneOf hash nblocks t, ⟨⟨t, ht, rfl⟩, bloom_block_sound hash nblocks hn t q v hv hs⟩, ?_⟩
  simp only [zoneAddrs, List.mem_map, List.mem_range, bzoneOf]
  exact ⟨off - t.start, by omega, by simp; omega⟩

/-- **bloom_superset_trained**: the same for the bloom-filter index built by `train` on one dense fragment -/
theorem bloom_superset_trained {β : Type} [DecidableEq β] (hash : β → Nat) (nblocks : Nat) (hn : 0 < nblocks)
    (z : Nat) (hz : 0 < z) (f : Nat) (l : List (Option β)) (q : BQuery β) (i : Nat) (v : Option β)
    (hv : l[i]? = some v) (hs : bsat q v) :
    (f, i) ∈ bloomSearch hash ((train z (l.map (fun v => (f, v)))).map (bzoneOf hash nblocks)) q := by
  obtain ⟨t, ht, hf, hlo, hhi, hmem⟩ := train_covers_partial z hz f l i v hv
  have := bloom_superset hash nblocks hn _ q t ht i v hmem hlo hhi hs
  rwa [hf] at this

/-! ## N-gram -/

/-- what a `SearchResult` promises about the set `M` of truly matching rows -/
def Res.Sound (r : Res) (M : Nat → Prop) : Prop :=
  match r with
  | .exact ids => ∀ x, x ∈ ids ↔ M x
  | .atMost ids => ∀ x, M x → x ∈ ids
  | .atLeast ids => ∀ x, x ∈ ids → M x

/-- the rows that truly match `contains(s, needle)`: non-NULL texts of which the needle is a contiguous sub-string -/
def Matches (rows : List (Nat × Option (List Char))) (needle : List Char) (x : Nat) : Prop :=
  ∃ s, (x, some s) ∈ rows ∧ needle <:+: s

/-- **ngram_tokens_subset**: for every per-character normalisation (lower-casing, ASCII folding — any map from a character
    to a string), the trigram tokens of the needle are tokens of every text that contains the needle. -/
theorem ngram_tokens_subset (fold : Char → List Char) (needle s : List Char) (hi : needle <:+: s)
    (tn ts : List Nat) (hn : tokensOf fold needle = some tn) (hs : tokensOf fold s = some ts) : ∀ t ∈ tn, t ∈ ts :=
  tokens_subset fold hi hn hs

example : tokensOf (fun c => [c]) "lo wor".toList = some [46130] ∧
    tokensOf (fun c => [c]) "hello world".toList = some [25219, 21371, 30957, 46130, 35283, 39160] := by decide

/-- the core of n-gram soundness, for either version of `search` -/
theorem ngram_sound_aux (fixed : Bool) (fold : Char → List Char) (rows : List (Nat × Option (List Char)))
    (needle : List Char) (p : Postings) (res : Res) (hb : buildNgram fold rows = some p)
    (hsr : ngramSearch fixed fold p needle = some res)
    (hne : fixed = true ∨ trigrams fold needle ≠ []) : res.Sound (Matches rows needle) := by
  unfold ngramSearch at hsr
  split at hsr
  · -- short needle: recheck everything
    simp at hsr; subst hsr
    intro x hx; simp at hx
  · cases htn : tokensOf fold needle with
    | none => simp [htn] at hsr
    | some toks =>
      simp only [htn] at hsr
      -- every matching row carries all tokens of the needle
      have hall : ∀ x, Matches rows needle x → ∀ t ∈ toks, (t, x) ∈ p := by
        rintro x ⟨s, hrow, hinf⟩ t ht
        obtain ⟨ts, hts, hmem⟩ := buildFrom_complete hb x s hrow
        exact hmem t (tokens_subset fold hinf htn hts t ht)
      split at hsr
      · -- a token is missing from the index: no row can match
        rename_i hmiss
        simp at hsr; subst hsr
        intro x
        constructor
        · intro hx; simp at hx
        · intro hM
          simp only [List.any_eq_true] at hmiss
          obtain ⟨t, ht, hnone⟩ := hmiss
          exact absurd (hall x hM t ht) (Postings.get_none hnone x)
      · rename_i hpresent
        split at hsr
        · simp at hsr; subst hsr
          intro x hx; simp at hx
        · rename_i hnf
          simp at hsr; subst hsr
          -- the intersection of at least one posting list
          have htoks : toks ≠ [] := by
            rcases hne with h | h
            · subst h
              intro he; apply hnf; simp [he]
            · intro he
              apply h
              subst he
              unfold tokensOf at htn
              cases hg : trigrams fold needle with
              | nil => rfl
              | cons g gs =>
                rw [hg] at htn
                simp only [List.map_cons] at htn
                cases hto : tokenOf g with
                | none => simp [hto, optAll] at htn
                | some y =>
                  simp only [hto, optAll] at htn
                  cases hrest : optAll (gs.map tokenOf) with
                  | none => simp [hrest] at htn
                  | some r => simp [hrest] at htn
          have hget : ∀ t ∈ toks, ∃ l, p.get t = some l := by
            intro t ht
            cases hg : p.get t with
            | some l => exact ⟨l, rfl⟩
            | none =>
              exfalso; apply hpresent
              simp only [List.any_eq_true]
              exact ⟨t, ht, by simp [hg]⟩
          intro x hM
          have hls : toks.filterMap p.get ≠ [] := by
            cases toks with
            | nil => exact absurd rfl htoks
            | cons t rest =>
              obtain ⟨l, hl⟩ := hget t List.mem_cons_self
              simp [List.filterMap_cons, hl]
          rw [mem_intersect hls]
          intro l hl
          obtain ⟨t, ht, hlt⟩ := List.mem_filterMap.mp hl
          exact (Postings.get_some_mem hlt x).mpr (hall x hM t ht)

/-- **ngram_superset** (full strength; the code after the `fix:` commit): for every per-character normalisation, every
    table of texts (NULLs, empty strings, any characters) and every needle, the answer of `NGramIndex::search` for
    `contains(col, needle)` is sound: an `AtMost` set contains every matching row, an `Exact` set is exactly the matching
    rows, an `AtLeast` set only matching rows. -/
theorem ngram_superset (fold : Char → List Char) (rows : List (Nat × Option (List Char))) (needle : List Char)
    (p : Postings) (res : Res) (hb : buildNgram fold rows = some p)
    (hs : ngramSearch true fold p needle = some res) : res.Sound (Matches rows needle) :=
  ngram_sound_aux true fold rows needle p res hb hs (Or.inl rfl)

example : buildNgram (fun c => [c]) [(7, some "hello world".toList), (9, some "a b".toList), (11, none)] =
      some [(0, 11), (25219, 7), (21371, 7), (30957, 7), (46130, 7), (35283, 7), (39160, 7)] ∧
    ngramSearch true (fun c => [c]) [(0, 11), (25219, 7), (21371, 7), (30957, 7), (46130, 7), (35283, 7), (39160, 7)]
      "lo wor".toList = some (.atMost [7]) ∧
    ngramSearch true (fun c => [c]) [(0, 11), (25219, 7), (21371, 7), (30957, 7), (46130, 7), (35283, 7), (39160, 7)]
      "a b".toList = some (.atLeast []) := by decide

/-- the full statement for the PINNED code (`fixed = false`): kept visible -/
def ngram_pinned_full : Prop :=
  ∀ (fold : Char → List Char) (rows : List (Nat × Option (List Char))) (needle : List Char) (p : Postings) (res : Res),
    buildNgram fold rows = some p → ngramSearch false fold p needle = some res → res.Sound (Matches rows needle)

/-- **ngram_pinned_partial**: the pinned code is sound exactly when at least one trigram of the needle survives the
    alphanumeric filter -/
theorem ngram_pinned_partial (fold : Char → List Char) (rows : List (Nat × Option (List Char))) (needle : List Char)
    (p : Postings) (res : Res) (hb : buildNgram fold rows = some p)
    (hs : ngramSearch false fold p needle = some res) (hne : trigrams fold needle ≠ []) :
    res.Sound (Matches rows needle) :=
  ngram_sound_aux false fold rows needle p res hb hs (Or.inr hne)

example : trigrams (fun c => [c]) "lo wor".toList ≠ [] := by decide

/-- **ngram_pinned_counterexample**: `contains(s, 'a b')` on the single row "a b": every trigram of the needle holds a
    blank, none survives, the empty intersection was returned as `AtMost(∅)` and the matching row was dropped. -/
theorem ngram_pinned_counterexample : ¬ ngram_pinned_full := by
  intro h
  have := h (fun c => [c]) [(0, some "a b".toList)] "a b".toList [] (.atMost []) (by decide) (by decide) 0
    ⟨"a b".toList, by simp, List.infix_refl _⟩
  simp at this

/-! ## The recheck contract -/

/-- how a scan turns an index answer into the final row set: `Exact` is taken as is, `AtMost` rows are re-filtered with the
    predicate, rows outside an `AtLeast` set are re-filtered (`all` = the live rows, `holds` = the predicate on a row) -/
def finalRows (res : Res) (all : List Nat) (holds : Nat → Bool) : List Nat :=
  match res with
  | .exact ids => all.filter (fun x => ids.contains x)
  | .atMost ids => all.filter (fun x => ids.contains x && holds x)
  | .atLeast ids => all.filter (fun x => ids.contains x || holds x)

/-- **recheck_contract**: a sound answer, rechecked, gives exactly the rows an un-indexed scan returns — the false
    positives of an inexact index are harmless, and only a dropped row (an unsound `AtMost`) can change the result. -/
theorem recheck_contract (res : Res) (all : List Nat) (holds : Nat → Bool)
    (hs : res.Sound (fun x => holds x = true)) : ∀ x, x ∈ finalRows res all holds ↔ (x ∈ all ∧ holds x = true) := by
  intro x
  cases res with
  | exact ids =>
    simp only [finalRows, List.mem_filter, List.contains_eq_mem, decide_eq_true_eq]
    have := hs x
    simp only [Res.Sound] at this
    constructor
    · exact fun ⟨h1, h2⟩ => ⟨h1, (hs x).mp h2⟩
    · exact fun ⟨h1, h2⟩ => ⟨h1, (hs x).mpr h2⟩
  | atMost ids =>
    simp only [finalRows, List.mem_filter, List.contains_eq_mem, Bool.and_eq_true, decide_eq_true_eq]
    constructor
    · exact fun ⟨h1, _, h3⟩ => ⟨h1, h3⟩
    · exact fun ⟨h1, h2⟩ => ⟨h1, hs x h2, h2⟩
  | atLeast ids =>
    simp only [finalRows, List.mem_filter, List.contains_eq_mem, Bool.or_eq_true, decide_eq_true_eq]
    constructor
    · rintro ⟨h1, h2 | h2⟩
      · exact ⟨h1, hs x h2⟩
      · exact ⟨h1, h2⟩
    · exact fun ⟨h1, h2⟩ => ⟨h1, Or.inr h2⟩

/-- the ground truth used by the driver's `contains` is the sub-string relation of the theorems -/
theorem contains_spec (s needle : List Char) : containsB s needle = true ↔ needle <:+: s :=
  containsB_iff s needle

end LanceModel.C20
