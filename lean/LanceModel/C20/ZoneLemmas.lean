import LanceModel.C20.Model
/-
C20 lemmas: the total order on keys, soundness of `evaluate_zone_against_query` for a zone whose statistics are valid for
a value, validity of the accumulated statistics.
-/
namespace LanceModel.C20

namespace V

theorem le_refl (a : V) : le a a = true := by
  cases a <;> simp [le]

theorem le_trans {a b c : V} (h1 : le a b = true) (h2 : le b c = true) : le a c = true := by
  cases a <;> cases b <;> cases c <;> simp_all [le] <;> omega

theorem le_total (a b : V) : le a b = true ∨ le b a = true := by
  cases a <;> cases b <;> simp [le] <;> omega

theorem le_antisymm {a b : V} (h1 : le a b = true) (h2 : le b a = true) : a = b := by
  cases a <;> cases b <;> simp_all [le] <;> omega

theorem le_nan (a : V) : le a .nan = true := by
  cases a <;> simp [le]

theorem null_le (a : V) : le .null a = true := by
  cases a <;> simp [le]

theorem nan_le {a : V} (h : le .nan a = true) : a = .nan := by
  cases a <;> simp_all [le]

end V

/-- the statistics of zone `z` are valid for a cell `v` stored in it -/
def Zone.ValidFor (z : Zone) (v : V) : Prop :=
  (v = .null → 0 < z.nulls) ∧ (v = .nan → 0 < z.nans) ∧
  (v ≠ .null → V.le z.min v = true ∧ V.le v z.max = true)

theorem startCheck_sound {z : Zone} {v : V} {lo : Bnd} (hmax : V.le v z.max = true)
    (hs : satBnd true v lo = true) : startCheck z lo = true := by
  cases lo with
  | unb => rfl
  | incl s =>
    simp only [satBnd, Bool.and_eq_true, if_true] at hs
    simp only [startCheck]
    split
    · rfl
    · exact V.le_trans hs.2 hmax
  | excl s =>
    simp only [satBnd, Bool.and_eq_true, if_true, V.lt, Bool.not_eq_true'] at hs
    simp only [startCheck, V.lt, Bool.not_eq_true']
    cases h : V.le z.max s with
    | false => rfl
    | true =>
      have := V.le_trans hmax h
      rw [this] at hs
      exact absurd hs.2 (by simp)

theorem endCheck_sound {z : Zone} {v : V} {hi : Bnd} (hmin : V.le z.min v = true)
    (hs : satBnd false v hi = true) : endCheck z hi = true := by
  cases hi with
  | unb => rfl
  | incl e =>
    simp only [satBnd, Bool.and_eq_true] at hs
    exact V.le_trans hmin (by simpa using hs.2)
  | excl e =>
    simp only [satBnd, Bool.and_eq_true, V.lt, Bool.not_eq_true'] at hs
    simp only [endCheck, V.lt, Bool.not_eq_true']
    cases h : V.le e z.min with
    | false => rfl
    | true =>
      have := V.le_trans h hmin
      have h2 : V.le e v = false := by simpa using hs.2
      rw [this] at h2
      exact absurd h2 (by simp)

theorem evalRange_sound {z : Zone} {v : V} {lo hi : Bnd} (hv : z.ValidFor v) (hn : v ≠ .null)
    (hlo : satBnd true v lo = true) (hhi : satBnd false v hi = true) : evalRange z lo hi = true := by
  obtain ⟨_, hnan, hmm⟩ := hv
  obtain ⟨hmin, hmax⟩ := hmm hn
  have hsc := startCheck_sound (z := z) hmax hlo
  have hec := endCheck_sound (z := z) hmin hhi
  unfold evalRange
  split
  · -- lo = incl nan : v = nan
    simp only [satBnd, Bool.and_eq_true, if_true] at hlo
    have := V.nan_le hlo.2
    simpa using hnan this
  · -- lo = excl nan : impossible
    simp only [satBnd, Bool.and_eq_true, if_true, V.lt, V.le_nan] at hlo
    exact absurd hlo.2 (by simp)
  · split
    · simp [V.le_nan]
    · rfl
    · simp [hsc, hec]

/-- **core of `zone_superset`**: if the statistics of a zone are valid for a cell and the cell satisfies the predicate,
    `evaluate_zone_against_query` keeps the zone -/
theorem evalZone_sound {z : Zone} {q : Query} {v : V} (hv : z.ValidFor v) (hs : satB q v = true) :
    evalZone z q = true := by
  cases q with
  | isNull =>
    simp only [satB] at hs
    cases v <;> simp_all [V.isNull, evalZone, Zone.ValidFor]
  | eq t =>
    simp only [satB, Bool.and_eq_true, Bool.not_eq_true', decide_eq_true_eq] at hs
    obtain ⟨⟨hn, _⟩, rfl⟩ := hs
    obtain ⟨_, hnan, hmm⟩ := hv
    cases v with
    | null => simp [V.isNull] at hn
    | nan => simpa [evalZone, evalEq] using hnan rfl
    | num k =>
      obtain ⟨hmin, hmax⟩ := hmm (by simp)
      simp only [evalZone, evalEq, hmin, Bool.true_and]
      split <;> simp_all
  | range lo hi =>
    simp only [satB, Bool.and_eq_true, Bool.not_eq_true'] at hs
    obtain ⟨⟨hn, hlo⟩, hhi⟩ := hs
    exact evalRange_sound hv (by cases v <;> simp_all [V.isNull]) hlo hhi
  | isIn ts =>
    simp only [satB, Bool.and_eq_true, Bool.not_eq_true', List.any_eq_true, decide_eq_true_eq] at hs
    obtain ⟨hn, t, ht, _, rfl⟩ := hs
    obtain ⟨_, hnan, hmm⟩ := hv
    simp only [evalZone, List.any_eq_true]
    refine ⟨v, ht, ?_⟩
    cases v with
    | null => simp [V.isNull] at hn
    | nan => simpa [evalInOne] using hnan rfl
    | num k =>
      obtain ⟨hmin, hmax⟩ := hmm (by simp)
      simp [evalInOne, hmin, hmax]

/-! ### the accumulated statistics are valid -/

def minStep (m v : V) : V := if v.isNull then m else if m.isNull then v else if V.le v m then v else m
def maxStep (m v : V) : V := if v.isNull then m else if m.isNull then v else if V.le m v then v else m

theorem minV_eq (vs : List V) : minV vs = vs.foldl minStep .null := rfl
theorem maxV_eq (vs : List V) : maxV vs = vs.foldl maxStep .null := rfl

theorem minStep_left (m a : V) (hm : m ≠ .null) : V.le (minStep m a) m = true ∧ minStep m a ≠ .null := by
  cases a <;> cases m <;> simp_all [minStep, V.isNull, V.le]
  next x y => by_cases h : x ≤ y <;> simp [h]
theorem minStep_right (m a : V) (ha : a ≠ .null) : V.le (minStep m a) a = true ∧ minStep m a ≠ .null := by
  cases a <;> cases m <;> simp_all [minStep, V.isNull, V.le]
  next x y => by_cases h : x ≤ y <;> simp [h]; omega
theorem maxStep_left (m a : V) (hm : m ≠ .null) : V.le m (maxStep m a) = true ∧ maxStep m a ≠ .null := by
  cases a <;> cases m <;> simp_all [maxStep, V.isNull, V.le]
  next x y => by_cases h : y ≤ x <;> simp [h]
theorem maxStep_right (m a : V) (ha : a ≠ .null) : V.le a (maxStep m a) = true ∧ maxStep m a ≠ .null := by
  cases a <;> cases m <;> simp_all [maxStep, V.isNull, V.le]
  next x y => by_cases h : y ≤ x <;> simp [h]; omega

/-- lower bound invariant of the min fold: the result is below the start value (if that is not null) and below every
    non-null element -/
theorem foldl_min_le (vs : List V) (m : V) :
    (m ≠ .null → V.le (vs.foldl minStep m) m = true) ∧
    (∀ v ∈ vs, v ≠ .null → V.le (vs.foldl minStep m) v = true) := by
  induction vs generalizing m with
  | nil => simp [V.le_refl]
  | cons a t ih =>
    simp only [List.foldl_cons, List.mem_cons]
    have ih' := ih (minStep m a)
    refine ⟨fun hm => ?_, fun v hv hvn => ?_⟩
    · exact V.le_trans (ih'.1 (minStep_left m a hm).2) (minStep_left m a hm).1
    · rcases hv with rfl | hv
      · exact V.le_trans (ih'.1 (minStep_right m v hvn).2) (minStep_right m v hvn).1
      · exact ih'.2 v hv hvn

theorem foldl_max_ge (vs : List V) (m : V) :
    (m ≠ .null → V.le m (vs.foldl maxStep m) = true) ∧
    (∀ v ∈ vs, v ≠ .null → V.le v (vs.foldl maxStep m) = true) := by
  induction vs generalizing m with
  | nil => simp [V.le_refl]
  | cons a t ih =>
    simp only [List.foldl_cons, List.mem_cons]
    have ih' := ih (maxStep m a)
    refine ⟨fun hm => ?_, fun v hv hvn => ?_⟩
    · exact V.le_trans (maxStep_left m a hm).1 (ih'.1 (maxStep_left m a hm).2)
    · rcases hv with rfl | hv
      · exact V.le_trans (maxStep_right m v hvn).1 (ih'.1 (maxStep_right m v hvn).2)
      · exact ih'.2 v hv hvn

/-- the statistics `new_map` writes are valid for every value fed into the zone -/
theorem zoneOf_valid (t : TZone V) (v : V) (hv : v ∈ t.vals) : (zoneOf t).ValidFor v := by
  refine ⟨fun h => ?_, fun h => ?_, fun h => ?_⟩
  · subst h
    simp only [zoneOf]
    exact List.countP_pos_iff.mpr ⟨.null, hv, rfl⟩
  · subst h
    simp only [zoneOf]
    exact List.countP_pos_iff.mpr ⟨.nan, hv, rfl⟩
  · simp only [zoneOf, minV_eq, maxV_eq]
    exact ⟨(foldl_min_le t.vals .null).2 v hv h, (foldl_max_ge t.vals .null).2 v hv h⟩

end LanceModel.C20
