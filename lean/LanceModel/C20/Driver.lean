import LanceModel.Util
import LanceModel.C20.Model
/-
C20 driver: one output line per op line (protocol in harness/src/bin/c20.rs).
-/
namespace LanceModel.C20.Driver
open LanceModel.Util LanceModel.C20

def bad : String := "bad-op"

/-! ### parsing -/

def allDigits (s : String) : Bool := !s.isEmpty && s.toList.all Char.isDigit

def parseCell (s : String) : Option V :=
  if s = "n" then some .null
  else if s = "N" then some .nan
  else
    let d := if s.startsWith "-" then (s.drop 1).toString else s
    if !allDigits d || d.length > 15 then none
    else match d.toNat? with
      | some k => some (.num (if s.startsWith "-" then -(k : Int) else (k : Int)))
      | none => none

def showCell : V → String
  | .null => "n"
  | .nan => "N"
  | .num k => toString k

/-- a u32 -/
def parseU32 (s : String) : Option Nat :=
  if !allDigits s then none else
  match s.toNat? with
  | some k => if k < 2 ^ 32 then some k else none
  | none => none

def parseNat (s : String) : Option Nat := if allDigits s then s.toNat? else none

def parseStr (s : String) : Option (Option (List Char)) :=
  if s = "n" then some none
  else if s = "-" then some (some [])
  else
    ((s.splitOn ".").mapM (fun p =>
      if !allDigits p || p.length > 7 then none else
      match p.toNat? with
      | some cp => if cp < 0xD800 || (0xDFFF < cp && cp ≤ 0x10FFFF) then some (Char.ofNat cp) else none
      | none => none)).map some

def parseBnd (s : String) : Option Bnd :=
  if s = "u" then some .unb
  else
    let v := (s.drop 1).toString
    if s.startsWith "i" then (parseCell v).map .incl
    else if s.startsWith "e" then (parseCell v).map .excl
    else none

def parseCells (s : String) : Option (List V) := (s.splitOn ",").mapM parseCell

def parseQuery : List String → Option Query
  | ["isnull"] => some .isNull
  | ["eq", v] => (parseCell v).map .eq
  | ["range", a, b] =>
    match parseBnd a, parseBnd b with
    | some a, some b => some (.range a b)
    | _, _ => none
  | ["in", vs] => (parseCells vs).map .isIn
  | _ => none

def Bnd.hasNan : Bnd → Bool
  | .unb => false
  | .incl v => v.isNan
  | .excl v => v.isNan

/-- a NaN literal cannot be built for an Int64 column -/
def Query.hasNan : Query → Bool
  | .isNull => false
  | .eq v => v.isNan
  | .range a b => Bnd.hasNan a || Bnd.hasNan b
  | .isIn vs => vs.any V.isNan

def kv (tok key : String) : Option String :=
  if tok.startsWith key then some (tok.drop key.length).toString else none

/-- `frag:off:<x>` triples -/
def parseTriples {β : Type} (pv : String → Option β) (s : String) : Option (List (Nat × Nat × β)) :=
  if s = "-" then some [] else
  (s.splitOn ",").mapM (fun r =>
    match r.splitOn ":" with
    | [f, o, v] =>
      match parseU32 f, parseU32 o, pv v with
      | some f, some o, some v => some (f, o, v)
      | _, _, _ => none
    | _ => none)

/-! ### printing -/

def sortDedup (l : List Nat) : List Nat := (sortNat l).eraseDups

def showAddrs (l : List (Nat × Nat)) : String :=
  let keys := sortDedup (l.map (fun a => a.1 * 2 ^ 32 + a.2))
  if keys.isEmpty then "-" else
  ",".intercalate (keys.map (fun k => toString (k / 2 ^ 32) ++ "." ++ toString (k % 2 ^ 32)))

def showZones (zs : List Zone) : String :=
  if zs.isEmpty then "zones -" else
  "zones " ++ ";".intercalate (zs.map (fun z =>
    ":".intercalate [toString z.frag, toString z.start, toString z.len, showCell z.min, showCell z.max,
      toString z.nulls, toString z.nans]))

def hexDigit (n : Nat) : Char := if n < 10 then Char.ofNat (48 + n) else Char.ofNat (87 + n)

def hexByte (b : Nat) : String := String.ofList [hexDigit (b / 16), hexDigit (b % 16)]

/-- a 32-bit word as 4 little-endian bytes in hex -/
def hexWord (w : Nat) : String :=
  hexByte (w % 256) ++ hexByte (w / 256 % 256) ++ hexByte (w / 65536 % 256) ++ hexByte (w / 16777216 % 256)

def hexFilter (f : Sbbf) : String := String.join (f.map (fun b => String.join (b.map hexWord)))

/-! ### concrete parameters of the abstract model -/

/-- bytes hashed for a bloom-filter value: an i64 little-endian, or the UTF-8 bytes of a string -/
inductive BV where
  | int (k : Int)
  | str (s : List Char)
  deriving DecidableEq

def BV.bytes : BV → List UInt8
  | .int k =>
    let u := (k % (2 ^ 64 : Int)).toNat
    (List.range 8).map (fun i => UInt8.ofNat (u / 256 ^ i % 256))
  | .str s => (String.ofList s).toUTF8.toList

def bvHash (v : BV) : Nat := XX.hash64 v.bytes

/-- `LowerCaser` then `AsciiFoldingFilter` on one character, for the alphabet the generator uses
    (ASCII, and the non-ASCII characters listed here; every other character is left alone) -/
def foldChar (c : Char) : List Char :=
  if 'A' ≤ c && c ≤ 'Z' then [Char.ofNat (c.toNat + 32)]
  else if c.toNat < 128 then [c]
  else match c.toNat with
    | 0xE9 => ['e']        -- é
    | 0xC9 => ['e']        -- É -> é -> e
    | 0xDF => ['s', 's']   -- ß
    | 0xE6 => ['a', 'e']   -- æ
    | 0xC6 => ['a', 'e']   -- Æ -> æ -> ae
    | 0xFB01 => ['f', 'i'] -- ﬁ
    | 0x2460 => ['1']      -- ①
    | 0xF8 => ['o']        -- ø
    | 0x131 => ['i']       -- ı
    | 0x1C6 => ['d', 'z']  -- ǆ
    | 0x3A3 => [Char.ofNat 0x3C3]            -- Σ -> σ
    | 0x130 => ['i', Char.ofNat 0x307]       -- İ -> i + combining dot above
    | 0x1D00 => ['A']      -- ᴀ  (folds to an UPPER-case letter)
    | 0x299 => ['B']       -- ʙ
    | 0x1E5 => ['G']       -- ǥ
    | _ => [c]

/-- the n-gram search as the code is now (after the `fix:` commit) -/
def searchNow := ngramSearch true foldChar

/-! ### state -/

structure St where
  zfloat : Bool := false
  zones : Option (List Zone) := none
  bstrings : Bool := false
  bzones : Option (List BZone) := none
  ng : Option Postings := none
  tbl : Option (List (Row × Bool)) := none   -- (row, live)

def init : St := {}

def parseBVal (strings : Bool) (s : String) : Option (Option BV) :=
  if strings then (parseStr s).map (fun o => o.map BV.str)
  else match parseCell s with
    | some .null => some none
    | some (.num k) => some (some (.int k))
    | _ => none

def showRes (kind : String) (ids : List Nat) : String := kind ++ " " ++ showNatList (sortDedup ids)

def showPostings (p : Postings) : String :=
  let toks := sortDedup (p.map (·.1))
  if toks.isEmpty then "postings -" else
  "postings " ++ ";".intercalate (toks.map (fun t =>
    toString t ++ ":" ++ ".".intercalate ((sortDedup ((p.filter (fun e => e.1 == t)).map (·.2))).map toString)))

def hasBadQuote (s : List Char) : Bool := s.any (fun c => c == '\'' || c == '\\')

/-- literals of an end-to-end predicate must be plain numbers -/
def Bnd.plain : Bnd → Bool
  | .unb => true
  | .incl (.num _) => true
  | .excl (.num _) => true
  | _ => false

def Query.plain : Query → Bool
  | .isNull => true
  | .eq (.num _) => true
  | .eq _ => false
  | .range .unb .unb => false
  | .range a b => Bnd.plain a && Bnd.plain b
  | .isIn vs => vs.all (fun v => match v with | .num _ => true | _ => false)

def liveCount (t : List (Row × Bool)) : Nat := (t.filter (·.2)).length

def step (s : St) (line : String) : St × String :=
  match splitTokens line with
  | ["ztrain", ty, z, rows] =>
    match kv ty "t=", (kv z "z=").bind parseNat, parseTriples parseCell rows with
    | some ty, some z, some rows =>
      if z = 0 || z > 1000 || !(ty = "i" || ty = "f") then (s, bad)
      else if ty = "i" && rows.any (fun r => r.2.2.isNan) then (s, bad)
      else
        let zs := (train z (rows.map (fun r => (r.1, r.2.2)))).map zoneOf
        ({ s with zfloat := ty = "f", zones := some zs }, showZones zs)
    | _, _, _ => (s, bad)
  | ["zload", ty, zones] =>
    match kv ty "t=" with
    | some ty =>
      if !(ty = "i" || ty = "f") then (s, bad) else
      let parsed : Option (List Zone) :=
        if zones = "-" then some [] else
        (zones.splitOn ";").mapM (fun r =>
          match r.splitOn ":" with
          | [f, st, l, mn, mx, nu, na] =>
            match parseU32 f, parseU32 st, parseNat l, parseCell mn, parseCell mx, parseU32 nu, parseU32 na with
            | some f, some st, some l, some mn, some mx, some nu, some na =>
              if l > 64 then none else
              some { frag := f, start := st, len := l, min := mn, max := mx, nulls := nu, nans := na }
            | _, _, _, _, _, _, _ => none
          | _ => none)
      match parsed with
      | some zs =>
        if ty = "i" && zs.any (fun z => z.min.isNan || z.max.isNan) then (s, bad)
        else ({ s with zfloat := ty = "f", zones := some zs }, showZones zs)
      | none => (s, bad)
    | none => (s, bad)
  | "zq" :: rest =>
    match parseQuery rest, s.zones with
    | some q, some zs =>
      if !s.zfloat && Query.hasNan q then (s, bad)
      else (s, "atmost " ++ showAddrs (zoneSearch zs q))
    | _, _ => (s, bad)
  | ["btrain", ty, n, p, nb, rows] =>
    match kv ty "t=", (kv n "n=").bind parseNat, kv p "p=", (kv nb "nb=").bind parseNat with
    | some ty, some n, some p, some nb =>
      if !(ty = "i" || ty = "s") || n > 1000 || n = 0 then (s, bad)
      else if p.isEmpty || !(p.toList.all (fun c => c.isDigit || c == '.')) then (s, bad)
      else
        match parseTriples (parseBVal (ty = "s")) rows with
        | some rows =>
          let zs := (train n (rows.map (fun r => (r.1, r.2.2)))).map (bzoneOf bvHash nb)
          let body := if zs.isEmpty then "-" else ";".intercalate (zs.map (fun z =>
            ":".intercalate [toString z.frag, toString z.start, toString z.len,
              (if z.hasNull then "1" else "0"), hexFilter z.filter]))
          ({ s with bstrings := ty = "s", bzones := some zs }, "blocks nb=" ++ toString nb ++ " " ++ body)
        | none => (s, bad)
    | _, _, _, _ => (s, bad)
  | "bq" :: rest =>
    match s.bzones with
    | none => (s, bad)
    | some zs =>
      let q : Option (BQuery BV) := match rest with
        | ["isnull"] => some .isNull
        | ["eq", v] => (parseBVal s.bstrings v).map .eq
        | ["in", vs] => ((vs.splitOn ",").mapM (parseBVal s.bstrings)).map .isIn
        | _ => none
      match q with
      | some q => (s, "atmost " ++ showAddrs (bloomSearch bvHash zs q))
      | none => (s, bad)
  | ["ntrain", rows] =>
    let parsed : Option (List (Nat × Option (List Char))) :=
      if rows = "-" then some [] else
      (rows.splitOn ",").mapM (fun r =>
        match r.splitOn ":" with
        | [id, t] =>
          match parseNat id, parseStr t with
          | some id, some t => if id < 2 ^ 40 then some (id, t) else none
          | _, _ => none
        | _ => none)
    match parsed with
    | some rows =>
      match buildNgram foldChar rows with
      | some p => ({ s with ng := some p }, showPostings p)
      | none => (s, "panic")
    | none => (s, bad)
  | ["nq", t] =>
    match parseStr t, s.ng with
    | some (some needle), some p =>
      match searchNow p needle with
      | some (.exact ids) => (s, showRes "exact" ids)
      | some (.atMost ids) => (s, showRes "atmost" ids)
      | some (.atLeast ids) => (s, showRes "atleast" ids)
      | none => (s, "panic")
    | _, _ => (s, bad)
  | ["ewrite", rows] =>
    let parsed : Option (List (V × V × Option (List Char))) :=
      (rows.splitOn ",").mapM (fun r =>
        match r.splitOn ":" with
        | [i, f, t] =>
          match parseCell i, parseCell f, parseStr t with
          | some i, some f, some t => some (i, f, t)
          | _, _, _ => none
        | _ => none)
    match parsed with
    | some rows =>
      if rows.isEmpty || rows.any (fun r => r.1.isNan) then (s, bad) else
      let old := s.tbl.getD []
      let start := old.length
      let new := (List.range rows.length).zip rows |>.map (fun (k, r) =>
        (({ id := start + k, i := r.1, f := r.2.1, s := r.2.2 } : Row), true))
      let t := old ++ new
      ({ s with tbl := some t }, "ok n=" ++ toString (liveCount t))
    | none => (s, bad)
  | ["edelete", ids] =>
    match parseNatList ids, s.tbl with
    | some ids, some t =>
      if ids.isEmpty then (s, bad) else
      let t' := t.map (fun (r, live) => (r, live && !ids.contains r.id))
      ({ s with tbl := some t' }, "ok n=" ++ toString (liveCount t'))
    | _, _ => (s, bad)
  | "eindex" :: rest =>
    match s.tbl with
    | none => (s, bad)
    | some t =>
      match rest with
      | ["zonemap", c, z] =>
        if !(c = "i" || c = "f") then (s, bad) else
        match parseNat z with
        | some z => if z = 0 then (s, bad) else (s, "ok")
        | none => (s, bad)
      | ["bloom", c, n, p] =>
        if !(c = "i" || c = "s") then (s, bad) else
        match parseNat n with
        | some n =>
          if n = 0 || p.isEmpty || !(p.toList.all (fun c => c.isDigit || c == '.')) then (s, bad) else (s, "ok")
        | none => (s, bad)
      | ["ngram", "s"] =>
        match buildNgram foldChar ((t.filter (·.2)).map (fun (r, _) => (r.id, r.s))) with
        | some _ => (s, "ok")
        | none => (s, "panic")
      | _ => (s, bad)
  | ["eoptimize"] =>
    match s.tbl with
    | some _ => (s, "ok")
    | none => (s, bad)
  | "escan" :: rest =>
    match s.tbl with
    | none => (s, bad)
    | some t =>
      let pred : Option Pred := match rest with
        | ["s", "contains", n] =>
          match parseStr n with
          | some (some n) => if hasBadQuote n then none else some (.contains n)
          | _ => none
        | ["s", "eq", n] =>
          match parseStr n with
          | some (some n) => if hasBadQuote n then none else some (.sEq n)
          | _ => none
        | "i" :: q => (parseQuery q).bind (fun q => if Query.plain q then some (.onI q) else none)
        | "f" :: q => (parseQuery q).bind (fun q => if Query.plain q then some (.onF q) else none)
        | _ => none
      match pred with
      | some p => (s, "ids " ++ showNatList (sortDedup ((t.filter (fun (r, live) => live && p.holds r)).map (·.1.id))))
      | none => (s, bad)
  | _ => (s, bad)

end LanceModel.C20.Driver
