import LanceModel.C20.Model
/-
C20 lemmas: the trigram tokens of a needle occur among the tokens of every text that contains it; the posting-list
intersection therefore keeps every matching row.
-/
namespace LanceModel.C20

/-! ### windows and infixes -/

theorem mem_windows3_cons {g : List Char} {m : List Char} (x : Char) (h : g ∈ windows3 m) :
    g ∈ windows3 (x :: m) := by
  match m with
  | [] => simp [windows3] at h
  | [_] => simp [windows3] at h
  | b :: c :: t => simp only [windows3, List.mem_cons]; exact Or.inr (by simpa [windows3] using h)

theorem mem_windows3_append_left {g : List Char} (a : List Char) {m : List Char} (h : g ∈ windows3 m) :
    g ∈ windows3 (a ++ m) := by
  induction a with
  | nil => exact h
  | cons x a ih => exact mem_windows3_cons x ih

theorem mem_windows3_append_right {g : List Char} {m : List Char} (bs : List Char) (h : g ∈ windows3 m) :
    g ∈ windows3 (m ++ bs) := by
  fun_induction windows3 m with
  | case1 a b c t ih =>
    simp only [List.mem_cons] at h
    simp only [List.cons_append, windows3, List.mem_cons]
    rcases h with h | h
    · exact Or.inl h
    · exact Or.inr (by simpa using ih h)
  | case2 l hl => simp at h

/-- a window of an infix is a window of the whole -/
theorem mem_windows3_of_infix {g n s : List Char} (hi : n <:+: s) (h : g ∈ windows3 n) : g ∈ windows3 s := by
  obtain ⟨a, b, rfl⟩ := hi
  exact mem_windows3_append_right b (mem_windows3_append_left a h)

/-- normalisation (a per-character map) preserves "is a contiguous sub-string of" -/
theorem norm_infix (fold : Char → List Char) {n s : List Char} (hi : n <:+: s) : norm fold n <:+: norm fold s := by
  obtain ⟨a, b, rfl⟩ := hi
  exact ⟨norm fold a, norm fold b, by simp [norm, List.flatMap_append]⟩

/-- every surviving trigram of the needle is a surviving trigram of a text containing the needle -/
theorem trigrams_subset (fold : Char → List Char) {n s : List Char} (hi : n <:+: s) {g : List Char}
    (h : g ∈ trigrams fold n) : g ∈ trigrams fold s := by
  simp only [trigrams, List.mem_filter] at h ⊢
  exact ⟨mem_windows3_of_infix (norm_infix fold hi) h.1, h.2⟩

/-! ### optAll -/

theorem optAll_some_mem {β : Type} : ∀ {l : List (Option β)} {r : List β}, optAll l = some r →
    ∀ y, y ∈ r ↔ some y ∈ l
  | [], r, h, y => by simp [optAll] at h; subst h; simp
  | none :: t, r, h, y => by simp [optAll] at h
  | some x :: t, r, h, y => by
    simp only [optAll] at h
    cases ht : optAll t with
    | none => simp [ht] at h
    | some r' =>
      simp only [ht, Option.some.injEq] at h
      subst h
      have := optAll_some_mem ht y
      simp only [List.mem_cons, this, Option.some.injEq]

/-- the tokens of the needle are tokens of every text that contains it -/
theorem tokens_subset (fold : Char → List Char) {n s : List Char} (hi : n <:+: s) {tn ts : List Nat}
    (hn : tokensOf fold n = some tn) (hs : tokensOf fold s = some ts) : ∀ t ∈ tn, t ∈ ts := by
  intro t ht
  rw [optAll_some_mem hn] at ht
  rw [optAll_some_mem hs]
  simp only [List.mem_map] at ht ⊢
  obtain ⟨g, hg, hgt⟩ := ht
  exact ⟨g, trigrams_subset fold hi hg, hgt⟩

/-! ### the built index contains a pair for every token of every row -/

theorem addRow_mono {fold : Char → List Char} {p p' : Postings} {row} (h : addRow fold p row = some p') :
    ∀ e ∈ p, e ∈ p' := by
  intro e he
  unfold addRow at h
  split at h
  · simp at h; subst h; exact List.mem_cons_of_mem _ he
  · split at h
    · simp at h
    · simp at h; subst h; exact List.mem_append_right _ he

theorem buildFrom_mono {fold : Char → List Char} : ∀ {rows} {p p' : Postings}, buildFrom fold p rows = some p' →
    ∀ e ∈ p, e ∈ p'
  | [], p, p', h, e, he => by simp [buildFrom] at h; subst h; exact he
  | r :: rs, p, p', h, e, he => by
    simp only [buildFrom] at h
    cases ha : addRow fold p r with
    | none => simp [ha] at h
    | some q =>
      simp only [ha] at h
      exact buildFrom_mono h e (addRow_mono ha e he)

/-- completeness of the build: a row with text `s` contributes `(t, id)` for each of its tokens (which exist: the build
    did not panic) -/
theorem buildFrom_complete {fold : Char → List Char} : ∀ {rows} {p p' : Postings}, buildFrom fold p rows = some p' →
    ∀ id s, (id, some s) ∈ rows → ∃ ts, tokensOf fold s = some ts ∧ ∀ t ∈ ts, (t, id) ∈ p'
  | [], p, p', h, id, s, hm => by simp at hm
  | r :: rs, p, p', h, id, s, hm => by
    simp only [buildFrom] at h
    cases ha : addRow fold p r with
    | none => simp [ha] at h
    | some q =>
      simp only [ha] at h
      rcases List.mem_cons.mp hm with rfl | hm'
      · simp only [addRow] at ha
        cases hts : tokensOf fold s with
        | none => simp [hts] at ha
        | some ts =>
          simp only [hts, Option.some.injEq] at ha
          subst ha
          refine ⟨ts, rfl, fun t ht => buildFrom_mono h _ ?_⟩
          exact List.mem_append_left _ (List.mem_map.mpr ⟨t, ht, rfl⟩)
      · exact buildFrom_complete h id s hm'

/-- soundness of the build: every pair comes from a row -/
theorem buildFrom_sound {fold : Char → List Char} : ∀ {rows} {p p' : Postings}, buildFrom fold p rows = some p' →
    ∀ e ∈ p', e ∈ p ∨ ∃ r ∈ rows, r.1 = e.2
  | [], p, p', h, e, he => by simp [buildFrom] at h; subst h; exact Or.inl he
  | r :: rs, p, p', h, e, he => by
    simp only [buildFrom] at h
    cases ha : addRow fold p r with
    | none => simp [ha] at h
    | some q =>
      simp only [ha] at h
      rcases buildFrom_sound h e he with hq | ⟨r', hr', hre⟩
      · unfold addRow at ha
        split at ha
        · simp at ha; subst ha
          rcases List.mem_cons.mp hq with rfl | hq'
          · exact Or.inr ⟨r, List.mem_cons_self, rfl⟩
          · exact Or.inl hq'
        · split at ha
          · simp at ha
          · simp at ha; subst ha
            rcases List.mem_append.mp hq with hq' | hq'
            · obtain ⟨t, _, rfl⟩ := List.mem_map.mp hq'
              exact Or.inr ⟨r, List.mem_cons_self, rfl⟩
            · exact Or.inl hq'
      · exact Or.inr ⟨r', List.mem_cons_of_mem _ hr', hre⟩

/-! ### posting lists and their intersection -/

theorem Postings.get_some_mem {p : Postings} {tok : Nat} {l : List Nat} (h : p.get tok = some l) (x : Nat) :
    x ∈ l ↔ (tok, x) ∈ p := by
  unfold Postings.get at h
  split at h
  · simp at h; subst h
    simp only [List.mem_map, List.mem_filter, beq_iff_eq]
    constructor
    · rintro ⟨⟨a, b⟩, ⟨hm, rfl⟩, rfl⟩; exact hm
    · intro hm; exact ⟨(tok, x), ⟨hm, rfl⟩, rfl⟩
  · simp at h

theorem Postings.get_none {p : Postings} {tok : Nat} (h : (p.get tok).isNone = true) (x : Nat) : (tok, x) ∉ p := by
  unfold Postings.get at h
  split at h
  · simp at h
  · rename_i hany
    intro hm
    apply hany
    simp only [List.any_eq_true, beq_iff_eq]
    exact ⟨(tok, x), hm, rfl⟩

theorem foldl_filter_mem (x : Nat) : ∀ (rest : List (List Nat)) (l : List Nat),
    x ∈ rest.foldl (fun acc m => acc.filter (fun y => m.contains y)) l ↔ x ∈ l ∧ ∀ m ∈ rest, x ∈ m
  | [], l => by simp
  | m :: rest, l => by
    simp only [List.foldl_cons, List.mem_cons, forall_eq_or_imp]
    rw [foldl_filter_mem x rest]
    simp only [List.mem_filter, List.contains_eq_mem, decide_eq_true_eq]
    constructor
    · rintro ⟨⟨h1, h2⟩, h3⟩; exact ⟨h1, h2, h3⟩
    · rintro ⟨h1, h2, h3⟩; exact ⟨⟨h1, h2⟩, h3⟩

/-- `NGramPostingList::intersect` of at least one list is the intersection -/
theorem mem_intersect {ls : List (List Nat)} (hne : ls ≠ []) (x : Nat) :
    x ∈ intersect ls ↔ ∀ l ∈ ls, x ∈ l := by
  cases ls with
  | nil => exact absurd rfl hne
  | cons l rest =>
    simp only [intersect, foldl_filter_mem, List.mem_cons, forall_eq_or_imp]

/-! ### `contains` -/

theorem containsB_iff (s n : List Char) : containsB s n = true ↔ n <:+: s := by
  induction s with
  | nil => simp [containsB, List.isEmpty_iff]
  | cons c t ih =>
    simp only [containsB, Bool.or_eq_true, ih, List.isPrefixOf_iff_prefix, List.infix_cons_iff]

end LanceModel.C20
