/-
C20 — inexact scalar indices (zone map, bloom filter, n-gram) never drop a matching row.

MODEL of
  rust/lance-index/src/scalar/zonemap.rs      evaluate_zone_against_query, ScalarIndex::search, ZoneMapIndexBuilder::{train,new_map,update_stats}
  rust/lance-index/src/scalar/bloomfilter.rs  evaluate_block_against_query, ScalarIndex::search, BloomFilterIndexBuilder::{train,new_block,update_stats}
  rust/lance-index/src/scalar/bloomfilter/sbbf.rs   Block::{mask,insert,check}, Sbbf::{hash_to_block_index,insert_hash,check_hash}, hash_as_bytes (XxHash64, seed 0)
  rust/lance-index/src/scalar/ngram.rs        TEXT_PREPPER / NGRAM_TOKENIZER pipeline, ngram_to_token, tokenize_and_partition, NGramIndex::search
Import-free (core only): the driver links natively.

Values are integer KEYS with a class tag (DESIGN.md 4.3): `null`, `num k`, `nan` (the positive NaN of `total_cmp`,
greater than every number).  The order is the one `ScalarValue::partial_cmp` implements: `None < Some`, floats by
`total_cmp`.  A negative NaN (below every number in `total_cmp`) is not modelled.
-/
namespace LanceModel.C20

/-! ## 1. Values and their total order -/

inductive V where
  | null
  | num (k : Int)
  | nan
  deriving DecidableEq, Repr, Inhabited

namespace V

/-- `a <= b` of `ScalarValue::partial_cmp` (`Option` order, `total_cmp` on floats): null < num < nan -/
def le : V → V → Bool
  | .null, _ => true
  | .num _, .null => false
  | .num a, .num b => decide (a ≤ b)
  | .num _, .nan => true
  | .nan, .nan => true
  | .nan, _ => false

/-- `a < b` -/
def lt (a b : V) : Bool := !(le b a)

def isNull : V → Bool
  | .null => true
  | _ => false

def isNan : V → Bool
  | .nan => true
  | _ => false

end V

/-! ## 2. Zone maps -/

/-- zonemap.rs: `ZoneMapStatistics` -/
structure Zone where
  frag : Nat
  start : Nat
  len : Nat
  min : V
  max : V
  nulls : Nat
  nans : Nat
  deriving Repr, DecidableEq

/-- `std::ops::Bound<ScalarValue>` -/
inductive Bnd where
  | unb
  | incl (v : V)
  | excl (v : V)
  deriving Repr, DecidableEq

/-- scalar.rs: `SargableQuery` without `FullTextSearch` (which zone maps refuse) -/
inductive Query where
  | isNull
  | eq (v : V)
  | range (lo hi : Bnd)
  | isIn (vs : List V)
  deriving Repr

/-- zonemap.rs: `evaluate_zone_against_query`, arm `SargableQuery::Equals` -/
def evalEq (z : Zone) : V → Bool
  | .null => decide (0 < z.nulls)
  | .nan => decide (0 < z.nans)
  | .num k => V.le z.min (.num k) && (if z.max.isNan then true else V.le (.num k) z.max)

/-- the `start_check` of arm `SargableQuery::Range` (for a bound that did not return early) -/
def startCheck (z : Zone) : Bnd → Bool
  | .unb => true
  | .incl s => if z.max.isNan then true else V.le s z.max
  | .excl s => V.lt s z.max

/-- the `end_check` of arm `SargableQuery::Range` (for a bound that did not return early) -/
def endCheck (z : Zone) : Bnd → Bool
  | .unb => true
  | .incl e => V.le z.min e
  | .excl e => V.lt z.min e

/-- zonemap.rs: `evaluate_zone_against_query`, arm `SargableQuery::Range`, with its early returns on NaN bounds
    (a NaN start bound returns before the end bound is looked at; a NaN end bound returns without the start check) -/
def evalRange (z : Zone) (lo hi : Bnd) : Bool :=
  match lo with
  | .incl .nan => decide (0 < z.nans)
  | .excl .nan => false
  | lo =>
    match hi with
    | .incl .nan => decide (0 < z.nans) || V.le z.min .nan
    | .excl .nan => true
    | hi => startCheck z lo && endCheck z hi

/-- arm `SargableQuery::IsIn`: one element -/
def evalInOne (z : Zone) : V → Bool
  | .null => decide (0 < z.nulls)
  | .nan => decide (0 < z.nans)
  | .num k => V.le z.min (.num k) && V.le (.num k) z.max

/-- zonemap.rs: `ZoneMapIndex::evaluate_zone_against_query` -/
def evalZone (z : Zone) : Query → Bool
  | .isNull => decide (0 < z.nulls)
  | .eq t => evalEq z t
  | .range lo hi => evalRange z lo hi
  | .isIn vs => vs.any (evalInOne z)

/-- the row addresses `(fragment, offset)` of `insert_range(zone_start_addr..zone_end_addr)` -/
def zoneAddrs (frag start len : Nat) : List (Nat × Nat) :=
  (List.range len).map (fun i => (frag, start + i))

/-- zonemap.rs: `impl ScalarIndex for ZoneMapIndex :: search` — the row set of `SearchResult::AtMost` -/
def zoneSearch (zs : List Zone) (q : Query) : List (Nat × Nat) :=
  (zs.filter (fun z => evalZone z q)).flatMap (fun z => zoneAddrs z.frag z.start z.len)

/-! ### reference semantics of a predicate on one value (SQL, total order on keys) -/

def satBnd (isLo : Bool) (v : V) : Bnd → Bool
  | .unb => true
  | .incl s => !s.isNull && (if isLo then V.le s v else V.le v s)
  | .excl s => !s.isNull && (if isLo then V.lt s v else V.lt v s)

/-- does a row whose cell is `v` satisfy the predicate?  (NULL cells satisfy only IS NULL; a NULL literal satisfies nothing) -/
def satB : Query → V → Bool
  | .isNull, v => v.isNull
  | .eq t, v => !v.isNull && !t.isNull && decide (v = t)
  | .range lo hi, v => !v.isNull && satBnd true v lo && satBnd false v hi
  | .isIn ts, v => !v.isNull && ts.any (fun t => !t.isNull && decide (v = t))

/-! ### statistics of a zone: MinAccumulator / MaxAccumulator / null_count / count_nans -/

/-- datafusion `MinAccumulator` over the non-null values (total order); `null` if there is none -/
def minV (vs : List V) : V :=
  vs.foldl (fun m v => if v.isNull then m else if m.isNull then v else if V.le v m then v else m) .null

/-- datafusion `MaxAccumulator` -/
def maxV (vs : List V) : V :=
  vs.foldl (fun m v => if v.isNull then m else if m.isNull then v else if V.le m v then v else m) .null

/-! ## 3. The training loop shared by `ZoneMapIndexBuilder::train` and `BloomFilterIndexBuilder::train` -/

/-- a zone as the builder sees it: where it claims to be and the values `update_stats` fed into it -/
structure TZone (α : Type) where
  frag : Nat
  start : Nat
  len : Nat
  vals : List α
  deriving Repr, DecidableEq

/-- builder state: `maps`, `cur_zone_offset`, `cur_fragment_id`, and the values accumulated since the last `new_map` -/
structure TSt (α : Type) where
  maps : List (TZone α)
  curOff : Nat
  curFrag : Nat
  acc : List α

/-- `new_map` / `new_block`: zone_start = sum of the lengths of the earlier zones of the same fragment -/
def newMap {α : Type} (st : TSt α) (fragId : Nat) : TSt α :=
  { maps := st.maps ++ [{ frag := fragId,
                          start := ((st.maps.filter (fun m => m.frag == fragId)).map (·.len)).sum,
                          len := st.curOff, vals := st.acc }],
    curOff := 0, curFrag := st.curFrag, acc := [] }

/-- `(array_offset..len).find(|i| frag(i) == target)`; rows are `(fragment, value)` — the offset inside the fragment is
    never looked at by the builder -/
def findFrom {α : Type} (rows : List (Nat × α)) (off target : Nat) : Option Nat :=
  ((rows.drop off).findIdx? (fun r => r.1 == target)).map (off + ·)

/-- `update_stats(&data_array.slice(off, n))` -/
def feed {α : Type} (st : TSt α) (rows : List (Nat × α)) (off n : Nat) : TSt α :=
  { st with acc := st.acc ++ ((rows.drop off).take n).map (·.2), curOff := st.curOff + n }

/-- the fragment of the row at `off` (`row_addrs_array.value(array_offset) >> 32`) -/
def fragAt {α : Type} (rows : List (Nat × α)) (off : Nat) : Nat :=
  match rows.drop off with
  | r :: _ => r.1
  | [] => 0

/-- the `while remaining > 0` loop of `train` over one batch.  `fuel` bounds the iterations (`2·len + 2` suffices: an
    iteration with `desired == 0` is always followed by one that advances). -/
def batchLoop {α : Type} (z : Nat) (rows : List (Nat × α)) : Nat → TSt α → Nat → TSt α
  | 0, st, _ => st
  | fuel + 1, st, off =>
    if rows.length ≤ off then st else
    match findFrom rows off (st.curFrag + 1) with
    | some idx =>
      -- a row of fragment cur+1 is ahead: cur_fragment_id is advanced at once
      if min (idx - off) (z - st.curOff) = 0 then
        -- desired == 0: flush the open zone under the previous fragment id, look again
        batchLoop z rows fuel
          (if 0 < st.curOff then newMap { st with curFrag := st.curFrag + 1 } st.curFrag
           else { st with curFrag := st.curFrag + 1 }) off
      else
        -- 0 < desired <= remaining (idx < len)
        batchLoop z rows fuel
          (newMap (feed { st with curFrag := st.curFrag + 1 } rows off (min (idx - off) (z - st.curOff))) (fragAt rows off))
          (off + min (idx - off) (z - st.curOff))
    | none =>
      if rows.length - off < z - st.curOff then
        -- desired > remaining: accumulate and leave the zone open
        feed st rows off (rows.length - off)
      else if z - st.curOff = 0 then st   -- rows_per_zone = 0: the real loop does not terminate; not generated
      else
        batchLoop z rows fuel (newMap (feed st rows off (z - st.curOff)) (fragAt rows off)) (off + (z - st.curOff))

/-- one batch of `train`: initialise `cur_fragment_id` on the very first batch, then run the loop -/
def trainBatch {α : Type} (z : Nat) (st : TSt α) (batch : List (Nat × α)) : TSt α :=
  if batch.isEmpty then st else
  batchLoop z batch (2 * batch.length + 2)
    (if st.maps.isEmpty && st.curOff == 0 then { st with curFrag := fragAt batch 0 } else st) 0

/-- `chunk_concat_stream(stream, z)`: the concatenated input re-cut into batches of exactly `z` rows (the last one shorter) -/
def chunks {β : Type} (z : Nat) : Nat → List β → List (List β)
  | 0, _ => []
  | _ + 1, [] => []
  | fuel + 1, l => l.take z :: chunks z fuel (l.drop z)

/-- `ZoneMapIndexBuilder::train` / `BloomFilterIndexBuilder::train`: the zones built from the rows `(fragment, value)` of the
    training stream (in stream order) with zone size `z ≥ 1` -/
def train {α : Type} (z : Nat) (rows : List (Nat × α)) : List (TZone α) :=
  let st := (chunks z rows.length rows).foldl (trainBatch z) { maps := [], curOff := 0, curFrag := 0, acc := [] }
  if 0 < st.curOff then (newMap st st.curFrag).maps else st.maps

/-- `new_map`: the statistics written for a zone -/
def zoneOf (t : TZone V) : Zone :=
  { frag := t.frag, start := t.start, len := t.len, min := minV t.vals, max := maxV t.vals,
    nulls := t.vals.countP V.isNull, nans := t.vals.countP V.isNan }

/-! ## 4. Split-block bloom filter (sbbf.rs) -/

/-- sbbf.rs: `SALT` -/
def SALT : List Nat :=
  [0x47b6137b, 0x44974d91, 0x8824ad5b, 0xa2b7289d, 0x705495c7, 0x2df1424b, 0x9efc4947, 0x5c6bfb31]

/-- one word of `Block::mask(x)`: `1 << ((x.wrapping_mul(SALT[i])) >> 27)` -/
def maskWord (x salt : Nat) : Nat := 1 <<< (((x * salt) % 2 ^ 32) >>> 27)

/-- a block: eight 32-bit words -/
abbrev Block := List Nat

def Block.zero : Block := List.replicate 8 0

/-- sbbf.rs: `Block::insert` -/
def Block.insert (b : Block) (h : Nat) : Block :=
  List.zipWith (fun w s => w ||| maskWord h s) b SALT

/-- sbbf.rs: `Block::check` -/
def Block.check (b : Block) (h : Nat) : Bool :=
  (List.zipWith (fun w s => (w &&& maskWord h s) != 0) b SALT).all id

abbrev Sbbf := List Block

def Sbbf.empty (nblocks : Nat) : Sbbf := List.replicate nblocks Block.zero

/-- sbbf.rs: `hash_to_block_index` (`hash` is a u64; `saturating_mul` cannot saturate for < 2^32 blocks) -/
def blockIndex (nblocks hash : Nat) : Nat := ((((hash % 2 ^ 64) >>> 32) * nblocks) >>> 32)

/-- sbbf.rs: `insert_hash` (`hash as u32` = low 32 bits) -/
def Sbbf.insertHash (f : Sbbf) (hash : Nat) : Sbbf :=
  f.modify (blockIndex f.length hash) (fun b => b.insert (hash % 2 ^ 32))

/-- sbbf.rs: `check_hash`; indexing an empty filter panics in the real code (`none`) -/
def Sbbf.checkHash? (f : Sbbf) (hash : Nat) : Option Bool :=
  (f[blockIndex f.length hash]?).map (fun b => b.check (hash % 2 ^ 32))

def Sbbf.checkHash (f : Sbbf) (hash : Nat) : Bool := (f.checkHash? hash).getD false

/-- bloomfilter.rs: `BloomFilterStatistics` -/
structure BZone where
  frag : Nat
  start : Nat
  len : Nat
  hasNull : Bool
  filter : Sbbf

/-- `update_stats` + `new_block`: non-null values are inserted, `has_null` records the rest -/
def bzoneOf {β : Type} (hash : β → Nat) (nblocks : Nat) (t : TZone (Option β)) : BZone :=
  { frag := t.frag, start := t.start, len := t.len,
    hasNull := t.vals.any Option.isNone,
    filter := (t.vals.filterMap id).foldl (fun f x => f.insertHash (hash x)) (Sbbf.empty nblocks) }

/-- scalar.rs: `BloomFilterQuery` -/
inductive BQuery (β : Type) where
  | isNull
  | eq (v : Option β)
  | isIn (vs : List (Option β))

/-- bloomfilter.rs: `evaluate_block_against_query` -/
def evalBlock {β : Type} (hash : β → Nat) (z : BZone) : BQuery β → Bool
  | .isNull => z.hasNull
  | .eq none => z.hasNull
  | .eq (some x) => z.filter.checkHash (hash x)
  | .isIn vs => vs.any (fun v => match v with
      | none => z.hasNull
      | some x => z.filter.checkHash (hash x))

/-- bloomfilter.rs: `impl ScalarIndex for BloomFilterIndex :: search` -/
def bloomSearch {β : Type} (hash : β → Nat) (zs : List BZone) (q : BQuery β) : List (Nat × Nat) :=
  (zs.filter (fun z => evalBlock hash z q)).flatMap (fun z => zoneAddrs z.frag z.start z.len)

/-- reference semantics of a bloom-filter predicate on one cell -/
def bsatB {β : Type} [DecidableEq β] : BQuery β → Option β → Bool
  | .isNull, v => v.isNone
  | .eq t, v => v.isSome && decide (v = t)
  | .isIn ts, v => v.isSome && ts.any (fun t => decide (v = t))

/-! ### XxHash64 with seed 0 (`hash_as_bytes`), used by the driver as the concrete hash -/

namespace XX
def P1 : UInt64 := 11400714785074694791
def P2 : UInt64 := 14029467366897019727
def P3 : UInt64 := 1609587929392839161
def P4 : UInt64 := 9650029242287828579
def P5 : UInt64 := 2870177450012600261

def rotl (x : UInt64) (r : UInt64) : UInt64 := (x <<< r) ||| (x >>> (64 - r))

def round (acc inp : UInt64) : UInt64 := rotl (acc + inp * P2) 31 * P1

def mergeRound (acc v : UInt64) : UInt64 := (acc ^^^ round 0 v) * P1 + P4

/-- little-endian read of (at most 8) bytes -/
def readLE (bs : List UInt8) : UInt64 :=
  bs.foldr (fun b acc => (acc <<< 8) ||| b.toUInt64) 0

/-- the 32-byte stripes -/
def stripes : Nat → List UInt8 → UInt64 × UInt64 × UInt64 × UInt64 → (UInt64 × UInt64 × UInt64 × UInt64) × List UInt8
  | 0, bs, v => (v, bs)
  | fuel + 1, bs, (v1, v2, v3, v4) =>
    if bs.length < 32 then ((v1, v2, v3, v4), bs) else
    stripes fuel (bs.drop 32)
      (round v1 (readLE (bs.take 8)), round v2 (readLE ((bs.drop 8).take 8)),
       round v3 (readLE ((bs.drop 16).take 8)), round v4 (readLE ((bs.drop 24).take 8)))

/-- the tail: 8-byte lanes, one 4-byte lane, single bytes -/
def tail : Nat → List UInt8 → UInt64 → UInt64
  | 0, _, h => h
  | fuel + 1, bs, h =>
    if 8 ≤ bs.length then
      tail fuel (bs.drop 8) (rotl (h ^^^ round 0 (readLE (bs.take 8))) 27 * P1 + P4)
    else if 4 ≤ bs.length then
      tail fuel (bs.drop 4) (rotl (h ^^^ (readLE (bs.take 4) * P1)) 23 * P2 + P3)
    else match bs with
      | [] => h
      | b :: rest => tail fuel rest (rotl (h ^^^ (b.toUInt64 * P5)) 11 * P1)

def avalanche (h : UInt64) : UInt64 :=
  let h := (h ^^^ (h >>> 33)) * P2
  let h := (h ^^^ (h >>> 29)) * P3
  h ^^^ (h >>> 32)

/-- `XxHash64::oneshot(0, bytes)` -/
def hash64 (bs : List UInt8) : Nat :=
  let n := bs.length
  let (h0, rest) :=
    if 32 ≤ n then
      let (vs, rest) := stripes n bs (P1 + P2, P2, 0, 0 - P1)
      let (v1, v2, v3, v4) := vs
      let h := rotl v1 1 + rotl v2 7 + rotl v3 12 + rotl v4 18
      (mergeRound (mergeRound (mergeRound (mergeRound h v1) v2) v3) v4, rest)
    else (P5, bs)
  (avalanche (tail (n + 1) rest (h0 + n.toUInt64))).toNat
end XX

/-! ## 5. N-gram index (ngram.rs) -/

/-- `char::is_ascii_alphanumeric` -/
def isAsciiAlnum (c : Char) : Bool :=
  ('0' ≤ c && c ≤ '9') || ('a' ≤ c && c ≤ 'z') || ('A' ≤ c && c ≤ 'Z')

/-- `TEXT_PREPPER`: `RawTokenizer` (the whole text is one token) + `LowerCaser` + `AsciiFoldingFilter`.  Both filters map
    each character on its own to a (possibly empty or longer) string, so the pipeline is `flatMap` of a per-character map
    `fold`; the theorems hold for every such map. -/
def norm (fold : Char → List Char) (s : List Char) : List Char := s.flatMap fold

/-- `NgramTokenizer::all_ngrams(3, 3)`: every window of three code points -/
def windows3 : List Char → List (List Char)
  | a :: b :: c :: t => [a, b, c] :: windows3 (b :: c :: t)
  | _ => []

/-- `NGRAM_TOKENIZER`: trigrams, then `AlphaNumOnlyFilter` drops every trigram with a non-ASCII-alphanumeric character -/
def trigrams (fold : Char → List Char) (s : List Char) : List (List Char) :=
  (windows3 (norm fold s)).filter (fun g => g.all isAsciiAlnum)

/-- ngram.rs: `ngram_to_token`, the position of one byte (+1); an upper-case ASCII letter makes `byte - b'a'` underflow
    (`none`: a panic under overflow checks).  Only called on ASCII alphanumerics, so `unreachable!()` is unreachable. -/
def alphaPos (c : Char) : Option Nat :=
  if c.toNat ≤ '9'.toNat then some (c.toNat - '0'.toNat + 1)
  else if 'a'.toNat ≤ c.toNat then some (c.toNat - 'a'.toNat + 10 + 1)
  else none

/-- ngram.rs: `ngram_to_token(ngram, 3)` -/
def tokenOf (g : List Char) : Option Nat :=
  match g with
  | [a, b, c] =>
    match alphaPos a, alphaPos b, alphaPos c with
    | some x, some y, some z => some (x * 37 ^ 2 + y * 37 + z)
    | _, _, _ => none
  | _ => none

/-- all-or-nothing: the first `none` (a panic) aborts -/
def optAll {β : Type} : List (Option β) → Option (List β)
  | [] => some []
  | none :: _ => none
  | some x :: t => match optAll t with
    | some r => some (x :: r)
    | none => none

/-- the tokens of a text (`tokenize_visitor` + `ngram_to_token`); `none` = arithmetic overflow panic -/
def tokensOf (fold : Char → List Char) (s : List Char) : Option (List Nat) :=
  optAll ((trigrams fold s).map tokenOf)

/-- posting lists (`BTreeMap<u32, RoaringTreemap>`: token ↦ set of row ids) kept as the list of `(token, row id)` pairs
    that were inserted; a token has an entry iff some pair carries it -/
abbrev Postings := List (Nat × Nat)

/-- `self.tokens.get(&token)` followed by the load of that posting list -/
def Postings.get (p : Postings) (tok : Nat) : Option (List Nat) :=
  if p.any (fun e => e.1 == tok) then some ((p.filter (fun e => e.1 == tok)).map (·.2)) else none

/-- `tokenize_and_partition` + `process_batch` for one row: a NULL text goes to token 0 -/
def addRow (fold : Char → List Char) (p : Postings) (row : Nat × Option (List Char)) : Option Postings :=
  match row.2 with
  | none => some ((0, row.1) :: p)
  | some s => match tokensOf fold s with
    | none => none
    | some toks => some (toks.map (fun t => (t, row.1)) ++ p)

/-- the index built on top of `p` from the rows `(row id, text)`; `none` = the builder panicked -/
def buildFrom (fold : Char → List Char) : Postings → List (Nat × Option (List Char)) → Option Postings
  | p, [] => some p
  | p, r :: rs => match addRow fold p r with
    | none => none
    | some p' => buildFrom fold p' rs

/-- `NGramIndexBuilder::train` + `write_index` -/
def buildNgram (fold : Char → List Char) (rows : List (Nat × Option (List Char))) : Option Postings :=
  buildFrom fold [] rows

/-- `SearchResult` -/
inductive Res where
  | exact (ids : List Nat)
  | atMost (ids : List Nat)
  | atLeast (ids : List Nat)
  deriving Repr, DecidableEq

/-- `NGramPostingList::intersect`: the intersection of the lists, empty for no list -/
def intersect : List (List Nat) → List Nat
  | [] => []
  | l :: rest => rest.foldl (fun acc m => acc.filter (fun x => m.contains x)) l

/-- number of UTF-8 bytes of a character / a string (`substr.len()`) -/
def utf8Len (s : List Char) : Nat := (s.map (fun c => c.utf8Size)).sum

/-- ngram.rs: `NGramIndex::search` for `TextQuery::StringContains(needle)`.
    `fixed = true` is the code after the `fix:` commit (no surviving trigram ⇒ recheck everything);
    `fixed = false` is the pinned behaviour (the empty intersection is returned as `AtMost(∅)`). -/
def ngramSearch (fixed : Bool) (fold : Char → List Char) (p : Postings) (needle : List Char) : Option Res :=
  if utf8Len needle < 3 then some (.atLeast []) else
  match tokensOf fold needle with
  | none => none
  | some toks =>
    if toks.any (fun t => (p.get t).isNone) then some (.exact [])
    else if fixed && toks.isEmpty then some (.atLeast [])
    else some (.atMost (intersect (toks.filterMap p.get)))

/-- `contains(s, needle)` of DataFusion on valid UTF-8: `needle` is a contiguous sub-list of `s` -/
def containsB : List Char → List Char → Bool
  | [], needle => needle.isEmpty
  | c :: t, needle => needle.isPrefixOf (c :: t) || containsB t needle

/-! ## 6. Reference table semantics used by the end-to-end lines -/

structure Row where
  id : Nat
  i : V
  f : V
  s : Option (List Char)

inductive Pred where
  | onI (q : Query)
  | onF (q : Query)
  | contains (needle : List Char)
  | sEq (t : List Char)

/-- the filter of an un-indexed scan on one row -/
def Pred.holds : Pred → Row → Bool
  | .onI q, r => satB q r.i
  | .onF q, r => satB q r.f
  | .contains n, r => match r.s with
    | none => false
    | some s => containsB s n
  | .sEq t, r => match r.s with
    | none => false
    | some s => decide (s = t)

end LanceModel.C20
