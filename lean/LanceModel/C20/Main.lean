import LanceModel.C20.Driver
def main : IO Unit := LanceModel.Util.runDriver LanceModel.C20.Driver.step LanceModel.C20.Driver.init
