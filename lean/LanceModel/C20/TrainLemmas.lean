import LanceModel.C20.Model
/-
C20 lemmas: the training loop on ONE fragment with dense offsets (the region in which none of the recorded training
defects can occur) lays the zones out as the consecutive chunks of `z` rows.
-/
namespace LanceModel.C20

variable {α : Type}

theorem findFrom_none {rows : List (Nat × α)} {f : Nat} (hall : ∀ r ∈ rows, r.1 = f) (off : Nat) :
    findFrom rows off (f + 1) = none := by
  unfold findFrom
  have : (rows.drop off).findIdx? (fun r => r.1 == f + 1) = none := by
    rw [List.findIdx?_eq_none_iff]
    intro r hr
    have := hall r (List.mem_of_mem_drop hr)
    simp [this]
  simp [this]

theorem fragAt_zero {rows : List (Nat × α)} {f : Nat} (hall : ∀ r ∈ rows, r.1 = f) (hne : rows ≠ []) :
    fragAt rows 0 = f := by
  cases rows with
  | nil => exact absurd rfl hne
  | cons r t => simpa [fragAt] using hall r List.mem_cons_self

/-- a batch of exactly `z` rows of the current fragment, zone closed at the start: one new zone -/
theorem batchLoop_full {z f : Nat} {rows : List (Nat × α)} (hall : ∀ r ∈ rows, r.1 = f) (hlen : rows.length = z)
    (hz : 0 < z) (st : TSt α) (hc : st.curFrag = f) (ho : st.curOff = 0) (fuel : Nat) :
    batchLoop z rows (fuel + 2) st 0 = newMap (feed st rows 0 z) f := by
  have hne : rows ≠ [] := by intro h; subst h; simp at hlen; omega
  rw [batchLoop]
  have h1 : ¬ rows.length ≤ 0 := by omega
  simp only [h1, if_false, hc, findFrom_none hall, ho, Nat.sub_zero]
  have h2 : ¬ rows.length < z := by omega
  have h3 : ¬ z = 0 := by omega
  simp only [h2, h3, if_false, Nat.zero_add, fragAt_zero hall hne]
  rw [batchLoop]
  simp [hlen]

/-- a last batch of fewer than `z` rows: accumulated, the zone stays open -/
theorem batchLoop_partial {z f : Nat} {rows : List (Nat × α)} (hall : ∀ r ∈ rows, r.1 = f) (hlen : rows.length < z)
    (hne : rows ≠ []) (st : TSt α) (hc : st.curFrag = f) (ho : st.curOff = 0) (fuel : Nat) :
    batchLoop z rows (fuel + 1) st 0 = feed st rows 0 rows.length := by
  rw [batchLoop]
  have h1 : ¬ rows.length ≤ 0 := by
    cases rows with
    | nil => exact absurd rfl hne
    | cons _ _ => simp
  simp only [h1, if_false, hc, findFrom_none hall, ho, Nat.sub_zero]
  simp [hlen]

/-- the zones the loop is expected to produce for one dense fragment `f`: consecutive chunks of `z` values -/
def expectedFrom (f z : Nat) : Nat → Nat → List α → List (TZone α)
  | 0, _, _ => []
  | _ + 1, _, [] => []
  | n + 1, k, l => { frag := f, start := k * z, len := (l.take z).length, vals := l.take z } ::
      expectedFrom f z n (k + 1) (l.drop z)

/-- what `train` returns from a builder state -/
def finish (st : TSt α) : List (TZone α) := if 0 < st.curOff then (newMap st st.curFrag).maps else st.maps

/-- invariant between batches: zone closed, `k` zones of `z` rows of fragment `f` written so far -/
structure Inv (f z k : Nat) (st : TSt α) : Prop where
  off : st.curOff = 0
  acc : st.acc = []
  cur : st.maps = [] ∨ st.curFrag = f
  all : ∀ m ∈ st.maps, m.frag = f ∧ m.len = z
  len : st.maps.length = k

theorem sum_lens {f z : Nat} {maps : List (TZone α)} (hall : ∀ m ∈ maps, m.frag = f ∧ m.len = z) :
    ((maps.filter (fun m => m.frag == f)).map (·.len)).sum = maps.length * z := by
  induction maps with
  | nil => simp
  | cons m t ih =>
    have hm := hall m List.mem_cons_self
    have ht := ih (fun m' hm' => hall m' (List.mem_cons_of_mem _ hm'))
    simp only [List.filter_cons, hm.1, beq_self_eq_true, if_true, List.map_cons, List.sum_cons, ht, hm.2,
      List.length_cons]
    rw [Nat.add_mul]; omega

theorem map_pair_all (f : Nat) (l : List α) : ∀ r ∈ l.map (fun v => (f, v)), r.1 = f := by
  intro r hr
  obtain ⟨v, _, rfl⟩ := List.mem_map.mp hr
  rfl

theorem vals_take (f : Nat) (l : List α) (n : Nat) :
    (((l.map (fun v => (f, v))).drop 0).take n).map (·.2) = l.take n := by
  simp [List.map_take, List.map_map, Function.comp_def]

theorem trainBatch_full {f z k : Nat} (hz : 0 < z) {st : TSt α} (hinv : Inv f z k st) {c : List α}
    (hc : c.length = z) :
    let st' := trainBatch z st (c.map (fun v => (f, v)))
    Inv f z (k + 1) st' ∧ st'.maps = st.maps ++ [{ frag := f, start := k * z, len := z, vals := c }] := by
  have hall := map_pair_all f c
  have hlen : (c.map (fun v => (f, v))).length = z := by simpa using hc
  have hne : c.map (fun v => (f, v)) ≠ [] := by intro h; rw [h] at hlen; simp at hlen; omega
  have hempty : (c.map (fun v => (f, v))).isEmpty = false := by
    cases hcm : c.map (fun v => (f, v)) with
    | nil => exact absurd hcm hne
    | cons _ _ => rfl
  -- the state the loop starts from
  let st0 : TSt α := if st.maps.isEmpty && st.curOff == 0 then { st with curFrag := fragAt (c.map (fun v => (f, v))) 0 } else st
  have h0c : st0.curFrag = f := by
    simp only [st0]
    split
    · simp [fragAt_zero hall hne]
    · rename_i hcond
      rcases hinv.cur with h | h
      · simp [h, hinv.off] at hcond
      · exact h
  have h0o : st0.curOff = 0 := by simp only [st0]; split <;> simp [hinv.off]
  have h0m : st0.maps = st.maps := by simp only [st0]; split <;> rfl
  have h0a : st0.acc = [] := by simp only [st0]; split <;> simp [hinv.acc]
  have hrun : trainBatch z st (c.map (fun v => (f, v))) = newMap (feed st0 (c.map (fun v => (f, v))) 0 z) f := by
    unfold trainBatch
    simp only [hempty, Bool.false_eq_true, if_false]
    have : 2 * (c.map (fun v => (f, v))).length + 2 = (2 * (c.map (fun v => (f, v))).length) + 2 := rfl
    rw [this]
    exact batchLoop_full hall hlen hz st0 h0c h0o _
  intro st'
  have hst' : st' = newMap (feed st0 (c.map (fun v => (f, v))) 0 z) f := hrun
  have hmaps : st'.maps = st.maps ++ [{ frag := f, start := k * z, len := z, vals := c }] := by
    rw [hst']
    simp only [newMap, feed, h0m, h0o, h0a, Nat.zero_add, List.nil_append, vals_take]
    rw [sum_lens hinv.all, hinv.len]
    simp [← hc]
  refine ⟨⟨?_, ?_, ?_, ?_, ?_⟩, hmaps⟩
  · rw [hst']; rfl
  · rw [hst']; rfl
  · right; rw [hst']; simp [newMap, feed, h0c]
  · intro m hm
    rw [hmaps] at hm
    rcases List.mem_append.mp hm with h | h
    · exact hinv.all m h
    · simp at h; subst h; exact ⟨rfl, rfl⟩
  · rw [hmaps]; simp [hinv.len]

theorem trainBatch_partial {f z k : Nat} {st : TSt α} (hinv : Inv f z k st) {c : List α}
    (hc : c.length < z) (hne : c ≠ []) :
    finish (trainBatch z st (c.map (fun v => (f, v)))) =
      st.maps ++ [{ frag := f, start := k * z, len := c.length, vals := c }] := by
  have hall := map_pair_all f c
  have hlen : (c.map (fun v => (f, v))).length < z := by simpa using hc
  have hne' : c.map (fun v => (f, v)) ≠ [] := by simpa using hne
  have hempty : (c.map (fun v => (f, v))).isEmpty = false := by
    cases hcm : c.map (fun v => (f, v)) with
    | nil => exact absurd hcm hne'
    | cons _ _ => rfl
  let st0 : TSt α := if st.maps.isEmpty && st.curOff == 0 then { st with curFrag := fragAt (c.map (fun v => (f, v))) 0 } else st
  have h0c : st0.curFrag = f := by
    simp only [st0]
    split
    · simp [fragAt_zero hall hne']
    · rename_i hcond
      rcases hinv.cur with h | h
      · simp [h, hinv.off] at hcond
      · exact h
  have h0o : st0.curOff = 0 := by simp only [st0]; split <;> simp [hinv.off]
  have h0m : st0.maps = st.maps := by simp only [st0]; split <;> rfl
  have h0a : st0.acc = [] := by simp only [st0]; split <;> simp [hinv.acc]
  have hrun : trainBatch z st (c.map (fun v => (f, v))) =
      feed st0 (c.map (fun v => (f, v))) 0 (c.map (fun v => (f, v))).length := by
    unfold trainBatch
    simp only [hempty, Bool.false_eq_true, if_false]
    have : 2 * (c.map (fun v => (f, v))).length + 2 = (2 * (c.map (fun v => (f, v))).length + 1) + 1 := rfl
    rw [this]
    exact batchLoop_partial hall hlen hne' st0 h0c h0o _
  rw [hrun]
  have hpos : 0 < c.length := by
    cases c with
    | nil => exact absurd rfl hne
    | cons _ _ => simp
  simp only [finish, feed, h0o, Nat.zero_add, List.length_map, hpos, if_true, newMap, h0m, h0a, h0c,
    List.nil_append, vals_take, List.take_length]
  rw [sum_lens hinv.all, hinv.len]

/-- the fold over the batches of one dense fragment produces exactly the expected zones -/
theorem train_fold {f z : Nat} (hz : 0 < z) : ∀ (n : Nat) (l : List α) (k : Nat) (st : TSt α), l.length ≤ n →
    Inv f z k st →
    finish ((chunks z n (l.map (fun v => (f, v)))).foldl (trainBatch z) st) = st.maps ++ expectedFrom f z n k l
  | 0, l, k, st, hl, hinv => by
    simp [chunks, expectedFrom, finish, hinv.off]
  | n + 1, [], k, st, _, hinv => by
    simp [chunks, expectedFrom, finish, hinv.off]
  | n + 1, a :: t, k, st, hl, hinv => by
    have hchunks : chunks z (n + 1) ((a :: t).map (fun v => (f, v))) =
        ((a :: t).take z).map (fun v => (f, v)) :: chunks z n (((a :: t).drop z).map (fun v => (f, v))) := by
      simp [chunks, List.map_take, List.map_drop]
    rw [hchunks, List.foldl_cons]
    by_cases hfull : z ≤ (a :: t).length
    · have hc : ((a :: t).take z).length = z := by rw [List.length_take]; exact Nat.min_eq_left hfull
      obtain ⟨hinv', hmaps⟩ := trainBatch_full hz hinv hc
      have hl' : ((a :: t).drop z).length ≤ n := by
        simp only [List.length_drop, List.length_cons] at hl ⊢; omega
      rw [train_fold hz n _ (k + 1) _ hl' hinv', hmaps]
      simp [expectedFrom, hc]
    · have hlt : (a :: t).length < z := by omega
      have htake : (a :: t).take z = a :: t := List.take_of_length_le (by omega)
      have hdrop : (a :: t).drop z = [] := List.drop_of_length_le (by omega)
      rw [htake, hdrop]
      have hnil : chunks z n (([] : List α).map (fun v => (f, v))) = [] := by
        cases n <;> simp [chunks]
      rw [hnil, List.foldl_nil, trainBatch_partial hinv hlt (by simp)]
      have hexp : expectedFrom f z n (k + 1) ([] : List α) = [] := by cases n <;> simp [expectedFrom]
      simp [expectedFrom, htake, hdrop, hexp]

/-- `train` on one dense fragment -/
theorem train_single (f z : Nat) (hz : 0 < z) (l : List α) :
    train z (l.map (fun v => (f, v))) = expectedFrom f z l.length 0 l := by
  have := train_fold (f := f) hz l.length l 0 { maps := [], curOff := 0, curFrag := 0, acc := [] } (Nat.le_refl _)
    ⟨rfl, rfl, Or.inl rfl, by simp, rfl⟩
  simpa [train, finish] using this

/-- every row of the fragment is covered by an expected zone that holds its value -/
theorem expected_covers {f z : Nat} (hz : 0 < z) : ∀ (n : Nat) (k : Nat) (l : List α) (i : Nat) (v : α),
    l.length ≤ n → l[i]? = some v →
    ∃ t ∈ expectedFrom f z n k l, t.frag = f ∧ t.start ≤ k * z + i ∧ k * z + i < t.start + t.len ∧ v ∈ t.vals
  | 0, k, l, i, v, hl, hv => by
    have : l = [] := List.eq_nil_of_length_eq_zero (by omega)
    subst this; simp at hv
  | n + 1, k, [], i, v, _, hv => by simp at hv
  | n + 1, k, a :: t, i, v, hl, hv => by
    by_cases hi : i < z
    · refine ⟨_, List.mem_cons_self, rfl, by simp, ?_, ?_⟩
      · have hil : i < (a :: t).length := by
          rcases Nat.lt_or_ge i (a :: t).length with h | h
          · exact h
          · rw [List.getElem?_eq_none h] at hv; simp at hv
        simp only [List.length_take]
        omega
      · have : ((a :: t).take z)[i]? = some v := by rw [List.getElem?_take_of_lt hi]; exact hv
        exact List.mem_of_getElem? this
    · have hi' : z ≤ i := by omega
      have hv' : ((a :: t).drop z)[i - z]? = some v := by
        rw [List.getElem?_drop]; rw [show z + (i - z) = i by omega]; exact hv
      have hl' : ((a :: t).drop z).length ≤ n := by
        simp only [List.length_drop, List.length_cons] at hl ⊢; omega
      obtain ⟨tz, htz, h1, h2, h3, h4⟩ := expected_covers hz n (k + 1) _ (i - z) v hl' hv'
      refine ⟨tz, List.mem_cons_of_mem _ htz, h1, ?_, ?_, h4⟩
      · rw [Nat.add_mul] at h2; omega
      · rw [Nat.add_mul] at h3; omega

end LanceModel.C20
