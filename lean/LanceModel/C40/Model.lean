/-
C40 model: Arrow helper transformations of lance-arrow
(rust/lance-arrow/src/{lib.rs, list.rs, deepcopy.rs, struct.rs}).

Import-free (core only) so that the driver links natively.

Modelling choices
* an array is a SLICE over buffers: `prim off len nulls vals` reads `vals[off .. off+len)`, `list off len nulls offs child`
  reads the `len+1` offsets `offs[off ..]` into a child of any length (offsets need not start at 0 nor end at the end of
  the child), `struct len nulls names cols` is arrow-rs's struct form (every child has exactly `len` rows; the children are
  slices themselves).  A validity buffer `Nulls` carries its own bit offset.  Values behind a NULL are ordinary buffer
  contents ("garbage").  `isBool` / `large` only distinguish Int32 from Boolean and List from LargeList (types; the helpers
  treat them alike).
* `logical : Arr → List Value` is the abstraction function (NULL-aware, nested); every theorem is an equation about it.
* Arrow kernels appear as three model functions with their contract proved in the lemma files: `slice` (`Array::slice`),
  `gather` (`arrow_select::take`; `arrow_select::filter` = gather of the selected positions; `MutableArrayData::extend`
  = gather of a range).  Only their logical result is used; their physical output layout is never printed.
* recursion of `merge` / `merge_with_schema` descends into adjusted copies of the children, so it is by fuel;
  `fuel_suffices` theorems are in Props.
* not modelled: FixedSizeList, dictionary, other leaf types; `merge` of two `List<Struct>` columns of *different* struct
  types (`merge_list_struct`; the result is `unmodelled`), `normalize_slicing` (dead for arrow-rs struct arrays), JSON.
-/
namespace LanceModel.C40

/-! ## Logical values -/

inductive Value where
  | null
  | int (i : Int)
  | list (vs : List Value)
  | struct (names : List String) (vs : List Value)

/-- a validity bitmap and the bit offset at which this array starts reading it -/
structure Nulls where
  off : Nat
  bits : List Bool

/-- `Array::is_valid(i)` -/
def validAt : Option Nulls → Nat → Bool
  | none, _ => true
  | some n, i => n.bits.getD (n.off + i) false

inductive Arr where
  | prim (isBool : Bool) (off len : Nat) (nulls : Option Nulls) (vals : List Int)
  | list (large : Bool) (off len : Nat) (nulls : Option Nulls) (offs : List Nat) (child : Arr)
  | struct (len : Nat) (nulls : Option Nulls) (names : List String) (cols : List Arr)

def Arr.len : Arr → Nat
  | .prim _ _ len _ _ => len
  | .list _ _ len _ _ _ => len
  | .struct len _ _ _ => len

def Arr.nulls : Arr → Option Nulls
  | .prim _ _ _ n _ => n
  | .list _ _ _ n _ _ => n
  | .struct _ n _ _ => n

def Arr.setNulls : Arr → Option Nulls → Arr
  | .prim b off len _ vals, n => .prim b off len n vals
  | .list lg off len _ offs child, n => .list lg off len n offs child
  | .struct len _ names cols, n => .struct len n names cols

/-- `l[s .. e)` -/
def sub {α : Type} (l : List α) (s e : Nat) : List α := (l.drop s).take (e - s)

def primRow (nulls : Option Nulls) (off : Nat) (vals : List Int) (i : Nat) : Value :=
  if validAt nulls i then .int (vals.getD (off + i) 0) else .null

def listRow (nulls : Option Nulls) (off : Nat) (offs : List Nat) (cv : List Value) (i : Nat) : Value :=
  if validAt nulls i then .list (sub cv (offs.getD (off + i) 0) (offs.getD (off + i + 1) 0)) else .null

def structRow (nulls : Option Nulls) (names : List String) (cvs : List (List Value)) (i : Nat) : Value :=
  if validAt nulls i then .struct names (cvs.map (fun c => c.getD i .null)) else .null

mutual
/-- the abstraction function: the logical value of every row -/
def logical : Arr → List Value
  | .prim _ off len nulls vals => (List.range len).map (primRow nulls off vals)
  | .list _ off len nulls offs child => (List.range len).map (listRow nulls off offs (logical child))
  | .struct len nulls names cols => (List.range len).map (structRow nulls names (logicalCols cols))
def logicalCols : List Arr → List (List Value)
  | [] => []
  | a :: as => logical a :: logicalCols as
end

/-! ## Types -/

inductive Ty where
  | int
  | bool
  | list (large : Bool) (item : Ty)
  | struct (names : List String) (tys : List Ty)

mutual
def Ty.beq : Ty → Ty → Bool
  | .int, .int => true
  | .bool, .bool => true
  | .list a x, .list b y => a == b && Ty.beq x y
  | .struct n xs, .struct m ys => n == m && Ty.beqList xs ys
  | _, _ => false
def Ty.beqList : List Ty → List Ty → Bool
  | [], [] => true
  | x :: xs, y :: ys => Ty.beq x y && Ty.beqList xs ys
  | _, _ => false
end

def Ty.isStruct : Ty → Bool
  | .struct _ _ => true
  | _ => false

mutual
def tyOf : Arr → Ty
  | .prim b _ _ _ _ => if b then .bool else .int
  | .list lg _ _ _ _ child => .list lg (tyOf child)
  | .struct _ _ names cols => .struct names (tyOfCols cols)
def tyOfCols : List Arr → List Ty
  | [] => []
  | a :: as => tyOf a :: tyOfCols as
end

/-! ## Well-formedness (what `ArrayData::validate_full` demands of the buffers) -/

def wfNulls (n : Option Nulls) (len : Nat) : Bool :=
  match n with
  | none => true
  | some n => n.off + len ≤ n.bits.length

/-- the visible offsets are non-decreasing -/
def monoOffs (offs : List Nat) (off len : Nat) : Bool :=
  (List.range len).all (fun i => offs.getD (off + i) 0 ≤ offs.getD (off + i + 1) 0)

mutual
def wf : Arr → Bool
  | .prim _ off len nulls vals => off + len ≤ vals.length && wfNulls nulls len
  | .list _ off len nulls offs child =>
      off + len + 1 ≤ offs.length && wfNulls nulls len && monoOffs offs off len
        && offs.getD (off + len) 0 ≤ child.len && wf child
  | .struct len nulls names cols => wfNulls nulls len && names.length == cols.length && wfCols cols len
def wfCols : List Arr → Nat → Bool
  | [], _ => true
  | a :: as, len => a.len == len && wf a && wfCols as len
end

/-! ## Arrow kernels -/

def sliceNulls (n : Option Nulls) (o : Nat) : Option Nulls :=
  match n with
  | none => none
  | some n => some ⟨n.off + o, n.bits⟩

mutual
/-- `Array::slice(o, l)` of arrow-rs: offsets are added, struct children are sliced recursively -/
def slice : Arr → Nat → Nat → Arr
  | .prim b off _ nulls vals, o, l => .prim b (off + o) l (sliceNulls nulls o) vals
  | .list lg off _ nulls offs child, o, l => .list lg (off + o) l (sliceNulls nulls o) offs child
  | .struct _ nulls names cols, o, l => .struct l (sliceNulls nulls o) names (sliceCols cols o l)
def sliceCols : List Arr → Nat → Nat → List Arr
  | [], _, _ => []
  | a :: as, o, l => slice a o l :: sliceCols as o l
end

def psumsFrom : Nat → List Nat → List Nat
  | acc, [] => [acc]
  | acc, n :: ns => acc :: psumsFrom (acc + n) ns

/-- `[0, n0, n0+n1, …]` -/
def psums (ns : List Nat) : List Nat := psumsFrom 0 ns

/-- the kernels only attach a validity buffer when some selected row is NULL -/
def gatherNulls (n : Option Nulls) (idx : List Nat) : Option Nulls :=
  if idx.all (validAt n) then none else some ⟨0, idx.map (validAt n)⟩

def entryStart (offs : List Nat) (off i : Nat) : Nat := offs.getD (off + i) 0
def entryLen (offs : List Nat) (off i : Nat) : Nat := offs.getD (off + i + 1) 0 - offs.getD (off + i) 0

mutual
/-- `arrow_select::take(a, idx)`: a fresh, offset-free array holding rows `idx` of `a` -/
def gather : Arr → List Nat → Arr
  | .prim b off _ nulls vals, idx =>
      .prim b 0 idx.length (gatherNulls nulls idx) (idx.map (fun i => vals.getD (off + i) 0))
  | .list lg off _ nulls offs child, idx =>
      .list lg 0 idx.length (gatherNulls nulls idx) (psums (idx.map (entryLen offs off)))
        (gather child (idx.flatMap (fun i => List.range' (entryStart offs off i) (entryLen offs off i))))
  | .struct _ nulls names cols, idx => .struct idx.length (gatherNulls nulls idx) names (gatherCols cols idx)
def gatherCols : List Arr → List Nat → List Arr
  | [], _ => []
  | a :: as, idx => gather a idx :: gatherCols as idx
end

/-- positions of the `true` bits, counted from `base` -/
def trueIdxFrom : Nat → List Bool → List Nat
  | _, [] => []
  | b, true :: t => b :: trueIdxFrom (b + 1) t
  | b, false :: t => trueIdxFrom (b + 1) t

/-- `arrow_select::filter(a, mask)` -/
def filterArr (a : Arr) (mask : List Bool) : Arr := gather a (trueIdxFrom 0 mask)

/-! ## list.rs -/

/-- list.rs `ListArrayExt::trimmed_values`: the child sliced to `[first offset, last offset)` -/
def trimmedValues : Arr → Arr
  | .list _ off len _ offs child => slice child (offs.getD off 0) (offs.getD (off + len) 0 - offs.getD off 0)
  | a => a

/-- the `new_offsets` loop of `filter_garbage_nulls`: one window `(is_valid, len)` at a time -/
def fgnOffsets : Nat → List (Bool × Nat) → List Nat
  | acc, [] => [acc]
  | acc, w :: t => acc :: fgnOffsets (if w.1 then acc + w.2 else acc) t

/-- the `should_keep` mask of `filter_garbage_nulls`: preamble, one run per window, trailer -/
def fgnMask (pre : Nat) (ws : List (Bool × Nat)) (childLen : Nat) : List Bool :=
  (List.replicate pre false ++ ws.flatMap (fun w => List.replicate w.2 w.1))
    ++ List.replicate (childLen - (pre + (ws.map (fun w => w.2)).sum)) false

def fgnWindows (nulls : Option Nulls) (offs : List Nat) (off len : Nat) : List (Bool × Nat) :=
  (List.range len).map (fun i => (validAt nulls i, entryLen offs off i))

/-- list.rs `ListArrayExt::filter_garbage_nulls` -/
def filterGarbageNulls : Arr → Arr
  | .list lg off len nulls offs child =>
      if len = 0 then .list lg off len nulls offs child
      else
        match nulls with
        | none => .list lg off len nulls offs child
        | some n =>
          .list lg 0 len (some n) (fgnOffsets 0 (fgnWindows (some n) offs off len))
            (filterArr child (fgnMask (offs.getD off 0) (fgnWindows (some n) offs off len) child.len))
  | a => a

/-! ## deepcopy.rs -/

def hasNull (n : Option Nulls) (len : Nat) : Bool := (List.range len).any (fun i => !validAt n i)

/-- `ArrayDataBuilder::build` drops a validity buffer that has no NULL in the window -/
def builderNulls (n : Option Nulls) (len : Nat) : Option Nulls := if hasNull n len then n else none

mutual
/-- deepcopy.rs `deep_copy_array_data`: same offset, length, validity (offset, length), every buffer and child copied;
    every node goes through `ArrayDataBuilder` -/
def deepCopy : Arr → Arr
  | .prim b off len nulls vals => .prim b off len (builderNulls nulls len) vals
  | .list lg off len nulls offs child => .list lg off len (builderNulls nulls len) offs (deepCopy child)
  | .struct len nulls names cols => .struct len (builderNulls nulls len) names (deepCopyCols cols)
def deepCopyCols : List Arr → List Arr
  | [] => []
  | a :: as => deepCopy a :: deepCopyCols as
end

/-- deepcopy.rs `deep_copy_array_data_sliced`: `MutableArrayData::extend(0, 0, len)` copies exactly the visible rows -/
def deepCopySliced (a : Arr) : Arr := gather a (List.range a.len)

/-! ## struct.rs -/

/-- `&` of two validity bitmaps: a fresh bitmap at bit offset 0 -/
def andNulls (c p : Option Nulls) (len : Nat) : Option Nulls :=
  some ⟨0, (List.range len).map (fun i => validAt c i && validAt p i)⟩

/-- the per-child closure of `pushdown_nulls`: child validity `&` struct validity, or the struct validity itself -/
def pushChild (n : Nulls) (len : Nat) (c : Arr) : Arr :=
  match c.nulls with
  | some _ => c.setNulls (andNulls c.nulls (some n) len)
  | none => c.setNulls (some n)

/-- struct.rs `StructArrayExt::pushdown_nulls` (one level) -/
def pushdownNulls : Arr → Arr
  | .struct len nulls names cols =>
      match nulls with
      | none => .struct len nulls names cols
      | some n => .struct len nulls names (cols.map (pushChild n len))
  | a => a

/-! ## lib.rs: take, project -/

inductive Res (α : Type) where
  | ok (a : α)
  | err (e : String)

def findCol (names : List String) (cols : List Arr) (n : String) : Option Arr :=
  match names, cols with
  | m :: ms, c :: cs => if m = n then some c else findCol ms cs n
  | _, _ => none

/-- a struct array can be turned into a `RecordBatch`: no NULL row (`From<StructArray> for RecordBatch` asserts it) -/
def isBatch : Arr → Bool
  | .struct len nulls _ _ => !hasNull nulls len
  | _ => false

/-- lib.rs `RecordBatchExt::take`: `arrow_select::take` of the batch as a struct array -/
def takeBatch (a : Arr) (idx : List Nat) : Res Arr :=
  if !isBatch a then .err "bad-type"
  else if idx.any (fun i => a.len ≤ i) then .err "err:oob"
  else .ok (gather a idx)

/-- the `for field in fields` loop of lib.rs `project` for a struct with columns `(cn, cc)`, validity `nulls`, length `len`;
    recursion into `DataType::Struct(subfields)` fields. `err:schema` = missing field, `panic` = `as_struct()` on a
    non-struct column. Type agreement is checked by `StructArray::try_new` at the end (`projectStruct`). -/
def projectCols (cn : List String) (cc : List Arr) : List String → List Ty → Res (List Arr)
  | n :: ns, t :: ts =>
    match findCol cn cc n with
    | none => .err "err:schema"
    | some col =>
      match t with
      | .struct sn st =>
        match col with
        | .struct len nulls cn' cc' =>
          if sn.isEmpty then
            match projectCols cn cc ns ts with
            | .ok rest => .ok (.struct len nulls [] [] :: rest)
            | .err e => .err e
          else
            match projectCols cn' cc' sn st with
            | .err e => .err e
            | .ok sub =>
              if Ty.beqList (tyOfCols sub) st then
                match projectCols cn cc ns ts with
                | .ok rest => .ok (.struct len nulls sn sub :: rest)
                | .err e => .err e
              else .err "err:invalid"
        | _ => .err "panic"
      | _ =>
        match projectCols cn cc ns ts with
        | .ok rest => .ok (col :: rest)
        | .err e => .err e
  | _, _ => .ok []

/-- lib.rs `project` at the top + `RecordBatchExt::project_by_schema` -/
def projectBatch (a : Arr) (names : List String) (tys : List Ty) : Res Arr :=
  match a with
  | .struct len nulls cn cc =>
    if hasNull nulls len then .err "bad-type"
    else if names.isEmpty then .ok (.struct len none [] [])
    else
      match projectCols cn cc names tys with
      | .err e => .err e
      | .ok cols => if Ty.beqList (tyOfCols cols) tys then .ok (.struct len none names cols) else .err "err:invalid"
  | _ => .err "bad-type"

/-! ## lib.rs: merge, merge_with_schema -/

/-- lib.rs `adjust_child_validity`: a NULL parent row makes the child row NULL -/
def adjust (child : Arr) (parent : Option Nulls) : Arr :=
  if hasNull parent child.len then
    match child.nulls with
    | none => child.setNulls parent
    | some _ => child.setNulls (andNulls child.nulls parent child.len)
  else child

/-- lib.rs `merge_struct_validity`: a merged row is NULL iff it is NULL on both sides -/
def orNulls (l r : Option Nulls) (len : Nat) : Option Nulls :=
  if hasNull l len && hasNull r len then
    some ⟨0, (List.range len).map (fun i => validAt l i || validAt r i)⟩
  else none

def isStructArr : Arr → Bool
  | .struct _ _ _ _ => true
  | _ => false

/-- the `(DataType::List(l), DataType::List(r)) if l.is_struct() && r.is_struct()` arm of `merge` -/
def isListOfStruct : Arr → Bool
  | .list false _ _ _ _ child => isStructArr child
  | _ => false

def lensOk (cols : List Arr) (len : Nat) : Bool := cols.all (fun c => c.len == len)

/-- first error of a sequential loop, else the produced items (a `none` item = nothing pushed) -/
def seqRes {α : Type} : List (Res (Option α)) → Res (List α)
  | [] => .ok []
  | .err e :: _ => .err e
  | .ok h :: t =>
    match seqRes t with
    | .err e => .err e
    | .ok r =>
      match h with
      | some x => .ok (x :: r)
      | none => .ok r

def Res.toOpt {α : Type} : Res α → Res (Option α)
  | .ok a => .ok (some a)
  | .err e => .err e

/-- lib.rs `merge` (two struct arrays), by fuel. -/
def mergeStruct : Nat → Arr → Arr → Res Arr
  | 0, _, _ => .err "fuel"
  | fuel + 1, .struct llen lnulls lnames lcols, .struct rlen rnulls rnames rcols =>
    if llen ≠ rlen then .err "panic"
    else
      match seqRes ((lnames.zip lcols).map (fun nc =>
          match findCol rnames rcols nc.1 with
          | some rcol =>
            if isStructArr nc.2 && isStructArr rcol then
              (mergeStruct fuel (adjust nc.2 lnulls) (adjust rcol rnulls)).toOpt
            else if isListOfStruct nc.2 && isListOfStruct rcol && !(Ty.beq (tyOf nc.2) (tyOf rcol)) then
              .err "unmodelled"
            else .ok (some (adjust nc.2 lnulls))
          | none => .ok (some (adjust nc.2 lnulls)))) with
      | .err e => .err e
      | .ok lc =>
        .ok (.struct llen (orNulls lnulls rnulls llen)
              (lnames ++ ((rnames.zip rcols).filter (fun nc => !lnames.contains nc.1)).map (·.1))
              (lc ++ ((rnames.zip rcols).filter (fun nc => !lnames.contains nc.1)).map (fun nc => adjust nc.2 rnulls)))
  | _, _, _ => .err "panic"

/-- lib.rs `RecordBatchExt::merge` -/
def mergeBatch (l r : Arr) : Res Arr :=
  if !(isBatch l && isBatch r) then .err "bad-type"
  else if l.len ≠ r.len then .err "err:invalid"
  else mergeStruct 64 l r

def sameKind (a b : Ty) : Bool := a.isStruct == b.isStruct

/-- `fields.iter().position(|f| f.name() == name && same_type_kind(f.data_type(), ty))` -/
def findKind (names : List String) (cols : List Arr) (n : String) (t : Ty) : Option Arr :=
  match names, cols with
  | m :: ms, c :: cs => if m = n && sameKind (tyOf c) t then some c else findKind ms cs n t
  | _, _ => none

/-- offsets of a list array re-based to start at 0 (they index its `trimmed_values`) -/
def rebasedOffs (offs : List Nat) (off len : Nat) : List Nat :=
  (List.range (len + 1)).map (fun i => offs.getD (off + i) 0 - offs.getD off 0)

mutual
/-- lib.rs `merge_with_schema` (two struct arrays and the reference fields), by fuel; the `for field in fields` loop is the
    `map` (one item per reference field, `none` = field in neither side) -/
def mergeWS : Nat → Arr → Arr → List String → List Ty → Res Arr
  | 0, _, _, _, _ => .err "fuel"
  | fuel + 1, .struct llen lnulls lnames lcols, .struct rlen rnulls rnames rcols, fnames, ftys =>
    if llen ≠ rlen then .err "panic"
    else
      match seqRes ((fnames.zip ftys).map (fun nt =>
          match findKind lnames lcols nt.1 nt.2, findKind rnames rcols nt.1 nt.2 with
          | none, none => .ok none
          | none, some rc => .ok (some (nt.1, adjust rc rnulls))
          | some lc, none => .ok (some (nt.1, adjust lc lnulls))
          | some lc, some rc =>
            match mergeCell fuel nt.2 (adjust lc lnulls) (adjust rc rnulls) with
            | .err e => .err e
            | .ok c => .ok (some (nt.1, c)))) with
      | .err e => .err e
      | .ok ncs =>
        if lensOk (ncs.map (·.2)) llen then
          .ok (.struct llen (orNulls lnulls rnulls llen) (ncs.map (·.1)) (ncs.map (·.2)))
        else .err "panic"
  | _, _, _, _, _ => .err "panic"
/-- one matched field of `merge_with_schema` / `merge_list_child_values`: recursive merge of two columns of type kind `t` -/
def mergeCell : Nat → Ty → Arr → Arr → Res Arr
  | 0, _, _, _ => .err "fuel"
  | fuel + 1, t, l, r =>
    match t with
    | .struct sn st =>
      if isStructArr l && isStructArr r then mergeWS fuel l r sn st else .err "panic"
    | .list lg item =>
      match l, r with
      | .list lg1 off len nulls offs child, .list lg2 _ rlen rnulls _ _ =>
        if lg1 == lg && lg2 == lg then
          if len ≠ rlen then .err "panic"
          else
            match mergeCell fuel item (trimmedValues (.list lg1 off len nulls offs child)) (trimmedValues r) with
            | .err e => .err e
            | .ok vals =>
              if Ty.beq (tyOf vals) item && offs.getD (off + len) 0 - offs.getD off 0 ≤ vals.len then
                .ok (.list lg 0 len (orNulls nulls rnulls len) (rebasedOffs offs off len) vals)
              else .err "panic"
        else .err "panic"
      | _, _ => .err "panic"
    | _ => .ok l
end

/-- lib.rs `RecordBatchExt::merge_with_schema` -/
def mergeWSBatch (l r : Arr) (fnames : List String) (ftys : List Ty) : Res Arr :=
  if !(isBatch l && isBatch r) then .err "bad-type"
  else if l.len ≠ r.len then .err "err:invalid"
  else mergeWS 64 l r fnames ftys

end LanceModel.C40
