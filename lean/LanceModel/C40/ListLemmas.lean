import LanceModel.C40.GatherLemmas
/-
C40: list helpers (`trimmed_values`, offsets re-basing), deep copy, validity helpers.
-/
namespace LanceModel.C40

theorem sub_append_sub {α : Type} (l : List α) (s m e : Nat) (h1 : s ≤ m) (h2 : m ≤ e) (h3 : e ≤ l.length) :
    sub l s m ++ sub l m e = sub l s e := by
  apply List.ext_getElem
  · simp [sub]; omega
  · intro i h4 h5
    simp only [sub, List.getElem_append, List.length_take, List.length_drop, List.getElem_take, List.getElem_drop]
    split
    · rfl
    · congr 1; omega

theorem sub_sub {α : Type} (l : List α) (f t s e : Nat) (h1 : f + e ≤ t) (h2 : t ≤ l.length) :
    sub (sub l f t) s e = sub l (f + s) (f + e) := by
  apply List.ext_getElem
  · simp [sub]; omega
  · intro i h4 h5
    simp [sub, Nat.add_assoc]

/-- the raw list entries of a list array (validity ignored: garbage behind NULLs included) -/
def rawEntries : Arr → List (List Value)
  | .list _ off len _ offs child =>
      (List.range len).map (fun i => sub (logical child) (offs.getD (off + i) 0) (offs.getD (off + i + 1) 0))
  | _ => []

theorem flatten_consecutive {α : Type} (cv : List α) (o : Nat → Nat) (n : Nat)
    (hm : ∀ i, i < n → o i ≤ o (i + 1)) (hl : o n ≤ cv.length) :
    ((List.range n).map (fun i => sub cv (o i) (o (i + 1)))).flatten = sub cv (o 0) (o n) := by
  induction n with
  | zero => simp [sub]
  | succ n ih =>
    have hmono : ∀ j, j ≤ n → o 0 ≤ o j := by
      intro j hj
      induction j with
      | zero => exact Nat.le_refl _
      | succ j ihj => exact Nat.le_trans (ihj (by omega)) (hm j (by omega))
    have h1 := hm n (by omega)
    rw [List.range_succ, List.map_append, List.flatten_append, ih (fun i hi => hm i (by omega)) (by omega)]
    simp only [List.map_cons, List.map_nil, List.flatten_cons, List.flatten_nil, List.append_nil]
    exact sub_append_sub cv _ _ _ (hmono n (Nat.le_refl _)) h1 hl

theorem wf_list_parts (lg : Bool) (off len : Nat) (nulls : Option Nulls) (offs : List Nat) (child : Arr)
    (hw : wf (.list lg off len nulls offs child) = true) :
    monoOffs offs off len = true ∧ offs.getD (off + len) 0 ≤ child.len ∧ wf child = true ∧ wfNulls nulls len = true := by
  simp only [wf, Bool.and_eq_true, decide_eq_true_eq] at hw
  obtain ⟨⟨⟨⟨_, h1⟩, h2⟩, h3⟩, h4⟩ := hw
  exact ⟨h2, h3, h4, h1⟩

/-- `trimmed_values`: the child restricted to `[first offset, last offset)` -/
theorem logical_trimmedValues (lg : Bool) (off len : Nat) (nulls : Option Nulls) (offs : List Nat) (child : Arr)
    (hw : wf (.list lg off len nulls offs child) = true) :
    logical (trimmedValues (.list lg off len nulls offs child))
      = sub (logical child) (offs.getD off 0) (offs.getD (off + len) 0) := by
  obtain ⟨hm, hl, hwc, _⟩ := wf_list_parts _ _ _ _ _ _ hw
  have h0 := mono_le offs off len hm 0 len (by omega) (by omega)
  simp only [Nat.add_zero] at h0
  simp only [trimmedValues]
  rw [logical_slice child _ _ hwc (by omega)]
  congr 1; omega


theorem hasNull_false_iff (n : Option Nulls) (len : Nat) :
    hasNull n len = false ↔ ∀ i, i < len → validAt n i = true := by
  simp [hasNull, List.any_eq_false]

theorem hasNull_true_iff (n : Option Nulls) (len : Nat) :
    hasNull n len = true ↔ ∃ i, i < len ∧ validAt n i = false := by
  simp [hasNull, List.any_eq_true]

theorem validAt_builderNulls (n : Option Nulls) (len i : Nat) (hi : i < len) :
    validAt (builderNulls n len) i = validAt n i := by
  unfold builderNulls
  split
  · rfl
  · rename_i h
    have h' : hasNull n len = false := by simpa using h
    rw [(hasNull_false_iff n len).1 h' i hi]; rfl

theorem map_range_congr {α : Type} (f g : Nat → α) (n : Nat) (h : ∀ i, i < n → f i = g i) :
    (List.range n).map f = (List.range n).map g := by
  apply List.map_congr_left; intro i hi; exact h i (by simpa using hi)

/-- `deep_copy_array`: the copy has the same logical value (for every array, well-formed or not) -/
theorem logical_deepCopy (a : Arr) : logical (deepCopy a) = logical a := by
  match a with
  | .prim b off len nulls vals =>
    simp only [deepCopy, logical]
    apply map_range_congr; intro i hi
    simp [primRow, validAt_builderNulls _ _ _ hi]
  | .list lg off len nulls offs child =>
    simp only [deepCopy, logical]
    rw [logical_deepCopy child]
    apply map_range_congr; intro i hi
    simp [listRow, validAt_builderNulls _ _ _ hi]
  | .struct len nulls names cols =>
    simp only [deepCopy, logical]
    have : logicalCols (deepCopyCols cols) = logicalCols cols := by
      rw [logicalCols_eq_map, logicalCols_eq_map, deepCopyCols_eq_map, List.map_map]
      apply List.map_congr_left; intro c hc
      exact logical_deepCopy c
    rw [this]
    apply map_range_congr; intro i hi
    simp [structRow, validAt_builderNulls _ _ _ hi]
termination_by sizeOf a
decreasing_by
  all_goals simp_wf
  all_goals first | omega | (have := List.sizeOf_lt_of_mem hc; omega)

theorem map_getD_range_self {α : Type} (l : List α) (d : α) :
    (List.range l.length).map (fun i => l.getD i d) = l := by
  apply List.ext_getElem
  · simp
  · intro i h1 h2
    have : i < l.length := by simpa using h1
    simp [List.getD, this]

/-- `deep_copy_array_sliced`: copying exactly the visible rows keeps the logical value -/
theorem logical_deepCopySliced (a : Arr) (hw : wf a = true) : logical (deepCopySliced a) = logical a := by
  unfold deepCopySliced
  rw [logical_gather a _ hw (by intro i hi; simpa using hi)]
  have := map_getD_range_self (logical a) Value.null
  rwa [length_logical] at this


/-- `trimmed_values` is the concatenation of all raw list entries -/
theorem trimmedValues_flatten (lg : Bool) (off len : Nat) (nulls : Option Nulls) (offs : List Nat) (child : Arr)
    (hw : wf (.list lg off len nulls offs child) = true) :
    logical (trimmedValues (.list lg off len nulls offs child))
      = (rawEntries (.list lg off len nulls offs child)).flatten := by
  obtain ⟨hm, hl, hwc, _⟩ := wf_list_parts _ _ _ _ _ _ hw
  rw [logical_trimmedValues _ _ _ _ _ _ hw]
  have := flatten_consecutive (logical child) (fun i => offs.getD (off + i) 0) len
    (fun i hi => by simpa [Nat.add_assoc] using (monoOffs_iff _ _ _).1 hm i hi) (by simpa using hl)
  simp only [Nat.add_zero] at this
  rw [← this]
  simp [rawEntries, Nat.add_assoc]

theorem getD_rebasedOffs (offs : List Nat) (off len i : Nat) (hi : i ≤ len) :
    (rebasedOffs offs off len).getD i 0 = offs.getD (off + i) 0 - offs.getD off 0 := by
  unfold rebasedOffs
  rw [getD_map_range _ _ _ _ (by omega)]

/-- a list array over its trimmed values with re-based offsets is the same logical array
    (what `merge_with_schema` builds for a list column) -/
theorem logical_rebased (lg : Bool) (off len : Nat) (nulls : Option Nulls) (offs : List Nat) (child : Arr)
    (hw : wf (.list lg off len nulls offs child) = true) :
    logical (.list lg 0 len nulls (rebasedOffs offs off len) (trimmedValues (.list lg off len nulls offs child)))
      = logical (.list lg off len nulls offs child) := by
  obtain ⟨hm, hl, hwc, _⟩ := wf_list_parts _ _ _ _ _ _ hw
  simp only [logical]
  rw [logical_trimmedValues _ _ _ _ _ _ hw]
  apply map_range_congr; intro i hi
  simp only [listRow, Nat.zero_add]
  rw [getD_rebasedOffs _ _ _ _ (by omega), getD_rebasedOffs _ _ _ _ (by omega)]
  simp only [← Nat.add_assoc]
  have h0 := mono_le offs off len hm 0 i (by omega) (by omega)
  have h1 := (monoOffs_iff _ _ _).1 hm i hi
  have h2 := mono_le offs off len hm (i + 1) len (by omega) (by omega)
  simp only [Nat.add_zero] at h0
  have e1 : off + (i + 1) = off + i + 1 := by omega
  rw [e1] at h2
  rw [sub_sub _ _ _ _ _ (by omega) (by simpa using hl)]
  have e2 : offs.getD off 0 + (offs.getD (off + i) 0 - offs.getD off 0) = offs.getD (off + i) 0 := by omega
  have e3 : offs.getD off 0 + (offs.getD (off + i + 1) 0 - offs.getD off 0) = offs.getD (off + i + 1) 0 := by omega
  rw [e2, e3]

theorem len_slice (a : Arr) (o l : Nat) : (slice a o l).len = l := by
  cases a <;> simp [slice, Arr.len]

theorem wfNulls_slice (n : Option Nulls) (len o l : Nat) (h : wfNulls n len = true) (hol : o + l ≤ len) :
    wfNulls (sliceNulls n o) l = true := by
  cases n with
  | none => rfl
  | some n => simp [wfNulls, sliceNulls] at *; omega

/-- a slice of a well-formed array is well-formed -/
theorem wf_slice (a : Arr) (o l : Nat) (hw : wf a = true) (h : o + l ≤ a.len) : wf (slice a o l) = true := by
  match a with
  | .prim b off len nulls vals =>
    simp only [wf, slice, Arr.len, Bool.and_eq_true, decide_eq_true_eq] at *
    exact ⟨by omega, wfNulls_slice _ _ _ _ hw.2 h⟩
  | .list lg off len nulls offs child =>
    obtain ⟨hm, hl, hwc, hn⟩ := wf_list_parts _ _ _ _ _ _ hw
    simp only [Arr.len] at h
    have hlen : off + len + 1 ≤ offs.length := by
      simp only [wf, Bool.and_eq_true, decide_eq_true_eq] at hw; exact hw.1.1.1.1
    simp only [wf, slice, Bool.and_eq_true, decide_eq_true_eq]
    refine ⟨⟨⟨⟨by omega, wfNulls_slice _ _ _ _ hn h⟩, ?_⟩, ?_⟩, hwc⟩
    · rw [monoOffs_iff]
      intro i hi
      have := (monoOffs_iff _ _ _).1 hm (o + i) (by omega)
      simpa [Nat.add_assoc] using this
    · have := mono_le offs off len hm (o + l) len (by omega) (by omega)
      simp only [Nat.add_assoc] at *
      omega
  | .struct len nulls names cols =>
    simp only [Arr.len] at h
    simp only [wf, slice, Bool.and_eq_true, wfCols_iff, sliceCols_eq_map] at *
    refine ⟨⟨wfNulls_slice _ _ _ _ hw.1.1 h, by simpa using hw.1.2⟩, ?_⟩
    intro c hc
    simp only [List.mem_map] at hc
    obtain ⟨d, hd, rfl⟩ := hc
    have hd' := hw.2 d hd
    exact ⟨len_slice _ _ _, wf_slice d o l hd'.2 (by omega)⟩
termination_by sizeOf a
decreasing_by
  all_goals simp_wf
  all_goals first | omega | (have := List.sizeOf_lt_of_mem hd; omega)


end LanceModel.C40
