import LanceModel.C40.ListLemmas
/-
C40: `filter_garbage_nulls` (list.rs).
-/
namespace LanceModel.C40

theorem trueIdxFrom_append (b : Nat) (x y : List Bool) :
    trueIdxFrom b (x ++ y) = trueIdxFrom b x ++ trueIdxFrom (b + x.length) y := by
  induction x generalizing b with
  | nil => simp [trueIdxFrom]
  | cons h t ih =>
    cases h <;> simp [trueIdxFrom, ih, Nat.add_assoc, Nat.add_comm 1]

theorem trueIdxFrom_replicate_false (b n : Nat) : trueIdxFrom b (List.replicate n false) = [] := by
  induction n generalizing b with
  | zero => simp [trueIdxFrom]
  | succ n ih => simp [List.replicate_succ, trueIdxFrom, ih]

theorem trueIdxFrom_replicate_true (b n : Nat) : trueIdxFrom b (List.replicate n true) = List.range' b n := by
  induction n generalizing b with
  | zero => simp [trueIdxFrom]
  | succ n ih => simp [List.replicate_succ, trueIdxFrom, ih, List.range'_succ]

/-- the kept child positions: one run per valid window -/
def keptIdx : Nat → List (Bool × Nat) → List Nat
  | _, [] => []
  | b, w :: t => (if w.1 then List.range' b w.2 else []) ++ keptIdx (b + w.2) t

/-- the kept child segments: one per window, empty for a NULL window -/
def segs (cv : List Value) : Nat → List (Bool × Nat) → List (List Value)
  | _, [] => []
  | b, w :: t => (if w.1 then sub cv b (b + w.2) else []) :: segs cv (b + w.2) t

def wsum (ws : List (Bool × Nat)) : Nat := (ws.map (fun w => w.2)).sum

theorem trueIdx_windows (b : Nat) (ws : List (Bool × Nat)) :
    trueIdxFrom b (ws.flatMap (fun w => List.replicate w.2 w.1)) = keptIdx b ws := by
  induction ws generalizing b with
  | nil => simp [trueIdxFrom, keptIdx]
  | cons w t ih =>
    simp only [List.flatMap_cons, trueIdxFrom_append, List.length_replicate, keptIdx, ih]
    cases h : w.1 <;> simp [trueIdxFrom_replicate_false, trueIdxFrom_replicate_true]

theorem length_flatMap_windows (ws : List (Bool × Nat)) :
    (ws.flatMap (fun w => List.replicate w.2 w.1)).length = wsum ws := by
  induction ws with
  | nil => simp [wsum]
  | cons w t ih => simp [wsum] at *; try omega

theorem keptIdx_lt (b : Nat) (ws : List (Bool × Nat)) : ∀ j ∈ keptIdx b ws, j < b + wsum ws := by
  induction ws generalizing b with
  | nil => simp [keptIdx]
  | cons w t ih =>
    intro j hj
    simp only [keptIdx, List.mem_append] at hj
    simp only [wsum, List.map_cons, List.sum_cons] at *
    rcases hj with hj | hj
    · split at hj
      · simp [List.mem_range'_1] at hj; omega
      · simp at hj
    · have := ih (b + w.2) j hj; omega

theorem map_getD_keptIdx (cv : List Value) (b : Nat) (ws : List (Bool × Nat)) (h : b + wsum ws ≤ cv.length) :
    (keptIdx b ws).map (fun j => cv.getD j .null) = (segs cv b ws).flatten := by
  induction ws generalizing b with
  | nil => simp [keptIdx, segs]
  | cons w t ih =>
    simp only [wsum, List.map_cons, List.sum_cons] at h
    simp only [keptIdx, segs, List.map_append, List.flatten_cons]
    rw [ih (b + w.2) (by simp only [wsum]; omega)]
    congr 1
    split
    · exact map_getD_range' cv .null b w.2 (by omega)
    · simp

theorem length_segs (cv : List Value) (b : Nat) (ws : List (Bool × Nat)) : (segs cv b ws).length = ws.length := by
  induction ws generalizing b with
  | nil => simp [segs]
  | cons w t ih => simp [segs, ih]

theorem fgnOffsets_eq (cv : List Value) (acc b : Nat) (ws : List (Bool × Nat)) (h : b + wsum ws ≤ cv.length) :
    fgnOffsets acc ws = psumsFrom acc ((segs cv b ws).map List.length) := by
  induction ws generalizing acc b with
  | nil => simp [fgnOffsets, segs, psumsFrom]
  | cons w t ih =>
    simp only [wsum, List.map_cons, List.sum_cons] at h
    simp only [fgnOffsets, segs, List.map_cons, psumsFrom]
    rw [ih _ (b + w.2) (by simp only [wsum]; omega)]
    congr 2
    split
    · rw [length_sub _ _ _ (by omega)]; omega
    · simp

theorem getElem_segs (cv : List Value) (b : Nat) (ws : List (Bool × Nat)) (k : Nat) (hk : k < ws.length) :
    (segs cv b ws)[k]'(by rw [length_segs]; exact hk)
      = if ws[k].1 then sub cv (b + wsum (ws.take k)) (b + wsum (ws.take (k + 1))) else [] := by
  induction ws generalizing b k with
  | nil => simp at hk
  | cons w t ih =>
    cases k with
    | zero => simp [segs, wsum]
    | succ k =>
      have hk' : k < t.length := by simpa using hk
      simp only [segs, List.getElem_cons_succ, List.take_succ_cons]
      rw [ih (b + w.2) k hk']
      simp only [wsum, List.map_cons, List.sum_cons, Nat.add_assoc]

/-- telescoping: the windows of a monotone offsets buffer add up to the offsets -/
theorem wsum_fgnWindows (nulls : Option Nulls) (offs : List Nat) (off len : Nat) (hm : monoOffs offs off len = true)
    (k : Nat) (hk : k ≤ len) :
    offs.getD off 0 + wsum ((fgnWindows nulls offs off len).take k) = offs.getD (off + k) 0 := by
  induction k with
  | zero => simp [wsum]
  | succ k ih =>
    have h1 := ih (by omega)
    have h2 := (monoOffs_iff _ _ _).1 hm k (by omega)
    have hlen : (fgnWindows nulls offs off len).length = len := by simp [fgnWindows]
    rw [List.take_succ, wsum, List.map_append, List.sum_append]
    have hk' : k < (fgnWindows nulls offs off len).length := by rw [hlen]; omega
    have : (fgnWindows nulls offs off len)[k]? = some (validAt nulls k, entryLen offs off k) := by
      rw [List.getElem?_eq_getElem hk']; simp [fgnWindows]
    rw [this]
    simp only [wsum] at h1
    simp only [Option.toList_some, List.map_cons, List.map_nil, List.sum_cons, List.sum_nil, entryLen]
    have e : off + (k + 1) = off + k + 1 := by omega
    rw [e]
    omega


theorem gather_len (a : Arr) (idx : List Nat) : (gather a idx).len = idx.length := by
  cases a <;> simp [gather, Arr.len]

theorem trueIdx_fgnMask (pre : Nat) (ws : List (Bool × Nat)) (childLen : Nat) :
    trueIdxFrom 0 (fgnMask pre ws childLen) = keptIdx pre ws := by
  unfold fgnMask
  rw [trueIdxFrom_append, trueIdxFrom_append, trueIdxFrom_replicate_false, trueIdxFrom_replicate_false]
  simp [trueIdx_windows]

theorem length_fgnWindows (nulls : Option Nulls) (offs : List Nat) (off len : Nat) :
    (fgnWindows nulls offs off len).length = len := by simp [fgnWindows]

/-- facts about the pieces `filter_garbage_nulls` computes for a well-formed list array with a validity buffer -/
theorem fgn_core (lg : Bool) (off len : Nat) (n : Nulls) (offs : List Nat) (child : Arr)
    (hw : wf (.list lg off len (some n) offs child) = true) :
    logical (filterArr child (fgnMask (offs.getD off 0) (fgnWindows (some n) offs off len) child.len))
        = (segs (logical child) (offs.getD off 0) (fgnWindows (some n) offs off len)).flatten
    ∧ fgnOffsets 0 (fgnWindows (some n) offs off len)
        = psums ((segs (logical child) (offs.getD off 0) (fgnWindows (some n) offs off len)).map List.length) := by
  obtain ⟨hm, hl, hwc, _⟩ := wf_list_parts _ _ _ _ _ _ hw
  have hsum := wsum_fgnWindows (some n) offs off len hm len (Nat.le_refl _)
  rw [List.take_of_length_le (by rw [length_fgnWindows]; exact Nat.le_refl _)] at hsum
  have hbound : offs.getD off 0 + wsum (fgnWindows (some n) offs off len) ≤ (logical child).length := by
    rw [hsum, length_logical]; exact hl
  constructor
  · unfold filterArr
    rw [trueIdx_fgnMask, logical_gather child _ hwc (by
      intro j hj
      have := keptIdx_lt _ _ j hj
      rw [length_logical] at hbound
      omega)]
    exact map_getD_keptIdx _ _ _ hbound
  · unfold psums
    exact fgnOffsets_eq _ 0 _ _ hbound

/-- `filter_garbage_nulls` keeps the logical value of every list array -/
theorem logical_fgn (lg : Bool) (off len : Nat) (nulls : Option Nulls) (offs : List Nat) (child : Arr)
    (hw : wf (.list lg off len nulls offs child) = true) :
    logical (filterGarbageNulls (.list lg off len nulls offs child)) = logical (.list lg off len nulls offs child) := by
  simp only [filterGarbageNulls]
  split
  · rfl
  · cases nulls with
    | none => rfl
    | some n =>
      simp only
      obtain ⟨hm, hl, hwc, _⟩ := wf_list_parts _ _ _ _ _ _ hw
      obtain ⟨h1, h2⟩ := fgn_core lg off len n offs child hw
      simp only [logical]
      rw [h1, h2]
      apply map_range_congr; intro i hi
      simp only [listRow, Nat.zero_add]
      split
      · rename_i hv
        have hlen := length_fgnWindows (some n) offs off len
        have hlen' : (segs (logical child) (offs.getD off 0) (fgnWindows (some n) offs off len)).length = len := by
          rw [length_segs, hlen]
        rw [getD_psums _ _ (by rw [List.length_map]; omega), getD_psums _ _ (by rw [List.length_map]; omega)]
        rw [sub_flatten_sums _ i (by omega)]
        rw [getElem_segs _ _ _ i (by omega)]
        have hwi : (fgnWindows (some n) offs off len)[i]'(by omega) = (validAt (some n) i, entryLen offs off i) := by
          simp [fgnWindows]
        rw [hwi]
        simp only [hv, if_true]
        rw [wsum_fgnWindows (some n) offs off len hm i (by omega),
          wsum_fgnWindows (some n) offs off len hm (i + 1) (by omega)]
        simp [Nat.add_assoc]
      · rfl

/-- after `filter_garbage_nulls` (on an array with a validity buffer): offsets start at 0, a NULL row has an empty
    extent, and the offsets end exactly at the end of the new values (no garbage, no slack) -/
theorem fgn_clean (lg : Bool) (off len : Nat) (n : Nulls) (offs : List Nat) (child : Arr)
    (hw : wf (.list lg off len (some n) offs child) = true) (hlen : len ≠ 0) :
    ∃ offs' child', filterGarbageNulls (.list lg off len (some n) offs child) = .list lg 0 len (some n) offs' child'
      ∧ offs'.getD 0 0 = 0
      ∧ (∀ i, i < len → validAt (some n) i = false → offs'.getD (i + 1) 0 = offs'.getD i 0)
      ∧ offs'.getD len 0 = child'.len := by
  obtain ⟨h1, h2⟩ := fgn_core lg off len n offs child hw
  have hlw := length_fgnWindows (some n) offs off len
  have hls : (segs (logical child) (offs.getD off 0) (fgnWindows (some n) offs off len)).length = len := by
    rw [length_segs, hlw]
  refine ⟨fgnOffsets 0 (fgnWindows (some n) offs off len),
    filterArr child (fgnMask (offs.getD off 0) (fgnWindows (some n) offs off len) child.len),
    by simp [filterGarbageNulls, hlen], ?_, ?_, ?_⟩
  · rw [h2, getD_psums _ _ (by simp)]; simp
  · intro i hi hv
    rw [h2, getD_psums _ _ (by rw [List.length_map]; omega), getD_psums _ _ (by rw [List.length_map]; omega)]
    rw [List.take_succ, List.sum_append]
    have : ((segs (logical child) (offs.getD off 0) (fgnWindows (some n) offs off len)).map List.length)[i]? = some 0 := by
      rw [List.getElem?_map, List.getElem?_eq_getElem (by omega), getElem_segs _ _ _ i (by omega)]
      have hwi : (fgnWindows (some n) offs off len)[i]'(by omega) = (validAt (some n) i, entryLen offs off i) := by
        simp [fgnWindows]
      rw [hwi]; simp [hv]
    rw [this]; simp
  · have hl : (filterArr child (fgnMask (offs.getD off 0) (fgnWindows (some n) offs off len) child.len)).len
        = ((segs (logical child) (offs.getD off 0) (fgnWindows (some n) offs off len)).flatten).length := by
      rw [← h1, length_logical]
    rw [hl, h2, getD_psums _ _ (by rw [List.length_map]; omega)]
    rw [List.take_of_length_le (by rw [List.length_map]; omega)]
    simp [List.length_flatten]

end LanceModel.C40
