import LanceModel.C40.ListLemmas
/-
C40 — Arrow helper transformations preserve values.

"Struct merging, schema projection, batch take, deep copy, list trimming/garbage-null filtering and JSON conversion
helpers return arrays whose logical values and validity equal the model result for every input, including sliced arrays
and nested nulls."

Every theorem is `logical (op a) = opSpec (logical a)` for ALL arrays `a` of the model: any nesting depth, any
offset/length of every buffer (value, offsets, validity each with their own offset), any validity pattern, arbitrary
values behind NULLs.  `wf` is what Arrow itself demands of an array (`ArrayData::validate_full`).
-/
namespace LanceModel.C40

/-! ### Arrow kernels the helpers are built from (contracts of the model's `slice` / `gather`) -/

/-- `Array::slice(o, l)`: the window `[o, o+l)` of the logical rows -/
theorem slice_spec (a : Arr) (o l : Nat) (hw : wf a = true) (h : o + l ≤ a.len) :
    logical (slice a o l) = sub (logical a) o (o + l) :=
  logical_slice a o l hw h

/-- `take` / `filter` / `MutableArrayData::extend`: row `k` of the result is row `idx[k]` of the input -/
theorem gather_spec (a : Arr) (idx : List Nat) (hw : wf a = true) (hi : ∀ i ∈ idx, i < a.len) :
    logical (gather a idx) = idx.map (fun i => (logical a).getD i .null) :=
  logical_gather a idx hw hi

/-! ### deepcopy.rs -/

/-- `deep_copy_array`: same logical value, for every array (no well-formedness needed) -/
theorem deep_copy_spec (a : Arr) : logical (deepCopy a) = logical a := logical_deepCopy a

/-- `deep_copy_array_sliced` (= `RecordBatchExt::shrink_to_fit` per column): same logical value for every slice -/
theorem deep_copy_sliced_spec (a : Arr) (hw : wf a = true) : logical (deepCopySliced a) = logical a :=
  logical_deepCopySliced a hw

/-- … and of a slice of an array: the copy of `a.slice(o, l)` is the window of `a` -/
theorem deep_copy_sliced_of_slice (a : Arr) (o l : Nat) (hw : wf a = true) (h : o + l ≤ a.len)
    (hws : wf (slice a o l) = true) :
    logical (deepCopySliced (slice a o l)) = sub (logical a) o (o + l) := by
  rw [logical_deepCopySliced _ hws, logical_slice a o l hw h]

/-! ### list.rs -/

/-- `trimmed_values`: the child rows between the first and the last visible offset -/
theorem trimmed_values_spec (lg : Bool) (off len : Nat) (nulls : Option Nulls) (offs : List Nat) (child : Arr)
    (hw : wf (.list lg off len nulls offs child) = true) :
    logical (trimmedValues (.list lg off len nulls offs child))
      = sub (logical child) (offs.getD off 0) (offs.getD (off + len) 0) :=
  logical_trimmedValues lg off len nulls offs child hw

/-- `trimmed_values` = concatenation of the raw entries of the visible rows (garbage behind NULLs included) -/
theorem trimmed_values_concat (lg : Bool) (off len : Nat) (nulls : Option Nulls) (offs : List Nat) (child : Arr)
    (hw : wf (.list lg off len nulls offs child) = true) :
    logical (trimmedValues (.list lg off len nulls offs child))
      = (rawEntries (.list lg off len nulls offs child)).flatten :=
  trimmedValues_flatten lg off len nulls offs child hw

/-- trimmed values + re-based offsets describe the same list array (the list arm of `merge_with_schema`) -/
theorem trimmed_rebased_spec (lg : Bool) (off len : Nat) (nulls : Option Nulls) (offs : List Nat) (child : Arr)
    (hw : wf (.list lg off len nulls offs child) = true) :
    logical (.list lg 0 len nulls (rebasedOffs offs off len) (trimmedValues (.list lg off len nulls offs child)))
      = logical (.list lg off len nulls offs child) :=
  logical_rebased lg off len nulls offs child hw

/-! ### lib.rs: take -/

/-- `RecordBatchExt::take`: rows `idx` of the batch, in that order, repetitions included -/
theorem take_spec (a b : Arr) (idx : List Nat) (hw : wf a = true) (h : takeBatch a idx = .ok b) :
    logical b = idx.map (fun i => (logical a).getD i .null) := by
  unfold takeBatch at h
  split at h
  · cases h
  · split at h
    · cases h
    · rename_i h2
      cases h
      apply logical_gather a idx hw
      intro i hi
      simp only [List.any_eq_true, not_exists, not_and, decide_eq_true_eq] at h2
      have := h2 i hi
      omega

/-! ### non-vacuity: a sliced list-of-struct array with garbage behind a NULL -/

/-- values buffer 10,11,12,13,14,15 read from offset 1; validity bits read from bit 2 -/
def exLeaf : Arr := .prim false 1 5 (some ⟨2, [false, false, true, false, true, true, true]⟩) [10, 11, 12, 13, 14, 15]
/-- offsets 1,3,3,5 (do not start at 0), second entry NULL, read from offset 0; child has 5 rows -/
def exList : Arr := .list false 0 3 (some ⟨1, [true, true, false, true]⟩) [1, 3, 3, 5, 5] exLeaf

example : wf exList = true := by decide
example : 1 + 2 ≤ exList.len := by decide
example : wf (slice exList 1 2) = true := by decide
example : takeBatch (.struct 3 none ["l"] [exList]) [2, 0, 2] =
    .ok (gather (.struct 3 none ["l"] [exList]) [2, 0, 2]) := by rfl

end LanceModel.C40
