import LanceModel.C40.MergeWSLemmas
import LanceModel.C40.WfLemmas
/-
C40 — Arrow helper transformations preserve values.

"Struct merging, schema projection, batch take, deep copy, list trimming/garbage-null filtering and JSON conversion
helpers return arrays whose logical values and validity equal the model result for every input, including sliced arrays
and nested nulls."

Every theorem is `logical (op a) = opSpec (logical a)` for ALL arrays `a` of the model: any nesting depth, any
offset/length of every buffer (value, offsets, validity each with their own offset), any validity pattern, arbitrary
values behind NULLs.  `wf` is what Arrow itself demands of an array (`ArrayData::validate_full`).
-/
namespace LanceModel.C40

/-! ### Arrow kernels the helpers are built from (contracts of the model's `slice` / `gather`) -/

/-- `Array::slice(o, l)`: the window `[o, o+l)` of the logical rows -/
theorem slice_spec (a : Arr) (o l : Nat) (hw : wf a = true) (h : o + l ≤ a.len) :
    logical (slice a o l) = sub (logical a) o (o + l) :=
  logical_slice a o l hw h

/-- `take` / `filter` / `MutableArrayData::extend`: row `k` of the result is row `idx[k]` of the input -/
theorem gather_spec (a : Arr) (idx : List Nat) (hw : wf a = true) (hi : ∀ i ∈ idx, i < a.len) :
    logical (gather a idx) = idx.map (fun i => (logical a).getD i .null) :=
  logical_gather a idx hw hi

/-- … and returns a well-formed array (so do take, filter, `deep_copy_array_sliced`, which are gathers) -/
theorem gather_wf (a : Arr) (idx : List Nat) (hw : wf a = true) (hi : ∀ i ∈ idx, i < a.len) :
    wf (gather a idx) = true ∧ (gather a idx).len = idx.length :=
  ⟨wf_gather a idx hw hi, gather_len a idx⟩

/-! ### deepcopy.rs -/

/-- `deep_copy_array`: same logical value, for every array (no well-formedness needed) -/
theorem deep_copy_spec (a : Arr) : logical (deepCopy a) = logical a := logical_deepCopy a

/-- `deep_copy_array_sliced` (= `RecordBatchExt::shrink_to_fit` per column): same logical value for every slice -/
theorem deep_copy_sliced_spec (a : Arr) (hw : wf a = true) : logical (deepCopySliced a) = logical a :=
  logical_deepCopySliced a hw

/-- … and of a slice of an array: the copy of `a.slice(o, l)` is the window of `a` -/
theorem deep_copy_sliced_of_slice (a : Arr) (o l : Nat) (hw : wf a = true) (h : o + l ≤ a.len) :
    logical (deepCopySliced (slice a o l)) = sub (logical a) o (o + l) := by
  rw [logical_deepCopySliced _ (wf_slice a o l hw h), logical_slice a o l hw h]

/-- slicing keeps an array well-formed (so every theorem here applies to slices of slices) -/
theorem slice_wf (a : Arr) (o l : Nat) (hw : wf a = true) (h : o + l ≤ a.len) :
    wf (slice a o l) = true ∧ (slice a o l).len = l :=
  ⟨wf_slice a o l hw h, len_slice a o l⟩

/-! ### list.rs -/

/-- `trimmed_values`: the child rows between the first and the last visible offset -/
theorem trimmed_values_spec (lg : Bool) (off len : Nat) (nulls : Option Nulls) (offs : List Nat) (child : Arr)
    (hw : wf (.list lg off len nulls offs child) = true) :
    logical (trimmedValues (.list lg off len nulls offs child))
      = sub (logical child) (offs.getD off 0) (offs.getD (off + len) 0) :=
  logical_trimmedValues lg off len nulls offs child hw

/-- `trimmed_values` = concatenation of the raw entries of the visible rows (garbage behind NULLs included) -/
theorem trimmed_values_concat (lg : Bool) (off len : Nat) (nulls : Option Nulls) (offs : List Nat) (child : Arr)
    (hw : wf (.list lg off len nulls offs child) = true) :
    logical (trimmedValues (.list lg off len nulls offs child))
      = (rawEntries (.list lg off len nulls offs child)).flatten :=
  trimmedValues_flatten lg off len nulls offs child hw

/-- trimmed values + re-based offsets describe the same list array (the list arm of `merge_with_schema`) -/
theorem trimmed_rebased_spec (lg : Bool) (off len : Nat) (nulls : Option Nulls) (offs : List Nat) (child : Arr)
    (hw : wf (.list lg off len nulls offs child) = true) :
    logical (.list lg 0 len nulls (rebasedOffs offs off len) (trimmedValues (.list lg off len nulls offs child)))
      = logical (.list lg off len nulls offs child) :=
  logical_rebased lg off len nulls offs child hw

/-- `filter_garbage_nulls`: same logical value for every list array (sliced, offsets not starting at 0, slack after the
    last offset, garbage of any length behind NULLs, with or without a validity buffer, empty) -/
theorem filter_garbage_nulls_spec (lg : Bool) (off len : Nat) (nulls : Option Nulls) (offs : List Nat) (child : Arr)
    (hw : wf (.list lg off len nulls offs child) = true) :
    logical (filterGarbageNulls (.list lg off len nulls offs child)) = logical (.list lg off len nulls offs child) :=
  logical_fgn lg off len nulls offs child hw

/-- … and the result is clean: same validity, offsets start at 0, "list entries behind a null become empty", and the
    values end where the offsets end (every value is referenced by a valid row) -/
theorem filter_garbage_nulls_clean (lg : Bool) (off len : Nat) (n : Nulls) (offs : List Nat) (child : Arr)
    (hw : wf (.list lg off len (some n) offs child) = true) (hlen : len ≠ 0) :
    ∃ offs' child', filterGarbageNulls (.list lg off len (some n) offs child) = .list lg 0 len (some n) offs' child'
      ∧ offs'.getD 0 0 = 0
      ∧ (∀ i, i < len → validAt (some n) i = false → offs'.getD (i + 1) 0 = offs'.getD i 0)
      ∧ offs'.getD len 0 = child'.len :=
  fgn_clean lg off len n offs child hw hlen

/-- `filter_garbage_nulls` returns a well-formed array (every theorem here applies to its result again) -/
theorem filter_garbage_nulls_wf (lg : Bool) (off len : Nat) (nulls : Option Nulls) (offs : List Nat) (child : Arr)
    (hw : wf (.list lg off len nulls offs child) = true) :
    wf (filterGarbageNulls (.list lg off len nulls offs child)) = true :=
  wf_fgn lg off len nulls offs child hw

/-! ### struct.rs -/

/-- `pushdown_nulls`: same logical value … -/
theorem pushdown_nulls_spec (len : Nat) (nulls : Option Nulls) (names : List String) (cols : List Arr)
    (hw : wf (.struct len nulls names cols) = true) :
    logical (pushdownNulls (.struct len nulls names cols)) = logical (.struct len nulls names cols) :=
  logical_pushdownNulls len nulls names cols hw

/-- … and every child is NULL wherever the struct is NULL -/
theorem pushdown_nulls_cover (len : Nat) (n : Nulls) (names : List String) (cols : List Arr)
    (hw : wf (.struct len (some n) names cols) = true) (i : Nat) (hi : i < len) (hv : validAt (some n) i = false) :
    ∃ cols', pushdownNulls (.struct len (some n) names cols) = .struct len (some n) names cols'
      ∧ ∀ c' ∈ cols', (logical c').getD i .null = .null :=
  pushdownNulls_cover len n names cols hw i hi hv

/-! ### lib.rs: merge / merge_with_schema — the validity rules

The three rules `merge` / `merge_with_schema` are made of, then `merge_spec`: the full row-wise statement for `merge`. -/

/-- `adjust_child_validity`: a child row under a NULL parent row is NULL; under a valid parent row it is unchanged -/
theorem adjust_child_validity_spec (c : Arr) (p : Option Nulls) (i : Nat) (hi : i < c.len) :
    (logical (adjust c p)).getD i .null = if validAt p i then (logical c).getD i .null else .null :=
  adjust_spec c p i hi

/-- `merge_struct_validity`: row-wise OR, for every pair of validity buffers (absent, all-null, offset) -/
theorem merge_struct_validity_spec (l r : Option Nulls) (len i : Nat) (hi : i < len) :
    validAt (orNulls l r len) i = (validAt l i || validAt r i) :=
  orNulls_spec l r len i hi

/-- `merge`: row `i` of the result is NULL iff it is NULL on both sides (the "different validity" rule) -/
theorem merge_validity (fuel : Nat) (l r m : Arr) (h : mergeStruct fuel l r = .ok m) :
    m.len = l.len ∧ l.len = r.len ∧ ∀ i, i < l.len → validAt m.nulls i = (validAt l.nulls i || validAt r.nulls i) :=
  mergeStruct_validity fuel l r m h

/-- `merge_with_schema`: the same -/
theorem merge_with_schema_validity (fuel : Nat) (l r m : Arr) (fn : List String) (ft : List Ty)
    (h : mergeWS fuel l r fn ft = .ok m) :
    m.len = l.len ∧ l.len = r.len ∧ ∀ i, i < l.len → validAt m.nulls i = (validAt l.nulls i || validAt r.nulls i) :=
  mergeWS_validity fuel l r m fn ft h

/-- `RecordBatchExt::merge` at full strength: the merged batch is, row by row and at every nesting depth, `mergeRow` of
    the two input rows: NULL iff NULL on both sides; the left fields in order (a field of a NULL struct row counts as NULL;
    struct fields present on both sides merged recursively), then the right-only fields.  `uniq`: field names are unique
    within each struct (the specification addresses fields by name).  Region: batches for which the model's `merge` returns
    a result, i.e. no two List<Struct> columns of different struct types meet (`unmodelled`). -/
theorem merge_spec (llen : Nat) (lnulls : Option Nulls) (ln : List String) (lc : List Arr)
    (rlen : Nat) (rnulls : Option Nulls) (rn : List String) (rc : List Arr) (m : Arr)
    (hwl : wf (.struct llen lnulls ln lc) = true) (hwr : wf (.struct rlen rnulls rn rc) = true)
    (hul : uniq (.struct llen lnulls ln lc) = true) (hur : uniq (.struct rlen rnulls rn rc) = true)
    (h : mergeBatch (.struct llen lnulls ln lc) (.struct rlen rnulls rn rc) = .ok m) :
    logical m = (List.range llen).map (fun i =>
      mergeRow rn (tyOfCols rc) ln (tyOfCols lc)
        ((logical (.struct llen lnulls ln lc)).getD i .null) ((logical (.struct rlen rnulls rn rc)).getD i .null)) :=
  logical_mergeBatch llen lnulls ln lc rlen rnulls rn rc m hwl hwr hul hur h

/-- `RecordBatchExt::merge_with_schema`, field-by-field content: every row of the result is the row-wise `mwsRow` of the
    two input rows (reference fields in schema order; a field found on neither side skipped; found on one side: that side's
    value, NULL under a NULL struct row; struct fields found on both sides merged recursively; other fields from the left),
    at every nesting depth, wherever `mwsRow` specifies the row (`some v`): everywhere except below a LIST-typed reference
    field present on both sides (for those see `trimmed_rebased_spec`, `merge_with_schema_validity` and the harness oracle).
    `uniq`: unique field names per struct. -/
theorem merge_with_schema_spec (llen : Nat) (lnulls : Option Nulls) (ln : List String) (lc : List Arr)
    (rlen : Nat) (rnulls : Option Nulls) (rn : List String) (rc : List Arr) (fn : List String) (ft : List Ty) (m : Arr)
    (hwl : wf (.struct llen lnulls ln lc) = true) (hwr : wf (.struct rlen rnulls rn rc) = true)
    (hul : uniq (.struct llen lnulls ln lc) = true) (hur : uniq (.struct rlen rnulls rn rc) = true)
    (h : mergeWSBatch (.struct llen lnulls ln lc) (.struct rlen rnulls rn rc) fn ft = .ok m) :
    m.len = llen ∧ ∀ i, i < llen → ∀ v,
      mwsRow ln (tyOfCols lc) rn (tyOfCols rc) fn ft ((logical (.struct llen lnulls ln lc)).getD i .null)
        ((logical (.struct rlen rnulls rn rc)).getD i .null) = some v →
      (logical m).getD i .null = v := by
  unfold mergeWSBatch at h
  split at h
  · cases h
  · split at h
    · cases h
    · exact ⟨(mergeWS_validity 64 _ _ m fn ft h).1,
        mergeWS_spec_le 64 64 (Nat.le_refl _) llen lnulls ln lc rlen rnulls rn rc fn ft m hwl hwr hul hur h⟩

/-- the LIST arm of `merge_with_schema` (a list column present on both sides; also `merge_list_child_values` for nested
    lists), as a composition rule: the merged list has the rows of the inputs, is NULL exactly where both are NULL, and its
    entry `i` is the window `[a_i, b_i)` of the recursively merged values `vals`; the same window of the trimmed values of
    the left list is entry `i` of the left list, and - for a right list with the same entry lengths - of the right list.
    With `merge_with_schema_spec` for `vals` (struct items) this gives the element-wise content of list-of-struct merges. -/
theorem merge_with_schema_list_arm_spec (f : Nat) (lg : Bool) (item : Ty)
    (lg1 : Bool) (off len : Nat) (nulls : Option Nulls) (offs : List Nat) (child : Arr)
    (lg2 : Bool) (roff rlen : Nat) (rnulls : Option Nulls) (roffs : List Nat) (rchild : Arr) (c : Arr)
    (hwl : wf (.list lg1 off len nulls offs child) = true) (hwr : wf (.list lg2 roff rlen rnulls roffs rchild) = true)
    (h : mergeCell (f + 1) (.list lg item) (.list lg1 off len nulls offs child)
          (.list lg2 roff rlen rnulls roffs rchild) = .ok c) :
    rlen = len ∧ c.len = len ∧
    ∃ vals, mergeCell f item (trimmedValues (.list lg1 off len nulls offs child))
        (trimmedValues (.list lg2 roff rlen rnulls roffs rchild)) = .ok vals ∧
      ∀ i, i < len →
        (logical c).getD i .null =
          (if validAt nulls i || validAt rnulls i then
            .list (sub (logical vals) ((rebasedOffs offs off len).getD i 0) ((rebasedOffs offs off len).getD (i + 1) 0))
           else .null)
        ∧ sub (logical child) (offs.getD (off + i) 0) (offs.getD (off + i + 1) 0)
            = sub (logical (trimmedValues (.list lg1 off len nulls offs child)))
                ((rebasedOffs offs off len).getD i 0) ((rebasedOffs offs off len).getD (i + 1) 0)
        ∧ (rebasedOffs roffs roff rlen = rebasedOffs offs off len →
            sub (logical rchild) (roffs.getD (roff + i) 0) (roffs.getD (roff + i + 1) 0)
              = sub (logical (trimmedValues (.list lg2 roff rlen rnulls roffs rchild)))
                  ((rebasedOffs offs off len).getD i 0) ((rebasedOffs offs off len).getD (i + 1) 0)) :=
  mergeCell_list_spec f lg item lg1 off len nulls offs child lg2 roff rlen rnulls roffs rchild c hwl hwr h

/-- list-of-struct columns present on both sides of `merge_with_schema` (the case lance produces when the fields of a
    `list<struct>` column live in different data files), ELEMENT BY ELEMENT: wherever the merged list row is non-NULL, its
    entry has the length of the left entry and its element `k` is `mwsRow` of element `k` of the two input entries.
    Hypothesis `hsame`: both lists have the same entry lengths (they describe the same rows). -/
theorem merge_with_schema_list_of_struct_spec (f : Nat) (lg : Bool) (sn : List String) (st : List Ty)
    (lg1 : Bool) (off len : Nat) (nulls : Option Nulls) (offs : List Nat)
    (cl : Nat) (cn : Option Nulls) (csn : List String) (csc : List Arr)
    (lg2 : Bool) (roff rlen : Nat) (rnulls : Option Nulls) (roffs : List Nat)
    (dl : Nat) (dn : Option Nulls) (dsn : List String) (dsc : List Arr) (c : Arr)
    (hwl : wf (.list lg1 off len nulls offs (.struct cl cn csn csc)) = true)
    (hwr : wf (.list lg2 roff rlen rnulls roffs (.struct dl dn dsn dsc)) = true)
    (hul : uniq (.struct cl cn csn csc) = true) (hur : uniq (.struct dl dn dsn dsc) = true)
    (hsame : rebasedOffs roffs roff rlen = rebasedOffs offs off len)
    (h : mergeCell (f + 1) (.list lg (.struct sn st)) (.list lg1 off len nulls offs (.struct cl cn csn csc))
          (.list lg2 roff rlen rnulls roffs (.struct dl dn dsn dsc)) = .ok c) :
    ∀ i, i < len → (validAt nulls i || validAt rnulls i) = true →
      ∃ es, (logical c).getD i .null = .list es ∧
        es.length = offs.getD (off + i + 1) 0 - offs.getD (off + i) 0 ∧
        ∀ k, k < es.length → ∀ v,
          mwsRow csn (tyOfCols csc) dsn (tyOfCols dsc) sn st
            ((sub (logical (.struct cl cn csn csc)) (offs.getD (off + i) 0) (offs.getD (off + i + 1) 0)).getD k .null)
            ((sub (logical (.struct dl dn dsn dsc)) (roffs.getD (roff + i) 0) (roffs.getD (roff + i + 1) 0)).getD k .null)
            = some v →
          es.getD k .null = v :=
  mergeCell_list_of_struct_spec f lg sn st lg1 off len nulls offs cl cn csn csc lg2 roff rlen rnulls roffs dl dn dsn dsc c
    hwl hwr hul hur hsame h

/-! ### fuel: the recursion depth of the model's `merge` / `merge_with_schema` is bounded by the nesting depth -/

/-- with fuel above the nesting depth of the left batch, `mergeStruct` returns the same result for every larger fuel
    (the driver's 64 is enough for depth ≤ 63; the theorems above do not depend on the fuel chosen) -/
theorem merge_fuel_suffices (l r : Arr) (f f' : Nat) (h : depth l + 1 ≤ f) (hf : f ≤ f') :
    mergeStruct f' l r = mergeStruct f l r :=
  mergeStruct_fuel f l r f' h hf

/-- the same for `mergeWS` (two model calls per nesting level: fuel 64 is enough for depth ≤ 31) -/
theorem merge_with_schema_fuel_suffices (l r : Arr) (fn : List String) (ft : List Ty) (f f' : Nat)
    (h : 2 * depth l + 1 ≤ f) (hf : f ≤ f') : mergeWS f' l r fn ft = mergeWS f l r fn ft :=
  (mergeWS_fuel_aux f).1 l r fn ft f' h hf

/-! ### lib.rs: project_by_schema -/

/-- `RecordBatchExt::project_by_schema`: every row of the result is the row-wise projection `projectRow` (requested fields
    in the requested order, struct fields narrowed recursively, NULL struct rows stay NULL, nested validity preserved) -/
theorem project_by_schema_spec (a b : Arr) (names : List String) (tys : List Ty) (hw : wf a = true)
    (h : projectBatch a names tys = .ok b) : logical b = (logical a).map (projectRow names tys) :=
  logical_projectBatch a b names tys hw h

/-! ### lib.rs: take -/

/-- `RecordBatchExt::take`: rows `idx` of the batch, in that order, repetitions included -/
theorem take_spec (a b : Arr) (idx : List Nat) (hw : wf a = true) (h : takeBatch a idx = .ok b) :
    logical b = idx.map (fun i => (logical a).getD i .null) := by
  unfold takeBatch at h
  split at h
  · cases h
  · split at h
    · cases h
    · rename_i h2
      cases h
      apply logical_gather a idx hw
      intro i hi
      simp only [List.any_eq_true, not_exists, not_and, decide_eq_true_eq] at h2
      have := h2 i hi
      omega

/-! ### non-vacuity: a sliced list-of-struct array with garbage behind a NULL -/

/-- values buffer 10,11,12,13,14,15 read from offset 1; validity bits read from bit 2 -/
def exLeaf : Arr := .prim false 1 5 (some ⟨2, [false, false, true, false, true, true, true]⟩) [10, 11, 12, 13, 14, 15]
/-- offsets 1,3,3,5 (do not start at 0), second entry NULL, read from offset 0; child has 5 rows -/
def exList : Arr := .list false 0 3 (some ⟨1, [true, true, false, true]⟩) [1, 3, 3, 5, 5] exLeaf

example : wf exList = true := by decide
example : 1 + 2 ≤ exList.len := by decide
example : takeBatch (.struct 3 none ["l"] [exList]) [2, 0, 2] =
    .ok (gather (.struct 3 none ["l"] [exList]) [2, 0, 2]) := by rfl


/-- the lance test `test_filter_garbage_nulls`: items 0..9, offsets 2,5,8,9, validity T,F,T -/
def exFgn : Arr := .list false 0 3 (some ⟨0, [true, false, true]⟩) [2, 5, 8, 9] (.prim false 0 10 none [0, 1, 2, 3, 4, 5, 6, 7, 8, 9])
example : wf exFgn = true := by decide
example : (3 : Nat) ≠ 0 := by decide
example : validAt (some ⟨0, [true, false, true]⟩) 1 = false := by decide
example : wf (.struct 3 (some ⟨1, [true, true, false, true]⟩) ["l"] [exList]) = true := by decide
/-- merge of two batches whose struct column `s` has different validity on the two sides -/
def exL : Arr := .struct 2 none ["s"] [.struct 2 (some ⟨0, [false, true]⟩) ["a"] [.prim false 0 2 none [1, 2]]]
def exR : Arr := .struct 2 none ["s"] [.struct 2 none ["b"] [.prim false 0 2 none [3, 4]]]
def Res.isOk {α : Type} : Res α → Bool
  | .ok _ => true
  | .err _ => false
example : (projectBatch exL ["s"] [.struct [] []]).isOk = true := by
  simp [projectBatch, projectCols, exL, hasNull, validAt, findCol, Ty.beqList, Ty.beq, tyOfCols, tyOf, Res.isOk]
example : (projectBatch exL ["s"] [.struct ["a"] [.int]]).isOk = true := by
  simp [projectBatch, projectCols, exL, hasNull, validAt, findCol, Ty.beqList, Ty.beq, tyOfCols, tyOf, Res.isOk]
example : wf exL = true := by decide
example : ∃ m, mergeStruct 64 exL exR = .ok m := ⟨_, rfl⟩
example : ∃ m, mergeBatch exL exR = .ok m := ⟨_, rfl⟩
/-- row 0 of the example above: left `s` NULL, right `s = {b: 3}`; the specified merged row is `{s: {b: 3, a: NULL}}` -/
example : (mwsRow ["s"] [.struct ["a"] [.int]] ["s"] [.struct ["b"] [.int]] ["s"] [.struct ["b", "a"] [.int, .int]]
    (.struct ["s"] [.null]) (.struct ["s"] [.struct ["b"] [.int 3]])).isSome = true := by
  simp [mwsRow, rowOf, mwsVals, findKindTy, sameKind, Ty.isStruct, fieldV, lookupV, Value.isNull]
/-- a sliced list column (offsets 2,3,6 of [0,2,3,6]) merged with itself -/
example : ∃ c, mergeCell 2 (.list false .int) (.list false 1 2 none [0, 2, 3, 6] (.prim false 0 6 none [1, 2, 3, 4, 5, 6]))
    (.list false 1 2 none [0, 2, 3, 6] (.prim false 0 6 none [1, 2, 3, 4, 5, 6])) = .ok c := ⟨_, rfl⟩
/-- list<struct{x}> on the left, list<struct{y}> on the right, same offsets 1,2,4 (not starting at 0) -/
example : ∃ c, mergeCell 4 (.list false (.struct ["x", "y"] [.int, .int]))
    (.list false 0 2 none [1, 2, 4] (.struct 4 none ["x"] [.prim false 0 4 none [1, 2, 3, 4]]))
    (.list false 0 2 none [1, 2, 4] (.struct 4 none ["y"] [.prim false 0 4 none [5, 6, 7, 8]])) = .ok c := ⟨_, rfl⟩
example : depth exL + 1 ≤ 64 ∧ 2 * depth exL + 1 ≤ 64 := by decide
example : wf exR = true ∧ uniq exL = true ∧ uniq exR = true := by decide
example : ∃ m, mergeWS 64 exL exR ["s"] [.struct ["b", "a"] [.int, .int]] = .ok m := ⟨_, rfl⟩

end LanceModel.C40
