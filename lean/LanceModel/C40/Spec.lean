import LanceModel.C40.Model
/-
C40: value-level (row-wise) specifications of `project_by_schema`, `merge` (and, by the same recursion, of
`merge_with_schema`).  The harness evaluates the same specifications (independently, in Rust) on the outputs of the real
code on every run; the Lean theorems proved about them so far are in Props.
-/
namespace LanceModel.C40

def Value.isNull : Value → Bool
  | .null => true
  | _ => false

def lookupV (names : List String) (vs : List Value) (n : String) : Value :=
  match names, vs with
  | m :: ms, v :: vs => if m = n then v else lookupV ms vs n
  | _, _ => .null

/-- field `n` of a struct value; a NULL struct has only NULL fields -/
def fieldV (v : Value) (n : String) : Value :=
  match v with
  | .struct ns vs => lookupV ns vs n
  | _ => .null

def lookupTy (names : List String) (tys : List Ty) (n : String) : Option Ty :=
  match names, tys with
  | m :: ms, t :: ts => if m = n then some t else lookupTy ms ts n
  | _, _ => none

mutual
/-- row-wise specification of `merge` for two struct columns of types `struct ln lt` / `struct rn rt` -/
def mergeRow (rn : List String) (rt : List Ty) (ln : List String) : List Ty → Value → Value → Value
  | lt, lv, rv =>
    if lv.isNull && rv.isNull then .null
    else .struct (ln ++ rn.filter (fun n => !ln.contains n))
          (mergeVals rn rt lv rv ln lt ++ (rn.filter (fun n => !ln.contains n)).map (fieldV rv))
def mergeVals (rn : List String) (rt : List Ty) (lv rv : Value) : List String → List Ty → List Value
  | n :: ns, t :: ts =>
    (match t, lookupTy rn rt n with
      | .struct sn st, some (.struct rsn rst) => mergeRow rsn rst sn st (fieldV lv n) (fieldV rv n)
      | _, _ => fieldV lv n) :: mergeVals rn rt lv rv ns ts
  | _, _ => []
end


mutual
/-- row-wise specification of `project_by_schema`: a NULL row stays NULL, a struct row keeps the requested fields in the
    requested order, struct fields recursively -/
def projectRow (names : List String) : List Ty → Value → Value
  | tys, .struct cn vs => .struct names (projectVals cn vs names tys)
  | _, _ => .null
def projectVals (cn : List String) (vs : List Value) : List String → List Ty → List Value
  | n :: ns, t :: ts =>
    (match t with
      | .struct sn st => projectRow sn st (lookupV cn vs n)
      | _ => lookupV cn vs n) :: projectVals cn vs ns ts
  | _, _ => []
end


mutual
/-- field names are unique in every struct of the array -/
def uniq : Arr → Bool
  | .prim _ _ _ _ _ => true
  | .list _ _ _ _ _ child => uniq child
  | .struct _ _ names cols => names.Nodup && uniqCols cols
def uniqCols : List Arr → Bool
  | [] => true
  | a :: as => uniq a && uniqCols as
end


/-- type-level `findKind`: the first field named `n` whose type has the kind (struct / non-struct) of `t` -/
def findKindTy (names : List String) (tys : List Ty) (n : String) (t : Ty) : Option Ty :=
  match names, tys with
  | m :: ms, u :: us => if m = n && sameKind u t then some u else findKindTy ms us n t
  | _, _ => none

/-- a merged struct row from its field values: NULL iff both input rows are NULL -/
def rowOf (lv rv : Value) (o : Option (List (String × Value))) : Option Value :=
  if lv.isNull && rv.isNull then some .null
  else
    match o with
    | some nvs => some (.struct (nvs.map (·.1)) (nvs.map (·.2)))
    | none => none

/-- the merged fields of one row of `merge_with_schema` (reference fields `(names, tys)` in order; a field found on
    neither side is skipped); struct fields on both sides recursively -/
def mwsVals (ln : List String) (lt : List Ty) (rn : List String) (rt : List Ty) (lv rv : Value) :
    List String → List Ty → Option (List (String × Value))
  | n :: ns, t :: ts =>
    match mwsVals ln lt rn rt lv rv ns ts with
    | none => none
    | some rest =>
      match findKindTy ln lt n t, findKindTy rn rt n t with
      | none, none => some rest
      | none, some _ => some ((n, fieldV rv n) :: rest)
      | some _, none => some ((n, fieldV lv n) :: rest)
      | some lty, some rty =>
        match t with
        | .struct sn st =>
          match lty, rty with
          | .struct lsn lst, .struct rsn rst =>
            match rowOf (fieldV lv n) (fieldV rv n) (mwsVals lsn lst rsn rst (fieldV lv n) (fieldV rv n) sn st) with
            | some v => some ((n, v) :: rest)
            | none => none
          | _, _ => some ((n, fieldV lv n) :: rest)
        | .list _ _ => none
        | _ => some ((n, fieldV lv n) :: rest)
  | _, _ => some []

/-- row-wise specification of `merge_with_schema` for two struct columns of types `struct ln lt` / `struct rn rt` and the
    reference fields `(fn, ft)`; `none` = outside the specified region: a list-typed reference field present on both sides
    (its content is specified element-wise only for equal list shapes; see `trimmed_rebased_spec` and the harness oracle) -/
def mwsRow (ln : List String) (lt : List Ty) (rn : List String) (rt : List Ty) (fn : List String) (ft : List Ty)
    (lv rv : Value) : Option Value :=
  rowOf lv rv (mwsVals ln lt rn rt lv rv fn ft)

mutual
/-- nesting depth of an array (leaf = 0) -/
def depth : Arr → Nat
  | .prim _ _ _ _ _ => 0
  | .list _ _ _ _ _ child => depth child + 1
  | .struct _ _ _ cols => depthCols cols + 1
def depthCols : List Arr → Nat
  | [] => 0
  | a :: as => max (depth a) (depthCols as)
end

end LanceModel.C40
