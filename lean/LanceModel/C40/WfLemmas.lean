import LanceModel.C40.FgnLemmas
/-
C40: closure of well-formedness under the gather kernel and `filter_garbage_nulls`.
-/
namespace LanceModel.C40

theorem wfNulls_gatherNulls (n : Option Nulls) (idx : List Nat) : wfNulls (gatherNulls n idx) idx.length = true := by
  unfold gatherNulls
  split <;> simp [wfNulls]

theorem length_psums (ns : List Nat) : (psums ns).length = ns.length + 1 := length_psumsFrom 0 ns

theorem monoOffs_psums (ns : List Nat) : monoOffs (psums ns) 0 ns.length = true := by
  rw [monoOffs_iff]
  intro i hi
  simp only [Nat.zero_add]
  rw [getD_psums _ _ (by omega), getD_psums _ _ (by omega), List.take_add_one, List.sum_append]
  omega

theorem length_flatMap_range' (idx : List Nat) (s n : Nat → Nat) :
    (idx.flatMap (fun i => List.range' (s i) (n i))).length = (idx.map n).sum := by
  induction idx with
  | nil => simp
  | cons a t ih => simp [ih]

/-- the gather kernel (take / filter / extend) returns well-formed arrays -/
theorem wf_gather (a : Arr) (idx : List Nat) (hw : wf a = true) (hi : ∀ i ∈ idx, i < a.len) :
    wf (gather a idx) = true := by
  match a with
  | .prim b off len nulls vals =>
    simp only [gather, wf, Bool.and_eq_true, decide_eq_true_eq]
    exact ⟨by simp, wfNulls_gatherNulls _ _⟩
  | .list lg off len nulls offs child =>
    obtain ⟨hm, hl, hwc, _⟩ := wf_list_parts _ _ _ _ _ _ hw
    have hb : ∀ i ∈ idx, offs.getD (off + i) 0 ≤ offs.getD (off + i + 1) 0 ∧ offs.getD (off + i + 1) 0 ≤ child.len :=
      fun i hi' => entry_bounds lg off len nulls offs child hw i (hi i hi')
    have ihc := wf_gather child
      (idx.flatMap (fun i => List.range' (entryStart offs off i) (entryLen offs off i))) hwc (by
        intro j hj
        simp only [List.mem_flatMap, List.mem_range'_1] at hj
        obtain ⟨i, hi', h1, h2⟩ := hj
        have := hb i hi'
        unfold entryStart entryLen at *
        omega)
    simp only [gather, wf, Bool.and_eq_true, decide_eq_true_eq]
    refine ⟨⟨⟨⟨by rw [length_psums]; simp, wfNulls_gatherNulls _ _⟩, ?_⟩, ?_⟩, ihc⟩
    · have := monoOffs_psums (idx.map (entryLen offs off))
      simpa using this
    · rw [gather_len, length_flatMap_range', Nat.zero_add, getD_psums _ _ (by simp)]
      rw [List.take_of_length_le (by simp)]
      exact Nat.le_refl _
  | .struct len nulls names cols =>
    simp only [wf, Bool.and_eq_true, wfCols_iff, beq_iff_eq] at hw
    simp only [gather, wf, Bool.and_eq_true, wfCols_iff, gatherCols_eq_map, beq_iff_eq]
    refine ⟨⟨wfNulls_gatherNulls _ _, by simpa using hw.1.2⟩, ?_⟩
    intro c hc
    simp only [List.mem_map] at hc
    obtain ⟨d, hd, rfl⟩ := hc
    have hd' := hw.2 d hd
    exact ⟨gather_len _ _, wf_gather d idx hd'.2 (by intro i hi'; have := hi i hi'; simp only [Arr.len] at this; omega)⟩
termination_by sizeOf a
decreasing_by
  all_goals simp_wf
  all_goals first | omega | (have := List.sizeOf_lt_of_mem hd; omega)


theorem length_fgnOffsets (acc : Nat) (ws : List (Bool × Nat)) : (fgnOffsets acc ws).length = ws.length + 1 := by
  induction ws generalizing acc with
  | nil => simp [fgnOffsets]
  | cons w t ih => simp [fgnOffsets, ih]

/-- `filter_garbage_nulls` returns a well-formed array -/
theorem wf_fgn (lg : Bool) (off len : Nat) (nulls : Option Nulls) (offs : List Nat) (child : Arr)
    (hw : wf (.list lg off len nulls offs child) = true) :
    wf (filterGarbageNulls (.list lg off len nulls offs child)) = true := by
  simp only [filterGarbageNulls]
  split
  · exact hw
  · rename_i hlen0
    cases nulls with
    | none => exact hw
    | some n =>
      simp only
      obtain ⟨hm, hl, hwc, hn⟩ := wf_list_parts _ _ _ _ _ _ hw
      obtain ⟨h1, h2⟩ := fgn_core lg off len n offs child hw
      have hlw := length_fgnWindows (some n) offs off len
      have hls : (segs (logical child) (offs.getD off 0) (fgnWindows (some n) offs off len)).length = len := by
        rw [length_segs, hlw]
      have hsum := wsum_fgnWindows (some n) offs off len hm len (Nat.le_refl _)
      rw [List.take_of_length_le (by rw [hlw]; exact Nat.le_refl _)] at hsum
      simp only [wf, Bool.and_eq_true, decide_eq_true_eq]
      refine ⟨⟨⟨⟨by rw [length_fgnOffsets, hlw]; omega, hn⟩, ?_⟩, ?_⟩, ?_⟩
      · rw [h2]
        have := monoOffs_psums ((segs (logical child) (offs.getD off 0) (fgnWindows (some n) offs off len)).map List.length)
        rw [List.length_map, hls] at this
        exact this
      · have hcl : (filterArr child (fgnMask (offs.getD off 0) (fgnWindows (some n) offs off len) child.len)).len
            = ((segs (logical child) (offs.getD off 0) (fgnWindows (some n) offs off len)).flatten).length := by
          rw [← h1, length_logical]
        rw [hcl, h2, Nat.zero_add, getD_psums _ _ (by rw [List.length_map]; omega)]
        rw [List.take_of_length_le (by rw [List.length_map]; omega)]
        simp [List.length_flatten]
      · unfold filterArr
        rw [trueIdx_fgnMask]
        apply wf_gather child _ hwc
        intro j hj
        have := keptIdx_lt _ _ j hj
        omega

end LanceModel.C40
