import LanceModel.C40.MergeSpecLemmas
/-
C40: fuel sufficiency of `mergeStruct` / `mergeWS` / `mergeCell`: with enough fuel for the nesting depth of the left
array the result does not depend on the fuel.
-/
namespace LanceModel.C40

theorem depth_le_depthCols (cols : List Arr) (c : Arr) (h : c ∈ cols) : depth c ≤ depthCols cols := by
  induction cols with
  | nil => simp at h
  | cons a as ih =>
    simp only [List.mem_cons] at h
    simp only [depthCols]
    rcases h with rfl | h
    · omega
    · have := ih h; omega

theorem depth_setNulls (c : Arr) (m : Option Nulls) : depth (c.setNulls m) = depth c := by
  cases c <;> simp [Arr.setNulls, depth]

theorem depth_adjust (c : Arr) (p : Option Nulls) : depth (adjust c p) = depth c := by
  unfold adjust; split
  · split <;> exact depth_setNulls _ _
  · rfl

theorem depthCols_map_congr (cols : List Arr) (f : Arr → Arr) (h : ∀ c ∈ cols, depth (f c) = depth c) :
    depthCols (cols.map f) = depthCols cols := by
  induction cols with
  | nil => rfl
  | cons a as ih =>
    simp only [List.map_cons, depthCols, h a (by simp), ih (fun c hc => h c (by simp [hc]))]

theorem depth_slice (a : Arr) (o l : Nat) : depth (slice a o l) = depth a := by
  match a with
  | .prim .. => simp [slice, depth]
  | .list .. => simp [slice, depth]
  | .struct len nulls names cols =>
    simp only [slice, depth, sliceCols_eq_map]
    rw [depthCols_map_congr cols _ (fun c hc => depth_slice c o l)]
termination_by sizeOf a
decreasing_by
  all_goals simp_wf
  have := List.sizeOf_lt_of_mem hc
  omega

/-- the body of `mergeStruct (fuel+1)` on two structs with the recursive call abstracted -/
def mergeStructBody (recf : Arr → Arr → Res Arr) (llen : Nat) (lnulls : Option Nulls) (lnames : List String)
    (lcols : List Arr) (rlen : Nat) (rnulls : Option Nulls) (rnames : List String) (rcols : List Arr) : Res Arr :=
  if llen ≠ rlen then .err "panic"
  else
    match seqRes ((lnames.zip lcols).map (fun nc =>
        match findCol rnames rcols nc.1 with
        | some rcol =>
          if isStructArr nc.2 && isStructArr rcol then
            (recf (adjust nc.2 lnulls) (adjust rcol rnulls)).toOpt
          else if isListOfStruct nc.2 && isListOfStruct rcol && !(Ty.beq (tyOf nc.2) (tyOf rcol)) then
            .err "unmodelled"
          else .ok (some (adjust nc.2 lnulls))
        | none => .ok (some (adjust nc.2 lnulls)))) with
    | .err e => .err e
    | .ok lc =>
      .ok (.struct llen (orNulls lnulls rnulls llen)
            (lnames ++ ((rnames.zip rcols).filter (fun nc => !lnames.contains nc.1)).map (·.1))
            (lc ++ ((rnames.zip rcols).filter (fun nc => !lnames.contains nc.1)).map (fun nc => adjust nc.2 rnulls)))

theorem mergeStruct_succ (f : Nat) (llen : Nat) (lnulls : Option Nulls) (ln : List String) (lc : List Arr)
    (rlen : Nat) (rnulls : Option Nulls) (rn : List String) (rc : List Arr) :
    mergeStruct (f + 1) (.struct llen lnulls ln lc) (.struct rlen rnulls rn rc)
      = mergeStructBody (mergeStruct f) llen lnulls ln lc rlen rnulls rn rc := by
  simp only [mergeStruct, mergeStructBody]
  rfl

theorem mergeStructBody_congr (g1 g2 : Arr → Arr → Res Arr) (llen : Nat) (lnulls : Option Nulls) (ln : List String)
    (lc : List Arr) (rlen : Nat) (rnulls : Option Nulls) (rn : List String) (rc : List Arr)
    (h : ∀ c ∈ lc, ∀ d, g1 (adjust c lnulls) d = g2 (adjust c lnulls) d) :
    mergeStructBody g1 llen lnulls ln lc rlen rnulls rn rc = mergeStructBody g2 llen lnulls ln lc rlen rnulls rn rc := by
  unfold mergeStructBody
  have : ∀ nc ∈ ln.zip lc, (match findCol rn rc nc.1 with
        | some rcol =>
          if isStructArr nc.2 && isStructArr rcol then
            (g1 (adjust nc.2 lnulls) (adjust rcol rnulls)).toOpt
          else if isListOfStruct nc.2 && isListOfStruct rcol && !(Ty.beq (tyOf nc.2) (tyOf rcol)) then
            Res.err "unmodelled"
          else Res.ok (some (adjust nc.2 lnulls))
        | none => Res.ok (some (adjust nc.2 lnulls)))
      = (match findCol rn rc nc.1 with
        | some rcol =>
          if isStructArr nc.2 && isStructArr rcol then
            (g2 (adjust nc.2 lnulls) (adjust rcol rnulls)).toOpt
          else if isListOfStruct nc.2 && isListOfStruct rcol && !(Ty.beq (tyOf nc.2) (tyOf rcol)) then
            Res.err "unmodelled"
          else Res.ok (some (adjust nc.2 lnulls))
        | none => Res.ok (some (adjust nc.2 lnulls))) := by
    intro nc hnc
    have hm := (List.of_mem_zip hnc).2
    cases findCol rn rc nc.1 with
    | none => rfl
    | some rcol => simp only [h nc.2 hm]
  rw [List.map_congr_left this]

/-- FUEL: `mergeStruct` with fuel above the depth of the left array gives the same result as with any larger fuel -/
theorem mergeStruct_fuel (f : Nat) : ∀ (l r : Arr) (f' : Nat), depth l + 1 ≤ f → f ≤ f' →
    mergeStruct f' l r = mergeStruct f l r := by
  induction f with
  | zero => intro l r f' h; omega
  | succ f ih =>
    intro l r f' hd hf
    obtain ⟨f'', rfl⟩ : ∃ k, f' = k + 1 := ⟨f' - 1, by omega⟩
    cases l with
    | struct llen lnulls ln lc =>
      cases r with
      | struct rlen rnulls rn rc =>
        rw [mergeStruct_succ, mergeStruct_succ]
        apply mergeStructBody_congr
        intro c hc d
        have h1 := depth_le_depthCols lc c hc
        simp only [depth] at hd
        exact ih (adjust c lnulls) d f'' (by rw [depth_adjust]; omega) (by omega)
      | prim => simp [mergeStruct]
      | list => simp [mergeStruct]
    | prim => simp [mergeStruct]
    | list => simp [mergeStruct]


theorem findKind_mem (names : List String) (cols : List Arr) (n : String) (t : Ty) (c : Arr)
    (h : findKind names cols n t = some c) : c ∈ cols := by
  induction names generalizing cols with
  | nil => simp [findKind] at h
  | cons m ms ih =>
    cases cols with
    | nil => simp [findKind] at h
    | cons d ds =>
      simp only [findKind] at h
      split at h
      · cases h; simp
      · exact List.mem_cons_of_mem _ (ih ds h)

/-- the per-field step of `merge_with_schema` with the recursive call abstracted -/
def wsHead (cellf : Ty → Arr → Arr → Res Arr) (lnulls : Option Nulls) (ln : List String) (lc : List Arr)
    (rnulls : Option Nulls) (rn : List String) (rc : List Arr) (nt : String × Ty) : Res (Option (String × Arr)) :=
  match findKind ln lc nt.1 nt.2, findKind rn rc nt.1 nt.2 with
  | none, none => .ok none
  | none, some rc => .ok (some (nt.1, adjust rc rnulls))
  | some lc, none => .ok (some (nt.1, adjust lc lnulls))
  | some lc, some rc =>
    match cellf nt.2 (adjust lc lnulls) (adjust rc rnulls) with
    | .err e => .err e
    | .ok c => .ok (some (nt.1, c))

/-- the body of `mergeWS (fuel+1)` on two structs with the recursive call abstracted -/
def mergeWSBody (cellf : Ty → Arr → Arr → Res Arr) (llen : Nat) (lnulls : Option Nulls) (lnames : List String)
    (lcols : List Arr) (rlen : Nat) (rnulls : Option Nulls) (rnames : List String) (rcols : List Arr)
    (fnames : List String) (ftys : List Ty) : Res Arr :=
  if llen ≠ rlen then .err "panic"
  else
    match seqRes ((fnames.zip ftys).map (wsHead cellf lnulls lnames lcols rnulls rnames rcols)) with
    | .err e => .err e
    | .ok ncs =>
      if lensOk (ncs.map (·.2)) llen then
        .ok (.struct llen (orNulls lnulls rnulls llen) (ncs.map (·.1)) (ncs.map (·.2)))
      else .err "panic"

/-- the body of `mergeCell (fuel+1)` with the recursive calls abstracted -/
def mergeCellBody (wsf : Arr → Arr → List String → List Ty → Res Arr) (cellf : Ty → Arr → Arr → Res Arr)
    (t : Ty) (l r : Arr) : Res Arr :=
  match t with
  | .struct sn st =>
    if isStructArr l && isStructArr r then wsf l r sn st else .err "panic"
  | .list lg item =>
    match l, r with
    | .list lg1 off len nulls offs child, .list lg2 roff rlen rnulls roffs rchild =>
      if lg1 == lg && lg2 == lg then
        if len ≠ rlen then .err "panic"
        else
          match cellf item (trimmedValues (.list lg1 off len nulls offs child))
              (trimmedValues (.list lg2 roff rlen rnulls roffs rchild)) with
          | .err e => .err e
          | .ok vals =>
            if Ty.beq (tyOf vals) item && offs.getD (off + len) 0 - offs.getD off 0 ≤ vals.len then
              .ok (.list lg 0 len (orNulls nulls rnulls len) (rebasedOffs offs off len) vals)
            else .err "panic"
      else .err "panic"
    | _, _ => .err "panic"
  | _ => .ok l

theorem mergeWS_succ (f : Nat) (llen : Nat) (lnulls : Option Nulls) (ln : List String) (lc : List Arr)
    (rlen : Nat) (rnulls : Option Nulls) (rn : List String) (rc : List Arr) (fn : List String) (ft : List Ty) :
    mergeWS (f + 1) (.struct llen lnulls ln lc) (.struct rlen rnulls rn rc) fn ft
      = mergeWSBody (mergeCell f) llen lnulls ln lc rlen rnulls rn rc fn ft := by
  simp only [mergeWS, mergeWSBody, wsHead]
  rfl

theorem mergeCell_succ (f : Nat) (t : Ty) (l r : Arr) :
    mergeCell (f + 1) t l r = mergeCellBody (mergeWS f) (mergeCell f) t l r := by
  simp only [mergeCell, mergeCellBody]
  cases t with
  | list lg item => cases l <;> cases r <;> rfl
  | _ => rfl

theorem mergeWSBody_congr (g1 g2 : Ty → Arr → Arr → Res Arr) (llen : Nat) (lnulls : Option Nulls) (ln : List String)
    (lc : List Arr) (rlen : Nat) (rnulls : Option Nulls) (rn : List String) (rc : List Arr)
    (fn : List String) (ft : List Ty)
    (h : ∀ c ∈ lc, ∀ t d, g1 t (adjust c lnulls) d = g2 t (adjust c lnulls) d) :
    mergeWSBody g1 llen lnulls ln lc rlen rnulls rn rc fn ft = mergeWSBody g2 llen lnulls ln lc rlen rnulls rn rc fn ft := by
  unfold mergeWSBody
  have : ∀ nt ∈ fn.zip ft, wsHead g1 lnulls ln lc rnulls rn rc nt = wsHead g2 lnulls ln lc rnulls rn rc nt := by
    intro nt _
    unfold wsHead
    cases hl : findKind ln lc nt.1 nt.2 with
    | none => cases findKind rn rc nt.1 nt.2 <;> rfl
    | some c =>
      have hm := findKind_mem _ _ _ _ _ hl
      cases findKind rn rc nt.1 nt.2 with
      | none => rfl
      | some d => simp only [h c hm]
  rw [List.map_congr_left this]

theorem depth_trimmedValues (lg : Bool) (off len : Nat) (nulls : Option Nulls) (offs : List Nat) (child : Arr) :
    depth (trimmedValues (.list lg off len nulls offs child)) = depth child := by
  simp [trimmedValues, depth_slice]

/-- FUEL: `mergeWS` / `mergeCell` with fuel above twice the depth of the left array give the same result as with any
    larger fuel -/
theorem mergeWS_fuel_aux (f : Nat) :
    (∀ (l r : Arr) (fn : List String) (ft : List Ty) (f' : Nat), 2 * depth l + 1 ≤ f → f ≤ f' →
      mergeWS f' l r fn ft = mergeWS f l r fn ft) ∧
    (∀ (t : Ty) (l r : Arr) (f' : Nat), 2 * depth l + 2 ≤ f → f ≤ f' → mergeCell f' t l r = mergeCell f t l r) := by
  induction f with
  | zero => exact ⟨fun _ _ _ _ _ h => by omega, fun _ _ _ _ h => by omega⟩
  | succ f ih =>
    obtain ⟨ihW, ihC⟩ := ih
    constructor
    · intro l r fn ft f' hd hf
      obtain ⟨f'', rfl⟩ : ∃ k, f' = k + 1 := ⟨f' - 1, by omega⟩
      cases l with
      | struct llen lnulls ln lc =>
        cases r with
        | struct rlen rnulls rn rc =>
          rw [mergeWS_succ, mergeWS_succ]
          apply mergeWSBody_congr
          intro c hc t d
          have h1 := depth_le_depthCols lc c hc
          simp only [depth] at hd
          exact ihC t (adjust c lnulls) d f'' (by rw [depth_adjust]; omega) (by omega)
        | prim => simp [mergeWS]
        | list => simp [mergeWS]
      | prim => simp [mergeWS]
      | list => simp [mergeWS]
    · intro t l r f' hd hf
      obtain ⟨f'', rfl⟩ : ∃ k, f' = k + 1 := ⟨f' - 1, by omega⟩
      rw [mergeCell_succ, mergeCell_succ]
      unfold mergeCellBody
      cases t with
      | struct sn st =>
        simp only
        rw [ihW l r sn st f'' (by omega) (by omega)]
      | list lg item =>
        cases l with
        | list lg1 off len nulls offs child =>
          cases r with
          | list lg2 roff rlen rnulls roffs rchild =>
            simp only
            rw [ihC item _ _ f'' (by rw [depth_trimmedValues]; simp only [depth] at hd; omega) (by omega)]
          | prim => rfl
          | struct => rfl
        | prim => rfl
        | struct => rfl
      | int => rfl
      | bool => rfl

end LanceModel.C40
