import LanceModel.C40.Model
/-
C40 base lemmas: `sub`, range maps, validity, `logical` of the kernels `slice` and `gather`.
-/
namespace LanceModel.C40

theorem logicalCols_eq_map (cols : List Arr) : logicalCols cols = cols.map logical := by
  induction cols with
  | nil => simp [logicalCols]
  | cons a as ih => simp [logicalCols, ih]

theorem tyOfCols_eq_map (cols : List Arr) : tyOfCols cols = cols.map tyOf := by
  induction cols with
  | nil => simp [tyOfCols]
  | cons a as ih => simp [tyOfCols, ih]

theorem sliceCols_eq_map (cols : List Arr) (o l : Nat) : sliceCols cols o l = cols.map (fun c => slice c o l) := by
  induction cols with
  | nil => simp [sliceCols]
  | cons a as ih => simp [sliceCols, ih]

theorem gatherCols_eq_map (cols : List Arr) (idx : List Nat) : gatherCols cols idx = cols.map (fun c => gather c idx) := by
  induction cols with
  | nil => simp [gatherCols]
  | cons a as ih => simp [gatherCols, ih]

theorem deepCopyCols_eq_map (cols : List Arr) : deepCopyCols cols = cols.map deepCopy := by
  induction cols with
  | nil => simp [deepCopyCols]
  | cons a as ih => simp [deepCopyCols, ih]

theorem wfCols_iff (cols : List Arr) (len : Nat) : wfCols cols len = true ↔ ∀ c ∈ cols, c.len = len ∧ wf c = true := by
  induction cols with
  | nil => simp [wfCols]
  | cons a as ih => simp [wfCols, ih, Bool.and_eq_true]

@[simp] theorem length_logical (a : Arr) : (logical a).length = a.len := by
  cases a <;> simp [logical, Arr.len]

/-- a window of a mapped range is the mapped, shifted range -/
theorem sub_map_range {α : Type} (f : Nat → α) (n o l : Nat) (h : o + l ≤ n) :
    sub ((List.range n).map f) o (o + l) = (List.range l).map (fun i => f (o + i)) := by
  apply List.ext_getElem
  · simp [sub]; omega
  · intro i h1 h2
    simp [sub]

theorem getD_map_range {α : Type} (f : Nat → α) (n i : Nat) (d : α) (h : i < n) :
    ((List.range n).map f).getD i d = f i := by
  simp [List.getD, h]

theorem validAt_sliceNulls (n : Option Nulls) (o i : Nat) : validAt (sliceNulls n o) i = validAt n (o + i) := by
  cases n <;> simp [sliceNulls, validAt, Nat.add_assoc]


theorem primRow_slice (nulls : Option Nulls) (off o : Nat) (vals : List Int) (i : Nat) :
    primRow (sliceNulls nulls o) (off + o) vals i = primRow nulls off vals (o + i) := by
  simp [primRow, validAt_sliceNulls, Nat.add_assoc]

theorem listRow_slice (nulls : Option Nulls) (off o : Nat) (offs : List Nat) (cv : List Value) (i : Nat) :
    listRow (sliceNulls nulls o) (off + o) offs cv i = listRow nulls off offs cv (o + i) := by
  simp [listRow, validAt_sliceNulls, Nat.add_assoc]

/-- `Array::slice`: the logical value of a slice is the window of the logical value -/
theorem logical_slice (a : Arr) (o l : Nat) (hw : wf a = true) (h : o + l ≤ a.len) :
    logical (slice a o l) = sub (logical a) o (o + l) := by
  match a with
  | .prim b off len nulls vals =>
    simp only [slice, logical, Arr.len] at *
    rw [sub_map_range _ _ _ _ h]
    apply List.map_congr_left; intro i _; exact primRow_slice ..
  | .list lg off len nulls offs child =>
    simp only [slice, logical, Arr.len] at *
    rw [sub_map_range _ _ _ _ h]
    apply List.map_congr_left; intro i _; exact listRow_slice ..
  | .struct len nulls names cols =>
    simp only [slice, logical, Arr.len] at *
    rw [sub_map_range _ _ _ _ h]
    apply List.map_congr_left; intro i hi
    have hi : i < l := by simpa using hi
    simp only [structRow, validAt_sliceNulls, logicalCols_eq_map, sliceCols_eq_map, List.map_map]
    congr 2
    apply List.map_congr_left; intro c hc
    simp only [wf, Bool.and_eq_true, wfCols_iff] at hw
    have hc' := hw.2 c hc
    have := logical_slice c o l hc'.2 (by omega)
    simp only [Function.comp, this]
    simp [sub, List.getD, hi]
termination_by sizeOf a
decreasing_by
  simp_wf
  have := List.sizeOf_lt_of_mem hc
  omega

end LanceModel.C40
