import LanceModel.C40.ProjLemmas
/-
C40: `merge` (lib.rs) is the row-wise `mergeRow` at every nesting depth (induction on the fuel of `mergeStruct`).
-/
namespace LanceModel.C40

/-- inversion of the sequential loop when every step pushes exactly one item -/
theorem seqRes_map_some {α β : Type} (f : α → Res (Option β)) (l : List α) (out : List β)
    (hf : ∀ x ∈ l, f x ≠ .ok none) (h : seqRes (l.map f) = .ok out) :
    out.length = l.length ∧ ∀ k (hk : k < l.length) (hk' : k < out.length), f l[k] = .ok (some out[k]) := by
  induction l generalizing out with
  | nil => simp [seqRes] at h; subst h; simp
  | cons x t ih =>
    simp only [List.map_cons] at h
    cases hx : f x with
    | err e => rw [hx] at h; simp [seqRes] at h
    | ok o =>
      rw [hx] at h
      simp only [seqRes] at h
      cases ht : seqRes (t.map f) with
      | err e => rw [ht] at h; simp at h
      | ok r =>
        rw [ht] at h
        cases o with
        | none => exact absurd hx (hf x (by simp))
        | some y =>
          simp at h; subst h
          obtain ⟨h1, h2⟩ := ih r (fun z hz => hf z (by simp [hz])) ht
          refine ⟨by simp [h1], ?_⟩
          intro k hk hk'
          cases k with
          | zero => simpa using hx
          | succ k => simpa using h2 k (by simpa using hk) (by simpa using hk')

theorem uniqCols_iff (cols : List Arr) : uniqCols cols = true ↔ ∀ c ∈ cols, uniq c = true := by
  induction cols with
  | nil => simp [uniqCols]
  | cons a as ih => simp [uniqCols, ih]

theorem findCol_of_mem_zip (names : List String) (cols : List Arr) (n : String) (c : Arr)
    (hn : names.Nodup) (h : (n, c) ∈ names.zip cols) : findCol names cols n = some c := by
  induction names generalizing cols with
  | nil => simp at h
  | cons m ms ih =>
    cases cols with
    | nil => simp at h
    | cons d ds =>
      simp only [List.zip_cons_cons, List.mem_cons, Prod.mk.injEq] at h
      simp only [findCol]
      rcases h with ⟨rfl, rfl⟩ | h
      · simp
      · have hne : m ≠ n := by
          intro e; subst e
          have := (List.of_mem_zip h).1
          exact (List.nodup_cons.1 hn).1 this
        simp [hne]
        exact ih ds (List.nodup_cons.1 hn).2 h

/-- row of a struct array -/
theorem row_struct (len : Nat) (nulls : Option Nulls) (names : List String) (cols : List Arr) (i : Nat) (hi : i < len) :
    (logical (.struct len nulls names cols)).getD i .null
      = if validAt nulls i then .struct names (cols.map (fun c => (logical c).getD i .null)) else .null := by
  rw [getD_logical _ i (by simpa [Arr.len] using hi)]
  simp [structRow, logicalCols_eq_map, Function.comp_def]

theorem tyOf_setNulls (c : Arr) (m : Option Nulls) : tyOf (c.setNulls m) = tyOf c := by
  cases c <;> simp [Arr.setNulls, tyOf]

theorem tyOf_adjust (c : Arr) (p : Option Nulls) : tyOf (adjust c p) = tyOf c := by
  unfold adjust; split
  · split <;> exact tyOf_setNulls _ _
  · rfl

theorem adjust_struct (len : Nat) (nulls : Option Nulls) (names : List String) (cols : List Arr) (p : Option Nulls) :
    ∃ nulls', adjust (.struct len nulls names cols) p = .struct len nulls' names cols := by
  unfold adjust; split
  · split <;> exact ⟨_, rfl⟩
  · exact ⟨_, rfl⟩


theorem uniq_setNulls (c : Arr) (m : Option Nulls) : uniq (c.setNulls m) = uniq c := by
  cases c <;> simp [Arr.setNulls, uniq]

theorem uniq_adjust (c : Arr) (p : Option Nulls) : uniq (adjust c p) = uniq c := by
  unfold adjust; split
  · split <;> exact uniq_setNulls _ _
  · rfl

theorem wf_setNulls (c : Arr) (m : Option Nulls) (hw : wf c = true) (hm : wfNulls m c.len = true) :
    wf (c.setNulls m) = true := by
  cases c <;> simp_all [Arr.setNulls, wf, Arr.len]

theorem wfNulls_andNulls (c p : Option Nulls) (len : Nat) : wfNulls (andNulls c p len) len = true := by
  simp [andNulls, wfNulls]

theorem wf_adjust (c : Arr) (p : Option Nulls) (hw : wf c = true) (hp : wfNulls p c.len = true) :
    wf (adjust c p) = true := by
  unfold adjust; split
  · split
    · exact wf_setNulls _ _ hw hp
    · exact wf_setNulls _ _ hw (wfNulls_andNulls _ _ _)
  · exact hw

theorem lookupTy_tyOfCols (rn : List String) (rc : List Arr) (n : String) :
    lookupTy rn (tyOfCols rc) n = (findCol rn rc n).map tyOf := by
  induction rn generalizing rc with
  | nil => simp [lookupTy, findCol]
  | cons m ms ih =>
    cases rc with
    | nil => simp [lookupTy, findCol, tyOfCols]
    | cons c cs =>
      simp only [tyOfCols, lookupTy, findCol]
      split
      · simp
      · exact ih cs

/-- filtering a zip by a predicate on the names -/
theorem zip_filter_map {β : Type} (names : List String) (cols : List Arr) (p : String → Bool)
    (g : String × Arr → β) (h : String → β) (hlen : names.length = cols.length)
    (hg : ∀ nc ∈ names.zip cols, g nc = h nc.1) :
    ((names.zip cols).filter (fun nc => p nc.1)).map g = (names.filter p).map h := by
  induction names generalizing cols with
  | nil => simp
  | cons n ns ih =>
    cases cols with
    | nil => simp at hlen
    | cons c cs =>
      have hlen' : ns.length = cs.length := by simpa using hlen
      have ih' := ih cs hlen' (fun nc hnc => hg nc (by simp [hnc]))
      have h0 := hg (n, c) (by simp)
      simp only [List.zip_cons_cons, List.filter_cons]
      cases hp : p n <;> simp [hp, ih', h0]

/-- the field of a struct row is the row of the (first) column with that name -/
theorem fieldV_row (len : Nat) (nulls : Option Nulls) (names : List String) (cols : List Arr) (i : Nat)
    (hi : i < len) (n : String) (c : Arr) (hn : names.Nodup) (hmem : (n, c) ∈ names.zip cols) :
    fieldV ((logical (.struct len nulls names cols)).getD i .null) n
      = if validAt nulls i then (logical c).getD i .null else .null := by
  rw [row_struct _ _ _ _ _ hi]
  split
  · simp only [fieldV]
    rw [lookupV_map, findCol_of_mem_zip _ _ _ _ hn hmem]
  · rfl

theorem isNull_row_struct (len : Nat) (nulls : Option Nulls) (names : List String) (cols : List Arr) (i : Nat)
    (hi : i < len) :
    ((logical (.struct len nulls names cols)).getD i .null).isNull = !validAt nulls i := by
  rw [row_struct _ _ _ _ _ hi]
  cases validAt nulls i <;> simp [Value.isNull]


/-- the specified value of the merged column for the left column named `n` of type `t` -/
def leftCell (rn : List String) (rt : List Ty) (lv rv : Value) (n : String) (t : Ty) : Value :=
  match t, lookupTy rn rt n with
  | .struct sn st, some (.struct rsn rst) => mergeRow rsn rst sn st (fieldV lv n) (fieldV rv n)
  | _, _ => fieldV lv n

theorem mergeVals_eq_map (rn : List String) (rt : List Ty) (lv rv : Value) (ln : List String) (lt : List Ty) :
    mergeVals rn rt lv rv ln lt = (ln.zip lt).map (fun p => leftCell rn rt lv rv p.1 p.2) := by
  induction ln generalizing lt with
  | nil => simp [mergeVals]
  | cons n ns ih =>
    cases lt with
    | nil => simp [mergeVals]
    | cons t ts =>
      conv => lhs; unfold mergeVals
      simp only [List.zip_cons_cons, List.map_cons, ih ts]
      congr 1

theorem isStructArr_iff (a : Arr) : isStructArr a = true ↔ ∃ len nulls ns cs, a = .struct len nulls ns cs := by
  cases a <;> simp [isStructArr]

theorem leftCell_nonstruct_left (rn : List String) (rt : List Ty) (lv rv : Value) (n : String) (t : Ty)
    (h : t.isStruct = false) : leftCell rn rt lv rv n t = fieldV lv n := by
  unfold leftCell
  cases t <;> simp_all [Ty.isStruct]

theorem leftCell_nonstruct_right (rn : List String) (rt : List Ty) (lv rv : Value) (n : String) (t : Ty)
    (h : ∀ u, lookupTy rn rt n = some u → u.isStruct = false) : leftCell rn rt lv rv n t = fieldV lv n := by
  unfold leftCell
  cases t with
  | struct sn st =>
    cases hl : lookupTy rn rt n with
    | none => rfl
    | some u =>
      have := h u hl
      cases u <;> simp_all [Ty.isStruct]
  | _ => rfl

theorem isStruct_tyOf (a : Arr) : (tyOf a).isStruct = isStructArr a := by
  cases a with
  | prim b _ _ _ _ => cases b <;> rfl
  | list => rfl
  | struct => rfl


theorem findCol_mem_zip (names : List String) (cols : List Arr) (n : String) (c : Arr)
    (h : findCol names cols n = some c) : (n, c) ∈ names.zip cols := by
  induction names generalizing cols with
  | nil => simp [findCol] at h
  | cons m ms ih =>
    cases cols with
    | nil => simp [findCol] at h
    | cons d ds =>
      simp only [findCol] at h
      split at h
      · rename_i e; cases h; subst e; simp
      · simp only [List.zip_cons_cons, List.mem_cons]; exact Or.inr (ih ds h)

theorem length_tyOfCols (cols : List Arr) : (tyOfCols cols).length = cols.length := by
  rw [tyOfCols_eq_map]; simp

theorem getElem_tyOfCols (cols : List Arr) (k : Nat) (h : k < (tyOfCols cols).length) :
    (tyOfCols cols)[k] = tyOf (cols[k]'(by rwa [length_tyOfCols] at h)) := by
  simp [tyOfCols_eq_map]

theorem mem_of_mem_zip_right (names : List String) (cols : List Arr) (n : String) (c : Arr)
    (h : (n, c) ∈ names.zip cols) : c ∈ cols := (List.of_mem_zip h).2

/-- `merge`: every row of the merged struct array is the row-wise `mergeRow` of the two input rows -/
theorem mergeStruct_spec (fuel : Nat) :
    ∀ (llen : Nat) (lnulls : Option Nulls) (ln : List String) (lc : List Arr)
      (rlen : Nat) (rnulls : Option Nulls) (rn : List String) (rc : List Arr) (m : Arr),
      wf (.struct llen lnulls ln lc) = true → wf (.struct rlen rnulls rn rc) = true →
      uniq (.struct llen lnulls ln lc) = true → uniq (.struct rlen rnulls rn rc) = true →
      mergeStruct fuel (.struct llen lnulls ln lc) (.struct rlen rnulls rn rc) = .ok m →
      ∀ i, i < llen → (logical m).getD i .null
        = mergeRow rn (tyOfCols rc) ln (tyOfCols lc)
            ((logical (.struct llen lnulls ln lc)).getD i .null) ((logical (.struct rlen rnulls rn rc)).getD i .null) := by
  induction fuel with
  | zero => intro _ _ _ _ _ _ _ _ _ _ _ _ _ h; simp [mergeStruct] at h
  | succ fuel ih =>
    intro llen lnulls ln lc rlen rnulls rn rc m hwl hwr hul hur h i hi
    simp only [mergeStruct] at h
    split at h
    · cases h
    rename_i hlen
    have hlen : llen = rlen := by simpa using hlen
    subst hlen
    split at h
    · cases h
    rename_i lc' hseq
    cases h
    -- facts about the inputs
    simp only [wf, Bool.and_eq_true, wfCols_iff, beq_iff_eq] at hwl hwr
    obtain ⟨⟨hwln, hlnlen⟩, hwlc⟩ := hwl
    obtain ⟨⟨hwrn, hrnlen⟩, hwrc⟩ := hwr
    simp only [uniq, Bool.and_eq_true, uniqCols_iff, decide_eq_true_eq] at hul hur
    obtain ⟨hlnd, hulc⟩ := hul
    obtain ⟨hrnd, hurc⟩ := hur
    -- the left loop
    have hsome : ∀ x ∈ ln.zip lc, (match findCol rn rc x.1 with
          | some rcol =>
            if (isStructArr x.2 && isStructArr rcol) = true then
              (mergeStruct fuel (adjust x.2 lnulls) (adjust rcol rnulls)).toOpt
            else if (isListOfStruct x.2 && isListOfStruct rcol && !(Ty.beq (tyOf x.2) (tyOf rcol))) = true then
              Res.err "unmodelled"
            else Res.ok (some (adjust x.2 lnulls))
          | none => Res.ok (some (adjust x.2 lnulls))) ≠ Res.ok none := by
      intro x _
      split
      · split
        · cases mergeStruct fuel (adjust x.2 lnulls) (adjust _ rnulls) <;> simp [Res.toOpt]
        · split <;> simp
      · simp
    obtain ⟨hlc'len, hlc'⟩ := seqRes_map_some _ _ _ hsome hseq
    -- abbreviations are avoided on purpose: rows of the inputs
    have hrowR : ∀ nc ∈ rn.zip rc, (logical (adjust nc.2 rnulls)).getD i .null
        = fieldV ((logical (.struct llen rnulls rn rc)).getD i .null) nc.1 := by
      intro nc hnc
      have hc := hwrc nc.2 (List.of_mem_zip hnc).2
      rw [adjust_spec _ _ _ (by omega), fieldV_row _ _ _ _ _ hi nc.1 nc.2 hrnd hnc]
    have hrowL : ∀ nc ∈ ln.zip lc, (logical (adjust nc.2 lnulls)).getD i .null
        = fieldV ((logical (.struct llen lnulls ln lc)).getD i .null) nc.1 := by
      intro nc hnc
      have hc := hwlc nc.2 (List.of_mem_zip hnc).2
      rw [adjust_spec _ _ _ (by omega), fieldV_row _ _ _ _ _ hi nc.1 nc.2 hlnd hnc]
    have hN : ((rn.zip rc).filter (fun nc => !ln.contains nc.1)).map (fun nc => nc.1)
        = rn.filter (fun n => !ln.contains n) := by
      have := zip_filter_map rn rc (fun n => !ln.contains n) (fun nc => nc.1) id hrnlen (by intros; rfl)
      simpa using this
    have hR : (((rn.zip rc).filter (fun nc => !ln.contains nc.1)).map (fun nc => adjust nc.2 rnulls)).map
          (fun c => (logical c).getD i .null)
        = (rn.filter (fun n => !ln.contains n)).map (fieldV ((logical (.struct llen rnulls rn rc)).getD i .null)) := by
      rw [List.map_map]
      exact zip_filter_map rn rc (fun n => !ln.contains n) _ _ hrnlen (fun nc hnc => hrowR nc hnc)
    have hL : lc'.map (fun c => (logical c).getD i .null)
        = mergeVals rn (tyOfCols rc) ((logical (.struct llen lnulls ln lc)).getD i .null)
            ((logical (.struct llen rnulls rn rc)).getD i .null) ln (tyOfCols lc) := by
      rw [mergeVals_eq_map]
      apply List.ext_getElem
      · simp [hlc'len, length_tyOfCols]
      · intro k h1 h2
        have hk : k < (ln.zip lc).length := by simpa [hlc'len] using h1
        have hk' : k < lc'.length := by simpa using h1
        have hkl : k < ln.length := by simp at hk; omega
        have hkc : k < lc.length := by simp at hk; omega
        have hstep := hlc' k hk hk'
        have hzk : (ln.zip lc)[k] = (ln[k], lc[k]) := by simp
        have hmem : (ln[k], lc[k]) ∈ ln.zip lc := by rw [← hzk]; exact List.getElem_mem hk
        rw [hzk] at hstep
        simp only [List.getElem_map, List.getElem_zip, getElem_tyOfCols]
        have hadjL := hrowL _ hmem
        simp only at hadjL hstep
        have hcw := hwlc lc[k] (List.getElem_mem hkc)
        cases hf : findCol rn rc ln[k] with
        | none =>
          rw [hf] at hstep
          simp only [Res.ok.injEq, Option.some.injEq] at hstep
          rw [← hstep, hadjL]
          exact (leftCell_nonstruct_right _ _ _ _ _ _ (by
            intro u hu; rw [lookupTy_tyOfCols, hf] at hu; simp at hu)).symm
        | some rcol =>
          rw [hf] at hstep
          simp only at hstep
          have hrmem := findCol_mem_zip _ _ _ _ hf
          have hrw := hwrc rcol (List.of_mem_zip hrmem).2
          have hadjR := hrowR _ hrmem
          simp only at hadjR
          have hlook : lookupTy rn (tyOfCols rc) ln[k] = some (tyOf rcol) := by rw [lookupTy_tyOfCols, hf]; rfl
          split at hstep
          · rename_i hs
            simp only [Bool.and_eq_true] at hs
            obtain ⟨cl, cnl, csn, csc, hce⟩ := (isStructArr_iff _).1 hs.1
            obtain ⟨rl, rnl, rsn, rsc, hre⟩ := (isStructArr_iff _).1 hs.2
            have hms : mergeStruct fuel (adjust lc[k] lnulls) (adjust rcol rnulls) = .ok lc'[k] := by
              cases hm : mergeStruct fuel (adjust lc[k] lnulls) (adjust rcol rnulls) with
              | err e => rw [hm] at hstep; simp [Res.toOpt] at hstep
              | ok v => rw [hm] at hstep; simp [Res.toOpt] at hstep; rw [hstep]
            have hwa := wf_adjust lc[k] lnulls hcw.2 (by rw [hcw.1]; exact hwln)
            have hwb := wf_adjust rcol rnulls hrw.2 (by rw [hrw.1]; exact hwrn)
            have hua : uniq (adjust lc[k] lnulls) = true := by
              rw [uniq_adjust]; exact hulc _ (List.getElem_mem hkc)
            have hub : uniq (adjust rcol rnulls) = true := by
              rw [uniq_adjust]; exact hurc _ (List.of_mem_zip hrmem).2
            rw [hce] at hms hwa hua hadjL hcw
            rw [hre] at hms hwb hub hadjR hrw
            obtain ⟨cnl', hae⟩ := adjust_struct cl cnl csn csc lnulls
            obtain ⟨rnl', hbe⟩ := adjust_struct rl rnl rsn rsc rnulls
            rw [hae] at hms hwa hua hadjL
            rw [hbe] at hms hwb hub hadjR
            have hcl : cl = llen := by simpa [Arr.len] using hcw.1
            have := ih cl cnl' csn csc rl rnl' rsn rsc lc'[k] hwa hwb hua hub hms i (by omega)
            rw [this, hadjL, hadjR, hce]
            unfold leftCell
            rw [hlook, hre]
            simp [tyOf]
          · rename_i hs
            split at hstep
            · cases hstep
            · simp only [Res.ok.injEq, Option.some.injEq] at hstep
              rw [← hstep, hadjL]
              have hs' : (isStructArr lc[k] && isStructArr rcol) = false := by simpa using hs
              simp only [Bool.and_eq_false_iff] at hs'
              rcases hs' with hs' | hs'
              · exact (leftCell_nonstruct_left _ _ _ _ _ _ (by rw [isStruct_tyOf]; exact hs')).symm
              · exact (leftCell_nonstruct_right _ _ _ _ _ _ (by
                  intro u hu; rw [hlook] at hu; cases hu; rw [isStruct_tyOf]; exact hs')).symm
    -- assemble the row
    rw [row_struct _ _ _ _ _ hi]
    conv => rhs; unfold mergeRow
    rw [isNull_row_struct _ _ _ _ _ hi, isNull_row_struct _ _ _ _ _ hi, orNulls_spec _ _ _ _ hi]
    rw [List.map_append, hL, hR, hN]
    cases validAt lnulls i <;> cases validAt rnulls i <;> simp


/-- `RecordBatchExt::merge`: the merged batch is the row-wise merge of the two batches -/
theorem logical_mergeBatch (llen : Nat) (lnulls : Option Nulls) (ln : List String) (lc : List Arr)
    (rlen : Nat) (rnulls : Option Nulls) (rn : List String) (rc : List Arr) (m : Arr)
    (hwl : wf (.struct llen lnulls ln lc) = true) (hwr : wf (.struct rlen rnulls rn rc) = true)
    (hul : uniq (.struct llen lnulls ln lc) = true) (hur : uniq (.struct rlen rnulls rn rc) = true)
    (h : mergeBatch (.struct llen lnulls ln lc) (.struct rlen rnulls rn rc) = .ok m) :
    logical m = (List.range llen).map (fun i =>
      mergeRow rn (tyOfCols rc) ln (tyOfCols lc)
        ((logical (.struct llen lnulls ln lc)).getD i .null) ((logical (.struct rlen rnulls rn rc)).getD i .null)) := by
  unfold mergeBatch at h
  split at h
  · cases h
  · split at h
    · cases h
    · have hlen : m.len = llen := (mergeStruct_validity 64 _ _ m h).1
      have hrows := mergeStruct_spec 64 llen lnulls ln lc rlen rnulls rn rc m hwl hwr hul hur h
      have := map_getD_range_self (logical m) Value.null
      rw [length_logical, hlen] at this
      rw [← this]
      apply map_range_congr
      intro i hi
      exact hrows i hi

end LanceModel.C40
