import LanceModel.C40.FuelLemmas
/-
C40: `merge_with_schema` (lib.rs) is the row-wise `mwsRow` on its specified region (struct / leaf reference fields and
list fields present on one side only), at every nesting depth.
-/
namespace LanceModel.C40

theorem findKindTy_tyOfCols (ln : List String) (lc : List Arr) (n : String) (t : Ty) :
    findKindTy ln (tyOfCols lc) n t = (findKind ln lc n t).map tyOf := by
  induction ln generalizing lc with
  | nil => simp [findKindTy, findKind]
  | cons m ms ih =>
    cases lc with
    | nil => simp [findKindTy, findKind, tyOfCols]
    | cons c cs =>
      simp only [tyOfCols, findKindTy, findKind]
      split
      · simp
      · exact ih cs

theorem findKind_mem_zip (names : List String) (cols : List Arr) (n : String) (t : Ty) (c : Arr)
    (h : findKind names cols n t = some c) : (n, c) ∈ names.zip cols := by
  induction names generalizing cols with
  | nil => simp [findKind] at h
  | cons m ms ih =>
    cases cols with
    | nil => simp [findKind] at h
    | cons d ds =>
      simp only [findKind] at h
      split at h
      · rename_i e
        simp only [Bool.and_eq_true, decide_eq_true_eq] at e
        cases h; rw [e.1]; simp
      · simp only [List.zip_cons_cons, List.mem_cons]; exact Or.inr (ih ds h)

theorem row_adjust_field (len : Nat) (nulls : Option Nulls) (names : List String) (cols : List Arr) (i : Nat)
    (hi : i < len) (hcols : ∀ c ∈ cols, c.len = len ∧ wf c = true) (hnd : names.Nodup) (n : String) (c : Arr)
    (hmem : (n, c) ∈ names.zip cols) :
    (logical (adjust c nulls)).getD i .null = fieldV ((logical (.struct len nulls names cols)).getD i .null) n := by
  have hc := hcols c (List.of_mem_zip hmem).2
  rw [adjust_spec _ _ _ (by omega), fieldV_row _ _ _ _ _ hi n c hnd hmem]

/-- the `for field in fields` loop of `merge_with_schema`, one row: the produced columns are the specified field values -/
theorem wsFields_spec (cellf : Ty → Arr → Arr → Res Arr) (llen : Nat) (lnulls : Option Nulls) (ln : List String)
    (lc : List Arr) (rnulls : Option Nulls) (rn : List String) (rc : List Arr) (i : Nat) (hi : i < llen)
    (hwlc : ∀ c ∈ lc, c.len = llen ∧ wf c = true) (hwrc : ∀ c ∈ rc, c.len = llen ∧ wf c = true)
    (hlnd : ln.Nodup) (hrnd : rn.Nodup)
    (hcell : ∀ (n : String) (sn : List String) (st : List Ty) (a b c : Arr),
      (n, a) ∈ ln.zip lc → (n, b) ∈ rn.zip rc →
      cellf (.struct sn st) (adjust a lnulls) (adjust b rnulls) = .ok c →
      ∀ lsn lst rsn rst, tyOf a = .struct lsn lst → tyOf b = .struct rsn rst →
      ∀ v, rowOf (fieldV ((logical (.struct llen lnulls ln lc)).getD i .null) n)
              (fieldV ((logical (.struct llen rnulls rn rc)).getD i .null) n)
              (mwsVals lsn lst rsn rst (fieldV ((logical (.struct llen lnulls ln lc)).getD i .null) n)
                (fieldV ((logical (.struct llen rnulls rn rc)).getD i .null) n) sn st) = some v →
        (logical c).getD i .null = v)
    (hleaf : ∀ (t : Ty) (a b c : Arr), (t = .int ∨ t = .bool) → cellf t a b = .ok c → c = a)
    (hstructOnly : ∀ (sn : List String) (st : List Ty) (a b c : Arr),
      cellf (.struct sn st) a b = .ok c → isStructArr a = true ∧ isStructArr b = true) :
    ∀ (fn : List String) (ft : List Ty) (ncs : List (String × Arr)),
      seqRes ((fn.zip ft).map (wsHead cellf lnulls ln lc rnulls rn rc)) = .ok ncs →
      ∀ nvs, mwsVals ln (tyOfCols lc) rn (tyOfCols rc) ((logical (.struct llen lnulls ln lc)).getD i .null)
          ((logical (.struct llen rnulls rn rc)).getD i .null) fn ft = some nvs →
        ncs.map (fun nc => (nc.1, (logical nc.2).getD i .null)) = nvs := by
  intro fn
  induction fn with
  | nil =>
    intro ft ncs hseq nvs hv
    simp [seqRes] at hseq; subst hseq
    cases ft <;> simp [mwsVals] at hv <;> subst hv <;> rfl
  | cons n ns ih =>
    intro ft ncs hseq nvs hv
    cases ft with
    | nil =>
      simp [seqRes] at hseq; subst hseq
      simp [mwsVals] at hv; subst hv; rfl
    | cons t ts =>
      simp only [List.zip_cons_cons, List.map_cons] at hseq
      cases hh : wsHead cellf lnulls ln lc rnulls rn rc (n, t) with
      | err e => rw [hh] at hseq; simp [seqRes] at hseq
      | ok h =>
        rw [hh] at hseq
        simp only [seqRes] at hseq
        cases hr : seqRes ((ns.zip ts).map (wsHead cellf lnulls ln lc rnulls rn rc)) with
        | err e => rw [hr] at hseq; simp at hseq
        | ok r =>
          rw [hr] at hseq
          rw [mwsVals] at hv
          cases hrest : mwsVals ln (tyOfCols lc) rn (tyOfCols rc) ((logical (.struct llen lnulls ln lc)).getD i .null)
              ((logical (.struct llen rnulls rn rc)).getD i .null) ns ts with
          | none => rw [hrest] at hv; simp at hv
          | some rest =>
            rw [hrest] at hv
            have ihr := ih ts r hr rest hrest
            simp only [findKindTy_tyOfCols] at hv
            unfold wsHead at hh
            simp only at hh
            simp only at hseq
            cases hl : findKind ln lc n t with
            | none =>
              cases hr2 : findKind rn rc n t with
              | none =>
                rw [hl, hr2] at hh hv
                simp only [Option.map_none, Res.ok.injEq, Option.some.injEq] at hh hv
                subst hh
                simp only [Res.ok.injEq] at hseq
                subst hseq; subst hv; exact ihr
              | some b =>
                rw [hl, hr2] at hh hv
                simp only [Option.map_none, Option.map_some, Res.ok.injEq, Option.some.injEq] at hh hv
                subst hh
                simp only [Res.ok.injEq] at hseq
                subst hseq; subst hv
                simp only [List.map_cons, ihr]
                rw [row_adjust_field llen rnulls rn rc i hi hwrc hrnd n b (findKind_mem_zip _ _ _ _ _ hr2)]
            | some a =>
              have hma := findKind_mem_zip _ _ _ _ _ hl
              cases hr2 : findKind rn rc n t with
              | none =>
                rw [hl, hr2] at hh hv
                simp only [Option.map_none, Option.map_some, Res.ok.injEq, Option.some.injEq] at hh hv
                subst hh
                simp only [Res.ok.injEq] at hseq
                subst hseq; subst hv
                simp only [List.map_cons, ihr]
                rw [row_adjust_field llen lnulls ln lc i hi hwlc hlnd n a hma]
              | some b =>
                have hmb := findKind_mem_zip _ _ _ _ _ hr2
                rw [hl, hr2] at hh hv
                simp only [Option.map_some] at hh hv
                cases hc : cellf t (adjust a lnulls) (adjust b rnulls) with
                | err e => rw [hc] at hh; simp at hh
                | ok c =>
                  rw [hc] at hh
                  simp only [Res.ok.injEq] at hh
                  subst hh
                  simp only [Res.ok.injEq] at hseq
                  subst hseq
                  cases t with
                  | struct sn st =>
                    obtain ⟨hsa, hsb⟩ := hstructOnly sn st _ _ c hc
                    have hta : (tyOf a).isStruct = true := by
                      rw [← tyOf_adjust a lnulls, isStruct_tyOf]; exact hsa
                    have htb : (tyOf b).isStruct = true := by
                      rw [← tyOf_adjust b rnulls, isStruct_tyOf]; exact hsb
                    cases hta' : tyOf a with
                    | struct lsn lst =>
                      cases htb' : tyOf b with
                      | struct rsn rst =>
                        rw [hta', htb'] at hv
                        simp only at hv
                        cases hro : rowOf (fieldV ((logical (.struct llen lnulls ln lc)).getD i .null) n)
                            (fieldV ((logical (.struct llen rnulls rn rc)).getD i .null) n)
                            (mwsVals lsn lst rsn rst (fieldV ((logical (.struct llen lnulls ln lc)).getD i .null) n)
                              (fieldV ((logical (.struct llen rnulls rn rc)).getD i .null) n) sn st) with
                        | none => rw [hro] at hv; simp at hv
                        | some v =>
                          rw [hro] at hv
                          simp only [Option.some.injEq] at hv
                          subst hv
                          simp only [List.map_cons, ihr]
                          rw [hcell n sn st a b c hma hmb hc lsn lst rsn rst hta' htb' v hro]
                      | int => rw [htb'] at htb; simp [Ty.isStruct] at htb
                      | bool => rw [htb'] at htb; simp [Ty.isStruct] at htb
                      | list => rw [htb'] at htb; simp [Ty.isStruct] at htb
                    | int => rw [hta'] at hta; simp [Ty.isStruct] at hta
                    | bool => rw [hta'] at hta; simp [Ty.isStruct] at hta
                    | list => rw [hta'] at hta; simp [Ty.isStruct] at hta
                  | list lg it => simp at hv
                  | int =>
                    simp only [Option.some.injEq] at hv
                    subst hv
                    have := hleaf .int _ _ c (Or.inl rfl) hc
                    subst this
                    simp only [List.map_cons, ihr]
                    rw [row_adjust_field llen lnulls ln lc i hi hwlc hlnd n a hma]
                  | bool =>
                    simp only [Option.some.injEq] at hv
                    subst hv
                    have := hleaf .bool _ _ c (Or.inr rfl) hc
                    subst this
                    simp only [List.map_cons, ihr]
                    rw [row_adjust_field llen lnulls ln lc i hi hwlc hlnd n a hma]


theorem isStructArr_adjust (c : Arr) (p : Option Nulls) : isStructArr (adjust c p) = isStructArr c := by
  rw [← isStruct_tyOf, tyOf_adjust, isStruct_tyOf]

theorem mergeCell_leaf (f : Nat) (t : Ty) (a b c : Arr) (ht : t = .int ∨ t = .bool) (h : mergeCell f t a b = .ok c) :
    c = a := by
  cases f with
  | zero => simp [mergeCell] at h
  | succ f =>
    rcases ht with rfl | rfl <;> simp [mergeCell] at h <;> exact h.symm

theorem mergeCell_struct (f : Nat) (sn : List String) (st : List Ty) (a b c : Arr)
    (h : mergeCell f (.struct sn st) a b = .ok c) :
    isStructArr a = true ∧ isStructArr b = true ∧ ∃ f0, f = f0 + 1 ∧ mergeWS f0 a b sn st = .ok c := by
  cases f with
  | zero => simp [mergeCell] at h
  | succ f =>
    simp only [mergeCell] at h
    split at h
    · rename_i hs
      simp only [Bool.and_eq_true] at hs
      exact ⟨hs.1, hs.2, f, rfl, h⟩
    · cases h

/-- what `merge_with_schema` with fuel `f` is specified to return -/
def WSpecAt (f : Nat) : Prop :=
  ∀ (llen : Nat) (lnulls : Option Nulls) (ln : List String) (lc : List Arr)
    (rlen : Nat) (rnulls : Option Nulls) (rn : List String) (rc : List Arr) (fn : List String) (ft : List Ty) (m : Arr),
    wf (.struct llen lnulls ln lc) = true → wf (.struct rlen rnulls rn rc) = true →
    uniq (.struct llen lnulls ln lc) = true → uniq (.struct rlen rnulls rn rc) = true →
    mergeWS f (.struct llen lnulls ln lc) (.struct rlen rnulls rn rc) fn ft = .ok m →
    ∀ i, i < llen → ∀ v,
      mwsRow ln (tyOfCols lc) rn (tyOfCols rc) fn ft ((logical (.struct llen lnulls ln lc)).getD i .null)
        ((logical (.struct rlen rnulls rn rc)).getD i .null) = some v →
      (logical m).getD i .null = v

theorem mergeWS_spec_le (f : Nat) : ∀ k, k ≤ f → WSpecAt k := by
  induction f with
  | zero =>
    intro k hk
    have : k = 0 := by omega
    subst this
    intro _ _ _ _ _ _ _ _ _ _ _ _ _ _ _ h
    simp [mergeWS] at h
  | succ f ih =>
    intro k hk
    by_cases hkf : k ≤ f
    · exact ih k hkf
    have : k = f + 1 := by omega
    subst this
    intro llen lnulls ln lc rlen rnulls rn rc fn ft m hwl hwr hul hur h i hi v hv
    rw [mergeWS_succ] at h
    unfold mergeWSBody at h
    split at h
    · cases h
    rename_i hlen
    have hlen : llen = rlen := by simpa using hlen
    subst hlen
    split at h
    · cases h
    rename_i ncs hseq
    split at h
    all_goals try (cases h; done)
    cases h
    simp only [wf, Bool.and_eq_true, wfCols_iff, beq_iff_eq] at hwl hwr
    obtain ⟨⟨hwln, hlnlen⟩, hwlc⟩ := hwl
    obtain ⟨⟨hwrn, hrnlen⟩, hwrc⟩ := hwr
    simp only [uniq, Bool.and_eq_true, uniqCols_iff, decide_eq_true_eq] at hul hur
    obtain ⟨hlnd, hulc⟩ := hul
    obtain ⟨hrnd, hurc⟩ := hur
    have hfields := wsFields_spec (mergeCell f) llen lnulls ln lc rnulls rn rc i hi hwlc hwrc hlnd hrnd
      (by
        intro n sn st a b c hma hmb hc lsn lst rsn rst hta htb v' hv'
        obtain ⟨hsa, hsb, f0, hf0, hws⟩ := mergeCell_struct f sn st _ _ c hc
        have hac := hwlc a (List.of_mem_zip hma).2
        have hbc := hwrc b (List.of_mem_zip hmb).2
        have hwa := wf_adjust a lnulls hac.2 (by rw [hac.1]; exact hwln)
        have hwb := wf_adjust b rnulls hbc.2 (by rw [hbc.1]; exact hwrn)
        have hua : uniq (adjust a lnulls) = true := by rw [uniq_adjust]; exact hulc _ (List.of_mem_zip hma).2
        have hub : uniq (adjust b rnulls) = true := by rw [uniq_adjust]; exact hurc _ (List.of_mem_zip hmb).2
        have hra := row_adjust_field llen lnulls ln lc i hi hwlc hlnd n a hma
        have hrb := row_adjust_field llen rnulls rn rc i hi hwrc hrnd n b hmb
        cases a with
        | struct al anl asn asc =>
          cases b with
          | struct bl bnl bsn bsc =>
            simp only [tyOf, Ty.struct.injEq] at hta htb
            obtain ⟨rfl, rfl⟩ := hta
            obtain ⟨rfl, rfl⟩ := htb
            obtain ⟨anl', hae⟩ := adjust_struct al anl asn asc lnulls
            obtain ⟨bnl', hbe⟩ := adjust_struct bl bnl bsn bsc rnulls
            rw [hae] at hws hwa hua hra
            rw [hbe] at hws hwb hub hrb
            have hal : al = llen := by simpa [Arr.len] using hac.1
            have := ih f0 (by omega) al anl' asn asc bl bnl' bsn bsc sn st c hwa hwb hua hub hws i (by omega) v'
            apply this
            unfold mwsRow
            rw [hra, hrb]
            exact hv'
          | prim => simp [tyOf] at htb; split at htb <;> cases htb
          | list => simp [tyOf] at htb
        | prim => simp [tyOf] at hta; split at hta <;> cases hta
        | list => simp [tyOf] at hta)
      (fun t a b c ht hc => mergeCell_leaf f t a b c ht hc)
      (fun sn st a b c hc => ⟨(mergeCell_struct f sn st a b c hc).1, (mergeCell_struct f sn st a b c hc).2.1⟩)
      fn ft ncs hseq
    rw [row_struct _ _ _ _ _ hi, orNulls_spec _ _ _ _ hi]
    unfold mwsRow rowOf at hv
    rw [isNull_row_struct _ _ _ _ _ hi, isNull_row_struct _ _ _ _ _ hi] at hv
    cases hvl : validAt lnulls i <;> cases hvr : validAt rnulls i <;> simp only [hvl, hvr] at hv ⊢
    · simp at hv; simp [hv]
    all_goals
      simp only [Bool.not_true, Bool.not_false, Bool.and_false, Bool.false_and, Bool.false_eq_true, if_false,
        Bool.or_true, Bool.true_or, Bool.or_false, if_true] at hv ⊢
      cases hm : mwsVals ln (tyOfCols lc) rn (tyOfCols rc) ((logical (.struct llen lnulls ln lc)).getD i .null)
          ((logical (.struct llen rnulls rn rc)).getD i .null) fn ft with
      | none => rw [hm] at hv; simp at hv
      | some nvs =>
        rw [hm] at hv
        simp only [Option.some.injEq] at hv
        rw [← hv, ← hfields nvs hm]
        simp [List.map_map, Function.comp_def]

/-- entry `i` of a well-formed list array is the window `[o_i - o_0, o_{i+1} - o_0)` of its trimmed values -/
theorem entry_eq_trimmed_window (lg : Bool) (off len : Nat) (nulls : Option Nulls) (offs : List Nat) (child : Arr)
    (hw : wf (.list lg off len nulls offs child) = true) (i : Nat) (hi : i < len) :
    sub (logical child) (offs.getD (off + i) 0) (offs.getD (off + i + 1) 0)
      = sub (logical (trimmedValues (.list lg off len nulls offs child)))
          ((rebasedOffs offs off len).getD i 0) ((rebasedOffs offs off len).getD (i + 1) 0) := by
  obtain ⟨hm, hl, hwc, _⟩ := wf_list_parts _ _ _ _ _ _ hw
  rw [logical_trimmedValues _ _ _ _ _ _ hw, getD_rebasedOffs _ _ _ _ (by omega), getD_rebasedOffs _ _ _ _ (by omega)]
  simp only [← Nat.add_assoc]
  have h0 := mono_le offs off len hm 0 i (by omega) (by omega)
  have h1 := (monoOffs_iff _ _ _).1 hm i hi
  have h2 := mono_le offs off len hm (i + 1) len (by omega) (by omega)
  simp only [Nat.add_zero] at h0
  have e1 : off + (i + 1) = off + i + 1 := by omega
  rw [e1] at h2
  rw [sub_sub _ _ _ _ _ (by omega) (by simpa using hl)]
  have e2 : offs.getD off 0 + (offs.getD (off + i) 0 - offs.getD off 0) = offs.getD (off + i) 0 := by omega
  have e3 : offs.getD off 0 + (offs.getD (off + i + 1) 0 - offs.getD off 0) = offs.getD (off + i + 1) 0 := by omega
  rw [e2, e3]

/-- the LIST arm of `merge_with_schema` / `merge_list_child_values`: the merged list column has the rows of the inputs, is
    NULL where both are NULL, and its entry `i` is the window `[a_i, b_i)` of the recursively merged values, where the same
    window of the trimmed values of the left / right list is entry `i` of the left / right list (the latter for inputs with
    the same entry lengths, `rebasedOffs` equal). -/
theorem mergeCell_list_spec (f : Nat) (lg : Bool) (item : Ty)
    (lg1 : Bool) (off len : Nat) (nulls : Option Nulls) (offs : List Nat) (child : Arr)
    (lg2 : Bool) (roff rlen : Nat) (rnulls : Option Nulls) (roffs : List Nat) (rchild : Arr) (c : Arr)
    (hwl : wf (.list lg1 off len nulls offs child) = true) (hwr : wf (.list lg2 roff rlen rnulls roffs rchild) = true)
    (h : mergeCell (f + 1) (.list lg item) (.list lg1 off len nulls offs child)
          (.list lg2 roff rlen rnulls roffs rchild) = .ok c) :
    rlen = len ∧ c.len = len ∧
    ∃ vals, mergeCell f item (trimmedValues (.list lg1 off len nulls offs child))
        (trimmedValues (.list lg2 roff rlen rnulls roffs rchild)) = .ok vals ∧
      ∀ i, i < len →
        (logical c).getD i .null =
          (if validAt nulls i || validAt rnulls i then
            .list (sub (logical vals) ((rebasedOffs offs off len).getD i 0) ((rebasedOffs offs off len).getD (i + 1) 0))
           else .null)
        ∧ sub (logical child) (offs.getD (off + i) 0) (offs.getD (off + i + 1) 0)
            = sub (logical (trimmedValues (.list lg1 off len nulls offs child)))
                ((rebasedOffs offs off len).getD i 0) ((rebasedOffs offs off len).getD (i + 1) 0)
        ∧ (rebasedOffs roffs roff rlen = rebasedOffs offs off len →
            sub (logical rchild) (roffs.getD (roff + i) 0) (roffs.getD (roff + i + 1) 0)
              = sub (logical (trimmedValues (.list lg2 roff rlen rnulls roffs rchild)))
                  ((rebasedOffs offs off len).getD i 0) ((rebasedOffs offs off len).getD (i + 1) 0)) := by
  rw [mergeCell_succ] at h
  unfold mergeCellBody at h
  simp only at h
  split at h
  all_goals try (cases h; done)
  split at h
  · cases h
  rename_i hlen
  have hlen : len = rlen := by simpa using hlen
  subst hlen
  split at h
  · cases h
  rename_i vals hvals
  split at h
  all_goals try (cases h; done)
  cases h
  refine ⟨rfl, rfl, vals, hvals, ?_⟩
  intro i hi
  refine ⟨?_, entry_eq_trimmed_window _ _ _ _ _ _ hwl i hi, ?_⟩
  · rw [getD_logical _ i (by simpa [Arr.len] using hi)]
    simp only [listRow, Nat.zero_add, orNulls_spec _ _ _ _ hi]
  · intro hsame
    rw [← hsame]
    exact entry_eq_trimmed_window _ _ _ _ _ _ hwr i hi


theorem tyOf_slice (a : Arr) (o l : Nat) : tyOf (slice a o l) = tyOf a := by
  match a with
  | .prim .. => simp [slice, tyOf]
  | .list .. => simp [slice, tyOf]
  | .struct len nulls names cols =>
    simp only [slice, tyOf, sliceCols_eq_map, tyOfCols_eq_map, List.map_map]
    congr 1
    apply List.map_congr_left
    intro c hc
    exact tyOf_slice c o l
termination_by sizeOf a
decreasing_by
  all_goals simp_wf
  have := List.sizeOf_lt_of_mem hc
  omega

theorem tyOfCols_sliceCols (cols : List Arr) (o l : Nat) : tyOfCols (sliceCols cols o l) = tyOfCols cols := by
  rw [tyOfCols_eq_map, tyOfCols_eq_map, sliceCols_eq_map, List.map_map]
  apply List.map_congr_left
  intro c _
  exact tyOf_slice c o l

theorem uniqCols_eq_all (cols : List Arr) : uniqCols cols = cols.all uniq := by
  induction cols with
  | nil => rfl
  | cons a as ih => simp [uniqCols, ih]

theorem all_congr_mem (cols : List Arr) (f g : Arr → Bool) (h : ∀ c ∈ cols, f c = g c) : cols.all f = cols.all g := by
  induction cols with
  | nil => rfl
  | cons a as ih =>
    simp only [List.all_cons, h a (by simp), ih (fun c hc => h c (by simp [hc]))]

theorem uniq_slice (a : Arr) (o l : Nat) : uniq (slice a o l) = uniq a := by
  match a with
  | .prim .. => simp [slice, uniq]
  | .list .. => simp [slice, uniq]
  | .struct len nulls names cols =>
    simp only [slice, uniq, sliceCols_eq_map, uniqCols_eq_all, List.all_map]
    congr 1
    apply all_congr_mem
    intro c hc
    exact uniq_slice c o l
termination_by sizeOf a
decreasing_by
  all_goals simp_wf
  have := List.sizeOf_lt_of_mem hc
  omega

theorem getD_sub {α : Type} (l : List α) (s e k : Nat) (d : α) (hk : k < e - s) (he : e ≤ l.length) :
    (sub l s e).getD k d = l.getD (s + k) d := by
  have h1 : s + k < l.length := by omega
  simp [sub, List.getD, h1, hk]


/-- list-of-struct columns present on both sides of `merge_with_schema`, element by element: element `k` of entry `i` of
    the merged list is `mwsRow` of element `k` of entry `i` of the two input lists (inputs with the same entry lengths) -/
theorem mergeCell_list_of_struct_spec (f : Nat) (lg : Bool) (sn : List String) (st : List Ty)
    (lg1 : Bool) (off len : Nat) (nulls : Option Nulls) (offs : List Nat)
    (cl : Nat) (cn : Option Nulls) (csn : List String) (csc : List Arr)
    (lg2 : Bool) (roff rlen : Nat) (rnulls : Option Nulls) (roffs : List Nat)
    (dl : Nat) (dn : Option Nulls) (dsn : List String) (dsc : List Arr) (c : Arr)
    (hwl : wf (.list lg1 off len nulls offs (.struct cl cn csn csc)) = true)
    (hwr : wf (.list lg2 roff rlen rnulls roffs (.struct dl dn dsn dsc)) = true)
    (hul : uniq (.struct cl cn csn csc) = true) (hur : uniq (.struct dl dn dsn dsc) = true)
    (hsame : rebasedOffs roffs roff rlen = rebasedOffs offs off len)
    (h : mergeCell (f + 1) (.list lg (.struct sn st)) (.list lg1 off len nulls offs (.struct cl cn csn csc))
          (.list lg2 roff rlen rnulls roffs (.struct dl dn dsn dsc)) = .ok c) :
    ∀ i, i < len → (validAt nulls i || validAt rnulls i) = true →
      ∃ es, (logical c).getD i .null = .list es ∧
        es.length = offs.getD (off + i + 1) 0 - offs.getD (off + i) 0 ∧
        ∀ k, k < es.length → ∀ v,
          mwsRow csn (tyOfCols csc) dsn (tyOfCols dsc) sn st
            ((sub (logical (.struct cl cn csn csc)) (offs.getD (off + i) 0) (offs.getD (off + i + 1) 0)).getD k .null)
            ((sub (logical (.struct dl dn dsn dsc)) (roffs.getD (roff + i) 0) (roffs.getD (roff + i + 1) 0)).getD k .null)
            = some v →
          es.getD k .null = v := by
  intro i hi hvalid
  obtain ⟨hrl, _, vals, hvals, hrows⟩ :=
    mergeCell_list_spec f lg (.struct sn st) lg1 off len nulls offs _ lg2 roff rlen rnulls roffs _ c hwl hwr h
  subst hrl
  obtain ⟨hrow, hL, hR⟩ := hrows i hi
  have hR := hR hsame
  obtain ⟨_, _, f0, _, hws⟩ := mergeCell_struct f sn st _ _ vals hvals
  obtain ⟨hm, hl, hwc, _⟩ := wf_list_parts _ _ _ _ _ _ hwl
  obtain ⟨hmr, hlr, hwcr, _⟩ := wf_list_parts _ _ _ _ _ _ hwr
  have h0 := mono_le offs off rlen hm 0 rlen (by omega) (by omega)
  have h0r := mono_le roffs roff rlen hmr 0 rlen (by omega) (by omega)
  simp only [Nat.add_zero] at h0 h0r
  -- the trimmed values are struct arrays
  have hwtl := wf_slice _ (offs.getD off 0) (offs.getD (off + rlen) 0 - offs.getD off 0) hwc (by omega)
  have hwtr := wf_slice _ (roffs.getD roff 0) (roffs.getD (roff + rlen) 0 - roffs.getD roff 0) hwcr (by omega)
  have hutl : uniq (slice (.struct cl cn csn csc) (offs.getD off 0) (offs.getD (off + rlen) 0 - offs.getD off 0)) = true := by
    rw [uniq_slice]; exact hul
  have hutr : uniq (slice (.struct dl dn dsn dsc) (roffs.getD roff 0) (roffs.getD (roff + rlen) 0 - roffs.getD roff 0)) = true := by
    rw [uniq_slice]; exact hur
  simp only [trimmedValues] at hws hL hR
  simp only [slice] at hws hwtl hwtr hutl hutr hL hR
  have hspec := mergeWS_spec_le f0 f0 (Nat.le_refl _) _ _ _ _ _ _ _ _ sn st vals hwtl hwtr hutl hutr hws
  have hvl : vals.len = offs.getD (off + rlen) 0 - offs.getD off 0 := (mergeWS_validity f0 _ _ vals sn st hws).1
  -- bounds of the window
  have hb1 := (monoOffs_iff _ _ _).1 hm i hi
  have hb0 := mono_le offs off rlen hm 0 i (by omega) (by omega)
  have hb2 := mono_le offs off rlen hm (i + 1) rlen (by omega) (by omega)
  simp only [Nat.add_zero] at hb0
  have e1 : off + (i + 1) = off + i + 1 := by omega
  rw [e1] at hb2
  have ga := getD_rebasedOffs offs off rlen i (by omega)
  have gb := getD_rebasedOffs offs off rlen (i + 1) (by omega)
  rw [← Nat.add_assoc] at gb
  rw [hvalid] at hrow
  simp only [if_true] at hrow
  refine ⟨_, hrow, ?_, ?_⟩
  · rw [length_sub _ _ _ (by rw [length_logical, hvl, gb]; omega), ga, gb]; omega
  · intro k hk v hv
    have hklt : k < (rebasedOffs offs off rlen).getD (i + 1) 0 - (rebasedOffs offs off rlen).getD i 0 := by
      rw [length_sub _ _ _ (by rw [length_logical, hvl, gb]; omega)] at hk; exact hk
    rw [getD_sub _ _ _ _ _ hklt (by rw [length_logical, hvl, gb]; omega)]
    rw [hL, hR] at hv
    rw [getD_sub _ _ _ _ _ hklt (by rw [length_logical]; simp only [Arr.len]; rw [gb]; omega),
      getD_sub _ _ _ _ _ hklt (by
        rw [length_logical]; simp only [Arr.len]
        have := congrArg (fun l => l.getD rlen 0) hsame
        simp only [getD_rebasedOffs _ _ _ _ (Nat.le_refl _)] at this
        rw [gb]; omega)] at hv
    apply hspec _ (by rw [ga, gb] at hklt; rw [ga]; omega) v
    rw [tyOfCols_sliceCols, tyOfCols_sliceCols]
    exact hv


end LanceModel.C40
