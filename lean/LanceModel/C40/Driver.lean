import LanceModel.Util
import LanceModel.C40.Model
/-
C40 driver: register machine over arrays.  One output line per input line; see harness/src/bin/c40.rs for the protocol.
-/
namespace LanceModel.C40.Driver
open LanceModel.Util LanceModel.C40

abbrev St := List (String × Arr)

def get (s : St) (r : String) : Option Arr := s.lookup r
def put (s : St) (r : String) (a : Arr) : St := (r, a) :: s.filter (·.1 ≠ r)

/-! printing -/

def zipNames (names : List String) (vs : List String) : List String :=
  (names.zip vs).map (fun p => p.1 ++ ":" ++ p.2)

mutual
def showValue : Value → String
  | .null => "n"
  | .int i => toString i
  | .list vs => "[" ++ ",".intercalate (showValues vs) ++ "]"
  | .struct names vs => "{" ++ ",".intercalate (zipNames names (showValues vs)) ++ "}"
def showValues : List Value → List String
  | [] => []
  | v :: vs => showValue v :: showValues vs
end

def showLogical (vs : List Value) : String := "[" ++ ",".intercalate (showValues vs) ++ "]"

mutual
def showTy : Ty → String
  | .int => "i"
  | .bool => "b"
  | .list lg t => (if lg then "g" else "l") ++ "<" ++ showTy t ++ ">"
  | .struct names tys => "s{" ++ ",".intercalate ((names.zip (showTys tys)).map (fun p => p.1 ++ ":" ++ p.2)) ++ "}"
def showTys : List Ty → List String
  | [] => []
  | t :: ts => showTy t :: showTys ts
end

def showArr (a : Arr) : String := "ok " ++ showTy (tyOf a) ++ " " ++ showLogical (logical a)

/-! parsing -/

def validName (s : String) : Bool :=
  match s.toList with
  | [] => false
  | c :: cs => s.length ≤ 8 && c.isLower && (c :: cs).all (fun d => d.isLower || d.isDigit)

def parseNulls (s : String) : Option (Option Nulls) :=
  if s = "-" then some none
  else
    match s.splitOn ":" with
    | [k, bits] =>
      match k.toNat? with
      | some k =>
        if bits.toList.all (fun c => c = '0' || c = '1') then some (some ⟨k, bits.toList.map (fun c => c = '1')⟩)
        else none
      | none => none
    | _ => none

def parseIntList (s : String) : Option (List Int) :=
  if s = "-" then some [] else (s.splitOn ",").mapM String.toInt?

/-- `parse_phys`: depth-limited (12) prefix parser; fuel = number of tokens -/
def parsePhys : Nat → Nat → List String → Option (Arr × List String)
  | 0, _, _ => none
  | fuel + 1, depth, toks =>
    if depth > 12 then none
    else
      match toks with
      | "P" :: k :: off :: len :: nulls :: vals :: rest =>
        match (if k = "i" then some false else if k = "b" then some true else none),
              off.toNat?, len.toNat?, parseNulls nulls, parseIntList vals with
        | some b, some off, some len, some nulls, some vals => some (.prim b off len nulls vals, rest)
        | _, _, _, _, _ => none
      | "L" :: k :: off :: len :: nulls :: offs :: rest =>
        match (if k = "l" then some false else if k = "g" then some true else none),
              off.toNat?, len.toNat?, parseNulls nulls, parseNatList offs with
        | some lg, some off, some len, some nulls, some offs =>
          match parsePhys fuel (depth + 1) rest with
          | some (child, rest') => some (.list lg off len nulls offs child, rest')
          | none => none
        | _, _, _, _, _ => none
      | "S" :: len :: nulls :: k :: rest =>
        match len.toNat?, parseNulls nulls, k.toNat? with
        | some len, some nulls, some k =>
          if k > 64 then none
          else
            let rec fields (fuel' : Nat) : Nat → List String → Option (List String × List Arr × List String)
              | 0, rest => some ([], [], rest)
              | k + 1, n :: rest =>
                if !validName n then none
                else
                  match fuel' with
                  | 0 => none
                  | f + 1 =>
                    match parsePhys f (depth + 1) rest with
                    | some (c, rest') =>
                      match fields f k rest' with
                      | some (ns, cs, rest'') => some (n :: ns, c :: cs, rest'')
                      | none => none
                    | none => none
              | _ + 1, [] => none
            match fields fuel k rest with
            | some (ns, cs, rest') => some (.struct len nulls ns cs, rest')
            | none => none
        | _, _, _ => none
      | _ => none

/-- `parse_ty` / `parse_fields` -/
def parseTy : Nat → Nat → List String → Option (Ty × List String)
  | 0, _, _ => none
  | fuel + 1, depth, toks =>
    if depth > 12 then none
    else
      match toks with
      | "i" :: rest => some (.int, rest)
      | "b" :: rest => some (.bool, rest)
      | "l" :: rest => (parseTy fuel (depth + 1) rest).map (fun p => (.list false p.1, p.2))
      | "g" :: rest => (parseTy fuel (depth + 1) rest).map (fun p => (.list true p.1, p.2))
      | "s" :: k :: rest =>
        match k.toNat? with
        | some k =>
          if k > 64 then none
          else
            let rec fields (fuel' : Nat) : Nat → List String → Option (List String × List Ty × List String)
              | 0, rest => some ([], [], rest)
              | k + 1, n :: rest =>
                if !validName n then none
                else
                  match fuel' with
                  | 0 => none
                  | f + 1 =>
                    match parseTy f (depth + 1) rest with
                    | some (t, rest') =>
                      match fields f k rest' with
                      | some (ns, ts, rest'') => some (n :: ns, t :: ts, rest'')
                      | none => none
                    | none => none
              | _ + 1, [] => none
            match fields fuel k rest with
            | some (ns, ts, rest') => some (.struct ns ts, rest')
            | none => none
        | none => none
      | _ => none

/-- a field list `<k> (<name> <ty>)*k` covering all remaining tokens -/
def parseFieldList (toks : List String) : Option (List String × List Ty) :=
  match parseTy (toks.length + 2) 0 ("s" :: toks) with
  | some (.struct ns ts, []) => some (ns, ts)
  | _ => none

/-- the value-range part of the harness's `Phys::wf` (the buffers hold i32 / bits) -/
def litOk : Nat → Arr → Bool
  | 0, _ => false
  | fuel + 1, a =>
    match a with
    | .prim b _ _ _ vals => vals.all (fun v => if b then v == 0 || v == 1 else v.natAbs ≤ 1000000)
    | .list _ _ _ _ offs child => offs.all (fun o => o ≤ 1000000) && litOk fuel child
    | .struct _ _ _ cols => cols.all (litOk fuel)

/-- how the harness builds a literal: leaves and lists through `ArrayDataBuilder` (a validity buffer without a NULL in
    the window is dropped), a struct through `StructArray::try_new` (kept); everything below a list goes through
    `to_data()` / `make_array`, i.e. through the builder again (`deepCopy` is exactly that normalisation) -/
def buildLit : Nat → Arr → Arr
  | 0, a => a
  | fuel + 1, a =>
    match a with
    | .prim b off len nulls vals => .prim b off len (builderNulls nulls len) vals
    | .list lg off len nulls offs child => .list lg off len (builderNulls nulls len) offs (deepCopy (buildLit fuel child))
    | .struct len nulls names cols => .struct len nulls names (cols.map (buildLit fuel))

def showRes (s : St) (d : String) : Res Arr → St × String
  | .ok a => (put s d a, showArr a)
  | .err e => (s, e)

def bad : String := "bad-op"

def offsWindow (a : Arr) : List Nat :=
  match a with
  | .list _ off len _ offs _ => (List.range (len + 1)).map (fun i => offs.getD (off + i) 0)
  | _ => []

def childLen (a : Arr) : Nat :=
  match a with
  | .list _ _ _ _ _ child => child.len
  | _ => 0

def nullCount (a : Arr) : Nat := ((List.range a.len).filter (fun i => !validAt a.nulls i)).length

def step (s : St) (line : String) : St × String :=
  match splitTokens line with
  | "arr" :: r :: rest =>
    match parsePhys (rest.length + 1) 0 rest with
    | some (a, []) =>
      if wf a && litOk 64 a then (put s r (buildLit 64 a), showArr (buildLit 64 a)) else (s, "invalid")
    | _ => (s, bad)
  | ["slice", d, src, o, l] =>
    match get s src, o.toNat?, l.toNat? with
    | some a, some o, some l =>
      if o + l > a.len then (s, "err:oob") else (put s d (slice a o l), showArr (slice a o l))
    | _, _, _ => (s, bad)
  | ["trim", d, src] =>
    match get s src with
    | some (.list lg off len nulls offs child) =>
      let b := trimmedValues (.list lg off len nulls offs child)
      (put s d b, showArr b)
    | some _ => (s, "bad-type")
    | none => (s, bad)
  | ["fgn", d, src] =>
    match get s src with
    | some (.list lg off len nulls offs child) =>
      let b := filterGarbageNulls (.list lg off len nulls offs child)
      (put s d b, showArr b ++ " offs=" ++ showNatList (offsWindow b) ++ " vlen=" ++ toString (childLen b))
    | some _ => (s, "bad-type")
    | none => (s, bad)
  | ["dcopy", d, src] =>
    match get s src with
    | some a => (put s d (deepCopy a), showArr (deepCopy a))
    | none => (s, bad)
  | ["dcopys", d, src] =>
    match get s src with
    | some a => (put s d (deepCopySliced a), showArr (deepCopySliced a))
    | none => (s, bad)
  | ["pushdown", d, src] =>
    match get s src with
    | some (.struct len nulls names cols) =>
      let b := pushdownNulls (.struct len nulls names cols)
      let counts := match b with
        | .struct _ _ _ cs => cs.map nullCount
        | _ => []
      (put s d b, showArr b ++ " childnulls=" ++ showNatList counts)
    | some _ => (s, "bad-type")
    | none => (s, bad)
  | ["take", d, src, idx] =>
    match get s src, parseNatList idx with
    | some a, some idx => showRes s d (takeBatch a idx)
    | _, _ => (s, bad)
  | "proj" :: d :: src :: rest =>
    match get s src, parseFieldList rest with
    | some a, some (ns, ts) => showRes s d (projectBatch a ns ts)
    | _, _ => (s, bad)
  | ["merge", d, l, r] =>
    match get s l, get s r with
    | some a, some b => showRes s d (mergeBatch a b)
    | _, _ => (s, bad)
  | "mergews" :: d :: l :: r :: rest =>
    match get s l, get s r, parseFieldList rest with
    | some a, some b, some (ns, ts) => showRes s d (mergeWSBatch a b ns ts)
    | _, _, _ => (s, bad)
  | ["dump", r] =>
    match get s r with
    | some a => (s, showArr a)
    | none => (s, bad)
  | _ => (s, bad)

end LanceModel.C40.Driver
