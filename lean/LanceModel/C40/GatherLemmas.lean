import LanceModel.C40.BaseLemmas
/-
C40: contract of the `gather` kernel (take / filter / MutableArrayData::extend):
`logical (gather a idx) = idx.map (row of a)`.
-/
namespace LanceModel.C40

theorem length_psumsFrom (acc : Nat) (ns : List Nat) : (psumsFrom acc ns).length = ns.length + 1 := by
  induction ns generalizing acc with
  | nil => simp [psumsFrom]
  | cons n ns ih => simp [psumsFrom, ih]

theorem getD_psumsFrom (acc : Nat) (ns : List Nat) (k : Nat) (hk : k ≤ ns.length) :
    (psumsFrom acc ns).getD k 0 = acc + (ns.take k).sum := by
  induction ns generalizing acc k with
  | nil => simp at hk; subst hk; simp [psumsFrom]
  | cons n ns ih =>
    cases k with
    | zero => simp [psumsFrom]
    | succ k =>
      simp only [psumsFrom, List.getD_cons_succ, List.take_succ_cons, List.sum_cons]
      rw [ih]
      · omega
      · simpa using hk

theorem getD_psums (ns : List Nat) (k : Nat) (hk : k ≤ ns.length) : (psums ns).getD k 0 = (ns.take k).sum := by
  unfold psums
  rw [getD_psumsFrom _ _ _ hk]; simp

/-- the `k`-th segment of a flattened list of lists, addressed by prefix sums of the lengths -/
theorem sub_flatten_sums {α : Type} (ess : List (List α)) (k : Nat) (hk : k < ess.length) :
    sub ess.flatten (((ess.map List.length).take k).sum) (((ess.map List.length).take (k + 1)).sum) = ess[k] := by
  induction ess generalizing k with
  | nil => simp at hk
  | cons e es ih =>
    cases k with
    | zero => simp [sub]
    | succ k =>
      have hk' : k < es.length := by simpa using hk
      have := ih k hk'
      simp only [List.map_cons, List.take_succ_cons, List.sum_cons, List.flatten_cons, List.getElem_cons_succ]
      rw [← this]
      simp only [sub]
      rw [List.drop_append]
      have h1 : e.length + ((es.map List.length).take k).sum - e.length = ((es.map List.length).take k).sum := by omega
      have h2 : List.drop (e.length + ((es.map List.length).take k).sum) e = [] := by
        apply List.drop_eq_nil_of_le; omega
      rw [h1, h2]
      simp
      congr 1
      omega

theorem map_getD_range' {α : Type} (cv : List α) (d : α) (s n : Nat) (h : s + n ≤ cv.length) :
    (List.range' s n).map (fun j => cv.getD j d) = sub cv s (s + n) := by
  apply List.ext_getElem
  · simp [sub]; omega
  · intro i h1 h2
    have hi : i < n := by simpa using h1
    have : s + i < cv.length := by omega
    simp [sub, List.getD, this]

theorem validAt_gatherNulls (n : Option Nulls) (idx : List Nat) (k : Nat) (hk : k < idx.length) :
    validAt (gatherNulls n idx) k = validAt n idx[k] := by
  unfold gatherNulls
  split
  · rename_i h
    simp only [List.all_eq_true] at h
    have := h idx[k] (List.getElem_mem hk)
    rw [this]; rfl
  · simp [validAt, List.getD, hk]


theorem length_sub {α : Type} (l : List α) (s e : Nat) (h : e ≤ l.length) : (sub l s e).length = e - s := by
  simp [sub]; omega

theorem monoOffs_iff (offs : List Nat) (off len : Nat) :
    monoOffs offs off len = true ↔ ∀ i, i < len → offs.getD (off + i) 0 ≤ offs.getD (off + i + 1) 0 := by
  simp [monoOffs, List.all_eq_true]

theorem mono_le (offs : List Nat) (off len : Nat) (h : monoOffs offs off len = true) (i j : Nat) (hij : i ≤ j)
    (hj : j ≤ len) : offs.getD (off + i) 0 ≤ offs.getD (off + j) 0 := by
  rw [monoOffs_iff] at h
  obtain ⟨d, rfl⟩ := Nat.exists_eq_add_of_le hij
  induction d with
  | zero => simp
  | succ d ih =>
    have h1 := ih (by omega) (by omega)
    have h2 := h (i + d) (by omega)
    have e1 : off + (i + d) + 1 = off + (i + (d + 1)) := by omega
    rw [e1] at h2
    omega

/-- the list part of `gather`: the `k`-th entry of the gathered child is the `idx[k]`-th entry of the source -/
theorem gather_list_core (cv : List Value) (offs : List Nat) (off : Nat) (idx : List Nat)
    (hb : ∀ i ∈ idx, offs.getD (off + i) 0 ≤ offs.getD (off + i + 1) 0 ∧ offs.getD (off + i + 1) 0 ≤ cv.length)
    (k : Nat) (hk : k < idx.length) :
    sub ((idx.flatMap (fun i => List.range' (entryStart offs off i) (entryLen offs off i))).map
          (fun j => cv.getD j .null))
        ((psums (idx.map (entryLen offs off))).getD k 0) ((psums (idx.map (entryLen offs off))).getD (k + 1) 0)
      = sub cv (offs.getD (off + idx[k]) 0) (offs.getD (off + idx[k] + 1) 0) := by
  have hflat : (idx.flatMap (fun i => List.range' (entryStart offs off i) (entryLen offs off i))).map
        (fun j => cv.getD j .null)
      = (idx.map (fun i => sub cv (offs.getD (off + i) 0) (offs.getD (off + i + 1) 0))).flatten := by
    clear hk
    induction idx with
    | nil => simp
    | cons i t ih =>
      have hi := hb i (by simp)
      simp only [List.flatMap_cons, List.map_append, List.map_cons, List.flatten_cons]
      rw [ih (fun j hj => hb j (by simp [hj]))]
      congr 1
      unfold entryStart entryLen
      rw [map_getD_range' cv .null _ _ (by omega)]
      congr 1; omega
  have hlen : (idx.map (fun i => sub cv (offs.getD (off + i) 0) (offs.getD (off + i + 1) 0))).map List.length
      = idx.map (entryLen offs off) := by
    rw [List.map_map]
    apply List.map_congr_left
    intro i hi
    simp only [Function.comp, entryLen]
    exact length_sub _ _ _ (hb i hi).2
  rw [hflat, getD_psums _ _ (by simp; omega), getD_psums _ _ (by simp; omega), ← hlen]
  rw [sub_flatten_sums _ k (by simpa using hk)]
  simp

theorem entry_bounds (lg : Bool) (off len : Nat) (nulls : Option Nulls) (offs : List Nat) (child : Arr)
    (hw : wf (.list lg off len nulls offs child) = true) (i : Nat) (hi : i < len) :
    offs.getD (off + i) 0 ≤ offs.getD (off + i + 1) 0 ∧ offs.getD (off + i + 1) 0 ≤ child.len := by
  simp only [wf, Bool.and_eq_true, decide_eq_true_eq] at hw
  obtain ⟨⟨⟨⟨_, _⟩, hm⟩, hl⟩, _⟩ := hw
  constructor
  · exact (monoOffs_iff _ _ _).1 hm i hi
  · have := mono_le offs off len hm (i + 1) len (by omega) (by omega)
    have e1 : off + (i + 1) = off + i + 1 := by omega
    rw [e1] at this
    omega

/-- contract of the `gather` kernel -/
theorem logical_gather (a : Arr) (idx : List Nat) (hw : wf a = true) (hi : ∀ i ∈ idx, i < a.len) :
    logical (gather a idx) = idx.map (fun i => (logical a).getD i .null) := by
  match a with
  | .prim b off len nulls vals =>
    simp only [gather, logical, Arr.len] at *
    apply List.ext_getElem
    · simp
    · intro k h1 h2
      have hk : k < idx.length := by simpa using h1
      have hlt := hi idx[k] (List.getElem_mem hk)
      simp [primRow, validAt_gatherNulls _ _ _ hk, List.getD, hk, hlt]
  | .list lg off len nulls offs child =>
    have hwc : wf child = true := by
      simp only [wf, Bool.and_eq_true] at hw; exact hw.2
    have hb : ∀ i ∈ idx, offs.getD (off + i) 0 ≤ offs.getD (off + i + 1) 0
        ∧ offs.getD (off + i + 1) 0 ≤ (logical child).length := by
      intro i hi'
      have := entry_bounds lg off len nulls offs child hw i (hi i hi')
      simpa using this
    have ih := logical_gather child
      (idx.flatMap (fun i => List.range' (entryStart offs off i) (entryLen offs off i))) hwc (by
        intro j hj
        simp only [List.mem_flatMap, List.mem_range'_1] at hj
        obtain ⟨i, hi', h1, h2⟩ := hj
        have := hb i hi'
        simp only [length_logical] at this
        unfold entryStart entryLen at *
        omega)
    simp only [gather, logical, Arr.len] at *
    apply List.ext_getElem
    · simp
    · intro k h1 h2
      have hk : k < idx.length := by simpa using h1
      have hlt := hi idx[k] (List.getElem_mem hk)
      simp only [List.getElem_map, List.getElem_range, listRow, validAt_gatherNulls _ _ _ hk, Nat.zero_add]
      rw [ih, gather_list_core (logical child) offs off idx hb k hk]
      simp [List.getD, hlt, listRow]
  | .struct len nulls names cols =>
    simp only [gather, logical, Arr.len] at *
    apply List.ext_getElem
    · simp
    · intro k h1 h2
      have hk : k < idx.length := by simpa using h1
      have hlt := hi idx[k] (List.getElem_mem hk)
      simp only [List.getElem_map, List.getElem_range, structRow, validAt_gatherNulls _ _ _ hk,
        logicalCols_eq_map, gatherCols_eq_map, List.map_map]
      simp only [List.getD, List.getElem?_map, List.getElem?_range hlt, Option.map_some, Option.getD_some]
      congr 2
      rw [List.map_map]
      apply List.map_congr_left; intro c hc
      simp only [wf, Bool.and_eq_true, wfCols_iff] at hw
      have hc' := hw.2 c hc
      have := logical_gather c idx hc'.2 (by intro i hi'; have := hi i hi'; omega)
      simp only [Function.comp, this]
      simp [hk]
termination_by sizeOf a
decreasing_by
  all_goals simp_wf
  all_goals first | omega | (have := List.sizeOf_lt_of_mem hc; omega)

end LanceModel.C40
