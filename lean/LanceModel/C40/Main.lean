import LanceModel.C40.Driver
def main : IO Unit := LanceModel.Util.runDriver LanceModel.C40.Driver.step []
