import LanceModel.C40.FgnLemmas
/-
C40: validity rules of struct.rs `pushdown_nulls` and lib.rs `adjust_child_validity` / `merge_struct_validity`.
-/
namespace LanceModel.C40

theorem getD_logical (a : Arr) (i : Nat) (hi : i < a.len) :
    (logical a).getD i .null =
      match a with
      | .prim _ off _ nulls vals => primRow nulls off vals i
      | .list _ off _ nulls offs child => listRow nulls off offs (logical child) i
      | .struct _ nulls names cols => structRow nulls names (logicalCols cols) i := by
  cases a <;> simp only [logical, Arr.len] at * <;> exact getD_map_range _ _ _ _ hi

theorem len_setNulls (c : Arr) (m : Option Nulls) : (c.setNulls m).len = c.len := by
  cases c <;> rfl

/-- replacing the validity of an array: a row valid before and after is unchanged -/
theorem row_setNulls_valid (c : Arr) (m : Option Nulls) (i : Nat) (hi : i < c.len)
    (hm : validAt m i = true) (hc : validAt c.nulls i = true) :
    (logical (c.setNulls m)).getD i .null = (logical c).getD i .null := by
  rw [getD_logical (c.setNulls m) i (by rw [len_setNulls]; exact hi), getD_logical c i hi]
  cases c <;> simp_all [Arr.setNulls, Arr.nulls, primRow, listRow, structRow]

/-- a row whose (new) validity bit is 0 is NULL -/
theorem row_setNulls_null (c : Arr) (m : Option Nulls) (i : Nat) (hi : i < c.len) (hm : validAt m i = false) :
    (logical (c.setNulls m)).getD i .null = .null := by
  rw [getD_logical (c.setNulls m) i (by rw [len_setNulls]; exact hi)]
  cases c <;> simp_all [Arr.setNulls, primRow, listRow, structRow]

theorem row_null (c : Arr) (i : Nat) (hi : i < c.len) (hc : validAt c.nulls i = false) :
    (logical c).getD i .null = .null := by
  rw [getD_logical c i hi]
  cases c <;> simp_all [Arr.nulls, primRow, listRow, structRow]

theorem validAt_andNulls (c p : Option Nulls) (len i : Nat) (hi : i < len) :
    validAt (andNulls c p len) i = (validAt c i && validAt p i) := by
  simp [andNulls, validAt, List.getD, hi]

/-- `adjust_child_validity`: row `i` of the adjusted child is the child's row where the parent is valid, NULL elsewhere -/
theorem adjust_spec (c : Arr) (p : Option Nulls) (i : Nat) (hi : i < c.len) :
    (logical (adjust c p)).getD i .null = if validAt p i then (logical c).getD i .null else .null := by
  unfold adjust
  split
  · split
    · rename_i hn
      cases hp : validAt p i
      · simp only [Bool.false_eq_true, if_false]; exact row_setNulls_null c p i hi hp
      · simp only [if_true]; exact row_setNulls_valid c p i hi hp (by rw [hn]; rfl)
    · rename_i n hn
      have hand := validAt_andNulls c.nulls p c.len i hi
      cases hp : validAt p i
      · simp only [Bool.false_eq_true, if_false]
        exact row_setNulls_null c _ i hi (by rw [hand, hp]; simp)
      · simp only [if_true]
        cases hc : validAt c.nulls i
        · rw [row_setNulls_null c _ i hi (by rw [hand, hp, hc]; rfl), row_null c i hi hc]
        · exact row_setNulls_valid c _ i hi (by rw [hand, hp, hc]; rfl) hc
  · rename_i h
    have h' : hasNull p c.len = false := by simpa using h
    rw [(hasNull_false_iff p c.len).1 h' i hi]; simp

theorem len_adjust (c : Arr) (p : Option Nulls) : (adjust c p).len = c.len := by
  unfold adjust
  split
  · split <;> exact len_setNulls _ _
  · rfl

/-- `merge_struct_validity`: a merged row is NULL iff it is NULL on both sides -/
theorem orNulls_spec (l r : Option Nulls) (len i : Nat) (hi : i < len) :
    validAt (orNulls l r len) i = (validAt l i || validAt r i) := by
  unfold orNulls
  split
  · simp [validAt, List.getD, hi]
  · rename_i h
    simp only [Bool.and_eq_true, not_and, Bool.not_eq_true] at h
    by_cases hl : hasNull l len = true
    · have := (hasNull_false_iff r len).1 (h hl) i hi
      rw [this]; simp [validAt]
    · have hl' : hasNull l len = false := by simpa using hl
      have := (hasNull_false_iff l len).1 hl' i hi
      rw [this]; simp [validAt]

theorem pushdown_child_row (c : Arr) (n : Nulls) (len i : Nat) (hi : i < len) (hcl : c.len = len) :
    (logical (pushChild n len c)).getD i .null
      = if validAt (some n) i then (logical c).getD i .null else .null := by
  have hi' : i < c.len := by omega
  unfold pushChild
  cases hcn : c.nulls with
  | none =>
    simp only
    cases hp : validAt (some n) i
    · simp only [Bool.false_eq_true, if_false]; exact row_setNulls_null c _ i hi' hp
    · simp only [if_true]; exact row_setNulls_valid c _ i hi' hp (by rw [hcn]; rfl)
  | some cn =>
    simp only
    have hand := validAt_andNulls (some cn) (some n) len i hi
    cases hp : validAt (some n) i
    · simp only [Bool.false_eq_true, if_false]
      exact row_setNulls_null c _ i hi' (by rw [hand, hp]; simp)
    · simp only [if_true]
      cases hc : validAt (some cn) i
      · rw [row_setNulls_null c _ i hi' (by rw [hand, hp, hc]; rfl), row_null c i hi' (by rw [hcn]; exact hc)]
      · exact row_setNulls_valid c _ i hi' (by rw [hand, hp, hc]; rfl) (by rw [hcn]; exact hc)

/-- `pushdown_nulls` keeps the logical value of a struct array … -/
theorem logical_pushdownNulls (len : Nat) (nulls : Option Nulls) (names : List String) (cols : List Arr)
    (hw : wf (.struct len nulls names cols) = true) :
    logical (pushdownNulls (.struct len nulls names cols)) = logical (.struct len nulls names cols) := by
  simp only [pushdownNulls]
  cases nulls with
  | none => rfl
  | some n =>
    simp only [logical]
    apply map_range_congr; intro i hi
    simp only [structRow]
    split
    · rename_i hv
      congr 1
      simp only [logicalCols_eq_map, List.map_map]
      apply List.map_congr_left; intro c hc
      simp only [wf, Bool.and_eq_true, wfCols_iff] at hw
      have hcl := (hw.2 c hc).1
      simp only [Function.comp]
      rw [pushdown_child_row c n len i hi hcl, hv]; simp
    · rfl

/-- … and makes every child NULL wherever the struct is NULL -/
theorem pushdownNulls_cover (len : Nat) (n : Nulls) (names : List String) (cols : List Arr)
    (hw : wf (.struct len (some n) names cols) = true) (i : Nat) (hi : i < len) (hv : validAt (some n) i = false) :
    ∃ cols', pushdownNulls (.struct len (some n) names cols) = .struct len (some n) names cols'
      ∧ ∀ c' ∈ cols', (logical c').getD i .null = .null := by
  refine ⟨_, rfl, ?_⟩
  intro c' hc'
  simp only [List.mem_map] at hc'
  obtain ⟨c, hc, rfl⟩ := hc'
  simp only [wf, Bool.and_eq_true, wfCols_iff] at hw
  have hcl := (hw.2 c hc).1
  rw [pushdown_child_row c n len i hi hcl, hv]; simp


/-- `merge`: the merged struct has the rows of the inputs and row `i` is NULL iff it is NULL on both sides
    (the "different validity" rule), at the top and - by the same theorem applied to the recursive calls, whose inputs are
    the `adjust`ed children - at every nesting depth -/
theorem mergeStruct_validity (fuel : Nat) (l r m : Arr) (h : mergeStruct fuel l r = .ok m) :
    m.len = l.len ∧ l.len = r.len ∧ ∀ i, i < l.len → validAt m.nulls i = (validAt l.nulls i || validAt r.nulls i) := by
  cases fuel with
  | zero => simp [mergeStruct] at h
  | succ fuel =>
    cases l <;> cases r <;> simp only [mergeStruct] at h <;> try cases h
    rename_i llen lnulls lnames lcols rlen rnulls rnames rcols
    split at h
    · cases h
    · rename_i hlen
      split at h
      · cases h
      · cases h
        refine ⟨rfl, by simpa [Arr.len] using hlen, ?_⟩
        intro i hi
        exact orNulls_spec lnulls rnulls llen i hi

/-- the same for `merge_with_schema` -/
theorem mergeWS_validity (fuel : Nat) (l r m : Arr) (fn : List String) (ft : List Ty)
    (h : mergeWS fuel l r fn ft = .ok m) :
    m.len = l.len ∧ l.len = r.len ∧ ∀ i, i < l.len → validAt m.nulls i = (validAt l.nulls i || validAt r.nulls i) := by
  cases fuel with
  | zero => simp [mergeWS] at h
  | succ fuel =>
    cases l <;> cases r <;> simp only [mergeWS] at h <;> try cases h
    rename_i llen lnulls lnames lcols rlen rnulls rnames rcols
    split at h
    · cases h
    · rename_i hlen
      split at h
      · cases h
      · split at h
        · cases h
          refine ⟨rfl, by simpa [Arr.len] using hlen, ?_⟩
          intro i hi
          exact orNulls_spec lnulls rnulls llen i hi
        · cases h

end LanceModel.C40
