import LanceModel.C40.MergeLemmas
import LanceModel.C40.Spec
/-
C40: `project_by_schema` (lib.rs `project`) is the row-wise projection `projectRow`.
-/
namespace LanceModel.C40

theorem lookupV_map (cn : List String) (cc : List Arr) (f : Arr → Value) (n : String) :
    lookupV cn (cc.map f) n = match findCol cn cc n with | some c => f c | none => .null := by
  induction cn generalizing cc with
  | nil => simp [lookupV, findCol]
  | cons m ms ih =>
    cases cc with
    | nil => simp [lookupV, findCol]
    | cons c cs =>
      simp only [List.map_cons, lookupV, findCol]
      split <;> simp_all

theorem findCol_mem (cn : List String) (cc : List Arr) (n : String) (c : Arr) (h : findCol cn cc n = some c) : c ∈ cc := by
  induction cn generalizing cc with
  | nil => simp [findCol] at h
  | cons m ms ih =>
    cases cc with
    | nil => simp [findCol] at h
    | cons d ds =>
      simp only [findCol] at h
      split at h
      · cases h; simp
      · exact List.mem_cons_of_mem _ (ih ds h)

theorem projectCols_spec (cn : List String) (cc : List Arr) (names : List String) (tys : List Ty) (cols : List Arr)
    (len : Nat) (h : projectCols cn cc names tys = .ok cols) (hw : ∀ c ∈ cc, c.len = len ∧ wf c = true) :
    (∀ c ∈ cols, c.len = len) ∧
    ∀ i, i < len → cols.map (fun c => (logical c).getD i .null)
        = projectVals cn (cc.map (fun c => (logical c).getD i .null)) names tys := by
  fun_induction projectCols cn cc names tys generalizing cols len
  all_goals (try (simp_all; done))
  case case2 cn cc n ns ts sn st slen snulls scn scc hE rest hrest hfind ih =>
    cases h
    obtain ⟨ih1, ih2⟩ := ih rest len hrest hw
    have hmem := findCol_mem _ _ _ _ hfind
    have hl := (hw _ hmem).1
    simp only [Arr.len] at hl
    subst hl
    have hsn : sn = [] := by simpa using hE
    subst hsn
    constructor
    · intro c hc
      simp only [List.mem_cons] at hc
      rcases hc with rfl | hc
      · rfl
      · exact ih1 c hc
    · intro i hi
      simp only [List.map_cons, projectVals, ih2 i hi, lookupV_map, hfind]
      congr 1
      rw [getD_logical _ i (by simpa [Arr.len] using hi), getD_logical _ i (by simpa [Arr.len] using hi)]
      simp only [structRow]
      split <;> simp [projectRow, projectVals, logicalCols]
  case case5 cn cc n ns ts sn st slen snulls scn scc hE sub hsub hty rest hrest hfind ihsub ihrest =>
    cases h
    obtain ⟨ih1, ih2⟩ := ihrest rest len hrest hw
    have hmem := findCol_mem _ _ _ _ hfind
    have hl := (hw _ hmem).1
    have hwc := (hw _ hmem).2
    simp only [Arr.len] at hl
    subst hl
    simp only [wf, Bool.and_eq_true, wfCols_iff] at hwc
    obtain ⟨is1, is2⟩ := ihsub sub slen hsub hwc.2
    constructor
    · intro c hc
      simp only [List.mem_cons] at hc
      rcases hc with rfl | hc
      · rfl
      · exact ih1 c hc
    · intro i hi
      simp only [List.map_cons, projectVals, ih2 i hi, lookupV_map, hfind]
      congr 1
      rw [getD_logical _ i (by simpa [Arr.len] using hi), getD_logical _ i (by simpa [Arr.len] using hi)]
      simp only [structRow]
      split
      · simp only [projectRow, logicalCols_eq_map, List.map_map]
        congr 1
        have := is2 i hi
        simp only [Function.comp_def]
        simpa using this
      · simp [projectRow]
  case case9 cn cc n ns t ts col hfind rest hrest hns ih =>
    cases h
    obtain ⟨ih1, ih2⟩ := ih rest len hrest hw
    have hmem := findCol_mem _ _ _ _ hfind
    have hl := (hw _ hmem).1
    constructor
    · intro c hc
      simp only [List.mem_cons] at hc
      rcases hc with rfl | hc
      · exact hl
      · exact ih1 c hc
    · intro i hi
      simp only [List.map_cons, projectVals, ih2 i hi, lookupV_map, hfind]
  case case11 cn cc x y hxy =>
    cases h
    constructor
    · simp
    · intro i hi
      cases x with
      | nil => simp [projectVals]
      | cons n ns =>
        cases y with
        | nil => simp [projectVals]
        | cons t ts => exact absurd rfl (fun h => hxy n ns t ts h rfl)


/-- `project_by_schema`: every row is the row-wise projection -/
theorem logical_projectBatch (a b : Arr) (names : List String) (tys : List Ty) (hw : wf a = true)
    (h : projectBatch a names tys = .ok b) : logical b = (logical a).map (projectRow names tys) := by
  cases a with
  | prim => simp [projectBatch] at h
  | list => simp [projectBatch] at h
  | struct len nulls cn cc =>
    simp only [projectBatch] at h
    split at h
    · cases h
    · rename_i hnn
      have hnn' : hasNull nulls len = false := by simpa using hnn
      have hvalid := (hasNull_false_iff nulls len).1 hnn'
      simp only [wf, Bool.and_eq_true, wfCols_iff] at hw
      split at h
      · rename_i hE
        cases h
        have hsn : names = [] := by simpa using hE
        subst hsn
        simp only [logical, List.map_map]
        apply map_range_congr; intro i hi
        simp only [Function.comp, structRow, hvalid i hi, if_true]
        simp [projectRow, projectVals, validAt, logicalCols]
      · split at h
        · cases h
        · rename_i cols hcols
          split at h
          · cases h
            obtain ⟨_, h2⟩ := projectCols_spec cn cc names tys cols len hcols hw.2
            simp only [logical, List.map_map]
            apply map_range_congr; intro i hi
            simp only [Function.comp, structRow, hvalid i hi, if_true, projectRow, logicalCols_eq_map,
              List.map_map]
            have hn : validAt none i = true := rfl
            simp only [hn, if_true]
            congr 1
            have := h2 i hi
            simp only [Function.comp_def]
            simpa using this
          · cases h

end LanceModel.C40
