/-
Query kit — predicates over integer cells with SQL three-valued (Kleene) evaluation.  Import-free (core only), so that
drivers link natively.  Owned by C12; reused by C16 / C19 / C20 / C29.  Rust counterpart: `harness/src/querykit.rs`
(same grammar, same canonical text, a printer to a lance / DataFusion SQL filter string, a seeded generator).

Grammar (`Expr`)

  expr ::= TRUE | FALSE
         | col op lit | col op col            op ∈ { =, !=, <, <=, >, >= }
         | col IS NULL | col IS NOT NULL
         | col IN (v, …)                      v an integer literal or NULL
         | col BETWEEN lo AND hi
         | NOT expr | expr AND expr | expr OR expr

A row is a list of cells `Option Int` (`none` = NULL); a column is its index.  `eval3 e row : Option Bool` (`none` = NULL):
a comparison with a NULL operand is NULL; `x IN vs` is TRUE if some non-NULL `v = x`, else NULL if `x` is NULL or `vs`
holds a NULL, else FALSE; BETWEEN is `lo ≤ x ∧ x ≤ hi`; NOT / AND / OR are Kleene's (`not3`, `and3`, `or3`).  A column
index outside the row reads as NULL — `Expr.colsBelow w e` is the well-formedness check callers use to reject that.

Canonical prefix text form (tokens separated by one space, no space inside a token, self-delimiting):

  expr    ::= "T" | "F" | cmp col operand | "isnull" col | "notnull" col | "in" col vlist | "between" col int int
            | "not" expr | "and" expr expr | "or" expr expr
  cmp     ::= eq | ne | lt | le | gt | ge       col ::= "c" nat (≤ 4 digits)      operand ::= col | int
  vlist   ::= v ("," v)*    v ::= int | "n"     int ::= ["-"] digit+  with |int| < 2^63

`parseExpr toks` parses one expression from the front of a token list and returns the rest; `showExpr` prints the tokens.
The algebraic lemmas (De Morgan, double negation, NULL propagation, …) are in `Query/Lemmas.lean`.
-/
namespace LanceModel.Query

abbrev Cell := Option Int
abbrev Row := List Cell

inductive Cmp where
  | eq | ne | lt | le | gt | ge
  deriving DecidableEq, Repr

inductive Operand where
  | col (i : Nat)
  | lit (v : Int)
  deriving DecidableEq, Repr

inductive Expr where
  | tt
  | ff
  | cmp (op : Cmp) (c : Nat) (rhs : Operand)
  | isNull (c : Nat)
  | notNull (c : Nat)
  | inList (c : Nat) (vs : List (Option Int))
  | between (c : Nat) (lo hi : Int)
  | not (e : Expr)
  | and (a b : Expr)
  | or (a b : Expr)
  deriving DecidableEq, Repr

/-! ### three-valued logic -/

def not3 : Option Bool → Option Bool
  | some b => some (!b)
  | none => none

def and3 : Option Bool → Option Bool → Option Bool
  | some false, _ => some false
  | _, some false => some false
  | some true, some true => some true
  | _, _ => none

def or3 : Option Bool → Option Bool → Option Bool
  | some true, _ => some true
  | _, some true => some true
  | some false, some false => some false
  | _, _ => none

def Cmp.holds : Cmp → Int → Int → Bool
  | .eq, a, b => a == b
  | .ne, a, b => a != b
  | .lt, a, b => decide (a < b)
  | .le, a, b => decide (a ≤ b)
  | .gt, a, b => decide (b < a)
  | .ge, a, b => decide (b ≤ a)

/-- cell `i` of the row, NULL when the row is shorter -/
def cellAt (r : Row) (i : Nat) : Cell :=
  match r[i]? with
  | some c => c
  | none => none

def Operand.value (r : Row) : Operand → Cell
  | .col i => cellAt r i
  | .lit v => some v

def cmp3 (op : Cmp) : Cell → Cell → Option Bool
  | some a, some b => some (op.holds a b)
  | _, _ => none

def in3 (vs : List (Option Int)) : Cell → Option Bool
  | none => none
  | some x => if vs.contains (some x) then some true else if vs.contains none then none else some false

def between3 (lo hi : Int) : Cell → Option Bool
  | none => none
  | some x => some (decide (lo ≤ x) && decide (x ≤ hi))

/-- SQL three-valued evaluation -/
def eval3 : Expr → Row → Option Bool
  | .tt, _ => some true
  | .ff, _ => some false
  | .cmp op c rhs, r => cmp3 op (cellAt r c) (rhs.value r)
  | .isNull c, r => some (cellAt r c).isNone
  | .notNull c, r => some (cellAt r c).isSome
  | .inList c vs, r => in3 vs (cellAt r c)
  | .between c lo hi, r => between3 lo hi (cellAt r c)
  | .not e, r => not3 (eval3 e r)
  | .and a b, r => and3 (eval3 a r) (eval3 b r)
  | .or a b, r => or3 (eval3 a r) (eval3 b r)

/-- the WHERE-clause test: the predicate is TRUE (not FALSE, not NULL) -/
def isTrue (e : Expr) (r : Row) : Bool := eval3 e r == some true

/-- every column mentioned is below `w` -/
def Expr.colsBelow (w : Nat) : Expr → Bool
  | .tt | .ff => true
  | .cmp _ c (.col d) => decide (c < w) && decide (d < w)
  | .cmp _ c (.lit _) => decide (c < w)
  | .isNull c | .notNull c | .inList c _ | .between c _ _ => decide (c < w)
  | .not e => e.colsBelow w
  | .and a b | .or a b => a.colsBelow w && b.colsBelow w

/-- does the expression mention column `c`? -/
def Expr.mentions (c : Nat) : Expr → Bool
  | .tt | .ff => false
  | .cmp _ a (.col d) => a == c || d == c
  | .cmp _ a (.lit _) => a == c
  | .isNull a | .notNull a | .inList a _ | .between a _ _ => a == c
  | .not e => e.mentions c
  | .and a b | .or a b => a.mentions c || b.mentions c

/-! ### canonical prefix text -/

def parseDigits : List Char → Nat → Option Nat
  | [], acc => some acc
  | c :: cs, acc => if c.isDigit then parseDigits cs (acc * 10 + (c.toNat - 48)) else none

def parseNatChars (cs : List Char) : Option Nat :=
  if cs.isEmpty then none else parseDigits cs 0

/-- integer literal: optional `-`, digits, `|v| < 2^63` -/
def parseLit (s : String) : Option Int :=
  match s.toList with
  | '-' :: cs =>
    match parseNatChars cs with
    | some n => if n < 9223372036854775808 then some (-(n : Int)) else none
    | none => none
  | cs =>
    match parseNatChars cs with
    | some n => if n < 9223372036854775808 then some (n : Int) else none
    | none => none

/-- `c<nat>` with at most 4 digits -/
def parseCol (s : String) : Option Nat :=
  match s.toList with
  | 'c' :: ds => if ds.length > 4 then none else parseNatChars ds
  | _ => none

def parseOperand (s : String) : Option Operand :=
  if s.startsWith "c" then (parseCol s).map Operand.col else (parseLit s).map Operand.lit

def parseVList (s : String) : Option (List (Option Int)) :=
  (s.splitOn ",").mapM fun v => if v = "n" then some none else (parseLit v).map some

def parseCmp : String → Option Cmp
  | "eq" => some .eq | "ne" => some .ne | "lt" => some .lt | "le" => some .le | "gt" => some .gt | "ge" => some .ge
  | _ => none

/-- one expression from the front of the token list (fuel = number of tokens is enough) -/
def parseExprF : Nat → List String → Option (Expr × List String)
  | 0, _ => none
  | fuel + 1, toks =>
    match toks with
    | [] => none
    | "T" :: rest => some (.tt, rest)
    | "F" :: rest => some (.ff, rest)
    | "isnull" :: c :: rest => (parseCol c).map fun c => (.isNull c, rest)
    | "notnull" :: c :: rest => (parseCol c).map fun c => (.notNull c, rest)
    | "in" :: c :: vs :: rest =>
      match parseCol c, parseVList vs with
      | some c, some vs => some (.inList c vs, rest)
      | _, _ => none
    | "between" :: c :: lo :: hi :: rest =>
      match parseCol c, parseLit lo, parseLit hi with
      | some c, some lo, some hi => some (.between c lo hi, rest)
      | _, _, _ => none
    | "not" :: rest =>
      match parseExprF fuel rest with
      | some (e, rest) => some (.not e, rest)
      | none => none
    | "and" :: rest =>
      match parseExprF fuel rest with
      | some (a, rest) =>
        match parseExprF fuel rest with
        | some (b, rest) => some (.and a b, rest)
        | none => none
      | none => none
    | "or" :: rest =>
      match parseExprF fuel rest with
      | some (a, rest) =>
        match parseExprF fuel rest with
        | some (b, rest) => some (.or a b, rest)
        | none => none
      | none => none
    | op :: c :: rhs :: rest =>
      match parseCmp op, parseCol c, parseOperand rhs with
      | some op, some c, some rhs => some (.cmp op c rhs, rest)
      | _, _, _ => none
    | _ => none

def parseExpr (toks : List String) : Option (Expr × List String) := parseExprF (toks.length + 1) toks

/-- the token list is exactly one expression -/
def parseExprAll (toks : List String) : Option Expr :=
  match parseExpr toks with
  | some (e, []) => some e
  | _ => none

def Cmp.token : Cmp → String
  | .eq => "eq" | .ne => "ne" | .lt => "lt" | .le => "le" | .gt => "gt" | .ge => "ge"

def showVCell : Option Int → String
  | none => "n"
  | some v => toString v

def showExprToks : Expr → List String
  | .tt => ["T"]
  | .ff => ["F"]
  | .cmp op c (.col d) => [op.token, "c" ++ toString c, "c" ++ toString d]
  | .cmp op c (.lit v) => [op.token, "c" ++ toString c, toString v]
  | .isNull c => ["isnull", "c" ++ toString c]
  | .notNull c => ["notnull", "c" ++ toString c]
  | .inList c vs => ["in", "c" ++ toString c, ",".intercalate (vs.map showVCell)]
  | .between c lo hi => ["between", "c" ++ toString c, toString lo, toString hi]
  | .not e => "not" :: showExprToks e
  | .and a b => "and" :: (showExprToks a ++ showExprToks b)
  | .or a b => "or" :: (showExprToks a ++ showExprToks b)

def showExpr (e : Expr) : String := " ".intercalate (showExprToks e)

end LanceModel.Query
