import LanceModel.Query.Eval
/-
Algebra of the query kit's three-valued evaluation (`LanceModel.Query.eval3`): Kleene connectives (De Morgan, double
negation, commutativity, associativity, units / absorbing elements), NULL propagation of the atoms, and the
WHERE-clause test `isTrue`.
-/
namespace LanceModel.Query

/-! ### the connectives -/

@[simp] theorem not3_not3 (a : Option Bool) : not3 (not3 a) = a := by
  cases a with
  | none => rfl
  | some b => cases b <;> rfl

theorem not3_and3 (a b : Option Bool) : not3 (and3 a b) = or3 (not3 a) (not3 b) := by
  rcases a with _ | _ | _ <;> rcases b with _ | _ | _ <;> rfl

theorem not3_or3 (a b : Option Bool) : not3 (or3 a b) = and3 (not3 a) (not3 b) := by
  rcases a with _ | _ | _ <;> rcases b with _ | _ | _ <;> rfl

theorem and3_comm (a b : Option Bool) : and3 a b = and3 b a := by
  rcases a with _ | _ | _ <;> rcases b with _ | _ | _ <;> rfl

theorem or3_comm (a b : Option Bool) : or3 a b = or3 b a := by
  rcases a with _ | _ | _ <;> rcases b with _ | _ | _ <;> rfl

theorem and3_assoc (a b c : Option Bool) : and3 (and3 a b) c = and3 a (and3 b c) := by
  rcases a with _ | _ | _ <;> rcases b with _ | _ | _ <;> rcases c with _ | _ | _ <;> rfl

theorem or3_assoc (a b c : Option Bool) : or3 (or3 a b) c = or3 a (or3 b c) := by
  rcases a with _ | _ | _ <;> rcases b with _ | _ | _ <;> rcases c with _ | _ | _ <;> rfl

@[simp] theorem and3_true (a : Option Bool) : and3 a (some true) = a := by rcases a with _ | _ | _ <;> rfl
@[simp] theorem true_and3 (a : Option Bool) : and3 (some true) a = a := by rcases a with _ | _ | _ <;> rfl
@[simp] theorem and3_false (a : Option Bool) : and3 a (some false) = some false := by rcases a with _ | _ | _ <;> rfl
@[simp] theorem false_and3 (a : Option Bool) : and3 (some false) a = some false := by rcases a with _ | _ | _ <;> rfl
@[simp] theorem or3_false (a : Option Bool) : or3 a (some false) = a := by rcases a with _ | _ | _ <;> rfl
@[simp] theorem false_or3 (a : Option Bool) : or3 (some false) a = a := by rcases a with _ | _ | _ <;> rfl
@[simp] theorem or3_true (a : Option Bool) : or3 a (some true) = some true := by rcases a with _ | _ | _ <;> rfl
@[simp] theorem true_or3 (a : Option Bool) : or3 (some true) a = some true := by rcases a with _ | _ | _ <;> rfl

/-- `a AND b` is TRUE exactly when both are TRUE -/
theorem and3_eq_true (a b : Option Bool) : and3 a b = some true ↔ a = some true ∧ b = some true := by
  rcases a with _ | _ | _ <;> rcases b with _ | _ | _ <;> simp [and3]

/-- `a OR b` is TRUE exactly when one of them is TRUE -/
theorem or3_eq_true (a b : Option Bool) : or3 a b = some true ↔ a = some true ∨ b = some true := by
  rcases a with _ | _ | _ <;> rcases b with _ | _ | _ <;> simp [or3]

theorem and3_eq_false (a b : Option Bool) : and3 a b = some false ↔ a = some false ∨ b = some false := by
  rcases a with _ | _ | _ <;> rcases b with _ | _ | _ <;> simp [and3]

theorem or3_eq_false (a b : Option Bool) : or3 a b = some false ↔ a = some false ∧ b = some false := by
  rcases a with _ | _ | _ <;> rcases b with _ | _ | _ <;> simp [or3]

/-- NULL AND b is NULL unless b is FALSE; NULL OR b is NULL unless b is TRUE -/
theorem none_and3 (b : Option Bool) : and3 none b = if b = some false then some false else none := by
  rcases b with _ | _ | _ <;> rfl

theorem none_or3 (b : Option Bool) : or3 none b = if b = some true then some true else none := by
  rcases b with _ | _ | _ <;> rfl

theorem not3_eq_true (a : Option Bool) : not3 a = some true ↔ a = some false := by
  rcases a with _ | _ | _ <;> simp [not3]

theorem not3_eq_false (a : Option Bool) : not3 a = some false ↔ a = some true := by
  rcases a with _ | _ | _ <;> simp [not3]

@[simp] theorem not3_eq_none (a : Option Bool) : not3 a = none ↔ a = none := by
  rcases a with _ | _ | _ <;> simp [not3]

/-! ### expressions -/

/-- De Morgan under Kleene logic -/
theorem eval3_not_and (a b : Expr) (r : Row) : eval3 (.not (.and a b)) r = eval3 (.or (.not a) (.not b)) r := by
  simp [eval3, not3_and3]

theorem eval3_not_or (a b : Expr) (r : Row) : eval3 (.not (.or a b)) r = eval3 (.and (.not a) (.not b)) r := by
  simp [eval3, not3_or3]

/-- `NOT NOT e = e` (also on NULL) -/
theorem eval3_not_not (e : Expr) (r : Row) : eval3 (.not (.not e)) r = eval3 e r := by
  simp [eval3]

theorem eval3_and_comm (a b : Expr) (r : Row) : eval3 (.and a b) r = eval3 (.and b a) r := by
  simp [eval3, and3_comm]

theorem eval3_or_comm (a b : Expr) (r : Row) : eval3 (.or a b) r = eval3 (.or b a) r := by
  simp [eval3, or3_comm]

/-- NULL propagation: a comparison whose column cell is NULL is NULL, whatever the operator and the other side -/
theorem eval3_cmp_null (op : Cmp) (c : Nat) (rhs : Operand) (r : Row) (h : cellAt r c = none) :
    eval3 (.cmp op c rhs) r = none := by
  simp [eval3, h, cmp3]

theorem eval3_cmp_null_rhs (op : Cmp) (c d : Nat) (r : Row) (h : cellAt r d = none) :
    eval3 (.cmp op c (.col d)) r = none := by
  simp only [eval3, Operand.value, h]
  cases cellAt r c <;> rfl

theorem eval3_in_null (c : Nat) (vs : List (Option Int)) (r : Row) (h : cellAt r c = none) :
    eval3 (.inList c vs) r = none := by
  simp [eval3, h, in3]

theorem eval3_between_null (c : Nat) (lo hi : Int) (r : Row) (h : cellAt r c = none) :
    eval3 (.between c lo hi) r = none := by
  simp [eval3, h, between3]

/-- `x IN (…, NULL, …)` is never FALSE -/
theorem eval3_in_with_null_ne_false (c : Nat) (vs : List (Option Int)) (r : Row) (h : none ∈ vs) :
    eval3 (.inList c vs) r ≠ some false := by
  simp only [eval3]
  cases hx : cellAt r c with
  | none => simp [in3]
  | some x =>
    simp only [in3]
    split
    · simp
    · simp [h]

/-- IS NULL / IS NOT NULL are never NULL and are each other's negation -/
theorem eval3_isNull_ne_none (c : Nat) (r : Row) : eval3 (.isNull c) r ≠ none := by simp [eval3]

theorem eval3_notNull_eq_not_isNull (c : Nat) (r : Row) : eval3 (.notNull c) r = eval3 (.not (.isNull c)) r := by
  simp only [eval3, not3]
  cases cellAt r c <;> rfl

/-- BETWEEN is the conjunction of the two comparisons -/
theorem eval3_between_eq (c : Nat) (lo hi : Int) (r : Row) :
    eval3 (.between c lo hi) r = eval3 (.and (.cmp .ge c (.lit lo)) (.cmp .le c (.lit hi))) r := by
  simp only [eval3, Operand.value]
  cases cellAt r c with
  | none => rfl
  | some x =>
    simp only [between3, cmp3, Cmp.holds]
    by_cases h1 : lo ≤ x <;> by_cases h2 : x ≤ hi <;> simp [h1, h2, and3]

/-- a predicate and its negation are TRUE on disjoint rows, and both miss exactly the NULL rows -/
theorem isTrue_not (e : Expr) (r : Row) : isTrue (.not e) r = (eval3 e r == some false) := by
  simp only [isTrue, eval3]
  rcases eval3 e r with _ | _ | _ <;> rfl

theorem isTrue_and (a b : Expr) (r : Row) : isTrue (.and a b) r = (isTrue a r && isTrue b r) := by
  simp only [isTrue, eval3]
  rcases eval3 a r with _ | _ | _ <;> rcases eval3 b r with _ | _ | _ <;> rfl

theorem isTrue_or (a b : Expr) (r : Row) : isTrue (.or a b) r = (isTrue a r || isTrue b r) := by
  simp only [isTrue, eval3]
  rcases eval3 a r with _ | _ | _ <;> rcases eval3 b r with _ | _ | _ <;> rfl

theorem null_row_in_neither (e : Expr) (r : Row) (h : eval3 e r = none) : isTrue e r = false ∧ isTrue (.not e) r = false := by
  simp [isTrue, eval3, h, not3]

end LanceModel.Query
